package main

import (
	"bytes"
	"encoding/binary"
	"fmt"
	"math"
	"reflect"
)

// Host value types handed to Driver.MemCopyH2D / MemCopyD2H. Everything
// encoding/binary accepts: slices of fixed-size values, fixed arrays, structs
// (by value and by pointer). The harness converts raw bytes <-> typed values
// with its own little-endian reflection walk (not with encoding/binary, which
// is part of the path under test).

// S22 is a packed 22-byte struct (binary.Write does not pad).
type S22 struct {
	A uint8
	B uint16
	C uint32
	D uint64
	E [3]int8
	F float32
}

// SNest is 62 bytes.
type SNest struct {
	X [2]S22
	Y complex64
	Z [5]int16
}

// SBig is 4162 bytes: always longer than a page.
type SBig struct {
	Hdr [60]byte
	V   [1024]uint32
	T   uint32
	U   uint16
}

type elemType struct {
	Name  string
	T     reflect.Type
	Slice bool // variable length; Unit = element size
	Unit  int  // element size (slice) or total size (fixed)
	ByPtr bool // H2D source passed as pointer (fixed types)
}

func sizeOfType(t reflect.Type) int {
	switch t.Kind() {
	case reflect.Uint8, reflect.Int8:
		return 1
	case reflect.Uint16, reflect.Int16:
		return 2
	case reflect.Uint32, reflect.Int32, reflect.Float32:
		return 4
	case reflect.Uint64, reflect.Int64, reflect.Float64, reflect.Complex64:
		return 8
	case reflect.Complex128:
		return 16
	case reflect.Array:
		return t.Len() * sizeOfType(t.Elem())
	case reflect.Struct:
		n := 0
		for i := 0; i < t.NumField(); i++ {
			n += sizeOfType(t.Field(i).Type)
		}
		return n
	}
	panic("unsupported type " + t.String())
}

var elemTypes []elemType

func init() {
	sl := func(name string, v any) {
		t := reflect.TypeOf(v)
		elemTypes = append(elemTypes, elemType{Name: name, T: t, Slice: true, Unit: sizeOfType(t.Elem())})
	}
	fx := func(name string, v any) {
		t := reflect.TypeOf(v)
		elemTypes = append(elemTypes, elemType{Name: name, T: t, Unit: sizeOfType(t)})
		elemTypes = append(elemTypes, elemType{Name: "*" + name, T: t, Unit: sizeOfType(t), ByPtr: true})
	}
	sl("[]byte", []byte{})
	sl("[]int8", []int8{})
	sl("[]uint16", []uint16{})
	sl("[]int16", []int16{})
	sl("[]int32", []int32{})
	sl("[]uint32", []uint32{})
	sl("[]float32", []float32{})
	sl("[]uint64", []uint64{})
	sl("[]int64", []int64{})
	sl("[]float64", []float64{})
	sl("[]complex64", []complex64{})
	sl("[]S22", []S22{})
	sl("[][3]uint16", [][3]uint16{})
	sl("[]SNest", []SNest{})
	fx("[1]byte", [1]byte{})
	fx("[3]uint8", [3]uint8{})
	fx("[5]uint16", [5]uint16{})
	fx("[16]uint32", [16]uint32{})
	fx("[65]byte", [65]byte{})
	fx("[1025]uint32", [1025]uint32{})
	fx("[513]uint64", [513]uint64{})
	fx("S22", S22{})
	fx("SNest", SNest{})
	fx("SBig", SBig{})
	fx("[2]SBig", [2]SBig{})
	for _, t := range elemTypes {
		// cross-check the harness' size computation once against the library
		var n int
		if t.Slice {
			n = binary.Size(reflect.MakeSlice(t.T, 1, 1).Interface())
		} else {
			n = binary.Size(reflect.New(t.T).Interface())
		}
		if n != t.Unit {
			panic(fmt.Sprintf("size of %s: harness %d, binary.Size %d", t.Name, t.Unit, n))
		}
	}
}

func typeByName(name string) elemType {
	for _, t := range elemTypes {
		if t.Name == name {
			return t
		}
	}
	panic("no type " + name)
}

// decodeInto fills v (settable) from little-endian raw bytes and returns the rest.
func decodeInto(v reflect.Value, in []byte) []byte {
	switch v.Kind() {
	case reflect.Uint8:
		v.SetUint(uint64(in[0]))
		return in[1:]
	case reflect.Int8:
		v.SetInt(int64(int8(in[0])))
		return in[1:]
	case reflect.Uint16:
		v.SetUint(uint64(binary.LittleEndian.Uint16(in)))
		return in[2:]
	case reflect.Int16:
		v.SetInt(int64(int16(binary.LittleEndian.Uint16(in))))
		return in[2:]
	case reflect.Uint32:
		v.SetUint(uint64(binary.LittleEndian.Uint32(in)))
		return in[4:]
	case reflect.Int32:
		v.SetInt(int64(int32(binary.LittleEndian.Uint32(in))))
		return in[4:]
	case reflect.Float32:
		*(v.Addr().Interface().(*float32)) = math.Float32frombits(binary.LittleEndian.Uint32(in))
		return in[4:]
	case reflect.Uint64:
		v.SetUint(binary.LittleEndian.Uint64(in))
		return in[8:]
	case reflect.Int64:
		v.SetInt(int64(binary.LittleEndian.Uint64(in)))
		return in[8:]
	case reflect.Float64:
		v.SetFloat(math.Float64frombits(binary.LittleEndian.Uint64(in)))
		return in[8:]
	case reflect.Complex64:
		re := math.Float32frombits(binary.LittleEndian.Uint32(in))
		im := math.Float32frombits(binary.LittleEndian.Uint32(in[4:]))
		*(v.Addr().Interface().(*complex64)) = complex(re, im)
		return in[8:]
	case reflect.Array, reflect.Slice:
		if v.Type().Elem().Kind() == reflect.Uint8 {
			n := v.Len()
			reflect.Copy(v, reflect.ValueOf(in[:n]))
			return in[n:]
		}
		for i := 0; i < v.Len(); i++ {
			in = decodeInto(v.Index(i), in)
		}
		return in
	case reflect.Struct:
		for i := 0; i < v.NumField(); i++ {
			in = decodeInto(v.Field(i), in)
		}
		return in
	}
	panic("decode: unsupported kind " + v.Kind().String())
}

// encodeFrom appends the little-endian bytes of v.
func encodeFrom(v reflect.Value, out []byte) []byte {
	switch v.Kind() {
	case reflect.Uint8:
		return append(out, byte(v.Uint()))
	case reflect.Int8:
		return append(out, byte(v.Int()))
	case reflect.Uint16:
		return binary.LittleEndian.AppendUint16(out, uint16(v.Uint()))
	case reflect.Int16:
		return binary.LittleEndian.AppendUint16(out, uint16(v.Int()))
	case reflect.Uint32:
		return binary.LittleEndian.AppendUint32(out, uint32(v.Uint()))
	case reflect.Int32:
		return binary.LittleEndian.AppendUint32(out, uint32(v.Int()))
	case reflect.Float32:
		return binary.LittleEndian.AppendUint32(out, math.Float32bits(*(v.Addr().Interface().(*float32))))
	case reflect.Uint64:
		return binary.LittleEndian.AppendUint64(out, v.Uint())
	case reflect.Int64:
		return binary.LittleEndian.AppendUint64(out, uint64(v.Int()))
	case reflect.Float64:
		return binary.LittleEndian.AppendUint64(out, math.Float64bits(v.Float()))
	case reflect.Complex64:
		c := *(v.Addr().Interface().(*complex64))
		out = binary.LittleEndian.AppendUint32(out, math.Float32bits(real(c)))
		return binary.LittleEndian.AppendUint32(out, math.Float32bits(imag(c)))
	case reflect.Array, reflect.Slice:
		if v.Type().Elem().Kind() == reflect.Uint8 {
			n := v.Len()
			tmp := make([]byte, n)
			reflect.Copy(reflect.ValueOf(tmp), v)
			return append(out, tmp...)
		}
		for i := 0; i < v.Len(); i++ {
			out = encodeFrom(v.Index(i), out)
		}
		return out
	case reflect.Struct:
		for i := 0; i < v.NumField(); i++ {
			out = encodeFrom(v.Field(i), out)
		}
		return out
	}
	panic("encode: unsupported kind " + v.Kind().String())
}

// hostValue builds the H2D source for raw (len(raw) multiple of t.Unit, or
// equal to it for fixed types).
func hostValue(t elemType, raw []byte) any {
	if t.Slice {
		v := reflect.MakeSlice(t.T, len(raw)/t.Unit, len(raw)/t.Unit)
		decodeInto(v, raw)
		return v.Interface()
	}
	p := reflect.New(t.T)
	decodeInto(p.Elem(), raw)
	if t.ByPtr {
		return p.Interface()
	}
	return p.Elem().Interface()
}

// hostDest builds a D2H destination of n bytes pre-filled with 0xEE and a
// function returning its bytes.
func hostDest(t elemType, n int) (dst any, bytesOf func() []byte) {
	fill := make([]byte, n)
	for i := range fill {
		fill[i] = 0xEE
	}
	if t.Slice {
		v := reflect.MakeSlice(t.T, n/t.Unit, n/t.Unit)
		decodeInto(v, fill)
		return v.Interface(), func() []byte { return encodeFrom(v, make([]byte, 0, n)) }
	}
	p := reflect.New(t.T)
	decodeInto(p.Elem(), fill)
	return p.Interface(), func() []byte { return encodeFrom(p.Elem(), make([]byte, 0, n)) }
}

// encoding/binary (Go standard library, trusted) moves float32 struct fields,
// array elements and complex64 values through float64, which turns a
// signalling NaN into a quiet one (bit 22 of the float32). That is a property
// of the host library, not of the simulator, so the expected bytes are taken
// from the library and the harness only checks that they differ from its own
// little-endian encoding in that one bit.

func onlyQuietBitDiffers(a, b []byte) bool {
	if len(a) != len(b) {
		return false
	}
	for i := range a {
		if a[i] != b[i] && a[i]^b[i] != 0x40 {
			return false
		}
	}
	return true
}

// h2dExpected returns the bytes the library encodes for val (what an H2D has
// to store), cross-checked against the harness' own encoding raw.
func h2dExpected(val any, raw []byte) []byte {
	var buf bytes.Buffer
	if err := binary.Write(&buf, binary.LittleEndian, val); err != nil {
		panic(err)
	}
	if !onlyQuietBitDiffers(buf.Bytes(), raw) {
		panic("harness: own encoding differs from encoding/binary in more than the NaN quiet bit")
	}
	return buf.Bytes()
}

// d2hExpected returns the harness encoding of the value the library decodes
// from device bytes dev into a destination of type t.
func d2hExpected(t elemType, dev []byte) []byte {
	dst, bytesOf := hostDest(t, len(dev))
	if err := binary.Read(bytes.NewReader(dev), binary.LittleEndian, dst); err != nil {
		panic(err)
	}
	out := bytesOf()
	if !onlyQuietBitDiffers(out, dev) {
		panic("harness: own decoding differs from encoding/binary in more than the NaN quiet bit")
	}
	return out
}
