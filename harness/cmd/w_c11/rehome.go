package main

import (
	"fmt"
	"os"
	"sort"

	"github.com/sarchlab/mgpusim/v4/amd/driver"

	"verifharness/vlib/kern"
)

// Re-homing in mid-history.
//
// Driver.Remap / Driver.Distribute give existing virtual pages NEW physical
// frames (possibly in another GPU's memory). They do not move data
// (memoryAllocatorImpl.Remap only allocates frames and updates the page
// table), so the contents of a re-homed range are undefined until it has been
// rewritten; the generator rewrites the whole range immediately (H2D pieces
// and/or the driver's device copy kernel) and the model refuses every read of
// a byte that is still undefined (mustBeDefined: harness bug, not a verdict).
//
// What the property demands afterwards is exactly what it demands of any
// other page: a kernel launched later must see the bytes of the last H2D, and
// a D2H must observe the writes of every completed kernel - also when the
// kernel runs on a compute unit / GPU that used the OLD frame of the page
// before. The motif therefore (1) lets kernels read and write the range on
// one queue (= one GPU) until every compute unit of that GPU has had a
// work-group in it, (2) re-homes it, (3) redefines it, (4) launches kernels
// over it again on the same queue (grids of >= 64 work-groups, or smaller
// grids three times, optionally with a small kernel elsewhere in between that
// moves the dispatcher's compute-unit cursor) and reads everything back.

// rehomeEvery: one in N generated steps is a re-homing motif.
var rehomeEvery = map[string]int{"emu": 14, "dma": 9, "tmagic": 6}

// rehomeEnabled: C11_REHOME=<list of paths|none> restricts the seeded
// re-homing steps (development switch; default = every path).
func rehomeEnabled(path string) bool {
	v := os.Getenv("C11_REHOME")
	if v == "" {
		return true
	}
	for _, p := range splitComma(v) {
		if p == path {
			return true
		}
	}
	return false
}

func splitComma(s string) []string {
	var out []string
	cur := ""
	for _, ch := range s {
		if ch == ',' {
			out = append(out, cur)
			cur = ""
			continue
		}
		cur += string(ch)
	}
	return append(out, cur)
}

// ---------------------------------------------------------------------------
// model

func (m *ctxModel) refreshPages(d *driver.Driver, p0, np int) (changed, moved int) {
	pt := d.VerifPageTable()
	for pg := p0; pg < p0+np; pg++ {
		page, ok := pt.Find(m.pid, m.pageVA[pg])
		if !ok {
			panic("harness: page not mapped")
		}
		dv := d.VerifDeviceIDByPAddr(page.PAddr)
		if m.pagePA[pg] != page.PAddr {
			changed++
		}
		if m.pageDv[pg] != dv {
			moved++
		}
		m.pagePA[pg], m.pageDv[pg] = page.PAddr, dv
	}
	for i := range m.bufs {
		b := &m.bufs[i]
		b.Devs, b.Adj = nil, nil
		for pg := 0; pg < b.Pages; pg++ {
			g := b.Off/pageSize + pg
			b.Devs = append(b.Devs, m.pageDv[g])
			if pg+1 < b.Pages {
				b.Adj = append(b.Adj, m.pagePA[g+1] == m.pagePA[g]+pageSize)
			}
		}
	}
	return
}

func (m *ctxModel) define(off, n int) {
	if m.nUndef == 0 {
		return
	}
	for i := off; i < off+n; i++ {
		if m.undef[i] {
			m.undef[i] = false
			m.nUndef--
		}
	}
}

func (m *ctxModel) mustBeDefined(off, n int, who string) {
	if m.nUndef == 0 {
		return
	}
	for i := off; i < off+n; i++ {
		if m.undef[i] {
			panic(fmt.Sprintf("harness: %s reads arena byte %d of ctx%d, undefined since its page was re-homed", who, i, m.id))
		}
	}
}

// touch records that a kernel launched on GPU gpu reads / writes [off,off+n).
func (m *ctxModel) touch(c *child, gpu, off, n int) {
	reh, stale := false, false
	for pg := off / pageSize; pg <= (off+n-1)/pageSize; pg++ {
		if m.rehOp[pg] >= 0 {
			reh = true
			if m.rehStale[pg]&(1<<gpu) != 0 {
				stale = true
			}
		}
		m.kTouch[pg] |= 1 << gpu
	}
	if reh {
		c.count("kernels_touching_a_rehomed_page|"+c.path, 1)
	}
	if stale {
		// the GPU this kernel runs on used the OLD frame of one of its pages
		c.count("kernels_rereading_a_rehomed_page|"+c.path, 1)
	}
}

// noteReadOfRehomed counts D2H results whose range holds a page that was
// re-homed and then written by a kernel.
func (m *ctxModel) noteReadOfRehomed(c *child, pd *pendingRead) {
	lo, hi := pd.op.Off, pd.op.Off+pd.op.N
	any, afterKernel, staleGPU := false, false, false
	for pg := lo / pageSize; pg <= (hi-1)/pageSize; pg++ {
		if m.rehOp[pg] < 0 || int(m.rehOp[pg]) > pd.op.Idx {
			continue
		}
		any = true
		o := max(lo, pg*pageSize)
		if w := m.lastWriterOf(o, pd.op.Idx); w != nil && w.Kind == "kernel" && w.Idx > int(m.rehOp[pg]) {
			afterKernel = true
			if m.rehStale[pg]&(1<<w.gpu) != 0 {
				staleGPU = true
			}
		}
	}
	if any {
		c.count("d2h_of_rehomed_pages|"+c.path, 1)
	}
	if afterKernel {
		c.count("d2h_of_rehomed_pages_after_kernel_write|"+c.path, 1)
	}
	if staleGPU {
		c.count("d2h_of_rehomed_pages_after_write_by_kernel_on_gpu_that_used_old_frame|"+c.path, 1)
	}
}

// rehomeTag: key suffix of a mismatch whose first differing byte lies on a
// page that was re-homed before the read (or was copied by a device copy kernel
// from such a page).
func (m *ctxModel) rehomeTag(o int, w *opRec, readerIdx int) string {
	if r := m.rehOp[o/pageSize]; r >= 0 && int(r) < readerIdx {
		if w != nil && w.Kind == "kernel" && w.Idx > int(r) && m.rehStale[o/pageSize]&(1<<w.gpu) != 0 {
			// the last writer is a kernel on a GPU that had used the page's OLD frame
			return "+rehomed-after-use-by-that-gpu"
		}
		return "+rehomed"
	}
	if w != nil && w.src > 0 {
		so := w.src - 1 + (o - w.Off)
		if r := m.rehOp[so/pageSize]; r >= 0 && int(r) < w.Idx {
			return "+rehomed-source"
		}
	}
	return ""
}

func (m *ctxModel) rehomeHistory(pg int) []string {
	var out []string
	for _, o := range m.ops {
		if o.Kind == "rehome" && o.Off <= pg*pageSize && pg*pageSize < o.Off+o.N {
			out = append(out, o.String())
		}
	}
	return out
}

// findDisjoint: a dword-aligned arena range of n bytes that does not overlap
// [alo,ahi) (DMA path: inside the requested extent of one buffer). -1 if none.
func (th *thread) findDisjoint(m *ctxModel, n, alo, ahi int) int {
	r := th.r
	S := len(m.shadow)
	for try := 0; try < 30; try++ {
		var o int
		if th.c.path == "dma" {
			b := m.bufs[r.Intn(len(m.bufs))]
			if b.Size < n {
				continue
			}
			o = b.Off + 4*r.Intn((b.Size-n)/4+1)
		} else {
			if S < n {
				return -1
			}
			o = 4 * r.Intn((S-n)/4+1)
			if r.Bool() {
				o = o / 256 * 256
			}
		}
		if o+n <= alo || o >= ahi {
			return o
		}
	}
	return -1
}

// ---------------------------------------------------------------------------
// the step

type rehomeSpec struct {
	Off, N   int    // re-homed arena range (whole pages)
	How      string // remap | distribute
	GPUs     []int  // remap: the target; distribute: >= 2 targets
	Q        int    // queue (= GPU) of the kernels before and after
	KOff, KE int    // kernel range: arena offset, elements (multiple of 64); KE == 0: no kernels
	Pre      int    // kernel launches over the kernel range before the re-homing
	Redef    string // h2d | d2d | mixed: how the range is rewritten
	Src      int    // arena offset of the device copy kernel's source, -1 none
	Post     int    // kernel launches over the kernel range after the rewrite
	ShiftOff int    // between post launches: a small kernel elsewhere on the same queue
	ShiftE   int    //   (moves the dispatcher's compute-unit cursor); 0 = none
	CopyTo   int    // >= 0: a device copy kernel finally copies the re-homed range to this arena offset
	OtherQ   bool   // one more kernel + D2H through a queue of another GPU (if there is one)
	PostQ1   int    // queue + 1 of the kernels AFTER the re-homing; 0 = the same queue as before (Q)
}

func (sp rehomeSpec) String() string {
	return fmt.Sprintf("%s[%d,+%d)->%v q%d kernel[%d,+%d) pre=%d redef=%s(src %d) post=%d shift=[%d,+%d) copyto=%d otherq=%v",
		sp.How, sp.Off, sp.N, sp.GPUs, sp.Q, sp.KOff, 4*sp.KE, sp.Pre, sp.Redef, sp.Src, sp.Post, sp.ShiftOff, 4*sp.ShiftE, sp.CopyTo, sp.OtherQ)
}

// rehome performs the API call with nothing outstanding and updates the model.
func (th *thread) rehome(m *ctxModel, sp rehomeSpec) {
	c := th.c
	th.drainAll()
	p0, np := sp.Off/pageSize, sp.N/pageSize
	touched, host := 0, 0
	for pg := p0; pg < p0+np; pg++ {
		if m.kTouch[pg] != 0 {
			touched++
		}
		if m.good[pg*pageSize] >= 0 {
			host++ // a host copy has filled the page and a D2H has read it back
		}
	}
	switch sp.How {
	case "remap":
		c.d.Remap(m.ctx, uint64(m.ptr(sp.Off)), uint64(sp.N), sp.GPUs[0])
	case "distribute":
		c.d.Distribute(m.ctx, m.ptr(sp.Off), uint64(sp.N), sp.GPUs)
	default:
		panic("harness: rehome kind")
	}
	changed, moved := m.refreshPages(c.d, p0, np)
	o := opRec{Idx: len(m.ops), Kind: "rehome", Off: sp.Off, N: sp.N, Q: sp.Q, Extra: fmt.Sprintf("%s->%v now on %v", sp.How, sp.GPUs, m.pageDv[p0:p0+np])}
	m.ops = append(m.ops, o)
	for pg := p0; pg < p0+np; pg++ {
		m.rehOp[pg] = int32(o.Idx)
		m.rehStale[pg] = m.kTouch[pg]
	}
	for i := sp.Off; i < sp.Off+sp.N; i++ {
		if !m.undef[i] {
			m.undef[i] = true
			m.nUndef++
		}
		m.good[i] = -1
	}
	c.count("rehoming_steps|"+c.path, 1)
	c.count("rehoming_steps|"+c.path+"|"+sp.How, 1)
	c.count("rehomed_pages", int64(np))
	c.count("rehomed_pages_whose_frame_changed", int64(changed))
	c.count("rehomed_pages_moved_to_another_gpu", int64(moved))
	if changed != np {
		c.count("rehomed_pages_whose_frame_did_not_change", int64(np-changed))
	}
	if touched > 0 && host > 0 && changed > 0 {
		c.count("rehoming_steps_of_touched_pages|"+c.path, 1)
	}
	if host > 0 && changed > 0 {
		c.count("rehoming_steps_of_host_filled_pages|"+c.path, 1)
	}
	c.distinct("rehoming_kinds", fmt.Sprintf("%s|%s|%dgpu|pages%d|touched%v", c.path, sp.How, len(sp.GPUs), min(np, 8), touched > 0))
}

func (th *thread) rehomeMotif(m *ctxModel, sp rehomeSpec) {
	c := th.c
	r := th.r
	save := th.fq
	defer func() { th.fq = save }()
	bt, u32 := typeByName("[]byte"), typeByName("[]uint32")
	kernels := c.path != "tmagic" && sp.KE > 0
	rop := func() (kern.Op, uint32) { return kern.Op(r.Intn(3)), 1 + 2*uint32(r.Intn(1000)) }
	readK := func() {
		t := bt
		if r.Bool() {
			t = u32
		}
		th.fq = save
		th.d2h(m, sp.KOff, 4*sp.KE, t, r.Chance(1, 3), "d2h", -1)
		th.nOps++
	}
	if debugTrace {
		fmt.Printf("ctx%d rehome motif %v\n", m.id, sp)
	}

	// (1) before: kernels read and write the range; a D2H observes them
	if kernels && sp.Pre > 0 {
		for i := 0; i < sp.Pre; i++ {
			th.fq = sp.Q
			op, cst := rop()
			th.kernel(m, sp.KOff, sp.KE, op, cst, false)
		}
		readK()
	}

	// (2) new frames
	th.rehome(m, sp)

	// (3) rewrite the whole range
	d2dN := 0
	switch {
	case !kernels || sp.Src < 0:
	case sp.Redef == "d2d":
		d2dN = sp.N
	case sp.Redef == "mixed" && sp.N >= 2*pageSize:
		d2dN = (1 + r.Intn(sp.N/pageSize-1)) * pageSize
	}
	if d2dN > 0 {
		th.fq = sp.Q
		th.d2dKernel(m, sp.Off, sp.Src, d2dN)
		c.count("rehomed_ranges_first_written_by_a_kernel", 1)
	}
	if d2dN < sp.N {
		lo, hi := sp.Off+d2dN, sp.Off+sp.N
		cutHi := hi
		if c.path == "dma" {
			// every piece has to overlap the requested extent of the buffer
			b := m.bufs[m.bufAt(lo)]
			cutHi = min(hi, b.Off+b.Size)
		}
		cuts := []int{lo, hi}
		for k := r.Intn(4); k > 0 && cutHi-lo > 1; k-- {
			cuts = append(cuts, lo+1+r.Intn(cutHi-lo-1))
		}
		sort.Ints(cuts)
		th.fq = save
		for i := 0; i+1 < len(cuts); i++ {
			if cuts[i+1] > cuts[i] {
				t := bt
				if (cuts[i+1]-cuts[i])%4 == 0 && r.Bool() {
					t = u32
				}
				th.h2d(m, cuts[i], cuts[i+1]-cuts[i], t, r.Chance(1, 3), "h2d")
				th.nOps++
			}
		}
	}
	m.mustBeDefined(sp.Off, sp.N, "end of re-homing rewrite")
	if r.Chance(1, 2) {
		th.fq = save
		th.d2h(m, sp.Off, sp.N, bt, r.Chance(1, 3), "d2h", -1)
		th.nOps++
	}

	// (4) after: kernels over the range on the queue that touched it before
	if sp.PostQ1 > 0 {
		sp.Q = sp.PostQ1 - 1
	}
	if kernels {
		for i := 0; i < sp.Post; i++ {
			th.fq = sp.Q
			if i > 0 && sp.ShiftE > 0 {
				op, cst := rop()
				th.kernel(m, sp.ShiftOff, sp.ShiftE, op, cst, false)
			}
			op, cst := rop()
			th.kernel(m, sp.KOff, sp.KE, op, cst, false)
			if i == sp.Post-1 || r.Chance(1, 2) {
				readK()
			}
		}
		if sp.CopyTo >= 0 {
			th.fq = sp.Q
			th.d2dKernel(m, sp.CopyTo, sp.Off, sp.N)
			th.fq = save
			th.d2h(m, sp.CopyTo, sp.N, bt, r.Chance(1, 3), "d2h", -1)
			th.nOps++
			c.count("kernels_copying_a_rehomed_range_elsewhere", 1)
		}
		// H2D into the kernel's range, kernel, D2H
		s := sp.KOff + r.Intn(4*sp.KE)
		n := 1 + r.Intn(min(300, sp.KOff+4*sp.KE-s))
		th.fq = save
		th.h2d(m, s, n, bt, r.Chance(1, 3), "h2d")
		th.nOps++
		th.fq = sp.Q
		op, cst := rop()
		th.kernel(m, sp.KOff, sp.KE, op, cst, false)
		readK()
		if sp.OtherQ {
			for q, g := range m.qGPU {
				if g != m.qGPU[sp.Q] {
					th.fq = q
					op, cst := rop()
					th.kernel(m, sp.KOff, sp.KE, op, cst, false)
					readK()
					break
				}
			}
		}
	}
	th.fq = save
	lo, hi := th.neighbourhood(m, sp.Off, sp.N)
	th.verify(m, lo, hi, r.Intn(3), -1)
	th.drainAll()
	c.count("rehome_motifs|"+c.path, 1)
	if kernels && 4*sp.KE >= 64*256 {
		c.count("rehome_motifs_with_grids_of_64_or_more_work_groups|"+c.path, 1)
	} else if kernels {
		c.count("rehome_motifs_with_small_grids_repeated|"+c.path, 1)
	}
}

// rehomeStep generates one motif.
func (th *thread) rehomeStep() {
	c := th.c
	r := th.r
	m := th.ms[r.Intn(len(th.ms))]
	S := len(m.shadow)
	ng := c.cfg.NGPU
	var b bufInfo
	p0, np := 0, 0
	for try := 0; ; try++ {
		b = m.bufs[r.Intn(len(m.bufs))]
		p0, np = 0, b.Pages
		if b.Pages > 1 && r.Chance(1, 2) {
			p0 = r.Intn(b.Pages)
			np = 1 + r.Intn(b.Pages-p0)
		}
		if c.path != "dma" {
			break
		}
		// Timing platform with kernels: Remap / Distribute do not shoot down the
		// GPUs' TLBs (finding C11|dma|...+rehomed-after-use-by-that-gpu, shown by
		// canon-dma-rehome), so the seeded steps re-home only pages that no kernel
		// has touched yet: filled and read back by host copies, first touched by a
		// kernel after they got their new frames.
		var used uint8
		for pg := p0; pg < p0+np; pg++ {
			used |= m.kTouch[b.Off/pageSize+pg]
		}
		if used == 0 {
			break
		}
		if try == 12 {
			c.count("rehoming_steps_skipped_every_candidate_page_touched_by_kernels|dma", 1)
			th.drainAll()
			return
		}
	}
	sp := rehomeSpec{Off: b.Off + p0*pageSize, N: np * pageSize, Src: -1, CopyTo: -1}
	if ng >= 2 && np >= 2 && r.Chance(2, 5) {
		sp.How = "distribute"
		k := 2 + r.Intn(ng-1)
		sp.GPUs = r.Perm(ng)[:k]
		for j := range sp.GPUs {
			sp.GPUs[j]++
		}
	} else {
		sp.How = "remap"
		sp.GPUs = []int{1 + r.Intn(ng)}
	}
	// kernel range
	klo, khi := sp.Off, sp.Off+sp.N
	if c.path == "dma" {
		khi = min(khi, b.Off+b.Size)
	} else if r.Chance(1, 2) {
		// widen to >= 64 work-groups (16 KiB) where the arena allows
		for khi-klo < 64*256 && (klo > 0 || khi < S) {
			if klo > 0 && (khi >= S || r.Bool()) {
				klo -= pageSize
			} else {
				khi += pageSize
			}
		}
		if r.Chance(1, 3) && khi-klo > 1024 {
			klo += 4 * (1 + r.Intn(63)) // dword aligned, not line aligned
		}
	}
	sp.KOff, sp.KE = klo, (khi-klo)/256*64
	if c.path == "tmagic" {
		sp.KE = 0
	}
	// the queue: preferably one whose GPU has used the range before
	sp.Q = r.Intn(len(m.queues))
	var used uint8
	for pg := p0; pg < p0+np; pg++ {
		used |= m.kTouch[b.Off/pageSize+pg]
	}
	if used != 0 && r.Chance(3, 4) {
		var qs []int
		for q, g := range m.qGPU {
			if used&(1<<g) != 0 {
				qs = append(qs, q)
			}
		}
		if len(qs) > 0 {
			sp.Q = qs[r.Intn(len(qs))]
		}
	}
	if sp.KE > 0 {
		wgs := sp.KE / 64
		if c.path != "dma" && (r.Chance(3, 4) || used == 0) {
			// until every one of the 64 compute units has had a work-group in it
			sp.Pre = min(4, (64+wgs-1)/wgs)
		}
		if wgs >= 64 {
			sp.Post = 1 + r.Intn(2)
		} else {
			sp.Post = 3
		}
		if c.path == "dma" {
			sp.Post = min(sp.Post, 2)
		}
		sp.Redef = []string{"h2d", "d2d", "mixed"}[r.Intn(3)]
		if sp.Redef != "h2d" {
			sp.Src = th.findDisjoint(m, sp.N, min(sp.Off, klo), max(sp.Off+sp.N, khi))
		}
		if r.Chance(1, 2) {
			e := 64 * (1 + r.Intn(3))
			if o := th.findDisjoint(m, 4*e, min(sp.Off, klo), max(sp.Off+sp.N, khi)); o >= 0 {
				sp.ShiftOff, sp.ShiftE = o, e
			}
		}
		if r.Chance(1, 3) {
			sp.CopyTo = th.findDisjoint(m, sp.N, min(sp.Off, klo), max(sp.Off+sp.N, khi))
		}
		sp.OtherQ = r.Chance(1, 3)
	}
	th.rehomeMotif(m, sp)
}

// kernelWritesSinceRehomingMissing: the page of arena byte o was re-homed, the
// byte was then written by an H2D and afterwards only by kernels, and the value
// read back (got) is exactly what that H2D left there: the frame the host copy
// paths use has not seen any of the kernels' writes.
func (m *ctxModel) kernelWritesSinceRehomingMissing(o, readerIdx int, got byte) bool {
	r := int(m.rehOp[o/pageSize])
	if r < 0 || r >= readerIdx {
		return false
	}
	var ws []*opRec
	for k := r + 1; k < min(readerIdx, len(m.ops)); k++ {
		if w := &m.ops[k]; (w.Kind == "h2d" || w.Kind == "kernel") && o >= w.Off && o < w.Off+w.N {
			ws = append(ws, w)
		}
	}
	last := -1
	for k, w := range ws {
		if w.Kind == "h2d" {
			last = k
		}
	}
	if last < 0 || last == len(ws)-1 || ws[last+1].old == nil {
		return false
	}
	return got == ws[last+1].old[o-ws[last+1].Off]
}
