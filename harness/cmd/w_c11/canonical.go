package main

import (
	"bytes"
	"fmt"
	"os"
	"strconv"

	"github.com/sarchlab/akita/v4/mem/idealmemcontroller"

	"verifharness/vlib"
	"verifharness/vlib/kern"
)

// Seed-independent canonical battery. Every case uses a fixed PRNG and fixed
// layouts, so that a finding made here has a deterministic reproducer.

func (c *child) canonThread() *thread {
	c.active.Store(1)
	return &thread{c: c, slot: 0, r: vlib.NewPRNG(0xC11), fq: noForce}
}

func (c *child) canonical(kind string) {
	switch kind {
	case "canon-emu":
		c.canonEmu()
	case "canon-dma-flushlast":
		c.canonFlushLast()
	case "canon-dma-contain":
		c.canonContain()
	case "canon-dma-samepid":
		c.canonSamePID()
	case "canon-dma-reorder":
		c.canonReorder()
	case "canon-dma-stale":
		c.canonStale()
	case "canon-emu-rehome", "canon-dma-rehome", "canon-tmagic-rehome":
		c.canonRehome()
	case "canon-emu-freealloc", "canon-dma-freealloc", "canon-tmagic-freealloc",
		"canon-emu-freealloc-buddy", "canon-dma-freealloc-buddy", "canon-tmagic-freealloc-buddy":
		c.canonFreeAlloc()
	default:
		c.rec.Inconclusive("unknown canonical case " + kind)
	}
	c.active.Store(0)
	c.analyse()
}

// canonEmu: direct-storage path; sub-ranges around every page boundary of
// buffers whose consecutive virtual pages are physically non-adjacent
// (distributed over GPUs / remapped on one GPU), for every element type.
func (c *child) canonEmu() {
	th := c.canonThread()
	ng := c.cfg.NGPU
	kinds := []string{"plain", "remap", "plain", "remap", "plain"}
	if ng > 1 {
		kinds[1] = "dist"
	}
	ls := layoutSpec{Sizes: []int{64, 4 * pageSize, 100, 3*pageSize + 5, 64}, Kinds: kinds, GPUs: []int{1, 1, ng, 1, 1}, NQ: 2}
	m := c.buildCtx(ls, th.r, nil)
	th.ms = []*ctxModel{m}
	nonadj := 0
	for _, b := range m.bufs {
		for _, a := range b.Adj {
			if !a {
				nonadj++
			}
		}
	}
	if nonadj < 2 {
		c.rec.Inconclusive("canonical emulation layout has no physically non-adjacent consecutive pages")
		return
	}
	th.initArena(m)
	var pagePts []int
	for _, b := range m.bufs {
		for p := 1; p < b.Pages; p++ {
			pagePts = append(pagePts, b.Off+p*pageSize)
		}
	}
	pairs := [][2]int{{1, 1}, {3, 5}, {64, 64}, {7, pageSize + 9}, {pageSize + 3, 2}, {100, 3}, {2, 61}}
	k := 0
	for _, t := range elemTypes {
		for _, pt := range pagePts {
			for _, ab := range pairs {
				var off, n int
				if t.Slice {
					off = pt - ab[0]
					n = (ab[0] + ab[1]) / t.Unit * t.Unit
					if n < t.Unit {
						n = t.Unit
					}
					if off+n <= pt { // keep the boundary inside the range
						off = pt - n + 1
						if n == 1 {
							continue
						}
					}
				} else {
					if t.Unit < 2 {
						continue
					}
					off = pt - 1 - (ab[0]-1)%(t.Unit-1)
					n = t.Unit
				}
				if off < 0 || off+n > len(m.shadow) {
					continue
				}
				k++
				th.fq = []int{-1, 0, 1}[k%3] // blocking API, queue 0, queue 1
				th.h2d(m, off, n, t, th.fq < 0, "h2d")
				lo, hi := th.neighbourhood(m, off, n)
				th.verify(m, lo, hi, k%3, len(m.ops)-1)
				th.d2h(m, off, n, t, th.fq < 0, "d2h", -1)
				th.drainAll()
				c.count("canonical_cases|emu", 1)
			}
		}
	}
	th.fq = noForce
	th.verify(m, 0, len(m.shadow), 1, -1)
	th.drainAll()
	c.flush()
}

// canonFlushLast: >= 2 GPUs, DMA path. A copy whose data lives on GPU 1 while
// GPU 2 has many dirty lines to write back (or still runs the kernel that
// produces them): the flush reply of GPU 2 is the copy's last outstanding
// request (fixed defect e18fcb94; a regression shows up as a logical
// deadlock with key C11|copy-never-completes|flush-reply-last).
func (c *child) canonFlushLast() {
	th := c.canonThread()
	ng := c.cfg.NGPU
	ls := layoutSpec{Sizes: []int{64, 256, flushLastPages * pageSize, 64}, Kinds: []string{"plain", "plain", "plain", "plain"}, GPUs: []int{1, 1, ng, 1}, NQ: 2}
	m := c.buildCtx(ls, th.r, nil)
	th.ms = []*ctxModel{m}
	th.initArena(m)
	A, B := m.bufs[1], m.bufs[2]
	// queue index with GPU ng / GPU 1
	qOn := func(g int) int {
		for i, x := range m.qGPU {
			if x == g {
				return i
			}
		}
		return 0
	}
	u32 := typeByName("[]uint32")
	for round := 0; round < 2; round++ {
		// variant 1: kernel finished, its dirty lines sit in GPU ng's L2; the
		// first copy afterwards makes GPU ng write them all back
		th.fq = qOn(ng)
		th.kernel(m, B.Off, B.Size/4, kern.OpAdd, uint32(3+2*round), false)
		th.drainAll()
		if round%2 == 0 {
			th.fq = (qOn(ng) + 1) % len(m.queues) // a queue the deadlock watcher can inspect
			th.h2d(m, A.Off+8, 16, u32, false, "h2d")
			th.drainAll()
		} else {
			th.fq = -1
			th.d2h(m, A.Off, 64, u32, true, "d2h", -1)
		}
		c.count("canonical_cases|flushlast", 1)
	}
	// the 3-GPU instance repeats only the flush-reply-last rounds (wall time)
	if ng < 3 {
		// variant 3: the copy's data lives on the GPU that has the long write-back
		// to do: the read must wait for it (the command processor holds copy
		// requests back while cache flushes are outstanding)
		th.fq = qOn(ng)
		th.kernel(m, B.Off, B.Size/4, kern.OpAdd, 0x01000001, false)
		th.drainAll()
		th.fq = -1
		th.d2h(m, B.Off+B.Size-2*pageSize-20, 2*pageSize+20, typeByName("[]byte"), true, "d2h", -1)
		th.fq = (qOn(ng) + 1) % len(m.queues)
		th.kernel(m, B.Off, B.Size/4, kern.OpXor, 0x00330033, false)
		th.h2d(m, B.Off+B.Size-pageSize-9, 50, typeByName("[]byte"), false, "h2d")
		th.d2h(m, B.Off+B.Size-3*pageSize, 3*pageSize, typeByName("[]uint32"), false, "d2h", -1)
		th.drainAll()
		c.count("canonical_cases|flushlast-same-gpu", 1)
		// variant 2: the kernel is still running on GPU ng while a chain of small
		// copies to GPU 1 is processed (each one flushes GPU ng in mid-kernel)
		th.fq = qOn(ng)
		th.kernel(m, B.Off, B.Size/4, kern.OpXor, 0x55, false)
		th.fq = qOn(1)
		if qOn(1) == qOn(ng) {
			th.fq = (qOn(ng) + 1) % len(m.queues)
		}
		for k := 0; k < 6; k++ {
			if k%2 == 0 {
				th.d2h(m, A.Off, 128, u32, false, "d2h", -1)
			} else {
				th.h2d(m, A.Off+64, 32, u32, false, "h2d")
			}
		}
		th.drainAll()
		c.count("canonical_cases|flushlast", 1)
	}
	th.fq = noForce
	th.verify(m, 0, len(m.shadow), 0, -1)
	th.drainAll()
	c.analyse()
	c.cm.mu.Lock()
	n := c.cm.cnt["copies_whose_last_reply_was_a_flush"]
	c.cm.mu.Unlock()
	if n == 0 {
		c.rec.Inconclusive("canonical flush-reply-last case: no copy had a flush reply as its last outstanding request")
	}
	c.flush()
}

// canonContain: the three containment relations between a copy range and a
// dirty buffer, including the one the driver's memRangeOverlap does not
// recognise (range strictly contains the buffer and starts/ends in mapped
// slack bytes of the neighbouring pages).
func (c *child) canonContain() {
	th := c.canonThread()
	ls := layoutSpec{Sizes: []int{100, 256, 100, 3 * pageSize}, Kinds: []string{"plain", "plain", "plain", "plain"}, GPUs: []int{1, 1, 1, 1}, NQ: 2}
	m := c.buildCtx(ls, th.r, nil)
	th.ms = []*ctxModel{m}
	th.initArena(m)
	A, B, C, D := m.bufs[0], m.bufs[1], m.bufs[2], m.bufs[3]
	bt := typeByName("[]byte")
	u32 := typeByName("[]uint32")
	th.fq = 0
	// (1) range strictly inside the dirty buffer
	th.kernel(m, D.Off, 3*pageSize/4, kern.OpAdd, 7, false)
	th.drainAll()
	th.d2h(m, D.Off+pageSize-6, 300, bt, false, "d2h", -1)
	th.drainAll()
	c.count("canonical_cases|contain-inside", 1)
	// (2) range strictly contains dirty buffer B, both ends inside the
	// requested extents of the neighbours (A and C): in-bounds
	th.kernel(m, B.Off, 64, kern.OpXor, 0x1111, false)
	th.drainAll()
	th.d2h(m, A.Off+50, C.Off+50-(A.Off+50), bt, false, "d2h", -1)
	th.drainAll()
	c.count("canonical_cases|contain-inbounds", 1)
	// (3) range strictly contains dirty buffer B, starting in the slack of
	// A's page and ending in the slack of B's page
	th.kernel(m, B.Off, 64, kern.OpAdd, 0x01010101, false)
	th.drainAll()
	if debugTrace {
		for _, comp := range c.p.Sim.Components() {
			if dr, ok := comp.(*idealmemcontroller.Comp); ok {
				raw, _ := dr.Storage.Read(m.pagePA[B.Off/pageSize], 16)
				fmt.Printf("DRAM %x shadow %x\n", raw, m.shadow[B.Off:B.Off+16])
				break
			}
		}
	}
	th.d2h(m, A.Off+200, B.Off+256+100-(A.Off+200), bt, false, "d2h", -1)
	th.drainAll()
	c.count("canonical_cases|contain-slack-d2h", 1)
	// (4) the same for H2D: the copy must not be undone by a later write-back
	// of the kernel's dirty lines, and a later kernel must see the copied data
	th.kernel(m, B.Off, 64, kern.OpAdd, 0x00020002, false)
	th.drainAll()
	th.h2d(m, A.Off+300, B.Off+256+40-(A.Off+300), bt, false, "h2d")
	th.drainAll()
	th.kernel(m, B.Off, 64, kern.OpXor, 0x0F0F0F0F, false)
	th.drainAll()
	th.d2h(m, B.Off, 256, u32, false, "d2h", -1)
	th.drainAll()
	c.count("canonical_cases|contain-slack-h2d", 1)
	th.fq = noForce
	th.verify(m, 0, len(m.shadow), 1, -1)
	th.drainAll()
	c.flush()
}

// canonSamePID: two contexts of one process (Driver.InitWithExistingPID, used
// by the multi-GPU DNN training benchmarks). A kernel launched through the
// first context writes a buffer; a D2H through the second context must
// observe it.
func (c *child) canonSamePID() {
	th := c.canonThread()
	ls := layoutSpec{Sizes: []int{64, 2 * pageSize, 64}, Kinds: []string{"plain", "plain", "plain"}, GPUs: []int{1, 1, 1}, NQ: 2}
	m := c.buildCtx(ls, th.r, nil)
	th.ms = []*ctxModel{m}
	th.initArena(m)
	B := m.bufs[1]
	ctx2 := c.d.InitWithExistingPID(m.ctx)
	th.fq = 0
	for round := 0; round < 2; round++ {
		th.kernel(m, B.Off, 2*pageSize/4, kern.OpAdd, uint32(0x100+round), false)
		th.drainAll()
		got := make([]byte, 512)
		c.d.MemCopyD2H(ctx2, got, m.ptr(B.Off+100))
		c.count("canonical_cases|samepid", 1)
		c.count("d2h_results_compared", 1)
		if !bytes.Equal(got, m.shadow[B.Off+100:B.Off+612]) {
			i := 0
			for got[i] == m.shadow[B.Off+100+i] {
				i++
			}
			c.violation("C11|dma|kernel-write-not-observed|copy-through-other-context-of-same-process",
				fmt.Sprintf("kernel launched through context 1 completed; D2H of its buffer through a second context of the same process (InitWithExistingPID) returns 0x%02x at byte %d, expected 0x%02x: dirty tracking is per context, so no flush precedes the copy",
					got[i], i, m.shadow[B.Off+100+i]), map[string]any{"recent_ops": m.tailOps(6)})
		}
		// control: the same range through the owning context
		th.d2h(m, B.Off+100, 512, typeByName("[]byte"), true, "d2h", -1)
	}
	th.fq = noForce
	th.verify(m, 0, len(m.shadow), 0, -1)
	th.drainAll()
	// do not match the hand-issued copies against harness records
	c.mu.Lock()
	c.issued = nil
	c.mu.Unlock()
	c.flush()
}

// canonStale: D2H directly behind a kernel (same queue, other queue, blocking
// API; local and remote GPU): the flush request and the copy's data requests
// are issued concurrently by the driver; the values decide whether a read can
// overtake the write-back.
func (c *child) canonStale() {
	th := c.canonThread()
	ng := c.cfg.NGPU
	ls := layoutSpec{Sizes: []int{64, 8 * pageSize, 64, 2 * pageSize}, Kinds: []string{"plain", "plain", "plain", "plain"}, GPUs: []int{1, ng, 1, 1}, NQ: 3}
	m := c.buildCtx(ls, th.r, nil)
	th.ms = []*ctxModel{m}
	th.initArena(m)
	B, D := m.bufs[1], m.bufs[3]
	u32 := typeByName("[]uint32")
	bt := typeByName("[]byte")
	for round := 0; round < 6; round++ {
		q := round % len(m.queues)
		th.fq = q
		th.kernel(m, B.Off, B.Size/4, kern.Op(round%3), uint32(3+2*round), false)
		switch round % 3 {
		case 0: // same queue, directly behind the kernel
			th.d2h(m, B.Off+B.Size-pageSize-12, pageSize+12, bt, false, "d2h", -1)
		case 1: // drained, then blocking API
			th.drainAll()
			th.fq = -1
			th.d2h(m, B.Off, B.Size, u32, true, "d2h", -1)
		default: // drained, other queue; tiny unaligned piece at the very end
			th.drainAll()
			th.fq = (q + 1) % len(m.queues)
			th.d2h(m, B.Off+B.Size-7, 7, bt, false, "d2h", -1)
			th.d2h(m, B.Off+3, 61, bt, false, "d2h", -1)
		}
		th.drainAll()
		// H2D into the middle of the dirty buffer, then a kernel on it again
		th.fq = q
		th.h2d(m, B.Off+pageSize-30, 100, bt, false, "h2d")
		th.kernel(m, B.Off, B.Size/4, kern.OpXor, uint32(0xA0A0+round), false)
		th.kernel(m, D.Off, D.Size/4, kern.OpAdd, 5, false)
		th.d2h(m, B.Off+pageSize-64, 256, bt, false, "d2h", -1)
		th.drainAll()
		// kernel, then H2D into its dirty range with no copy in between, then
		// (a) D2H, (b) another kernel and D2H
		th.fq = q
		th.kernel(m, B.Off, B.Size/4, kern.OpAdd, uint32(0x10001+round), false)
		if round%2 == 0 {
			th.drainAll()
		}
		th.h2d(m, B.Off+2*pageSize-17, 90, bt, false, "h2d")
		if round%3 != 0 {
			th.kernel(m, B.Off+pageSize, pageSize/2, kern.OpXor, uint32(0x77+round), false)
		}
		th.d2h(m, B.Off+pageSize, 2*pageSize, bt, false, "d2h", -1)
		th.drainAll()
		c.count("canonical_cases|stale", 1)
	}
	th.fq = noForce
	th.verify(m, 0, len(m.shadow), 2, -1)
	th.drainAll()
	c.flush()
}

var flushLastPages = func() int {
	if v, err := strconv.Atoi(os.Getenv("C11_FLPAGES")); err == nil && v > 0 {
		return v
	}
	return 128
}()

var reorderPasses = func() int {
	if v, err := strconv.Atoi(os.Getenv("C11_ROPASSES")); err == nil && v > 0 {
		return v
	}
	return 4
}()

var reorderChain = func() int {
	if v, err := strconv.Atoi(os.Getenv("C11_ROCHAIN")); err == nil && v > 0 {
		return v
	}
	return 6
}()

var reorderKernels = func() int {
	if v, err := strconv.Atoi(os.Getenv("C11_ROKERNELS")); err == nil && v > 0 {
		return v
	}
	return 3
}()

var reorderPages = func() int {
	if v, err := strconv.Atoi(os.Getenv("C11_ROPAGES")); err == nil && v > 0 {
		return v
	}
	return 64
}()

// canonReorder: multi-page copies (16-256 KiB, position-dependent data)
// through the DMA engine of GPU 1 while memory-bound kernels of ANOTHER
// context run on another queue. Each copy is split into per-page requests
// (up to four in the DMA engine at a time), each request into 64-byte
// transactions spread over the 16 DRAM banks (128-byte interleaving on
// r9nano). The kernels' L2 misses and write-backs make single banks answer a
// few cycles late, so memory responses reach the DMA engine out of issue order
// (counter dma_responses_out_of_issue_order; ..._across_copy_requests counts
// the ones that overtake a transaction of an earlier per-page request). The
// copied buffers are not touched by the kernels and their context never
// launches one, so no flush of its own quiets the traffic.
func (c *child) canonReorder() {
	th := c.canonThread()
	ng := c.cfg.NGPU
	// context X: the copied buffers, never touched by a kernel (X launches
	// none, so its copies are not preceded by flushes of their own). With two
	// GPUs the second buffer is distributed over both.
	kindC := "plain"
	if ng > 1 {
		kindC = "dist"
	}
	const cp = 64 // pages per copied buffer
	lsX := layoutSpec{Sizes: []int{64, cp * pageSize, 64, cp * pageSize, 64}, Kinds: []string{"plain", "plain", "plain", kindC, "plain"}, GPUs: []int{1, 1, 1, 1, 1}, NQ: 4}
	x := c.buildCtx(lsX, th.r, nil)
	// context Y: the kernel's buffer on GPU 1
	lsY := layoutSpec{Sizes: []int{reorderPages * pageSize, 4 * pageSize}, Kinds: []string{"plain", "plain"}, GPUs: []int{1, 1}, NQ: 2}
	y := c.buildCtx(lsY, th.r, nil)
	th.ms = []*ctxModel{x, y}
	th.initArena(x)
	th.initArena(y)
	qOnGPU1 := func(m *ctxModel) int {
		for i, g := range m.qGPU {
			if g == 1 {
				return i
			}
		}
		return 0
	}
	bt, u32, u64 := typeByName("[]byte"), typeByName("[]uint32"), typeByName("[]uint64")
	C1, C2 := x.bufs[1], x.bufs[3]
	small := y.bufs[1]
	_ = small
	for round := 0; round < 2; round++ {
		// Y's queue: a chain of memory-bound kernels over the same pages. The
		// small copy of Y behind each kernel (Y is dirty) makes GPU 1 write back
		// and invalidate its caches, so every kernel misses in L2 again.
		th.fq = qOnGPU1(y)
		for k := 0; k < reorderKernels; k++ {
			th.kernelSweep(y, 0, reorderPages*pageSize/4/reorderPasses, reorderPasses, kern.Op(k%3), uint32(0x9E3779B1+2*k))
			th.h2d(y, small.Off+64*k, 64, bt, false, "h2d")
		}
		// X: two queues stream 16-256 KiB copies through GPU 1's DMA engine for
		// as long as Y's kernels run; two more queues issue small
		// page-straddling copies. All ranges are disjoint across queues.
		for k := 0; k < reorderChain; k++ {
			th.fq = 0
			switch k % 4 {
			case 0:
				th.d2h(x, C1.Off, cp*pageSize, u64, false, "d2h", -1)
			case 1:
				th.h2d(x, C1.Off+pageSize-24, 16*pageSize+100, bt, false, "h2d")
			case 2:
				th.d2h(x, C1.Off-32, cp*pageSize+64+32, bt, false, "d2h", -1) // spans the guards around C1
			default:
				th.d2h(x, C1.Off+5, 32*pageSize-5, bt, false, "d2h", -1)
			}
			th.fq = 1
			switch k % 3 {
			case 0:
				th.d2h(x, C2.Off+3, 32*pageSize-3, bt, false, "d2h", -1)
			case 1:
				th.h2d(x, C2.Off+4, 4*pageSize, u32, false, "h2d")
			default:
				th.d2h(x, C2.Off, 40*pageSize, u32, false, "d2h", -1)
			}
			for q := 2; q < 4; q++ {
				th.fq = q
				for j := 0; j < 2; j++ {
					off := C2.Off + (44+8*(q-2)+2*((k+j)%4))*pageSize - 100 - 7*j
					if (j+q+k)%2 == 0 {
						th.d2h(x, off, 260+j, bt, false, "d2h", -1)
					} else {
						th.h2d(x, off, 200+j, bt, false, "h2d")
					}
				}
			}
		}
		th.drainAll()
		c.count("canonical_cases|reorder", 1)
	}
	th.fq = noForce
	th.verify(x, 0, len(x.shadow), 1, -1)
	th.verify(y, 0, len(y.shadow), 0, -1)
	th.drainAll()
	c.flush()
}

// canonRehome: re-homing in mid-history (rehome.go), fixed histories. Buffers
// A (4 pages = 64 work-groups of the element kernel), B (8 pages, distributed
// when there are several GPUs), C (one page + 5 bytes: 16 work-groups) and a
// source / scratch buffer S; queue 0 launches on GPU 1, queue 1 on GPU 2 (if
// there is one). Every case: kernels read and write the range, a D2H observes
// them, Remap / Distribute gives (part of) it new frames, the re-homed pages
// are rewritten (H2D pieces, the driver's copy kernel, or both), kernels run
// over it again on the SAME queue - one grid of >= 64 work-groups, or a
// 16-work-group grid three times after it was launched four times before (so
// that each of the 64 compute units has had a work-group in the page) - and
// every result is read back.
func (c *child) canonRehome() {
	if c.path == "dma" {
		c.canonRehomeDMA()
		return
	}
	th := c.canonThread()
	ng := c.cfg.NGPU
	const ps = pageSize
	kindB := "plain"
	if ng > 1 {
		kindB = "dist"
	}
	ls := layoutSpec{Sizes: []int{64, 4 * ps, 100, 8 * ps, ps + 5, 8 * ps, 64},
		Kinds: []string{"plain", "plain", "plain", kindB, "plain", "plain", "plain"}, GPUs: []int{1, 1, ng, 1, 1, ng, 1}, NQ: 2}
	m := c.buildCtx(ls, th.r, nil)
	th.ms = []*ctxModel{m}
	th.initArena(m)
	A, B, C, S := m.bufs[1], m.bufs[3], m.bufs[4], m.bufs[5]
	far := ng
	rev := []int{}
	for g := ng; g >= 1; g-- {
		rev = append(rev, g)
	}
	none := rehomeSpec{Src: -1, CopyTo: -1}
	var cases []rehomeSpec
	add := func(f func(sp *rehomeSpec)) {
		sp := none
		f(&sp)
		cases = append(cases, sp)
	}
	// 1: second half of A to the far GPU; whole-A grids (64 work-groups), with a 5-work-group kernel in between
	add(func(sp *rehomeSpec) {
		sp.Off, sp.N, sp.How, sp.GPUs = A.Off+2*ps, 2*ps, "remap", []int{far}
		sp.Q, sp.KOff, sp.KE, sp.Pre, sp.Redef, sp.Post = 0, A.Off, A.Size/4, 1, "h2d", 3
		sp.ShiftOff, sp.ShiftE = S.Off, 5*64
	})
	// 2: the one-page range, same GPU (a new frame all the same); 16 work-groups, 4 launches before, 3 after
	add(func(sp *rehomeSpec) {
		sp.Off, sp.N, sp.How, sp.GPUs = C.Off, ps, "remap", []int{1}
		sp.Q, sp.KOff, sp.KE, sp.Pre, sp.Redef, sp.Post = 0, C.Off, ps/4, 4, "h2d", 3
	})
	// 3: all of B re-distributed (reverse GPU order), first written by the copy kernel and H2D, then copied to S by a kernel
	add(func(sp *rehomeSpec) {
		sp.Off, sp.N, sp.How, sp.GPUs = B.Off, 8*ps, "distribute", rev
		if ng == 1 {
			sp.How, sp.GPUs = "remap", []int{1}
		}
		sp.Q, sp.KOff, sp.KE, sp.Pre, sp.Redef, sp.Src, sp.Post, sp.CopyTo = 1, B.Off, B.Size/4, 1, "mixed", S.Off, 1, S.Off
	})
	// 4: all of A back to GPU 1 with no kernel in front (the history has touched it), written by the copy kernel only
	add(func(sp *rehomeSpec) {
		sp.Off, sp.N, sp.How, sp.GPUs = A.Off, 4*ps, "remap", []int{1}
		sp.Q, sp.KOff, sp.KE, sp.Pre, sp.Redef, sp.Src, sp.Post = 0, A.Off, A.Size/4, 0, "d2d", S.Off, 2
		sp.ShiftOff, sp.ShiftE, sp.CopyTo, sp.OtherQ = C.Off, 5*64, S.Off+4*ps, true
	})
	{
		// 5: one page in the middle of A, kernels on queue 1
		add(func(sp *rehomeSpec) {
			sp.Off, sp.N, sp.How, sp.GPUs = A.Off+ps, ps, "remap", []int{far}
			sp.Q, sp.KOff, sp.KE, sp.Pre, sp.Redef, sp.Post, sp.OtherQ = 1, A.Off, A.Size/4, 1, "h2d", 2, true
		})
		// 6: A distributed; 63-work-group grids that start 20 bytes into the buffer
		add(func(sp *rehomeSpec) {
			sp.Off, sp.N, sp.How, sp.GPUs = A.Off, 4*ps, "distribute", []int{far, 1}
			if ng == 1 {
				sp.How, sp.GPUs = "remap", []int{1}
			}
			sp.Q, sp.KOff, sp.KE, sp.Pre, sp.Redef, sp.Src, sp.Post = 0, A.Off+20, 63*64, 1, "mixed", S.Off, 3
			sp.ShiftOff, sp.ShiftE = S.Off+4*ps, 3*64
		})
		// 7: both pages of C (the second one holds 5 requested bytes)
		add(func(sp *rehomeSpec) {
			sp.Off, sp.N, sp.How, sp.GPUs = C.Off, 2*ps, "remap", []int{far}
			sp.Q, sp.KOff, sp.KE, sp.Pre, sp.Redef, sp.Post = 1, C.Off, ps/4, 4, "h2d", 3
			sp.ShiftOff, sp.ShiftE = A.Off, 64
		})
	}
	for _, sp := range cases {
		if c.path == "tmagic" {
			sp.KE = 0
		}
		th.fq = noForce
		th.rehomeMotif(m, sp)
		c.count("canonical_cases|rehome-"+c.path, 1)
	}
	th.fq = noForce
	th.verify(m, 0, len(m.shadow), 1, -1)
	th.drainAll()
	c.flush()
}

// canonRehomeDMA: the same on the timing platform with the DMA copy path
// (>= 2 GPUs). Driver.Remap / Distribute do not shoot down the GPUs' TLBs, so
// the history is split over two contexts (= two processes):
//
//	X: every re-homed page is filled and read back by host copies but has not
//	   been touched by a kernel on the GPU that uses it afterwards (no TLB of
//	   that GPU can hold its old translation): must hold, and does;
//	Y: case 1 of the emulation battery (kernel over A on GPU 1, Remap of A's
//	   second half, H2D, the same kernel on GPU 1 again, D2H).
func (c *child) canonRehomeDMA() {
	th := c.canonThread()
	ng := c.cfg.NGPU
	const ps = pageSize
	far := ng
	rev := []int{}
	for g := ng; g >= 1; g-- {
		rev = append(rev, g)
	}
	ls := layoutSpec{Sizes: []int{64, 4 * ps, 100, 8 * ps, ps + 5, 8 * ps, 64},
		Kinds: []string{"plain", "plain", "plain", "dist", "plain", "plain", "plain"}, GPUs: []int{1, 1, ng, 1, 1, ng, 1}, NQ: 2}
	x := c.buildCtx(ls, th.r, nil)
	y := c.buildCtx(layoutSpec{Sizes: []int{64, 4 * ps, 64, 2 * ps}, Kinds: []string{"plain", "plain", "plain", "plain"}, GPUs: []int{1, 1, 1, 1}, NQ: 2}, th.r, nil)
	th.ms = []*ctxModel{x, y}
	th.initArena(x)
	th.initArena(y)
	qOn := func(m *ctxModel, g int) int {
		for i, v := range m.qGPU {
			if v == g {
				return i
			}
		}
		panic("harness: no queue on that GPU")
	}
	A, B, C, S := x.bufs[1], x.bufs[3], x.bufs[4], x.bufs[5]
	xs := []rehomeSpec{
		// second half of A to the far GPU before any kernel has touched A; then 64-work-group grids on GPU 1, copy kernel A -> S
		{Off: A.Off + 2*ps, N: 2 * ps, How: "remap", GPUs: []int{far}, Q: qOn(x, 1), KOff: A.Off, KE: A.Size / 4, Redef: "h2d", Src: -1,
			Post: 2, ShiftOff: S.Off + 4*ps, ShiftE: 5 * 64, CopyTo: S.Off},
		// all of B re-distributed in reverse GPU order, first written by the copy kernel (from S) and H2D; 128-work-group grid on GPU 2
		{Off: B.Off, N: 8 * ps, How: "distribute", GPUs: rev, Q: qOn(x, far), KOff: B.Off, KE: B.Size / 4, Redef: "mixed", Src: S.Off, Post: 1, CopyTo: -1, OtherQ: true},
		// C's first page: kernels on GPU 1 have used it (4 launches of 16 work-groups); after the re-homing only GPU 2 touches it
		{Off: C.Off, N: ps, How: "remap", GPUs: []int{far}, Q: qOn(x, 1), PostQ1: qOn(x, far) + 1, KOff: C.Off, KE: ps / 4, Pre: 4, Redef: "h2d", Src: -1, Post: 3, CopyTo: -1},
	}
	for _, sp := range xs {
		th.fq = noForce
		th.rehomeMotif(x, sp)
		c.count("canonical_cases|rehome-dma", 1)
	}
	th.fq = noForce
	th.verify(x, 0, len(x.shadow), 1, -1)
	th.drainAll()
	// Y: the page is used by GPU 1 before and after it is re-homed
	YA := y.bufs[1]
	th.rehomeMotif(y, rehomeSpec{Off: YA.Off + 2*ps, N: 2 * ps, How: "remap", GPUs: []int{far}, Q: qOn(y, 1), KOff: YA.Off, KE: YA.Size / 4,
		Pre: 1, Redef: "h2d", Src: -1, Post: 1, CopyTo: -1})
	c.count("canonical_cases|rehome-dma-used-by-same-gpu", 1)
	th.drainAll()
	c.flush()
}
