// w_c11: host-device copies move exactly the requested bytes (DESIGN.md C11).
//
// The parent plans batches; each batch is a child process (this binary) that
// builds one real platform (emulation = direct-storage copy path, timing =
// DMA-engine copy path, timing + magic copy = direct path on the timing
// platform), drives the real driver from application goroutines and judges
// every D2H against a host-side shadow byte array per context. On the DMA path
// port hooks on the driver's GPU port, every command processor's driver port
// and both ports of every DMA engine, plus a tracer on the driver, feed a
// completion checker (exactly one completion per copy, after every memory
// transaction; sub-requests tile the copy range exactly). Hangs are decided by
// the exact deadlock predicate of w_c12.
package main

import (
	"encoding/json"
	"fmt"
	"os"
	"regexp"
	"strconv"
	"strings"
	"time"

	"verifharness/vlib"
)

type batch struct {
	Idx  int    `json:"idx"`
	Kind string `json:"kind"`
	NGPU int    `json:"ngpu"`
	Ops  int    `json:"ops"`
}

func main() {
	if vlib.IsChild() {
		childMain()
		return
	}
	// --replay <file>: re-run exactly the child batch named in the witness
	var replay *batch
	var replaySeed int64 = -1
	for i, a := range os.Args {
		if a == "--replay" && i+1 < len(os.Args) {
			b, err := os.ReadFile(os.Args[i+1])
			if err != nil {
				fmt.Println("cannot read replay file:", err)
				os.Exit(2)
			}
			var doc struct {
				Witness struct {
					Child childCfg `json:"child"`
				} `json:"witness"`
			}
			if err := json.Unmarshal(b, &doc); err != nil || doc.Witness.Child.Kind == "" {
				fmt.Println("replay file has no child descriptor")
				os.Exit(2)
			}
			cc := doc.Witness.Child
			replay = &batch{Idx: cc.Idx, Kind: cc.Kind, NGPU: cc.NGPU, Ops: cc.Ops}
			replaySeed = cc.Seed
		}
	}
	c := vlib.Start("C11")
	if replay != nil {
		c.Seed = replaySeed
	}
	scratch, cleanup := vlib.Scratch("c11") // removed explicitly: Finish exits the process

	var batches []batch
	if replay != nil {
		batches = []batch{*replay}
	} else {
		// (a) direct-storage path, emulation platform
		ne, opsE := c.N(16, 100), c.N(125, 1000)
		for i := 0; i < ne; i++ {
			batches = append(batches, batch{Idx: i, Kind: "emu", NGPU: 1 + i%4, Ops: opsE})
		}
		// (b) DMA path, timing platform
		nd, opsD := c.N(10, 100), c.N(15, 50)
		gp := []int{2, 1, 2, 3, 4, 2, 1, 2, 4, 3}
		for i := 0; i < nd; i++ {
			batches = append(batches, batch{Idx: 1000 + i, Kind: "dma", NGPU: gp[i%len(gp)], Ops: opsD})
		}
		// direct path on the timing platform (no kernels interleaved: DESIGN §7)
		nm := c.N(2, 10)
		for i := 0; i < nm; i++ {
			batches = append(batches, batch{Idx: 2000 + i, Kind: "tmagic", NGPU: 1 + i%2, Ops: c.N(15, 50)})
		}
		// bare driver, magic copy path, devices of a few pages: free lists wrap (smalldram.go)
		ns := c.N(8, 64)
		for i := 0; i < ns; i++ {
			batches = append(batches, batch{Idx: 3000 + i, Kind: "small", NGPU: 1 + i%4, Ops: c.N(300, 3000)})
		}
		// canonical battery (seed independent)
		batches = append(batches,
			batch{Idx: 9000, Kind: "canon-emu", NGPU: 2},
			batch{Idx: 9001, Kind: "canon-emu", NGPU: 1},
			batch{Idx: 9002, Kind: "canon-dma-flushlast", NGPU: 2},
			batch{Idx: 9003, Kind: "canon-dma-flushlast", NGPU: 3},
			batch{Idx: 9004, Kind: "canon-dma-contain", NGPU: 1},
			batch{Idx: 9005, Kind: "canon-dma-samepid", NGPU: 1},
			batch{Idx: 9006, Kind: "canon-dma-stale", NGPU: 1},
			batch{Idx: 9007, Kind: "canon-dma-stale", NGPU: 2},
			batch{Idx: 9008, Kind: "canon-dma-reorder", NGPU: 1},
			batch{Idx: 9009, Kind: "canon-dma-reorder", NGPU: 2},
			batch{Idx: 9010, Kind: "canon-emu-rehome", NGPU: 1},
			batch{Idx: 9011, Kind: "canon-emu-rehome", NGPU: 2},
			batch{Idx: 9012, Kind: "canon-emu-rehome", NGPU: 4},
			batch{Idx: 9013, Kind: "canon-tmagic-rehome", NGPU: 2},
			batch{Idx: 9014, Kind: "canon-dma-rehome", NGPU: 2},
			batch{Idx: 9015, Kind: "canon-emu-freealloc", NGPU: 2},
			batch{Idx: 9016, Kind: "canon-tmagic-freealloc", NGPU: 1},
			batch{Idx: 9017, Kind: "canon-dma-freealloc", NGPU: 1},
			batch{Idx: 9018, Kind: "canon-dma-freealloc", NGPU: 2},
			batch{Idx: 9019, Kind: "canon-dma-freealloc-buddy", NGPU: 1},
			batch{Idx: 9020, Kind: "canon-emu-freealloc-buddy", NGPU: 1},
			batch{Idx: 9021, Kind: "canon-tmagic-freealloc-buddy", NGPU: 1},
		)
	}
	// slow (timing) batches first so that the tail of the run is short
	order := make([]int, 0, len(batches))
	slowest := func(b batch) bool { return b.Kind == "canon-dma-flushlast" || b.Kind == "canon-dma-reorder" }
	for i, b := range batches {
		if slowest(b) {
			order = append(order, i)
		}
	}
	for i, b := range batches {
		if b.pathName() != "emu" && !slowest(b) {
			order = append(order, i)
		}
	}
	for i, b := range batches {
		if b.pathName() == "emu" {
			order = append(order, i)
		}
	}

	vlib.Parallel(len(order), 12, func(k int) {
		b := batches[order[k]]
		args := []string{"child", strconv.FormatInt(c.Seed, 10), strconv.Itoa(b.Idx), b.Kind, strconv.Itoa(b.NGPU), strconv.Itoa(b.Ops)}
		res := vlib.RunChild(scratch, watchdog, nil, args...)
		notes := c.AbsorbFile(res.RecPath)
		_, finished := notes["done"]
		_, verdict := notes["verdict"]
		c.Count("children", 1)
		if os.Getenv("C11_TIMES") != "" {
			fmt.Printf("[C11] child %s idx=%d ngpu=%d took %.1fs\n", b.Kind, b.Idx, b.NGPU, res.Dur.Seconds())
		}
		switch {
		case res.TimedOut:
			c.Inconclusive(fmt.Sprintf("batch %+v: watchdog fired without a logical verdict; tail: %s", b, vlib.Tail(res.OutPath, 800)))
		case !finished && !verdict:
			tail := vlib.Tail(res.OutPath, 4000)
			c.Violation("C11|crash|"+b.pathName()+"|"+crashClass(tail), "copy workload process crashed: "+firstLine(tail),
				map[string]any{"child": childCfg{Seed: c.Seed, Idx: b.Idx, Kind: b.Kind, NGPU: b.NGPU, Ops: b.Ops}, "output_tail": tail})
		}
	})

	cleanup()
	if replay != nil {
		c.Finish(vlib.FinishOpts{Rule: "replay of one child batch", MinNontrivial: 2})
	}
	c.Finish(vlib.FinishOpts{
		Rule: "case = one host-device copy (path emu|dma|tmagic, direction, element type, arena offset, length) issued through the real driver API on a real platform, " +
			"judged by a host-side shadow byte array per context (updated by every H2D and by the defined effect of every generated element-wise kernel) " +
			"and, on the DMA path, by the completion checker over driver/CP/DMA port events; " +
			"small-dram children (bare real driver, magic copy path, 1..4 devices of 12..28 pages: allocate / free / Remap / Distribute / H2D histories in which every free list wraps, every H2D followed by a read-back of every live buffer) are judged by a shadow per buffer; " +
			"re-homing steps (Remap of a page range / Distribute of a buffer that kernels have read and written and host copies have filled, then H2D / copy-kernel rewrite, kernels on the same queue with grids of >= 64 work-groups or small grids repeated, D2H) are judged by the same shadow; " +
			"non-trivial = distinct (path, direction, type, offset within page, length, boundary class) of a copy whose range crosses a 64-byte line, a page or a GPU boundary",
		Assumptions: []string{
			"page placement (Distribute/Remap) is chosen before the first byte is copied and changed again in mid-history by the re-homing steps: Remap/Distribute give the pages new frames and move no data, so the shadow treats a re-homed range as undefined until it has been rewritten completely (the generator does that at once, by H2D pieces and/or the driver's device copy kernel; the model refuses any read of a still undefined byte)",
			"free / re-allocate steps run on a context of their own whose buffers come and go (every op inside the requested extent of one live buffer); a freed buffer's bytes vanish, a new buffer's bytes are undefined until written; with the default allocator a freed frame is practically never handed out again on the unchanged tree, so frame re-use is exercised by the buddy-allocator canonical children (seed-demo history only) - the DMA one reports the stale-L2-lines finding",
			"timing platform with kernels (DMA path): Remap/Distribute do not shoot down the GPUs' TLBs (reported as a finding by canon-dma-rehome), so the SEEDED steps there re-home only pages that no kernel has touched yet (filled and read back by host copies; first kernel use after the re-homing)",
			"copies and kernels outstanding at the same time on different queues touch disjoint byte ranges; within a queue any overlap is allowed (FIFO)",
			"kernels are dword-aligned element-wise add/mul/xor kernels (vlib/kern) whose effect on the shadow is defined by kern.Op.Apply",
			"timing platform with magic copy: no kernels interleaved (DESIGN §7: that configuration reads DRAM behind dirty caches by design)",
			"hangs are decided by the exact deadlock predicate (all application goroutines in Listener.Wait, runAsync idle, no engine goroutine, every relevant goroutine parked); the wall-clock watchdog only yields 'inconclusive'",
		},
		MinNontrivial: c.N(800, 20000),
		MinCounters: map[string]int64{
			"generated_copy_ops|emu":                                                      int64(c.N(1900, 95000)),
			"generated_copy_ops|dma":                                                      int64(c.N(140, 4800)),
			"generated_copy_ops|small-dram":                                               int64(c.N(500, 30000)),
			"allocations_receiving_a_previously_freed_frame|small-dram":                   int64(c.N(300, 20000)),
			"remaps|small-dram":                                                           int64(c.N(40, 2000)),
			"distributes|small-dram":                                                      int64(c.N(15, 800)),
			"h2d_after_a_rehoming_with_other_live_buffers|small-dram":                     int64(c.N(1000, 50000)),
			"generated_copy_ops|tmagic":                                                   int64(c.N(25, 400)),
			"d2h_results_compared":                                                        int64(c.N(3000, 100000)),
			"copies_crossing_nonadjacent_pages_unaligned|h2d":                             int64(c.N(200, 5000)),
			"copies_crossing_gpu_boundary":                                                int64(c.N(100, 3000)),
			"kernels_launched|dma":                                                        int64(c.N(30, 500)),
			"d2h_overlapping_last_kernel_write":                                           int64(c.N(30, 500)),
			"flush_requests_sent":                                                         int64(c.N(50, 1000)),
			"copies_whose_last_reply_was_a_flush":                                         int64(c.N(3, 30)),
			"dma_sub_requests_checked":                                                    int64(c.N(5000, 100000)),
			"driver_copy_commands_checked":                                                int64(c.N(300, 5000)),
			"driver_commands_chunking_checked":                                            int64(c.N(200, 4000)),
			"driver_requests_linked_to_dma":                                               int64(c.N(300, 5000)),
			"kernels_enqueued_while_other_context_has_copies_pending":                     1,
			"copy_commands_overlapping_a_running_kernel":                                  int64(c.N(20, 300)),
			"canonical_cases|flushlast-same-gpu":                                          1,
			"canonical_cases|emu":                                                         100,
			"canonical_cases|flushlast":                                                   5,
			"canonical_cases|contain-slack-d2h":                                           1,
			"canonical_cases|samepid":                                                     1,
			"canonical_cases|reorder":                                                     4,
			"dma_responses_out_of_issue_order":                                            15,
			"multi_page_copies_issued_next_to_an_undrained_kernel":                        int64(c.N(10, 150)),
			"canonical_cases|stale":                                                       6,
			"canonical_cases|freealloc-emu":                                               6,
			"canonical_cases|freealloc-dma":                                               12,
			"canonical_cases|freealloc-tmagic":                                            6,
			"canonical_cases|freealloc-dma-buddy":                                         1,
			"frees_of_kernel_written_buffers|emu":                                         int64(c.N(60, 3000)),
			"frees_of_kernel_written_buffers|dma":                                         int64(c.N(40, 250)),
			"frees|tmagic":                                                                int64(c.N(15, 60)),
			"h2d_into_new_buffers_before_the_next_launch|emu":                             int64(c.N(30, 1500)),
			"h2d_into_new_buffers_before_the_next_launch|dma":                             int64(c.N(20, 120)),
			"reallocations_receiving_a_previously_used_frame|dma":                         1,
			"reallocations_receiving_a_previously_used_frame|emu":                         1,
			"reallocations_receiving_a_previously_used_frame|tmagic":                      1,
			"h2d_into_reused_frames_of_kernel_written_buffers_before_the_next_launch|dma": 1,
			"frame_ownership_audits":                                                      int64(c.N(200, 5000)),
			"canonical_cases|rehome-emu":                                                  21,
			"canonical_cases|rehome-tmagic":                                               7,
			"canonical_cases|rehome-dma":                                                  3,
			"canonical_cases|rehome-dma-used-by-same-gpu":                                 1,
			"rehoming_steps_of_touched_pages|emu":                                         int64(c.N(60, 3000)),
			"rehoming_steps_of_host_filled_pages|dma":                                     int64(c.N(8, 150)),
			"rehoming_steps_of_host_filled_pages|tmagic":                                  int64(c.N(7, 30)),
			"kernels_rereading_a_rehomed_page|emu":                                        int64(c.N(300, 15000)),
			"kernels_touching_a_rehomed_page|dma":                                         int64(c.N(15, 300)),
			"d2h_of_rehomed_pages_after_kernel_write|emu":                                 int64(c.N(300, 15000)),
			"d2h_of_rehomed_pages_after_write_by_kernel_on_gpu_that_used_old_frame|emu":   int64(c.N(200, 10000)),
			"d2h_of_rehomed_pages_after_kernel_write|dma":                                 int64(c.N(20, 300)),
			"d2h_of_rehomed_pages|tmagic":                                                 int64(c.N(20, 100)),
			"rehome_motifs_with_grids_of_64_or_more_work_groups|emu":                      int64(c.N(20, 1000)),
			"rehome_motifs_with_small_grids_repeated|emu":                                 int64(c.N(20, 1000)),
			"rehomed_ranges_first_written_by_a_kernel":                                    int64(c.N(20, 1000)),
			"kernels_copying_a_rehomed_range_elsewhere":                                   int64(c.N(10, 500)),
		},
	})
}

// watchdog is a safety net only (firing = inconclusive); C11_WATCHDOG_S
// shortens it for self-validation runs against deliberately broken trees.
var watchdog = func() time.Duration {
	if v, err := strconv.Atoi(os.Getenv("C11_WATCHDOG_S")); err == nil && v > 0 {
		return time.Duration(v) * time.Second
	}
	return 20 * time.Minute
}()

func (b batch) pathName() string {
	return kindPath(b.Kind)
}

// kindPath: copy path of a batch kind (emu | tmagic | dma).
func kindPath(kind string) string {
	kind = strings.TrimSuffix(kind, "-buddy")
	switch {
	case kind == "emu" || strings.HasPrefix(kind, "canon-emu") || strings.HasPrefix(kind, "emu-"):
		return "emu"
	case kind == "small":
		return "small"
	case kind == "tmagic" || strings.HasPrefix(kind, "canon-tmagic") || strings.HasPrefix(kind, "tmagic-"):
		return "tmagic"
	}
	return "dma"
}

func trimTo(s string, n int) string {
	if len(s) > n {
		return s[:n] + "…"
	}
	return s
}

func firstLine(s string) string {
	for _, l := range strings.Split(s, "\n") {
		if strings.Contains(l, "panic") || strings.Contains(l, "fatal error") || strings.Contains(l, "Panic") {
			return trimTo(l, 300)
		}
	}
	return trimTo(s, 300)
}

var reAddr = regexp.MustCompile(`0x[0-9a-f]+|\+0x[0-9a-f]+|:\d+|goroutine \d+|\d+`)

func crashClass(tail string) string {
	for _, l := range strings.Split(tail, "\n") {
		if strings.Contains(l, "panic:") || strings.Contains(l, "fatal error:") || strings.Contains(l, "Panic:") {
			l = strings.TrimSpace(l)
			if i := strings.Index(l, "anic:"); i >= 0 {
				l = l[i+5:]
			}
			return trimTo(strings.TrimSpace(reAddr.ReplaceAllString(l, "")), 100)
		}
	}
	return "unknown"
}
