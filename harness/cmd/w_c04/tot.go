package main

import (
	"encoding/binary"
	"fmt"
	"sync"

	"verifharness/vlib"
	"verifharness/vlib/gcnasm"
)

// A totality block enumerates first dwords of one microcode format.
type totBlock struct {
	Name   string
	Enc    uint32 // encoding bits in place
	EncLo  uint   // lowest bit of the ENCODING field
	OpLo   uint
	OpBits uint
	// operand-code fields: position in the first (word 0) or second (word 1) dword
	Fields []totField
	Size8  bool // 64-bit format
}

type totField struct {
	Name string
	Word int
	Lo   uint
	Bits uint
}

var totBlocks = []totBlock{
	{Name: "sop2", Enc: 0b10 << 30, EncLo: 30, OpLo: 23, OpBits: 7, Fields: []totField{{"ssrc0", 0, 0, 8}, {"ssrc1", 0, 8, 8}, {"sdst", 0, 16, 7}}},
	{Name: "sopk", Enc: 0b1011 << 28, EncLo: 28, OpLo: 23, OpBits: 5, Fields: []totField{{"sdst", 0, 16, 7}}},
	{Name: "sop1", Enc: 0b101111101 << 23, EncLo: 23, OpLo: 8, OpBits: 8, Fields: []totField{{"ssrc0", 0, 0, 8}, {"sdst", 0, 16, 7}}},
	{Name: "sopc", Enc: 0b101111110 << 23, EncLo: 23, OpLo: 16, OpBits: 7, Fields: []totField{{"ssrc0", 0, 0, 8}, {"ssrc1", 0, 8, 8}}},
	{Name: "sopp", Enc: 0b101111111 << 23, EncLo: 23, OpLo: 16, OpBits: 7},
	{Name: "smem", Enc: 0b110000 << 26, EncLo: 26, OpLo: 18, OpBits: 8, Size8: true, Fields: []totField{{"sdata", 0, 6, 7}, {"sbase", 0, 0, 6}}},
	{Name: "vop2", Enc: 0, EncLo: 31, OpLo: 25, OpBits: 6, Fields: []totField{{"src0", 0, 0, 9}, {"vsrc1", 0, 9, 8}, {"vdst", 0, 17, 8}}},
	{Name: "vop1", Enc: 0b0111111 << 25, EncLo: 25, OpLo: 9, OpBits: 8, Fields: []totField{{"src0", 0, 0, 9}, {"vdst", 0, 17, 8}}},
	{Name: "vopc", Enc: 0b0111110 << 25, EncLo: 25, OpLo: 17, OpBits: 8, Fields: []totField{{"src0", 0, 0, 9}, {"vsrc1", 0, 9, 8}}},
	{Name: "vop3", Enc: 0b110100 << 26, EncLo: 26, OpLo: 16, OpBits: 10, Size8: true,
		Fields: []totField{{"src0", 1, 0, 9}, {"src1", 1, 9, 9}, {"src2", 1, 18, 9}, {"vdst", 0, 0, 8}, {"sdst", 0, 8, 7}}},
	{Name: "ds", Enc: 0b110110 << 26, EncLo: 26, OpLo: 17, OpBits: 8, Size8: true, Fields: []totField{{"addr", 1, 0, 8}, {"vdst", 1, 24, 8}}},
	{Name: "flat", Enc: 0b110111 << 26, EncLo: 26, OpLo: 18, OpBits: 7, Size8: true, Fields: []totField{{"saddr", 1, 16, 7}, {"addr", 1, 0, 8}}},
	// formats the simulator lists but does not decode, and unassigned encodings
	{Name: "mubuf", Enc: 0b111000 << 26, EncLo: 26, OpLo: 18, OpBits: 7, Size8: true},
	{Name: "mtbuf", Enc: 0b111010 << 26, EncLo: 26, OpLo: 15, OpBits: 4, Size8: true},
	{Name: "mimg", Enc: 0b111100 << 26, EncLo: 26, OpLo: 18, OpBits: 7, Size8: true},
	{Name: "exp", Enc: 0b110001 << 26, EncLo: 26, OpLo: 0, OpBits: 0, Size8: true},
	{Name: "vintrp", Enc: 0b110010 << 26, EncLo: 26, OpLo: 16, OpBits: 2},
	{Name: "enc110011", Enc: 0b110011 << 26, EncLo: 26, OpLo: 18, OpBits: 7, Size8: true},
	{Name: "enc110101", Enc: 0b110101 << 26, EncLo: 26, OpLo: 18, OpBits: 7, Size8: true},
	{Name: "enc111111", Enc: 0b111111 << 26, EncLo: 26, OpLo: 18, OpBits: 7, Size8: true},
}

// totality parts: one per block above, plus one "special" part (explicit
// witnesses, short buffers, uniformly random words).
func numTotBlocks() int { return len(totBlocks) + 1 }

// interesting operand codes: range ends of every class of the SRC table
var interestingCodes = []int{0, 1, 100, 101, 102, 103, 104, 105, 106, 107, 108, 111, 112, 122, 123, 124, 125, 126, 127, 128, 129, 192, 193, 208,
	209, 210, 230, 234, 235, 238, 239, 240, 247, 248, 249, 250, 251, 252, 253, 254, 255, 256, 257, 510, 511}

type totInput struct {
	B         []byte
	Canonical bool
	Label     string
}

func mk(words [3]uint32, n int) []byte {
	b := make([]byte, 12)
	binary.LittleEndian.PutUint32(b[0:], words[0])
	binary.LittleEndian.PutUint32(b[4:], words[1])
	binary.LittleEndian.PutUint32(b[8:], words[2])
	return exact(b[:n])
}

func (blk totBlock) place(words *[3]uint32, f totField, code int) {
	mask := uint32(1)<<f.Bits - 1
	words[f.Word] = words[f.Word]&^(mask<<f.Lo) | (uint32(code)&mask)<<f.Lo
}

func (blk totBlock) first(r *vlib.PRNG, op int) [3]uint32 {
	w := [3]uint32{r.Uint32(), r.Uint32(), r.Uint32()}
	encMask := ^uint32(0) << blk.EncLo
	w[0] = w[0]&^encMask | blk.Enc
	if blk.OpBits > 0 {
		opMask := uint32(1)<<blk.OpBits - 1
		w[0] = w[0]&^(opMask<<blk.OpLo) | (uint32(op)&opMask)<<blk.OpLo
	}
	// the encoding bits of more specific formats share space with fields of
	// less specific ones (e.g. SOP2 opcode 0x7d = SOP1): keep what was asked
	w[0] = w[0]&^encMask | blk.Enc
	return w
}

// inputs of a block: canonical (fixed PRNG) then seeded.
//
//nolint:gocyclo
func (blk totBlock) inputs(seeded *vlib.PRNG, mult int) []totInput {
	var out []totInput
	canon := vlib.NewPRNG(0xC04).Fork("tot/" + blk.Name)
	lens := []int{4, 8, 12}
	nOps := 1 << blk.OpBits
	i := 0
	// (a) every opcode value x interesting codes in the first source field
	for op := 0; op < nOps; op++ {
		if len(blk.Fields) == 0 {
			for k := 0; k < 4; k++ {
				w := blk.first(canon, op)
				out = append(out, totInput{mk(w, lens[i%3]), true, fmt.Sprintf("%s op=%d #%d", blk.Name, op, k)})
				i++
			}
			continue
		}
		f := blk.Fields[0]
		for _, code := range interestingCodes {
			if code >= 1<<f.Bits {
				continue
			}
			w := blk.first(canon, op)
			blk.place(&w, f, code)
			n := lens[i%3]
			if blk.Size8 && n == 4 && i%2 == 0 {
				n = 8
			}
			out = append(out, totInput{mk(w, n), true, fmt.Sprintf("%s op=%d %s=%d len=%d", blk.Name, op, f.Name, code, n)})
			i++
		}
	}
	// (b) representative opcodes x every code of every operand field
	reps := []int{0, 1, 2, nOps / 2, nOps - 1}
	if blk.Name == "vop3" {
		reps = []int{0x10, 0xca, 256, 281, 320 + 1, 449, 460, 480, 655, 944, 1023}
	}
	if blk.Name == "smem" || blk.Name == "flat" || blk.Name == "ds" {
		reps = []int{0, 1, 13, 20, 21, 28, 54, 119, nOps - 1}
	}
	for _, op := range reps {
		if op >= nOps {
			continue
		}
		for _, f := range blk.Fields {
			for code := 0; code < 1<<f.Bits; code++ {
				w := blk.first(canon, op)
				blk.place(&w, f, code)
				n := 12
				if code == 255 || code == 249 || code == 250 {
					n = lens[i%3] // literal / SDWA / DPP dword at or beyond the buffer end
				}
				out = append(out, totInput{mk(w, n), true, fmt.Sprintf("%s op=%d %s=%d len=%d", blk.Name, op, f.Name, code, n)})
				i++
			}
		}
	}
	// (c) length sweep 0..12 for words with literal / SDWA / DPP / plain operands
	for k := 0; k < 12; k++ {
		op := reps[k%len(reps)] % nOps
		w := blk.first(canon, op)
		if len(blk.Fields) > 0 {
			blk.place(&w, blk.Fields[0], []int{255, 249, 250, 2, 128, 209}[k%6])
		}
		for n := 0; n <= 12; n++ {
			out = append(out, totInput{mk(w, n), true, fmt.Sprintf("%s op=%d lensweep word=%08x len=%d", blk.Name, op, w[0], n)})
		}
	}
	// seeded: random fields under this encoding, random length
	for k := 0; k < 3000*mult; k++ {
		w := blk.first(seeded, seeded.Intn(nOps))
		if len(blk.Fields) > 0 && seeded.Chance(1, 3) {
			f := blk.Fields[seeded.Intn(len(blk.Fields))]
			blk.place(&w, f, interestingCodes[seeded.Intn(len(interestingCodes))])
		}
		n := []int{4, 8, 12, 12, 12, seeded.Intn(13)}[seeded.Intn(6)]
		out = append(out, totInput{mk(w, n), false, fmt.Sprintf("%s seeded #%d", blk.Name, k)})
	}
	return out
}

func specialInputs(seeded *vlib.PRNG, mult int) []totInput {
	var out []totInput
	// witnesses recorded in DESIGN.md (spike) and buffers shorter than a dword
	for _, w := range []uint32{0x7e0202fa, 0x7d8200e6, 0x800000d2} {
		for _, n := range []int{4, 8, 12} {
			out = append(out, totInput{mk([3]uint32{w, 0x00000102, 0}, n), true, fmt.Sprintf("design-witness %08x len=%d", w, n)})
		}
	}
	// one literal dword referenced by two operand fields / literal source plus constant K
	for _, w := range []uint32{0x8004ffff /* s_add_u32 s4, lit, lit */, 0xbf00ffff /* s_cmp_eq_i32 lit, lit */, 0x2e0204ff /* v_madmk_f32 v1, lit, K, v2 */, 0x300204ff /* v_madak_f32 */} {
		for _, n := range []int{8, 12} {
			out = append(out, totInput{mk([3]uint32{w, 0x11223344, 0x55667788}, n), true, fmt.Sprintf("two-literal-fields %08x len=%d", w, n)})
		}
	}
	// VOP2 SDWA whose second dword marks a source as scalar (bits 30/31 as the simulator reads them)
	// with a source number beyond the SGPR file
	for _, w := range [][2]uint32{{0x020204f9, 0x460606c5}, {0x020390f9, 0x86060602}, {0x020204f9, 0xc60606ff}} {
		out = append(out, totInput{mk([3]uint32{w[0], w[1], 0}, 8), true, fmt.Sprintf("vop2-sdwa-scalar-source-out-of-range %08x %08x", w[0], w[1])})
	}
	for n := 0; n < 4; n++ {
		out = append(out, totInput{mk([3]uint32{0xbf810000, 0, 0}, n), true, fmt.Sprintf("short-buffer len=%d", n)})
		out = append(out, totInput{mk([3]uint32{0x7e000300, 0, 0}, n), true, fmt.Sprintf("short-buffer(vop1) len=%d", n)})
	}
	out = append(out, totInput{nil, true, "nil buffer"})
	// well-formed DPP forms (the simulator does not support DPP: must be an error or a diagnostic)
	for _, d := range []gcnasm.Desc{
		{Format: gcnasm.VOP1, Opcode: 1, Dst: gcnasm.V(1), Src0: gcnasm.V(2), DPP: &gcnasm.DPP{Ctrl: 0x101, BankMask: 0xf, RowMask: 0xf}},
		{Format: gcnasm.VOP2, Opcode: 1, Dst: gcnasm.V(1), Src0: gcnasm.V(2), Src1: gcnasm.V(3), DPP: &gcnasm.DPP{Ctrl: 0x1b, BankMask: 0xf, RowMask: 0xf, BoundCtrl: true}},
		{Format: gcnasm.VOPC, Opcode: 0xca, Src0: gcnasm.V(2), Src1: gcnasm.V(3), DPP: &gcnasm.DPP{Ctrl: 0x140, BankMask: 0xf, RowMask: 0xf}},
	} {
		if b, err := gcnasm.Encode(d); err == nil {
			out = append(out, totInput{b, true, fmt.Sprintf("dpp %s op=%d", d.Format, d.Opcode)})
			out = append(out, totInput{b[:4], true, fmt.Sprintf("dpp %s op=%d truncated", d.Format, d.Opcode)})
		}
	}
	canon := vlib.NewPRNG(0xC04).Fork("tot/uniform")
	for k := 0; k < 20000; k++ {
		out = append(out, totInput{mk([3]uint32{canon.Uint32(), canon.Uint32(), canon.Uint32()}, []int{4, 8, 12}[k%3]), true, fmt.Sprintf("uniform-canonical #%d", k)})
	}
	for k := 0; k < 40000*mult; k++ {
		n := []int{4, 8, 12, 12, seeded.Intn(13)}[seeded.Intn(5)]
		out = append(out, totInput{mk([3]uint32{seeded.Uint32(), seeded.Uint32(), seeded.Uint32()}, n), false, fmt.Sprintf("uniform-seeded #%d", k)})
	}
	return out
}

// runTot: the inputs of the block are processed by two goroutines that share
// the two decoder instances (concurrent use is what -race watches).
func runTot(p part, c *ctx, base *vlib.PRNG) {
	var ins []totInput
	name := "special"
	if p.Sub < len(totBlocks) {
		ins = totBlocks[p.Sub].inputs(base.Fork("seeded"), p.N)
		name = totBlocks[p.Sub].Name
	} else {
		ins = specialInputs(base.Fork("seeded"), p.N)
	}
	workers := 2
	if c.slow {
		workers = 1
	}
	var wg sync.WaitGroup
	for w := 0; w < workers; w++ {
		wg.Add(1)
		go func(w int) {
			defer wg.Done()
			cc := c.fork(fmt.Sprintf("w%d", w))
			for i := w; i < len(ins); i += workers {
				in := ins[i]
				o, snap, _ := cc.observe(in.B, in.Canonical, in.Label)
				c.out.count("tot_inputs", 1)
				c.out.count(fmt.Sprintf("tot_len_%d", len(in.B)), 1)
				if o.Kind == kInst {
					c.out.dist("tot_decoded_row", snap.Format+"/"+fmt.Sprint(snap.Opcode))
				}
				if o.Kind == kExplicit {
					c.out.dist("explicit_panic_messages", errClass(o.Msg))
				}
				if o.Kind == kDiag {
					c.out.dist("diagnostic_messages", errClass(o.Msg))
				}
				if o.Kind == kError {
					c.out.dist("error_messages", errClass(o.Msg))
				}
			}
			cc.sequencePass()
		}(w)
	}
	wg.Wait()
	c.out.count("tot_blocks", 1)
	c.out.dist("tot_block", fmt.Sprintf("%s@%s", name, c.arch))
}
