package main

import (
	"bytes"
	"debug/elf"
	"encoding/binary"
	"fmt"
	"io/fs"
	"os"
	"path/filepath"
	"sort"
	"strings"

	"github.com/sarchlab/mgpusim/v4/amd/insts"

	"verifharness/vlib/gcnasm"
)

func repoDir() string {
	if d := os.Getenv("VERIF_REPO_DIR"); d != "" {
		return d
	}
	return "/repo"
}

func hsacoFiles() []string {
	var files []string
	_ = filepath.WalkDir(filepath.Join(repoDir(), "amd"), func(p string, d fs.DirEntry, err error) error {
		if err == nil && !d.IsDir() && strings.HasSuffix(p, ".hsaco") {
			files = append(files, p)
		}
		return nil
	})
	sort.Strings(files)
	return files
}

// archOfELF: e_flags & EF_AMDGPU_MACH (ELF64 header offset 48): 0x4c = gfx942.
func archOfELF(data []byte) gcnasm.Arch {
	if len(data) >= 52 && data[48] == 0x4c {
		return gcnasm.CDNA3
	}
	return gcnasm.GCN3
}

//nolint:gocyclo,funlen
func runCorpus(p part, c *ctx) {
	out := c.out
	files := hsacoFiles()
	if len(files) == 0 {
		out.rec.Inconclusive("no .hsaco files under " + repoDir())
		return
	}
	decs := map[gcnasm.Arch][2]*insts.Disassembler{}
	for _, a := range []gcnasm.Arch{gcnasm.GCN3, gcnasm.CDNA3} {
		x, y := newDecoders(a)
		decs[a] = [2]*insts.Disassembler{x, y}
	}
	for fi, f := range files {
		if fi%p.Of != p.Sub {
			continue
		}
		rel, _ := filepath.Rel(repoDir(), f)
		data, err := os.ReadFile(f)
		if err != nil {
			out.rec.Inconclusive("cannot read " + f)
			continue
		}
		ef, err := elf.NewFile(bytes.NewReader(data))
		if err != nil {
			out.rec.Inconclusive("cannot parse " + f + ": " + err.Error())
			continue
		}
		arch := archOfELF(data)
		syms, _ := ef.Symbols()
		text := ef.Section(".text")
		out.count("corpus_files", 1)
		out.dist("corpus_arch", arch.String())
		for _, s := range syms {
			if s.Size == 0 || int(s.Section) >= len(ef.Sections) || ef.Sections[s.Section] != text {
				continue
			}
			kid := rel + ":" + s.Name
			c.before([]byte(kid), "load "+kid)
			co := insts.LoadKernelCodeObjectFromBytes(data, s.Name)
			code := co.Data
			out.count("corpus_kernels", 1)
			out.count("corpus_bytes", int64(len(code)))
			for mode, ma := range []gcnasm.Arch{arch, 1 - arch} {
				cc := *c
				cc.arch = ma
				cc.dA, cc.dB = decs[ma][0], decs[ma][1]
				cc.prevOK = false
				pc := 0
				ok := true
				for pc < len(code) {
					rest := code[pc:]
					win := rest[:min(len(rest), 12)]
					var o outcome
					var snap Snap
					if mode == 0 {
						o, snap, _ = cc.observe(win, true, fmt.Sprintf("%s pc=%#x", kid, pc))
					} else {
						cc.before(win, fmt.Sprintf("%s pc=%#x other-mode", kid, pc))
						o = safeDecode(cc.dA, win)
						if o.Kind == kInst {
							snap = snapInst(o.Inst)
						}
					}
					if o.Kind != kInst {
						out.class("C04|corpus|undecodable|"+o.Kind+"|"+slug(o.Msg), kid, true,
							"sequential decode of a shipped kernel from its entry stops at an instruction the decoder does not accept: "+o.Msg,
							map[string]any{"file": rel, "kernel": s.Name, "pc": pc, "bytes": hx(win), "mode": ma.String(), "isa_name": isaNameOfWord(ma, win)})
						ok = false
						break
					}
					if snap.Size <= 0 || pc+snap.Size > len(code) {
						out.class("C04|corpus|overrun|"+snap.Format, kid+"@"+ma.String(), true,
							"the last instruction of a shipped kernel extends beyond the end of its code",
							map[string]any{"file": rel, "kernel": s.Name, "pc": pc, "size": snap.Size, "code_len": len(code)})
						ok = false
						break
					}
					if mode == 0 {
						out.count("corpus_instructions", 1)
						out.dist("corpus_opcode", snap.Format+"/"+snap.Name)
						if snap.IsSdwa {
							out.count("corpus_sdwa_instructions", 1)
						}
						if snap.Size == 8 && (snap.Format == "sop2" || snap.Format == "sop1" || snap.Format == "sopc" || snap.Format == "vop1" || snap.Format == "vop2" || snap.Format == "vopc") && !snap.IsSdwa {
							out.count("corpus_literal_instructions", 1)
						}
						reencode(c, arch, o.Inst, snap, code[pc:pc+snap.Size], kid, pc)
					}
					pc += snap.Size
				}
				if mode == 0 {
					cc.sequencePass() // the kernel's instructions back to back, as the simulator decodes them
				}
				if ok {
					out.count("corpus_kernels_consumed_exactly_mode_"+[]string{"own", "other"}[mode], 1)
					if mode == 0 {
						out.count("corpus_bytes_consumed", int64(pc))
					}
				}
			}
		}
	}
}

func slug(s string) string {
	var b strings.Builder
	dash := false
	for _, r := range strings.ToLower(s) {
		if (r >= 'a' && r <= 'z') || (r >= '0' && r <= '9') {
			b.WriteRune(r)
			dash = false
		} else if !dash && b.Len() > 0 {
			b.WriteByte('-')
			dash = true
		}
	}
	return strings.Trim(b.String(), "-")
}

// isaNameOfWord: manual mnemonic of the opcode in a first dword (for reports).
func isaNameOfWord(a gcnasm.Arch, b []byte) string {
	if len(b) < 4 {
		return ""
	}
	w := binary.LittleEndian.Uint32(b)
	switch formatOf(w) {
	case "vop3":
		return gcnasm.NameOf(a, gcnasm.VOP3a, bitsOf(w, 16, 25))
	case "vop3p":
		return gcnasm.NameOf(a, gcnasm.VOP3P, bitsOf(w, 16, 22))
	case "vop1":
		return gcnasm.NameOf(a, gcnasm.VOP1, bitsOf(w, 9, 16))
	case "vop2":
		return gcnasm.NameOf(a, gcnasm.VOP2, bitsOf(w, 25, 30))
	case "vopc":
		return gcnasm.NameOf(a, gcnasm.VOPC, bitsOf(w, 17, 24))
	case "sop2":
		return gcnasm.NameOf(a, gcnasm.SOP2, bitsOf(w, 23, 29))
	case "sop1":
		return gcnasm.NameOf(a, gcnasm.SOP1, bitsOf(w, 8, 15))
	case "sopk":
		return gcnasm.NameOf(a, gcnasm.SOPK, bitsOf(w, 23, 27))
	case "sopc":
		return gcnasm.NameOf(a, gcnasm.SOPC, bitsOf(w, 16, 22))
	case "sopp":
		return gcnasm.NameOf(a, gcnasm.SOPP, bitsOf(w, 16, 22))
	case "smem":
		return gcnasm.NameOf(a, gcnasm.SMEM, bitsOf(w, 18, 25))
	case "ds":
		return gcnasm.NameOf(a, gcnasm.DS, bitsOf(w, 17, 24))
	case "flat":
		return gcnasm.NameOf(a, gcnasm.FLAT, bitsOf(w, 18, 24))
	}
	return ""
}

// reencode: encode(FromInst(decode(w))) must equal w. When it does not but
// decoding the re-encoded bytes gives the very same image, the decoder has
// lost (or invented) information the instruction image carries.
func reencode(c *ctx, arch gcnasm.Arch, in *insts.Inst, snap Snap, raw []byte, kid string, pc int) {
	out := c.out
	out.count("corpus_reencoded", 1)
	wit := func(extra map[string]any) map[string]any {
		m := map[string]any{"kernel": kid, "pc": pc, "bytes": hx(raw), "inst": snap.Name, "arch": arch.String()}
		for k, v := range extra {
			m[k] = v
		}
		return m
	}
	d, un, err := gcnasm.FromInst(in, arch, raw)
	if len(un.Fields) > 0 {
		out.count("corpus_insts_with_unrepresented_bits", 1)
		for _, f := range un.Fields {
			out.dist("unrepresented_fields_used", f)
		}
	}
	if err != nil {
		out.class("C04|corpus|inst-not-describable|"+snap.Format, snap.Name, true,
			"a decoded instruction of a shipped kernel cannot be turned back into a description: "+err.Error(), wit(nil))
		return
	}
	enc, err := gcnasm.Encode(d)
	if err != nil {
		out.class("C04|corpus|inst-not-encodable|"+snap.Format, snap.Name, true,
			"the description of a decoded instruction of a shipped kernel is not encodable: "+err.Error(), wit(map[string]any{"desc": descJSON(d)}))
		return
	}
	if bytes.Equal(enc, raw) {
		out.count("corpus_reencode_exact", 1)
		return
	}
	mask := make([]byte, max(len(enc), len(raw)))
	for i := range mask {
		var a, b byte
		if i < len(enc) {
			a = enc[i]
		}
		if i < len(raw) {
			b = raw[i]
		}
		mask[i] = a ^ b
	}
	o2 := safeDecode(c.dA, enc)
	if o2.Kind == kInst && snapInst(o2.Inst) == snap {
		out.class("C04|corpus|lossy-decode|"+snap.Format+"|xor="+hx(mask), snap.Name, true,
			"two different encodings (the shipped one and the re-encoding of its decoded image) decode to the identical instruction image: "+
				"the decoder reads these bits from the wrong place or drops them",
			wit(map[string]any{"reencoded": hx(enc), "desc": descJSON(d)}))
		return
	}
	out.class("C04|corpus|reencode-mismatch|"+snap.Format, snap.Name, true,
		"encode(FromInst(decode(w))) != w and the two encodings decode differently", wit(map[string]any{"reencoded": hx(enc), "desc": descJSON(d)}))
}
