package main

import (
	"encoding/binary"
	"encoding/hex"
	"encoding/json"
	"fmt"
	"os"
	"regexp"
	"strconv"
	"strings"
	"sync"
	"time"

	"github.com/sarchlab/mgpusim/v4/amd/insts"

	"verifharness/vlib"
	"verifharness/vlib/gcnasm"
)

// ctx is the per-goroutine checking context of a child.
type ctx struct {
	arch   gcnasm.Arch
	dA, dB *insts.Disassembler
	out    *childOut
	slow   bool
	prefix string // counter prefix: rt_ / tot_
	junk   *vlib.PRNG

	seq []seqItem // primary outcomes in call order, for the sequence pass

	prevInput []byte
	prevSnap  Snap
	prevInst  *insts.Inst
	prevOK    bool
}

type seqItem struct {
	in        []byte
	kind      string
	snap      Snap
	canonical bool
}

// sequencePass decodes everything this context has seen once more, on a fresh
// instance and back to back (no other Decode call in between), and compares
// with what was observed when the calls were interleaved with cross-checks:
// a decoder that carries state from one call to the next gives itself away.
func (c *ctx) sequencePass() {
	d, _ := newDecoders(c.arch)
	for _, it := range c.seq {
		c.before(it.in, "sequence pass")
		o := safeDecode(d, it.in)
		c.out.count("sequence_checks", 1)
		v := viewOf(it.in)
		wit := map[string]any{"bytes": hx(it.in), "arch": c.arch.String()}
		if o.Kind != it.kind {
			c.out.class("C04|state|sequence-dependent|outcome|"+v.Format, it.kind+"-vs-"+o.Kind, it.canonical,
				"the outcome of Decode depends on the calls made before it", wit)
			continue
		}
		if o.Kind == kInst {
			if s := snapInst(o.Inst); s != it.snap {
				f := strings.Join(diffSnap(it.snap, s), "+")
				c.out.class("C04|state|sequence-dependent|"+it.snap.Format+"|"+f, it.snap.Name, it.canonical,
					"the decoded instruction depends on the calls made before it (fields "+f+")", wit)
			}
		}
	}
	c.seq = nil
}

// newDecoders creates two independent instances in two different goroutines.
func newDecoders(arch gcnasm.Arch) (a, b *insts.Disassembler) {
	var wg sync.WaitGroup
	wg.Add(2)
	go func() { defer wg.Done(); a = insts.NewDisassembler(); a.IsCDNA3 = arch == gcnasm.CDNA3 }()
	go func() { defer wg.Done(); b = insts.NewDisassembler(); b.IsCDNA3 = arch == gcnasm.CDNA3 }()
	wg.Wait()
	return a, b
}

func (c *ctx) fork(label string) *ctx {
	n := *c
	n.junk = c.junk.Fork(label)
	n.prevOK = false
	n.seq = nil
	return &n
}

// before is called ahead of every call into the code under test.
func (c *ctx) before(input []byte, label string) {
	if c.slow {
		_ = os.WriteFile("current-input.txt", []byte(fmt.Sprintf("%s arch=%s bytes=%s\n", label, c.arch, hex.EncodeToString(input))), 0o644)
	}
	if k := os.Getenv("VERIF_C04_SELFTEST_KILL"); k != "" && k == hex.EncodeToString(input) {
		os.Exit(3) // self-test of the crash attribution path
	}
}

// exact returns a copy whose capacity equals its length, so that any read
// beyond the buffer's length is a runtime error instead of a silent over-read
// into spare capacity.
func exact(b []byte) []byte {
	out := make([]byte, len(b))
	copy(out, b)
	return out
}

var numRE = regexp.MustCompile(`[0-9a-fx]*[0-9][0-9a-fx]*`)

func hx(b []byte) string { return hex.EncodeToString(b) }

func (c *ctx) faultClass(o outcome, input []byte, canonical bool, during, name string) {
	v := viewOf(input)
	wit := map[string]any{"bytes": hx(input), "len": len(input), "arch": c.arch.String(), "panic": o.Msg, "during": during}
	switch {
	case len(input) < 4 && during == "decode":
		c.out.class("C04|fault|short-buffer", fmt.Sprintf("len=%d:%s", len(input), o.Class), canonical,
			"Decode panics (slice bounds / index out of range) on a buffer shorter than 4 bytes instead of returning an error", wit)
	case o.Class == "nil-deref":
		cause, member := causeOf(v)
		if cause == "other" && during == "print" {
			// no operand code explains it: the printer uses an operand the decoder never fills
			c.out.class("C04|fault|print-nil-deref|"+v.Format, name, canonical,
				"InstPrinter.Print dereferences an operand that Decode leaves nil for this instruction (table row without the operand's width)", wit)
			return
		}
		if member == "" {
			member = name
		}
		if member == "" {
			member = hx(input[:min(len(input), 8)])
		}
		what := "an operand code without meaning makes getOperand return (nil, error); the error is dropped and the nil operand is dereferenced in Decode, or returned inside the instruction and dereferenced by InstPrinter.Print (members marked print:)"
		if during == "print" {
			member = "print:" + member
		}
		c.out.class("C04|fault|nil-deref|"+cause+"|"+v.Format, member, canonical, what, wit)
	default:
		member := name
		if member == "" {
			member = hx(input[:min(len(input), 8)])
		}
		c.out.class("C04|fault|"+during+"-"+o.Class+"|"+v.Format, member, canonical,
			"runtime error inside "+during+": "+numRE.ReplaceAllString(o.Msg, "N"), wit)
	}
}

// observe decodes one input with every cross-check that needs no description
// and returns the primary outcome (and its image if an instruction).
//
//nolint:gocyclo,funlen
func (c *ctx) observe(input []byte, canonical bool, label string) (outcome, Snap, string) {
	input = exact(input)
	c.before(input, label)
	out := c.out
	o := safeDecode(c.dA, input)
	out.count(c.prefix+"decodes", 1)
	out.count(c.prefix+"outcome_"+o.Kind, 1)
	v := viewOf(input)
	if o.Kind == kFault {
		c.faultClass(o, input, canonical, "decode", "")
	}
	wit := func(extra map[string]any) map[string]any {
		m := map[string]any{"bytes": hx(input), "len": len(input), "arch": c.arch.String(), "label": label}
		for k, x := range extra {
			m[k] = x
		}
		return m
	}

	var snap Snap
	text := ""
	if o.Kind == kInst {
		snap = snapInst(o.Inst)
		// size
		switch {
		case snap.Size != 4 && snap.Size != 8:
			out.class(fmt.Sprintf("C04|missized|size=%d|%s", snap.Size, snap.Format), snap.Name, canonical,
				fmt.Sprintf("Decode returned an instruction of %d bytes (instructions are 4 or 8 bytes; the buffer had %d)", snap.Size, len(input)), wit(nil))
		case snap.Size > len(input):
			out.class("C04|missized|size-exceeds-buffer|"+snap.Format, snap.Name, canonical,
				fmt.Sprintf("Decode returned an instruction of %d bytes from a buffer of fewer bytes", snap.Size), wit(map[string]any{"size": snap.Size}))
		}
		p := safePrint(o.Inst)
		out.count(c.prefix+"prints", 1)
		switch p.Kind {
		case kInst:
			text = p.Text
			if text == "" && snap.Format != "flat" {
				out.class("C04|print|empty|"+snap.Format, snap.Name, canonical, "InstPrinter.Print returned an empty string", wit(nil))
			}
		case kFault:
			c.faultClass(outcome{Kind: kFault, Msg: p.Msg, Class: p.Class}, input, canonical, "print", snap.Name)
		default:
			out.count(c.prefix+"print_"+p.Kind, 1)
		}
	}

	// second, independently created instance
	o2 := safeDecode(c.dB, input)
	out.count("instance_checks", 1)
	switch {
	case o2.Kind != o.Kind:
		out.class("C04|instances-disagree|outcome|"+v.Format, o.Kind+"-vs-"+o2.Kind, canonical,
			"two Disassembler instances classify the same bytes differently", wit(map[string]any{"a": o.Kind + ": " + o.Msg, "b": o2.Kind + ": " + o2.Msg}))
	case o.Kind == kInst:
		s2 := snapInst(o2.Inst)
		if s2 != snap {
			f := strings.Join(diffSnap(snap, s2), "+")
			out.class("C04|instances-disagree|"+snap.Format+"|"+f, snap.Name, canonical,
				"two Disassembler instances decode the same bytes to different instructions (fields "+f+")", wit(nil))
		} else if p2 := safePrint(o2.Inst); p2.Kind == kInst && p2.Text != text {
			out.class("C04|instances-disagree|print|"+snap.Format, snap.Name, canonical,
				"the printed form differs between two instances", wit(map[string]any{"a": text, "b": p2.Text}))
		}
		if o2.Inst == o.Inst {
			out.class("C04|state|instances-share-inst-object", snap.Name, canonical, "two instances returned the same *Inst object", wit(nil))
		}
	case o.Kind == kError && numRE.ReplaceAllString(o.Msg, "N") != numRE.ReplaceAllString(o2.Msg, "N"):
		out.class("C04|instances-disagree|error-text|"+v.Format, numRE.ReplaceAllString(o.Msg, "N"), canonical,
			"two instances report different errors for the same bytes", wit(map[string]any{"a": o.Msg, "b": o2.Msg}))
	}

	// suffix independence: exactly-sized buffer and junk after the instruction
	if o.Kind == kInst && snap.Size <= len(input) && snap.Size > 0 {
		junk := make([]byte, 1+c.junk.Intn(9))
		c.junk.Bytes(junk)
		withJunk := exact(append(append([]byte(nil), input[:snap.Size]...), junk...))
		for i, alt := range [][]byte{exact(input[:snap.Size]), withJunk} {
			kind := []string{"exact-length", "junk-suffix"}[i]
			c.before(alt, label+"/"+kind)
			oa := safeDecode(c.dA, alt)
			out.count("suffix_checks", 1)
			if oa.Kind != kInst {
				out.class("C04|suffix-dependence|"+kind+"|outcome|"+snap.Format, snap.Name, canonical,
					fmt.Sprintf("decode(b) is an instruction of %d bytes but decode(b[:%d]%s) is %s", snap.Size, snap.Size,
						map[string]string{"exact-length": "", "junk-suffix": " ++ junk"}[kind], oa.Kind),
					wit(map[string]any{"alt": hx(alt), "alt_outcome": oa.Kind + ": " + oa.Msg}))
				continue
			}
			sa := snapInst(oa.Inst)
			if sa != snap {
				f := strings.Join(diffSnap(snap, sa), "+")
				out.class("C04|suffix-dependence|"+kind+"|"+snap.Format+"|"+f, snap.Name, canonical,
					"bytes beyond the reported length influence the decoded instruction (fields "+f+")", wit(map[string]any{"alt": hx(alt)}))
			} else if pa := safePrint(oa.Inst); pa.Kind == kInst && pa.Text != text {
				out.class("C04|suffix-dependence|"+kind+"|print|"+snap.Format, snap.Name, canonical,
					"bytes beyond the reported length influence the printed form", wit(map[string]any{"alt": hx(alt), "a": text, "b": pa.Text}))
			}
		}
	}

	// no state between calls: the previously returned instruction is untouched
	// and decoding the previous input again gives the same image
	if c.prevOK {
		if now := snapInst(c.prevInst); now != c.prevSnap {
			f := strings.Join(diffSnap(c.prevSnap, now), "+")
			out.class("C04|state|returned-inst-changed-by-later-decode|"+c.prevSnap.Format, c.prevSnap.Name, canonical,
				"an instruction returned earlier changed after a later Decode call (fields "+f+")",
				wit(map[string]any{"earlier_bytes": hx(c.prevInput)}))
		}
		ob := safeDecode(c.dA, c.prevInput)
		out.count("redecode_checks", 1)
		if ob.Kind != kInst {
			out.class("C04|state|redecode-differs|outcome", c.prevSnap.Name, canonical,
				"decoding the same bytes again after another instruction gives a different outcome", wit(map[string]any{"earlier_bytes": hx(c.prevInput), "now": ob.Kind + ": " + ob.Msg}))
		} else if sb := snapInst(ob.Inst); sb != c.prevSnap {
			f := strings.Join(diffSnap(c.prevSnap, sb), "+")
			out.class("C04|state|redecode-differs|"+c.prevSnap.Format+"|"+f, c.prevSnap.Name, canonical,
				"decoding the same bytes again after another instruction gives a different instruction (fields "+f+")", wit(map[string]any{"earlier_bytes": hx(c.prevInput)}))
		}
	}
	c.seq = append(c.seq, seqItem{in: input, kind: o.Kind, snap: snap, canonical: canonical})
	c.prevOK = o.Kind == kInst
	if c.prevOK {
		c.prevInput, c.prevSnap, c.prevInst = append([]byte(nil), input...), snap, o.Inst
	}
	return o, snap, text
}

// ---------------------------------------------------------------------------

func runChild() {
	var p part
	if err := json.Unmarshal([]byte(os.Getenv("VERIF_C04_PART")), &p); err != nil {
		fmt.Println("bad part:", err)
		os.Exit(2)
	}
	seed, _ := strconv.ParseUint(os.Getenv("VERIF_SEED"), 10, 64)
	if seed == 0 {
		seed = 1
	}
	go func() { // do not outlive the owning process
		for {
			time.Sleep(time.Second)
			if os.Getppid() == 1 {
				os.Exit(4)
			}
		}
	}()
	out := newChildOut()
	arch := gcnasm.Arch(p.Arch)
	c := &ctx{arch: arch, out: out, slow: os.Getenv("VERIF_C04_SLOW") != ""}
	c.dA, c.dB = newDecoders(arch)
	base := vlib.NewPRNG(seed).Fork(propID + "/" + p.String())
	c.junk = base.Fork("junk")
	switch p.Kind {
	case "rt":
		c.prefix = "rt_"
		runRT(p, c, base)
	case "tot":
		c.prefix = "tot_"
		runTot(p, c, base)
	case "corpus":
		c.prefix = "corpus_"
		runCorpus(p, c)
	case "mix":
		c.prefix = "mix_"
		runMix(p, c, base)
	case "promo":
		c.prefix = "promo_"
		runPromo(p, c, base)
	case "built":
		c.prefix = "built_"
		runBuilt(p, c, base)
	default:
		fmt.Println("unknown part kind", p.Kind)
		os.Exit(2)
	}
	out.flush()
	os.Exit(0)
}

// ---------------------------------------------------------------------------
// (1) round trip

// rtFormats: the encoder formats walked by the round-trip parts. VOP3a stands
// for the whole 10-bit VOP3 opcode space (VOP3b rows are the ones the manuals
// list for the VOP3b layout).
var rtFormats = []gcnasm.Format{gcnasm.SOP2, gcnasm.SOPK, gcnasm.SOP1, gcnasm.SOPC, gcnasm.SOPP, gcnasm.SMEM,
	gcnasm.VOP2, gcnasm.VOP1, gcnasm.VOPC, gcnasm.VOP3a, gcnasm.VOP3P, gcnasm.DS, gcnasm.FLAT}

const numRTFormats = 13

var srcModRE = regexp.MustCompile(`^src[012]_(abs|neg|sext)$`)

// aspectOf groups a differing field into the aspect named in the violation
// key; detail goes into the member (with the instruction name).
func aspectOf(df Diff) (aspect, detail string) {
	switch {
	case df.Field == "format":
		return "decoded-as-" + df.Got, "format"
	case strings.HasSuffix(df.Field, ".count"):
		return "operand-width", strings.TrimSuffix(df.Field, ".count") + ":" + df.Class
	case df.Class == "missing", df.Class == "unexpected", df.Class == "register", df.Class == "kind",
		df.Class == "int-value", df.Class == "float-value", df.Class == "literal-value":
		return "operand-" + df.Class, df.Field
	case df.Field == "size":
		return "size", df.Class
	case srcModRE.MatchString(df.Field):
		return "modifier-" + srcModRE.FindStringSubmatch(df.Field)[1], df.Field + ":" + df.Class
	}
	return "modifier-" + df.Field, df.Class
}

var notFoundRE = regexp.MustCompile(`not found|cannot find the instruction format`)

func errClass(msg string) string { return numRE.ReplaceAllString(msg, "N") }

func descJSON(d gcnasm.Desc) any {
	b, _ := json.Marshal(d)
	var v any
	_ = json.Unmarshal(b, &v)
	return v
}

// probeRow decides whether the decoder has a table row for opcode op of
// format f (VOP3a = the 10-bit VOP3 space) and, if so, names it, looks up the
// mnemonic the manuals of c.arch give that opcode (manualName) and derives the
// operand widths from the manuals' mnemonic - never from the decoder's.
//
// Judged says where the expectation comes from:
//
//	manual      the manuals of c.arch name the opcode; the decoder must report
//	            that mnemonic (or a documented rename, nameAliases) and the
//	            widths it implies
//	other-arch  the manuals of c.arch have no such opcode, the other
//	            architecture's have and the decoder (one table for both) reports
//	            that instruction: judged by the other manual's widths, listed
//	none        neither manual names what the decoder reports: round trip of
//	            fields only, no name / width expectation; counted and listed
func probeRow(c *ctx, f gcnasm.Format, op int, count bool) (row, bool) {
	out := c.out
	ff := f
	if f == gcnasm.VOP3a && gcnasm.IsVOP3bOpcode(c.arch, op) {
		ff = gcnasm.VOP3b
	}
	r := row{Arch: c.arch, Format: ff, Opcode: op}
	probe, err := gcnasm.Encode(r.base())
	if err != nil {
		out.inconclusive(fmt.Sprintf("encoder rejected probe for %s: %v", r.id(), err))
		return r, false
	}
	if got := formatOf(binary.LittleEndian.Uint32(probe)); got != formatNameOf(ff) && !(got == "vop3" && (ff == gcnasm.VOP3a || ff == gcnasm.VOP3b)) && !(got == "vop3p" && ff == gcnasm.VOP3P) {
		if count {
			out.count("rt_opcode_values_belonging_to_other_format", 1)
		}
		return r, false // e.g. SOP2 OP=125 is the SOP1 encoding
	}
	c.before(probe, "probe "+r.id())
	po := safeDecode(c.dA, probe)
	r.ManName, r.ManSource = manualName(c.arch, ff, op)
	if po.Kind == kError && notFoundRE.MatchString(po.Msg) {
		if count {
			out.count("rt_opcodes_without_row", 1)
			if r.ManName != "" {
				// the manual defines it, the simulator does not support it: not a
				// C04 matter (supported instruction = row of the decoder), but visible
				out.count("rt_manual_opcodes_without_row", 1)
				out.note("manual_opcodes_without_row", fmt.Sprintf("%s %s", r.id(), r.ManName))
			}
		}
		return r, false
	}
	if po.Kind == kInst {
		r.DecName = po.Inst.InstName
	}
	dn := normDec(r.DecName)
	otherName, _ := manualName(otherArch(c.arch), ff, op)
	switch {
	case r.ManName != "":
		r.Judged, r.RefName = "manual", r.ManName
	case otherName != "" && (dn == "" || dn == otherName || aliasOK(otherArch(c.arch), ff, op, dn, otherName)):
		r.Judged, r.RefName = "other-arch", otherName
	default:
		r.Judged, r.RefName = "none", dn
	}
	if dn == "" {
		// the probe did not decode to an instruction (fault / diagnostic, reported
		// by the round trip itself): members are named after the reference
		r.DecName = r.RefName
	}
	if r.Judged != "none" {
		r.W = gcnasm.WidthsOf(ff, op, r.RefName)
	}
	if !count {
		return r, true
	}
	out.count("rt_rows", 1)
	out.count("rt_rows_"+ff.String(), 1)
	out.count("rt_rows_judged_by_"+r.Judged, 1)
	if po.Kind == kInst && strings.TrimSpace(r.DecName) != r.DecName {
		out.note("decoder_mnemonics_with_blanks", fmt.Sprintf("%s %q", r.id(), r.DecName)) // compared without them
	}
	switch {
	case r.Judged == "none":
		out.count("rt_rows_not_judged", 1)
		out.note("not_judged", fmt.Sprintf("%s dec=%s: no opcode-table entry in either manual%s", r.id(), dn, map[bool]string{true: " (the other manual names it " + otherName + ")", false: ""}[otherName != ""]))
	case r.Judged == "other-arch":
		out.note("judged_by_other_arch", fmt.Sprintf("%s dec=%s", r.id(), dn))
		fallthrough
	default:
		if !r.W.Known {
			out.count("rt_rows_widths_not_modelled", 1)
			out.note("widths_not_modelled", fmt.Sprintf("%s %s", r.id(), r.RefName))
		} else {
			out.count("rt_rows_width_checked", 1)
		}
	}
	// the mnemonic itself
	if r.Judged == "manual" && po.Kind == kInst {
		out.count("rt_names_compared", 1)
		switch {
		case dn == r.ManName:
			out.count("rt_names_equal_manual", 1)
		case aliasOK(c.arch, ff, op, dn, r.ManName):
			out.count("rt_names_documented_rename", 1)
		default:
			out.class(fmt.Sprintf("C04|roundtrip|%s|name-differs-from-manual|%s|%d", ff, c.arch, op), dn+"-for-"+r.ManName, true,
				fmt.Sprintf("%s decoder: %s opcode %d decodes as %q; the %s names it %q", c.arch, ff, op, dn, r.ManSource, r.ManName),
				map[string]any{"arch": c.arch.String(), "row": r.id(), "bytes": hx(probe), "decoded_name": r.DecName, "manual_name": r.ManName,
					"manual_source": r.ManSource, "other_arch_manual_name": otherName, "decoded_row_widths": snapInst(po.Inst).RowWidths, "manual_widths": r.W})
		}
	}
	return r, true
}

func opcodeSpace(f gcnasm.Format) int {
	if f == gcnasm.VOP3a {
		return 896 // 896.. is the VOP3P encoding (ENCODING 110100111)
	}
	return 1 << gcnasm.OpcodeFieldBits(f)
}

// runMix: one encoding of every row of every format (plus literal and SDWA
// forms), decoded back to back in several shuffled orders on one instance;
// each result must equal the one obtained after a neutral predecessor
// (s_nop) on another instance. This is the cross-format part of the "no
// state between calls" check.
func runMix(p part, c *ctx, base *vlib.PRNG) {
	type item struct {
		b    []byte
		name string
	}
	var items []item
	for _, f := range rtFormats {
		for op := 0; op < opcodeSpace(f); op++ {
			r, ok := probeRow(c, f, op, false)
			if !ok {
				continue
			}
			pats := r.patterns(base, 0)
			picked := map[string]bool{}
			for _, pt := range pats {
				kind := ""
				switch {
				case pt.ID == "base":
					kind = "base"
				case strings.Contains(pt.ID, "lit("):
					kind = "lit:" + strings.SplitN(pt.ID, "#", 2)[0]
				case pt.ID == "sdwa:default":
					kind = "sdwa"
				}
				if kind == "" || picked[kind] {
					continue
				}
				if enc, err := gcnasm.Encode(pt.D); err == nil {
					picked[kind] = true
					items = append(items, item{exact(enc), gcnasm.NormName(r.DecName) + "/" + kind})
				}
			}
		}
	}
	nop := gcnasm.MustEncode(gcnasm.Nop(0))
	type ref struct {
		kind string
		snap Snap
	}
	refs := make([]ref, len(items))
	for i, it := range items {
		safeDecode(c.dB, nop)
		o := safeDecode(c.dB, it.b)
		refs[i].kind = o.Kind
		if o.Kind == kInst {
			refs[i].snap = snapInst(o.Inst)
		}
	}
	c.out.count("mix_items", int64(len(items)))
	canonPerm := vlib.NewPRNG(0xC04).Fork("mix")
	for round := 0; round < 3+p.N; round++ {
		canonical := round < 3
		var perm []int
		if canonical {
			perm = canonPerm.Perm(len(items))
		} else {
			perm = base.ForkN("perm", round).Perm(len(items))
		}
		prev := "(first)"
		for _, i := range perm {
			c.before(items[i].b, "mix "+items[i].name)
			o := safeDecode(c.dA, items[i].b)
			c.out.count("mix_sequence_checks", 1)
			v := viewOf(items[i].b)
			wit := map[string]any{"bytes": hx(items[i].b), "inst": items[i].name, "predecessor": prev, "arch": c.arch.String()}
			if o.Kind != refs[i].kind {
				c.out.class("C04|state|sequence-dependent|outcome|"+v.Format, items[i].name, canonical,
					"the outcome of Decode depends on the instruction decoded before it", wit)
			} else if o.Kind == kInst {
				if sn := snapInst(o.Inst); sn != refs[i].snap {
					fl := strings.Join(diffSnap(refs[i].snap, sn), "+")
					c.out.class("C04|state|sequence-dependent|"+refs[i].snap.Format+"|"+fl, items[i].name, canonical,
						"the decoded instruction depends on the instruction decoded before it (fields "+fl+")", wit)
				}
			}
			prev = items[i].name + " " + hx(items[i].b)
		}
	}
}

//nolint:gocyclo,funlen
func runRT(p part, c *ctx, base *vlib.PRNG) {
	out := c.out
	f := rtFormats[p.Sub]
	nOps := opcodeSpace(f)
	for op := 0; op < nOps; op++ {
		r, ok := probeRow(c, f, op, true)
		if !ok {
			continue
		}
		ff := r.Format

		pats := r.patterns(base.ForkN("row", op), p.N)
		var ids []string
		for _, pt := range pats {
			enc, err := gcnasm.Encode(pt.D)
			if err != nil {
				out.count("rt_patterns_rejected_by_encoder", 1)
				out.dist("encoder_rejections", fmt.Sprintf("%s %s: %v", r.id(), pt.ID, err))
				continue
			}
			canonical := !strings.HasPrefix(pt.ID, "r")
			label := r.id() + " " + r.DecName + " " + pt.ID
			o, snap, _ := c.observe(enc, canonical, label)
			out.count("rt_patterns", 1)
			member := gcnasm.NormName(r.DecName) + "@" + c.arch.String()
			wit := func(extra map[string]any) map[string]any {
				m := map[string]any{"arch": c.arch.String(), "row": r.id(), "name": r.DecName, "pattern": pt.ID, "desc": descJSON(pt.D), "bytes": hx(enc)}
				for k, x := range extra {
					m[k] = x
				}
				return m
			}
			switch o.Kind {
			case kInst:
				diffs := diffExpect(snap, expectFor(pt.D, r.W, r.ref()))
				out.count("rt_fields_compared", 60)
				for _, df := range diffs {
					if df.Field == "format" {
						// the whole layout was misjudged: the other differences are consequences
						diffs = []Diff{df}
						break
					}
				}
				for _, df := range diffs {
					aspect, detail := aspectOf(df)
					out.class(fmt.Sprintf("C04|roundtrip|%s|%s", ff, aspect), gcnasm.NormName(r.DecName)+":"+detail+"@"+c.arch.String(), canonical,
						"decode(encode(d)) differs from d ("+aspect+")",
						wit(map[string]any{"field": df.Field, "decoded": df.Got, "described": df.Want}))
				}
				if len(diffs) == 0 {
					out.count("rt_exact", 1)
					if op%97 == 3 && pt.ID == pats[0].ID {
						// a literal case for the evidence file
						out.rec.Sample(map[string]any{"kind": "round-trip", "arch": c.arch.String(), "row": r.id(), "name": r.DecName,
							"pattern": pt.ID, "bytes": hx(enc), "desc": descJSON(pt.D)})
					}
				}
			case kError:
				out.class("C04|roundtrip|decode-error|"+ff.String()+"|"+errClass(o.Msg), member, canonical,
					"a well-formed encoding of a supported instruction is reported undecodable: "+o.Msg, wit(nil))
			case kDiag:
				if pt.DiagOK {
					out.count("rt_diagnostic_accepted", 1)
				} else {
					out.class("C04|roundtrip|diagnostic-without-unsupported-modifier|"+ff.String(), member, canonical,
						"a plain encoding of a supported instruction ends in a not-implemented diagnostic: "+o.Msg, wit(nil))
				}
			case kExplicit:
				out.class("C04|roundtrip|explicit-panic|"+ff.String()+"|"+errClass(o.Msg), member, canonical,
					"a well-formed encoding of a supported instruction makes Decode panic: "+o.Msg, wit(nil))
			}
			ids = append(ids, r.id()+"/"+pt.ID)
		}
		for _, id := range ids {
			out.nontrivial(id)
		}
		out.dist("rt_row", r.id())
	}
	c.sequencePass()
}
