package main

import (
	"fmt"
	"strings"

	"verifharness/vlib"
	"verifharness/vlib/gcnasm"
)

// row is one supported instruction: a row of the decoder's table, found by
// probing the opcode space of a format through Decode.
type row struct {
	Arch    gcnasm.Arch
	Format  gcnasm.Format // VOP3b rows are reported by the decoder's format name
	Opcode  int           // VOP3P: 7-bit op (decoder opcode - 896)
	DecName string        // the simulator's mnemonic
	// ManName is the mnemonic the manuals of Arch give this opcode ("" = none);
	// ManSource says which table. RefName is the mnemonic the descriptions of
	// this row are built for: ManName, else the other architecture's manual name
	// if that is what the shared decode table holds, else DecName. Judged =
	// manual | other-arch | none (see probeRow).
	ManName, ManSource string
	RefName            string
	Judged             string
	W                  gcnasm.Widths // widths implied by RefName (Known=false if Judged == "none")
}

// ref is the (normalised) mnemonic that decides which operands / patterns a
// description of this row has.
func (r row) ref() string {
	if r.RefName != "" {
		return r.RefName
	}
	return gcnasm.NormName(r.DecName)
}

func (r row) id() string { return fmt.Sprintf("%s/%s/%d", r.Arch, r.Format, r.Opcode) }

type pat struct {
	ID string
	D  gcnasm.Desc
	// Allowed diagnostics: the description uses a modifier the simulator
	// documents as unsupported (SDWA sext/neg/abs/clamp); an explicit
	// "not implemented" panic is then an accepted answer.
	DiagOK bool
}

func wOr1(w int) int {
	if w < 1 {
		return 1
	}
	return w
}

// scalarSources lists well-formed scalar source operands of the given width.
func scalarSources(w int, lits bool) []gcnasm.Operand {
	w = wOr1(w)
	var o []gcnasm.Operand
	maxS := 102 - w
	if w > 1 {
		maxS &^= 1
	}
	o = append(o, gcnasm.SRange(0, w), gcnasm.SRange(maxS, w), gcnasm.SRange(50, w))
	if w == 1 {
		o = append(o, gcnasm.VCCLo, gcnasm.VCCHi, gcnasm.EXECLo, gcnasm.EXECHi, gcnasm.M0,
			gcnasm.Special(gcnasm.CodeFlatScrLo, 1), gcnasm.Special(gcnasm.CodeFlatScrHi, 1),
			gcnasm.Special(gcnasm.CodeXnackMaskLo, 1), gcnasm.Special(gcnasm.CodeXnackMaskHi, 1),
			gcnasm.Special(gcnasm.CodeTBALo, 1), gcnasm.Special(gcnasm.CodeTBAHi, 1),
			gcnasm.Special(gcnasm.CodeTMALo, 1), gcnasm.Special(gcnasm.CodeTMAHi, 1),
			gcnasm.Special(gcnasm.CodeTTMP0, 1), gcnasm.Special(gcnasm.CodeTTMP0+10, 1),
			gcnasm.VCCZ, gcnasm.EXECZ, gcnasm.SCC)
	} else if w == 2 {
		o = append(o, gcnasm.VCC, gcnasm.EXEC,
			gcnasm.Special(gcnasm.CodeFlatScrLo, 2), gcnasm.Special(gcnasm.CodeXnackMaskLo, 2),
			gcnasm.Special(gcnasm.CodeTBALo, 2), gcnasm.Special(gcnasm.CodeTMALo, 2), gcnasm.Special(gcnasm.CodeTTMP0, 2))
	}
	for _, i := range []int{0, 1, 2, 63, 64, -1, -2, -15, -16} {
		o = append(o, gcnasm.Imm(i))
	}
	for _, f := range []float64{0.5, -0.5, 1, -1, 2, -2, 4, -4, gcnasm.Inv2Pi} {
		o = append(o, gcnasm.F(f))
	}
	if lits {
		o = append(o, gcnasm.Lit(0), gcnasm.Lit(0xffffffff), gcnasm.Lit(0x12345678), gcnasm.Lit(0x80000000))
	}
	return o
}

func scalarDests(w int) []gcnasm.Operand {
	w = wOr1(w)
	maxS := 102 - w
	if w > 1 {
		maxS &^= 1
	}
	o := []gcnasm.Operand{gcnasm.SRange(0, w), gcnasm.SRange(maxS, w), gcnasm.SRange(48, w)}
	if w == 1 {
		o = append(o, gcnasm.VCCLo, gcnasm.VCCHi, gcnasm.EXECLo, gcnasm.EXECHi, gcnasm.M0,
			gcnasm.Special(gcnasm.CodeFlatScrLo, 1), gcnasm.Special(gcnasm.CodeXnackMaskHi, 1),
			gcnasm.Special(gcnasm.CodeTBALo, 1), gcnasm.Special(gcnasm.CodeTMAHi, 1), gcnasm.Special(gcnasm.CodeTTMP0+3, 1))
	} else if w == 2 {
		o = append(o, gcnasm.VCC, gcnasm.EXEC, gcnasm.Special(gcnasm.CodeFlatScrLo, 2), gcnasm.Special(gcnasm.CodeTTMP0, 2))
	}
	return o
}

func vgprs(w int) []gcnasm.Operand {
	w = wOr1(w)
	return []gcnasm.Operand{gcnasm.VRange(0, w), gcnasm.VRange(256-w, w), gcnasm.VRange(128, w), gcnasm.VRange(1, w)}
}

func vectorSources(w int, lits bool) []gcnasm.Operand {
	return append(vgprs(w), scalarSources(w, lits)...)
}

func hasAny(n string, subs ...string) bool {
	for _, s := range subs {
		if strings.Contains(n, s) {
			return true
		}
	}
	return false
}

// base returns the benign description of a row: small register numbers, no
// modifiers. Every pattern is a variation of it.
//
//nolint:gocyclo
func (r row) base() gcnasm.Desc {
	w := r.W
	n := r.ref()
	d := gcnasm.Desc{Arch: r.Arch, Format: r.Format, Opcode: r.Opcode, Name: n}
	sw := func(x int) gcnasm.Operand { return gcnasm.SRange(2, wOr1(x)) }
	switch r.Format {
	case gcnasm.SOP2:
		d.Dst, d.Src0, d.Src1 = gcnasm.SRange(4, wOr1(w.Dst)), gcnasm.SRange(2, wOr1(w.Src0)), gcnasm.SRange(6, wOr1(w.Src1))
	case gcnasm.SOPK:
		d.Dst = gcnasm.SRange(4, wOr1(w.Dst))
		d.SImm16 = 3
		if n == "s_setreg_imm32_b32" {
			d.HasLiteral32, d.Literal32 = true, 0xdeadbeef
		}
	case gcnasm.SOP1:
		d.Dst, d.Src0 = gcnasm.SRange(4, wOr1(w.Dst)), sw(w.Src0)
	case gcnasm.SOPC:
		d.Src0, d.Src1 = sw(w.Src0), gcnasm.SRange(6, wOr1(w.Src1))
	case gcnasm.SOPP:
		d.SImm16 = 1
	case gcnasm.SMEM:
		d.Data = gcnasm.SRange(8, wOr1(w.Data))
		d.Base = gcnasm.SRange(4, 2)
		if w.Known && w.Addr == 4 {
			d.Base = gcnasm.SRange(4, 4)
		}
		d.Imm, d.Offset = true, 0x10
	case gcnasm.VOP2:
		d.Dst, d.Src0, d.Src1 = gcnasm.VRange(4, wOr1(w.Dst)), gcnasm.VRange(2, wOr1(w.Src0)), gcnasm.VRange(6, wOr1(w.Src1))
		if hasAny(n, "madmk", "madak", "fmamk", "fmaak") {
			d.Src2 = gcnasm.Lit(0x40490fdb)
		}
	case gcnasm.VOP1:
		d.Dst, d.Src0 = gcnasm.VRange(4, wOr1(w.Dst)), gcnasm.VRange(2, wOr1(w.Src0))
		if w.Known && w.DstIsSGPR {
			d.Dst = gcnasm.S(4)
		}
	case gcnasm.VOPC:
		d.Src0, d.Src1 = gcnasm.VRange(2, wOr1(w.Src0)), gcnasm.VRange(6, wOr1(w.Src1))
	case gcnasm.VOP3a, gcnasm.VOP3b, gcnasm.VOP3P:
		d.Dst = gcnasm.VRange(4, wOr1(w.Dst))
		if (w.Known && w.DstIsSGPR) || (r.Format != gcnasm.VOP3P && r.Opcode < 256) {
			d.Dst = gcnasm.SRange(4, wOr1(w.Dst))
		}
		d.Src0 = gcnasm.VRange(2, wOr1(w.Src0))
		if !w.Known || w.Src1 > 0 {
			d.Src1 = gcnasm.VRange(6, wOr1(w.Src1))
		}
		if w.Known && w.Src2 > 0 {
			d.Src2 = gcnasm.VRange(8, w.Src2)
			if n == "v_cndmask_b32" || hasAny(n, "v_addc", "v_subb", "v_div_fmas") {
				d.Src2 = gcnasm.SRange(10, 2)
				if hasAny(n, "v_div_fmas") {
					d.Src2 = gcnasm.VRange(8, w.Src2)
				}
			}
		}
		if w.Known && w.Src1IsLaneSel {
			d.Src1 = gcnasm.S(6)
		}
		if r.Format == gcnasm.VOP3b {
			d.SDst = gcnasm.SRange(12, 2)
		}
		if r.Format == gcnasm.VOP3P {
			d.OpSelHi = 3
			if d.Src2.Kind != gcnasm.KNone {
				d.OpSelHi = 7
			}
		}
	case gcnasm.DS:
		d.Addr = gcnasm.V(2)
		if !w.Known || w.Data > 0 {
			d.Data = gcnasm.VRange(4, wOr1(w.Data))
		}
		if !w.Known || w.Data1 > 0 {
			d.Data1 = gcnasm.VRange(8, wOr1(w.Data1))
		}
		if !w.Known || w.MemDst > 0 {
			d.Dst = gcnasm.VRange(12, wOr1(w.MemDst))
		}
	case gcnasm.FLAT:
		d.Addr = gcnasm.VRange(2, 2)
		if !w.Known || w.Data > 0 {
			d.Data = gcnasm.VRange(4, wOr1(w.Data))
		}
		if !w.Known || w.MemDst > 0 {
			d.Dst = gcnasm.VRange(12, wOr1(w.MemDst))
		}
		if r.Arch == gcnasm.CDNA3 {
			d.Seg = gcnasm.SegGlobal
			d.SAddr = gcnasm.Off
		}
	}
	return d
}

// patterns lists the canonical (seed-independent) descriptions of a row, then
// nRandom seeded ones.
//
//nolint:gocyclo,funlen
func (r row) patterns(rng *vlib.PRNG, nRandom int) []pat {
	w := r.W
	n := r.ref()
	b := r.base()
	out := []pat{{ID: "base", D: b}}
	add := func(id string, d gcnasm.Desc) { out = append(out, pat{ID: id, D: d}) }
	vary := func(slot string, cands []gcnasm.Operand, setf func(d *gcnasm.Desc, o gcnasm.Operand)) {
		for i, o := range cands {
			d := b
			setf(&d, o)
			add(fmt.Sprintf("%s#%d:%s", slot, i, o), d)
		}
	}
	kLit := hasAny(n, "madmk", "madak", "fmamk", "fmaak")
	simms := []uint16{0, 1, 0x7fff, 0x8000, 0xffff, 0x1234}

	switch r.Format {
	case gcnasm.SOP2:
		vary("src0", scalarSources(w.Src0, true), func(d *gcnasm.Desc, o gcnasm.Operand) { d.Src0 = o })
		vary("src1", scalarSources(w.Src1, true), func(d *gcnasm.Desc, o gcnasm.Operand) { d.Src1 = o })
		if !w.Known || w.Dst > 0 {
			vary("dst", scalarDests(w.Dst), func(d *gcnasm.Desc, o gcnasm.Operand) { d.Dst = o })
		}
	case gcnasm.SOPK:
		vary("dst", scalarDests(w.Dst), func(d *gcnasm.Desc, o gcnasm.Operand) { d.Dst = o })
		for _, v := range simms {
			d := b
			d.SImm16 = v
			add(fmt.Sprintf("simm16=%#x", v), d)
		}
	case gcnasm.SOP1:
		if !w.Known || w.Src0 > 0 {
			vary("src0", scalarSources(w.Src0, true), func(d *gcnasm.Desc, o gcnasm.Operand) { d.Src0 = o })
		}
		if !w.Known || w.Dst > 0 {
			vary("dst", scalarDests(w.Dst), func(d *gcnasm.Desc, o gcnasm.Operand) { d.Dst = o })
		}
	case gcnasm.SOPC:
		vary("src0", scalarSources(w.Src0, true), func(d *gcnasm.Desc, o gcnasm.Operand) { d.Src0 = o })
		vary("src1", scalarSources(w.Src1, true), func(d *gcnasm.Desc, o gcnasm.Operand) { d.Src1 = o })
	case gcnasm.SOPP:
		vals := simms
		if r.Opcode == gcnasm.OpSWaitcnt {
			// vmcnt [3:0], expcnt [6:4], lgkmcnt [11:8] (+ CDNA3 vmcnt [15:14])
			vals = []uint16{0, 0x0f7f, 0x0070, 0x007f, 0x0f70, 0x0171, 0x0e7e, 0x0373, 0x0000 | 7<<4, 0x0f0f}
			if r.Arch == gcnasm.CDNA3 {
				vals = append(vals, 0xc07f, 0xcf7f, 0x4f70, 0x8f73, 0xc000)
			}
		}
		for _, v := range vals {
			d := b
			d.SImm16 = v
			add(fmt.Sprintf("simm16=%#x", v), d)
		}
	case gcnasm.SMEM:
		if !w.Known || w.Data > 0 {
			vary("data", scalarDests(w.Data)[:3], func(d *gcnasm.Desc, o gcnasm.Operand) { d.Data = o })
			if w.Data == 2 {
				vary("data-special", []gcnasm.Operand{gcnasm.VCC}, func(d *gcnasm.Desc, o gcnasm.Operand) { d.Data = o })
			}
			if w.Data == 1 {
				vary("data-special", []gcnasm.Operand{gcnasm.VCCLo, gcnasm.VCCHi}, func(d *gcnasm.Desc, o gcnasm.Operand) { d.Data = o })
			}
		}
		bw := b.Base.W()
		vary("base", []gcnasm.Operand{gcnasm.SRange(0, bw), gcnasm.SRange(100-(bw-2), bw), gcnasm.SRange(48, bw)},
			func(d *gcnasm.Desc, o gcnasm.Operand) { d.Base = o })
		offs := []int64{0, 1, 4, 0xfffff, 0x80000, 0x12345}
		if r.Arch == gcnasm.CDNA3 {
			offs = append(offs, -1, -(1 << 20), -4)
		}
		for _, v := range offs {
			d := b
			d.Offset = v
			add(fmt.Sprintf("imm-offset=%d", v), d)
		}
		vary("soffset", []gcnasm.Operand{gcnasm.S(0), gcnasm.S(101), gcnasm.S(7)},
			func(d *gcnasm.Desc, o gcnasm.Operand) { d.Imm, d.Offset, d.SOffset = false, 0, o })
		{
			d := b
			d.GLC = true
			add("glc", d)
		}
	case gcnasm.VOP2:
		vary("src0", vectorSources(w.Src0, !kLit), func(d *gcnasm.Desc, o gcnasm.Operand) { d.Src0 = o }) // madmk/madak: K is the only literal
		vary("src1", vgprs(w.Src1), func(d *gcnasm.Desc, o gcnasm.Operand) { d.Src1 = o })
		vary("dst", vgprs(w.Dst), func(d *gcnasm.Desc, o gcnasm.Operand) { d.Dst = o })
		if kLit {
			for _, k := range []uint32{0, 0xffffffff, 0x3f800000} {
				d := b
				d.Src2 = gcnasm.Lit(k)
				add(fmt.Sprintf("K=%#x", k), d)
			}
		} else {
			out = append(out, r.sdwaPatterns(b)...)
		}
	case gcnasm.VOP1:
		if !w.Known || w.Src0 > 0 {
			vary("src0", vectorSources(w.Src0, true), func(d *gcnasm.Desc, o gcnasm.Operand) { d.Src0 = o })
		}
		if !w.Known || w.Dst > 0 {
			if w.Known && w.DstIsSGPR {
				vary("dst", scalarDests(1)[:3], func(d *gcnasm.Desc, o gcnasm.Operand) { d.Dst = o })
			} else {
				vary("dst", vgprs(w.Dst), func(d *gcnasm.Desc, o gcnasm.Operand) { d.Dst = o })
			}
		}
		if (!w.Known || w.Src0 > 0) && !(w.Known && w.DstIsSGPR) {
			out = append(out, r.sdwaPatterns(b)...)
		}
	case gcnasm.VOPC:
		vary("src0", vectorSources(w.Src0, true), func(d *gcnasm.Desc, o gcnasm.Operand) { d.Src0 = o })
		vary("src1", vgprs(w.Src1), func(d *gcnasm.Desc, o gcnasm.Operand) { d.Src1 = o })
		out = append(out, r.sdwaPatterns(b)...)
	case gcnasm.VOP3a, gcnasm.VOP3b, gcnasm.VOP3P:
		if b.Dst.Kind == gcnasm.KSGPR {
			vary("dst", scalarDests(w.Dst), func(d *gcnasm.Desc, o gcnasm.Operand) { d.Dst = o })
		} else {
			vary("dst", vgprs(w.Dst), func(d *gcnasm.Desc, o gcnasm.Operand) { d.Dst = o })
		}
		vary("src0", vectorSources(w.Src0, false), func(d *gcnasm.Desc, o gcnasm.Operand) { d.Src0 = o })
		if b.Src1.Kind != gcnasm.KNone {
			vary("src1", vectorSources(w.Src1, false), func(d *gcnasm.Desc, o gcnasm.Operand) { d.Src1 = o })
		}
		if b.Src2.Kind != gcnasm.KNone {
			vary("src2", vectorSources(w.Src2, false), func(d *gcnasm.Desc, o gcnasm.Operand) { d.Src2 = o })
		}
		if r.Format == gcnasm.VOP3b {
			vary("sdst", scalarDests(2), func(d *gcnasm.Desc, o gcnasm.Operand) { d.SDst = o })
		}
		nsrc := 1
		if b.Src1.Kind != gcnasm.KNone {
			nsrc = 2
		}
		if b.Src2.Kind != gcnasm.KNone {
			nsrc = 3
		}
		for m := 1; m < 1<<nsrc; m++ {
			d := b
			d.Neg = uint8(m)
			add(fmt.Sprintf("neg=%d", m), d)
			if r.Format == gcnasm.VOP3a {
				d = b
				d.Abs = uint8(m)
				add(fmt.Sprintf("abs=%d", m), d)
				d.Neg = uint8(m)
				add(fmt.Sprintf("abs=neg=%d", m), d)
			}
			if r.Format == gcnasm.VOP3P {
				d = b
				d.NegHi = uint8(m)
				add(fmt.Sprintf("neg_hi=%d", m), d)
				d = b
				d.OpSel = uint8(m)
				add(fmt.Sprintf("op_sel=%d", m), d)
				d = b
				d.OpSelHi = uint8(m) ^ b.OpSelHi
				add(fmt.Sprintf("op_sel_hi=%d", d.OpSelHi), d)
			}
		}
		if r.Format != gcnasm.VOP3P {
			for m := 1; m <= 3; m++ {
				d := b
				d.Omod = uint8(m)
				add(fmt.Sprintf("omod=%d", m), d)
			}
		}
		{
			d := b
			d.Clamp = true
			add("clamp", d)
		}
	case gcnasm.DS:
		vary("addr", vgprs(1), func(d *gcnasm.Desc, o gcnasm.Operand) { d.Addr = o })
		if b.Data.Kind != gcnasm.KNone {
			vary("data", vgprs(b.Data.W()), func(d *gcnasm.Desc, o gcnasm.Operand) { d.Data = o })
		}
		if b.Data1.Kind != gcnasm.KNone {
			vary("data1", vgprs(b.Data1.W()), func(d *gcnasm.Desc, o gcnasm.Operand) { d.Data1 = o })
		}
		if b.Dst.Kind != gcnasm.KNone {
			vary("dst", vgprs(b.Dst.W()), func(d *gcnasm.Desc, o gcnasm.Operand) { d.Dst = o })
		}
		for _, p := range [][2]uint8{{0, 0}, {255, 0}, {0, 255}, {0x10, 0}, {0xef, 0}, {255, 255}, {1, 2}, {0x10, 0x10}} {
			for _, g := range []bool{false, true} {
				d := b
				d.Offset0, d.Offset1, d.GDS = p[0], p[1], g
				add(fmt.Sprintf("offset0=%d,offset1=%d,gds=%v", p[0], p[1], g), d)
			}
		}
	case gcnasm.FLAT:
		vary("addr", []gcnasm.Operand{gcnasm.VRange(0, 2), gcnasm.VRange(254, 2), gcnasm.VRange(128, 2)},
			func(d *gcnasm.Desc, o gcnasm.Operand) { d.Addr = o })
		if b.Data.Kind != gcnasm.KNone {
			vary("data", vgprs(b.Data.W()), func(d *gcnasm.Desc, o gcnasm.Operand) { d.Data = o })
		}
		if b.Dst.Kind != gcnasm.KNone {
			vary("dst", vgprs(b.Dst.W()), func(d *gcnasm.Desc, o gcnasm.Operand) { d.Dst = o })
		}
		for m := 1; m < 8; m++ {
			d := b
			d.GLC, d.SLC, d.TFE = m&1 != 0, m&2 != 0, m&4 != 0
			add(fmt.Sprintf("glc/slc/tfe=%d", m), d)
		}
		if r.Arch == gcnasm.CDNA3 {
			for _, off := range []int64{0, 1, 4, 4095, -1, -4096, 2048, -2048} {
				d := b
				d.Offset = off
				add(fmt.Sprintf("global,off,offset=%d", off), d)
			}
			for _, sa := range []gcnasm.Operand{gcnasm.SRange(0, 2), gcnasm.SRange(2, 2), gcnasm.SRange(100, 2), gcnasm.VCC} {
				for _, off := range []int64{0, 16, -16} {
					d := b
					d.SAddr, d.Addr, d.Offset = sa, gcnasm.V(3), off
					add(fmt.Sprintf("global,saddr=%s,offset=%d", sa, off), d)
				}
			}
			for _, off := range []int64{0, 8, 4095} {
				d := b
				d.Seg, d.SAddr, d.Offset = gcnasm.SegFlat, gcnasm.Operand{}, off
				add(fmt.Sprintf("flat,offset=%d", off), d)
			}
		}
	}

	// seeded variations: every slot and modifier drawn independently
	for i := 0; i < nRandom; i++ {
		d := r.randomDesc(b, rng)
		out = append(out, pat{ID: fmt.Sprintf("r%d", i), D: d})
	}
	return out
}

// sdwaPatterns: SDWA forms of a VOP1/VOP2/VOPC row.
func (r row) sdwaPatterns(b gcnasm.Desc) []pat {
	var out []pat
	mk := func(id string, f func(d *gcnasm.Desc, s *gcnasm.SDWA), diag bool) {
		d := b
		s := gcnasm.DefaultSDWA()
		d.Src0 = gcnasm.V(2)
		if d.Format != gcnasm.VOP1 {
			d.Src1 = gcnasm.V(6)
		}
		f(&d, &s)
		d.SDWA = &s
		out = append(out, pat{ID: "sdwa:" + id, D: d, DiagOK: diag})
	}
	mk("default", func(*gcnasm.Desc, *gcnasm.SDWA) {}, false)
	for v := 0; v <= 6; v++ {
		v := uint8(v)
		mk(fmt.Sprintf("dst_sel=%d", v), func(_ *gcnasm.Desc, s *gcnasm.SDWA) { s.DstSel = v }, false)
		mk(fmt.Sprintf("src0_sel=%d", v), func(_ *gcnasm.Desc, s *gcnasm.SDWA) { s.Src0Sel = v }, false)
		if b.Format != gcnasm.VOP1 {
			mk(fmt.Sprintf("src1_sel=%d", v), func(_ *gcnasm.Desc, s *gcnasm.SDWA) { s.Src1Sel = v }, false)
		}
	}
	for v := 0; v <= 2; v++ {
		v := uint8(v)
		mk(fmt.Sprintf("dst_unused=%d", v), func(_ *gcnasm.Desc, s *gcnasm.SDWA) { s.DstUnused = v }, false)
	}
	mk("src0=v0", func(d *gcnasm.Desc, _ *gcnasm.SDWA) { d.Src0 = gcnasm.V(0) }, false)
	mk("src0=v255", func(d *gcnasm.Desc, _ *gcnasm.SDWA) { d.Src0 = gcnasm.V(255) }, false)
	mk("sel-mix", func(_ *gcnasm.Desc, s *gcnasm.SDWA) {
		s.DstSel, s.DstUnused, s.Src0Sel, s.Src1Sel = gcnasm.SelWord1, gcnasm.UnusedPreserve, gcnasm.SelByte2, gcnasm.SelWord0
	}, false)
	if r.Arch == gcnasm.CDNA3 {
		mk("src0=s0", func(d *gcnasm.Desc, _ *gcnasm.SDWA) { d.Src0 = gcnasm.S(0) }, false)
		mk("src0=s101", func(d *gcnasm.Desc, _ *gcnasm.SDWA) { d.Src0 = gcnasm.S(101) }, false)
		mk("src0=vcc_lo", func(d *gcnasm.Desc, _ *gcnasm.SDWA) { d.Src0 = gcnasm.VCCLo }, false)
		if b.Format != gcnasm.VOP1 {
			mk("src1=s0", func(d *gcnasm.Desc, _ *gcnasm.SDWA) { d.Src1 = gcnasm.S(0) }, false)
			mk("src1=s101", func(d *gcnasm.Desc, _ *gcnasm.SDWA) { d.Src1 = gcnasm.S(101) }, false)
			mk("src1=vcc_lo", func(d *gcnasm.Desc, _ *gcnasm.SDWA) { d.Src1 = gcnasm.VCCLo }, false)
			mk("src0=s3,src1=s5", func(d *gcnasm.Desc, _ *gcnasm.SDWA) { d.Src0, d.Src1 = gcnasm.S(3), gcnasm.S(5) }, false)
		}
	}
	// modifiers the simulator declares unsupported: a diagnostic is acceptable
	mk("clamp", func(_ *gcnasm.Desc, s *gcnasm.SDWA) { s.Clamp = true }, true)
	mk("src0_sext", func(_ *gcnasm.Desc, s *gcnasm.SDWA) { s.Src0Sext = true }, true)
	mk("src0_neg", func(_ *gcnasm.Desc, s *gcnasm.SDWA) { s.Src0Neg = true }, true)
	mk("src0_abs", func(_ *gcnasm.Desc, s *gcnasm.SDWA) { s.Src0Abs = true }, true)
	if b.Format != gcnasm.VOP1 {
		mk("src1_sext", func(_ *gcnasm.Desc, s *gcnasm.SDWA) { s.Src1Sext = true }, true)
		mk("src1_neg", func(_ *gcnasm.Desc, s *gcnasm.SDWA) { s.Src1Neg = true }, true)
		mk("src1_abs", func(_ *gcnasm.Desc, s *gcnasm.SDWA) { s.Src1Abs = true }, true)
	}
	return out
}

func pick(rng *vlib.PRNG, c []gcnasm.Operand) gcnasm.Operand { return c[rng.Intn(len(c))] }

// randomDesc draws all slots of the row independently.
//
//nolint:gocyclo
func (r row) randomDesc(b gcnasm.Desc, rng *vlib.PRNG) gcnasm.Desc {
	w := r.W
	d := b
	n := r.ref()
	kLit := hasAny(n, "madmk", "madak", "fmamk", "fmaak")
	oneLit := func(ops ...*gcnasm.Operand) { // at most one literal operand per instruction
		seen := false
		for _, o := range ops {
			if o.Kind == gcnasm.KLiteral {
				if seen {
					*o = gcnasm.Imm(7)
				}
				seen = true
			}
		}
	}
	switch r.Format {
	case gcnasm.SOP2:
		d.Src0, d.Src1 = pick(rng, scalarSources(w.Src0, true)), pick(rng, scalarSources(w.Src1, true))
		oneLit(&d.Src0, &d.Src1)
		if d.Dst.Kind != gcnasm.KNone && (!w.Known || w.Dst > 0) {
			d.Dst = pick(rng, scalarDests(w.Dst))
		}
	case gcnasm.SOPK:
		d.Dst = pick(rng, scalarDests(w.Dst))
		d.SImm16 = uint16(rng.Uint32())
	case gcnasm.SOP1:
		if !w.Known || w.Src0 > 0 {
			d.Src0 = pick(rng, scalarSources(w.Src0, true))
		}
		if !w.Known || w.Dst > 0 {
			d.Dst = pick(rng, scalarDests(w.Dst))
		}
	case gcnasm.SOPC:
		d.Src0, d.Src1 = pick(rng, scalarSources(w.Src0, true)), pick(rng, scalarSources(w.Src1, true))
		oneLit(&d.Src0, &d.Src1)
	case gcnasm.SOPP:
		d.SImm16 = uint16(rng.Uint32())
		if r.Opcode == gcnasm.OpSWaitcnt {
			d.SImm16 &^= 1 << 12
			if r.Arch == gcnasm.GCN3 {
				d.SImm16 &= 0x0fff
			}
		}
	case gcnasm.SMEM:
		if b.Data.Kind != gcnasm.KNone {
			d.Data = pick(rng, scalarDests(w.Data)[:3])
		}
		bw := b.Base.W()
		d.Base = gcnasm.SRange((2*rng.Intn((102-bw)/2+1))&^(bw-1), bw)
		if rng.Bool() {
			d.Imm, d.Offset = true, int64(rng.Intn(1<<20))
		} else {
			d.Imm, d.Offset, d.SOffset = false, 0, gcnasm.S(rng.Intn(102))
		}
		d.GLC = rng.Bool()
	case gcnasm.VOP2:
		d.Src0 = pick(rng, vectorSources(w.Src0, !kLit))
		d.Src1, d.Dst = pick(rng, vgprs(w.Src1)), pick(rng, vgprs(w.Dst))
	case gcnasm.VOP1:
		if !w.Known || w.Src0 > 0 {
			d.Src0 = pick(rng, vectorSources(w.Src0, true))
		}
		if (!w.Known || w.Dst > 0) && !(w.Known && w.DstIsSGPR) {
			d.Dst = pick(rng, vgprs(w.Dst))
		}
	case gcnasm.VOPC:
		d.Src0, d.Src1 = pick(rng, vectorSources(w.Src0, true)), pick(rng, vgprs(w.Src1))
	case gcnasm.VOP3a, gcnasm.VOP3b, gcnasm.VOP3P:
		if b.Dst.Kind == gcnasm.KSGPR {
			d.Dst = pick(rng, scalarDests(w.Dst))
		} else {
			d.Dst = pick(rng, vgprs(w.Dst))
		}
		d.Src0 = pick(rng, vectorSources(w.Src0, false))
		nsrc := 1
		if b.Src1.Kind != gcnasm.KNone {
			d.Src1 = pick(rng, vectorSources(w.Src1, false))
			nsrc = 2
		}
		if b.Src2.Kind != gcnasm.KNone {
			d.Src2 = pick(rng, vectorSources(w.Src2, false))
			nsrc = 3
		}
		d.Neg = uint8(rng.Intn(1 << nsrc))
		d.Clamp = rng.Bool()
		switch r.Format {
		case gcnasm.VOP3a:
			d.Abs = uint8(rng.Intn(1 << nsrc))
			d.Omod = uint8(rng.Intn(4))
		case gcnasm.VOP3b:
			d.SDst = pick(rng, scalarDests(2))
			d.Omod = uint8(rng.Intn(4))
		case gcnasm.VOP3P:
			d.OpSel = uint8(rng.Intn(1 << nsrc))
			d.OpSelHi = uint8(rng.Intn(1 << nsrc))
		}
	case gcnasm.DS:
		d.Addr = gcnasm.V(rng.Intn(256))
		if b.Data.Kind != gcnasm.KNone {
			d.Data = gcnasm.VRange(rng.Intn(257-b.Data.W()), b.Data.W())
		}
		if b.Data1.Kind != gcnasm.KNone {
			d.Data1 = gcnasm.VRange(rng.Intn(257-b.Data1.W()), b.Data1.W())
		}
		if b.Dst.Kind != gcnasm.KNone {
			d.Dst = gcnasm.VRange(rng.Intn(257-b.Dst.W()), b.Dst.W())
		}
		d.Offset0, d.Offset1, d.GDS = uint8(rng.Uint32()), uint8(rng.Uint32()), rng.Chance(1, 4)
	case gcnasm.FLAT:
		d.Addr = gcnasm.VRange(rng.Intn(255), 2)
		if b.Data.Kind != gcnasm.KNone {
			d.Data = gcnasm.VRange(rng.Intn(257-b.Data.W()), b.Data.W())
		}
		if b.Dst.Kind != gcnasm.KNone {
			d.Dst = gcnasm.VRange(rng.Intn(257-b.Dst.W()), b.Dst.W())
		}
		d.GLC, d.SLC, d.TFE = rng.Bool(), rng.Bool(), rng.Chance(1, 4)
		if r.Arch == gcnasm.CDNA3 {
			d.Offset = int64(rng.Intn(8192)) - 4096
			if rng.Bool() {
				d.SAddr = gcnasm.SRange(2*rng.Intn(51), 2)
				d.Addr = gcnasm.V(rng.Intn(256))
			}
		}
	}
	return d
}
