package main

import (
	"fmt"

	"github.com/sarchlab/mgpusim/v4/amd/insts"

	"verifharness/vlib/gcnasm"
)

// expOp is the image a description operand must decode to. width is the
// number of registers the opcode implies for this operand (0 = unknown: the
// count is then not compared).
func expOp(o gcnasm.Operand, width int) (OpSnap, bool) {
	countKnown := width > 0
	if width < 1 {
		width = 1
	}
	switch o.Kind {
	case gcnasm.KNone:
		return OpSnap{Nil: true}, true
	case gcnasm.KSGPR:
		return OpSnap{Type: insts.RegOperand, Reg: fmt.Sprintf("s%d", o.Index), Count: width}, countKnown
	case gcnasm.KVGPR:
		return OpSnap{Type: insts.RegOperand, Reg: fmt.Sprintf("v%d", o.Index), Count: width}, countKnown
	case gcnasm.KSpecial:
		rt, ok := gcnasm.SpecialRegType(o.Index)
		name := fmt.Sprintf("<operand code %d>", o.Index)
		if ok {
			name = insts.Regs[rt].Name
		}
		return OpSnap{Type: insts.RegOperand, Reg: name, Count: width}, countKnown
	case gcnasm.KInt:
		return OpSnap{Type: insts.IntOperand, Int: o.Int}, true
	case gcnasm.KFloat:
		return OpSnap{Type: insts.FloatOperand, Float: o.Float}, true
	case gcnasm.KLiteral:
		return OpSnap{Type: insts.LiteralConstant, Lit: o.Lit}, true
	}
	return OpSnap{Nil: true}, true
}

var selMask = [7]uint32{0xff, 0xff00, 0xff0000, 0xff000000, 0xffff, 0xffff0000, 0xffffffff}

// formatNameOf gives the simulator's name of the format a description must
// decode to.
func formatNameOf(f gcnasm.Format) string {
	if f == gcnasm.VOP3P {
		return "vop3a"
	}
	return f.String()
}

// isTwoOffsetDS: the DS opcodes whose OFFSET0/OFFSET1 are separate 8-bit
// offsets (read2/write2/wrxchg2 families); all others concatenate them.
func isTwoOffsetDS(name string) bool {
	n := gcnasm.NormName(name)
	for _, s := range []string{"ds_read2", "ds_write2", "ds_wrxchg2"} {
		if len(n) >= len(s) && n[:len(s)] == s {
			return true
		}
	}
	return false
}

// expectFor builds the expected decode image of description d. w are the
// operand widths the opcode implies (w.Known=false: register counts and
// operand presence of memory operands are not compared). name is the
// instruction's mnemonic (for DS offset handling).
//
//nolint:gocyclo,funlen
func expectFor(d gcnasm.Desc, w gcnasm.Widths, name string) Expect {
	var e Expect
	s := &e.S
	s.Format = formatNameOf(d.Format)
	s.Opcode = d.Opcode
	for i := range s.Ops {
		s.Ops[i] = OpSnap{Nil: true}
	}
	set := func(slot int, o gcnasm.Operand, width int) {
		if !w.Known {
			width = 0
		}
		os, countKnown := expOp(o, width)
		s.Ops[slot] = os
		if !countKnown {
			e.ign(opNames[slot] + ".count")
		}
	}
	enc, _ := gcnasm.Encode(d)
	s.Size = len(enc)

	switch d.Format {
	case gcnasm.SOP2:
		set(oSrc0, d.Src0, w.Src0)
		set(oSrc1, d.Src1, w.Src1)
		set(oDst, d.Dst, w.Dst)
		if w.Known && w.Dst == 0 {
			e.ign("dst")
		}
	case gcnasm.SOPK:
		set(oDst, d.Dst, w.Dst)
		if w.Known && w.Dst == 0 {
			e.ign("dst")
		}
		s.Ops[oSImm16] = OpSnap{Type: insts.IntOperand, Int: int64(d.SImm16)}
	case gcnasm.SOP1:
		set(oSrc0, d.Src0, w.Src0)
		set(oDst, d.Dst, w.Dst)
		if d.Src0.Kind == gcnasm.KNone || (w.Known && w.Src0 == 0) {
			e.ign("src0")
		}
		if d.Dst.Kind == gcnasm.KNone || (w.Known && w.Dst == 0) {
			e.ign("dst")
		}
	case gcnasm.SOPC:
		set(oSrc0, d.Src0, w.Src0)
		set(oSrc1, d.Src1, w.Src1)
	case gcnasm.SOPP:
		s.Ops[oSImm16] = OpSnap{Type: insts.IntOperand, Int: int64(d.SImm16)}
		if d.Opcode == gcnasm.OpSWaitcnt {
			s.VMCNT = int(d.SImm16 & 0xf)
			if d.Arch == gcnasm.CDNA3 {
				s.VMCNT |= int(d.SImm16>>14) << 4 // GFX9: vmcnt[5:4] = SIMM16[15:14]
			}
			s.LGKMCNT = int(d.SImm16>>8) & 0xf
			if d.SImm16&(1<<12) != 0 {
				e.ign("lgkmcnt") // GCN3 manual: [12:8]; LLVM/VI: [11:8] -- not decided here
			}
		}
	case gcnasm.SMEM:
		baseW := w.Addr
		set(oBase, d.Base, baseW)
		set(oData, d.Data, w.Data)
		if d.Data.Kind == gcnasm.KNone || (w.Known && w.Data == 0) {
			e.ign("data")
		}
		if d.Base.Kind == gcnasm.KNone || (w.Known && w.Addr == 0) {
			e.ign("base")
		}
		s.GLC, s.Imm = d.GLC, d.Imm
		if d.Imm {
			s.Ops[oOffset] = OpSnap{Type: insts.IntOperand, Int: d.Offset}
		} else {
			set(oOffset, d.SOffset, 1)
			if d.SOffset.Kind == gcnasm.KNone {
				e.ign("offset")
			}
		}
	case gcnasm.VOP2, gcnasm.VOP1, gcnasm.VOPC:
		set(oSrc0, d.Src0, w.Src0)
		if d.Format != gcnasm.VOP1 {
			set(oSrc1, d.Src1, w.Src1)
		}
		if d.Format != gcnasm.VOPC {
			set(oDst, d.Dst, w.Dst)
		}
		if d.Format == gcnasm.VOP1 && (d.Src0.Kind == gcnasm.KNone && d.SDWA == nil || (w.Known && w.Src0 == 0)) {
			e.ign("src0")
		}
		if d.Format == gcnasm.VOP1 && (d.Dst.Kind == gcnasm.KNone || (w.Known && w.Dst == 0)) {
			e.ign("dst")
		}
		if d.Format == gcnasm.VOP2 && d.Src2.Kind != gcnasm.KNone {
			set(oSrc2, d.Src2, 1)
		}
		e.ign("imm") // the simulator reuses Imm as "has constant K" for madmk/madak
		if sd := d.SDWA; sd != nil {
			s.IsSdwa = true
			s.DstSel, s.Src0Sel, s.Src1Sel = selMask[sd.DstSel%7], selMask[sd.Src0Sel%7], selMask[sd.Src1Sel%7]
			s.DstUnused = sd.DstUnused
			s.Src0Sext, s.Src0Neg, s.Src0Abs = sd.Src0Sext, sd.Src0Neg, sd.Src0Abs
			s.Src1Sext, s.Src1Neg, s.Src1Abs = sd.Src1Sext, sd.Src1Neg, sd.Src1Abs
			s.Clamp = sd.Clamp
			s.Omod = int(sd.Omod)
		}
	case gcnasm.VOP3a, gcnasm.VOP3P:
		set(oDst, d.Dst, w.Dst)
		set(oSrc0, d.Src0, w.Src0)
		set(oSrc1, d.Src1, w.Src1)
		set(oSrc2, d.Src2, w.Src2)
		if d.Src1.Kind == gcnasm.KNone {
			e.ign("src1")
		}
		if d.Src2.Kind == gcnasm.KNone {
			e.ign("src2") // field is zero; whether the decoder materialises s0 for it is not prescribed
		}
		if d.Dst.Kind == gcnasm.KNone {
			e.ign("dst")
		}
		s.Abs, s.Neg, s.Omod, s.Clamp = int(d.Abs), int(d.Neg), int(d.Omod), d.Clamp
		s.Src0Abs, s.Src1Abs, s.Src2Abs = d.Abs&1 != 0, d.Abs&2 != 0, d.Abs&4 != 0
		s.Src0Neg, s.Src1Neg, s.Src2Neg = d.Neg&1 != 0, d.Neg&2 != 0, d.Neg&4 != 0
		if d.Format == gcnasm.VOP3P {
			s.Opcode = 896 + d.Opcode
			s.OpSel, s.OpSelHi = int(d.OpSel), int(d.OpSelHi)
			if d.Src2.Kind == gcnasm.KNone {
				// two-source packed ops: OPSEL[2]/OPSEL_HI[2] belong to the absent source
				s.OpSel &= 3
				s.OpSelHi &= 3
			}
		} else {
			e.ign("opsel", "opselhi") // the simulator models OPSEL only for the packed ops
		}
	case gcnasm.VOP3b:
		set(oDst, d.Dst, w.Dst)
		set(oSDst, d.SDst, w.SDst)
		set(oSrc0, d.Src0, w.Src0)
		set(oSrc1, d.Src1, w.Src1)
		set(oSrc2, d.Src2, w.Src2)
		if d.Src2.Kind == gcnasm.KNone {
			e.ign("src2")
		}
		if d.Dst.Kind == gcnasm.KNone {
			e.ign("dst")
		}
		s.Neg, s.Omod, s.Clamp = int(d.Neg), int(d.Omod), d.Clamp
		// per-source booleans are not filled for VOP3b by the simulator; Neg carries it
		e.ign("src0_neg", "src1_neg", "src2_neg")
	case gcnasm.DS:
		set(oAddr, d.Addr, w.Addr)
		set(oData, d.Data, w.Data)
		set(oData1, d.Data1, w.Data1)
		set(oDst, d.Dst, w.MemDst)
		for _, p := range []struct {
			o    gcnasm.Operand
			name string
			used int
		}{{d.Addr, "addr", w.Addr}, {d.Data, "data", w.Data}, {d.Data1, "data1", w.Data1}, {d.Dst, "dst", w.MemDst}} {
			if p.o.Kind == gcnasm.KNone || !w.Known || p.used == 0 {
				e.ign(p.name) // operand not used by this opcode (or unknown): presence not prescribed
			}
		}
		s.GDS = d.GDS
		if isTwoOffsetDS(name) {
			s.Offset0, s.Offset1 = uint32(d.Offset0), uint32(d.Offset1)
		} else {
			s.Offset0 = uint32(d.Offset0) | uint32(d.Offset1)<<8
			e.ign("offset1")
		}
	case gcnasm.FLAT:
		addrW := 2
		saddr := 0
		if d.Arch == gcnasm.CDNA3 {
			switch d.SAddr.Kind {
			case gcnasm.KNone:
				if d.Seg != gcnasm.SegFlat {
					saddr = 0x7f
				}
			case gcnasm.KRaw:
				saddr = d.SAddr.Index
			default:
				saddr, _ = d.SAddr.SrcCode()
			}
			if d.Seg != gcnasm.SegFlat && saddr != 0x7f {
				addrW = 1 // VGPR holds a 32-bit offset, SGPR pair the base
			}
		}
		set(oAddr, d.Addr, addrW)
		set(oData, d.Data, w.Data)
		set(oDst, d.Dst, w.MemDst)
		if d.Data.Kind == gcnasm.KNone || !w.Known || w.Data == 0 {
			e.ign("data")
		}
		if d.Dst.Kind == gcnasm.KNone || !w.Known || w.MemDst == 0 {
			e.ign("dst")
		}
		s.Ops[oSAddr] = OpSnap{Type: insts.IntOperand, Int: int64(saddr)}
		s.Offset0 = uint32(int32(d.Offset))
		s.GLC, s.SLC, s.TFE = d.GLC, d.SLC, d.TFE
	}
	return e
}
