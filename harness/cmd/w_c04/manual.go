package main

import (
	"fmt"
	"os"
	"regexp"
	"sort"
	"strings"
	"sync"

	"verifharness/vlib/gcnasm"
)

// The mnemonic an opcode number must decode to is taken from the manuals'
// opcode tables *of the architecture the decoder is configured for*
// (gcnasm/optable_gen.go) - never from the decoder's own table and never from
// the other architecture's column.
//
// VOP3 opcodes below 448 are not independent table entries but the 64-bit
// encodings of the VOPC / VOP2 / VOP1 instructions (GCN3 manual 13.3.5, CDNA3
// manual 13.3.5 / LLVM AMDGPU VOP3e_vi: VOP3 opcode = VOPC opcode, 256 + VOP2
// opcode, 320 + VOP1 opcode), so for these the expected mnemonic is the one of
// the architecture's VOPC / VOP2 / VOP1 table at the base opcode. (Table 84 of
// docs/cdna3_insts.pdf lists the VOP1 promotions at 384 + opcode - the RDNA
// offset; shipped gfx942 kernels and LLVM use 320 +. The harness follows the
// format rule; manualName's result for CDNA3 VOP3 320..447 is therefore the
// CDNA3 VOP1 name, and the consistency of Table 84 with the VOP1 table modulo
// that offset is asserted in promo.go.)

// promotedFrom maps a 10-bit VOP3 opcode to the 32-bit format and opcode it
// is the promotion of (ok=false for the VOP3-only opcodes >= 448).
func promotedFrom(op int) (f gcnasm.Format, base int, ok bool) {
	switch {
	case op < 0:
	case op < 256:
		return gcnasm.VOPC, op, true
	case op < 320:
		return gcnasm.VOP2, op - 256, true
	case op < 448:
		return gcnasm.VOP1, op - 320, true
	}
	return 0, 0, false
}

// promotedTo is the inverse: the VOP3 opcode of the e64 form.
func promotedTo(f gcnasm.Format, op int) int {
	switch f {
	case gcnasm.VOPC:
		return op
	case gcnasm.VOP2:
		return 256 + op
	case gcnasm.VOP1:
		return 320 + op
	}
	return -1
}

// noVOP3Form: VOP2 opcodes whose 32-bit literal K follows the instruction
// word have no 64-bit encoding (GCN3 manual 13.3.1: V_MADMK / V_MADAK "cannot
// be used in VOP3"; the same holds for the f16 variants and GFX9's
// V_FMAMK / V_FMAAK).
func noVOP3Form(name string) bool {
	return hasAny(name, "v_madmk_", "v_madak_", "v_fmamk_", "v_fmaak_")
}

// manualName returns the mnemonic the manuals of arch assign to opcode op of
// format f ("" = the architecture's manual has no such opcode), and where it
// comes from.
func manualName(arch gcnasm.Arch, f gcnasm.Format, op int) (name, source string) {
	if f == gcnasm.VOP3a || f == gcnasm.VOP3b {
		if bf, base, ok := promotedFrom(op); ok {
			n := gcnasm.NameOf(arch, bf, base)
			if n == "" || noVOP3Form(n) {
				return "", fmt.Sprintf("%s table, opcode %d: no instruction with a VOP3 form", bf, base)
			}
			return n, fmt.Sprintf("%s opcode table of the %s manual, opcode %d (VOP3 opcode = %d + %d)", bf, arch, base, op-base, base)
		}
	}
	n := gcnasm.NameOf(arch, f, op)
	if (f == gcnasm.VOP3a || f == gcnasm.VOP3b) && n != "" && n == gcnasm.NameOf(arch, gcnasm.VOP1, op-384) {
		// Table 84's VOP1 promotions (384 + VOP1 opcode) spilling into the
		// VOP3-only range: VOP1 64 / 65 (V_LOG_F16 / V_EXP_F16) at 448 / 449
		return "", "VOP3A table of the " + arch.String() + " manual lists the VOP1 promotion of opcode " + fmt.Sprint(op-384) + " here (offset 384 instead of 320)"
	}
	return n, fmt.Sprintf("%s opcode table of the %s manual", tableName(f), arch)
}

func tableName(f gcnasm.Format) string {
	if f == gcnasm.VOP3a || f == gcnasm.VOP3b {
		return "VOP3A/VOP3B"
	}
	return f.String()
}

// Documented renames. The manuals (and assemblers) of the two architectures
// spell a few instructions differently although opcode, operation and operands
// are the same; the simulator's table uses the older spelling. renamesOf lists
// the spellings a decoder mnemonic is a documented synonym of:
//
//   - integer compares: "lg" (less or greater) = "ne", "tru" = "t"
//     (V_CMP[X]_{LG|NE}_{I|U}*, V_CMP[X]_{TRU|T}_{I|U}*, S_CMP_{LG|NE}_U64; the
//     Southern-Islands tables the simulator was written from say LG / TRU, the
//     GCN3 / CDNA3 tables NE / T - floats keep LG (ordered) next to NEQ)
//   - GFX9 appended _CO to the carry-out adds whose operation did not change:
//     V_ADDC_U32 -> V_ADDC_CO_U32, V_SUBB_U32 -> V_SUBB_CO_U32,
//     V_SUBBREV_U32 -> V_SUBBREV_CO_U32 (CDNA3 manual 6.4 / LLVM AMDGPUAsmGFX9)
//
// A rename is only accepted (aliasOK) when the architecture's manual does not
// assign the decoder's spelling to a *different* opcode: V_ADD_U32 (VOP2 25 in
// the decode table) is GFX9's V_ADD_CO_U32, but on CDNA3 "v_add_u32" is the
// carry-less VOP2 52, so reporting VOP2 25 as v_add_u32 there names another
// instruction and is not excused.
var (
	intCmpRE = regexp.MustCompile(`^(v_cmpx?|s_cmp)_(lg|ne|tru|t)_([iu](16|32|64))$`)
	carryRE  = regexp.MustCompile(`^v_(addc|subb|subbrev)_u32$`)
)

func renamesOf(dec string) []string {
	var out []string
	if m := intCmpRE.FindStringSubmatch(dec); m != nil {
		syn := map[string]string{"lg": "ne", "ne": "lg", "tru": "t", "t": "tru"}[m[2]]
		out = append(out, m[1]+"_"+syn+"_"+m[3])
	}
	if m := carryRE.FindStringSubmatch(dec); m != nil {
		out = append(out, "v_"+m[1]+"_co_u32")
	}
	return out
}

// namedElsewhere reports whether the manuals of arch give mnemonic name to an
// opcode of format f other than op (for VOP3 the promoted ranges count through
// their base tables).
func namedElsewhere(arch gcnasm.Arch, f gcnasm.Format, op int, name string) (int, bool) {
	for o := 0; o < opcodeSpace(normFormat(f)); o++ {
		if o == op {
			continue
		}
		if n, _ := manualName(arch, f, o); n == name {
			return o, true
		}
	}
	return 0, false
}

func normFormat(f gcnasm.Format) gcnasm.Format {
	if f == gcnasm.VOP3b {
		return gcnasm.VOP3a
	}
	return f
}

var (
	aliasMu   sync.Mutex
	aliasUsed = map[string]bool{}
)

// aliasOK: dec is a documented other spelling of the manual's mnemonic for
// this very opcode.
func aliasOK(arch gcnasm.Arch, f gcnasm.Format, op int, dec, manual string) bool {
	if dec == "" || manual == "" {
		return false
	}
	for _, r := range renamesOf(dec) {
		if r != manual {
			continue
		}
		if _, clash := namedElsewhere(arch, f, op, dec); clash {
			return false
		}
		aliasMu.Lock()
		aliasUsed[fmt.Sprintf("%s/%s/%d %s = %s", arch, f, op, dec, manual)] = true
		aliasMu.Unlock()
		return true
	}
	return false
}

// normDec normalises a decoder mnemonic for comparison with the manuals:
// lower case, encoding suffix removed (gcnasm.NormName), surrounding blanks
// removed (the rows "ds_nop " and "s_wqm_b64 " carry a trailing blank).
func normDec(n string) string {
	return gcnasm.NormName(strings.TrimSpace(n))
}

func otherArch(a gcnasm.Arch) gcnasm.Arch {
	if a == gcnasm.CDNA3 {
		return gcnasm.GCN3
	}
	return gcnasm.CDNA3
}

// dumpRows (development aid, VERIF_C04_DUMPROWS=1): prints what the decoder's
// table holds for every opcode of every format next to the manuals' names.
func dumpRows() {
	for _, arch := range []gcnasm.Arch{gcnasm.GCN3, gcnasm.CDNA3} {
		c := &ctx{arch: arch, out: newChildOutNoRec()}
		c.dA, c.dB = newDecoders(arch)
		for _, f := range rtFormats {
			for op := 0; op < opcodeSpace(f); op++ {
				r, ok := probeRow(c, f, op, false)
				if !ok {
					continue
				}
				other, _ := manualName(otherArch(arch), r.Format, op)
				fmt.Printf("%s %s %d dec=%s manual=%s other=%s verdict=%s known=%v w=%+v\n", arch, r.Format, op, normDec(r.DecName), r.ManName, other, r.Judged, r.W.Known, r.W)
			}
		}
	}
	var keys []string
	for k := range aliasUsed {
		keys = append(keys, k)
	}
	sort.Strings(keys)
	for _, k := range keys {
		fmt.Println("alias used:", k)
	}
	os.Exit(0)
}
