package main

import (
	"fmt"
	"sort"
	"strings"

	"github.com/sarchlab/mgpusim/v4/amd/insts"
)

// OpSnap is the comparable image of one *insts.Operand.
type OpSnap struct {
	Nil   bool    `json:"nil,omitempty"`
	Type  int     `json:"type,omitempty"` // insts.RegOperand, FloatOperand, IntOperand, LiteralConstant
	Reg   string  `json:"reg,omitempty"`
	Count int     `json:"count,omitempty"` // registers covered, normalised: max(RegCount,1); 0 for constants
	Int   int64   `json:"int,omitempty"`
	Float float64 `json:"float,omitempty"`
	Lit   uint32  `json:"lit,omitempty"`
}

func (o OpSnap) String() string {
	if o.Nil {
		return "nil"
	}
	switch o.Type {
	case insts.RegOperand:
		return fmt.Sprintf("%s x%d", o.Reg, o.Count)
	case insts.IntOperand:
		return fmt.Sprintf("int %d", o.Int)
	case insts.FloatOperand:
		return fmt.Sprintf("float %g", o.Float)
	case insts.LiteralConstant:
		return fmt.Sprintf("lit %#x", o.Lit)
	}
	return fmt.Sprintf("type%d", o.Type)
}

func snapOp(o *insts.Operand) OpSnap {
	if o == nil {
		return OpSnap{Nil: true}
	}
	s := OpSnap{Type: int(o.OperandType)}
	switch o.OperandType {
	case insts.RegOperand:
		if o.Register != nil {
			s.Reg = o.Register.Name
		} else {
			s.Reg = "<nil register>"
		}
		s.Count = o.RegCount
		if s.Count < 1 {
			s.Count = 1
		}
	case insts.IntOperand:
		s.Int = o.IntValue
	case insts.FloatOperand:
		s.Float = o.FloatValue
	case insts.LiteralConstant:
		s.Lit = o.LiteralConstant
	}
	return s
}

// operand slots of Snap.Ops
const (
	oSrc0 = iota
	oSrc1
	oSrc2
	oDst
	oSDst
	oAddr
	oData
	oData1
	oBase
	oOffset
	oSImm16
	oSAddr
	numOps
)

var opNames = [numOps]string{"src0", "src1", "src2", "dst", "sdst", "addr", "data", "data1", "base", "offset", "simm16", "saddr"}

// Snap is the comparable image of a decoded *insts.Inst (everything except
// PC and the table-row ID).
type Snap struct {
	Format  string
	Opcode  int
	Name    string
	Size    int
	Ops     [numOps]OpSnap
	Abs     int
	Omod    int
	Neg     int
	OpSel   int
	OpSelHi int
	Offset0 uint32
	Offset1 uint32
	SLC     bool
	GLC     bool
	TFE     bool
	Imm     bool
	Clamp   bool
	GDS     bool
	VMCNT   int
	LGKMCNT int

	IsSdwa    bool
	DstSel    uint32
	DstUnused uint8
	Src0Sel   uint32
	Src1Sel   uint32
	Src0Sext  bool
	Src0Neg   bool
	Src0Abs   bool
	Src1Sext  bool
	Src1Neg   bool
	Src1Abs   bool
	Src2Neg   bool
	Src2Abs   bool

	// widths of the table row (informational, part of determinism checks)
	RowWidths [5]int
}

func snapInst(in *insts.Inst) (out Snap) {
	// an instruction object without format / table row (only possible if the
	// decoder hands out objects it later resets) must not take the monitor down
	defer func() {
		if r := recover(); r != nil {
			out = Snap{Format: "<broken instruction object>", Name: fmt.Sprint(r)}
		}
	}()
	if in == nil || in.Format == nil || in.InstType == nil {
		return Snap{Format: "<instruction object without format/type>"}
	}
	s := Snap{
		Format: in.FormatName, Opcode: int(in.Opcode), Name: in.InstName, Size: in.ByteSize,
		Abs: in.Abs, Omod: in.Omod, Neg: in.Neg, OpSel: in.OpSel, OpSelHi: in.OpSelHi,
		Offset0: in.Offset0, Offset1: in.Offset1,
		SLC: in.SystemLevelCoherent, GLC: in.GlobalLevelCoherent, TFE: in.TextureFailEnable,
		Imm: in.Imm, Clamp: in.Clamp, GDS: in.GDS, VMCNT: in.VMCNT, LGKMCNT: in.LKGMCNT,
		IsSdwa: in.IsSdwa, DstSel: uint32(in.DstSel), DstUnused: uint8(in.DstUnused),
		Src0Sel: uint32(in.Src0Sel), Src1Sel: uint32(in.Src1Sel),
		Src0Sext: in.Src0Sext, Src0Neg: in.Src0Neg, Src0Abs: in.Src0Abs,
		Src1Sext: in.Src1Sext, Src1Neg: in.Src1Neg, Src1Abs: in.Src1Abs,
		Src2Neg: in.Src2Neg, Src2Abs: in.Src2Abs,
		RowWidths: [5]int{in.DSTWidth, in.SRC0Width, in.SRC1Width, in.SRC2Width, in.SDSTWidth},
	}
	ops := [numOps]*insts.Operand{in.Src0, in.Src1, in.Src2, in.Dst, in.SDst, in.Addr, in.Data, in.Data1, in.Base, in.Offset, in.SImm16, in.SAddr}
	for i, o := range ops {
		s.Ops[i] = snapOp(o)
	}
	return s
}

// Diff is one differing field.
type Diff struct {
	Field string `json:"field"`
	Got   string `json:"got"`
	Want  string `json:"want"`
	// Class is the generalised description used in violation keys (register
	// numbers and literal values removed).
	Class string `json:"class"`
}

// Expect is the expected image plus the set of fields the description does
// not determine.
type Expect struct {
	S      Snap
	Ignore map[string]bool
}

func (e *Expect) ign(fields ...string) {
	if e.Ignore == nil {
		e.Ignore = map[string]bool{}
	}
	for _, f := range fields {
		e.Ignore[f] = true
	}
}

func bstr(b bool) string {
	if b {
		return "1"
	}
	return "0"
}

// diffOp compares one operand slot. Ignore entries: "<slot>" (whole operand),
// "<slot>.count".
func diffOp(name string, got, want OpSnap, ign map[string]bool) []Diff {
	if ign[name] {
		return nil
	}
	var out []Diff
	switch {
	case got.Nil != want.Nil:
		cls := "missing"
		if want.Nil {
			cls = "unexpected"
		}
		out = append(out, Diff{name, got.String(), want.String(), cls})
	case got.Nil:
	case got.Type != want.Type:
		out = append(out, Diff{name, got.String(), want.String(), "kind"})
	default:
		switch got.Type {
		case insts.RegOperand:
			if got.Reg != want.Reg {
				out = append(out, Diff{name, got.String(), want.String(), "register"})
			}
			if got.Count != want.Count && !ign[name+".count"] {
				out = append(out, Diff{name + ".count", fmt.Sprint(got.Count), fmt.Sprint(want.Count),
					fmt.Sprintf("%d-for-%d", got.Count, want.Count)})
			}
		case insts.IntOperand:
			if got.Int != want.Int {
				out = append(out, Diff{name, got.String(), want.String(), "int-value"})
			}
		case insts.FloatOperand:
			if got.Float != want.Float {
				out = append(out, Diff{name, got.String(), want.String(), "float-value"})
			}
		case insts.LiteralConstant:
			if got.Lit != want.Lit {
				out = append(out, Diff{name, got.String(), want.String(), "literal-value"})
			}
		}
	}
	return out
}

// diffExpect lists the fields where got deviates from the expectation.
func diffExpect(got Snap, e Expect) []Diff {
	w := e.S
	ign := e.Ignore
	var out []Diff
	add := func(field, g, wv, cls string) {
		if !ign[field] && g != wv {
			out = append(out, Diff{field, g, wv, cls})
		}
	}
	addI := func(field string, g, wv int) {
		add(field, fmt.Sprint(g), fmt.Sprint(wv), "value")
	}
	addB := func(field string, g, wv bool) {
		add(field, bstr(g), bstr(wv), bstr(g)+"-for-"+bstr(wv))
	}
	add("format", got.Format, w.Format, "value")
	addI("opcode", got.Opcode, w.Opcode)
	add("size", fmt.Sprint(got.Size), fmt.Sprint(w.Size), fmt.Sprintf("%d-for-%d", got.Size, w.Size))
	for i := 0; i < numOps; i++ {
		out = append(out, diffOp(opNames[i], got.Ops[i], w.Ops[i], ign)...)
	}
	addI("abs", got.Abs, w.Abs)
	addI("omod", got.Omod, w.Omod)
	addI("neg", got.Neg, w.Neg)
	addI("opsel", got.OpSel, w.OpSel)
	addI("opselhi", got.OpSelHi, w.OpSelHi)
	add("offset0", fmt.Sprint(got.Offset0), fmt.Sprint(w.Offset0), "value")
	add("offset1", fmt.Sprint(got.Offset1), fmt.Sprint(w.Offset1), "value")
	addB("slc", got.SLC, w.SLC)
	addB("glc", got.GLC, w.GLC)
	addB("tfe", got.TFE, w.TFE)
	addB("imm", got.Imm, w.Imm)
	addB("clamp", got.Clamp, w.Clamp)
	addB("gds", got.GDS, w.GDS)
	addI("vmcnt", got.VMCNT, w.VMCNT)
	addI("lgkmcnt", got.LGKMCNT, w.LGKMCNT)
	addB("is_sdwa", got.IsSdwa, w.IsSdwa)
	add("dst_sel", fmt.Sprintf("%#x", got.DstSel), fmt.Sprintf("%#x", w.DstSel), "value")
	add("dst_unused", fmt.Sprint(got.DstUnused), fmt.Sprint(w.DstUnused), "value")
	add("src0_sel", fmt.Sprintf("%#x", got.Src0Sel), fmt.Sprintf("%#x", w.Src0Sel), "value")
	add("src1_sel", fmt.Sprintf("%#x", got.Src1Sel), fmt.Sprintf("%#x", w.Src1Sel), "value")
	addB("src0_sext", got.Src0Sext, w.Src0Sext)
	addB("src0_neg", got.Src0Neg, w.Src0Neg)
	addB("src0_abs", got.Src0Abs, w.Src0Abs)
	addB("src1_sext", got.Src1Sext, w.Src1Sext)
	addB("src1_neg", got.Src1Neg, w.Src1Neg)
	addB("src1_abs", got.Src1Abs, w.Src1Abs)
	addB("src2_neg", got.Src2Neg, w.Src2Neg)
	addB("src2_abs", got.Src2Abs, w.Src2Abs)
	return out
}

// diffSnap lists field names where two images of what should be the same
// instruction differ (full comparison, nothing ignored).
func diffSnap(a, b Snap) []string {
	if a == b {
		return nil
	}
	ds := diffExpect(a, Expect{S: b})
	var out []string
	for _, d := range ds {
		out = append(out, d.Field)
	}
	if a.Name != b.Name {
		out = append(out, "name")
	}
	if a.RowWidths != b.RowWidths {
		out = append(out, "row-widths")
	}
	if len(out) == 0 {
		out = append(out, "?")
	}
	sort.Strings(out)
	return out
}

func joinFields(ds []Diff) string {
	var f []string
	for _, d := range ds {
		f = append(f, d.Field)
	}
	return strings.Join(f, "+")
}
