package main

import (
	"encoding/binary"
	"fmt"
	"regexp"
	"runtime"
	"strings"

	"github.com/sarchlab/mgpusim/v4/amd/insts"

	"verifharness/vlib/gcnasm"
)

// outcome kinds
const (
	kInst     = "inst"
	kError    = "error"
	kDiag     = "diagnostic" // explicit panic: not implemented / not supported
	kExplicit = "explicit"   // explicit panic with another message (no runtime error)
	kFault    = "fault"      // runtime error: nil dereference, index / slice bounds, ...
)

type outcome struct {
	Kind  string
	Msg   string // error text or panic text
	Class string // fault class: nil-deref, index-out-of-range, slice-bounds, runtime-other
	Inst  *insts.Inst
}

var diagRE = regexp.MustCompile(`(?i)not implemented|not supported`)

func classifyPanic(r any) outcome {
	if re, ok := r.(runtime.Error); ok {
		msg := re.Error()
		cls := "runtime-other"
		switch {
		case strings.Contains(msg, "nil pointer dereference"):
			cls = "nil-deref"
		case strings.Contains(msg, "index out of range"):
			cls = "index-out-of-range"
		case strings.Contains(msg, "slice bounds out of range"):
			cls = "slice-bounds"
		}
		return outcome{Kind: kFault, Msg: msg, Class: cls}
	}
	msg := fmt.Sprint(r)
	if diagRE.MatchString(msg) {
		return outcome{Kind: kDiag, Msg: msg}
	}
	return outcome{Kind: kExplicit, Msg: msg}
}

// decoderI is what safeDecode drives: a *insts.Disassembler of the harness or
// whatever decoder a built component holds (emu.Decoder).
type decoderI interface {
	Decode(buf []byte) (*insts.Inst, error)
}

// safeDecode calls the real decoder and classifies what happens.
func safeDecode(d decoderI, b []byte) (o outcome) {
	defer func() {
		if r := recover(); r != nil {
			o = classifyPanic(r)
		}
	}()
	in, err := d.Decode(b)
	if err != nil {
		if in != nil {
			return outcome{Kind: kExplicit, Msg: "Decode returned both an instruction and an error: " + err.Error()}
		}
		return outcome{Kind: kError, Msg: err.Error()}
	}
	if in == nil {
		return outcome{Kind: kExplicit, Msg: "Decode returned (nil, nil)"}
	}
	return outcome{Kind: kInst, Inst: in}
}

type printOutcome struct {
	Kind  string // kInst (printed), kDiag, kExplicit, kFault
	Text  string
	Msg   string
	Class string
}

var printer = insts.NewInstPrinter(nil)

func safePrint(in *insts.Inst) (p printOutcome) {
	defer func() {
		if r := recover(); r != nil {
			o := classifyPanic(r)
			p = printOutcome{Kind: o.Kind, Msg: o.Msg, Class: o.Class}
		}
	}()
	return printOutcome{Kind: kInst, Text: printer.Print(in)}
}

// ---------------------------------------------------------------------------
// Field view of a first dword according to the manuals' microcode formats.
// Used only to *name* the cause of a fault in violation keys.

type fieldView struct {
	Format string
	Fields []codeField
}

type codeField struct {
	Name   string
	Code   int
	Vector bool // 9-bit vector source (SDWA/DPP/LDS_DIRECT escapes exist)
}

func bitsOf(w uint32, lo, hi uint) int { return int((w >> lo) & (1<<(hi-lo+1) - 1)) }

// formatOf names the microcode format of a first dword by its ENCODING bits.
func formatOf(w uint32) string {
	switch {
	case w>>23 == 0b101111101:
		return "sop1"
	case w>>23 == 0b101111110:
		return "sopc"
	case w>>23 == 0b101111111:
		return "sopp"
	case w>>28 == 0b1011:
		return "sopk"
	case w>>30 == 0b10:
		return "sop2"
	case w>>25 == 0b0111111:
		return "vop1"
	case w>>25 == 0b0111110:
		return "vopc"
	case w>>31 == 0:
		return "vop2"
	}
	switch w >> 26 {
	case 0b110000:
		return "smem"
	case 0b110100:
		if w>>23 == 0b110100111 {
			return "vop3p"
		}
		return "vop3"
	case 0b110110:
		return "ds"
	case 0b110111:
		return "flat"
	case 0b111000:
		return "mubuf"
	case 0b111010:
		return "mtbuf"
	case 0b111100:
		return "mimg"
	case 0b110001:
		return "exp"
	case 0b110010:
		return "vintrp"
	}
	return "unassigned-encoding"
}

func viewOf(b []byte) fieldView {
	if len(b) < 4 {
		return fieldView{Format: "short"}
	}
	w := binary.LittleEndian.Uint32(b)
	var hi uint32
	if len(b) >= 8 {
		hi = binary.LittleEndian.Uint32(b[4:])
	}
	v := fieldView{Format: formatOf(w)}
	f := func(name string, code int, vec bool) { v.Fields = append(v.Fields, codeField{name, code, vec}) }
	switch v.Format {
	case "sop2":
		f("ssrc0", bitsOf(w, 0, 7), false)
		f("ssrc1", bitsOf(w, 8, 15), false)
		f("sdst", bitsOf(w, 16, 22), false)
	case "sop1":
		f("ssrc0", bitsOf(w, 0, 7), false)
		f("sdst", bitsOf(w, 16, 22), false)
	case "sopc":
		f("ssrc0", bitsOf(w, 0, 7), false)
		f("ssrc1", bitsOf(w, 8, 15), false)
	case "sopk":
		f("sdst", bitsOf(w, 16, 22), false)
	case "smem":
		f("sdata", bitsOf(w, 6, 12), false)
	case "vop1", "vop2", "vopc":
		f("src0", bitsOf(w, 0, 8), true)
		if v.Format == "vop1" && bitsOf(w, 9, 16) == 2 { // V_READFIRSTLANE_B32 writes an SGPR
			f("vdst(sgpr)", bitsOf(w, 17, 24), false)
		}
	case "vop3", "vop3p":
		f("src0", bitsOf(hi, 0, 8), false)
		f("src1", bitsOf(hi, 9, 17), false)
		f("src2", bitsOf(hi, 18, 26), false)
		f("vdst", bitsOf(w, 0, 7), false)
		f("sdst", bitsOf(w, 8, 14), false)
	}
	return v
}

// causeOf explains a nil-operand fault by the first operand field holding a
// code that has no register/constant meaning.
func causeOf(v fieldView) (cause string, member string) {
	for _, f := range v.Fields {
		if f.Vector && f.Code == gcnasm.CodeSDWA {
			return "sdwa-operand-code", f.Name + "=249"
		}
		if f.Vector && f.Code == gcnasm.CodeDPP {
			return "dpp-operand-code", f.Name + "=250"
		}
	}
	for _, f := range v.Fields {
		c := f.Code
		switch {
		case c == 123, c == 125, c >= 209 && c <= 239, c == 249, c == 250, c == 254:
			return "unassigned-operand-code", fmt.Sprintf("%s=%d", f.Name, c)
		}
	}
	return "other", ""
}
