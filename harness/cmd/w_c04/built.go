package main

import (
	"fmt"
	"reflect"
	"sort"
	"strings"
	"unsafe"

	"github.com/sarchlab/akita/v4/sim"
	"github.com/sarchlab/mgpusim/v4/amd/emu"
	"github.com/sarchlab/mgpusim/v4/amd/insts"
	"github.com/sarchlab/mgpusim/v4/amd/timing/cu"

	"verifharness/vlib"
	"verifharness/vlib/gcnasm"
	"verifharness/vlib/plat"
)

// (6) decoders as the simulator builds them. The other parts drive
// Disassembler objects the harness creates itself; the simulator creates its
// own through its builders (construction sites of insts.NewDisassembler():
// amd/timing/cu/cubuilder.go Builder.Build - one per timing compute unit,
// WithCDNA3Decoding selects the mode; amd/samples/runner/emusystem/emugpu
// Builder.buildComputeUnits - one per emulated GPU, shared by its 64 CUs,
// WithArchitecture selects the mode; amd/insts/gcn3disassembler is a command
// with a default instance, the object the round-trip parts use). "Independent
// decoder instances always agree" must hold for those too: the decoder a
// component was built with has to behave like a fresh Disassembler configured
// for the architecture the component was built for - whatever else has been
// built in the process before or after it.
//
// One child process per build order. A step builds one thing through its
// public builder: a timing CU (cu.MakeBuilder, with / without
// WithCDNA3Decoding), an emulation platform (emusystem -> emugpu) for gcn3 or
// cdna3, a timing platform (timingconfig: r9nano, mi300a). After every step
// every decoder obtained so far is driven with a battery of architecture-
// sensitive encodings plus a seeded sample of round-trip encodings, and each
// result is compared field by field with a fresh decoder of the owner's
// architecture. Pointers are only counted; the verdict is behaviour.

type builtDecoder struct {
	comp  string // component name
	class string // timing-cu | emu-cu | r9nano-cu | mi300a-cu
	arch  gcnasm.Arch
	dec   emu.Decoder
	step  int    // build step that produced it
	from  string // step kind that produced it
	ptr   uintptr
}

// build step kinds
var builtCanonOrders = [][]string{
	{"cuG", "cuC", "cuG", "cuC", "emuG", "emuC", "platR9", "platMI", "cuG"},
	{"cuC", "cuG", "cuC", "emuC", "emuG", "platMI", "platR9", "cuC", "cuG"},
}

const numBuiltCanonOrders = 2

func builtOrder(p part, base *vlib.PRNG) ([]string, bool) {
	if p.Sub < len(builtCanonOrders) {
		return builtCanonOrders[p.Sub], true
	}
	pool := []string{"cuG", "cuG", "cuG", "cuC", "cuC", "cuC", "emuG", "emuC", "platR9", "platMI"}
	rng := base.Fork("order")
	perm := rng.Perm(len(pool))
	out := make([]string, len(pool))
	for i, j := range perm {
		out[i] = pool[j]
	}
	return out, false
}

func ptrOf(d emu.Decoder) uintptr {
	v := reflect.ValueOf(d)
	if v.Kind() == reflect.Ptr {
		return v.Pointer()
	}
	return 0
}

// emuCUDecoder reads the unexported decoder field of an emulation compute
// unit (there is no accessor; the field is only read).
func emuCUDecoder(c *emu.ComputeUnit) (emu.Decoder, bool) {
	f := reflect.ValueOf(c).Elem().FieldByName("decoder")
	if !f.IsValid() {
		return nil, false
	}
	v := reflect.NewAt(f.Type(), unsafe.Pointer(f.UnsafeAddr())).Elem().Interface()
	d, ok := v.(emu.Decoder)
	return d, ok && d != nil
}

type builtEnc struct {
	b         []byte
	label     string
	canonical bool
}

func w32(ws ...uint32) []byte {
	var n [3]uint32
	copy(n[:], ws)
	return mk(n, 4*len(ws))
}

// builtBattery: encodings whose decode depends on Disassembler.IsCDNA3 (and a
// few that do not), the same for every order and seed.
func builtBattery() []builtEnc {
	var out []builtEnc
	add := func(label string, d gcnasm.Desc) {
		if b, err := gcnasm.Encode(d); err == nil {
			out = append(out, builtEnc{exact(b), label, true})
		}
	}
	raw := func(label string, ws ...uint32) { out = append(out, builtEnc{w32(ws...), label, true}) }
	c3 := gcnasm.CDNA3
	ld := gcnasm.MustOpcode(c3, gcnasm.FLAT, "flat_load_dword")
	st := gcnasm.MustOpcode(c3, gcnasm.FLAT, "flat_store_dword")
	// FLAT: SADDR = s[0:1] is "off" for GCN3; ADDR pair vs 32-bit offset; SEG
	add("global_load_dword v1, v0, s[0:1]", gcnasm.GlobalLoad(ld, gcnasm.V(1), gcnasm.V(0), gcnasm.SRange(0, 2), 0).For(c3))
	add("global_load_dword v1, v0, s[2:3] offset:16", gcnasm.GlobalLoad(ld, gcnasm.V(1), gcnasm.V(0), gcnasm.SRange(2, 2), 16).For(c3))
	add("global_load_dword v1, v[2:3], off", gcnasm.GlobalLoad(ld, gcnasm.V(1), gcnasm.VRange(2, 2), gcnasm.Off, 0).For(c3))
	add("global_store_dword v0, v5, s[0:1]", gcnasm.GlobalStore(st, gcnasm.V(0), gcnasm.V(5), gcnasm.SRange(0, 2), 0).For(c3))
	add("global_store_dword v0, v5, s[100:101] offset:-8", gcnasm.GlobalStore(st, gcnasm.V(0), gcnasm.V(5), gcnasm.SRange(100, 2), -8).For(c3))
	add("flat_load_dword v1, v[2:3] (gcn3)", gcnasm.FlatLoad(ld, gcnasm.V(1), gcnasm.VRange(2, 2)))
	{
		d := gcnasm.FlatLoad(ld, gcnasm.V(1), gcnasm.VRange(2, 2)).For(c3)
		d.Seg = gcnasm.SegFlat
		add("flat_load_dword v1, v[2:3] (cdna3 seg=flat)", d)
	}
	// SOPP: vmcnt[5:4] = SIMM16[15:14] on CDNA3
	for _, v := range []uint16{0x4f74, 0xc07f, 0x8f70, 0x0f70, 0x0000} {
		add(fmt.Sprintf("s_waitcnt %#x", v), gcnasm.MkSOPP(gcnasm.OpSWaitcnt, v).For(c3))
	}
	// SMEM: 21-bit signed vs 20-bit unsigned immediate offset
	for _, off := range []int64{-4, -(1 << 20), 0xffffc, 0x10} {
		d := gcnasm.SMEMLoadImm(gcnasm.OpSLoadDword, gcnasm.S(8), gcnasm.SRange(4, 2), off).For(c3)
		if off >= 0 {
			d = d.For(gcnasm.GCN3)
		}
		add(fmt.Sprintf("s_load_dword s8, s[4:5], %d", off), d)
	}
	// VOP1 56: v_movrelsd_b32 (GCN3) / v_mov_b64 (CDNA3); its VOP3 form
	add("vop1 56 v4, v2", gcnasm.MkVOP1(56, gcnasm.V(4), gcnasm.V(2)))
	add("vop1 56 v4, s2", gcnasm.MkVOP1(56, gcnasm.V(4), gcnasm.S(2)))
	add("vop3 376 v4, v2", gcnasm.MkVOP3a(376, gcnasm.V(4), gcnasm.V(2), gcnasm.Operand{}, gcnasm.Operand{}))
	// VOP3 488 / 489: v_mad_u64_u32 / v_mad_i64_i32 are VOP3b (SDST) on CDNA3
	raw("vop3 488 v[4:5], s[12:13], v2, v6, v[8:9]", 0xD1E80C04, 0x04220D02)
	raw("vop3 489 v[4:5], vcc, v2, v6, v[8:9]", 0xD1E96A04, 0x04220D02)
	raw("vop3 488 abs-bits set", 0xD1E80304, 0x04220D02)
	// architecture-neutral controls
	raw("s_endpgm", 0xBF810000)
	raw("v_add_f32 v4, v2, v6", 0x02080D02)
	raw("ds_read_b32 v12, v2", 0xD86C0000, 0x0C000002)
	return out
}

// builtSample draws round-trip encodings (rows found by probing a decoder of
// the harness, patterns of gen.go) for both architectures.
func builtSample(c *ctx, rng *vlib.PRNG, n int) []builtEnc {
	var out []builtEnc
	for _, arch := range []gcnasm.Arch{gcnasm.GCN3, gcnasm.CDNA3} {
		pc := &ctx{arch: arch, out: c.out, slow: c.slow}
		pc.dA, pc.dB = newDecoders(arch)
		tries := 0
		for got := 0; got < n && tries < 40*n; tries++ {
			f := rtFormats[rng.Intn(len(rtFormats))]
			op := rng.Intn(opcodeSpace(f))
			r, ok := probeRow(pc, f, op, false)
			if !ok {
				continue
			}
			pats := r.patterns(rng, 1)
			pt := pats[rng.Intn(len(pats))]
			enc, err := gcnasm.Encode(pt.D)
			if err != nil {
				continue
			}
			out = append(out, builtEnc{exact(enc), fmt.Sprintf("sample %s %s %s", r.id(), r.ref(), pt.ID), false})
			got++
		}
	}
	return out
}

//nolint:gocyclo,funlen
func runBuilt(p part, c *ctx, base *vlib.PRNG) {
	out := c.out
	_ = sim.GetIDGenerator() // akita initialises it lazily
	order, canonical := builtOrder(p, base)
	orderID := strings.Join(order, ",")
	out.count("built_orders", 1)
	out.dist("built_order", orderID)

	encs := builtBattery()
	out.count("built_battery_encodings", int64(len(encs)))
	encs = append(encs, builtSample(c, base.Fork("sample"), p.N)...)

	var all []*builtDecoder
	engine := sim.NewSerialEngine()
	nCU := 0
	addDec := func(comp, class string, arch gcnasm.Arch, d emu.Decoder, step int, from string) {
		if d == nil {
			out.inconclusive("component " + comp + " has no decoder")
			return
		}
		all = append(all, &builtDecoder{comp: comp, class: class, arch: arch, dec: d, step: step, from: from, ptr: ptrOf(d)})
		out.count("built_components", 1)
		out.count("built_components_"+arch.String(), 1)
		out.count("built_components_"+class, 1)
	}
	addPlatform := func(pl *plat.Platform, class string, arch gcnasm.Arch, step int, from string) {
		n := 0
		for _, comp := range pl.Sim.Components() {
			switch x := comp.(type) {
			case *cu.ComputeUnit:
				addDec(x.Name(), class, arch, x.Decoder, step, from)
				n++
			case *emu.ComputeUnit:
				d, ok := emuCUDecoder(x)
				if !ok {
					out.inconclusive("cannot reach the decoder of " + x.Name())
					continue
				}
				addDec(x.Name(), class, arch, d, step, from)
				n++
			}
		}
		if n == 0 {
			out.inconclusive("platform " + from + " has no compute units")
		}
	}

	for step, kind := range order {
		c.before(nil, fmt.Sprintf("built order %d step %d %s", p.Sub, step, kind))
		switch kind {
		case "cuG", "cuC":
			b := cu.MakeBuilder().WithEngine(engine).WithFreq(1 * sim.GHz)
			arch := gcnasm.GCN3
			if kind == "cuC" {
				b = b.WithCDNA3Decoding(true)
				arch = gcnasm.CDNA3
			}
			x := b.Build(fmt.Sprintf("SoloCU%d", nCU))
			nCU++
			addDec(x.Name(), "timing-cu", arch, x.Decoder, step, kind)
		case "emuG":
			addPlatform(plat.Build(plat.Config{Arch: "gcn3", NumGPUs: 2}), "emu-cu", gcnasm.GCN3, step, kind)
		case "emuC":
			addPlatform(plat.Build(plat.Config{Arch: "cdna3", NumGPUs: 1}), "emu-cu", gcnasm.CDNA3, step, kind)
		case "platR9":
			addPlatform(plat.Build(plat.Config{Timing: true, GPUType: "r9nano", NumGPUs: 1}), "r9nano-cu", gcnasm.GCN3, step, kind)
		case "platMI":
			addPlatform(plat.Build(plat.Config{Timing: true, GPUType: "mi300a", NumGPUs: 1}), "mi300a-cu", gcnasm.CDNA3, step, kind)
		}
		out.count("built_steps", 1)
		out.count("built_steps_"+kind, 1)

		// fresh references for this step
		fresh := map[gcnasm.Arch]*insts.Disassembler{}
		for _, a := range []gcnasm.Arch{gcnasm.GCN3, gcnasm.CDNA3} {
			fresh[a], _ = newDecoders(a)
		}
		refs := map[gcnasm.Arch][]outcome{}
		refSnaps := map[gcnasm.Arch][]Snap{}
		for a, d := range fresh {
			for _, e := range encs {
				o := safeDecode(d, e.b)
				refs[a] = append(refs[a], o)
				s := Snap{}
				if o.Kind == kInst {
					s = snapInst(o.Inst)
				}
				refSnaps[a] = append(refSnaps[a], s)
			}
		}

		// one pass per distinct (decoder object, owner architecture); owners that
		// share both are the same case behaviourally
		type caseKey struct {
			ptr  uintptr
			arch gcnasm.Arch
		}
		seen := map[caseKey]bool{}
		for _, bd := range all {
			k := caseKey{bd.ptr, bd.arch}
			if bd.ptr != 0 && seen[k] {
				out.count("built_decoder_checks_covered_by_shared_object", 1)
				continue
			}
			seen[k] = true
			out.count("built_decoder_checks", 1)
			for i, e := range encs {
				if !e.canonical && bd.class != "timing-cu" && i%4 != step%4 {
					continue // platform CUs: a quarter of the sample per step, the whole battery
				}
				c.before(e.b, "built "+bd.comp+" "+e.label)
				o := safeDecode(bd.dec, e.b)
				out.count("built_decodes_compared", 1)
				ref := refs[bd.arch][i]
				v := viewOf(e.b)
				wit := func(extra map[string]any) map[string]any {
					m := map[string]any{"bytes": hx(e.b), "encoding": e.label, "component": bd.comp, "component_class": bd.class,
						"configured_arch": bd.arch.String(), "built_at_step": bd.step, "built_by": bd.from,
						"checked_after_step": step, "step_built": kind, "order": orderID}
					if dd, ok := bd.dec.(*insts.Disassembler); ok {
						m["decoder_IsCDNA3_now"] = dd.IsCDNA3
					}
					for kk, x := range extra {
						m[kk] = x
					}
					return m
				}
				member := fmt.Sprintf("%s built by %s, after a later %s", bd.class, bd.from, kind)
				if bd.step == step {
					member = fmt.Sprintf("%s right after its own build (%s)", bd.class, bd.from)
				}
				keyBase := fmt.Sprintf("C04|built-decoders|%s|%s|differs-from-fresh-decoder|%s|", bd.class, bd.arch, v.Format)
				canon := canonical && e.canonical
				switch {
				case o.Kind != ref.Kind:
					out.class(keyBase+"outcome", member, canon,
						fmt.Sprintf("the decoder of a %s built for %s classifies an encoding differently from a fresh Disassembler configured for %s", bd.class, bd.arch, bd.arch),
						wit(map[string]any{"built": o.Kind + ": " + o.Msg, "fresh": ref.Kind + ": " + ref.Msg}))
				case o.Kind == kInst:
					if s := snapInst(o.Inst); s != refSnaps[bd.arch][i] {
						fl := strings.Join(diffSnap(refSnaps[bd.arch][i], s), "+")
						out.class(keyBase+fl, member, canon,
							fmt.Sprintf("the decoder of a %s built for %s decodes an encoding differently from a fresh Disassembler configured for %s (fields %s)", bd.class, bd.arch, bd.arch, fl),
							wit(map[string]any{"built_print": safePrint(o.Inst).Text, "fresh_print": safePrint(ref.Inst).Text}))
					} else {
						out.count("built_decodes_equal", 1)
					}
				case o.Kind == kError && errClass(o.Msg) != errClass(ref.Msg):
					out.class(keyBase+"error-text", member, canon,
						"the decoder of a built component reports a different error than a fresh Disassembler of its architecture",
						wit(map[string]any{"built": o.Msg, "fresh": ref.Msg}))
				default:
					out.count("built_decodes_equal", 1)
				}
			}
		}
		out.nontrivial(fmt.Sprintf("built/order%d/step%d/%s", p.Sub, step, kind))
	}

	// pointer statistics (informational): decoder objects and how many
	// components of which architectures hold each
	type share struct {
		n     int
		archs map[gcnasm.Arch]bool
		cls   map[string]bool
	}
	shares := map[uintptr]*share{}
	for _, bd := range all {
		s := shares[bd.ptr]
		if s == nil {
			s = &share{archs: map[gcnasm.Arch]bool{}, cls: map[string]bool{}}
			shares[bd.ptr] = s
		}
		s.n++
		s.archs[bd.arch] = true
		s.cls[bd.class] = true
	}
	for _, s := range shares {
		out.count("built_decoder_objects", 1)
		if s.n > 1 {
			out.count("built_decoder_objects_shared_by_several_components", 1)
			var cl []string
			for k := range s.cls {
				cl = append(cl, k)
			}
			sort.Strings(cl)
			out.dist("built_decoder_sharing", fmt.Sprintf("%s: one object per group of components", strings.Join(cl, "+")))
		}
		if len(s.archs) > 1 {
			out.count("built_decoder_objects_shared_across_architectures", 1)
			out.note("built_decoder_objects_shared_across_architectures", fmt.Sprintf("order %s: one Disassembler object is held by components built for gcn3 and for cdna3", orderID))
		}
	}
}
