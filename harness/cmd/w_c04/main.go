// w_c04: decoder totality / determinism / inverse-of-encoding monitor
// (DESIGN.md §3 C04). The real insts.Disassembler is driven with
//
//	(1) encodings produced by the harness' own encoder (vlib/gcnasm, written
//	    from the ISA manuals) for every row of the decode table x operand and
//	    modifier patterns, and the decoded *insts.Inst is compared field by
//	    field with the description;
//	(2) a structured enumeration of first dwords (every format's encoding bits
//	    x every opcode value x operand codes incl. reserved/SDWA/DPP/literal)
//	    with buffers of every length 0..12, plus random words: outcomes are
//	    classified {inst, error, diagnostic, explicit, FAULT};
//	(3) suffix independence, agreement of independently created decoder
//	    instances, no state carried between calls;
//	(4) every shipped .hsaco x kernel: sequential decode lands exactly on the
//	    end of the code, and encode(FromInst(decode(w))) == w.
//	(5) promotion relation (promo.go): for every VOP1 / VOP2 / VOPC opcode the
//	    e32 and the e64 (VOP3) encoding of the same description decode, on one
//	    decoder, to the same mnemonic and the same operand registers / widths -
//	    per architecture, without any opcode table.
//
//	(6) decoders as the simulator builds them (built.go): timing CUs, emulation
//	    and timing platforms of both architectures built in one process in
//	    several orders; every decoder obtained is compared with a fresh one of
//	    its owner's architecture after every build step.
//
// The mnemonic and the operand widths a row must decode to come from the
// manuals' tables of the decoder's architecture (manual.go), not from the
// decoder; what the manuals do not cover is listed by name in the evidence.
//
// Work is split into parts; each part runs in a child process (a fatal error
// inside the code under test kills only the child; the part is then re-run
// with the current input written to disk before every call).
package main

import (
	"crypto/sha1"
	"encoding/hex"
	"encoding/json"
	"fmt"
	"io"
	"log"
	"os"
	"sort"
	"strconv"
	"strings"
	"sync"
	"time"

	"verifharness/vlib"
)

const propID = "C04"

type part struct {
	Kind string `json:"kind"` // rt | tot | corpus
	Arch int    `json:"arch"`
	Sub  int    `json:"sub"` // rt: format; tot: block; corpus: group
	N    int    `json:"n"`   // tier-dependent size parameter
	Of   int    `json:"of"`  // number of groups (corpus) / blocks
}

func (p part) String() string { return fmt.Sprintf("%s/arch%d/%d", p.Kind, p.Arch, p.Sub) }

// classNote is what children report for aggregated violation classes.
type classNote struct {
	Key       string `json:"key"`
	Member    string `json:"member"`
	Canonical bool   `json:"canonical"`
	What      string `json:"what"`
	Witness   any    `json:"witness,omitempty"`
}

// ---------------------------------------------------------------------------
// child-side recorder with local aggregation

type childOut struct {
	rec      *vlib.ChildRecorder
	mu       sync.Mutex
	counters map[string]int64
	distinct map[string]map[string]struct{}
	seen     map[string]struct{} // class notes already written
	perKey   map[string]int      // members written per class key (capped)
	nontriv  []string
	lists    map[string]map[string]struct{} // named lists for the evidence file (not judged rows, ...)
}

func newChildOut() *childOut {
	o := newChildOutNoRec()
	o.rec = vlib.ChildRec()
	return o
}

// newChildOutNoRec: a sink for the development dump (nothing is written).
func newChildOutNoRec() *childOut {
	return &childOut{counters: map[string]int64{}, distinct: map[string]map[string]struct{}{}, seen: map[string]struct{}{}, perKey: map[string]int{},
		lists: map[string]map[string]struct{}{}}
}

// note adds an item to a named list that ends up in the evidence file.
func (o *childOut) note(list, item string) {
	o.mu.Lock()
	m := o.lists[list]
	if m == nil {
		m = map[string]struct{}{}
		o.lists[list] = m
	}
	m[item] = struct{}{}
	o.mu.Unlock()
}

func (o *childOut) inconclusive(reason string) {
	if o.rec != nil {
		o.rec.Inconclusive(reason)
	}
}

type listNote struct {
	List  string   `json:"list"`
	Items []string `json:"items"`
}

func (o *childOut) count(name string, n int64) { o.mu.Lock(); o.counters[name] += n; o.mu.Unlock() }

func (o *childOut) dist(set, key string) {
	o.mu.Lock()
	m := o.distinct[set]
	if m == nil {
		m = map[string]struct{}{}
		o.distinct[set] = m
	}
	m[key] = struct{}{}
	o.mu.Unlock()
}

func (o *childOut) nontrivial(k string) { o.mu.Lock(); o.nontriv = append(o.nontriv, k); o.mu.Unlock() }

// class reports one member of a violation class (written at once; duplicates suppressed).
func (o *childOut) class(key, member string, canonical bool, what string, witness any) {
	o.count("violating_observations", 1)
	id := key + "\x00" + member + "\x00" + strconv.FormatBool(canonical)
	o.mu.Lock()
	_, dup := o.seen[id]
	over := false
	if !dup {
		// a badly broken decoder produces a new member with almost every input:
		// keep the record bounded (members beyond the cap are only counted)
		if len(o.seen) >= 20000 || o.perKey[key] >= 600 || (o.perKey[key] == 0 && len(o.perKey) >= 400) {
			over = true
		} else {
			o.seen[id] = struct{}{}
			o.perKey[key]++
		}
	}
	o.mu.Unlock()
	if over {
		o.count("violating_observations_beyond_record_cap", 1)
	}
	if dup || over || o.rec == nil {
		return
	}
	o.rec.Note("class", classNote{Key: key, Member: member, Canonical: canonical, What: what, Witness: witness})
}

func (o *childOut) flush() {
	o.mu.Lock()
	defer o.mu.Unlock()
	for k, v := range o.counters {
		o.rec.Count(k, v)
	}
	for s, m := range o.distinct {
		for k := range m {
			o.rec.Distinct(s, k)
		}
	}
	for l, m := range o.lists {
		items := make([]string, 0, len(m))
		for k := range m {
			items = append(items, k)
		}
		sort.Strings(items)
		o.rec.Note("list", listNote{List: l, Items: items})
	}
	o.rec.Note("evals", o.counters["rt_patterns"]+o.counters["promo_pairs"]+o.counters["built_decodes_compared"]+o.counters["tot_inputs"]+o.counters["corpus_instructions"]+o.counters["mix_sequence_checks"])
	for i := 0; i < len(o.nontriv); i += 500 {
		j := i + 500
		if j > len(o.nontriv) {
			j = len(o.nontriv)
		}
		o.rec.Note("ntb", o.nontriv[i:j])
	}
	o.rec.Note("done", true)
}

// tailFile returns the last n bytes of a file without reading all of it.
func tailFile(path string, n int64) string {
	f, err := os.Open(path)
	if err != nil {
		return ""
	}
	defer f.Close()
	if st, err := f.Stat(); err == nil && st.Size() > n {
		_, _ = f.Seek(-n, io.SeekEnd)
	}
	b, _ := io.ReadAll(io.LimitReader(f, n))
	return string(b)
}

func recHasDone(path string) bool {
	return strings.Contains(tailFile(path, 4096), `"t":"done"`)
}

// ---------------------------------------------------------------------------

func main() {
	log.SetOutput(io.Discard) // log.Panicf of the code under test prints before panicking
	if vlib.IsChild() {
		runChild()
		return
	}
	if os.Getenv("VERIF_C04_DUMPROWS") != "" {
		dumpRows() // development aid: decoder rows next to the manuals' names
	}
	c := vlib.Start(propID)
	scratch, cleanup := vlib.Scratch("c04")
	defer cleanup()

	var parts []part
	nRand := c.N(2, 24)
	for arch := 0; arch < 2; arch++ {
		for f := 0; f < numRTFormats; f++ {
			parts = append(parts, part{Kind: "rt", Arch: arch, Sub: f, N: nRand})
		}
	}
	nBlocks := numTotBlocks()
	for arch := 0; arch < 2; arch++ {
		for b := 0; b < nBlocks; b++ {
			parts = append(parts, part{Kind: "tot", Arch: arch, Sub: b, N: c.N(1, 12), Of: nBlocks})
		}
	}
	for arch := 0; arch < 2; arch++ {
		parts = append(parts, part{Kind: "mix", Arch: arch, N: c.N(3, 30)})
	}
	for arch := 0; arch < 2; arch++ {
		parts = append(parts, part{Kind: "promo", Arch: arch, N: c.N(2, 40)})
	}
	for o := 0; o < numBuiltCanonOrders+c.N(1, 4); o++ {
		parts = append(parts, part{Kind: "built", Sub: o, N: c.N(100, 400)})
	}
	const corpusGroups = 8
	for g := 0; g < corpusGroups; g++ {
		parts = append(parts, part{Kind: "corpus", Sub: g, Of: corpusGroups})
	}

	type agg struct {
		what      string
		witness   any
		canonical map[string]struct{}
		all       map[string]struct{}
		n         int
	}
	var mu sync.Mutex
	classes := map[string]*agg{}
	lists := map[string]map[string]struct{}{}
	addClass := func(n classNote) {
		mu.Lock()
		defer mu.Unlock()
		a := classes[n.Key]
		if a == nil {
			a = &agg{what: n.What, witness: n.Witness, canonical: map[string]struct{}{}, all: map[string]struct{}{}}
			classes[n.Key] = a
		}
		if n.Canonical {
			a.canonical[n.Member] = struct{}{}
			if a.witness == nil {
				a.witness = n.Witness
			}
		}
		a.all[n.Member] = struct{}{}
		a.n++
	}

	vlib.Parallel(len(parts), 0, func(i int) {
		p := parts[i]
		pj, _ := json.Marshal(p)
		// the first data race ends the child (exit 66): a decoder that shares state
		// between goroutines would otherwise produce gigabytes of race reports
		env := []string{"VERIF_C04_PART=" + string(pj), fmt.Sprintf("VERIF_SEED=%d", c.Seed), "VERIF_TIER=" + c.Tier, "GORACE=halt_on_error=1"}
		timeout := 10 * time.Minute
		if c.Thorough() {
			timeout = 40 * time.Minute
		}
		res := vlib.RunChild(scratch, timeout, env)
		notes := c.AbsorbFile(res.RecPath)
		absorb := func(notes map[string][]any) {
			for _, v := range notes["class"] {
				b, _ := json.Marshal(v)
				var n classNote
				if json.Unmarshal(b, &n) == nil && n.Key != "" {
					addClass(n)
				}
			}
			for _, v := range notes["list"] {
				b, _ := json.Marshal(v)
				var l listNote
				if json.Unmarshal(b, &l) == nil && l.List != "" {
					mu.Lock()
					m := lists[l.List]
					if m == nil {
						m = map[string]struct{}{}
						lists[l.List] = m
					}
					for _, it := range l.Items {
						m[it] = struct{}{}
					}
					mu.Unlock()
				}
			}
			for _, v := range notes["evals"] {
				if f, ok := v.(float64); ok {
					c.Evals(int64(f))
				}
			}
			for _, v := range notes["ntb"] {
				if l, ok := v.([]any); ok {
					for _, k := range l {
						c.Nontrivial(fmt.Sprint(k))
					}
				}
			}
		}
		absorb(notes)
		out := tailFile(res.OutPath, 1<<20)
		if strings.Contains(out, "WARNING: DATA RACE") {
			addClass(classNote{Key: "C04|race|" + p.Kind, Member: p.String(), Canonical: true,
				What:    "the race detector reported a data race while decoder instances were used from several goroutines",
				Witness: map[string]any{"part": p, "report": tailFile(res.OutPath, 6000)}})
		}
		if res.TimedOut {
			c.Inconclusive(fmt.Sprintf("part %s: watchdog fired after %v", p, timeout))
			return
		}
		if len(notes["done"]) > 0 {
			return
		}
		// The child died without finishing: the code under test killed the
		// process (log.Fatal, os.Exit, fatal runtime error). Re-run the part
		// with the current input written to disk before every call.
		res2 := vlib.RunChild(scratch, timeout, append(env, "VERIF_C04_SLOW=1"))
		absorb(c.AbsorbFile(res2.RecPath)) // the first run wrote no counters (they are flushed at the end), only class notes
		if recHasDone(res2.RecPath) {
			if res.ExitCode == 66 && strings.Contains(out, "WARNING: DATA RACE") {
				return // ended by the race detector (reported above); the single-goroutine re-run covered the part
			}
			c.Inconclusive(fmt.Sprintf("part %s: child died (exit %d) but the slow re-run completed: %s", p, res.ExitCode, tailFile(res.OutPath, 800)))
			return
		}
		cur, _ := os.ReadFile(res2.Dir + "/current-input.txt")
		if len(cur) == 0 {
			c.Inconclusive(fmt.Sprintf("part %s: child died before its first input (exit %d): %s", p, res2.ExitCode, tailFile(res2.OutPath, 800)))
			return
		}
		addClass(classNote{Key: "C04|fault|process-killed|" + p.Kind, Member: strings.TrimSpace(string(cur)), Canonical: false,
			What:    "decoding this input terminated the process (fatal error / exit inside the code under test), exit code " + strconv.Itoa(res2.ExitCode),
			Witness: map[string]any{"part": p, "input": strings.TrimSpace(string(cur)), "output_tail": tailFile(res2.OutPath, 3000)}})
	})

	// one violation per class; fingerprint = hash of the members seen on the
	// seed-independent canonical battery
	keys := make([]string, 0, len(classes))
	for k := range classes {
		keys = append(keys, k)
	}
	sort.Strings(keys)
	var classList []any
	for _, k := range keys {
		a := classes[k]
		members := make([]string, 0, len(a.canonical))
		for m := range a.canonical {
			members = append(members, m)
		}
		sort.Strings(members)
		fp := ""
		if len(members) > 0 {
			h := sha1.Sum([]byte(strings.Join(members, "\n")))
			fp = hex.EncodeToString(h[:8])
		}
		all := make([]string, 0, len(a.all))
		for m := range a.all {
			all = append(all, m)
		}
		sort.Strings(all)
		shown := all
		if len(shown) > 60 {
			shown = shown[:60]
		}
		what := fmt.Sprintf("%s [%d members, e.g. %s]", a.what, len(all), strings.Join(shown[:min(6, len(shown))], ", "))
		c.ViolationFP(k, fp, what, map[string]any{"members": shown, "member_count": len(all), "canonical_member_count": len(members), "fingerprint": fp, "example": a.witness})
		c.Count("violation_classes", 1)
		classList = append(classList, map[string]any{"key": k, "fingerprint": fp, "what": a.what, "members": shown, "member_count": len(all), "observations": a.n})
	}
	c.Set("violation_classes", classList)
	// what was *not* judged, by name: rows without an opcode-table entry in the
	// manuals, rows judged by the other architecture's manual, rows whose widths
	// the rule set does not model, promotions without a row, manual opcodes the
	// simulator has no row for
	listNames := make([]string, 0, len(lists))
	for l := range lists {
		listNames = append(listNames, l)
	}
	sort.Strings(listNames)
	for _, l := range listNames {
		items := make([]string, 0, len(lists[l]))
		for it := range lists[l] {
			items = append(items, it)
		}
		sort.Strings(items)
		c.Set("list_"+l, items)
		c.Count("listed_"+l, int64(len(items)))
	}

	c.Finish(vlib.FinishOpts{
		Rule: "a round trip = one (architecture, format, opcode row, operand/modifier pattern) description encoded by gcnasm, decoded by the real " +
			"Disassembler and compared field by field (plus printing, second instance, junk suffix, exact-length buffer); non-trivial = distinct " +
			"(arch/format/opcode, pattern) whose decode returned an instruction or a classified failure; the decoded mnemonic of every row is compared with the manual's; " +
			"a promotion pair = the e32 and the e64 encoding of one VOP1 / VOP2 / VOPC description decoded by one decoder and compared with each other (mnemonic, operand registers, widths); " +
			"a built-decoder comparison = one encoding (architecture-sensitive battery + seeded round-trip sample) decoded by the decoder a component was built with " +
			"(timing CU via cu.MakeBuilder with / without WithCDNA3Decoding, emulation platforms gcn3 / cdna3 via emusystem/emugpu, timing platforms r9nano / mi300a; both architectures " +
			"in one process, canonical and seeded build orders, re-checked after every later build step) and compared field by field with a fresh Disassembler of the component's architecture; " +
			"totality inputs and corpus kernels are counted in events",
		Assumptions: []string{
			"the encoder vlib/gcnasm (written from docs/cdna3_insts.pdf ch.13 and the GCN3 manual ch.13) is the reference for bit positions; it is itself cross-checked by re-encoding all shipped kernels",
			"expected mnemonic and operand widths of an opcode come from the opcode tables of the manuals of the architecture the decoder is configured for (gcnasm name tables + WidthsOf), never from the decoder's table and never from the other architecture's column; VOP3 opcodes below 448 are the e64 forms of VOPC / VOP2 / VOP1 (opcode, 256 + opcode, 320 + opcode) and take the name of that architecture's VOPC / VOP2 / VOP1 table (Table 84 of the CDNA3 manual prints the VOP1 promotions at 384 + opcode; modulo that offset it repeats the VOP1 table, counter manual_cdna3_table84_vop1_promotions_consistent)",
			"spellings accepted as the same mnemonic: case, _e32/_e64/_sdwa/_dpp suffix, surrounding blanks, integer-compare synonyms lg = ne and tru = t (the GCN3 manual itself uses LG / TRU in its compare-operation table), GFX9's _co renames of v_addc/v_subb/v_subbrev_u32 - and only when the architecture's manual does not give the decoder's spelling to another opcode (counter rt_names_documented_rename)",
			"rows of the shared decode table whose opcode the configured architecture's manual does not define are judged by the other architecture's manual (list_judged_by_other_arch); rows neither manual names are round-tripped without a name / width expectation (list_not_judged); rows whose widths the rule set does not model: list_widths_not_modelled; manual opcodes without a decoder row: list_manual_opcodes_without_row",
			"supported instruction = row of the decoder's own table (found by probing every opcode value of every format); in addition the e64 encoding of a VOP1 / VOP2 / VOPC instruction that decodes in its e32 encoding and that the architecture's manual defines must decode too (the literal-K opcodes v_madmk / v_madak have no e64 form)",
			"built decoders: construction sites of insts.NewDisassembler() are cu.Builder.Build (per timing CU), emugpu.Builder.buildComputeUnits (per emulated GPU, shared by its CUs) and the gcn3disassembler command (default instance = the harness' own gcn3 decoders); the emulation CU's decoder field is unexported and read through reflection; sharing one object between components is counted, not judged - only behaviour that differs from a fresh decoder of the component's configured architecture is a violation",
			"explicit panics matching 'not implemented|not supported' are accepted diagnostics; only runtime errors (nil dereference, index/slice bounds) and process death count as faults",
		},
		MinNontrivial: 20000,
		MinCounters: map[string]int64{
			"built_orders": 3, "built_steps": 25, "built_components_gcn3": 300, "built_components_cdna3": 300, "built_decodes_compared": 50000,
			"built_steps_cuG": 4, "built_steps_cuC": 4, "built_steps_emuG": 2, "built_steps_emuC": 2, "built_steps_platR9": 2, "built_steps_platMI": 2,
			"rt_rows": 1500, "rt_rows_width_checked": 1900, "rt_names_compared": 1900, "promo_opcodes_compared": 600, "promo_pairs_compared": 2500, "rt_decodes": 60000, "tot_inputs": 150000, "tot_outcome_inst": 10000, "tot_outcome_error": 10000,
			"corpus_kernels": 120, "corpus_bytes_consumed": 200000, "suffix_checks": 50000, "instance_checks": 100000, "sequence_checks": 100000, "mix_sequence_checks": 20000,
		},
	})
}
