package main

import (
	"encoding/binary"
	"fmt"

	"verifharness/vlib"
	"verifharness/vlib/gcnasm"
)

// (5) promotion relation. Every VOP1 / VOP2 / VOPC instruction has two
// encodings: the 32-bit one (e32) and the 64-bit VOP3 one (e64) with VOP3
// opcode = VOPC opcode, 256 + VOP2 opcode, 320 + VOP1 opcode. Both describe the
// same instruction, so on one decoder the two encodings of one description
// (same registers in VDST / SRC0 / SRC1) must decode to the same mnemonic
// (modulo the _e32 / _e64 suffix the table rows carry) and to the same operand
// registers with the same widths. The relation needs no opcode table: it
// compares the decoder with itself, per architecture, for every opcode value of
// the three 32-bit formats.

type promoPat struct {
	ID              string
	Dst, Src0, Src1 gcnasm.Operand
	Canonical       bool
}

// Register numbers are even and far enough from the ends of the files that an
// operand of up to 4 registers stays in range whatever width the rows claim.
var promoCanon = []promoPat{
	{ID: "v4,v2,v6", Dst: gcnasm.V(4), Src0: gcnasm.V(2), Src1: gcnasm.V(6), Canonical: true},
	{ID: "v250,s10,v0", Dst: gcnasm.V(250), Src0: gcnasm.S(10), Src1: gcnasm.V(0), Canonical: true},
	{ID: "v0,v248,v128", Dst: gcnasm.V(0), Src0: gcnasm.V(248), Src1: gcnasm.V(128), Canonical: true},
}

func promoWit(arch gcnasm.Arch, f gcnasm.Format, op int, pt promoPat, e32, e64 []byte, extra map[string]any) map[string]any {
	m := map[string]any{"arch": arch.String(), "format": f.String(), "opcode": op, "vop3_opcode": promotedTo(f, op), "operands": pt.ID,
		"e32_bytes": hx(e32), "e64_bytes": hx(e64)}
	for k, v := range extra {
		m[k] = v
	}
	return m
}

//nolint:gocyclo,funlen
func runPromo(p part, c *ctx, base *vlib.PRNG) {
	out := c.out
	arch := c.arch
	for _, f := range []gcnasm.Format{gcnasm.VOP1, gcnasm.VOP2, gcnasm.VOPC} {
		for op := 0; op < promoSpace(f); op++ {
			if probe, err := gcnasm.Encode(gcnasm.Desc{Arch: arch, Format: f, Opcode: op, Dst: gcnasm.V(0), Src0: gcnasm.V(0), Src1: gcnasm.V(0)}); err != nil ||
				formatOf(binary.LittleEndian.Uint32(probe)) != formatNameOf(f) {
				continue // VOP2 OP = 62 / 63 are the VOPC / VOP1 encodings
			}
			op3 := promotedTo(f, op)
			f3 := gcnasm.VOP3a
			if gcnasm.IsVOP3bOpcode(arch, op3) {
				f3 = gcnasm.VOP3b
			}
			// the literal-K opcodes (no VOP3 form) need their K dword in the e32 encoding
			kLit := noVOP3Form(gcnasm.NameOf(gcnasm.GCN3, f, op)) || noVOP3Form(gcnasm.NameOf(gcnasm.CDNA3, f, op))
			pats := append([]promoPat(nil), promoCanon...)
			rng := base.ForkN(f.String(), op)
			for i := 0; i < p.N; i++ {
				src0 := gcnasm.V(2 * rng.Intn(125))
				if rng.Chance(1, 3) {
					src0 = gcnasm.S(2 * rng.Intn(48))
				}
				pt := promoPat{Dst: gcnasm.V(2 * rng.Intn(125)), Src0: src0, Src1: gcnasm.V(2 * rng.Intn(125))}
				pt.ID = fmt.Sprintf("r%d:%s,%s,%s", i, pt.Dst, pt.Src0, pt.Src1)
				pats = append(pats, pt)
			}
			judged := false
			for _, pt := range pats {
				d32 := gcnasm.Desc{Arch: arch, Format: f, Opcode: op, Src0: pt.Src0}
				d64 := gcnasm.Desc{Arch: arch, Format: f3, Opcode: op3, Src0: pt.Src0}
				if f != gcnasm.VOPC {
					d32.Dst, d64.Dst = pt.Dst, pt.Dst
				} else {
					d64.Dst = gcnasm.VCC // e32 writes VCC implicitly
				}
				if f != gcnasm.VOP1 {
					d32.Src1, d64.Src1 = pt.Src1, pt.Src1
				}
				if f3 == gcnasm.VOP3b {
					d64.SDst, d64.Src2 = gcnasm.VCC, gcnasm.VCC // the e32 form's implicit carry-out / carry-in
				}
				if kLit {
					d32.Src2 = gcnasm.Lit(0x3f800000)
				}
				e32, err32 := gcnasm.Encode(d32)
				e64, err64 := gcnasm.Encode(d64)
				if err32 != nil || err64 != nil {
					out.count("promo_pairs_rejected_by_encoder", 1)
					out.dist("encoder_rejections", fmt.Sprintf("promo %s/%s/%d %s: %v %v", arch, f, op, pt.ID, err32, err64))
					continue
				}
				e32, e64 = exact(e32), exact(e64)
				c.before(e32, fmt.Sprintf("promo e32 %s/%s/%d %s", arch, f, op, pt.ID))
				o32 := safeDecode(c.dA, e32)
				c.before(e64, fmt.Sprintf("promo e64 %s/%s/%d %s", arch, f, op, pt.ID))
				o64 := safeDecode(c.dA, e64)
				out.count("promo_pairs", 1)
				nf32 := o32.Kind == kError && notFoundRE.MatchString(o32.Msg)
				nf64 := o64.Kind == kError && notFoundRE.MatchString(o64.Msg)
				id := fmt.Sprintf("%s|%s|%d", arch, f, op)
				switch {
				case nf32 && nf64:
					out.count("promo_opcodes_without_rows", 1)
					continue
				case o32.Kind == kInst && nf64:
					n := normDec(o32.Inst.InstName)
					if noVOP3Form(n) {
						out.count("promo_literal_k_opcode_has_no_e64_form", 1)
						continue
					}
					out.count("promo_e64_row_missing", 1)
					if man, _ := manualName(arch, f, op); man == "" {
						// not an instruction of this architecture (row of the shared table): listed only
						out.note("promotion_e64_form_without_row", fmt.Sprintf("%s/%s/%d %s (not in the %s manual): VOP3 opcode %d has no row", arch, f, op, n, arch, op3))
						continue
					}
					out.class("C04|promotion|e64-form-undecodable|"+id, n, pt.Canonical,
						fmt.Sprintf("%s decoder: %s opcode %d (%s) decodes in its e32 encoding, its e64 encoding (VOP3 opcode %d) is reported undecodable: %s", arch, f, op, n, op3, o64.Msg),
						promoWit(arch, f, op, pt, e32, e64, map[string]any{"e32_name": o32.Inst.InstName, "e64_error": o64.Msg}))
					continue
				case nf32 && o64.Kind == kInst:
					n := normDec(o64.Inst.InstName)
					if noVOP3Form(n) {
						// the table carries a VOP3 row for an instruction that has none and no e32 row
						out.note("promotion_e32_form_without_row", fmt.Sprintf("%s/%s/%d: VOP3 opcode %d = %s (literal-K opcode) has a row, the e32 form none", arch, f, op, op3, n))
					} else {
						out.note("promotion_e32_form_without_row", fmt.Sprintf("%s/%s/%d: VOP3 opcode %d = %s has a row, the e32 form none", arch, f, op, op3, n))
					}
					out.count("promo_e32_row_missing", 1)
					continue
				case o32.Kind != kInst || o64.Kind != kInst:
					// faults / diagnostics / other errors are the round trip's and the totality part's business
					out.count("promo_pairs_not_both_instructions", 1)
					continue
				}
				out.count("promo_pairs_compared", 1)
				judged = true
				s32, s64 := snapInst(o32.Inst), snapInst(o64.Inst)
				n32, n64 := normDec(s32.Name), normDec(s64.Name)
				if n32 != n64 {
					out.class("C04|promotion|e32-e64-disagree|"+id+"|name", n32+"-vs-"+n64, pt.Canonical,
						fmt.Sprintf("%s decoder: the e32 encoding of %s opcode %d decodes as %q, its e64 encoding (VOP3 opcode %d) as %q", arch, f, op, n32, op3, n64),
						promoWit(arch, f, op, pt, e32, e64, map[string]any{"e32_name": s32.Name, "e64_name": s64.Name, "e32_row_widths": s32.RowWidths, "e64_row_widths": s64.RowWidths}))
				}
				slots := []int{oSrc0}
				if f != gcnasm.VOPC {
					slots = append(slots, oDst)
				}
				if f != gcnasm.VOP1 {
					slots = append(slots, oSrc1)
				}
				for _, sl := range slots {
					a, b := s32.Ops[sl], s64.Ops[sl]
					out.count("promo_operands_compared", 1)
					switch {
					case a.Nil && b.Nil:
					case a.Nil != b.Nil:
						out.class("C04|promotion|e32-e64-disagree|"+id+"|operand-presence", fmt.Sprintf("%s:%s-vs-%s", opNames[sl], presence(a), presence(b)), pt.Canonical,
							fmt.Sprintf("%s decoder: %s opcode %d (%s): operand %s is %s in the e32 decode and %s in the e64 decode", arch, f, op, n32, opNames[sl], presence(a), presence(b)),
							promoWit(arch, f, op, pt, e32, e64, map[string]any{"e32": a.String(), "e64": b.String()}))
					case a.Type != b.Type || a.Reg != b.Reg || a.Int != b.Int || a.Float != b.Float || a.Lit != b.Lit:
						out.class("C04|promotion|e32-e64-disagree|"+id+"|register", opNames[sl], pt.Canonical,
							fmt.Sprintf("%s decoder: %s opcode %d (%s): the same %s field value decodes to different operands in the e32 and e64 forms", arch, f, op, n32, opNames[sl]),
							promoWit(arch, f, op, pt, e32, e64, map[string]any{"e32": a.String(), "e64": b.String()}))
					case a.Count != b.Count:
						out.class("C04|promotion|e32-e64-disagree|"+id+"|width", fmt.Sprintf("%s:%d-vs-%d", opNames[sl], a.Count, b.Count), pt.Canonical,
							fmt.Sprintf("%s decoder: %s opcode %d (%s): operand %s covers %d register(s) in the e32 decode and %d in the e64 decode (VOP3 opcode %d, %s)",
								arch, f, op, n32, opNames[sl], a.Count, b.Count, op3, n64),
							promoWit(arch, f, op, pt, e32, e64, map[string]any{"e32": a.String(), "e64": b.String(), "e32_row_widths": s32.RowWidths, "e64_row_widths": s64.RowWidths}))
					}
				}
			}
			if judged {
				out.count("promo_opcodes_compared", 1)
				out.nontrivial(fmt.Sprintf("promo/%s/%s/%d", arch, f, op))
				out.dist("promo_opcode", fmt.Sprintf("%s/%s/%d", arch, f, op))
			}
		}
	}

	// consistency of the harness' own reading of the CDNA3 manual: Table 84 lists
	// the VOP1 promotions at 384 + opcode; modulo that offset it must repeat the
	// VOP1 table (otherwise manualName's "VOP3 320.. = VOP1 table" would not be
	// what the manual means)
	if arch == gcnasm.CDNA3 {
		for op := 0; op < 128; op++ {
			v1 := gcnasm.NameOf(gcnasm.CDNA3, gcnasm.VOP1, op)
			t84 := gcnasm.NameOf(gcnasm.CDNA3, gcnasm.VOP3a, 384+op)
			if v1 == "" || t84 == "" {
				continue
			}
			if v1 == t84 {
				out.count("manual_cdna3_table84_vop1_promotions_consistent", 1)
			} else if 384+op < 448 {
				out.count("manual_cdna3_table84_vop1_promotions_inconsistent", 1)
				out.note("manual_table_inconsistencies", fmt.Sprintf("cdna3 VOP3A table %d = %s but VOP1 table %d = %s", 384+op, t84, op, v1))
			}
		}
	}
}

// promoSpace: the opcode values of a 32-bit format that have a slot in the
// VOP3 opcode space (VOPC 0..255 -> 0..255, VOP2 0..63 -> 256..319, VOP1
// 0..127 -> 320..447).
func promoSpace(f gcnasm.Format) int {
	switch f {
	case gcnasm.VOP1:
		return 128
	case gcnasm.VOP2:
		return 64
	}
	return 256
}

func presence(o OpSnap) string {
	if o.Nil {
		return "absent"
	}
	return "present"
}
