package main

import (
	"fmt"

	"verifharness/vlib"
)

// ---------------------------------------------------------------------------
// seeded history generator. It consults only the monitor's shadow (never the
// driver's internals) and keeps every request within device capacity by the
// monitor's own accounting.

var gpuPageChoices = []int{16, 16, 17, 24, 32, 32, 48, 64, 100, 128, 256}
var gpuPageChoicesPow2 = []int{16, 16, 32, 32, 64, 128, 256}

func genScenario(r *vlib.PRNG, idx int, buddy bool, steps int) *scenario {
	sc := &scenario{Name: fmt.Sprintf("h%d", idx), Buddy: buddy}
	if buddy {
		sc.Name = fmt.Sprintf("b%d", idx)
		sc.Log2Page = 12
	} else {
		sc.Log2Page = uint64(12 + r.Intn(5))
	}
	n := 1 + r.Intn(4)
	for i := 0; i < n; i++ {
		if buddy {
			sc.GPUPages = append(sc.GPUPages, gpuPageChoicesPow2[r.Intn(len(gpuPageChoicesPow2))])
		} else {
			sc.GPUPages = append(sc.GPUPages, gpuPageChoices[r.Intn(len(gpuPageChoices))])
		}
	}
	sc.MaxProc = 1 + r.Intn(4)
	if r.Chance(1, 3) {
		sc.MaxProc = 1
	}
	sc.Steps = steps/2 + r.Intn(steps+1)
	sc.FreeMode = []string{"lifo", "fifo", "random"}[r.Intn(3)]
	switch idx % 4 {
	case 0: // unsteered
	case 1:
		sc.Steer = steer{NoMultiPageFree: true}
	default:
		sc.Steer = steer{NoMultiPageFree: true, NoCrossPIDFree: true}
	}
	sc.GenSeed = r.Uint64() | 1
	return sc
}

type generator struct {
	w       *world
	r       *vlib.PRNG
	pending []op
	// after a fill episode: context and GPU to run the free-k / re-allocate-k
	// episode on
	refill *refillPlan
}

type refillPlan struct {
	c, dev int
	stage  int
	k      int
}

func (g *generator) distinctPIDs() int { return len(g.w.pids) }

func (g *generator) pickSize(n int) uint64 {
	ps := g.w.ps
	lo := uint64(n-1) * ps
	switch g.r.Intn(5) {
	case 0:
		return uint64(n) * ps // exact multiple
	case 1:
		return lo + 1 // one byte into the last page
	case 2:
		return uint64(n)*ps - 1
	case 3:
		if n == 1 {
			return 1
		}
		return lo + 1 + uint64(g.r.Intn(int(ps)))
	default:
		return lo + 1 + uint64(g.r.Intn(int(ps)))
	}
}

func (g *generator) pickPages() int {
	switch g.r.Intn(10) {
	case 0, 1, 2, 3:
		return 1
	case 4, 5:
		return 2
	case 6:
		return 3
	case 7:
		return 4 + g.r.Intn(2)
	case 8:
		return 1 + g.r.Intn(8)
	default:
		return 1
	}
}

// freeable: may buffer b be freed by this history's steering rules?
func (g *generator) freeable(b *bufSt) bool {
	w := g.w
	if !b.live {
		return false
	}
	if w.sc.Steer.NoMultiPageFree && len(b.pages) > 1 {
		return false
	}
	if w.sc.Steer.NoCrossPIDFree {
		for _, p := range b.pages {
			if w.lastWriter[p.vaddr] != b.pid {
				return false
			}
		}
	}
	return true
}

func (g *generator) pickFree(c int) (int, bool) {
	w := g.w
	var cand []int
	for _, s := range w.ctxs[c].bufs {
		if g.freeable(w.bufs[s]) {
			cand = append(cand, s)
		}
	}
	if len(cand) == 0 {
		return 0, false
	}
	switch w.sc.FreeMode {
	case "lifo":
		return cand[len(cand)-1], true
	case "fifo":
		return cand[0], true
	}
	return cand[g.r.Intn(len(cand))], true
}

func (g *generator) liveBufOf(c int) (int, bool) {
	w := g.w
	var cand []int
	for _, s := range w.ctxs[c].bufs {
		if w.bufs[s].live {
			cand = append(cand, s)
		}
	}
	if len(cand) == 0 {
		return 0, false
	}
	return cand[g.r.Intn(len(cand))], true
}

func (g *generator) realGPUs() []int {
	var out []int
	for i := 1; i <= g.w.numGPU(); i++ {
		out = append(out, i)
	}
	return out
}

// next returns the next step; remaining = steps left in the budget.
func (g *generator) next(remaining int) (op, bool) {
	w := g.w
	r := g.r
	if len(g.pending) > 0 {
		o := g.pending[0]
		g.pending = g.pending[1:]
		return o, true
	}
	if w.probeSucceeded {
		// a written-off page came back; keep probing until refused
		w.probeSucceeded = false
		return op{K: kProbe, C: w.lastProbeCtx}, true
	}
	if g.refill != nil {
		if o, ok := g.refillStep(); ok {
			return o, true
		}
	}
	if len(w.ctxs) == 0 {
		return op{K: kInit, C: 0}, true
	}
	for attempt := 0; attempt < 40; attempt++ {
		c := r.Intn(len(w.ctxs))
		cs := w.ctxs[c]
		x := r.Intn(100)
		switch {
		case x < 34: // alloc
			n := g.pickPages()
			if !w.canTake(cs.cur, n, false) {
				n = 1
				if !w.canTake(cs.cur, 1, false) {
					continue
				}
			}
			return op{K: kAlloc, C: c, Size: g.pickSize(n)}, true
		case x < 38: // unified-memory allocation (always placed on GPU 1)
			n := g.pickPages()
			if !w.canTake(1, n, false) {
				continue
			}
			return op{K: kAllocU, C: c, Size: g.pickSize(n)}, true
		case x < 58: // free
			if s, ok := g.pickFree(c); ok {
				return op{K: kFree, C: c, Buf: s}, true
			}
		case x < 66: // remap a page-aligned sub-range of a live buffer
			s, ok := g.liveBufOf(c)
			if !ok {
				continue
			}
			b := w.bufs[s]
			off := r.Intn(len(b.pages))
			n := 1 + r.Intn(len(b.pages)-off)
			dev := 1 + r.Intn(w.numGPU())
			if !w.canTake(dev, n, true) {
				continue
			}
			size := uint64(n) * w.ps
			if r.Chance(1, 3) {
				size -= uint64(r.Intn(int(w.ps)))
			}
			return op{K: kRemap, C: c, Buf: s, Off: uint64(off), Size: size, Dev: dev}, true
		case x < 73: // distribute a whole buffer
			if w.sc.Buddy {
				continue
			}
			s, ok := g.liveBufOf(c)
			if !ok {
				continue
			}
			b := w.bufs[s]
			gp := g.realGPUs()
			perm := r.Perm(len(gp))
			k := 1 + r.Intn(len(gp))
			var devs []int
			fits := true
			for i := 0; i < k; i++ {
				devs = append(devs, gp[perm[i]])
				// the split is the implementation's business: demand room
				// for the whole buffer on every GPU named
				if k > 1 && !w.canTake(gp[perm[i]], len(b.pages), false) {
					fits = false
				}
			}
			if !fits {
				continue
			}
			return op{K: kDist, C: c, Buf: s, Devs: devs}, true
		case x < 81: // select a device (GPU or unified)
			dev := 1 + r.Intn(len(w.devs)-1)
			return op{K: kSelect, C: c, Dev: dev}, true
		case x < 84:
			if g.distinctPIDs() < w.sc.MaxProc {
				return op{K: kInit, C: len(w.ctxs)}, true
			}
		case x < 87:
			if len(w.ctxs) < 6 {
				return op{K: kInitPID, C: len(w.ctxs), From: c}, true
			}
		case x < 90:
			nUni := len(w.devs) - 1 - w.numGPU()
			if nUni < 2 {
				gp := g.realGPUs()
				perm := r.Perm(len(gp))
				k := 1 + r.Intn(len(gp))
				var devs []int
				for i := 0; i < k; i++ {
					devs = append(devs, gp[perm[i]])
				}
				return op{K: kUnify, C: c, Devs: devs}, true
			}
		default: // fill a GPU to the brim, then free k / re-allocate k
			dev := 1 + r.Intn(w.numGPU())
			if w.devs[dev].inexact {
				continue
			}
			f := w.freePages(dev)
			if f+6 > remaining/2 {
				continue
			}
			g.pending = append(g.pending, op{K: kSelect, C: c, Dev: dev})
			for i := 0; i < f; i++ {
				g.pending = append(g.pending, op{K: kAlloc, C: c, Size: g.pickSize(1)})
			}
			g.pending = append(g.pending, op{K: kProbe, C: c})
			g.refill = &refillPlan{c: c, dev: dev}
			o := g.pending[0]
			g.pending = g.pending[1:]
			return o, true
		}
	}
	// nothing else feasible: start a new context sharing a process
	if len(w.ctxs) < 8 {
		return op{K: kInitPID, C: len(w.ctxs), From: 0}, true
	}
	return op{}, false
}

// refillStep: the device is full. Free buffers of the context that live
// wholly on the device (k pages in total), then allocate k single pages
// again (all must succeed), then probe (must be refused).
func (g *generator) refillStep() (op, bool) {
	w := g.w
	p := g.refill
	g.refill = nil
	if w.freePages(p.dev) != 0 || w.ctxs[p.c].cur != p.dev {
		return op{}, false
	}
	var cand []int
	for _, s := range w.ctxs[p.c].bufs {
		b := w.bufs[s]
		if !g.freeable(b) {
			continue
		}
		on := true
		for _, pg := range b.pages {
			o := w.phys[pg.paddr]
			if o == nil || o.dev != p.dev || (o.blk != nil && o.blk.npages > 1) {
				on = false
			}
		}
		if on {
			cand = append(cand, s)
		}
	}
	if len(cand) == 0 {
		return op{}, false
	}
	want := 1 + g.r.Intn(6)
	switch w.sc.FreeMode {
	case "lifo":
		for i, j := 0, len(cand)-1; i < j; i, j = i+1, j-1 {
			cand[i], cand[j] = cand[j], cand[i]
		}
	case "random":
		perm := g.r.Perm(len(cand))
		nc := make([]int, len(cand))
		for i, q := range perm {
			nc[i] = cand[q]
		}
		cand = nc
	}
	k := 0
	for _, s := range cand {
		if k >= want {
			break
		}
		g.pending = append(g.pending, op{K: kFree, C: p.c, Buf: s})
		k += len(w.bufs[s].pages)
	}
	for i := 0; i < k; i++ {
		g.pending = append(g.pending, op{K: kAlloc, C: p.c, Size: g.pickSize(1)})
	}
	g.pending = append(g.pending, op{K: kProbe, C: p.c})
	w.rec.Count("free_k_reallocate_k_episodes", 1)
	o := g.pending[0]
	g.pending = g.pending[1:]
	return o, true
}
