package main

import (
	"fmt"

	"verifharness/vlib"
)

// ---------------------------------------------------------------------------
// seeded history generator. It consults only the monitor's shadow (never the
// driver's internals) and keeps every request within device capacity by the
// monitor's own accounting.

var gpuPageChoices = []int{16, 16, 17, 24, 32, 32, 48, 64, 100, 128, 256}
var gpuPageChoicesPow2 = []int{16, 16, 32, 32, 64, 128, 256}

// flavour "unified": 2-4 roomy GPUs, unified devices created right after the
// first Init, operations aimed at them. "unified-small": the same over GPUs
// of a few pages, so that full member GPUs and full unified devices are the
// normal state.
var gpuPageChoicesRoomy = []int{32, 48, 64, 64, 100, 128, 256}
var gpuPageChoicesRoomyPow2 = []int{32, 64, 64, 128, 256}
var gpuPageChoicesSmall = []int{4, 6, 8, 8, 12, 16, 17}
var gpuPageChoicesSmallPow2 = []int{4, 8, 8, 16}

func genScenario(r *vlib.PRNG, idx int, buddy bool, steps int) *scenario {
	sc := &scenario{Name: fmt.Sprintf("h%d", idx), Buddy: buddy}
	if buddy {
		sc.Name = fmt.Sprintf("b%d", idx)
		sc.Log2Page = 12
	} else {
		sc.Log2Page = uint64(12 + r.Intn(5))
	}
	switch idx % 8 {
	case 1, 5:
		sc.Focus = "unified"
	case 2:
		sc.Focus = "unified-small"
	}
	// a third of the histories contain page migrations (built with the fake
	// MMU / command processors; at least two GPUs)
	sc.Mig = idx%3 == 0
	n := 1 + r.Intn(4)
	if sc.Mig && n < 2 {
		n = 2 + r.Intn(3)
	}
	choices, choices2 := gpuPageChoices, gpuPageChoicesPow2
	switch sc.Focus {
	case "unified":
		n = 2 + r.Intn(3)
		choices, choices2 = gpuPageChoicesRoomy, gpuPageChoicesRoomyPow2
	case "unified-small":
		n = 2 + r.Intn(3)
		choices, choices2 = gpuPageChoicesSmall, gpuPageChoicesSmallPow2
	}
	for i := 0; i < n; i++ {
		if buddy {
			sc.GPUPages = append(sc.GPUPages, choices2[r.Intn(len(choices2))])
		} else {
			sc.GPUPages = append(sc.GPUPages, choices[r.Intn(len(choices))])
		}
	}
	sc.MaxProc = 1 + r.Intn(4)
	if r.Chance(1, 3) {
		sc.MaxProc = 1
	}
	// sibling flavour: 2-4 processes with 1-3 contexts each, created up front
	// in a seeded order; mostly single-page buffers, so that the processes'
	// virtual cursors advance together and buffers of different processes
	// start at the same virtual addresses
	if idx%4 == 1 {
		sc.Sib = true
		sc.MaxProc = 2 + r.Intn(3)
	}
	sc.Steps = steps/2 + r.Intn(steps+1)
	sc.FreeMode = []string{"lifo", "fifo", "random"}[r.Intn(3)]
	// The steering switches were introduced while two FreeMemory defects were
	// open (both repaired since); a quarter of the histories keep them so
	// that a regression there cannot mask everything else.
	if idx%4 == 3 {
		sc.Steer = steer{NoMultiPageFree: true, NoCrossPIDFree: true}
	}
	sc.GenSeed = r.Uint64() | 1
	return sc
}

type generator struct {
	w       *world
	r       *vlib.PRNG
	pending []op
	// after a fill episode: context and GPU to run the free-k / re-allocate-k
	// episode on
	refill *refillPlan
}

type refillPlan struct {
	c, dev int
	stage  int
	k      int
}

func (g *generator) distinctPIDs() int { return len(g.w.pids) }

func (g *generator) pickSize(n int) uint64 {
	ps := g.w.ps
	lo := uint64(n-1) * ps
	switch g.r.Intn(5) {
	case 0:
		return uint64(n) * ps // exact multiple
	case 1:
		return lo + 1 // one byte into the last page
	case 2:
		return uint64(n)*ps - 1
	case 3:
		if n == 1 {
			return 1
		}
		return lo + 1 + uint64(g.r.Intn(int(ps)))
	default:
		return lo + 1 + uint64(g.r.Intn(int(ps)))
	}
}

func (g *generator) pickPages() int {
	if g.w.sc.Sib && g.r.Chance(3, 5) {
		return 1
	}
	switch g.r.Intn(10) {
	case 0, 1, 2, 3:
		return 1
	case 4, 5:
		return 2
	case 6:
		return 3
	case 7:
		return 4 + g.r.Intn(2)
	case 8:
		return 1 + g.r.Intn(8)
	default:
		return 1
	}
}

// freeable: may buffer b be freed by this history's steering rules?
func (g *generator) freeable(b *bufSt) bool {
	w := g.w
	if !b.live {
		return false
	}
	if w.sc.Steer.NoMultiPageFree && len(b.pages) > 1 {
		return false
	}
	if w.sc.Steer.NoCrossPIDFree {
		for _, p := range b.pages {
			if w.lastWriter[p.vaddr] != b.pid {
				return false
			}
		}
	}
	return true
}

// bufsFor: the buffers context c may act on: its own, or (half of the time,
// two thirds in the sibling flavour) all buffers of its process, which
// includes those allocated through sibling contexts.
func (g *generator) bufsFor(c int) []int {
	w := g.w
	num := 1
	if w.sc.Sib {
		num = 2
	}
	if g.r.Chance(num, num+1) {
		return w.byPID[w.ctxs[c].pid]
	}
	return w.ctxs[c].bufs
}

func (g *generator) pickFree(c int) (int, bool) {
	w := g.w
	var cand []int
	for _, s := range g.bufsFor(c) {
		if g.freeable(w.bufs[s]) {
			cand = append(cand, s)
		}
	}
	if len(cand) == 0 {
		return 0, false
	}
	switch w.sc.FreeMode {
	case "lifo":
		return cand[len(cand)-1], true
	case "fifo":
		return cand[0], true
	}
	return cand[g.r.Intn(len(cand))], true
}

func (g *generator) liveBufOf(c int) (int, bool) {
	w := g.w
	var cand []int
	for _, s := range g.bufsFor(c) {
		if w.bufs[s].live {
			cand = append(cand, s)
		}
	}
	if len(cand) == 0 {
		return 0, false
	}
	return cand[g.r.Intn(len(cand))], true
}

func (g *generator) realGPUs() []int {
	var out []int
	for i := 1; i <= g.w.numGPU(); i++ {
		out = append(out, i)
	}
	return out
}

func (g *generator) unifiedDevs() []int {
	var out []int
	for _, d := range g.w.devs {
		if d.kind == devUnified {
			out = append(out, d.id)
		}
	}
	return out
}

func (g *generator) focused() bool { return g.w.sc.Focus != "" }

// pickTarget: a device id of any kind the API admits as a target: the CPU
// (device 0; SelectGPU / Remap / Distribute only check the id against the
// device list), an actual GPU, or a unified device.
func (g *generator) pickTarget(allowCPU bool) int {
	r := g.r
	uni := g.unifiedDevs()
	x := r.Intn(100)
	pUni, pCPU := 20, 8
	if g.focused() {
		pUni, pCPU = 58, 6
	}
	if len(uni) > 0 && x < pUni {
		return uni[r.Intn(len(uni))]
	}
	if allowCPU && x >= 100-pCPU {
		return 0
	}
	return 1 + r.Intn(g.w.numGPU())
}

// pickPagesFor: a page count for an operation aimed at dev. For a unified
// device of k members the interesting counts are those around multiples of k.
func (g *generator) pickPagesFor(dev int) int {
	k := g.w.kOf(dev)
	if k < 2 || g.r.Chance(1, 4) {
		return g.pickPages()
	}
	c := []int{1, k - 1, k, k + 1, 2*k - 1, 2 * k, 2*k + 1, 3*k + 1, 1 + g.r.Intn(3*k)}
	n := c[g.r.Intn(len(c))]
	if n < 1 {
		n = 1
	}
	return n
}

// someUnifiedOr: a unified device if one exists (for sizing buffers), else dev.
func (g *generator) someUnifiedOr(dev int) int {
	if uni := g.unifiedDevs(); len(uni) > 0 {
		return uni[g.r.Intn(len(uni))]
	}
	return dev
}

// genUnify: member list for CreateUnifiedGPU: distinct actual GPUs (the API
// rejects anything else), 1..all of them; focused flavours prefer >= 2.
func (g *generator) genUnify(c int) op {
	r := g.r
	gp := g.realGPUs()
	perm := r.Perm(len(gp))
	k := 1 + r.Intn(len(gp))
	if g.focused() && len(gp) >= 2 && !r.Chance(1, 10) {
		k = 2 + r.Intn(len(gp)-1)
	}
	var devs []int
	for i := 0; i < k; i++ {
		devs = append(devs, gp[perm[i]])
	}
	return op{K: kUnify, C: c, Devs: devs}
}

// remapRoom: may n pages be re-homed onto dev by one request?
//
//	safe:  yes whatever member GPU a unified device picks (every member has room)
//	tight: the unified device has room in total, but not every member has
func (g *generator) remapRoom(dev, n int) (safe, tight bool) {
	w := g.w
	d := w.devs[dev]
	if d.kind != devUnified {
		return w.canTake(dev, n, true), false
	}
	safe = true
	for _, m := range d.members {
		if !w.canTake(m, n, true) {
			safe = false
		}
	}
	if safe {
		return true, false
	}
	return false, !w.sc.Buddy && w.freePages(dev) >= n
}

// distList: the GPU list of a Distribute: any devices, in any order, with
// repetitions.
func (g *generator) distList() []int {
	r := g.r
	if !g.focused() && r.Bool() {
		// distinct actual GPUs
		gp := g.realGPUs()
		perm := r.Perm(len(gp))
		k := 1 + r.Intn(len(gp))
		var devs []int
		for i := 0; i < k; i++ {
			devs = append(devs, gp[perm[i]])
		}
		return devs
	}
	l := 2 + r.Intn(4)
	if r.Chance(1, 10) {
		l = 1
	}
	var devs []int
	for i := 0; i < l; i++ {
		if i > 0 && r.Chance(1, 6) {
			devs = append(devs, devs[r.Intn(len(devs))]) // explicit repetition
			continue
		}
		devs = append(devs, g.pickTarget(true))
	}
	return devs
}

// next returns the next step; remaining = steps left in the budget.
func (g *generator) next(remaining int) (op, bool) {
	w := g.w
	r := g.r
	if len(g.pending) > 0 {
		o := g.pending[0]
		g.pending = g.pending[1:]
		return o, true
	}
	if w.probeSucceeded {
		// a written-off page came back; keep probing until refused
		w.probeSucceeded = false
		return op{K: kProbe, C: w.lastProbeCtx}, true
	}
	if g.refill != nil {
		if o, ok := g.refillStep(); ok {
			return o, true
		}
	}
	if len(w.ctxs) == 0 && w.sc.Sib {
		// creation plan: process p's first context (Init) before its siblings
		// (InitWithExistingPID), otherwise any order
		np := w.sc.MaxProc
		left := make([]int, np) // contexts still to create per process
		first := make([]int, np)
		for p := range left {
			left[p] = 1 + r.Intn(3)
			first[p] = -1
		}
		left[r.Intn(np)] = 2 + r.Intn(2) // at least one process has a sibling
		nctx := 0
		var plan []op
		for {
			var open []int
			for p := range left {
				if left[p] > 0 {
					open = append(open, p)
				}
			}
			if len(open) == 0 || nctx >= 8 {
				break
			}
			p := open[r.Intn(len(open))]
			if first[p] < 0 {
				first[p] = nctx
				plan = append(plan, op{K: kInit, C: nctx})
			} else {
				plan = append(plan, op{K: kInitPID, C: nctx, From: first[p]})
			}
			left[p]--
			nctx++
		}
		g.pending = append(g.pending, plan[1:]...)
		if g.focused() {
			g.pending = append(g.pending, g.genUnify(0))
		}
		return plan[0], true
	}
	if len(w.ctxs) == 0 {
		if g.focused() {
			// unified devices first: 1-3 of them (member lists may overlap)
			nu := 1 + r.Intn(3)
			for i := 0; i < nu; i++ {
				g.pending = append(g.pending, g.genUnify(0))
			}
		}
		return op{K: kInit, C: 0}, true
	}
	// operation weights (cumulative, out of 100)
	//            alloc allocu free remap dist select init initpid unify  (rest: fill episode)
	wt := [...]int{34, 38, 58, 66, 73, 81, 84, 87, 90}
	if g.focused() {
		wt = [...]int{26, 29, 43, 64, 77, 88, 90, 93, 94}
	}
	for attempt := 0; attempt < 40; attempt++ {
		c := r.Intn(len(w.ctxs))
		cs := w.ctxs[c]
		if w.sc.Mig {
			// migration histories: page migrations, and more unified-memory
			// buffers (the only pages the MMU ever migrates)
			switch y := r.Intn(100); {
			case y < 16:
				if o, ok := g.genMigrate(c); ok {
					return o, true
				}
			case y < 25:
				n := g.pickPages()
				if w.canTake(1, n, false) {
					return op{K: kAllocU, C: c, Size: g.pickSize(n)}, true
				}
			}
		}
		x := r.Intn(100)
		switch {
		case x < wt[0]: // alloc on the context's current device
			n := g.pickPagesFor(cs.cur)
			if g.focused() && w.devs[cs.cur].kind != devUnified && r.Bool() {
				// buffers sized for later remaps onto a unified device
				n = g.pickPagesFor(g.someUnifiedOr(cs.cur))
			}
			if !w.canTake(cs.cur, n, false) {
				n = 1
				if !w.canTake(cs.cur, 1, false) {
					continue
				}
			}
			return op{K: kAlloc, C: c, Size: g.pickSize(n)}, true
		case x < wt[1]: // unified-memory allocation (always placed on GPU 1)
			n := g.pickPages()
			if !w.canTake(1, n, false) {
				continue
			}
			return op{K: kAllocU, C: c, Size: g.pickSize(n)}, true
		case x < wt[2]: // free
			if s, ok := g.pickFree(c); ok {
				return op{K: kFree, C: c, Buf: s}, true
			}
		case x < wt[3]: // remap a page-aligned sub-range of a live buffer
			dev := g.pickTarget(true)
			want := g.pickPagesFor(dev)
			// a live buffer of the context with at least `want` pages if there is one
			var big, all []int
			for _, s := range g.bufsFor(c) {
				if b := w.bufs[s]; b.live {
					all = append(all, s)
					if len(b.pages) >= want {
						big = append(big, s)
					}
				}
			}
			if len(all) == 0 {
				continue
			}
			var s, off, n int
			if len(big) > 0 && w.kOf(dev) >= 2 {
				s = big[r.Intn(len(big))]
				n = want
				off = r.Intn(len(w.bufs[s].pages) - n + 1)
			} else if w.kOf(dev) >= 2 && g.focused() && !w.sc.Buddy && r.Chance(2, 3) {
				// no buffer of the context is long enough: allocate one of
				// exactly `want` pages and re-home it next (room for both on
				// every GPU involved, whatever the driver picks)
				if !w.canTake(cs.cur, want, false) {
					continue
				}
				if safe, _ := g.remapRoom(dev, 2*want); !safe {
					continue
				}
				g.pending = append(g.pending, op{K: kRemap, C: c, Buf: len(w.bufs), Off: 0, Size: uint64(want) * w.ps, Dev: dev})
				return op{K: kAlloc, C: c, Size: g.pickSize(want)}, true
			} else {
				s = all[r.Intn(len(all))]
				b := w.bufs[s]
				off = r.Intn(len(b.pages))
				n = 1 + r.Intn(len(b.pages)-off)
			}
			safe, tight := g.remapRoom(dev, n)
			if !safe && !(tight && r.Chance(1, 6)) {
				continue
			}
			size := uint64(n) * w.ps
			if r.Chance(1, 3) {
				size -= uint64(r.Intn(int(w.ps)))
			}
			return op{K: kRemap, C: c, Buf: s, Off: uint64(off), Size: size, Dev: dev, Tight: !safe}, true
		case x < wt[4]: // distribute a whole buffer
			if w.sc.Buddy {
				continue
			}
			s, ok := g.liveBufOf(c)
			if !ok {
				continue
			}
			b := w.bufs[s]
			devs := g.distList()
			fits := true
			if len(devs) > 1 {
				// the split is the implementation's business: demand room for
				// the whole buffer on every GPU that can be reached through
				// the list
				for _, dv := range devs {
					for _, m := range w.physOf(dv) {
						if !w.canTake(m, len(b.pages), false) {
							fits = false
						}
					}
				}
			}
			if !fits {
				continue
			}
			return op{K: kDist, C: c, Buf: s, Devs: devs}, true
		case x < wt[5]: // select a device (CPU, GPU or unified)
			return op{K: kSelect, C: c, Dev: g.pickTarget(true)}, true
		case x < wt[6]:
			if g.distinctPIDs() < w.sc.MaxProc {
				return op{K: kInit, C: len(w.ctxs)}, true
			}
		case x < wt[7]:
			if len(w.ctxs) < 6 {
				return op{K: kInitPID, C: len(w.ctxs), From: c}, true
			}
		case x < wt[8]:
			maxUni := 2
			if g.focused() {
				maxUni = 3
			}
			if len(g.unifiedDevs()) < maxUni {
				return g.genUnify(c), true
			}
		default: // fill a GPU or a unified device to the brim, then free k / re-allocate k
			dev := g.pickTarget(false)
			if w.sc.Mig && r.Bool() {
				// the GPU that hosts a migrated buffer of this context, so
				// that the free-k / re-allocate-k episode returns frames
				// handed out by a migration
				for _, s := range cs.bufs {
					if b := w.bufs[s]; b.live && w.placementOf(b) == kMigrate+":gpu" {
						if h := w.hostOf(b.pages[0]); h >= 1 {
							dev = h
						}
					}
				}
			}
			if w.devs[dev].inexact {
				continue
			}
			f := w.freePages(dev)
			if f+6 > remaining/2 {
				continue
			}
			g.pending = append(g.pending, op{K: kSelect, C: c, Dev: dev})
			for f > 0 {
				// single pages, on a unified device now and then a few pages at once
				n := 1
				if w.devs[dev].kind == devUnified && r.Chance(1, 4) {
					n = 1 + r.Intn(min(f, 5))
				}
				g.pending = append(g.pending, op{K: kAlloc, C: c, Size: g.pickSize(n)})
				f -= n
			}
			g.pending = append(g.pending, op{K: kProbe, C: c})
			g.refill = &refillPlan{c: c, dev: dev}
			o := g.pending[0]
			g.pending = g.pending[1:]
			return o, true
		}
	}
	// nothing else feasible: start a new context sharing a process
	if len(w.ctxs) < 8 {
		return op{K: kInitPID, C: len(w.ctxs), From: 0}, true
	}
	return op{}, false
}

// refillStep: the device is full. Free buffers of the context that live
// wholly on the device (k pages in total), then allocate k single pages
// again (all must succeed), then probe (must be refused).
func (g *generator) refillStep() (op, bool) {
	w := g.w
	p := g.refill
	g.refill = nil
	if w.freePages(p.dev) != 0 || w.ctxs[p.c].cur != p.dev {
		return op{}, false
	}
	var cand []int
	for _, s := range w.ctxs[p.c].bufs {
		b := w.bufs[s]
		if !g.freeable(b) {
			continue
		}
		on := true
		for _, pg := range b.pages {
			o := w.phys[pg.paddr]
			if o == nil || !contains(w.physOf(p.dev), o.dev) || (o.blk != nil && o.blk.npages > 1) {
				on = false
			}
		}
		if on {
			cand = append(cand, s)
		}
	}
	if len(cand) == 0 {
		return op{}, false
	}
	want := 1 + g.r.Intn(6)
	switch w.sc.FreeMode {
	case "lifo":
		for i, j := 0, len(cand)-1; i < j; i, j = i+1, j-1 {
			cand[i], cand[j] = cand[j], cand[i]
		}
	case "random":
		perm := g.r.Perm(len(cand))
		nc := make([]int, len(cand))
		for i, q := range perm {
			nc[i] = cand[q]
		}
		cand = nc
	}
	if w.sc.Mig {
		// buffers placed by a migration first
		var first, rest []int
		for _, s := range cand {
			if w.placementOf(w.bufs[s]) == kMigrate+":gpu" {
				first = append(first, s)
			} else {
				rest = append(rest, s)
			}
		}
		cand = append(first, rest...)
	}
	k := 0
	for _, s := range cand {
		if k >= want {
			break
		}
		g.pending = append(g.pending, op{K: kFree, C: p.c, Buf: s})
		k += len(w.bufs[s].pages)
		if pl := w.placementOf(w.bufs[s]); pl == kMigrate+":gpu" || pl == "mixed" {
			// counted when planned; the frees and re-allocations follow at once
			w.cov("refill-frees-a-buffer|placed-by=" + pl)
		}
	}
	for i := 0; i < k; i++ {
		g.pending = append(g.pending, op{K: kAlloc, C: p.c, Size: g.pickSize(1)})
	}
	g.pending = append(g.pending, op{K: kProbe, C: p.c})
	w.rec.Count("free_k_reallocate_k_episodes", 1)
	o := g.pending[0]
	g.pending = g.pending[1:]
	return o, true
}

func contains(l []int, x int) bool {
	for _, y := range l {
		if y == x {
			return true
		}
	}
	return false
}
