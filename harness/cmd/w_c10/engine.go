package main

import (
	"fmt"
	"strings"

	"github.com/sarchlab/mgpusim/v4/amd/driver"

	"verifharness/vlib"
	"verifharness/vlib/drvkit"
)

// engineCase: the part of the buffer bookkeeping that only runs inside the
// driver's command processing (Context.removeFreedBuffers is called when a
// device-to-host copy needs an L2 flush). One process, single-page buffers:
//
//	allocate Pre buffers; launch a kernel (fake command processors answer);
//	allocate Post buffers; free the buffers listed in Free; copy buffer Copy
//	back to the host.
//
// The driver is ticked on the monitor's goroutine, so a panic is contained.
type engineCase struct {
	Pre  int   `json:"pre"`
	Post int   `json:"post"`
	Free []int `json:"free"`
	Copy int   `json:"copy"`
	GPUs int   `json:"gpus"`
}

func genEngineCase(r *vlib.PRNG, idx int) *scenario {
	e := &engineCase{Pre: 1 + r.Intn(4), Post: r.Intn(5), GPUs: 1 + r.Intn(2)}
	n := e.Pre + e.Post
	e.Copy = r.Intn(n)
	for i := 0; i < n; i++ {
		if i != e.Copy && r.Chance(2, 5) {
			e.Free = append(e.Free, i)
		}
	}
	if r.Bool() { // free in reverse order
		for i, j := 0, len(e.Free)-1; i < j; i, j = i+1, j-1 {
			e.Free[i], e.Free[j] = e.Free[j], e.Free[i]
		}
	}
	return &scenario{Name: fmt.Sprintf("e%d", idx), Log2Page: 12, GPUPages: []int{64, 64}[:e.GPUs], Engine: e}
}

func runEngineCase(rec vlib.Recorder, sc *scenario) {
	rec.Eval()
	rec.Count("engine_cases", 1)
	e := sc.Engine
	ps := uint64(1) << sc.Log2Page
	var props []driver.DeviceProperties
	for _, p := range sc.GPUPages {
		props = append(props, driver.DeviceProperties{CUCount: 4, DRAMSize: uint64(p) * ps})
	}
	rig := drvkit.NewRig(drvkit.Options{Log2Page: sc.Log2Page, GPUs: props, Connected: true})
	d := rig.Driver
	wit := func(extra map[string]any) map[string]any {
		m := map[string]any{"scenario": sc}
		for k, v := range extra {
			m[k] = v
		}
		return m
	}
	type appBuf struct {
		ptr  driver.Ptr
		live bool
	}
	var bufs []appBuf
	var ctx *driver.Context
	var q *driver.CommandQueue
	stage := "setup"
	pv, st := call(func() {
		ctx = d.Init()
		for i := 0; i < e.Pre; i++ {
			bufs = append(bufs, appBuf{d.AllocateMemory(ctx, 64), true})
		}
		q = d.CreateCommandQueue(ctx)
		d.EnqueueLaunchKernel(q, drvkit.TinyKernel(), [3]uint32{64, 1, 1}, [3]uint16{64, 1, 1}, &drvkit.TinyArgs{})
	})
	if pv != nil {
		rec.Violation("C10|crash|engine-"+stage+"|"+panicClass(pv), fmt.Sprintf("driver panicked during %s: %v", stage, pv), wit(map[string]any{"stack": trimStack(st)}))
		return
	}
	stage = "kernel launch"
	n, livelock, pv, st := rig.RunDriver(200000)
	rec.Count("engine_events", n)
	if pv != nil || livelock {
		rec.Violation("C10|crash|engine-launch|"+panicClass(pv), fmt.Sprintf("driver panicked/livelocked (%v) during %s: %v", livelock, stage, pv), wit(map[string]any{"stack": trimStack(st)}))
		return
	}
	if q.NumCommand() != 0 || len(rig.CP.Launches) != 1 {
		rec.Inconclusive(fmt.Sprintf("%s: kernel launch did not complete against the fake command processor (%d commands left, %d launches seen)", sc.Name, q.NumCommand(), len(rig.CP.Launches)))
		return
	}
	pv, st = call(func() {
		for i := 0; i < e.Post; i++ {
			bufs = append(bufs, appBuf{d.AllocateMemory(ctx, 64), true})
		}
		for _, i := range e.Free {
			if err := d.FreeMemory(ctx, bufs[i].ptr); err != nil {
				panic(err)
			}
			bufs[i].live = false
		}
		dst := make([]byte, 16)
		d.EnqueueMemCopyD2H(q, dst, bufs[e.Copy].ptr)
	})
	if pv != nil {
		rec.Violation("C10|crash|engine-alloc-free|"+panicClass(pv), fmt.Sprintf("driver panicked in allocate/free: %v", pv), wit(map[string]any{"stack": trimStack(st)}))
		return
	}
	rec.Count("engine_frees", int64(len(e.Free)))
	n, livelock, pv, st = rig.RunDriver(200000)
	rec.Count("engine_events", n)
	if pv != nil {
		key := "C10|crash|copy-after-frees|" + panicClass(pv)
		what := fmt.Sprintf("driver panicked while processing a device-to-host copy after %d frees: %v", len(e.Free), pv)
		if strings.Contains(st, "removeFreedBuffers") {
			key = "C10|crash|removeFreedBuffers-deletes-while-ranging"
			what += " (Context.removeFreedBuffers deletes from the slice it is ranging over; with two freed buffers of which one is the last element the re-slice runs past the shrunk length)"
		}
		rec.Violation(key, what, wit(map[string]any{"panic": fmt.Sprint(pv), "stack": trimStack(st)}))
		return
	}
	if livelock || q.NumCommand() != 0 {
		rec.Inconclusive(fmt.Sprintf("%s: copy did not complete against the fake command processor", sc.Name))
		return
	}
	rec.Count("engine_cases_completed", 1)
	if rig.CP.Counts["*protocol.FlushReq"] > 0 {
		rec.Count("engine_cases_with_flush", 1)
	}
	// bookkeeping afterwards: every live application buffer is still listed
	// and not marked freed; page table agrees.
	vb := ctx.VerifBuffers()
	for i, b := range bufs {
		_, found := rig.PageTable.Find(ctx.VerifPID(), uint64(b.ptr))
		if found != b.live {
			rec.Violation(fmt.Sprintf("C10|engine|page-mapped=%v-live=%v", found, b.live),
				fmt.Sprintf("after the copy, application buffer %d (live=%v) mapped=%v", i, b.live, found), wit(nil))
			return
		}
		if !b.live {
			continue
		}
		ok := false
		for _, v := range vb {
			if v.Ptr == b.ptr && !v.Freed {
				ok = true
			}
		}
		if !ok {
			rec.Violation("C10|engine|live-buffer-dropped-from-context",
				fmt.Sprintf("after removeFreedBuffers the live buffer %d (0x%x) is no longer listed by its context", i, uint64(b.ptr)),
				wit(map[string]any{"driver": fmt.Sprintf("%+v", vb)}))
			return
		}
	}
	freedLeft := 0
	for _, v := range vb {
		if v.Freed {
			freedLeft++
		}
	}
	if freedLeft > 0 {
		// not required by the property; recorded as observed
		rec.Count("engine_freed_entries_left_after_cleanup", int64(freedLeft))
	}
	rec.Distinct("engine_shape", fmt.Sprintf("%d/%d/%v/%d", e.Pre, e.Post, e.Free, e.Copy))
}
