package main

import (
	"fmt"
	"sort"

	"github.com/sarchlab/mgpusim/v4/amd/protocol"
)

// ---------------------------------------------------------------------------
// page-migration preparation (Driver.preparePageForMigration) as a history
// step. The request is the one the akita MMU would send: pages of one
// process, all hosted by the same actual GPU, carrying the Unified flag,
// requested by other GPUs; CurrAccessingGPUs = the GPUs that have hosted the
// pages so far. The handshake runs on the rig's serial engine against fake
// command processors and a fake MMU (drvkit, Options.Migration).

const migrateEventLimit = 200000

// hostOf: the actual GPU that hosts the page according to the shadow, or -1.
func (w *world) hostOf(p *pageSt) int {
	if !p.seen {
		return -1
	}
	if o := w.phys[p.paddr]; o != nil && w.devs[o.dev].kind == devGPU {
		return o.dev
	}
	return -1
}

// checkMigrate applies the MMU's contract (and the capacity rule) to a
// migrate step; "" = fine. host is the GPU hosting all the pages.
func (w *world) checkMigrate(o op) (host int, why string) {
	if !w.sc.Mig || w.rig.MMU == nil {
		return 0, "the history was not built with the migration peers"
	}
	if o.C < 0 || o.C >= len(w.ctxs) || len(o.Migs) == 0 {
		return 0, "no such context / no pages"
	}
	pid := w.ctxs[o.C].pid
	host = -1
	seen := map[[2]int]bool{}
	perDev := map[int]int{}
	for _, m := range o.Migs {
		if m.Buf < 0 || m.Buf >= len(w.bufs) {
			return 0, "no such buffer"
		}
		b := w.bufs[m.Buf]
		if !b.live || b.pid != pid || m.Page < 0 || m.Page >= len(b.pages) {
			return 0, "page is not a live page of the context's process"
		}
		if seen[[2]int{m.Buf, m.Page}] {
			return 0, "page named twice"
		}
		seen[[2]int{m.Buf, m.Page}] = true
		p := b.pages[m.Page]
		if !p.unified {
			return 0, "page does not carry the Unified flag (the MMU never migrates it)"
		}
		h := w.hostOf(p)
		if h < 0 || (host >= 0 && h != host) {
			return 0, "pages are not hosted by one and the same actual GPU"
		}
		host = h
		if m.Dev < 1 || m.Dev > w.numGPU() || m.Dev == host {
			return 0, "requester is not another actual GPU"
		}
		perDev[m.Dev]++
	}
	for d, n := range perDev {
		if !w.canTake(d, n, false) {
			return 0, "destination GPU has not the room"
		}
	}
	return host, ""
}

func (w *world) execMigrate(o op) bool {
	host, why := w.checkMigrate(o)
	if why != "" {
		// only a replayed / hand-written history can get here
		w.rec.Inconclusive(fmt.Sprintf("%s: migrate step %d is outside the MMU's contract: %s", w.sc.Name, len(w.done)-1, why))
		w.failed = true
		return false
	}
	rig := w.rig
	pid := w.ctxs[o.C].pid
	req := rig.NewMigrationReq()
	req.PID = pid
	req.CurrPageHostGPU = uint64(host)
	req.RespondToTop = len(w.done)%2 == 0
	acc := map[int]bool{host: true}
	dests := map[int]bool{}
	origin := map[string]bool{}
	back := false
	for _, m := range o.Migs {
		p := w.bufs[m.Buf].pages[m.Page]
		req.MigrationInfo.GPUReqToVAddrMap[uint64(m.Dev)] = append(req.MigrationInfo.GPUReqToVAddrMap[uint64(m.Dev)], p.vaddr)
		for _, h := range p.hosts {
			acc[h] = true
			if h == m.Dev {
				back = true
			}
		}
		dests[m.Dev] = true
		origin[p.classBy] = true
	}
	for g := range acc {
		req.CurrAccessingGPUs = append(req.CurrAccessingGPUs, uint64(g))
	}
	sort.Slice(req.CurrAccessingGPUs, func(i, j int) bool { return req.CurrAccessingGPUs[i] < req.CurrAccessingGPUs[j] })

	nRep, nCopy := len(rig.MMU.Replies), len(rig.CP.Copies)
	n, livelock, pv, st := rig.Migrate(req, migrateEventLimit)
	w.rec.Count("migrate_engine_events", n)
	if pv != nil {
		w.crash(o, pv, st)
		return false
	}
	desc := map[string]any{"host_gpu": host, "accessing_gpus": req.CurrAccessingGPUs, "requests": req.MigrationInfo.GPUReqToVAddrMap}
	if livelock || len(rig.MMU.Replies) != nRep+1 {
		w.viol("migrate-handshake-not-completed|"+w.alloc(),
			fmt.Sprintf("page migration of %d pages from GPU %d: the driver sent %d replies to the MMU (event bound hit: %v) although every command processor acknowledged every request",
				len(o.Migs), host, len(rig.MMU.Replies)-nRep, livelock), desc)
		return false
	}
	if len(rig.CP.Unknown) > 0 || len(rig.MMU.Unknown) > 0 {
		w.viol("migrate-unexpected-message|"+w.alloc(), fmt.Sprintf("unexpected messages during the handshake: CPs %v, MMU %v", rig.CP.Unknown, rig.MMU.Unknown), desc)
		return false
	}
	// the reply names exactly the pages asked for
	rsp := rig.MMU.Replies[nRep]
	want := map[uint64]int{}
	for _, m := range o.Migs {
		want[w.bufs[m.Buf].pages[m.Page].vaddr]++
	}
	for _, va := range rsp.VAddr {
		want[va]--
	}
	for va, c := range want {
		if c != 0 {
			w.viol("migrate-reply-names-other-pages|"+w.alloc(), fmt.Sprintf("the driver's reply to the MMU lists %v; page 0x%x is off by %d", rsp.VAddr, va, c), desc)
			return false
		}
	}

	// page copies the destination command processors were asked for, by
	// source frame (frames of live pages are pairwise distinct)
	type copyReq struct {
		gpu int
		m   *protocol.PageMigrationReqToCP
	}
	copies := map[uint64][]copyReq{}
	for i := nCopy; i < len(rig.CP.Copies); i++ {
		c := rig.CP.Copies[i]
		copies[c.ToReadFromPhysicalAddress] = append(copies[c.ToReadFromPhysicalAddress], copyReq{rig.CP.CopyGPU[i], c})
	}
	if len(rig.CP.Copies)-nCopy != len(o.Migs) {
		w.viol("migrate-copy-count|"+w.alloc(), fmt.Sprintf("%d pages migrate, the command processors were asked for %d page copies", len(o.Migs), len(rig.CP.Copies)-nCopy), desc)
		return false
	}

	w.cov("migrate|" + pclass(len(o.Migs), 1))
	w.cov(fmt.Sprintf("migrate|requesters=%d", min(len(dests), 3)))
	for k := range origin {
		w.cov("migrate|over-pages-placed-by=" + k)
	}
	if back {
		w.cov("migrate|back-to-a-gpu-that-hosted-the-page-before")
	}
	w.cov("migrate|allocator=" + w.alloc())
	if w.bufs[o.Migs[0].Buf].ctx == o.C {
		w.cov("migrate|process-named-via=allocating-context")
	} else {
		w.cov("migrate|process-named-via=sibling")
	}
	w.rec.Count("migrated_pages", int64(len(o.Migs)))

	var fresh []uint64
	for _, m := range o.Migs {
		b := w.bufs[m.Buf]
		p := b.pages[m.Page]
		old := p.paddr
		p.class, p.req, p.classBy, p.target = []int{m.Dev}, []int{m.Dev}, kMigrate, "gpu"
		p.unified = true
		p.hosts = append(p.hosts, m.Dev)
		w.lastWriter[p.vaddr] = b.pid
		pd := map[string]any{"pid": b.pid, "buffer": b.serial, "page_index": m.Page, "vaddr": p.vaddr, "old_paddr": old, "host_gpu": host, "destination_gpu": m.Dev}
		// the copy the destination GPU was asked to perform
		cs := copies[old]
		if len(cs) != 1 {
			w.viol("migrate-copy-source-wrong|"+w.alloc(),
				fmt.Sprintf("page 0x%x lived at PAddr 0x%x on GPU %d: %d page copies read from that frame (expected 1)", p.vaddr, old, host, len(cs)), pd)
			return false
		}
		c := cs[0]
		pd["copy"] = fmt.Sprintf("gpu %d: read 0x%x write 0x%x size %d", c.gpu, c.m.ToReadFromPhysicalAddress, c.m.ToWriteToPhysicalAddress, c.m.PageSize)
		if c.gpu != m.Dev || c.m.PageSize != w.ps || host-1 >= len(rig.CP.PMCPorts) || c.m.DestinationPMCPort != rig.CP.PMCPorts[host-1] {
			w.viol("migrate-copy-request-wrong|"+w.alloc(),
				fmt.Sprintf("page 0x%x migrates from GPU %d to GPU %d: the copy went to GPU %d with page size %d and PMC port %v", p.vaddr, host, m.Dev, c.gpu, c.m.PageSize, c.m.DestinationPMCPort), pd)
			return false
		}
		if !w.lookup(b, m.Page, true, kMigrate) {
			return false
		}
		// the frame the allocator handed out (the copy's destination) is the
		// one the page table must show from now on
		pg, found := rig.PageTable.Find(b.pid, p.vaddr)
		if found && pg.PAddr != c.m.ToWriteToPhysicalAddress {
			pd["page"] = fmt.Sprintf("%+v", pg)
			w.viol("page-table-disagrees-with-allocator|after-migrate|"+w.alloc(),
				fmt.Sprintf("page 0x%x migrated to GPU %d: the allocator handed out frame 0x%x (the page copy writes there), the page table maps the page to 0x%x (DeviceID %d)",
					p.vaddr, m.Dev, c.m.ToWriteToPhysicalAddress, pg.PAddr, pg.DeviceID), pd)
			return false
		}
		if p.paddr == old {
			w.viol("migrate-left-the-page-on-its-frame|"+w.alloc(), fmt.Sprintf("page 0x%x still maps to frame 0x%x after its migration to GPU %d", p.vaddr, old, m.Dev), pd)
			return false
		}
		if found && !pg.Unified {
			w.rec.Count("observed|migrated-page-without-unified-flag", 1)
		}
		fresh = append(fresh, p.paddr)
	}
	w.setBlocks(fresh, false)
	return w.walk(kMigrate)
}

// ---------------------------------------------------------------------------
// generator side

// genMigrate builds a migrate step for context c, or reports that none is
// possible.
func (g *generator) genMigrate(c int) (op, bool) {
	w, r := g.w, g.r
	if !w.sc.Mig || w.numGPU() < 2 {
		return op{}, false
	}
	pid := w.ctxs[c].pid
	type cand struct{ buf, page int }
	byHost := map[int][]cand{}
	var hosts []int
	for _, s := range w.byPID[pid] {
		b := w.bufs[s]
		if !b.live {
			continue
		}
		for i, p := range b.pages {
			if !p.unified {
				continue
			}
			if h := w.hostOf(p); h >= 1 {
				if len(byHost[h]) == 0 {
					hosts = append(hosts, h)
				}
				byHost[h] = append(byHost[h], cand{s, i})
			}
		}
	}
	if len(hosts) == 0 {
		return op{}, false
	}
	sort.Ints(hosts)
	host := hosts[r.Intn(len(hosts))]
	cs := byHost[host]
	// shape: the MMU's own (one page, one requester) most of the time
	nPages, nReq := 1, 1
	switch x := r.Intn(10); {
	case x < 5:
	case x < 8:
		nPages = 2 + r.Intn(3)
	default:
		nPages = 2 + r.Intn(4)
		nReq = 2
	}
	if nPages > len(cs) {
		nPages = len(cs)
	}
	if w.numGPU() < 3 || nPages < 2 {
		nReq = 1
	}
	perm := r.Perm(len(cs))
	// prefer consecutive pages of one buffer now and then
	if nPages > 1 && r.Bool() {
		start := r.Intn(len(cs))
		perm = perm[:0]
		for i := 0; i < len(cs); i++ {
			perm = append(perm, (start+i)%len(cs))
		}
	}
	var others []int
	for d := 1; d <= w.numGPU(); d++ {
		if d != host {
			others = append(others, d)
		}
	}
	dperm := r.Perm(len(others))
	var dsts []int
	for i := 0; i < nReq; i++ {
		dsts = append(dsts, others[dperm[i]])
	}
	o := op{K: kMigrate, C: c}
	perDev := map[int]int{}
	for i := 0; i < nPages; i++ {
		cd := cs[perm[i]]
		dev := dsts[i%len(dsts)]
		if nReq == 1 && i == 0 {
			// back to a GPU that hosted the page before, when there is one
			p := w.bufs[cd.buf].pages[cd.page]
			if len(p.hosts) > 1 && r.Chance(2, 3) {
				if prev := p.hosts[len(p.hosts)-2]; prev != host {
					dsts[0] = prev
					dev = prev
				}
			}
		}
		o.Migs = append(o.Migs, migPart{Buf: cd.buf, Page: cd.page, Dev: dev})
		perDev[dev]++
	}
	for d, n := range perDev {
		if !w.canTake(d, n, false) {
			return op{}, false
		}
	}
	return o, true
}
