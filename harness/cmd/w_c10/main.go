// w_c10: the real amd/driver.Driver allocation API (AllocateMemory,
// AllocateUnifiedMemory, FreeMemory, Remap, Distribute, CreateUnifiedGPU,
// SelectGPU, Init/InitWithExistingPID) under seeded histories over 1-4
// processes and 1-4 tiny GPUs, judged after EVERY call through the real
// vm.PageTable against a shadow model kept by the monitor (DESIGN.md, C10).
package main

import (
	"encoding/json"
	"fmt"
	"os"

	"github.com/sarchlab/akita/v4/sim"
	"github.com/sarchlab/mgpusim/v4/amd/driver"

	"verifharness/vlib"
	"verifharness/vlib/drvkit"
)

// canonical histories do not depend on the seed.
func canonical() []*scenario {
	P := uint64(4096)
	return []*scenario{
		{Name: "canon-free-3-page-buffer", Log2Page: 12, GPUPages: []int{16}, Ops: []op{
			{K: kInit, C: 0}, {K: kAlloc, C: 0, Size: 3 * P}, {K: kFree, C: 0, Buf: 0}}},
		{Name: "canon-free-3-page-buffer-64k", Log2Page: 16, GPUPages: []int{16}, Ops: []op{
			{K: kInit, C: 0}, {K: kAlloc, C: 0, Size: 2*65536 + 1}, {K: kFree, C: 0, Buf: 0}}},
		{Name: "canon-two-processes-same-vaddr-first-frees", Log2Page: 12, GPUPages: []int{16}, Ops: []op{
			{K: kInit, C: 0}, {K: kInit, C: 1},
			{K: kAlloc, C: 0, Size: P}, {K: kAlloc, C: 1, Size: P},
			{K: kFree, C: 0, Buf: 0}}},
		{Name: "canon-two-processes-same-vaddr-both-free", Log2Page: 12, GPUPages: []int{16}, Ops: []op{
			{K: kInit, C: 0}, {K: kInit, C: 1},
			{K: kAlloc, C: 0, Size: P}, {K: kAlloc, C: 1, Size: P},
			{K: kFree, C: 1, Buf: 1}, {K: kFree, C: 0, Buf: 0}}},
		{Name: "canon-two-processes-last-writer-frees", Log2Page: 12, GPUPages: []int{16}, Ops: []op{
			{K: kInit, C: 0}, {K: kInit, C: 1},
			{K: kAlloc, C: 0, Size: P}, {K: kAlloc, C: 1, Size: P},
			{K: kFree, C: 1, Buf: 1}, {K: kAlloc, C: 1, Size: 1}}},
		{Name: "canon-fill-free-k-reallocate-k", Log2Page: 12, GPUPages: []int{16}, Ops: append(append([]op{
			{K: kInit, C: 0}}, rep(op{K: kAlloc, C: 0, Size: P}, 16)...),
			op{K: kProbe, C: 0},
			op{K: kFree, C: 0, Buf: 3}, op{K: kFree, C: 0, Buf: 9}, op{K: kFree, C: 0, Buf: 15},
			op{K: kAlloc, C: 0, Size: 1}, op{K: kAlloc, C: 0, Size: P - 1}, op{K: kAlloc, C: 0, Size: P},
			op{K: kProbe, C: 0})},
		{Name: "canon-remap-and-distribute", Log2Page: 13, GPUPages: []int{32, 24, 17}, Ops: []op{
			{K: kInit, C: 0}, {K: kAlloc, C: 0, Size: 5 * 8192}, {K: kAllocU, C: 0, Size: 7*8192 + 1},
			{K: kRemap, C: 0, Buf: 0, Off: 1, Size: 3 * 8192, Dev: 2},
			{K: kDist, C: 0, Buf: 1, Devs: []int{3, 1}},
			{K: kDist, C: 0, Buf: 0, Devs: []int{1, 2, 3}},
			{K: kDist, C: 0, Buf: 0, Devs: []int{2}},
			{K: kAlloc, C: 0, Size: 1}}},
		{Name: "canon-unified-device", Log2Page: 12, GPUPages: []int{16, 16, 32}, Ops: []op{
			{K: kInit, C: 0}, {K: kUnify, C: 0, Devs: []int{2, 3}}, {K: kSelect, C: 0, Dev: 4},
			{K: kAlloc, C: 0, Size: 6 * P}, {K: kAlloc, C: 0, Size: 1}, {K: kInitPID, C: 1, From: 0},
			{K: kAlloc, C: 1, Size: 2*P + 1}, {K: kSelect, C: 1, Dev: 4}, {K: kAlloc, C: 1, Size: 4 * P},
			{K: kFree, C: 0, Buf: 1}, {K: kAlloc, C: 0, Size: P}}},
		// ---- every operation x device kind x page count around multiples of
		// the member count (k) of a unified device
		{Name: "canon-remap-onto-unified-k2", Log2Page: 12, GPUPages: []int{128, 128, 128}, Ops: []op{
			{K: kInit, C: 0}, {K: kUnify, C: 0, Devs: []int{2, 3}}, // device 4, k=2
			{K: kAlloc, C: 0, Size: P}, {K: kAlloc, C: 0, Size: 2 * P}, {K: kAlloc, C: 0, Size: 3 * P}, {K: kAlloc, C: 0, Size: 5*P - 1},
			{K: kAlloc, C: 0, Size: 4 * P}, {K: kAlloc, C: 0, Size: 9 * P},
			{K: kRemap, C: 0, Buf: 0, Off: 0, Size: P, Dev: 4},       // 1 = k-1
			{K: kRemap, C: 0, Buf: 1, Off: 0, Size: 2 * P, Dev: 4},   // k
			{K: kRemap, C: 0, Buf: 2, Off: 0, Size: 3 * P, Dev: 4},   // k+1
			{K: kRemap, C: 0, Buf: 3, Off: 0, Size: 5 * P, Dev: 4},   // 2k+1
			{K: kRemap, C: 0, Buf: 4, Off: 0, Size: 4 * P, Dev: 4},   // 2k
			{K: kRemap, C: 0, Buf: 5, Off: 1, Size: 7*P - 5, Dev: 4}, // 3k+1 in the middle of a buffer, ragged size
			{K: kSelect, C: 0, Dev: 4}, {K: kAlloc, C: 0, Size: 3 * P}, {K: kAlloc, C: 0, Size: 1},
			{K: kFree, C: 0, Buf: 3}, {K: kFree, C: 0, Buf: 0}, {K: kFree, C: 0, Buf: 5}, {K: kFree, C: 0, Buf: 2},
			{K: kFree, C: 0, Buf: 1}, {K: kFree, C: 0, Buf: 4}, {K: kFree, C: 0, Buf: 6}, {K: kFree, C: 0, Buf: 7},
			{K: kAlloc, C: 0, Size: 2 * P}}},
		{Name: "canon-remap-onto-unified-k3", Log2Page: 12, GPUPages: []int{128, 128, 128}, Ops: []op{
			{K: kInit, C: 0}, {K: kUnify, C: 0, Devs: []int{1, 2, 3}}, // device 4, k=3
			{K: kAlloc, C: 0, Size: 6 * P}, {K: kAlloc, C: 0, Size: 3 * P}, {K: kAlloc, C: 0, Size: 5 * P}, {K: kAlloc, C: 0, Size: 2 * P},
			{K: kAlloc, C: 0, Size: 7 * P}, {K: kAlloc, C: 0, Size: P}, {K: kAlloc, C: 0, Size: 4 * P}, {K: kAlloc, C: 0, Size: 10 * P},
			{K: kRemap, C: 0, Buf: 0, Off: 0, Size: 6 * P, Dev: 4}, {K: kRemap, C: 0, Buf: 1, Off: 0, Size: 3 * P, Dev: 4},
			{K: kRemap, C: 0, Buf: 2, Off: 0, Size: 5 * P, Dev: 4}, {K: kRemap, C: 0, Buf: 3, Off: 0, Size: 2 * P, Dev: 4},
			{K: kRemap, C: 0, Buf: 4, Off: 0, Size: 7 * P, Dev: 4}, {K: kRemap, C: 0, Buf: 5, Off: 0, Size: 1, Dev: 4},
			{K: kRemap, C: 0, Buf: 6, Off: 0, Size: 4 * P, Dev: 4}, {K: kRemap, C: 0, Buf: 7, Off: 0, Size: 10 * P, Dev: 4},
			{K: kSelect, C: 0, Dev: 4}, {K: kAlloc, C: 0, Size: 4 * P},
			{K: kFree, C: 0, Buf: 0}, {K: kFree, C: 0, Buf: 1}, {K: kFree, C: 0, Buf: 2}, {K: kFree, C: 0, Buf: 3},
			{K: kFree, C: 0, Buf: 4}, {K: kFree, C: 0, Buf: 5}, {K: kFree, C: 0, Buf: 6}, {K: kFree, C: 0, Buf: 7}, {K: kFree, C: 0, Buf: 8}}},
		{Name: "canon-remap-onto-unified-k4-64k", Log2Page: 16, GPUPages: []int{128, 128, 128, 128}, Ops: []op{
			{K: kInit, C: 0}, {K: kInit, C: 1}, {K: kUnify, C: 1, Devs: []int{4, 2, 1, 3}}, // device 5, k=4
			{K: kSelect, C: 1, Dev: 3},
			{K: kAlloc, C: 1, Size: 3 * 65536}, {K: kAlloc, C: 0, Size: 4 * 65536}, {K: kAlloc, C: 1, Size: 5 * 65536},
			{K: kAlloc, C: 0, Size: 9*65536 - 7}, {K: kAlloc, C: 1, Size: 13 * 65536}, {K: kAlloc, C: 0, Size: 8 * 65536},
			{K: kRemap, C: 1, Buf: 0, Off: 0, Size: 3 * 65536, Dev: 5}, {K: kRemap, C: 0, Buf: 1, Off: 0, Size: 4 * 65536, Dev: 5},
			{K: kRemap, C: 1, Buf: 2, Off: 0, Size: 5 * 65536, Dev: 5}, {K: kRemap, C: 0, Buf: 3, Off: 0, Size: 9 * 65536, Dev: 5},
			{K: kRemap, C: 1, Buf: 4, Off: 0, Size: 13 * 65536, Dev: 5}, {K: kRemap, C: 0, Buf: 5, Off: 0, Size: 8 * 65536, Dev: 5},
			{K: kRemap, C: 1, Buf: 4, Off: 6, Size: 65536, Dev: 5}, {K: kRemap, C: 1, Buf: 4, Off: 2, Size: 7 * 65536, Dev: 2},
			{K: kSelect, C: 0, Dev: 5}, {K: kAlloc, C: 0, Size: 1}, {K: kAlloc, C: 0, Size: 3*65536 - 1}, {K: kAlloc, C: 0, Size: 4 * 65536},
			{K: kAlloc, C: 0, Size: 5 * 65536}, {K: kAlloc, C: 0, Size: 8*65536 + 1}, {K: kAlloc, C: 0, Size: 8 * 65536}, // buffers 6..11
			{K: kDist, C: 0, Buf: 10, Devs: []int{5, 5, 2}}, {K: kDist, C: 0, Buf: 3, Devs: []int{1, 5}}, {K: kDist, C: 1, Buf: 4, Devs: []int{5, 3, 5, 5}},
			{K: kFree, C: 0, Buf: 6}, {K: kFree, C: 0, Buf: 7}, {K: kFree, C: 0, Buf: 8}, {K: kFree, C: 0, Buf: 9}, {K: kFree, C: 0, Buf: 10}, {K: kFree, C: 0, Buf: 11},
			{K: kFree, C: 1, Buf: 4}, {K: kFree, C: 0, Buf: 3}, {K: kFree, C: 1, Buf: 0}, {K: kFree, C: 0, Buf: 1}, {K: kFree, C: 1, Buf: 2}, {K: kFree, C: 0, Buf: 5}}},
		{Name: "canon-distribute-lists-with-unified-devices-and-repeats", Log2Page: 12, GPUPages: []int{128, 128, 128}, Ops: []op{
			{K: kInit, C: 0}, {K: kUnify, C: 0, Devs: []int{2, 3}}, {K: kUnify, C: 0, Devs: []int{3, 1, 2}}, // devices 4 (k=2), 5 (k=3)
			{K: kAlloc, C: 0, Size: 7 * P}, {K: kAlloc, C: 0, Size: 11*P + 1}, {K: kAlloc, C: 0, Size: 2 * P}, {K: kAlloc, C: 0, Size: 1},
			{K: kDist, C: 0, Buf: 0, Devs: []int{4, 1}},          // 3 | 3+1
			{K: kDist, C: 0, Buf: 0, Devs: []int{1, 4}},          // 3 | 3+1 (remainder page onto the unified device)
			{K: kDist, C: 0, Buf: 1, Devs: []int{4, 4}},          // 6 | 6
			{K: kDist, C: 0, Buf: 1, Devs: []int{5, 4, 5}},       // 4 | 4 | 4
			{K: kDist, C: 0, Buf: 1, Devs: []int{2, 2, 3, 5}},    // 3 | 3 | 3 | 3
			{K: kDist, C: 0, Buf: 0, Devs: []int{5, 5}},          // 3 | 3+1
			{K: kDist, C: 0, Buf: 0, Devs: []int{1, 5, 4, 2, 5}}, // 1 each, remainder 2 on the last
			{K: kDist, C: 0, Buf: 2, Devs: []int{4, 5, 1}},       // fewer pages than entries: all on the first
			{K: kDist, C: 0, Buf: 3, Devs: []int{5, 4}},
			{K: kDist, C: 0, Buf: 1, Devs: []int{5}},       // one entry: left in place
			{K: kDist, C: 0, Buf: 1, Devs: []int{0, 4, 0}}, // the CPU is device 0
			{K: kFree, C: 0, Buf: 0}, {K: kFree, C: 0, Buf: 1}, {K: kFree, C: 0, Buf: 2}, {K: kFree, C: 0, Buf: 3},
			{K: kAlloc, C: 0, Size: 3 * P}}},
		{Name: "canon-two-unified-devices-sharing-a-member", Log2Page: 13, GPUPages: []int{32, 32, 32, 32}, Ops: []op{
			{K: kInit, C: 0}, {K: kInitPID, C: 1, From: 0}, {K: kInit, C: 2},
			{K: kUnify, C: 0, Devs: []int{1, 2}}, {K: kUnify, C: 2, Devs: []int{2, 3, 4}}, {K: kUnify, C: 1, Devs: []int{4}}, // 5 (k=2), 6 (k=3), 7 (k=1)
			{K: kSelect, C: 0, Dev: 5}, {K: kSelect, C: 1, Dev: 6}, {K: kSelect, C: 2, Dev: 7},
			{K: kAlloc, C: 0, Size: 1}, {K: kAlloc, C: 1, Size: 8192}, {K: kAlloc, C: 2, Size: 8193},
			{K: kAlloc, C: 0, Size: 2 * 8192}, {K: kAlloc, C: 1, Size: 2 * 8192}, {K: kAlloc, C: 0, Size: 3 * 8192}, {K: kAlloc, C: 1, Size: 3*8192 - 1},
			{K: kAlloc, C: 0, Size: 5 * 8192}, {K: kAlloc, C: 1, Size: 7 * 8192}, {K: kAlloc, C: 1, Size: 4*8192 + 1}, {K: kAlloc, C: 2, Size: 3 * 8192},
			{K: kRemap, C: 0, Buf: 7, Off: 0, Size: 5 * 8192, Dev: 6}, {K: kRemap, C: 1, Buf: 8, Off: 0, Size: 7 * 8192, Dev: 5},
			{K: kRemap, C: 2, Buf: 10, Off: 1, Size: 2 * 8192, Dev: 6}, {K: kRemap, C: 1, Buf: 9, Off: 0, Size: 5 * 8192, Dev: 7},
			{K: kAllocU, C: 2, Size: 4 * 8192}, {K: kRemap, C: 2, Buf: 11, Off: 0, Size: 3 * 8192, Dev: 5},
			{K: kFree, C: 0, Buf: 7}, {K: kFree, C: 1, Buf: 8}, {K: kFree, C: 2, Buf: 10}, {K: kFree, C: 1, Buf: 9}, {K: kFree, C: 2, Buf: 11},
			{K: kFree, C: 0, Buf: 0}, {K: kFree, C: 1, Buf: 1}, {K: kFree, C: 2, Buf: 2}, {K: kAlloc, C: 1, Size: 6 * 8192}}},
		{Name: "canon-fill-unified-device-uneven-members", Log2Page: 12, GPUPages: []int{4, 9, 6}, Ops: append(append(append([]op{
			{K: kInit, C: 0}, {K: kUnify, C: 0, Devs: []int{1, 2, 3}}, {K: kSelect, C: 0, Dev: 4}}, // 19 pages in total
			rep(op{K: kAlloc, C: 0, Size: P}, 10)...),
			op{K: kAlloc, C: 0, Size: 4 * P}, op{K: kAlloc, C: 0, Size: 5*P - 1}, // bufs 10, 11: the last GPUs with room serve them
			op{K: kProbe, C: 0},
			op{K: kFree, C: 0, Buf: 2}, op{K: kFree, C: 0, Buf: 10}, op{K: kFree, C: 0, Buf: 7},
			op{K: kAlloc, C: 0, Size: 1}, op{K: kAlloc, C: 0, Size: 2 * P}, op{K: kAlloc, C: 0, Size: 3 * P},
			op{K: kProbe, C: 0}),
			op{K: kSelect, C: 0, Dev: 2}, op{K: kProbe, C: 0}, op{K: kSelect, C: 0, Dev: 1}, op{K: kProbe, C: 0})},
		{Name: "canon-fill-unified-device-two-members-buddy", Buddy: true, Log2Page: 12, GPUPages: []int{4, 8}, Ops: append(append([]op{
			{K: kInit, C: 0}, {K: kUnify, C: 0, Devs: []int{2, 1}}, {K: kSelect, C: 0, Dev: 3}},
			rep(op{K: kAlloc, C: 0, Size: P}, 12)...),
			op{K: kProbe, C: 0}, op{K: kFree, C: 0, Buf: 0}, op{K: kFree, C: 0, Buf: 5}, op{K: kFree, C: 0, Buf: 11},
			op{K: kAlloc, C: 0, Size: P}, op{K: kAlloc, C: 0, Size: 2 * P}, op{K: kProbe, C: 0})},
		{Name: "canon-fill-unified-device-two-members", Log2Page: 14, GPUPages: []int{5, 3, 7}, Ops: append(append([]op{
			{K: kInit, C: 0}, {K: kUnify, C: 0, Devs: []int{3, 2}}, {K: kSelect, C: 0, Dev: 4}},
			rep(op{K: kAlloc, C: 0, Size: 16384}, 6)...),
			op{K: kAlloc, C: 0, Size: 4 * 16384}, op{K: kProbe, C: 0},
			op{K: kFree, C: 0, Buf: 6}, op{K: kFree, C: 0, Buf: 1},
			op{K: kAlloc, C: 0, Size: 3*16384 - 1}, op{K: kAlloc, C: 0, Size: 2 * 16384}, op{K: kProbe, C: 0},
			op{K: kSelect, C: 0, Dev: 1}, op{K: kAlloc, C: 0, Size: 5 * 16384}, op{K: kProbe, C: 0})},
		{Name: "canon-cpu-as-a-device", Log2Page: 12, GPUPages: []int{32, 32}, Ops: []op{
			{K: kInit, C: 0}, {K: kSelect, C: 0, Dev: 0}, {K: kAlloc, C: 0, Size: 3 * P}, {K: kAlloc, C: 0, Size: 1},
			{K: kSelect, C: 0, Dev: 2}, {K: kAlloc, C: 0, Size: 4 * P}, {K: kAlloc, C: 0, Size: P},
			{K: kRemap, C: 0, Buf: 3, Off: 0, Size: P, Dev: 0}, {K: kFree, C: 0, Buf: 3},
			{K: kRemap, C: 0, Buf: 0, Off: 1, Size: 2 * P, Dev: 1}, {K: kRemap, C: 0, Buf: 2, Off: 0, Size: 3 * P, Dev: 0},
			{K: kRemap, C: 0, Buf: 0, Off: 0, Size: P, Dev: 0},
			{K: kDist, C: 0, Buf: 2, Devs: []int{0, 1}}, {K: kDist, C: 0, Buf: 0, Devs: []int{2, 0, 0}},
			{K: kFree, C: 0, Buf: 0}, {K: kFree, C: 0, Buf: 2}, {K: kFree, C: 0, Buf: 1},
			{K: kSelect, C: 0, Dev: 0}, {K: kAlloc, C: 0, Size: 2 * P}}},
		// one member GPU of a unified device is (almost) full, the device as a
		// whole has plenty of room; the remaps name the unified device
		{Name: "canon-remap-onto-unified-device-with-a-full-member", Log2Page: 12, GPUPages: []int{4, 32, 32}, Ops: []op{
			{K: kInit, C: 0}, {K: kUnify, C: 0, Devs: []int{1, 2, 3}},
			{K: kAlloc, C: 0, Size: 4 * P}, // GPU 1 is full now
			{K: kSelect, C: 0, Dev: 2}, {K: kAlloc, C: 0, Size: 2 * P}, {K: kAlloc, C: 0, Size: 2 * P}, {K: kAlloc, C: 0, Size: 2 * P},
			{K: kRemap, C: 0, Buf: 1, Off: 0, Size: 2 * P, Dev: 4, Tight: true},
			{K: kRemap, C: 0, Buf: 2, Off: 0, Size: 2 * P, Dev: 4, Tight: true},
			{K: kRemap, C: 0, Buf: 3, Off: 0, Size: 2 * P, Dev: 4, Tight: true}}},
		{Name: "canon-buddy-unified-device", Buddy: true, Log2Page: 12, GPUPages: []int{16, 16, 32}, Ops: []op{
			{K: kInit, C: 0}, {K: kUnify, C: 0, Devs: []int{2, 3}}, // device 4
			{K: kAlloc, C: 0, Size: 3 * P}, {K: kAlloc, C: 0, Size: 2 * P}, {K: kAlloc, C: 0, Size: P}, {K: kAlloc, C: 0, Size: 5 * P},
			{K: kRemap, C: 0, Buf: 0, Off: 0, Size: 3 * P, Dev: 4}, {K: kRemap, C: 0, Buf: 1, Off: 0, Size: 2 * P, Dev: 4},
			{K: kRemap, C: 0, Buf: 2, Off: 0, Size: P, Dev: 4}, {K: kRemap, C: 0, Buf: 3, Off: 0, Size: 5 * P, Dev: 4},
			{K: kSelect, C: 0, Dev: 4}, {K: kAlloc, C: 0, Size: 3 * P}, {K: kAlloc, C: 0, Size: P},
			{K: kFree, C: 0, Buf: 0}, {K: kFree, C: 0, Buf: 3}, {K: kFree, C: 0, Buf: 4}, {K: kFree, C: 0, Buf: 1},
			{K: kAlloc, C: 0, Size: 2 * P}, {K: kAlloc, C: 0, Size: P}, {K: kFree, C: 0, Buf: 2}, {K: kFree, C: 0, Buf: 5}}},
		{Name: "canon-buddy-cpu-and-unified-select", Buddy: true, Log2Page: 12, GPUPages: []int{8, 8}, Ops: []op{
			{K: kInit, C: 0}, {K: kUnify, C: 0, Devs: []int{1, 2}}, {K: kSelect, C: 0, Dev: 0}, {K: kAlloc, C: 0, Size: 3 * P},
			{K: kSelect, C: 0, Dev: 3}, {K: kAlloc, C: 0, Size: 5 * P}, {K: kAlloc, C: 0, Size: 3 * P},
			{K: kRemap, C: 0, Buf: 1, Off: 1, Size: 2 * P, Dev: 0}, {K: kRemap, C: 0, Buf: 0, Off: 0, Size: 3 * P, Dev: 3},
			{K: kFree, C: 0, Buf: 1}, {K: kFree, C: 0, Buf: 0}, {K: kFree, C: 0, Buf: 2}, {K: kAlloc, C: 0, Size: P}}},
		// ---- sibling contexts (InitWithExistingPID): buffers belong to the process
		{Name: "canon-free-through-sibling-earlier-process-holds-same-vaddr", Log2Page: 12, GPUPages: []int{16}, Ops: []op{
			{K: kInit, C: 0}, {K: kInit, C: 1}, {K: kInitPID, C: 2, From: 1}, // Q; P with contexts 1 and 2
			{K: kAlloc, C: 0, Size: P}, {K: kAlloc, C: 1, Size: P}, // buffers 0 (Q) and 1 (P) start at the same virtual address
			{K: kFree, C: 2, Buf: 1},                                         // P frees through its sibling context
			{K: kAlloc, C: 2, Size: 2 * P}, {K: kAlloc, C: 0, Size: 2*P - 1}, // buffers 2 (P), 3 (Q): same start again
			{K: kFree, C: 1, Buf: 2}, {K: kFree, C: 0, Buf: 0}, {K: kFree, C: 0, Buf: 3}, {K: kAlloc, C: 1, Size: P}}},
		{Name: "canon-free-through-sibling-later-process-holds-same-vaddr", Log2Page: 14, GPUPages: []int{16, 16}, Ops: []op{
			{K: kInit, C: 0}, {K: kInitPID, C: 1, From: 0}, {K: kInit, C: 2}, {K: kInitPID, C: 3, From: 2},
			{K: kAlloc, C: 1, Size: 3 * 16384}, {K: kAlloc, C: 3, Size: 16384}, {K: kAlloc, C: 2, Size: 2 * 16384}, // 0 (P, via sibling), 1, 2 (Q)
			{K: kFree, C: 0, Buf: 0}, // allocated through the sibling, freed through the first context
			{K: kFree, C: 2, Buf: 1}, {K: kAlloc, C: 0, Size: 16384}, {K: kFree, C: 3, Buf: 2}, {K: kFree, C: 1, Buf: 3}}},
		{Name: "canon-remap-distribute-migrate-free-through-siblings", Log2Page: 12, GPUPages: []int{32, 32, 32}, Ops: []op{
			{K: kInit, C: 0}, {K: kInit, C: 1}, {K: kInitPID, C: 2, From: 1}, {K: kInitPID, C: 3, From: 1}, {K: kInitPID, C: 4, From: 0},
			{K: kAlloc, C: 0, Size: 2 * P}, {K: kAlloc, C: 1, Size: 3 * P}, // 0 (Q), 1 (P): same start
			{K: kAllocU, C: 4, Size: 2 * P}, {K: kAllocU, C: 2, Size: 3 * P}, // 2 (Q), 3 (P): same start
			{K: kSelect, C: 3, Dev: 3}, {K: kAlloc, C: 3, Size: P}, // 4 (P) on GPU 3
			{K: kRemap, C: 2, Buf: 1, Off: 1, Size: 2 * P, Dev: 2},
			{K: kDist, C: 3, Buf: 1, Devs: []int{3, 2}},
			{K: kMigrate, C: 1, Migs: []migPart{{Buf: 3, Page: 0, Dev: 2}, {Buf: 3, Page: 2, Dev: 3}}},
			{K: kMigrate, C: 0, Migs: []migPart{{Buf: 2, Page: 1, Dev: 3}}},
			{K: kFree, C: 3, Buf: 1}, {K: kFree, C: 1, Buf: 3}, {K: kFree, C: 2, Buf: 4},
			{K: kFree, C: 0, Buf: 2}, {K: kFree, C: 4, Buf: 0}, {K: kAlloc, C: 2, Size: P}, {K: kAlloc, C: 4, Size: P}}},
		// ---- page-migration preparation (fake MMU + command processors)
		{Name: "canon-migrate-single-pages-back-and-forth", Log2Page: 12, GPUPages: []int{16, 16, 16}, Ops: []op{
			{K: kInit, C: 0}, {K: kAllocU, C: 0, Size: 3 * P}, {K: kAlloc, C: 0, Size: 2 * P},
			{K: kMigrate, C: 0, Migs: []migPart{{Buf: 0, Page: 0, Dev: 2}}},
			{K: kMigrate, C: 0, Migs: []migPart{{Buf: 0, Page: 1, Dev: 3}}},
			{K: kMigrate, C: 0, Migs: []migPart{{Buf: 0, Page: 0, Dev: 1}}}, // back
			{K: kMigrate, C: 0, Migs: []migPart{{Buf: 0, Page: 0, Dev: 2}}}, // and forth
			{K: kMigrate, C: 0, Migs: []migPart{{Buf: 0, Page: 2, Dev: 2}}},
			{K: kMigrate, C: 0, Migs: []migPart{{Buf: 0, Page: 1, Dev: 2}}}, // the whole buffer is on GPU 2 now
			{K: kAlloc, C: 0, Size: 1},
			{K: kFree, C: 0, Buf: 0}, {K: kAllocU, C: 0, Size: 2*P - 1}, // buffer 3
			{K: kMigrate, C: 0, Migs: []migPart{{Buf: 3, Page: 1, Dev: 3}}},
			{K: kSelect, C: 0, Dev: 2}, {K: kAlloc, C: 0, Size: 3 * P}, {K: kFree, C: 0, Buf: 3}, {K: kFree, C: 0, Buf: 1}}},
		{Name: "canon-migrate-then-free-makes-the-new-frames-reusable", Log2Page: 13, GPUPages: []int{16, 4}, Ops: []op{
			{K: kInit, C: 0}, {K: kAllocU, C: 0, Size: 2 * 8192}, // buffer 0 on GPU 1
			{K: kMigrate, C: 0, Migs: []migPart{{Buf: 0, Page: 0, Dev: 2}, {Buf: 0, Page: 1, Dev: 2}}},
			{K: kSelect, C: 0, Dev: 2}, {K: kAlloc, C: 0, Size: 8192}, {K: kAlloc, C: 0, Size: 1}, // GPU 2 is full
			{K: kProbe, C: 0},
			{K: kFree, C: 0, Buf: 0}, // exactly the two frames on GPU 2 come back
			{K: kAlloc, C: 0, Size: 8192}, {K: kAlloc, C: 0, Size: 8192}, {K: kProbe, C: 0},
			{K: kFree, C: 0, Buf: 3}, {K: kAllocU, C: 0, Size: 8192}, // buffer 5 on GPU 1
			{K: kMigrate, C: 0, Migs: []migPart{{Buf: 5, Page: 0, Dev: 2}}}, {K: kProbe, C: 0},
			{K: kMigrate, C: 0, Migs: []migPart{{Buf: 5, Page: 0, Dev: 1}}}, // the frame left on GPU 2 is written off (observed, not judged)
			{K: kFree, C: 0, Buf: 5}, {K: kSelect, C: 0, Dev: 1}, {K: kAlloc, C: 0, Size: 2 * 8192}}},
		{Name: "canon-migrate-several-pages-and-requesters-two-processes", Log2Page: 12, GPUPages: []int{32, 32, 32, 32}, Ops: []op{
			{K: kInit, C: 0}, {K: kInit, C: 1}, {K: kInitPID, C: 2, From: 0},
			{K: kAllocU, C: 0, Size: 5 * P}, {K: kAllocU, C: 1, Size: 4 * P}, {K: kAllocU, C: 2, Size: 3*P + 1}, // buffers 0 (A), 1 (B), 2 (A)
			{K: kMigrate, C: 0, Migs: []migPart{{Buf: 0, Page: 0, Dev: 2}, {Buf: 0, Page: 1, Dev: 3}, {Buf: 0, Page: 2, Dev: 2}, {Buf: 2, Page: 3, Dev: 3}}},
			{K: kMigrate, C: 1, Migs: []migPart{{Buf: 1, Page: 0, Dev: 4}, {Buf: 1, Page: 1, Dev: 4}, {Buf: 1, Page: 3, Dev: 4}}},
			{K: kMigrate, C: 2, Migs: []migPart{{Buf: 0, Page: 0, Dev: 4}, {Buf: 0, Page: 2, Dev: 1}}}, // both hosted by GPU 2
			{K: kMigrate, C: 1, Migs: []migPart{{Buf: 1, Page: 1, Dev: 1}, {Buf: 1, Page: 0, Dev: 2}, {Buf: 1, Page: 3, Dev: 3}}},
			{K: kRemap, C: 0, Buf: 0, Off: 0, Size: 2 * P, Dev: 1}, // a migrated and a never-migrated... page 0 (GPU 4), page 1 (GPU 3)
			{K: kDist, C: 1, Buf: 1, Devs: []int{3, 2}},
			{K: kMigrate, C: 0, Migs: []migPart{{Buf: 0, Page: 3, Dev: 2}, {Buf: 0, Page: 4, Dev: 2}, {Buf: 2, Page: 0, Dev: 3}}}, // still on GPU 1
			{K: kFree, C: 0, Buf: 0}, {K: kFree, C: 1, Buf: 1}, {K: kFree, C: 2, Buf: 2},
			{K: kAllocU, C: 1, Size: 2 * P}, {K: kMigrate, C: 1, Migs: []migPart{{Buf: 3, Page: 1, Dev: 3}}}, {K: kFree, C: 1, Buf: 3},
			{K: kAlloc, C: 0, Size: 3 * P}}},
		{Name: "canon-migrate-beside-a-unified-device", Log2Page: 16, GPUPages: []int{24, 24, 24}, Ops: []op{
			{K: kInit, C: 0}, {K: kUnify, C: 0, Devs: []int{2, 3}}, // device 4
			{K: kAllocU, C: 0, Size: 4 * 65536}, {K: kSelect, C: 0, Dev: 4}, {K: kAlloc, C: 0, Size: 3 * 65536},
			{K: kMigrate, C: 0, Migs: []migPart{{Buf: 0, Page: 0, Dev: 2}, {Buf: 0, Page: 1, Dev: 2}}},
			{K: kRemap, C: 0, Buf: 1, Off: 0, Size: 3 * 65536, Dev: 4},
			{K: kMigrate, C: 0, Migs: []migPart{{Buf: 0, Page: 1, Dev: 3}}},
			{K: kAlloc, C: 0, Size: 5 * 65536},
			{K: kMigrate, C: 0, Migs: []migPart{{Buf: 0, Page: 2, Dev: 3}, {Buf: 0, Page: 3, Dev: 2}}},
			{K: kMigrate, C: 0, Migs: []migPart{{Buf: 0, Page: 1, Dev: 2}}},
			{K: kFree, C: 0, Buf: 0}, {K: kFree, C: 0, Buf: 1}, {K: kAlloc, C: 0, Size: 2 * 65536}}},
		{Name: "canon-buddy-single-pages", Buddy: true, Log2Page: 12, GPUPages: []int{16}, Ops: append(append([]op{
			{K: kInit, C: 0}}, rep(op{K: kAlloc, C: 0, Size: P}, 6)...),
			op{K: kFree, C: 0, Buf: 0}, op{K: kFree, C: 0, Buf: 1}, op{K: kFree, C: 0, Buf: 4},
			op{K: kAlloc, C: 0, Size: P}, op{K: kAlloc, C: 0, Size: P}, op{K: kAlloc, C: 0, Size: P}, op{K: kAlloc, C: 0, Size: P})},
		{Name: "canon-buddy-4-pages-free-sibling-pair-reallocate", Buddy: true, Log2Page: 12, GPUPages: []int{4}, Ops: []op{
			{K: kInit, C: 0}, {K: kAlloc, C: 0, Size: P}, {K: kAlloc, C: 0, Size: P}, {K: kAlloc, C: 0, Size: P}, {K: kAlloc, C: 0, Size: P},
			{K: kFree, C: 0, Buf: 2}, {K: kFree, C: 0, Buf: 3}, {K: kAlloc, C: 0, Size: P}}},
		{Name: "canon-buddy-remap-block", Buddy: true, Log2Page: 12, GPUPages: []int{16, 16}, Ops: []op{
			{K: kInit, C: 0}, {K: kAlloc, C: 0, Size: 3 * P}, {K: kRemap, C: 0, Buf: 0, Off: 0, Size: 3 * P, Dev: 2},
			{K: kSelect, C: 0, Dev: 2}, {K: kAlloc, C: 0, Size: P}, {K: kAlloc, C: 0, Size: P}}},
		{Name: "canon-buddy-free-through-sibling-earlier-process-holds-same-vaddr", Buddy: true, Log2Page: 12, GPUPages: []int{8}, Ops: []op{
			{K: kInit, C: 0}, {K: kInit, C: 1}, {K: kInitPID, C: 2, From: 1},
			{K: kAlloc, C: 0, Size: P}, {K: kAlloc, C: 1, Size: P}, {K: kAlloc, C: 2, Size: P}, {K: kAlloc, C: 0, Size: P},
			{K: kFree, C: 2, Buf: 1}, {K: kFree, C: 1, Buf: 2}, {K: kAlloc, C: 1, Size: P}, {K: kAlloc, C: 2, Size: P},
			{K: kFree, C: 0, Buf: 0}, {K: kFree, C: 0, Buf: 3}}},
		// the allocation pattern of kernel launches between user frees (C11's
		// free / re-allocate rounds in emulation): every launch allocates a
		// code page, a kernarg page and a packet page through the same context
		// and never frees them; user buffers of 4 pages come and go; a second
		// process repeats it on the recycled frames
		{Name: "canon-buddy-kernel-launch-allocation-pattern", Buddy: true, Log2Page: 12, GPUPages: []int{64}, Ops: launchPattern()},
		{Name: "canon-buddy-migrate-free-reallocate", Buddy: true, Log2Page: 12, GPUPages: []int{16, 4, 8}, Ops: []op{
			{K: kInit, C: 0}, {K: kAllocU, C: 0, Size: 3 * P}, {K: kAllocU, C: 0, Size: P}, // buffers 0, 1
			{K: kMigrate, C: 0, Migs: []migPart{{Buf: 0, Page: 0, Dev: 2}, {Buf: 0, Page: 1, Dev: 2}, {Buf: 0, Page: 2, Dev: 3}}},
			{K: kMigrate, C: 0, Migs: []migPart{{Buf: 1, Page: 0, Dev: 2}}},
			{K: kMigrate, C: 0, Migs: []migPart{{Buf: 0, Page: 2, Dev: 2}}}, // GPU 2 is full
			{K: kSelect, C: 0, Dev: 2}, {K: kProbe, C: 0},
			{K: kFree, C: 0, Buf: 0}, {K: kAlloc, C: 0, Size: P}, {K: kAlloc, C: 0, Size: P}, {K: kAlloc, C: 0, Size: P}, {K: kProbe, C: 0},
			{K: kMigrate, C: 0, Migs: []migPart{{Buf: 1, Page: 0, Dev: 1}}}, {K: kMigrate, C: 0, Migs: []migPart{{Buf: 1, Page: 0, Dev: 3}}},
			{K: kFree, C: 0, Buf: 1}, {K: kFree, C: 0, Buf: 3}, {K: kSelect, C: 0, Dev: 3}, {K: kAlloc, C: 0, Size: 2 * P}}},
		{Name: "canon-engine-free-last-two-then-copy", Log2Page: 12, GPUPages: []int{64},
			Engine: &engineCase{Pre: 1, Post: 2, Free: []int{1, 2}, Copy: 0, GPUs: 1}},
		{Name: "canon-engine-free-middle-then-copy", Log2Page: 12, GPUPages: []int{64},
			Engine: &engineCase{Pre: 3, Post: 1, Free: []int{1}, Copy: 0, GPUs: 1}},
	}
}

func launchPattern() []op {
	var ops []op
	nb := 0
	alloc := func(c int, sizes ...uint64) int {
		first := nb
		for _, sz := range sizes {
			ops = append(ops, op{K: kAlloc, C: c, Size: sz})
			nb++
		}
		return first
	}
	launch := func(c int, code, kernarg uint64) { alloc(c, code, kernarg, 64) }
	ops = append(ops, op{K: kInit, C: 0})
	alloc(0, 16384)
	a := alloc(0, 12800)
	launch(0, 140, 80)
	launch(0, 140, 80)
	ops = append(ops, op{K: kFree, C: 0, Buf: a})
	a = alloc(0, 12800)
	launch(0, 76, 16)
	ops = append(ops, op{K: kFree, C: 0, Buf: a})
	a = alloc(0, 12800)
	launch(0, 140, 80)
	launch(0, 140, 80)
	ops = append(ops, op{K: kFree, C: 0, Buf: a})
	a = alloc(0, 12800)
	alloc(0, 16, 64)
	launch(0, 72, 16)
	ops = append(ops, op{K: kFree, C: 0, Buf: a})
	ops = append(ops, op{K: kInit, C: 1})
	alloc(1, 16384)
	a = alloc(1, 8192)
	launch(1, 76, 16)
	ops = append(ops, op{K: kFree, C: 1, Buf: a})
	a = alloc(1, 4096, 12288)
	alloc(1, 16, 64)
	launch(1, 72, 16)
	ops = append(ops, op{K: kFree, C: 1, Buf: a}, op{K: kFree, C: 1, Buf: a + 1})
	a = alloc(1, 8192)
	alloc(1, 16, 64)
	ops = append(ops, op{K: kFree, C: 1, Buf: a})
	return ops
}

func rep(o op, n int) []op {
	out := make([]op, n)
	for i := range out {
		out[i] = o
	}
	return out
}

func runScenario(rec vlib.Recorder, sc *scenario) {
	if sc.Engine != nil {
		runEngineCase(rec, sc)
		return
	}
	rec.Eval()
	for _, o := range sc.Ops {
		if o.K == kMigrate {
			sc.Mig = true
		}
	}
	w := newWorld(rec, sc)
	if sc.GenSeed == 0 {
		for i, o := range sc.Ops {
			if sc.Canon {
				if why := w.precheck(o); why != "" {
					rec.Inconclusive(fmt.Sprintf("canonical history %s step %d (%s) is not a valid within-capacity call by the monitor's own rules: %s", sc.Name, i, o.K, why))
					break
				}
			}
			if !w.exec(o) {
				break
			}
		}
	} else {
		g := &generator{w: w, r: vlib.NewPRNG(sc.GenSeed)}
		for step := 0; step < sc.Steps || len(g.pending) > 0; step++ {
			o, ok := g.next(sc.Steps - step)
			if !ok || !w.exec(o) {
				break
			}
		}
	}
	rec.Count("steps", int64(len(w.done)))
	rec.Count("histories_"+w.alloc(), 1)
	if len(w.pids) > 1 {
		rec.Count("histories_multi_process", 1)
	}
	if !w.failed {
		rec.Count("histories_completed_without_violation", 1)
	}
	if sc.Mig {
		rec.Count("histories_with_migration_peers", 1)
	}
	if w.sibStale > 0 {
		rec.Count("observed|entries-of-buffers-freed-through-a-sibling-still-listed-unfreed-by-the-allocating-context", int64(w.sibStale))
	}
	if w.multiPgFree {
		rec.Count("histories_with_multi_page_free", 1)
	}
	rec.Count("peak_live_pages_sum", int64(w.peakLive))
	rec.Distinct("config", fmt.Sprintf("%d/%v/%v", sc.Log2Page, sc.GPUPages, sc.Buddy))
	rec.Distinct("page_size", fmt.Sprint(sc.Log2Page))
	if w.sawReuse {
		rec.Nontrivial(sc.Name)
	}
	rec.Sample(map[string]any{"name": sc.Name, "log2_page": sc.Log2Page, "gpu_pages": sc.GPUPages, "buddy": sc.Buddy,
		"steps": len(w.done), "processes": len(w.pids), "peak_live_pages": w.peakLive, "first_ops": w.done[:min(6, len(w.done))]})
}

// observeUnjudged records behaviours the property text does not decide
// (DESIGN.md C10: "reported as observed, not judged").
func observeUnjudged(rec vlib.Recorder) {
	P := uint64(4096)
	rig := drvkit.NewRig(drvkit.Options{Log2Page: 12, GPUs: []driver.DeviceProperties{{CUCount: 4, DRAMSize: 16 * P}, {CUCount: 4, DRAMSize: 16 * P}}})
	d := rig.Driver
	pv, _ := call(func() {
		ctx := d.Init()
		uid := d.CreateUnifiedGPU(ctx, []int{1, 2})
		p := d.AllocateMemory(ctx, 2*P)
		d.Remap(ctx, uint64(p), 2*P, uid)
		if pg, ok := rig.PageTable.Find(ctx.VerifPID(), uint64(p)); ok && int(pg.DeviceID) == uid {
			rec.Count("observed_remap_to_unified_device_records_the_unified_id", 1)
		}
		q := d.AllocateUnifiedMemory(ctx, 3*P) // placed on GPU 1
		ret := d.Distribute(ctx, q, 3*P, []int{2})
		if pg, ok := rig.PageTable.Find(ctx.VerifPID(), uint64(q)); ok && pg.DeviceID == 1 && len(ret) == 1 && ret[0] == 3*P {
			rec.Count("observed_distribute_to_one_gpu_leaves_pages_in_place", 1)
		}
	})
	if pv != nil {
		rec.Count("observed_unjudged_probe_panicked", 1)
	}
}

func replay(c *vlib.Check, b []byte) {
	var f struct {
		Witness struct {
			Scenario scenario `json:"scenario"`
		} `json:"witness"`
	}
	if err := json.Unmarshal(b, &f); err != nil {
		fmt.Println("cannot parse replay:", err)
		os.Exit(2)
	}
	sc := f.Witness.Scenario
	driver.VerifUseBuddyAllocator(sc.Buddy)
	fmt.Printf("[C10] replaying %s (%d ops)\n", sc.Name, len(sc.Ops))
	runScenario(c, &sc)
}

func main() {
	// read a replay file before vlib.Start, which removes stale replay files
	// of the same (tier, seed)
	var replayData []byte
	for i, a := range os.Args {
		if a == "--replay" && i+1 < len(os.Args) {
			b, err := os.ReadFile(os.Args[i+1])
			if err != nil {
				fmt.Println("cannot read replay:", err)
				os.Exit(2)
			}
			replayData = b
		}
	}
	c := vlib.Start("C10")
	{
		if replayData != nil {
			replay(c, replayData)
			c.Finish(vlib.FinishOpts{Rule: "replay of one recorded history", MinNontrivial: 0})
		}
	}
	nDefault := c.N(1600, 12000)
	nBuddy := c.N(400, 3000)
	nEngine := c.N(60, 600)
	steps := c.N(80, 240)
	if os.Getenv("C10_ONLY_CANONICAL") != "" { // debugging aid: the seed-independent battery alone
		nDefault, nBuddy, nEngine = 0, 0, 0
	}

	var def, bud []*scenario
	for _, sc := range canonical() {
		sc.Canon = true
		if sc.Buddy {
			bud = append(bud, sc)
		} else {
			def = append(def, sc)
		}
	}
	base := c.Rand("histories")
	for i := 0; i < nDefault; i++ {
		def = append(def, genScenario(base.ForkN("d", i), i, false, steps))
	}
	for i := 0; i < nEngine; i++ {
		def = append(def, genEngineCase(base.ForkN("e", i), i))
	}
	for i := 0; i < nBuddy; i++ {
		bud = append(bud, genScenario(base.ForkN("b", i), i, true, steps))
	}
	// The allocator kind is a process-global switch read when a device is
	// created: two phases.
	sim.GetIDGenerator() // initialised lazily and without synchronisation: once, before the worker goroutines
	driver.VerifUseBuddyAllocator(false)
	observeUnjudged(c)
	vlib.Parallel(len(def), 0, func(i int) { runScenario(c, def[i]) })
	driver.VerifUseBuddyAllocator(true)
	vlib.Parallel(len(bud), 0, func(i int) { runScenario(c, bud[i]) })
	driver.VerifUseBuddyAllocator(false)

	minc := map[string]int64{
		"op_alloc": 5000, "op_free": 1000, "op_remap": 300, "op_dist": 200, "op_allocu": 100, "op_unify": 50,
		"op_probe": 100, "overallocation_refused": 100, "free_k_reallocate_k_episodes": 30,
		"multi_page_buffers": 500, "page_lookups": 100000, "histories_buddy": 100, "histories_multi_process": 100,
		"engine_cases": 10, "pages_recorded_under_a_unified_device_id": 2000,
	}
	for k, v := range coverageMinimums() {
		minc[k] = v
	}
	c.Finish(vlib.FinishOpts{
		Rule: "history = (page size 2^12..2^16, 1-4 GPUs of 4-256 pages, default or buddy allocator, 1-4 processes, up to 3 unified devices over 1-4 member GPUs " +
			"(member lists may overlap), sequence of Init/InitWithExistingPID/SelectGPU/CreateUnifiedGPU/AllocateMemory/AllocateUnifiedMemory/FreeMemory/Remap/Distribute, " +
			"page migrations (a third of the histories: a fake MMU sends vm.PageMigrationReqToDriver for 1-5 unified pages of one process hosted by one GPU and requested by 1-2 other GPUs, " +
			"fake command processors acknowledge RDMA drain, shootdown, page copy, GPU restart and RDMA restart; the step ends when the driver has answered the MMU) " +
			"and fill-the-device probes; SelectGPU, Remap and every entry of a Distribute list name the CPU (device 0), an actual GPU or a unified device, Distribute lists " +
			"have 1-5 entries with repetitions; page counts aimed at a unified device of k members are drawn from {1,k-1,k,k+1,2k-1,2k,2k+1,3k+1,random}), " +
			"generated from VERIF_SEED plus a fixed canonical battery; after every call every page of every " +
			"buffer of every process is looked up in the real page table (found, valid, aligned, physical page inside the memory of the recorded device - for a " +
			"recorded unified device: inside one of its member GPUs and the unified device is the one the call named -, on a device the call named, physical pages " +
			"pairwise distinct, not handed out while owned); non-trivial = distinct history in which a physical page " +
			"returned by a FreeMemory was observed being handed out again by a later allocation (and all invariants were checked afterwards). " +
			"Counters 'op|<operation>|<role>=<cpu|gpu|unified/k=n>|<page class>' form the coverage table of what was executed on the real driver " +
			"('canon|...' = the part contributed by the seed-independent battery); their minimums make a run that never exercised a combination inconclusive",
		Assumptions: []string{
			"device memory ranges are known by construction: one reserved page, CPU 4 GiB, then each GPU's DRAMSize in registration order",
			"histories stay within capacity by the monitor's own accounting, which treats pages replaced by Remap/Distribute as never returned (observed behaviour; not judged)",
			"buffers belong to the process: FreeMemory / Remap / Distribute / migration requests go through any context of the owning process (InitWithExistingPID siblings included); " +
				"that FreeMemory marks the buffer as freed only in the calling context's list is recorded as observed, not judged; Remap/Distribute ranges are page aligned",
			"within capacity for ONE multi-page request (Remap, each Distribute share) onto a unified device = every member GPU could serve it alone (which member serves it is the implementation's choice); " +
				"requests flagged 'tight' (the device has the room in total, a member has not) are issued separately and a panic there carries its own key",
			"Distribute: entry i of the returned byte counts describes the i-th consecutive segment of the buffer, which must lie on the device entry i names; room for the whole buffer is demanded on every GPU reachable through the list",
			"page migration: requests are the ones the akita MMU can send (pages carrying the Unified flag - placed by AllocateUnifiedMemory or an earlier migration -, requester != hosting GPU, " +
				"CurrAccessingGPUs = the GPUs that hosted the pages so far, destination GPU has a free page per page); after the handshake the page must be mapped to a fresh frame inside the requesting GPU, " +
				"recorded for that GPU, equal to the frame the page copy sent to the command processor writes to (= the allocator's record); the frame left behind is treated as never returned (observed, not judged); " +
				"the engine run of a handshake is bounded by 200000 events",
			"CreateUnifiedGPU member lists are distinct actual GPUs; the CPU is used as SelectGPU/Remap/Distribute target only (its 4 GiB are never filled)",
			"buddy allocator: 4 KiB pages, power-of-two DRAM sizes, no Distribute; 'within capacity' = an ideally coalescing buddy system could serve the request",
			"a history stops at its first violation (the shadow no longer describes the driver afterwards)",
		},
		MinNontrivial: 50,
		MinCounters:   minc,
	})
}
