// w_c10: the real amd/driver.Driver allocation API (AllocateMemory,
// AllocateUnifiedMemory, FreeMemory, Remap, Distribute, CreateUnifiedGPU,
// SelectGPU, Init/InitWithExistingPID) under seeded histories over 1-4
// processes and 1-4 tiny GPUs, judged after EVERY call through the real
// vm.PageTable against a shadow model kept by the monitor (DESIGN.md, C10).
package main

import (
	"encoding/json"
	"fmt"
	"os"

	"github.com/sarchlab/mgpusim/v4/amd/driver"

	"verifharness/vlib"
	"verifharness/vlib/drvkit"
)

// canonical histories do not depend on the seed.
func canonical() []*scenario {
	P := uint64(4096)
	return []*scenario{
		{Name: "canon-free-3-page-buffer", Log2Page: 12, GPUPages: []int{16}, Ops: []op{
			{K: kInit, C: 0}, {K: kAlloc, C: 0, Size: 3 * P}, {K: kFree, C: 0, Buf: 0}}},
		{Name: "canon-free-3-page-buffer-64k", Log2Page: 16, GPUPages: []int{16}, Ops: []op{
			{K: kInit, C: 0}, {K: kAlloc, C: 0, Size: 2*65536 + 1}, {K: kFree, C: 0, Buf: 0}}},
		{Name: "canon-two-processes-same-vaddr-first-frees", Log2Page: 12, GPUPages: []int{16}, Ops: []op{
			{K: kInit, C: 0}, {K: kInit, C: 1},
			{K: kAlloc, C: 0, Size: P}, {K: kAlloc, C: 1, Size: P},
			{K: kFree, C: 0, Buf: 0}}},
		{Name: "canon-two-processes-same-vaddr-both-free", Log2Page: 12, GPUPages: []int{16}, Ops: []op{
			{K: kInit, C: 0}, {K: kInit, C: 1},
			{K: kAlloc, C: 0, Size: P}, {K: kAlloc, C: 1, Size: P},
			{K: kFree, C: 1, Buf: 1}, {K: kFree, C: 0, Buf: 0}}},
		{Name: "canon-two-processes-last-writer-frees", Log2Page: 12, GPUPages: []int{16}, Ops: []op{
			{K: kInit, C: 0}, {K: kInit, C: 1},
			{K: kAlloc, C: 0, Size: P}, {K: kAlloc, C: 1, Size: P},
			{K: kFree, C: 1, Buf: 1}, {K: kAlloc, C: 1, Size: 1}}},
		{Name: "canon-fill-free-k-reallocate-k", Log2Page: 12, GPUPages: []int{16}, Ops: append(append([]op{
			{K: kInit, C: 0}}, rep(op{K: kAlloc, C: 0, Size: P}, 16)...),
			op{K: kProbe, C: 0},
			op{K: kFree, C: 0, Buf: 3}, op{K: kFree, C: 0, Buf: 9}, op{K: kFree, C: 0, Buf: 15},
			op{K: kAlloc, C: 0, Size: 1}, op{K: kAlloc, C: 0, Size: P - 1}, op{K: kAlloc, C: 0, Size: P},
			op{K: kProbe, C: 0})},
		{Name: "canon-remap-and-distribute", Log2Page: 13, GPUPages: []int{32, 24, 17}, Ops: []op{
			{K: kInit, C: 0}, {K: kAlloc, C: 0, Size: 5 * 8192}, {K: kAllocU, C: 0, Size: 7*8192 + 1},
			{K: kRemap, C: 0, Buf: 0, Off: 1, Size: 3 * 8192, Dev: 2},
			{K: kDist, C: 0, Buf: 1, Devs: []int{3, 1}},
			{K: kDist, C: 0, Buf: 0, Devs: []int{1, 2, 3}},
			{K: kDist, C: 0, Buf: 0, Devs: []int{2}},
			{K: kAlloc, C: 0, Size: 1}}},
		{Name: "canon-unified-device", Log2Page: 12, GPUPages: []int{16, 16, 32}, Ops: []op{
			{K: kInit, C: 0}, {K: kUnify, C: 0, Devs: []int{2, 3}}, {K: kSelect, C: 0, Dev: 4},
			{K: kAlloc, C: 0, Size: 6 * P}, {K: kAlloc, C: 0, Size: 1}, {K: kInitPID, C: 1, From: 0},
			{K: kAlloc, C: 1, Size: 2*P + 1}, {K: kSelect, C: 1, Dev: 4}, {K: kAlloc, C: 1, Size: 4 * P},
			{K: kFree, C: 0, Buf: 1}, {K: kAlloc, C: 0, Size: P}}},
		{Name: "canon-buddy-single-pages", Buddy: true, Log2Page: 12, GPUPages: []int{16}, Ops: append(append([]op{
			{K: kInit, C: 0}}, rep(op{K: kAlloc, C: 0, Size: P}, 6)...),
			op{K: kFree, C: 0, Buf: 0}, op{K: kFree, C: 0, Buf: 1}, op{K: kFree, C: 0, Buf: 4},
			op{K: kAlloc, C: 0, Size: P}, op{K: kAlloc, C: 0, Size: P}, op{K: kAlloc, C: 0, Size: P}, op{K: kAlloc, C: 0, Size: P})},
		{Name: "canon-buddy-4-pages-free-sibling-pair-reallocate", Buddy: true, Log2Page: 12, GPUPages: []int{4}, Ops: []op{
			{K: kInit, C: 0}, {K: kAlloc, C: 0, Size: P}, {K: kAlloc, C: 0, Size: P}, {K: kAlloc, C: 0, Size: P}, {K: kAlloc, C: 0, Size: P},
			{K: kFree, C: 0, Buf: 2}, {K: kFree, C: 0, Buf: 3}, {K: kAlloc, C: 0, Size: P}}},
		{Name: "canon-buddy-remap-block", Buddy: true, Log2Page: 12, GPUPages: []int{16, 16}, Ops: []op{
			{K: kInit, C: 0}, {K: kAlloc, C: 0, Size: 3 * P}, {K: kRemap, C: 0, Buf: 0, Off: 0, Size: 3 * P, Dev: 2},
			{K: kSelect, C: 0, Dev: 2}, {K: kAlloc, C: 0, Size: P}, {K: kAlloc, C: 0, Size: P}}},
		{Name: "canon-engine-free-last-two-then-copy", Log2Page: 12, GPUPages: []int{64},
			Engine: &engineCase{Pre: 1, Post: 2, Free: []int{1, 2}, Copy: 0, GPUs: 1}},
		{Name: "canon-engine-free-middle-then-copy", Log2Page: 12, GPUPages: []int{64},
			Engine: &engineCase{Pre: 3, Post: 1, Free: []int{1}, Copy: 0, GPUs: 1}},
	}
}

func rep(o op, n int) []op {
	out := make([]op, n)
	for i := range out {
		out[i] = o
	}
	return out
}

func runScenario(rec vlib.Recorder, sc *scenario) {
	if sc.Engine != nil {
		runEngineCase(rec, sc)
		return
	}
	rec.Eval()
	w := newWorld(rec, sc)
	if sc.GenSeed == 0 {
		for _, o := range sc.Ops {
			if !w.exec(o) {
				break
			}
		}
	} else {
		g := &generator{w: w, r: vlib.NewPRNG(sc.GenSeed)}
		for step := 0; step < sc.Steps || len(g.pending) > 0; step++ {
			o, ok := g.next(sc.Steps - step)
			if !ok || !w.exec(o) {
				break
			}
		}
	}
	rec.Count("steps", int64(len(w.done)))
	rec.Count("histories_"+w.alloc(), 1)
	if len(w.pids) > 1 {
		rec.Count("histories_multi_process", 1)
	}
	if !w.failed {
		rec.Count("histories_completed_without_violation", 1)
	}
	if w.multiPgFree {
		rec.Count("histories_with_multi_page_free", 1)
	}
	rec.Count("peak_live_pages_sum", int64(w.peakLive))
	rec.Distinct("config", fmt.Sprintf("%d/%v/%v", sc.Log2Page, sc.GPUPages, sc.Buddy))
	rec.Distinct("page_size", fmt.Sprint(sc.Log2Page))
	if w.sawReuse {
		rec.Nontrivial(sc.Name)
	}
	rec.Sample(map[string]any{"name": sc.Name, "log2_page": sc.Log2Page, "gpu_pages": sc.GPUPages, "buddy": sc.Buddy,
		"steps": len(w.done), "processes": len(w.pids), "peak_live_pages": w.peakLive, "first_ops": w.done[:min(6, len(w.done))]})
}

// observeUnjudged records behaviours the property text does not decide
// (DESIGN.md C10: "reported as observed, not judged").
func observeUnjudged(rec vlib.Recorder) {
	P := uint64(4096)
	rig := drvkit.NewRig(drvkit.Options{Log2Page: 12, GPUs: []driver.DeviceProperties{{CUCount: 4, DRAMSize: 16 * P}, {CUCount: 4, DRAMSize: 16 * P}}})
	d := rig.Driver
	pv, _ := call(func() {
		ctx := d.Init()
		uid := d.CreateUnifiedGPU(ctx, []int{1, 2})
		p := d.AllocateMemory(ctx, 2*P)
		d.Remap(ctx, uint64(p), 2*P, uid)
		if pg, ok := rig.PageTable.Find(ctx.VerifPID(), uint64(p)); ok && int(pg.DeviceID) == uid {
			rec.Count("observed_remap_to_unified_device_records_the_unified_id", 1)
		}
		q := d.AllocateUnifiedMemory(ctx, 3*P) // placed on GPU 1
		ret := d.Distribute(ctx, q, 3*P, []int{2})
		if pg, ok := rig.PageTable.Find(ctx.VerifPID(), uint64(q)); ok && pg.DeviceID == 1 && len(ret) == 1 && ret[0] == 3*P {
			rec.Count("observed_distribute_to_one_gpu_leaves_pages_in_place", 1)
		}
	})
	if pv != nil {
		rec.Count("observed_unjudged_probe_panicked", 1)
	}
}

func replay(c *vlib.Check, b []byte) {
	var f struct {
		Witness struct {
			Scenario scenario `json:"scenario"`
		} `json:"witness"`
	}
	if err := json.Unmarshal(b, &f); err != nil {
		fmt.Println("cannot parse replay:", err)
		os.Exit(2)
	}
	sc := f.Witness.Scenario
	driver.VerifUseBuddyAllocator(sc.Buddy)
	fmt.Printf("[C10] replaying %s (%d ops)\n", sc.Name, len(sc.Ops))
	runScenario(c, &sc)
}

func main() {
	// read a replay file before vlib.Start, which removes stale replay files
	// of the same (tier, seed)
	var replayData []byte
	for i, a := range os.Args {
		if a == "--replay" && i+1 < len(os.Args) {
			b, err := os.ReadFile(os.Args[i+1])
			if err != nil {
				fmt.Println("cannot read replay:", err)
				os.Exit(2)
			}
			replayData = b
		}
	}
	c := vlib.Start("C10")
	{
		if replayData != nil {
			replay(c, replayData)
			c.Finish(vlib.FinishOpts{Rule: "replay of one recorded history", MinNontrivial: 0})
		}
	}
	nDefault := c.N(1600, 16000)
	nBuddy := c.N(400, 4000)
	nEngine := c.N(60, 600)
	steps := c.N(80, 240)
	if os.Getenv("C10_ONLY_CANONICAL") != "" { // debugging aid: the seed-independent battery alone
		nDefault, nBuddy, nEngine = 0, 0, 0
	}

	var def, bud []*scenario
	for _, sc := range canonical() {
		if sc.Buddy {
			bud = append(bud, sc)
		} else {
			def = append(def, sc)
		}
	}
	base := c.Rand("histories")
	for i := 0; i < nDefault; i++ {
		def = append(def, genScenario(base.ForkN("d", i), i, false, steps))
	}
	for i := 0; i < nEngine; i++ {
		def = append(def, genEngineCase(base.ForkN("e", i), i))
	}
	for i := 0; i < nBuddy; i++ {
		bud = append(bud, genScenario(base.ForkN("b", i), i, true, steps))
	}
	// The allocator kind is a process-global switch read when a device is
	// created: two phases.
	driver.VerifUseBuddyAllocator(false)
	observeUnjudged(c)
	vlib.Parallel(len(def), 0, func(i int) { runScenario(c, def[i]) })
	driver.VerifUseBuddyAllocator(true)
	vlib.Parallel(len(bud), 0, func(i int) { runScenario(c, bud[i]) })
	driver.VerifUseBuddyAllocator(false)

	c.Finish(vlib.FinishOpts{
		Rule: "history = (page size 2^12..2^16, 1-4 GPUs of 16-256 pages, default or buddy allocator, 1-4 processes, " +
			"sequence of Init/InitWithExistingPID/SelectGPU/CreateUnifiedGPU/AllocateMemory/AllocateUnifiedMemory/FreeMemory/Remap/Distribute " +
			"and fill-the-device probes), generated from VERIF_SEED plus a fixed canonical battery; after every call every page of every " +
			"buffer of every process is looked up in the real page table; non-trivial = distinct history in which a physical page " +
			"returned by a FreeMemory was observed being handed out again by a later allocation (and all invariants were checked afterwards)",
		Assumptions: []string{
			"device memory ranges are known by construction: one reserved page, CPU 4 GiB, then each GPU's DRAMSize in registration order",
			"histories stay within capacity by the monitor's own accounting, which treats pages replaced by Remap/Distribute as never returned (observed behaviour; not judged)",
			"buffers are freed through the context that allocated them; Remap/Distribute ranges are page aligned; Remap targets are real GPUs",
			"buddy allocator: 4 KiB pages, power-of-two DRAM sizes, no Distribute; 'within capacity' = an ideally coalescing buddy system could serve the request",
			"a history stops at its first violation (the shadow no longer describes the driver afterwards)",
			"page-migration preparation (AllocatePageWithGivenVAddr via the MMU port) is not driven here",
		},
		MinNontrivial: 50,
		MinCounters: map[string]int64{
			"op_alloc": 5000, "op_free": 1000, "op_remap": 300, "op_dist": 200, "op_allocu": 100, "op_unify": 50,
			"op_probe": 100, "overallocation_refused": 100, "free_k_reallocate_k_episodes": 30,
			"multi_page_buffers": 500, "page_lookups": 100000, "histories_buddy": 100, "histories_multi_process": 100,
			"engine_cases": 10,
		},
	})
}
