package main

import (
	"fmt"
	"runtime/debug"
	"strings"

	"github.com/sarchlab/akita/v4/mem/vm"
	"github.com/sarchlab/mgpusim/v4/amd/driver"

	"verifharness/vlib"
	"verifharness/vlib/drvkit"
)

// ---------------------------------------------------------------------------
// scenario description (JSON, replayable)

const (
	kInit    = "init"    // C = index of the new context (new process)
	kInitPID = "initpid" // C = index of the new context, From = context whose process it joins
	kSelect  = "select"  // SelectGPU(C, Dev)
	kUnify   = "unify"   // CreateUnifiedGPU(C, Devs)
	kAlloc   = "alloc"   // AllocateMemory(C, Size) on the context's current device
	kAllocU  = "allocu"  // AllocateUnifiedMemory(C, Size)
	kFree    = "free"    // FreeMemory(C, buffer Buf)
	kRemap   = "remap"   // Remap(C, ptr(Buf)+Off*page, Size, Dev)
	kDist    = "dist"    // Distribute(C, ptr(Buf), size(Buf), Devs)
	kProbe   = "probe"   // AllocateMemory(C, 1) on a device the monitor's accounting says is full
	// page-migration preparation: the fake MMU sends one
	// vm.PageMigrationReqToDriver for the pages listed in Migs (all of the
	// process of context C, all hosted by the same GPU), the fake command
	// processors acknowledge RDMA drain / shootdown / page copy / restarts, and
	// the engine runs until the driver has answered the MMU.
	kMigrate = "migrate"
)

// migPart: page Page of buffer Buf is requested by (migrates to) GPU Dev.
type migPart struct {
	Buf  int `json:"buf"`
	Page int `json:"page"`
	Dev  int `json:"dev"`
}

type op struct {
	K    string `json:"k"`
	C    int    `json:"c"`
	From int    `json:"from,omitempty"`
	Dev  int    `json:"dev,omitempty"`
	Devs []int  `json:"devs,omitempty"`
	Size uint64 `json:"size,omitempty"`
	Buf  int    `json:"buf"`
	Off  uint64 `json:"off,omitempty"`
	// Tight (Remap onto a unified device only): the unified device has room for
	// the range in total, but at least one member GPU on its own has not.
	Tight bool      `json:"tight,omitempty"`
	Migs  []migPart `json:"migs,omitempty"`
}

type steer struct {
	// NoMultiPageFree / NoCrossPIDFree make the generator avoid the two
	// operations that hit defects already confirmed on the pinned tree, so
	// that the rest of the state space is explored too. The canonical battery
	// and the unsteered histories still contain them.
	NoMultiPageFree bool `json:"no_multi_page_free,omitempty"`
	NoCrossPIDFree  bool `json:"no_cross_pid_free,omitempty"`
}

type scenario struct {
	Name     string `json:"name"`
	Log2Page uint64 `json:"log2_page"`
	Buddy    bool   `json:"buddy,omitempty"`
	GPUPages []int  `json:"gpu_pages"`
	MaxProc  int    `json:"max_proc,omitempty"`
	Steps    int    `json:"steps,omitempty"`
	FreeMode string `json:"free_mode,omitempty"` // lifo | fifo | random
	Steer    steer  `json:"steer"`
	Focus    string `json:"focus,omitempty"` // generator flavour: "" | unified | unified-small
	Canon    bool   `json:"canon,omitempty"` // member of the seed-independent battery (coverage rows "canon|...")
	Sib      bool   `json:"sib,omitempty"`   // generator flavour: several processes with sibling contexts created up front
	// Mig: the driver is built with fake command processors and a fake MMU
	// on a serial engine (drvkit Options.Migration) and the history contains
	// page migrations.
	Mig     bool        `json:"mig,omitempty"`
	GenSeed uint64      `json:"gen_seed,omitempty"` // 0: Ops is a fixed list
	Ops     []op        `json:"ops"`
	Engine  *engineCase `json:"engine,omitempty"`
}

// ---------------------------------------------------------------------------
// shadow model

const (
	devCPU = iota
	devGPU
	devUnified
)

type devInfo struct {
	id      int
	kind    int
	base    uint64 // first physical byte (by construction)
	size    uint64
	pages   int
	members []int
	used    int  // pages of this device the monitor believes are not free
	inexact bool // accounting over-approximates (never probed for exact fullness)
}

// block is the unit in which physical pages become reusable: a single page
// with the default allocator, a power-of-two run with the buddy allocator.
type block struct {
	dev     int
	base    uint64
	npages  int // extent (power of two under buddy)
	tracked int // pages of it not yet returned
}

type physOwner struct {
	pid    vm.PID
	vaddr  uint64
	leaked bool // replaced by Remap/Distribute; the driver never returns such pages
	blk    *block
	dev    int
}

type pageSt struct {
	vaddr   uint64
	class   []int  // devices whose memory may back the page (a unified device is expanded to its members)
	req     []int  // device ids the last placing operation named (the page may record one of them, or the backing device)
	classBy string // operation that set the class
	target  string // kind of the device that operation named (coverage rows)
	// unified: the page carries the Unified flag as far as the API tells
	// (AllocateUnifiedMemory and migration set it, Remap/Distribute clear
	// it); the MMU asks for the migration of unified pages only.
	unified bool
	hosts   []int // GPUs that have hosted the page (the MMU's "accessing GPUs"), current one last
	paddr   uint64
	seen    bool
}

type bufSt struct {
	serial int
	ctx    int
	pid    vm.PID
	ptr    uint64
	size   uint64
	pages  []*pageSt
	live   bool
	// freedVia: context the FreeMemory went through (-1 while live). Buffers
	// belong to the process: any context of it may free / remap / distribute.
	freedVia int
}

type ctxSt struct {
	ctx  *driver.Context
	pid  vm.PID
	cur  int
	bufs []int
}

type world struct {
	sc  *scenario
	rec vlib.Recorder
	rig *drvkit.Rig
	ps  uint64

	ctxs  []*ctxSt
	bufs  []*bufSt
	devs  []*devInfo
	pids  []vm.PID
	byPID map[vm.PID][]int
	phys  map[uint64]*physOwner
	// lastWriter[vaddr] = process that most recently allocated or remapped a
	// page at this virtual address (any process); used only for steering and
	// for naming the cross-process defect.
	lastWriter map[uint64]vm.PID

	done     []op
	failed   bool
	peakLive int
	livePgs  int

	sawReuse     bool // a physical page returned by a free was handed out again
	returned     map[uint64]bool
	retMig       map[uint64]int // frames handed out by a migration and returned by a free, not seen again yet -> device
	multiPgFree  bool
	fullEpisodes int

	sibStale int // walks x entries of buffers freed through a sibling still listed as not freed

	probeSucceeded bool
	lastProbeCtx   int
}

func (w *world) alloc() string {
	if w.sc.Buddy {
		return "buddy"
	}
	return "default"
}

func newWorld(rec vlib.Recorder, sc *scenario) *world {
	w := &world{sc: sc, rec: rec, ps: uint64(1) << sc.Log2Page,
		byPID: map[vm.PID][]int{}, phys: map[uint64]*physOwner{},
		lastWriter: map[uint64]vm.PID{}, returned: map[uint64]bool{}, retMig: map[uint64]int{}}
	var props []driver.DeviceProperties
	for i, p := range sc.GPUPages {
		props = append(props, driver.DeviceProperties{CUCount: 4 + i, DRAMSize: uint64(p) * w.ps})
	}
	w.rig = drvkit.NewRig(drvkit.Options{Log2Page: sc.Log2Page, GPUs: props, Migration: sc.Mig})
	// physical layout by construction: one reserved page, the CPU's 4 GiB,
	// then each GPU's DRAM in registration order
	// (internal.NewMemoryAllocator / RegisterDevice / Builder.createCPU).
	next := w.ps
	w.devs = append(w.devs, &devInfo{id: 0, kind: devCPU, base: next, size: drvkit.CPUBytes, pages: int(drvkit.CPUBytes / w.ps)})
	next += drvkit.CPUBytes
	for i, p := range sc.GPUPages {
		w.devs = append(w.devs, &devInfo{id: i + 1, kind: devGPU, base: next, size: uint64(p) * w.ps, pages: p})
		next += uint64(p) * w.ps
	}
	return w
}

func (w *world) numGPU() int { return len(w.sc.GPUPages) }

// devOfPAddr: device whose range (by construction) contains pa, or -1.
func (w *world) devOfPAddr(pa uint64) int {
	for _, d := range w.devs {
		if d.kind != devUnified && pa >= d.base && pa < d.base+d.size {
			return d.id
		}
	}
	return -1
}

func (w *world) witness(extra map[string]any) map[string]any {
	sc := *w.sc
	sc.Ops = append([]op(nil), w.done...)
	sc.GenSeed = 0
	m := map[string]any{"scenario": sc, "failing_step": len(w.done) - 1}
	for k, v := range extra {
		m[k] = v
	}
	return m
}

func (w *world) viol(key, what string, extra map[string]any) {
	if w.failed {
		return
	}
	w.failed = true
	w.rec.Violation("C10|"+key, fmt.Sprintf("%s [step %d of %s]", what, len(w.done)-1, w.sc.Name), w.witness(extra))
}

// call runs one driver API call and contains its panic.
func call(f func()) (pv any, stack string) {
	defer func() {
		if x := recover(); x != nil {
			pv = x
			stack = string(debug.Stack())
		}
	}()
	f()
	return nil, ""
}

func panicClass(pv any) string {
	s := fmt.Sprint(pv)
	s = strings.Map(func(r rune) rune {
		if r >= '0' && r <= '9' {
			return -1
		}
		return r
	}, s)
	if len(s) > 60 {
		s = s[:60]
	}
	return strings.ReplaceAll(strings.TrimSpace(s), " ", "-")
}

func trimStack(s string) string {
	var keep []string
	for _, l := range strings.Split(s, "\n") {
		if strings.Contains(l, "mgpusim") || strings.Contains(l, "akita") {
			keep = append(keep, strings.TrimSpace(l))
		}
		if len(keep) >= 12 {
			break
		}
	}
	return strings.Join(keep, " | ")
}

// opTargets: the devices whose memory the step asks for.
func (w *world) opTargets(o op) []int {
	var out []int
	switch o.K {
	case kAlloc, kProbe:
		out = w.physOf(w.ctxs[o.C].cur)
	case kAllocU:
		out = []int{1}
	case kRemap:
		out = w.physOf(o.Dev)
	case kDist:
		for _, d := range o.Devs {
			out = append(out, w.physOf(d)...)
		}
	case kMigrate:
		for _, m := range o.Migs {
			out = append(out, m.Dev)
		}
	}
	return out
}

func (w *world) crash(o op, pv any, stack string) {
	// a within-capacity request fails for lack of memory while frames that a
	// migration had handed out, and a FreeMemory should have returned, have
	// not been seen again on the device asked
	if msg := fmt.Sprint(pv); strings.Contains(msg, "memory") || strings.Contains(msg, "index out of range") {
		tg := w.opTargets(o)
		if len(tg) > 0 && (o.K == kAlloc || o.K == kProbe) && w.devs[w.ctxs[o.C].cur].kind == devUnified {
			tg = nil // which member was asked is not known
		}
		if o.K == kRemap && w.devs[o.Dev].kind == devUnified || o.K == kDist {
			tg = nil
		}
		for _, d := range tg {
			for pa, dev := range w.retMig {
				if dev == d {
					w.viol("free-after-migrate|frame-handed-out-by-the-migration-is-not-reusable|"+w.alloc(),
						fmt.Sprintf("%s on device %d panicked (%v) although it is within capacity: frame 0x%x of that device, handed out by a page migration and returned by a later FreeMemory, has not become reusable", o.K, d, pv, pa),
						map[string]any{"panic": msg, "stack": trimStack(stack), "frames_returned_after_migration_not_seen_again": len(w.retMig)})
					return
				}
			}
		}
	}
	w.viol(fmt.Sprintf("crash|%s|%s|%s", o.K, panicClass(pv), w.alloc()),
		fmt.Sprintf("driver panicked on a valid, within-capacity %s: %v", o.K, pv),
		map[string]any{"panic": fmt.Sprint(pv), "stack": trimStack(stack)})
}

func npagesOf(size, ps uint64) int { return int((size + ps - 1) / ps) }

func pow2ceil(n int) int {
	p := 1
	for p < n {
		p <<= 1
	}
	return p
}

// ---------------------------------------------------------------------------
// capacity accounting (the monitor's own; keeps histories within capacity)

func (w *world) freePages(dev int) int {
	d := w.devs[dev]
	if d.kind == devUnified {
		n := 0
		for _, m := range d.members {
			n += w.freePages(m)
		}
		return n
	}
	return d.pages - d.used
}

// occupancy bitmap of a GPU (buddy mode): pages covered by a block that still
// has unreturned pages.
func (w *world) occupancy(dev int) []bool {
	d := w.devs[dev]
	occ := make([]bool, d.pages)
	seen := map[*block]bool{}
	for _, o := range w.phys {
		if o.dev != dev || seen[o.blk] {
			continue
		}
		seen[o.blk] = true
		first := int((o.blk.base - d.base) / w.ps)
		for i := 0; i < o.blk.npages && first+i < d.pages; i++ {
			occ[first+i] = true
		}
	}
	return occ
}

// canTake: can n pages be allocated on dev by ONE allocator request
// (contiguous=true: Remap, which under the buddy allocator needs one aligned
// power-of-two run) or by n single-page requests (contiguous=false)?
func (w *world) canTake(dev, n int, contiguous bool) bool {
	d := w.devs[dev]
	if d.kind == devCPU {
		// 4 GiB; histories place a few hundred pages at most
		return d.pages-d.used >= 4096+pow2ceil(n)
	}
	if d.kind == devUnified {
		if contiguous {
			// one request is served by ONE member GPU; which one is the
			// implementation's business: every member must have the room
			for _, m := range d.members {
				if !w.canTake(m, n, true) {
					return false
				}
			}
			return true
		}
		return w.freePages(dev) >= n
	}
	if !w.sc.Buddy || !contiguous || n == 1 {
		return w.freePages(dev) >= n
	}
	need := pow2ceil(n)
	occ := w.occupancy(dev)
	for s := 0; s+need <= d.pages; s += need {
		ok := true
		for i := 0; i < need; i++ {
			if occ[s+i] {
				ok = false
				break
			}
		}
		if ok {
			return true
		}
	}
	return false
}

// ---------------------------------------------------------------------------
// observation of pages through the real page table

// lookup reads one page of a live buffer and checks everything that can be
// said about a single page. fresh = the page was (re)allocated by the step
// just executed, so its physical page is registered now.
func (w *world) lookup(b *bufSt, i int, fresh bool, by string) bool {
	p := b.pages[i]
	w.rec.Count("page_lookups", 1)
	pg, found := w.rig.PageTable.Find(b.pid, p.vaddr)
	desc := map[string]any{"pid": b.pid, "buffer": b.serial, "page_index": i, "vaddr": p.vaddr}
	if !found {
		w.viol("live-page-not-mapped|after-"+by+"|"+w.alloc(),
			fmt.Sprintf("page %d (vaddr 0x%x) of live buffer %d of process %d is not in the page table", i, p.vaddr, b.serial, b.pid), desc)
		return false
	}
	desc["page"] = fmt.Sprintf("%+v", pg)
	if pg.PID != b.pid || pg.VAddr != p.vaddr || pg.PageSize != w.ps || !pg.Valid {
		w.viol("page-entry-fields-wrong|"+w.alloc(),
			fmt.Sprintf("page table entry for (pid %d, 0x%x) carries PID=%d VAddr=0x%x PageSize=%d Valid=%v", b.pid, p.vaddr, pg.PID, pg.VAddr, pg.PageSize, pg.Valid), desc)
		return false
	}
	if pg.PAddr%w.ps != 0 {
		w.viol("paddr-unaligned|"+w.alloc(), fmt.Sprintf("PAddr 0x%x is not a multiple of the page size %d", pg.PAddr, w.ps), desc)
		return false
	}
	// "inside the memory of the device recorded for it": the backing device
	// (by construction of the physical layout) is the recorded one, or the
	// recorded one is a unified device and the backing device is one of its
	// member GPUs (a unified device has no memory of its own).
	dev := w.devOfPAddr(pg.PAddr)
	recOK := dev >= 0 && uint64(dev) == pg.DeviceID
	if !recOK && dev >= 0 && pg.DeviceID < uint64(len(w.devs)) && w.devs[pg.DeviceID].kind == devUnified {
		for _, m := range w.devs[pg.DeviceID].members {
			if m == dev {
				recOK = true
			}
		}
		if recOK && fresh {
			w.rec.Count("pages_recorded_under_a_unified_device_id", 1)
		}
	}
	if !recOK {
		kind := "none"
		if dev >= 0 {
			kind = fmt.Sprintf("dev%d", dev)
		}
		rk := "unknown"
		if pg.DeviceID < uint64(len(w.devs)) {
			rk = []string{"cpu", "gpu", "unified"}[w.devs[pg.DeviceID].kind]
		}
		w.viol(fmt.Sprintf("paddr-outside-recorded-device|recorded-%s|after-%s|%s", rk, p.classBy, w.alloc()),
			fmt.Sprintf("PAddr 0x%x lies in the memory of %s but the page records DeviceID %d (%s)", pg.PAddr, kind, pg.DeviceID, w.kindName(int(pg.DeviceID))), desc)
		return false
	}
	if uint64(dev) != pg.DeviceID {
		// recorded under a unified id: it must be one the placing operation named
		named := false
		for _, q := range p.req {
			if uint64(q) == pg.DeviceID {
				named = true
			}
		}
		if !named {
			w.viol(fmt.Sprintf("recorded-unified-device-not-requested|after-%s|%s", p.classBy, w.alloc()),
				fmt.Sprintf("page records unified device %d which the %s did not name (named: %v)", pg.DeviceID, p.classBy, p.req), desc)
			return false
		}
	}
	inClass := false
	for _, c := range p.class {
		if c == dev {
			inClass = true
		}
	}
	if !inClass {
		w.viol(fmt.Sprintf("device-not-in-requested-class|after-%s|%s", p.classBy, w.alloc()),
			fmt.Sprintf("page lives on device %d, requested: one of %v (by %s)", dev, p.class, p.classBy), desc)
		return false
	}
	var got int
	if pv, _ := call(func() { got = w.rig.Driver.VerifDeviceIDByPAddr(pg.PAddr) }); pv != nil || got != dev {
		w.viol("allocator-disagrees-with-page-table-on-device|"+w.alloc(),
			fmt.Sprintf("allocator says PAddr 0x%x is on device %d (panic %v), page table says %d", pg.PAddr, got, pv, dev), desc)
		return false
	}
	if !fresh {
		if !p.seen || p.paddr != pg.PAddr {
			w.viol("mapping-changed-without-request|"+w.alloc(),
				fmt.Sprintf("PAddr of (pid %d, 0x%x) changed from 0x%x to 0x%x although the last step did not touch it", b.pid, p.vaddr, p.paddr, pg.PAddr), desc)
			return false
		}
		return true
	}
	// fresh page: register ownership of the physical page
	if p.seen && p.paddr == pg.PAddr {
		return true // remap left the page where it was
	}
	if o, ok := w.phys[pg.PAddr]; ok && !o.leaked {
		desc["other_owner"] = fmt.Sprintf("pid %d vaddr 0x%x", o.pid, o.vaddr)
		w.viol("physical-page-handed-out-while-owned|"+w.alloc(),
			fmt.Sprintf("PAddr 0x%x was given to (pid %d, 0x%x) while (pid %d, 0x%x) still maps it", pg.PAddr, b.pid, p.vaddr, o.pid, o.vaddr), desc)
		return false
	} else if ok && o.leaked {
		// a page the monitor had written off came back: accounting only
		w.rec.Count("written_off_page_seen_again_"+w.alloc(), 1)
		w.releasePage(pg.PAddr)
	}
	if p.seen {
		// the old physical page is not returned by Remap/Distribute
		// (observed, not judged): it stays consumed
		if o := w.phys[p.paddr]; o != nil {
			o.leaked = true
			w.rec.Count("pages_written_off_by_remap", 1)
		}
	}
	if w.returned[pg.PAddr] {
		w.sawReuse = true
		delete(w.returned, pg.PAddr)
		if _, ok := w.retMig[pg.PAddr]; ok {
			delete(w.retMig, pg.PAddr)
			w.rec.Count("frames_from_a_migration_reused_after_free", 1)
		}
	}
	p.paddr, p.seen = pg.PAddr, true
	w.phys[pg.PAddr] = &physOwner{pid: b.pid, vaddr: p.vaddr, dev: dev}
	return true
}

// setBlocks groups freshly registered pages into reuse units.
func (w *world) setBlocks(pas []uint64, oneRequest bool) {
	if len(pas) == 0 {
		return
	}
	if !w.sc.Buddy || !oneRequest || len(pas) == 1 {
		for _, pa := range pas {
			o := w.phys[pa]
			o.blk = &block{dev: o.dev, base: pa, npages: 1, tracked: 1}
			w.devs[o.dev].used++
		}
		return
	}
	// one buddy request: a power-of-two run starting at the lowest address
	lo := pas[0]
	for _, pa := range pas {
		if pa < lo {
			lo = pa
		}
	}
	n := pow2ceil(len(pas))
	blk := &block{dev: w.phys[lo].dev, base: lo, npages: n, tracked: len(pas)}
	for _, pa := range pas {
		w.phys[pa].blk = blk
	}
	// the rounding waste is consumed as long as the block lives
	w.devs[blk.dev].used += n
}

// walk checks every page of every process after a step.
func (w *world) walk(by string) bool {
	seen := map[uint64]*bufSt{}
	live := 0
	for _, pid := range w.pids {
		for _, s := range w.byPID[pid] {
			b := w.bufs[s]
			if b.live {
				for i, p := range b.pages {
					if !w.lookup(b, i, false, by) {
						return false
					}
					if ob, dup := seen[p.paddr]; dup {
						w.viol("physical-page-shared-by-two-live-pages|"+w.alloc(),
							fmt.Sprintf("PAddr 0x%x backs a page of buffer %d (pid %d) and of buffer %d (pid %d)", p.paddr, ob.serial, ob.pid, b.serial, b.pid), nil)
						return false
					}
					seen[p.paddr] = b
					live++
				}
				continue
			}
			for i, p := range b.pages {
				w.rec.Count("page_lookups", 1)
				if pg, found := w.rig.PageTable.Find(b.pid, p.vaddr); found {
					w.viol("freed-page-mapped-again|"+w.alloc(),
						fmt.Sprintf("page %d (0x%x) of freed buffer %d of process %d is in the page table (%+v)", i, p.vaddr, b.serial, b.pid, pg), nil)
					return false
				}
			}
		}
	}
	w.livePgs = live
	if live > w.peakLive {
		w.peakLive = live
	}
	// buffer bookkeeping of every context
	for ci, c := range w.ctxs {
		vb := c.ctx.VerifBuffers()
		ok := len(vb) == len(c.bufs) && c.ctx.VerifPID() == c.pid
		for j := 0; ok && j < len(vb); j++ {
			b := w.bufs[c.bufs[j]]
			ok = uint64(vb[j].Ptr) == b.ptr && vb[j].Size == b.size && vb[j].PID == b.pid
			if !b.live && b.freedVia != ci {
				// freed through a sibling context: FreeMemory marks the entry
				// of the CALLING context only, the allocating context keeps
				// listing the buffer as not freed (observed, not judged: the
				// list only steers cache flushes)
				if !vb[j].Freed {
					w.sibStale++
				}
			} else if vb[j].Freed == b.live {
				ok = false
			}
		}
		if !ok {
			w.viol("context-buffer-list-disagrees|"+w.alloc(),
				fmt.Sprintf("context %d: driver lists %d buffers, monitor %d, or an entry differs", ci, len(vb), len(c.bufs)),
				map[string]any{"driver": fmt.Sprintf("%+v", vb)})
			return false
		}
	}
	w.rec.Count("walks", 1)
	return true
}

// precheck applies to a fixed (canonical) step the rules the generator obeys:
// indices valid, buffers owned by the calling context's process and live,
// requests within capacity by the monitor's accounting. "" = fine.
func (w *world) precheck(o op) string {
	needCtx := o.K != kInit
	if needCtx && (o.C < 0 || o.C >= len(w.ctxs)) {
		if o.K == kInitPID && o.C == len(w.ctxs) {
			needCtx = false
		} else {
			return "no such context"
		}
	}
	badDev := func(d int) bool { return d < 0 || d >= len(w.devs) }
	bufOf := func() (*bufSt, string) {
		if o.Buf < 0 || o.Buf >= len(w.bufs) {
			return nil, "no such buffer"
		}
		b := w.bufs[o.Buf]
		if !b.live {
			return nil, "buffer already freed"
		}
		if b.pid != w.ctxs[o.C].pid {
			return nil, "buffer belongs to another process"
		}
		return b, ""
	}
	switch o.K {
	case kInit:
		if o.C != len(w.ctxs) {
			return "context index is not the next one"
		}
	case kInitPID:
		if o.C != len(w.ctxs) || o.From < 0 || o.From >= len(w.ctxs) {
			return "bad context indices"
		}
	case kSelect:
		if badDev(o.Dev) {
			return "no such device"
		}
	case kUnify:
		if len(o.Devs) == 0 {
			return "empty member list"
		}
		for _, d := range o.Devs {
			if badDev(d) || w.devs[d].kind != devGPU {
				return "member is not an actual GPU"
			}
		}
	case kAlloc:
		if o.Size == 0 || !w.canTake(w.ctxs[o.C].cur, npagesOf(o.Size, w.ps), false) {
			return "not within the capacity of the current device"
		}
	case kAllocU:
		if o.Size == 0 || !w.canTake(1, npagesOf(o.Size, w.ps), false) {
			return "not within the capacity of GPU 1"
		}
	case kProbe:
		if w.freePages(w.ctxs[o.C].cur) != 0 {
			return "the current device is not full"
		}
	case kFree:
		b, why := bufOf()
		if why != "" {
			return why
		}
		_ = b // any context of the owning process may free (checked by bufOf)
	case kRemap:
		b, why := bufOf()
		if why != "" {
			return why
		}
		n := npagesOf(o.Size, w.ps)
		if o.Size == 0 || int(o.Off)+n > len(b.pages) || badDev(o.Dev) {
			return "range outside the buffer / no such device"
		}
		if o.Tight {
			d := w.devs[o.Dev]
			if d.kind != devUnified || w.sc.Buddy || w.canTake(o.Dev, n, true) || w.freePages(o.Dev) < n {
				return "not a tight remap onto a unified device"
			}
		} else if !w.canTake(o.Dev, n, true) {
			return "target device (or one of its members) has not the room"
		}
	case kMigrate:
		_, why := w.checkMigrate(o)
		return why
	case kDist:
		b, why := bufOf()
		if why != "" {
			return why
		}
		if w.sc.Buddy || len(o.Devs) == 0 {
			return "Distribute is not driven under the buddy allocator / empty list"
		}
		for _, d := range o.Devs {
			if badDev(d) {
				return "no such device"
			}
			if len(o.Devs) > 1 {
				for _, m := range w.physOf(d) {
					if !w.canTake(m, len(b.pages), false) {
						return "a reachable GPU has not the room for the whole buffer"
					}
				}
			}
		}
	}
	return ""
}

// ---------------------------------------------------------------------------
// executor: one step on the real driver and on the shadow

func (w *world) exec(o op) bool {
	if w.failed {
		return false
	}
	w.done = append(w.done, o)
	w.rec.Count("op_"+o.K, 1)
	w.rec.Count("api_calls", 1)
	d := w.rig.Driver
	switch o.K {
	case kInit, kInitPID:
		var c *driver.Context
		pv, st := call(func() {
			if o.K == kInit {
				c = d.Init()
			} else {
				c = d.InitWithExistingPID(w.ctxs[o.From].ctx)
			}
		})
		if pv != nil {
			w.crash(o, pv, st)
			return false
		}
		pid := c.VerifPID()
		if o.K == kInitPID && pid != w.ctxs[o.From].pid {
			w.viol("initpid-wrong-pid", fmt.Sprintf("InitWithExistingPID gave pid %d, expected %d", pid, w.ctxs[o.From].pid), nil)
			return false
		}
		if o.K == kInit {
			for _, q := range w.pids {
				if q == pid {
					w.viol("init-reused-pid", fmt.Sprintf("Init returned pid %d which another context of this driver already has", pid), nil)
					return false
				}
			}
			w.pids = append(w.pids, pid)
		}
		w.ctxs = append(w.ctxs, &ctxSt{ctx: c, pid: pid, cur: 1})

	case kSelect:
		if pv, st := call(func() { d.SelectGPU(w.ctxs[o.C].ctx, o.Dev) }); pv != nil {
			w.crash(o, pv, st)
			return false
		}
		w.ctxs[o.C].cur = o.Dev
		w.cov("select|target=" + w.kindName(o.Dev))

	case kUnify:
		var id int
		if pv, st := call(func() { id = d.CreateUnifiedGPU(w.ctxs[o.C].ctx, append([]int(nil), o.Devs...)) }); pv != nil {
			w.crash(o, pv, st)
			return false
		}
		if id != len(w.devs) {
			w.viol("unified-device-id", fmt.Sprintf("CreateUnifiedGPU returned %d, expected the next device id %d", id, len(w.devs)), nil)
			return false
		}
		nth, overlap := 1, "n"
		for _, dv := range w.devs {
			if dv.kind != devUnified {
				continue
			}
			nth++
			for _, m := range dv.members {
				for _, q := range o.Devs {
					if m == q {
						overlap = "y"
					}
				}
			}
		}
		w.devs = append(w.devs, &devInfo{id: id, kind: devUnified, members: append([]int(nil), o.Devs...)})
		w.cov(fmt.Sprintf("unify|k=%d", len(o.Devs)))
		w.cov(fmt.Sprintf("unify|nth=%d|shares-member-with-earlier=%s", nth, overlap))

	case kAlloc, kAllocU, kProbe:
		return w.execAlloc(o)

	case kFree:
		return w.execFree(o)

	case kMigrate:
		return w.execMigrate(o)

	case kRemap:
		b := w.bufs[o.Buf]
		addr := b.ptr + o.Off*w.ps
		if pv, st := call(func() { d.Remap(w.ctxs[o.C].ctx, addr, o.Size, o.Dev) }); pv != nil {
			if o.Tight {
				dv := w.devs[o.Dev]
				var room []int
				for _, m := range dv.members {
					room = append(room, w.freePages(m))
				}
				w.viol("crash|remap-onto-unified-device|one-member-short-of-room-while-the-device-has-room|"+w.alloc(),
					fmt.Sprintf("Remap of %d pages onto unified device %d (members %v with %v free pages, %d in total) panicked: %v",
						npagesOf(o.Size, w.ps), o.Dev, dv.members, room, w.freePages(o.Dev), pv),
					map[string]any{"panic": fmt.Sprint(pv), "stack": trimStack(st), "members": dv.members, "free_pages_per_member": room})
				return false
			}
			w.crash(o, pv, st)
			return false
		}
		n := npagesOf(o.Size, w.ps)
		if n > 1 {
			w.rec.Count("multi_page_remaps", 1)
		}
		w.covTarget("remap", "target", o.Dev, n)
		w.cov("remap|over-pages-placed-by=" + b.pages[o.Off].classBy)
		w.cov("remap|" + w.via(o.C, b))
		w.cov("remap|target=" + w.kindName(o.Dev) + "|" + sizeClass(o.Size, w.ps))
		if o.Tight {
			w.cov("remap|target=" + w.kindName(o.Dev) + "|a-member-has-less-room-than-the-range")
		}
		var fresh []uint64
		for i := int(o.Off); i < int(o.Off)+n; i++ {
			p := b.pages[i]
			old, had := p.paddr, p.seen
			p.class, p.req, p.classBy, p.target = w.physOf(o.Dev), []int{o.Dev}, kRemap, w.kindName(o.Dev)
			p.unified, p.hosts = false, nil
			w.lastWriter[p.vaddr] = b.pid
			if !w.lookup(b, i, true, kRemap) {
				return false
			}
			if !had || old != p.paddr {
				fresh = append(fresh, p.paddr)
			}
		}
		w.setBlocks(fresh, true)
		if dv := w.devs[o.Dev]; dv.kind == devUnified && len(dv.members) > 1 {
			// observed, not judged: which member GPU served the request, and
			// whether one request was spread over several members
			served := map[int]bool{}
			for i := int(o.Off); i < int(o.Off)+n; i++ {
				served[w.phys[b.pages[i].paddr].dev] = true
			}
			if len(served) > 1 {
				w.rec.Count("observed|remap-onto-unified|one-request-spread-over-several-members", 1)
			} else {
				for i, m := range dv.members {
					if served[m] {
						w.rec.Count(fmt.Sprintf("observed|remap-onto-unified|served-by-member-index=%d", i), 1)
					}
				}
			}
		}

	case kDist:
		b := w.bufs[o.Buf]
		var ret []uint64
		if pv, st := call(func() {
			ret = d.Distribute(w.ctxs[o.C].ctx, driver.Ptr(b.ptr), b.size, append([]int(nil), o.Devs...))
		}); pv != nil {
			w.crash(o, pv, st)
			return false
		}
		w.rec.Distinct("distribute_width", fmt.Sprint(len(o.Devs)))
		w.cov("dist|list|" + listShape(w, o.Devs))
		w.cov("dist|over-pages-placed-by=" + b.pages[0].classBy)
		w.cov("dist|" + w.via(o.C, b))
		w.cov(fmt.Sprintf("dist|list-length=%d", len(o.Devs)))
		if len(ret) != len(o.Devs) {
			w.viol("distribute-return-length", fmt.Sprintf("Distribute over %d GPUs returned %d counts", len(o.Devs), len(ret)), nil)
			return false
		}
		if len(o.Devs) == 1 {
			// the driver treats this as "leave the buffer where it is"
			// (observed, not judged); nothing may change
			w.covTarget("dist", "only-entry", o.Devs[0], len(b.pages))
			break
		}
		// The returned byte counts are per list ENTRY, in list order, and the
		// buffer is cut into consecutive segments in that order (callers
		// compute which GPU works on which part from them): entry i owns the
		// pages [sum(ret[:i]), sum(ret[:i+1])) / pageSize and they must lie
		// on the device it names (a member GPU if it names a unified device).
		var sum uint64
		for i := range o.Devs {
			if ret[i]%w.ps != 0 {
				w.viol("distribute-return-not-page-multiple", fmt.Sprintf("Distribute reports %d bytes for list entry %d, not a multiple of the page size", ret[i], i),
					map[string]any{"returned": ret, "gpus": o.Devs})
				return false
			}
			sum += ret[i]
		}
		if sum != uint64(len(b.pages))*w.ps {
			w.viol("distribute-return-sum", fmt.Sprintf("Distribute reports %d bytes in total for a buffer of %d pages", sum, len(b.pages)),
				map[string]any{"returned": ret, "gpus": o.Devs})
			return false
		}
		var fresh []uint64
		pi := 0
		for e, g := range o.Devs {
			ne := int(ret[e] / w.ps)
			w.covTarget("dist", "entry-target", g, ne)
			for j := 0; j < ne; j++ {
				i := pi + j
				p := b.pages[i]
				old, had := p.paddr, p.seen
				p.class, p.req, p.classBy, p.target = w.physOf(g), []int{g}, kDist, w.kindName(g)
				p.unified, p.hosts = false, nil
				w.lastWriter[p.vaddr] = b.pid
				if !w.lookup(b, i, true, kDist) {
					return false
				}
				if !had || old != p.paddr {
					fresh = append(fresh, p.paddr)
				}
			}
			pi += ne
		}
		w.setBlocks(fresh, false)
	default:
		panic("unknown op " + o.K)
	}
	return w.walk(o.K)
}

func (w *world) execAlloc(o op) bool {
	d := w.rig.Driver
	c := w.ctxs[o.C]
	var ptr driver.Ptr
	size := o.Size
	if o.K == kProbe {
		size = 1
	}
	pv, st := call(func() {
		if o.K == kAllocU {
			ptr = d.AllocateUnifiedMemory(c.ctx, size)
		} else {
			ptr = d.AllocateMemory(c.ctx, size)
		}
	})
	if o.K == kProbe {
		if pv != nil {
			w.rec.Count("overallocation_refused", 1)
			w.cov("probe-refused|cur=" + w.kindName(c.cur))
			w.fullEpisodes++
			w.rec.Count("full_device_episodes", 1)
			return w.walk(o.K)
		}
		// the allocation succeeded although the monitor's accounting says the
		// device is full; judged below: the page must be one the monitor had
		// written off (old side of a remap), never a page that is still owned.
		w.rec.Count("overallocation_succeeded_"+w.alloc(), 1)
		w.probeSucceeded, w.lastProbeCtx = true, o.C
	} else if pv != nil {
		w.crash(o, pv, st)
		return false
	}
	tgt := c.cur
	if o.K == kAllocU {
		tgt = 1
	}
	class := w.physOf(tgt)
	n := npagesOf(size, w.ps)
	switch o.K {
	case kAllocU:
		w.cov("allocu|" + pclass(n, 1))
		w.cov("allocu|" + sizeClass(size, w.ps))
	case kAlloc:
		w.covTarget("alloc", "cur", tgt, n)
		through := "through=first-context-of-the-process"
		for i, oc := range w.ctxs {
			if oc.pid == c.pid {
				if i != o.C {
					through = "through=sibling-context"
				}
				break
			}
		}
		w.cov("alloc|" + through)
		w.cov("alloc|cur=" + w.kindName(tgt) + "|" + sizeClass(size, w.ps))
	}
	b := &bufSt{serial: len(w.bufs), ctx: o.C, pid: c.pid, ptr: uint64(ptr), size: size, live: true, freedVia: -1}
	desc := map[string]any{"ptr": uint64(ptr), "size": size}
	if b.ptr%w.ps != 0 {
		w.viol("pointer-unaligned|"+w.alloc(), fmt.Sprintf("%s returned 0x%x, not a multiple of the page size %d", o.K, b.ptr, w.ps), desc)
		return false
	}
	if b.ptr == 0 {
		w.viol("pointer-null|"+w.alloc(), o.K+" returned address 0", desc)
		return false
	}
	end := b.ptr + uint64(n)*w.ps
	for _, s := range w.byPID[c.pid] {
		ob := w.bufs[s]
		if ob.live && b.ptr < ob.ptr+uint64(len(ob.pages))*w.ps && ob.ptr < end {
			w.viol("pointer-overlaps-live-buffer|"+w.alloc(),
				fmt.Sprintf("%s returned [0x%x,0x%x) which overlaps live buffer %d [0x%x,+%d pages) of the same process", o.K, b.ptr, end, ob.serial, ob.ptr, len(ob.pages)), desc)
			return false
		}
	}
	for i := 0; i < n; i++ {
		b.pages = append(b.pages, &pageSt{vaddr: b.ptr + uint64(i)*w.ps, class: class, req: []int{tgt}, classBy: o.K, target: w.kindName(tgt), unified: o.K == kAllocU})
	}
	w.bufs = append(w.bufs, b)
	w.byPID[c.pid] = append(w.byPID[c.pid], b.serial)
	c.bufs = append(c.bufs, b.serial)
	if n > 1 {
		w.rec.Count("multi_page_buffers", 1)
	}
	var fresh []uint64
	for i := range b.pages {
		w.lastWriter[b.pages[i].vaddr] = b.pid
		if !w.lookup(b, i, true, o.K) {
			return false
		}
		fresh = append(fresh, b.pages[i].paddr)
		if o.K == kAllocU {
			b.pages[i].hosts = []int{1}
		}
	}
	w.setBlocks(fresh, false)
	return w.walk(o.K)
}

func (w *world) execFree(o op) bool {
	b := w.bufs[o.Buf]
	c := w.ctxs[o.C]
	var err error
	if pv, st := call(func() { err = w.rig.Driver.FreeMemory(c.ctx, driver.Ptr(b.ptr)) }); pv != nil {
		if lw, ok := w.lastWriter[b.ptr]; ok && lw != b.pid && !w.hasLivePage(lw, b.ptr) {
			// the allocator's vaddr->page mirror holds the (already freed)
			// page of another process at this virtual address
			w.viol("free-acts-on-other-process-page-at-same-vaddr|stale-entry-crash",
				fmt.Sprintf("process %d freed 0x%x: the driver tried to unmap the page of process %d at the same virtual address, which that process had already freed, and panicked: %v", b.pid, b.ptr, lw, pv),
				map[string]any{"panic": fmt.Sprint(pv), "stack": trimStack(st), "victim_pid": lw})
			return false
		}
		w.crash(o, pv, st)
		return false
	}
	if err != nil {
		w.viol("free-returned-error", fmt.Sprintf("FreeMemory of a live buffer returned %v", err), nil)
		return false
	}
	if len(b.pages) > 1 {
		w.rec.Count("multi_page_frees", 1)
		w.multiPgFree = true
	}
	w.cov("free|placed-by=" + w.placementOf(b) + "|" + pclass(len(b.pages), 1))
	w.cov("free|" + w.via(o.C, b) + "|other-process-has-same-vaddr=" + w.sameVAddrElsewhere(b))
	// post-condition of this free, before the global walk, so that the two
	// defects confirmed on the pinned tree get their own keys
	var still []int
	for i, p := range b.pages {
		w.rec.Count("page_lookups", 1)
		if _, found := w.rig.PageTable.Find(b.pid, p.vaddr); found {
			still = append(still, i)
		}
	}
	if len(still) > 0 {
		desc := map[string]any{"buffer": b.serial, "pid": b.pid, "ptr": b.ptr, "pages": len(b.pages), "pages_still_mapped": still}
		if still[0] == 0 {
			// is a page of ANOTHER process at the same virtual address gone instead?
			for _, lw := range w.pids {
				if lw == b.pid {
					continue
				}
				if _, found := w.rig.PageTable.Find(lw, b.ptr); !found && w.hasLivePage(lw, b.ptr) {
					desc["victim_pid"] = lw
					w.viol("free-acts-on-other-process-page-at-same-vaddr|victim-unmapped",
						fmt.Sprintf("process %d freed 0x%x: its own page is still mapped, the live page of process %d at the same virtual address was unmapped instead", b.pid, b.ptr, lw), desc)
					return false
				}
			}
			w.viol("free-leaves-first-page-mapped|"+w.alloc(),
				fmt.Sprintf("after FreeMemory(0x%x) pages %v of the buffer are still in the page table", b.ptr, still), desc)
			return false
		}
		if len(still) == len(b.pages)-1 {
			w.viol("free-multipage-leaves-tail-mapped",
				fmt.Sprintf("after FreeMemory(0x%x) of a %d-page buffer only its first page was unmapped; pages %v are still in the page table", b.ptr, len(b.pages), still), desc)
			return false
		}
		w.viol("free-leaves-some-pages-mapped|"+w.alloc(),
			fmt.Sprintf("after FreeMemory(0x%x) of a %d-page buffer pages %v are still in the page table", b.ptr, len(b.pages), still), desc)
		return false
	}
	b.live = false
	b.freedVia = o.C
	for _, p := range b.pages {
		w.returned[p.paddr] = true
		if p.classBy == kMigrate {
			if o := w.phys[p.paddr]; o != nil {
				w.retMig[p.paddr] = o.dev
			}
		}
		w.releasePage(p.paddr)
	}
	return w.walk(o.K)
}

// via: was the step issued through the context that allocated the buffer or
// through a sibling (another context of the same process)?
func (w *world) via(c int, b *bufSt) string {
	if c == b.ctx {
		return "via=allocating-context"
	}
	return "via=sibling"
}

// sameVAddrElsewhere: does another process hold a LIVE buffer that starts at
// the same virtual address, and was the context that allocated it created
// before or after the context that allocated b (the driver's context list is
// in creation order)?
func (w *world) sameVAddrElsewhere(b *bufSt) string {
	earlier, later := false, false
	for _, ob := range w.bufs {
		if ob.live && ob.pid != b.pid && ob.ptr == b.ptr {
			if ob.ctx < b.ctx {
				earlier = true
			} else {
				later = true
			}
		}
	}
	switch {
	case earlier && later:
		return "yes-created-earlier-and-later"
	case earlier:
		return "yes-created-earlier"
	case later:
		return "yes-created-later"
	}
	return "no"
}

func (w *world) hasLivePage(pid vm.PID, vaddr uint64) bool {
	for _, s := range w.byPID[pid] {
		b := w.bufs[s]
		if !b.live {
			continue
		}
		for _, p := range b.pages {
			if p.vaddr == vaddr {
				return true
			}
		}
	}
	return false
}

// releasePage: the physical page pa is expected to be reusable from now on.
func (w *world) releasePage(pa uint64) {
	o := w.phys[pa]
	if o == nil {
		return
	}
	delete(w.phys, pa)
	if o.blk == nil {
		return
	}
	// pages come back only when the whole block is returned (a block is a
	// single page except for multi-page requests to the buddy allocator)
	o.blk.tracked--
	if o.blk.tracked == 0 {
		w.devs[o.dev].used -= o.blk.npages
	}
}
