package main

import (
	"fmt"
)

// ---------------------------------------------------------------------------
// coverage table: which (operation x target-device-kind x page-count class)
// combinations were actually EXECUTED on the real driver. Rows are counted at
// execution time (never at generation time), once under "op|..." for every
// history and once more under "canon|..." when the history belongs to the
// seed-independent canonical battery.
//
// target kinds: cpu, gpu, unified/k=<number of member GPUs>
// page-count classes relative to the number k of member GPUs of the target:
//
//	k <= 1:  pages=1 | pages>1
//	k >= 2:  pages<k | pages=k | pages=mk (m>=2) | pages>k&%k!=0

func (w *world) kindName(dev int) string {
	if dev < 0 || dev >= len(w.devs) {
		return "none"
	}
	d := w.devs[dev]
	switch d.kind {
	case devCPU:
		return "cpu"
	case devGPU:
		return "gpu"
	}
	return fmt.Sprintf("unified/k=%d", len(d.members))
}

// kOf: number of member GPUs of a unified device, 1 otherwise.
func (w *world) kOf(dev int) int {
	if d := w.devs[dev]; d.kind == devUnified {
		return len(d.members)
	}
	return 1
}

// physOf: the devices whose memory may back a page placed on dev.
func (w *world) physOf(dev int) []int {
	if d := w.devs[dev]; d.kind == devUnified {
		return append([]int(nil), d.members...)
	}
	return []int{dev}
}

func pclass(n, k int) string {
	if k <= 1 {
		switch {
		case n == 0:
			return "pages=0"
		case n == 1:
			return "pages=1"
		}
		return "pages>1"
	}
	switch {
	case n == 0:
		return "pages=0"
	case n < k:
		return "pages<k"
	case n == k:
		return "pages=k"
	case n%k == 0:
		return "pages=mk"
	}
	return "pages>k&%k!=0"
}

func sizeClass(size, ps uint64) string {
	switch {
	case size < ps:
		return "size=sub-page"
	case size%ps == 0:
		return "size=page-multiple"
	}
	return "size=ragged"
}

func (w *world) cov(key string) {
	w.rec.Count("op|"+key, 1)
	if w.sc.Canon {
		w.rec.Count("canon|"+key, 1)
	}
}

// covTarget counts one (op, target, page class) row.
func (w *world) covTarget(opName, role string, dev, n int) {
	w.cov(fmt.Sprintf("%s|%s=%s|%s", opName, role, w.kindName(dev), pclass(n, w.kOf(dev))))
}

// placement of a buffer for the free rows: by which operation and onto which
// kind of device its pages were last placed.
func (w *world) placementOf(b *bufSt) string {
	set := map[string]bool{}
	for _, p := range b.pages {
		set[p.classBy+":"+p.target] = true
	}
	if len(set) == 1 {
		for k := range set {
			return k
		}
	}
	return "mixed"
}

func listShape(w *world, devs []int) string {
	uni, rep, cpu := "n", "n", "n"
	seen := map[int]bool{}
	for _, d := range devs {
		if seen[d] {
			rep = "y"
		}
		seen[d] = true
		switch w.devs[d].kind {
		case devUnified:
			uni = "y"
		case devCPU:
			cpu = "y"
		}
	}
	return fmt.Sprintf("unified=%s,repeat=%s,cpu=%s", uni, rep, cpu)
}

// coverageMinimums: rows of the coverage table a run must have reached (quick
// tier numbers are about a quarter of what seeds 1-5 produce; the thorough
// tier runs ten times as many histories). Every row named here must also have
// been executed at least once by the canonical battery.
func coverageMinimums() map[string]int64 {
	m := map[string]int64{}
	row := func(key string, n int64) {
		m["op|"+key] = n
		m["canon|"+key] = 1
	}
	classes := []string{"pages<k", "pages=k", "pages=mk", "pages>k&%k!=0"}
	perK := func(prefix string, k int, mins [4]int64) {
		for i, cl := range classes {
			if mins[i] > 0 {
				row(fmt.Sprintf("%s=unified/k=%d|%s", prefix, k, cl), mins[i])
			}
		}
	}
	// Remap
	row("remap|target=cpu|pages=1", 200)
	row("remap|target=cpu|pages>1", 50)
	m["op|remap|target=gpu|pages=1"] = 1000
	row("remap|target=gpu|pages>1", 300)
	perK("remap|target", 2, [4]int64{250, 90, 60, 170})
	perK("remap|target", 3, [4]int64{140, 30, 15, 65})
	perK("remap|target", 4, [4]int64{60, 8, 5, 20})
	// AllocateMemory after SelectGPU
	row("alloc|cur=cpu|pages=1", 200)
	row("alloc|cur=cpu|pages>1", 250)
	perK("alloc|cur", 2, [4]int64{700, 150, 120, 350})
	perK("alloc|cur", 3, [4]int64{400, 60, 40, 170})
	perK("alloc|cur", 4, [4]int64{100, 15, 15, 60})
	for _, k := range []int{2, 3, 4} {
		for _, sc := range []string{"size=sub-page", "size=page-multiple", "size=ragged"} {
			row(fmt.Sprintf("alloc|cur=unified/k=%d|%s", k, sc), 50)
		}
	}
	// Distribute: per list entry, and list shapes
	row("dist|entry-target=cpu|pages=1", 70)
	row("dist|entry-target=cpu|pages>1", 35)
	perK("dist|entry-target", 2, [4]int64{280, 80, 15, 45})
	perK("dist|entry-target", 3, [4]int64{150, 20, 0, 8})
	perK("dist|entry-target", 4, [4]int64{60, 3, 0, 0})
	row("dist|list|unified=y,repeat=y,cpu=n", 400)
	row("dist|list|unified=y,repeat=n,cpu=n", 200)
	row("dist|list|unified=y,repeat=y,cpu=y", 80)
	m["op|dist|list|unified=n,repeat=y,cpu=n"] = 180
	row("dist|list|unified=n,repeat=n,cpu=y", 35)
	for l := 1; l <= 5; l++ {
		row(fmt.Sprintf("dist|list-length=%d", l), 250)
	}
	// SelectGPU / CreateUnifiedGPU
	row("select|target=cpu", 250)
	row("select|target=unified/k=2", 700)
	row("select|target=unified/k=3", 300)
	row("select|target=unified/k=4", 100)
	row("unify|k=2", 350)
	row("unify|k=3", 180)
	row("unify|k=4", 60)
	row("unify|nth=2|shares-member-with-earlier=y", 300)
	row("unify|nth=3|shares-member-with-earlier=y", 100)
	// full unified devices
	row("probe-refused|cur=unified/k=2", 120)
	row("probe-refused|cur=unified/k=3", 40)
	// FreeMemory of buffers re-homed onto unified devices
	row("free|placed-by=remap:unified/k=2|pages>1", 40)
	row("free|placed-by=remap:unified/k=3|pages>1", 15)
	row("free|placed-by=remap:unified/k=4|pages>1", 6)
	row("free|placed-by=dist:unified/k=2|pages>1", 20)
	row("free|placed-by=remap:cpu|pages=1", 35)
	// page-migration preparation
	row("migrate|pages=1", 700)
	row("migrate|pages>1", 300)
	row("migrate|requesters=1", 900)
	row("migrate|requesters=2", 70)
	row("migrate|over-pages-placed-by=allocu", 500)
	row("migrate|over-pages-placed-by=migrate", 550)
	row("migrate|back-to-a-gpu-that-hosted-the-page-before", 500)
	row("migrate|allocator=default", 800)
	row("migrate|allocator=buddy", 230)
	row("free|placed-by=migrate:gpu|pages=1", 60)
	row("free|placed-by=migrate:gpu|pages>1", 17)
	row("remap|over-pages-placed-by=migrate", 50)
	row("dist|over-pages-placed-by=migrate", 30)
	m["op|refill-frees-a-buffer|placed-by=migrate:gpu"] = 15
	// sibling contexts
	row("free|via=sibling|other-process-has-same-vaddr=no", 1000)
	row("free|via=sibling|other-process-has-same-vaddr=yes-created-earlier", 90)
	row("free|via=sibling|other-process-has-same-vaddr=yes-created-later", 70)
	row("free|via=allocating-context|other-process-has-same-vaddr=yes-created-earlier", 250)
	row("remap|via=sibling", 800)
	row("dist|via=sibling", 400)
	row("migrate|process-named-via=sibling", 350)
	row("alloc|through=sibling-context", 4000)
	m["op_migrate"] = 1000
	m["migrated_pages"] = 1500
	m["frames_from_a_migration_reused_after_free"] = 80
	m["histories_with_migration_peers"] = 400
	return m
}
