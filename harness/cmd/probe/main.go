package main

import (
	"fmt"
	"os"

	"verifharness/vlib/kern"
	"verifharness/vlib/plat"
)

func main() {
	for _, op := range []kern.Op{kern.OpAdd, kern.OpMul, kern.OpXor} {
		l, err := kern.Disassemble(kern.ElemKernel(op))
		fmt.Println(op, err)
		for _, s := range l {
			fmt.Println("   ", s)
		}
	}
	os.Chdir(os.TempDir())
	for _, cfg := range []plat.Config{{}, {Timing: true}} {
		p := plat.Build(cfg)
		d := p.Driver
		d.Run()
		ctx := d.Init()
		n := 256
		buf := d.AllocateMemory(ctx, uint64(4*n))
		host := make([]uint32, n)
		for i := range host {
			host[i] = uint32(i)
		}
		d.MemCopyH2D(ctx, buf, host)
		q := d.CreateCommandQueue(ctx)
		exp := append([]uint32(nil), host...)
		for _, st := range []struct {
			op kern.Op
			c  uint32
		}{{kern.OpAdd, 5}, {kern.OpMul, 3}, {kern.OpXor, 0xff}, {kern.OpAdd, 7}} {
			args := kern.ElemArgs{Buf: buf, C: st.c}
			d.EnqueueLaunchKernel(q, kern.ElemKernel(st.op), [3]uint32{uint32(n), 1, 1}, [3]uint16{64, 1, 1}, &args)
			for i := range exp {
				exp[i] = st.op.Apply(exp[i], st.c)
			}
		}
		d.DrainCommandQueue(q)
		out := make([]uint32, n)
		d.MemCopyD2H(ctx, out, buf)
		bad := 0
		for i := range out {
			if out[i] != exp[i] {
				bad++
			}
		}
		fmt.Printf("cfg %+v: bad=%d out[1]=%d exp[1]=%d time=%v\n", cfg, bad, out[1], exp[1], p.Engine.CurrentTime())
	}
	os.Exit(0)
}
