package main

// Fourth part: end-to-end pointer-chasing kernels. Small straight-line GCN3
// kernels (assembled with vlib/gcnasm from the pIns vocabulary) whose loads
// write the very registers that addressed them, with no ALU instruction
// between a load's return and the next use of the register:
//
//	scalar-pointer-chase   s_load_dwordx{2,4,8} s[P..], s[P:P+1], 0 ; s_waitcnt ; repeat
//	vector-pointer-chase   flat_load_dwordx{2,4} v[A..], v[A:A+1]   ; s_waitcnt ; repeat (one chain per lane)
//	sgpr-operand-reread    an SGPR read as an operand right before and right after a load returns into it
//	mixed                  scalar and vector chains interleaved
//	lds-write2             ds_write2_b32 / ds_write2_b64 with distinct DATA0 / DATA1, read back with ds_read_b32
//
// on GCN3 (emu.ALUImpl, GCN3 decoding) and on CDNA3 (cdna3.ALU, CDNA3 decoding,
// register scoreboard on, as the MI300A platform configures its compute units),
//
// run (a) in a real timing compute unit (cu.MakeBuilder, fake FIFO memories on
// one flat byte array, the fake dispatcher of the release layer), (b) in the
// real emulation compute unit on the same image, (c) by the host interpreter
// (pmisa.go). Every wavefront dumps s0..s15 and v0..v7 of all lanes to memory;
// the three dumps must be identical.

import (
	"bytes"
	"encoding/binary"
	"fmt"

	"github.com/sarchlab/akita/v4/mem/mem"
	"github.com/sarchlab/akita/v4/mem/vm"
	"github.com/sarchlab/akita/v4/sim"
	"github.com/sarchlab/mgpusim/v4/amd/emu"
	"github.com/sarchlab/mgpusim/v4/amd/emu/cdna3"
	"github.com/sarchlab/mgpusim/v4/amd/insts"
	"github.com/sarchlab/mgpusim/v4/amd/kernels"
	"github.com/sarchlab/mgpusim/v4/amd/timing/cu"

	"verifharness/vlib"
	g "verifharness/vlib/gcnasm"
	"verifharness/vlib/simkit"
)

type chaseCase struct {
	Name    string   `json:"name"`
	Kind    string   `json:"kind"`
	Arch    string   `json:"arch"` // gcn3 (default) | cdna3: ALU and decoder mode of both compute units
	Hops    int      `json:"hops"`
	NWG     int      `json:"work_groups"`
	P       int      `json:"sgpr_pair"`      // the SGPR pair chased through
	A       int      `json:"vgpr_pair"`      // the VGPR pair chased through
	Wide    int      `json:"load_dwords"`    // 2, 4 or 8: the chase load's destination starts at the pair and contains it
	Alt     bool     `json:"alternate"`      // hops alternate between two pairs
	Variant int      `json:"reread_variant"` // bit set of re-read blocks
	OneLane bool     `json:"one_lane"`       // the vector part runs with EXEC = 1
	Jitter  int      `json:"node_jitter"`    // 0/8/16/24: shifts all nodes so that wide loads cross cache lines
	LatHi   int      `json:"mem_latency_max"`
	GapMax  int      `json:"map_gap_max"`
	Seed    uint64   `json:"seed"`
	Listing []string `json:"listing,omitempty"`
}

const (
	chCode    = 0x1000
	chKernarg = 0x800
	chTable   = 0x2000 // 8 bytes per (work-group, lane)
	chNodes   = 0x10000
	chNodeSz  = 64
	chOutV    = 0x80000 // 32 bytes per (work-group, lane): v0..v7
	chOutS    = 0xC0000 // 64 bytes per work-group: s0..s15
	chSize    = 0x100000
	chMaxWG   = 8
	chNS      = 24
	chNV      = 20
	chLDS     = 4096
)

// ---- program ---------------------------------------------------------------

func chaseProgram(c *chaseCase) []pIns {
	var p []pIns
	add := func(i ...pIns) { p = append(p, i...) }
	wait := pIns{Op: "s_waitcnt"}
	// prologue: v12 = (wg*64+lane)*8, s16 = outS + wg*64, s17 = wg*512
	add(pIns{Op: "v_lshlrev_b32", D: 12, Imm: 3, A: 0},
		pIns{Op: "s_lshl_b32", D: 17, A: 2, Imm: 9},
		pIns{Op: "v_add_u32", D: 12, A: 17, B: 12, Src: "s"},
		pIns{Op: "s_lshl_b32", D: 16, A: 2, Imm: 6},
		pIns{Op: "s_add_u32", D: 16, A: 16, Imm: chOutS, Src: "lit"})
	// s[0:1] <- [kernarg] : the table pointer (already a chase step through s[0:1])
	add(pIns{Op: "s_load", D: 0, A: 0, W: 2}, wait)

	scalar := func(P, hops, wide int, alt bool) {
		add(pIns{Op: "s_load", D: P, A: 0, W: 2, B: 17, Src: "s"}, wait) // head = table[wg*64]
		R := P + 4
		cur := P
		for h := 0; h < hops; h++ {
			dst := cur
			if alt {
				dst = P + R - cur
			}
			w := 2
			if !alt && h%2 == 1 {
				w = wide
			}
			add(pIns{Op: "s_load", D: dst, A: cur, W: w}, wait)
			cur = dst
		}
		add(pIns{Op: "s_load", D: 14, A: cur, W: 2, Imm: 8}, wait) // payload of the last node
	}
	vector := func(A, hops, wide int, alt bool) {
		if c.OneLane {
			add(pIns{Op: "s_mov_exec", Imm: 1})
		}
		add(pIns{Op: "v_add_u32", D: A, A: 0, B: 12, Src: "s"}, // table + idx*8 (no carry: small addresses)
			pIns{Op: "v_mov_b32", D: A + 1, A: 1, Src: "s"},
			pIns{Op: "flat_load", D: A, A: A, W: 2}, wait) // head
		R := A + 4
		cur := A
		for h := 0; h < hops; h++ {
			dst := cur
			if alt {
				dst = A + R - cur
			}
			w := 2
			if !alt && h%2 == 1 {
				w = wide
			}
			add(pIns{Op: "flat_load", D: dst, A: cur, W: w}, wait)
			cur = dst
		}
		q := 7
		if cur+1 >= 7 {
			q = 3
		}
		add(pIns{Op: "flat_load", D: q, A: cur, W: 1}, wait)
	}
	reread := func(variant int) {
		add(pIns{Op: "s_load", D: 8, A: 0, W: 2, B: 17, Src: "s"}, wait) // s[8:9] = head node
		if variant&1 != 0 {                                              // the offset register is the destination
			add(pIns{Op: "s_mov_b32", D: 4, Imm: 8, Src: "lit"},
				pIns{Op: "s_load", D: 4, A: 8, W: 1, B: 4, Src: "s"}, wait,
				pIns{Op: "v_mov_b32", D: 2, A: 4, Src: "s"})
		}
		if variant&2 != 0 { // compare, load, compare
			add(pIns{Op: "s_mov_b32", D: 6, Imm: 0, Src: "lit"},
				pIns{Op: "s_cmp_lg_u32", A: 6, Imm: 0, Src: "lit"},
				pIns{Op: "s_load", D: 6, A: 8, W: 1, Imm: 0}, wait,
				pIns{Op: "s_cmp_lg_u32", A: 6, Imm: 0, Src: "lit"},
				pIns{Op: "s_cselect_b32", D: 7})
		}
		if variant&4 != 0 { // vector source before and after
			add(pIns{Op: "s_mov_b32", D: 5, Imm: 0x55, Src: "lit"},
				pIns{Op: "v_mov_b32", D: 3, A: 5, Src: "s"},
				pIns{Op: "s_cmp_eq_u32", A: 5, Imm: 0x55, Src: "lit"},
				pIns{Op: "s_load", D: 5, A: 8, W: 1, Imm: 20}, wait,
				pIns{Op: "s_cmp_eq_u32", A: 5, Imm: 0x55, Src: "lit"},
				pIns{Op: "s_cselect_b32", D: 13},
				pIns{Op: "v_mov_b32", D: 4, A: 5, Src: "s"})
		}
		if variant&8 != 0 { // eight-dword load over the base pair, then two of its pairs used as bases
			add(pIns{Op: "s_load", D: 8, A: 8, W: 8}, wait,
				pIns{Op: "s_load", D: 6, A: 12, W: 1, Imm: 8}, wait, // s[12:13] = the node's second pointer
				pIns{Op: "s_load", D: 14, A: 8, W: 2, Imm: 8}, wait)
		}
	}
	ldsw2 := func(variant int) {
		// v8 = lane*8; v1..v6 distinct per lane and per register
		add(pIns{Op: "v_lshlrev_b32", D: 8, Imm: 3, A: 0})
		for k := 1; k <= 6; k++ {
			add(pIns{Op: "v_add_u32", D: k, Imm: uint32(k) * 0x11110000, B: 0, Src: "lit"})
		}
		o0, o1 := uint32(0), uint32(129)
		p0, p1 := uint32(130), uint32(200)
		if variant&1 != 0 { // DATA1 below DATA0
			o0, o1 = 129, 0
			p0, p1 = 200, 130
		}
		add(pIns{Op: "ds_write2_b32", A: 8, D: 1, B: 2, Imm: o0 | o1<<8}, wait)
		if variant&2 != 0 { // a plain write between the two
			add(pIns{Op: "ds_write_b32", A: 8, D: 3, Imm: 3000}, wait)
		}
		add(pIns{Op: "ds_write2_b64", A: 8, D: 3, B: 5, Imm: p0 | p1<<8}, wait)
		// read everything back
		add(pIns{Op: "ds_read_b32", D: 1, A: 8, Imm: 4 * o0}, pIns{Op: "ds_read_b32", D: 2, A: 8, Imm: 4 * o1},
			pIns{Op: "ds_read_b32", D: 3, A: 8, Imm: 8 * p0}, pIns{Op: "ds_read_b32", D: 4, A: 8, Imm: 8*p0 + 4},
			pIns{Op: "ds_read_b32", D: 5, A: 8, Imm: 8 * p1}, pIns{Op: "ds_read_b32", D: 6, A: 8, Imm: 8*p1 + 4}, wait)
		if variant&2 != 0 {
			add(pIns{Op: "ds_read_b32", D: 7, A: 8, Imm: 3000}, wait)
		}
	}
	switch c.Kind {
	case "lds-write2":
		ldsw2(c.Variant)
	case "scalar-pointer-chase":
		scalar(c.P, c.Hops, c.Wide, c.Alt)
	case "vector-pointer-chase":
		vector(c.A, c.Hops, min(c.Wide, 4), c.Alt)
	case "sgpr-operand-reread":
		reread(c.Variant)
	default: // mixed (the vector part still needs the table pointer in s[0:1])
		scalar(max(c.P, 4), c.Hops, c.Wide, c.Alt && c.P <= 4)
		vector(c.A, c.Hops, min(c.Wide, 4), false)
	}
	// epilogue: dump v0..v7 of every lane, then s0..s15 by lane 0
	add(pIns{Op: "v_lshlrev_b32", D: 10, Imm: 2, A: 12},
		pIns{Op: "v_add_u32", D: 10, Imm: chOutV, B: 10, Src: "lit"},
		pIns{Op: "v_mov_b32", D: 11, Imm: 0, Src: "lit"},
		pIns{Op: "flat_store", A: 10, D: 0, W: 4},
		pIns{Op: "v_add_u32", D: 10, Imm: 16, B: 10, Src: "lit"},
		pIns{Op: "flat_store", A: 10, D: 4, W: 4},
		pIns{Op: "s_mov_exec", Imm: 1},
		pIns{Op: "v_mov_b32", D: 10, A: 16, Src: "s"})
	for k := 0; k < 16; k += 4 {
		for j := 0; j < 4; j++ {
			add(pIns{Op: "v_mov_b32", D: 13 + j, A: k + j, Src: "s"})
		}
		add(pIns{Op: "flat_store", A: 10, D: 13, W: 4}, pIns{Op: "v_add_u32", D: 10, Imm: 16, B: 10, Src: "lit"})
	}
	add(wait, pIns{Op: "s_endpgm"})
	return p
}

// ---- memory image ----------------------------------------------------------

type chImage []byte

func (m chImage) R32(a uint64) uint32 {
	if a+4 > uint64(len(m)) {
		return 0
	}
	return binary.LittleEndian.Uint32(m[a:])
}
func (m chImage) W32(a uint64, v uint32) {
	if a+4 <= uint64(len(m)) {
		binary.LittleEndian.PutUint32(m[a:], v)
	}
}

// chaseImage builds code, kernarg, the table of chain heads and the nodes. A
// node is 64 bytes: [0:8] next pointer, [8:16] random payload, [16:24] second
// pointer (another node), the rest random payload. Every (work-group, lane) has its own chain through a
// permutation of all nodes, so every pointer anywhere is a valid node address.
func chaseImage(c *chaseCase, code []byte) chImage {
	img := make(chImage, chSize)
	copy(img[chCode:], code)
	binary.LittleEndian.PutUint64(img[chKernarg:], chTable)
	r := vlib.NewPRNG(c.Seed).Fork("image")
	n := (chOutV-chNodes)/chNodeSz - 1
	perm := r.Perm(n)
	addr := func(i int) uint64 { return uint64(chNodes + perm[i%n]*chNodeSz + c.Jitter) }
	for i := 0; i < n; i++ {
		a := addr(i)
		r.Bytes(img[a : a+chNodeSz])
		binary.LittleEndian.PutUint64(img[a:], addr(i+1))
		binary.LittleEndian.PutUint64(img[a+16:], addr(i+37))
	}
	for i := 0; i < c.NWG*64; i++ {
		binary.LittleEndian.PutUint64(img[chTable+8*i:], addr(i*11))
	}
	return img
}

// ---- host ------------------------------------------------------------------

type hostWave struct {
	s    [chNS + 8]uint32
	v    [64][chNV + 4]uint32
	exec uint64
	vcc  uint64
	scc  byte
}

func (h *hostWave) S(i int) uint32             { return h.s[i] }
func (h *hostWave) SetS(i int, v uint32)       { h.s[i] = v }
func (h *hostWave) V(lane, i int) uint32       { return h.v[lane][i] }
func (h *hostWave) SetV(lane, i int, v uint32) { h.v[lane][i] = v }
func (h *hostWave) EXEC() uint64               { return h.exec }
func (h *hostWave) SetEXEC(v uint64)           { h.exec = v }
func (h *hostWave) VCC() uint64                { return h.vcc }
func (h *hostWave) SetVCC(v uint64)            { h.vcc = v }
func (h *hostWave) SCC() byte                  { return h.scc }
func (h *hostWave) SetSCC(v byte)              { h.scc = v }

func chaseHost(c *chaseCase, prog []pIns, img chImage) chImage {
	out := append(chImage(nil), img...)
	for wg := 0; wg < c.NWG; wg++ {
		h := &hostWave{exec: ^uint64(0)}
		h.s[0], h.s[1], h.s[2] = chKernarg, 0, uint32(wg)
		for l := 0; l < 64; l++ {
			h.v[l][0] = uint32(l)
		}
		lds := make([]byte, chLDS)
		for _, i := range prog {
			hostExec(i, h, out, lds)
		}
	}
	return out
}

// ---- the two real runs -------------------------------------------------------

func chaseGrid(c *chaseCase, code []byte) []*relWG {
	co := &insts.KernelCodeObject{KernelCodeObjectMeta: &insts.KernelCodeObjectMeta{
		ComputePgmRsrc2: 1 << 7, EnableSgprKernargSegmentPtr: true, KernargSegmentByteSize: 8,
		WFSgprCount: chNS, WIVgprCount: chNV}, Data: code, Version: insts.CodeObjectV3}
	pkt := &kernels.HsaKernelDispatchPacket{WorkgroupSizeX: 64, WorkgroupSizeY: 1, WorkgroupSizeZ: 1,
		GridSizeX: uint32(64 * c.NWG), GridSizeY: 1, GridSizeZ: 1, KernelObject: chCode, KernargAddress: chKernarg,
		GroupSegmentSize: chLDS}
	gb := kernels.NewGridBuilder()
	gb.SetKernel(kernels.KernelLaunchInfo{CodeObject: co, Packet: pkt, PacketAddr: 0x700})
	var out []*relWG
	for {
		wg := gb.NextWG()
		if wg == nil {
			break
		}
		out = append(out, &relWG{wg: wg})
	}
	return out
}

type chaseOutcome struct {
	img      chImage
	panicVal any
	livelock bool
	undone   int
	events   int64
	odd      []string
}

func chaseTiming(c *chaseCase, code []byte, img chImage) *chaseOutcome {
	out := &chaseOutcome{img: append(chImage(nil), img...)}
	engine := sim.NewSerialEngine()
	freq := 1 * sim.GHz
	b := cu.MakeBuilder().WithEngine(engine).WithFreq(freq)
	if c.Arch == "cdna3" { // as timingconfig/mi300a configures its compute units
		b = b.WithALUFactory(func(sa emu.StorageAccessor) emu.ALU { return cdna3.NewALU(sa) }).WithCDNA3Decoding(true).WithRegisterScoreboard(true)
	}
	u := b.Build("CU")
	base := vlib.NewPRNG(c.Seed)
	var mems [3]*relMem
	for i, p := range []sim.Port{u.ToInstMem, u.ToScalarMem, u.ToVectorMem} {
		mems[i] = newRelMem(fmt.Sprintf("Mem%d", i), engine, freq, max(1, c.LatHi), out.img, base.ForkN("mem", i))
		simkit.Connect(engine, freq, fmt.Sprintf("ConnMem%d", i), p, mems[i].port)
	}
	u.InstMem = mems[0].port
	u.ScalarMem = mems[1].port
	u.VectorMemModules = &mem.SinglePortMapper{Port: mems[2].port.AsRemote()}
	disp := &relDisp{rng: base.Fork("disp"), alloc: newRelAlloc(false), gapMax: c.GapMax, byReq: map[string]*relWG{}}
	disp.Agent = simkit.NewAgent("Disp", engine, freq)
	disp.port = disp.Agent.NewPort("ToCU", 4, 4)
	disp.Agent.TickFn = disp.tick
	disp.cu = u.ToACE.AsRemote()
	simkit.Connect(engine, freq, "ConnACE", u.ToACE, disp.port)
	disp.wgs = chaseGrid(c, code)
	disp.TickLater()
	out.events, out.livelock, out.panicVal = simkit.RunBounded(engine, 3_000_000)
	for _, w := range disp.wgs {
		if w.done == 0 {
			out.undone++
		}
	}
	out.odd = disp.odd
	for _, m := range mems {
		if m.bad != "" {
			out.odd = append(out.odd, m.bad)
		}
	}
	return out
}

func chaseEmu(c *chaseCase, code []byte, img chImage) *chaseOutcome {
	out := &chaseOutcome{}
	engine := sim.NewSerialEngine()
	freq := 1 * sim.GHz
	storage := mem.NewStorage(chSize + 1<<12)
	if err := storage.Write(0, img); err != nil {
		out.panicVal = err
		return out
	}
	pt := vm.NewPageTable(12)
	for a := uint64(0); a < chSize+4096; a += 4096 {
		pt.Insert(vm.Page{PID: 1, VAddr: a, PAddr: a, PageSize: 4096, Valid: true})
	}
	dis := insts.NewDisassembler()
	var u *emu.ComputeUnit
	if c.Arch == "cdna3" {
		dis.IsCDNA3 = true
		u = emu.BuildComputeUnitWithALU("EmuCU", engine, dis, pt, 12, storage, nil,
			func(sa emu.StorageAccessor) emu.ALU { return cdna3.NewALU(sa) }, true)
	} else {
		u = emu.BuildComputeUnit("EmuCU", engine, dis, pt, 12, storage, nil)
	}
	disp := &relDisp{rng: vlib.NewPRNG(c.Seed).Fork("emudisp"), alloc: newRelAlloc(false), gapMax: c.GapMax, byReq: map[string]*relWG{}}
	disp.Agent = simkit.NewAgent("Disp", engine, freq)
	disp.port = disp.Agent.NewPort("ToCU", 4, 4)
	disp.Agent.TickFn = disp.tick
	disp.cu = u.ToDispatcher.AsRemote()
	simkit.Connect(engine, freq, "ConnEmu", u.ToDispatcher, disp.port)
	disp.wgs = chaseGrid(c, code)
	disp.TickLater()
	out.events, out.livelock, out.panicVal = simkit.RunBounded(engine, 3_000_000)
	for _, w := range disp.wgs {
		if w.done == 0 {
			out.undone++
		}
	}
	out.odd = disp.odd
	if b, err := storage.Read(0, chSize); err == nil {
		out.img = b
	} else {
		out.panicVal = err
	}
	return out
}

// ---- judge -----------------------------------------------------------------

type dumpDiff struct {
	wg, lane int
	reg      string
	a, b     uint32
}

// diffDumps compares the dump regions of two images; it returns the first
// difference.
func diffDumps(c *chaseCase, x, y chImage) *dumpDiff {
	for wg := 0; wg < c.NWG; wg++ {
		for k := 0; k < 16; k++ {
			off := uint64(chOutS + wg*64 + 4*k)
			if x.R32(off) != y.R32(off) {
				return &dumpDiff{wg, 0, fmt.Sprintf("s%d", k), x.R32(off), y.R32(off)}
			}
		}
		for l := 0; l < 64; l++ {
			for k := 0; k < 8; k++ {
				off := uint64(chOutV + (wg*64+l)*32 + 4*k)
				if x.R32(off) != y.R32(off) {
					return &dumpDiff{wg, l, fmt.Sprintf("v%d", k), x.R32(off), y.R32(off)}
				}
			}
		}
	}
	return nil
}

func runChase(rec vlib.Recorder, c *chaseCase) {
	rec.Eval()
	cnt := map[string]int64{}
	defer func() {
		for k, v := range cnt {
			rec.Count(k, v)
		}
	}()
	if c.NWG < 1 || c.NWG > chMaxWG {
		rec.Inconclusive("harness: bad chase case")
		return
	}
	prog := chaseProgram(c)
	if c.Arch == "" {
		c.Arch = "gcn3"
	}
	p := g.NewProgram(g.CDNA3) // the encodings used are common to both; FLAT carries SADDR = off
	c.Listing = c.Listing[:0]
	for _, i := range prog {
		p.Add(i.desc())
		c.Listing = append(c.Listing, i.String())
	}
	code, err := p.Bytes()
	if err != nil {
		rec.Inconclusive("harness: chase kernel does not assemble: " + err.Error())
		return
	}
	img := chaseImage(c, code)
	host := chaseHost(c, prog, img)
	tim := chaseTiming(c, code, img)
	em := chaseEmu(c, code, img)
	wit := func(key string, extra map[string]any) any {
		if _, dup := witnessed.LoadOrStore(key, struct{}{}); dup {
			return nil
		}
		w := map[string]any{"chase": c}
		for k, v := range extra {
			w[k] = v
		}
		return w
	}
	for _, o := range []struct {
		mode string
		out  *chaseOutcome
	}{{"timing", tim}, {"emu", em}} {
		if o.out.panicVal != nil {
			key := fmt.Sprintf("C07|%s|e2e|%s|%s|panic", o.mode, c.Arch, c.Kind)
			rec.Violation(key, fmt.Sprintf("%s compute unit panicked running chase kernel %s: %v", o.mode, c.Name, o.out.panicVal), wit(key, nil))
			return
		}
		for _, s := range o.out.odd {
			rec.Inconclusive("chase layer (" + o.mode + "): " + s)
		}
		if o.out.livelock || o.out.undone > 0 {
			rec.Inconclusive(fmt.Sprintf("chase kernel %s (%s): %d work-groups never completed (livelock=%v)", c.Name, o.mode, o.out.undone, o.out.livelock))
			return
		}
	}
	cnt["chase.kernels_run"]++
	cnt["chase.wavefronts"] += int64(c.NWG)
	cnt["chase.timing_engine_events"] += tim.events
	loads := 0
	for _, i := range prog {
		if (i.Op == "s_load" || i.Op == "flat_load") && i.D <= i.A+1 && i.A < i.D+i.W {
			loads++
		}
	}
	cnt["chase.loads_overwriting_their_address_registers"] += int64(loads * c.NWG)
	cnt["chase.dump_dwords_compared"] += int64(c.NWG * (16 + 64*8) * 2)
	rec.Distinct("chase_kind", c.Arch+"|"+c.Kind)
	if c.Kind == "lds-write2" {
		cnt["chase.lds_write2_kernels."+c.Arch]++
	}
	rec.Distinct("chase_shape", fmt.Sprintf("%s|%s|hops%d|wide%d|alt%v|P%d|A%d|var%d|jit%d|one%v", c.Arch, c.Kind, c.Hops, c.Wide, c.Alt, c.P, c.A, c.Variant, c.Jitter, c.OneLane))

	dTE := diffDumps(c, tim.img, em.img)
	dTH := diffDumps(c, tim.img, host)
	dEH := diffDumps(c, em.img, host)
	desc := func(d *dumpDiff, a, b string) string {
		return fmt.Sprintf("kernel %s (%s, %d hops, %d work-groups): work-group %d lane %d dumped %s = %#x in %s, %#x in %s",
			c.Name, c.Kind, c.Hops, c.NWG, d.wg, d.lane, d.reg, d.a, a, d.b, b)
	}
	switch {
	case dTE == nil && dTH == nil:
		rec.Nontrivial("chase|" + c.Name)
	case dTE != nil && dEH == nil:
		key := fmt.Sprintf("C07|timing|e2e|%s|%s|differs-from-emulation", c.Arch, c.Kind)
		rec.Violation(key, desc(dTE, "timing mode", "emulation mode (= host expectation)"), wit(key, map[string]any{"register": dTE.reg, "work_group": dTE.wg, "lane": dTE.lane}))
	case dTH == nil && dEH != nil:
		key := fmt.Sprintf("C07|emu|e2e|%s|%s|differs-from-timing-and-host", c.Arch, c.Kind)
		rec.Violation(key, desc(dEH, "emulation mode", "the host expectation (= timing mode)"), wit(key, nil))
	case dTE == nil:
		key := fmt.Sprintf("C07|e2e|%s|%s|both-modes-differ-from-host-expectation", c.Arch, c.Kind)
		rec.Violation(key, desc(dTH, "both modes", "the host expectation"), wit(key, nil))
	default:
		key := fmt.Sprintf("C07|timing|e2e|%s|%s|differs-from-emulation", c.Arch, c.Kind)
		rec.Violation(key, desc(dTE, "timing mode", "emulation mode")+"; "+desc(dEH, "emulation mode", "the host expectation"), wit(key, nil))
	}
	// the data the kernel stored outside the dump regions must not differ either
	if !bytes.Equal(tim.img[:chOutV], img[:chOutV]) {
		key := fmt.Sprintf("C07|timing|e2e|%s|%s|stored-outside-dump-region", c.Arch, c.Kind)
		rec.Violation(key, fmt.Sprintf("kernel %s changed memory below the dump regions in timing mode (a store used a wrong address register value)", c.Name), wit(key, nil))
	}
}

// ---- cases -------------------------------------------------------------------

func canonicalChases() []*chaseCase {
	var out []*chaseCase
	mk := func(c chaseCase) {
		if c.Arch == "" {
			c.Arch = "gcn3"
		}
		c.Name = fmt.Sprintf("canon-%s-%s-%d", c.Arch, c.Kind, len(out))
		c.Seed = 0xC0FFEE + uint64(len(out))
		out = append(out, &c)
	}
	for _, arch := range []string{"gcn3", "cdna3"} {
		for v := 0; v < 4; v++ {
			mk(chaseCase{Kind: "lds-write2", Arch: arch, NWG: 1 + v, Variant: v, LatHi: 4})
		}
		mk(chaseCase{Kind: "scalar-pointer-chase", Arch: arch, Hops: 3, NWG: 2, P: 0, Wide: 2, LatHi: 10})
		mk(chaseCase{Kind: "vector-pointer-chase", Arch: arch, Hops: 3, NWG: 2, A: 0, Wide: 4, LatHi: 10})
		mk(chaseCase{Kind: "sgpr-operand-reread", Arch: arch, NWG: 2, Variant: 15, LatHi: 10})
	}
	for _, lat := range []int{2, 60} {
		mk(chaseCase{Kind: "scalar-pointer-chase", Hops: 3, NWG: 1, P: 0, Wide: 2, LatHi: lat})
		mk(chaseCase{Kind: "scalar-pointer-chase", Hops: 4, NWG: 3, P: 4, Wide: 4, LatHi: lat, Jitter: 56})
		mk(chaseCase{Kind: "scalar-pointer-chase", Hops: 4, NWG: 2, P: 8, Wide: 8, LatHi: lat, Jitter: 40})
		mk(chaseCase{Kind: "scalar-pointer-chase", Hops: 4, NWG: 2, P: 4, Wide: 2, Alt: true, LatHi: lat})
		mk(chaseCase{Kind: "vector-pointer-chase", Hops: 3, NWG: 1, A: 0, Wide: 2, LatHi: lat})
		mk(chaseCase{Kind: "vector-pointer-chase", Hops: 4, NWG: 2, A: 2, Wide: 4, LatHi: lat, Jitter: 56})
		mk(chaseCase{Kind: "vector-pointer-chase", Hops: 4, NWG: 2, A: 0, Wide: 2, Alt: true, LatHi: lat})
		mk(chaseCase{Kind: "vector-pointer-chase", Hops: 4, NWG: 2, A: 0, Wide: 4, OneLane: true, LatHi: lat})
		mk(chaseCase{Kind: "sgpr-operand-reread", NWG: 2, Variant: 15, LatHi: lat})
		mk(chaseCase{Kind: "sgpr-operand-reread", NWG: 1, Variant: 1, LatHi: lat})
		mk(chaseCase{Kind: "sgpr-operand-reread", NWG: 1, Variant: 2, LatHi: lat})
		mk(chaseCase{Kind: "sgpr-operand-reread", NWG: 1, Variant: 4, LatHi: lat})
		mk(chaseCase{Kind: "sgpr-operand-reread", NWG: 1, Variant: 8, LatHi: lat})
		mk(chaseCase{Kind: "mixed", Hops: 3, NWG: 2, P: 4, A: 0, Wide: 4, LatHi: lat})
		mk(chaseCase{Kind: "mixed", Hops: 4, NWG: 8, P: 4, A: 2, Wide: 4, LatHi: lat, Jitter: 60})
		mk(chaseCase{Kind: "scalar-pointer-chase", Hops: 5, NWG: 6, P: 0, Wide: 8, LatHi: lat, Jitter: 52})
	}
	return out
}

func genChase(r *vlib.PRNG, idx int) *chaseCase {
	c := &chaseCase{Name: fmt.Sprintf("c%d", idx), Seed: r.Uint64(), Hops: 1 + r.Intn(7), NWG: []int{1, 2, 3, 4, 6, 8}[r.Intn(6)],
		LatHi: []int{1, 8, 40, 150}[r.Intn(4)], GapMax: []int{0, 5, 50}[r.Intn(3)], Jitter: []int{0, 8, 40, 56, 52, 60}[r.Intn(6)]}
	c.Kind = []string{"scalar-pointer-chase", "vector-pointer-chase", "sgpr-operand-reread", "mixed", "lds-write2"}[idx%5]
	c.Arch = []string{"gcn3", "gcn3", "cdna3"}[(idx/5)%3]
	c.Wide = []int{2, 4, 8}[r.Intn(3)]
	c.Alt = r.Chance(1, 4)
	c.P = []int{0, 4, 8}[r.Intn(3)]
	if c.Alt || c.Wide == 8 {
		c.P = []int{0, 4}[r.Intn(2)] // the second pair / the eight registers end at s11 at most
	}
	c.A = []int{0, 2}[r.Intn(2)]
	if c.Alt {
		c.A = 0
	}
	c.Variant = 1 + r.Intn(15)
	c.OneLane = r.Chance(1, 3)
	return c
}
