package main

// Second layer of C07: "release at wavefront end". Real wavefronts run tiny
// generated GCN3 programs to s_endpgm inside a real timing compute unit
// (cu.MakeBuilder on a serial engine, fake instruction / scalar / vector
// memories, a fake dispatcher that sends MapWGReq built with the real grid
// builder at the offsets the command processor's resource pool would hand
// out). Every wavefront fills all registers its code object declares with a
// pattern that encodes (global wavefront id, register, lane); some wavefronts
// end at once, the others spin while their neighbours retire, then dump a sum
// of all their registers to memory and end. SchedulerImpl.resetRegisterValue
// (the clear at wavefront end) and the dispatcher's register initialisation of
// later work-groups run while other wavefronts are live.
//
// Oracle: no register of a live wavefront changes except by its own
// instructions. Observed (a) through raw views of cu.SRegFile / cu.VRegFile at
// tracer callbacks: right after every wavefront's s_endpgm completed, right
// after every dispatch, and at each wavefront's own marker instruction; (b) at
// the memory boundary: the dumped sums must equal the sums of the pattern.
//
// The set-up follows cmd/w_c14 (env.go / run.go), copied and reduced.

import (
	"encoding/binary"
	"fmt"
	"strings"

	"github.com/sarchlab/akita/v4/mem/mem"
	"github.com/sarchlab/akita/v4/sim"
	"github.com/sarchlab/akita/v4/tracing"
	"github.com/sarchlab/mgpusim/v4/amd/insts"
	"github.com/sarchlab/mgpusim/v4/amd/kernels"
	"github.com/sarchlab/mgpusim/v4/amd/protocol"
	"github.com/sarchlab/mgpusim/v4/amd/timing/cu"
	"github.com/sarchlab/mgpusim/v4/amd/timing/wavefront"

	"verifharness/vlib"
	g "verifharness/vlib/gcnasm"
	"verifharness/vlib/simkit"
)

// ---------------------------------------------------------------------------
// scenario

type relKernel struct {
	NS  int `json:"wf_sgpr_count"`
	NV  int `json:"wi_vgpr_count"`
	W   int `json:"wavefronts_per_group"`
	NWG int `json:"groups"`
}

type relScenario struct {
	Name    string      `json:"name"`
	Kernels []relKernel `json:"kernels"`
	Spin    []int       `json:"spin_iterations_per_wavefront"` // by global wavefront id; 0 = end at once
	Alloc   string      `json:"allocation"`                    // firstfit | lastfit
	Order   []int       `json:"dispatch_order"`                // kernel index of every work-group in dispatch order
	GapMax  int         `json:"map_gap_max"`
	LatHi   int         `json:"mem_latency_max"`
	Seed    uint64      `json:"seed"`
}

const (
	relCodeBase  = 0x1000
	relCodeSpan  = 0x4000
	relTableAddr = 0x40000
	relOutAddr   = 0x50000
	relMaxWaves  = 1024
	relStoreSize = relOutAddr + relMaxWaves*64*8 + 0x1000
	relCntReg    = 1 // loop counter / SGPR sum
	relBaseReg   = 2 // pattern base
)

func (s *relScenario) gBase(k int) int {
	n := 0
	for i := 0; i < k; i++ {
		n += s.Kernels[i].W * s.Kernels[i].NWG
	}
	return n
}

func (s *relScenario) totalWaves() int { return s.gBase(len(s.Kernels)) }

func patS(gid, r int) uint32 { return 0x80000000 | uint32(gid)<<12 | uint32(r+1) }
func patV(gid, r, lane int) uint32 {
	return 0x40000000 | uint32(gid)<<18 | uint32(r)<<8 | uint32(lane)
}

func roundUp(n, gran int) int { return (n + gran - 1) / gran * gran }

// ---------------------------------------------------------------------------
// program

type relProgram struct {
	code                       []byte
	filledOff, markOff, endOff int
	nInst                      int
}

func gop(f g.Format, name string) int { return g.MustOpcode(g.GCN3, f, name) }

func gimm(n int) g.Operand {
	if n >= 0 && n <= 64 {
		return g.Imm(n)
	}
	return g.Lit(uint32(n))
}

func buildRelProgram(k relKernel, gBase int) (*relProgram, error) {
	if k.NS < 8 || k.NS > 102 || k.NV < 4 || k.NV > 256 || k.W < 1 || k.W > 16 {
		return nil, fmt.Errorf("harness: bad release kernel %+v", k)
	}
	p := g.NewProgram(g.GCN3)
	sop2 := func(name string, d, a, b g.Operand) { p.Add(g.MkSOP2(gop(g.SOP2, name), d, a, b)) }
	sop1 := func(name string, d, a g.Operand) { p.Add(g.MkSOP1(gop(g.SOP1, name), d, a)) }
	vop2 := func(name string, d, a, b g.Operand) { p.Add(g.MkVOP2(gop(g.VOP2, name), d, a, b)) }
	vop1 := func(name string, d, a g.Operand) { p.Add(g.MkVOP1(gop(g.VOP1, name), d, a)) }
	sCnt, sB := g.S(relCntReg), g.S(relBaseReg)

	// s0 = work-group id x, v0 = work-item id x
	vop1("v_readfirstlane_b32", g.S(3), g.V(0))
	sop2("s_lshr_b32", g.S(3), g.S(3), g.Imm(6))
	sop2("s_mul_i32", g.S(6), g.S(0), g.Imm(k.W))
	sop2("s_add_u32", g.S(3), g.S(3), g.S(6))
	sop2("s_add_u32", g.S(3), g.S(3), gimm(gBase)) // global wavefront id
	sop1("s_mov_b32", g.S(4), g.Lit(relTableAddr))
	sop1("s_mov_b32", g.S(5), g.Imm(0))
	sop2("s_lshl_b32", g.S(6), g.S(3), g.Imm(2))
	p.Add(g.SMEMLoadSGPR(g.OpSLoadDword, sCnt, g.SRange(4, 2), g.S(6))) // spin count
	// vector registers, all lanes
	vop2("v_and_b32", g.V(1), g.Imm(63), g.V(0))
	sop2("s_lshl_b32", g.S(7), g.S(3), g.Imm(18))
	sop2("s_add_u32", g.S(7), g.S(7), g.Lit(0x40000000))
	vop2("v_or_b32", g.V(1), g.S(7), g.V(1)) // 0x40000000 | gid<<18 | lane
	for r := k.NV - 1; r >= 2; r-- {
		vop2("v_or_b32", g.V(r), g.Lit(uint32(r)<<8), g.V(1))
	}
	vop1("v_mov_b32", g.V(0), g.V(1))
	vop2("v_or_b32", g.V(1), g.Lit(1<<8), g.V(1))
	// scalar registers
	sop2("s_lshl_b32", sB, g.S(3), g.Imm(12))
	sop2("s_add_u32", sB, sB, g.Lit(0x80000000))
	sop2("s_add_u32", g.VCCLo, sB, g.Lit(107))
	sop2("s_add_u32", g.VCCHi, sB, g.Lit(108))
	p.Add(g.Waitcnt(15, 7, 0))
	for r := k.NS - 1; r >= 0; r-- {
		if r == relCntReg || r == relBaseReg {
			continue
		}
		sop2("s_add_u32", g.S(r), sB, gimm(r+1))
	}
	sop2("s_add_u32", sB, sB, g.Imm(relBaseReg+1))
	p.Label("filled")
	p.Add(g.MkSOPC(gop(g.SOPC, "s_cmp_eq_u32"), sCnt, g.Imm(0)))
	p.Add(g.Branch(g.OpSCbranchSCC1, "end"))
	p.Label("loop")
	sop2("s_sub_u32", sCnt, sCnt, g.Imm(1))
	p.Add(g.MkSOPC(gop(g.SOPC, "s_cmp_gt_i32"), sCnt, g.Imm(0))) // signed: a counter that was zeroed under the wavefront ends the loop
	p.Add(g.Branch(g.OpSCbranchSCC1, "loop"))
	sop2("s_and_b32", sCnt, sB, g.Lit(0xfffff000))
	sop2("s_add_u32", sCnt, sCnt, g.Imm(relCntReg+1))
	p.Label("marker")
	p.Add(g.Nop(0))
	// dump: sum of all scalar registers, per-lane sum of all vector registers
	for r := 0; r < k.NS; r++ {
		if r != relCntReg {
			sop2("s_add_u32", sCnt, sCnt, g.S(r))
		}
	}
	for r := 1; r < k.NV; r++ {
		vop2("v_add_u32", g.V(0), g.V(r), g.V(0))
	}
	vop2("v_and_b32", g.V(2), g.Imm(63), g.V(1))
	sop2("s_lshr_b32", sB, sB, g.Imm(12))
	sop2("s_and_b32", sB, sB, g.Lit(0xfff))
	sop2("s_lshl_b32", sB, sB, g.Imm(9))
	sop2("s_add_u32", sB, sB, g.Lit(relOutAddr))
	vop2("v_lshlrev_b32", g.V(2), g.Imm(3), g.V(2))
	vop2("v_add_u32", g.V(2), sB, g.V(2))
	vop1("v_mov_b32", g.V(3), g.Imm(0))
	vop1("v_mov_b32", g.V(1), sCnt)
	p.Add(g.FlatStore(g.OpFlatStoreDwordx2, g.VRange(2, 2), g.VRange(0, 2)))
	p.Add(g.Waitcnt(0, 7, 15))
	p.Label("end")
	p.Add(g.Endpgm())
	code, offs, labels, err := p.Assemble()
	if err != nil {
		return nil, err
	}
	if len(code) > relCodeSpan-64 {
		return nil, fmt.Errorf("harness: release program too long (%d bytes)", len(code))
	}
	return &relProgram{code: code, filledOff: labels["filled"], markOff: labels["marker"], endOff: labels["end"], nInst: len(offs)}, nil
}

// ---------------------------------------------------------------------------
// fake memory (flat array, FIFO responses after a PRNG latency) -- after w_c14

type relPend struct {
	rsp   sim.Msg
	ready int64
}

type relMem struct {
	*simkit.Agent
	port    sim.Port
	latHi   int
	rng     *vlib.PRNG
	store   []byte
	pending []relPend
	writes  int
	bad     string
}

func newRelMem(name string, engine sim.Engine, freq sim.Freq, latHi int, store []byte, rng *vlib.PRNG) *relMem {
	m := &relMem{latHi: latHi, rng: rng, store: store}
	m.Agent = simkit.NewAgent(name, engine, freq)
	m.port = m.Agent.NewPort("Top", 8, 8)
	m.Agent.TickFn = m.tick
	return m
}

func (m *relMem) tick(a *simkit.Agent) bool {
	progress := false
	now := a.NowCycle()
	for len(m.pending) > 0 && m.pending[0].ready <= now {
		if err := m.port.Send(m.pending[0].rsp); err != nil {
			break
		}
		m.pending = m.pending[1:]
		progress = true
	}
	for {
		q := m.port.RetrieveIncoming()
		if q == nil {
			break
		}
		progress = true
		var rsp sim.Msg
		switch r := q.(type) {
		case *mem.ReadReq:
			data := make([]byte, r.AccessByteSize)
			if r.Address < uint64(len(m.store)) {
				copy(data, m.store[r.Address:])
			}
			rsp = mem.DataReadyRspBuilder{}.WithSrc(m.port.AsRemote()).WithDst(r.Src).WithRspTo(r.ID).WithData(data).Build()
		case *mem.WriteReq:
			m.writes++
			for i, b := range r.Data {
				if r.DirtyMask != nil && !r.DirtyMask[i] {
					continue
				}
				if ad := r.Address + uint64(i); ad < uint64(len(m.store)) {
					m.store[ad] = b
				}
			}
			rsp = mem.WriteDoneRspBuilder{}.WithSrc(m.port.AsRemote()).WithDst(r.Src).WithRspTo(r.ID).Build()
		default:
			m.bad = fmt.Sprintf("memory %s received %T", m.Name(), q)
			continue
		}
		m.pending = append(m.pending, relPend{rsp, now + int64(1+m.rng.Intn(m.latHi))})
	}
	if len(m.pending) > 0 {
		progress = true
	}
	return progress
}

// ---------------------------------------------------------------------------
// resource arithmetic of amd/timing/cp/internal/resource (after w_c14), plus a
// hostile mode that takes the highest free region instead of the lowest

type relAlloc struct {
	wfFree   [numSIMD]int
	sreg     []bool
	vreg     [numSIMD][]bool
	nextSIMD int
	last     bool
}

func newRelAlloc(last bool) *relAlloc {
	a := &relAlloc{sreg: make([]bool, sgprFileRegs/sgprGranule), last: last}
	for i := range a.vreg {
		a.vreg[i] = make([]bool, emuVGPRs/vgprGranule)
		a.wfFree[i] = 10
	}
	return a
}

func (a *relAlloc) find(mask []bool, n int) (int, bool) {
	if !a.last {
		return firstFit(mask, n)
	}
	run := 0
	for i := len(mask) - 1; i >= 0; i-- {
		if !mask[i] {
			run++
			if run == n {
				return i, true
			}
		} else {
			run = 0
		}
	}
	return 0, false
}

type relReservation struct {
	locs   []protocol.WfDispatchLocation
	sU, vU int
}

func (a *relAlloc) reserve(wg *kernels.WorkGroup) (*relReservation, bool) {
	co := wg.CodeObject
	r := &relReservation{sU: roundUp(int(co.WFSgprCount), sgprGranule) / sgprGranule, vU: roundUp(int(co.WIVgprCount), vgprGranule) / vgprGranule}
	r.locs = make([]protocol.WfDispatchLocation, len(wg.Wavefronts))
	save := *a
	saveS := append([]bool(nil), a.sreg...)
	var saveV [numSIMD][]bool
	for i := range a.vreg {
		saveV[i] = append([]bool(nil), a.vreg[i]...)
	}
	undo := func() {
		next := a.nextSIMD // the real pool keeps the advanced cursor
		*a = save
		a.sreg = saveS
		a.vreg = saveV
		a.nextSIMD = next
	}
	for i, wf := range wg.Wavefronts {
		r.locs[i].Wavefront = wf
		off, ok := a.find(a.sreg, r.sU)
		if !ok {
			undo()
			return nil, false
		}
		setRange(a.sreg, off, r.sU, true)
		r.locs[i].SGPROffset = off * sgprGranule * 4
	}
	for i := range wg.Wavefronts {
		first, firstTry, found := a.nextSIMD, true, false
		for firstTry || a.nextSIMD != first {
			firstTry = false
			off, ok := a.find(a.vreg[a.nextSIMD], r.vU)
			if ok && a.wfFree[a.nextSIMD] > 0 {
				found = true
				r.locs[i].SIMDID = a.nextSIMD
				r.locs[i].VGPROffset = off * vgprGranule * 4
				setRange(a.vreg[a.nextSIMD], off, r.vU, true)
				a.wfFree[a.nextSIMD]--
			}
			a.nextSIMD = (a.nextSIMD + 1) % numSIMD
			if found {
				break
			}
		}
		if !found {
			undo()
			return nil, false
		}
	}
	return r, true
}

func (a *relAlloc) free(r *relReservation) {
	for _, l := range r.locs {
		setRange(a.sreg, l.SGPROffset/4/sgprGranule, r.sU, false)
		setRange(a.vreg[l.SIMDID], l.VGPROffset/4/vgprGranule, r.vU, false)
		a.wfFree[l.SIMDID]++
	}
}

// ---------------------------------------------------------------------------
// fake dispatcher (after w_c14)

type relWG struct {
	kernel int
	wg     *kernels.WorkGroup
	req    *protocol.MapWGReq
	res    *relReservation
	done   int
}

type relDisp struct {
	*simkit.Agent
	port      sim.Port
	cu        sim.RemotePort
	rng       *vlib.PRNG
	alloc     *relAlloc
	gapMax    int
	wgs       []*relWG
	byReq     map[string]*relWG
	next      int
	notBefore int64
	odd       []string
	onMap     func(w *relWG)
}

func (d *relDisp) tick(a *simkit.Agent) bool {
	progress := false
	now := a.NowCycle()
	for {
		m := d.port.RetrieveIncoming()
		if m == nil {
			break
		}
		progress = true
		c, ok := m.(*protocol.WGCompletionMsg)
		if !ok {
			d.odd = append(d.odd, fmt.Sprintf("dispatcher received %T", m))
			continue
		}
		for _, id := range c.RspTo {
			w := d.byReq[id]
			if w == nil {
				d.odd = append(d.odd, "completion for an unknown MapWGReq")
				continue
			}
			w.done++
			if w.done == 1 {
				d.alloc.free(w.res)
			} else {
				d.odd = append(d.odd, "work-group completed twice")
			}
		}
	}
	for d.next < len(d.wgs) {
		if now < d.notBefore {
			progress = true
			break
		}
		w := d.wgs[d.next]
		if w.req == nil {
			res, ok := d.alloc.reserve(w.wg)
			if !ok {
				break // woken by the next completion message
			}
			w.res = res
			b := protocol.MapWGReqBuilder{}.WithSrc(d.port.AsRemote()).WithDst(d.cu).WithPID(1).WithWG(w.wg)
			for _, l := range res.locs {
				b = b.AddWf(l)
			}
			w.req = b.Build()
			d.byReq[w.req.ID] = w
			if d.onMap != nil {
				d.onMap(w)
			}
		}
		if err := d.port.Send(w.req); err != nil {
			break
		}
		d.next++
		progress = true
		if d.gapMax > 0 {
			d.notBefore = now + int64(d.rng.Intn(d.gapMax+1))
		}
	}
	return progress
}

// ---------------------------------------------------------------------------
// monitor

const (
	wsUnseen = iota
	wsFilling
	wsStable
	wsDumping
	wsEnded
)

type relWave struct {
	gid     int
	kernel  int
	k       relKernel
	loc     protocol.WfDispatchLocation
	spin    int
	state   int
	tainted bool
	endTask string
	wf      *wavefront.Wavefront
	// registers of the window beyond the declared counts (rest of the granule):
	// nobody writes them while the wavefront lives; content as found at first issue
	restS []uint32
	restV [][]uint32
}

type relViolation struct {
	key, what string
	wit       map[string]any
}

type relMonitor struct {
	sc      *relScenario
	cu      *cu.ComputeUnit
	progs   []*relProgram
	waves   map[*kernels.Wavefront]*relWave // by the dispatcher's own wavefront objects
	byGid   []*relWave
	endTask map[string]*relWave
	viols   []relViolation
	cnt     map[string]int64
	harness []string // problems of the harness' own expectations
}

func (m *relMonitor) rawS() []byte {
	out := make([]byte, sgprFileRegs*4)
	m.cu.SRegFile.Read(cu.RegisterAccess{Reg: insts.SReg(0), RegCount: sgprFileRegs, Data: out})
	return out
}

func (m *relMonitor) rawV(simd int) []byte {
	out := make([]byte, vgprFileRegs*4)
	m.cu.VRegFile[simd].Read(cu.RegisterAccess{Reg: insts.VReg(0), RegCount: vgprFileRegs, Data: out})
	return out
}

type rawFiles struct {
	s []byte
	v [numSIMD][]byte
}

func (m *relMonitor) snapshot() *rawFiles {
	f := &rawFiles{s: m.rawS()}
	for i := range f.v {
		f.v[i] = m.rawV(i)
	}
	return f
}

// windowDiff compares the register windows of w with the pattern (declared
// registers) resp. zero (rest of the granule). It returns the first deviating
// scalar and vector cell, "" if none. skipCnt leaves the loop counter out.
func (m *relMonitor) windowDiff(f *rawFiles, w *relWave, skipCnt bool) (sDiff, vDiff string) {
	nsr, nvr := roundUp(w.k.NS, sgprGranule), roundUp(w.k.NV, vgprGranule)
	for r := 0; r < nsr; r++ {
		if skipCnt && r == relCntReg {
			continue
		}
		var want uint32
		if r < w.k.NS {
			want = patS(w.gid, r)
		} else {
			want = w.restS[r-w.k.NS]
		}
		got := binary.LittleEndian.Uint32(f.s[w.loc.SGPROffset+4*r:])
		if got != want {
			sDiff = fmt.Sprintf("s%d of wavefront %d (scalar file byte %d) holds %08x, expected %08x", r, w.gid, w.loc.SGPROffset+4*r, got, want)
			break
		}
	}
	file := f.v[w.loc.SIMDID]
	for lane := 0; lane < 64 && vDiff == ""; lane++ {
		for r := 0; r < nvr; r++ {
			var want uint32
			if r < w.k.NV {
				want = patV(w.gid, r, lane)
			} else {
				want = w.restV[lane][r-w.k.NV]
			}
			off := lane*laneStride + w.loc.VGPROffset + 4*r
			got := binary.LittleEndian.Uint32(file[off:])
			if got != want {
				vDiff = fmt.Sprintf("v%d lane %d of wavefront %d (SIMD %d file byte %d) holds %08x, expected %08x", r, lane, w.gid, w.loc.SIMDID, off, got, want)
				break
			}
		}
	}
	return
}

func (m *relMonitor) describe(w *relWave) map[string]any {
	return map[string]any{"wavefront": w.gid, "kernel": w.k, "simd": w.loc.SIMDID, "sgpr_offset_bytes": w.loc.SGPROffset,
		"vgpr_offset_bytes": w.loc.VGPROffset, "spin": w.spin}
}

func (m *relMonitor) report(cause string, culprit, victim *relWave, kindName, diff string) {
	key := fmt.Sprintf("C07|timing|%s|disturbs-other-wavefront|%s", cause, kindName)
	what := ""
	wit := map[string]any{"scenario": m.sc, "victim": m.describe(victim), "cell": diff}
	switch cause {
	case "release":
		what = fmt.Sprintf("after wavefront %d (WFSgprCount %d, WIVgprCount %d, SIMD %d, SGPR offset %d, VGPR offset %d) ended, %s; wavefront %d is still running and did not write it",
			culprit.gid, culprit.k.NS, culprit.k.NV, culprit.loc.SIMDID, culprit.loc.SGPROffset, culprit.loc.VGPROffset, diff, victim.gid)
		wit["ended"] = m.describe(culprit)
	case "dispatch":
		what = fmt.Sprintf("after wavefront %d was dispatched (SIMD %d, SGPR offset %d, VGPR offset %d), %s; wavefront %d is running and did not write it",
			culprit.gid, culprit.loc.SIMDID, culprit.loc.SGPROffset, culprit.loc.VGPROffset, diff, victim.gid)
		wit["dispatched"] = m.describe(culprit)
	default:
		key = fmt.Sprintf("C07|timing|live-wavefront|registers-changed|%s", kindName)
		what = fmt.Sprintf("at the end of its spin loop %s (no release or dispatch was seen to change it)", diff)
	}
	m.viols = append(m.viols, relViolation{key, what + " [scenario " + m.sc.Name + "]", wit})
}

// checkLive compares the windows of every stable wavefront with its pattern.
func (m *relMonitor) checkLive(cause string, culprit *relWave) {
	var f *rawFiles
	for _, w := range m.byGid {
		if w == nil || w.state != wsStable || w.tainted || w == culprit {
			continue
		}
		if f == nil {
			f = m.snapshot()
		}
		m.cnt["release.live_windows_checked"]++
		m.cnt["release.live_cells_checked"] += int64(roundUp(w.k.NS, sgprGranule) + 64*roundUp(w.k.NV, vgprGranule))
		sd, vd := m.windowDiff(f, w, true)
		if sd != "" {
			m.report(cause, culprit, w, "sgpr", sd)
		}
		if vd != "" {
			m.report(cause, culprit, w, "vgpr", vd)
		}
		if sd != "" || vd != "" {
			w.tainted = true
		}
	}
}

func (m *relMonitor) checkOwn(w *relWave, skipCnt bool, when string) {
	if w.tainted {
		return
	}
	f := m.snapshot()
	m.cnt["release.own_windows_checked"]++
	sd, vd := m.windowDiff(f, w, skipCnt)
	if when == "filled" {
		if sd != "" || vd != "" {
			m.harness = append(m.harness, fmt.Sprintf("scenario %s: right after its fill %s%s", m.sc.Name, sd, vd))
			w.tainted = true
		}
		return
	}
	if sd != "" {
		m.report("own", nil, w, "sgpr", sd)
	}
	if vd != "" {
		m.report("own", nil, w, "vgpr", vd)
	}
	if when == "marker" && w.wf != nil {
		want := uint64(patS(w.gid, 107))<<32 | uint64(patS(w.gid, 106))
		if w.wf.VCC() != want {
			m.report("own", nil, w, "vcc", fmt.Sprintf("vcc of wavefront %d holds %016x, its pattern is %016x", w.gid, w.wf.VCC(), want))
		}
		m.cnt["release.vcc_checked"]++
	}
	if sd != "" || vd != "" {
		w.tainted = true
	}
}

// StartTask implements tracing.Tracer.
func (m *relMonitor) StartTask(t tracing.Task) {
	if t.Kind != "inst" {
		return
	}
	det, _ := t.Detail.(map[string]interface{})
	wf, _ := det["wf"].(*wavefront.Wavefront)
	in, _ := det["inst"].(*wavefront.Inst)
	if wf == nil || in == nil {
		return
	}
	w := m.waves[wf.Wavefront]
	if w == nil {
		m.harness = append(m.harness, "instruction of a wavefront the dispatcher never mapped")
		return
	}
	m.cnt["release.instructions_issued"]++
	off := int(wf.PC()) - (relCodeBase + w.kernel*relCodeSpan)
	pr := m.progs[w.kernel]
	if w.state == wsUnseen {
		w.state = wsFilling
		w.wf = wf
		m.firstIssue(w)
	}
	switch {
	case off == pr.filledOff && w.state == wsFilling:
		m.checkOwn(w, true, "filled")
		w.state = wsStable
		m.cnt["release.wavefronts_filled"]++
	case off == pr.markOff && w.state == wsStable:
		m.checkOwn(w, false, "marker")
		w.state = wsDumping
	case off == pr.endOff:
		if w.state == wsStable { // ends at once: the counter register holds 0
			m.checkOwn(w, true, "end")
		}
		w.endTask = t.ID
		m.endTask[t.ID] = w
	}
}

// firstIssue runs when a wavefront issues its first instruction: only the
// dispatcher has written its registers so far.
func (m *relMonitor) firstIssue(w *relWave) {
	f := m.snapshot()
	// is the window clean apart from what the dispatcher writes (s0 = group id, v0 = work-item id)?
	clean := true
	nsr, nvr := roundUp(w.k.NS, sgprGranule), roundUp(w.k.NV, vgprGranule)
	for r := 1; r < nsr && clean; r++ {
		clean = binary.LittleEndian.Uint32(f.s[w.loc.SGPROffset+4*r:]) == 0
	}
	for lane := 0; lane < 64 && clean; lane++ {
		for r := 1; r < nvr && clean; r++ {
			clean = binary.LittleEndian.Uint32(f.v[w.loc.SIMDID][lane*laneStride+w.loc.VGPROffset+4*r:]) == 0
		}
	}
	for r := w.k.NS; r < nsr; r++ {
		w.restS = append(w.restS, binary.LittleEndian.Uint32(f.s[w.loc.SGPROffset+4*r:]))
	}
	w.restV = make([][]uint32, 64)
	for lane := 0; lane < 64; lane++ {
		for r := w.k.NV; r < nvr; r++ {
			w.restV[lane] = append(w.restV[lane], binary.LittleEndian.Uint32(f.v[w.loc.SIMDID][lane*laneStride+w.loc.VGPROffset+4*r:]))
		}
	}
	if clean {
		m.cnt["release.windows_zero_at_first_issue"]++
	} else {
		m.cnt["release.windows_not_zero_at_first_issue(not judged)"]++
	}
	m.checkLive("dispatch", w)
}

// EndTask implements tracing.Tracer.
func (m *relMonitor) EndTask(t tracing.Task) {
	w := m.endTask[t.ID]
	if w == nil || w.state == wsEnded {
		return
	}
	w.state = wsEnded
	m.cnt["release.wavefronts_ended"]++
	if w.spin == 0 {
		m.cnt["release.wavefronts_ended_at_once"]++
	}
	live := 0
	for _, o := range m.byGid {
		if o != nil && o.state == wsStable {
			live++
		}
	}
	if live > 0 {
		m.cnt["release.ends_with_live_neighbours"]++
	}
	m.checkLive("release", w)
}

// StepTask implements tracing.Tracer.
func (m *relMonitor) StepTask(tracing.Task) {}

// AddMilestone implements tracing.Tracer.
func (m *relMonitor) AddMilestone(tracing.Milestone) {}

// ---------------------------------------------------------------------------
// run + judge

func runRelease(rec vlib.Recorder, sc *relScenario) {
	rec.Eval()
	cnt := map[string]int64{}
	defer func() {
		for k, v := range cnt {
			rec.Count(k, v)
		}
	}()
	if sc.totalWaves() > relMaxWaves {
		rec.Inconclusive("harness: release scenario with too many wavefronts")
		return
	}
	engine := sim.NewSerialEngine()
	freq := 1 * sim.GHz
	store := make([]byte, relStoreSize)
	c := cu.MakeBuilder().WithEngine(engine).WithFreq(freq).Build("CU")
	base := vlib.NewPRNG(sc.Seed)
	var mems [3]*relMem
	for i, p := range []sim.Port{c.ToInstMem, c.ToScalarMem, c.ToVectorMem} {
		mems[i] = newRelMem(fmt.Sprintf("Mem%d", i), engine, freq, max(1, sc.LatHi), store, base.ForkN("mem", i))
		simkit.Connect(engine, freq, fmt.Sprintf("ConnMem%d", i), p, mems[i].port)
	}
	c.InstMem = mems[0].port
	c.ScalarMem = mems[1].port
	c.VectorMemModules = &mem.SinglePortMapper{Port: mems[2].port.AsRemote()}

	mon := &relMonitor{sc: sc, cu: c, waves: map[*kernels.Wavefront]*relWave{}, byGid: make([]*relWave, sc.totalWaves()),
		endTask: map[string]*relWave{}, cnt: cnt}
	disp := &relDisp{rng: base.Fork("disp"), alloc: newRelAlloc(sc.Alloc == "lastfit"), gapMax: sc.GapMax, byReq: map[string]*relWG{}}
	disp.Agent = simkit.NewAgent("Disp", engine, freq)
	disp.port = disp.Agent.NewPort("ToCU", 4, 4)
	disp.Agent.TickFn = disp.tick
	disp.cu = c.ToACE.AsRemote()
	simkit.Connect(engine, freq, "ConnACE", c.ToACE, disp.port)

	// kernels: code, table, grids
	perKernel := make([][]*relWG, len(sc.Kernels))
	for k, ks := range sc.Kernels {
		pr, err := buildRelProgram(ks, sc.gBase(k))
		if err != nil {
			rec.Inconclusive(err.Error())
			return
		}
		mon.progs = append(mon.progs, pr)
		copy(store[relCodeBase+k*relCodeSpan:], pr.code)
		co := &insts.KernelCodeObject{KernelCodeObjectMeta: &insts.KernelCodeObjectMeta{
			ComputePgmRsrc2: 1 << 7,                                           // work-group id x in s0
			WFSgprCount:     uint16(ks.NS), WIVgprCount: uint16(ks.NV)}, Data: pr.code, Version: insts.CodeObjectV3}
		pkt := &kernels.HsaKernelDispatchPacket{WorkgroupSizeX: uint16(64 * ks.W), WorkgroupSizeY: 1, WorkgroupSizeZ: 1,
			GridSizeX: uint32(64 * ks.W * ks.NWG), GridSizeY: 1, GridSizeZ: 1, KernelObject: uint64(relCodeBase + k*relCodeSpan)}
		gb := kernels.NewGridBuilder()
		gb.SetKernel(kernels.KernelLaunchInfo{CodeObject: co, Packet: pkt, PacketAddr: 0x800})
		for {
			wg := gb.NextWG()
			if wg == nil {
				break
			}
			perKernel[k] = append(perKernel[k], &relWG{kernel: k, wg: wg})
		}
		if len(perKernel[k]) != ks.NWG {
			rec.Inconclusive(fmt.Sprintf("harness: grid builder produced %d work-groups, expected %d", len(perKernel[k]), ks.NWG))
			return
		}
	}
	for gid, n := range sc.Spin {
		binary.LittleEndian.PutUint32(store[relTableAddr+4*gid:], uint32(n))
	}
	used := make([]int, len(sc.Kernels))
	for _, k := range sc.Order {
		disp.wgs = append(disp.wgs, perKernel[k][used[k]])
		used[k]++
	}
	disp.onMap = func(w *relWG) {
		ks := sc.Kernels[w.kernel]
		for i, l := range w.res.locs {
			gid := sc.gBase(w.kernel) + w.wg.IDX*ks.W + i
			rw := &relWave{gid: gid, kernel: w.kernel, k: ks, loc: l, spin: sc.Spin[gid]}
			mon.waves[l.Wavefront] = rw
			mon.byGid[gid] = rw
		}
	}
	tracing.CollectTrace(c, mon)
	disp.TickLater()
	events, livelock, pv := simkit.RunBounded(engine, 4_000_000)
	cnt["release.engine_events"] += events
	wit := map[string]any{"scenario": sc}
	if pv != nil {
		rec.Violation("C07|timing|release|panic", fmt.Sprintf("the compute unit panicked while wavefronts ran to s_endpgm: %v [scenario %s]", pv, sc.Name), wit)
		return
	}
	for _, h := range append(mon.harness, disp.odd...) {
		rec.Inconclusive("release layer: " + h)
	}
	for _, mm := range mems {
		if mm.bad != "" {
			rec.Inconclusive("release layer: " + mm.bad)
		}
	}
	unfinished := 0
	for _, w := range disp.wgs {
		if w.done == 0 {
			unfinished++
		}
	}
	if !livelock && unfinished > 0 && disp.next < len(disp.wgs) && disp.wgs[disp.next].req == nil {
		idle := true
		for _, w := range disp.wgs[:disp.next] {
			idle = idle && w.done > 0
		}
		if idle {
			rec.Inconclusive(fmt.Sprintf("harness: release scenario %s has a work-group that does not fit into an empty compute unit", sc.Name))
			return
		}
	}
	if livelock || unfinished > 0 {
		// termination is C09/C14's subject; here it only means nothing more can be judged
		rec.Inconclusive(fmt.Sprintf("release scenario %s: %d work-groups never completed (livelock=%v)", sc.Name, unfinished, livelock))
	}
	seen := map[string]bool{}
	for _, v := range mon.viols {
		var wv any
		if !seen[v.key] {
			seen[v.key] = true
			if _, dup := witnessed.LoadOrStore(v.key, struct{}{}); !dup {
				wv = v.wit
			}
		}
		rec.Violation(v.key, v.what, wv)
	}
	// memory boundary: the dumped sums
	for gid, w := range mon.byGid {
		if w == nil || w.spin == 0 || w.state != wsEnded {
			continue
		}
		cnt["release.dumps_judged"]++
		var ssum uint32
		for r := 0; r < w.k.NS; r++ {
			ssum += patS(gid, r)
		}
		for lane := 0; lane < 64; lane++ {
			var vsum uint32
			for r := 0; r < w.k.NV; r++ {
				vsum += patV(gid, r, lane)
			}
			off := relOutAddr + (gid*64+lane)*8
			gotV, gotS := binary.LittleEndian.Uint32(store[off:]), binary.LittleEndian.Uint32(store[off+4:])
			kindName, got, want := "", uint32(0), uint32(0)
			switch {
			case gotS != ssum:
				kindName, got, want = "sgpr", gotS, ssum
			case gotV != vsum:
				kindName, got, want = "vgpr", gotV, vsum
			default:
				continue
			}
			key := "C07|timing|release|memory-dump-mismatch|" + kindName
			what := fmt.Sprintf("wavefront %d (WFSgprCount %d, WIVgprCount %d, SIMD %d, SGPR offset %d, VGPR offset %d) dumped the sum of its %ss, lane %d, as %08x; the registers it wrote sum to %08x [scenario %s]",
				gid, w.k.NS, w.k.NV, w.loc.SIMDID, w.loc.SGPROffset, w.loc.VGPROffset, kindName, lane, got, want, sc.Name)
			var wv any
			if _, dup := witnessed.LoadOrStore(key, struct{}{}); !dup {
				wv = map[string]any{"scenario": sc, "wavefront": mon.describe(w), "lane": lane}
			}
			rec.Violation(key, what, wv)
			break
		}
	}
	// evidence
	cnt["release.scenarios"]++
	cnt["release.wavefronts"] += int64(sc.totalWaves())
	for _, ks := range sc.Kernels {
		rec.Distinct("release_register_counts", fmt.Sprintf("s%d v%d", ks.NS, ks.NV))
		rel := "vgpr>sgpr"
		if roundUp(ks.NV, vgprGranule) < roundUp(ks.NS, sgprGranule) {
			rel = "sgpr>vgpr"
		}
		rec.Distinct("release_count_relation", rel)
	}
	rec.Distinct("release_allocation", sc.Alloc)
	slots := map[string]int{}
	for _, w := range mon.byGid {
		if w != nil {
			slots[fmt.Sprintf("%d/%d/%d", w.loc.SIMDID, w.loc.SGPROffset, w.loc.VGPROffset)]++
		}
	}
	for _, n := range slots {
		if n > 1 {
			cnt["release.slots_reused"]++
		}
	}
	if cnt["release.ends_with_live_neighbours"] > 0 && !livelock && unfinished == 0 {
		rec.Nontrivial("release|" + sc.Name + "|" + strings.Join(strings.Fields(fmt.Sprint(sc.Kernels)), ""))
	}
}

// ---------------------------------------------------------------------------
// scenarios

func relSpinFor(r *vlib.PRNG, n int) []int {
	out := make([]int, n)
	for i := range out {
		switch r.Intn(5) {
		case 0, 1:
			out[i] = 0
		case 2:
			out[i] = 20 + r.Intn(60)
		case 3:
			out[i] = 100 + r.Intn(300)
		default:
			out[i] = 400 + r.Intn(800)
		}
	}
	return out
}

func relOrder(r *vlib.PRNG, ks []relKernel) []int {
	var out []int
	left := make([]int, len(ks))
	total := 0
	for i, k := range ks {
		left[i] = k.NWG
		total += k.NWG
	}
	for len(out) < total {
		k := r.Intn(len(ks))
		if left[k] > 0 {
			left[k]--
			out = append(out, k)
		}
	}
	return out
}

func genRelScenario(r *vlib.PRNG, idx int) *relScenario {
	sc := &relScenario{Name: fmt.Sprintf("r%d", idx), Seed: r.Uint64(), GapMax: []int{0, 3, 40}[r.Intn(3)], LatHi: []int{2, 20, 120}[r.Intn(3)]}
	sc.Alloc = "firstfit"
	if idx%4 == 3 {
		sc.Alloc = "lastfit"
	}
	nk := 1 + r.Intn(3)
	budget := 26 + r.Intn(20) // wavefronts in total
	for k := 0; k < nk; k++ {
		var ks relKernel
		ks.NS = []int{8, 16, 24, 32, 40, 48, 64, 80, 96, 102}[r.Intn(10)]
		switch (idx + k) % 3 {
		case 0: // many more vector than scalar registers
			ks.NS = []int{8, 16, 24}[r.Intn(3)]
			ks.NV = []int{36, 48, 64, 84, 100, 128}[r.Intn(6)]
		case 1: // the reverse
			ks.NS = []int{64, 80, 96, 102}[r.Intn(4)]
			ks.NV = []int{4, 8, 12, 16, 20, 24}[r.Intn(6)]
		default:
			ks.NV = []int{4, 8, 12, 24, 28, 40, 64, 128, 256}[r.Intn(9)]
		}
		ks.W = 1 + r.Intn(6)
		// a work-group has to fit into an empty compute unit
		perSIMD := min(10, (emuVGPRs/vgprGranule)/(roundUp(ks.NV, vgprGranule)/vgprGranule))
		ks.W = min(ks.W, numSIMD*perSIMD, (sgprFileRegs/sgprGranule)/(roundUp(ks.NS, sgprGranule)/sgprGranule))
		n := budget / nk / ks.W
		if ks.NV >= 128 {
			n = min(n, 3)
		}
		ks.NWG = max(2, n)
		sc.Kernels = append(sc.Kernels, ks)
	}
	sc.Spin = relSpinFor(r, sc.totalWaves())
	sc.Order = relOrder(r, sc.Kernels)
	return sc
}

// canonicalRelease does not depend on the seed: adjacent first-fit windows with
// the vector count far above the scalar count and the reverse, and the last
// slots of the files.
func canonicalRelease() []*relScenario {
	mk := func(name, alloc string, ks []relKernel, spin func(gid int) int) *relScenario {
		sc := &relScenario{Name: name, Kernels: ks, Alloc: alloc, GapMax: 0, LatHi: 4, Seed: 7}
		for gid := 0; gid < sc.totalWaves(); gid++ {
			sc.Spin = append(sc.Spin, spin(gid))
		}
		left := 0
		for _, kk := range ks {
			left += kk.NWG
		}
		for i := 0; left > 0; i++ { // kernels take turns
			for k, kk := range ks {
				if i < kk.NWG {
					sc.Order = append(sc.Order, k)
					left--
				}
			}
		}
		return sc
	}
	alt := func(gid int) int { // even wavefronts end at once, odd ones outlive them
		if gid%2 == 0 {
			return 0
		}
		return 300 + 40*gid
	}
	rev := func(gid int) int {
		if gid%2 == 1 {
			return 0
		}
		return 300 + 40*gid
	}
	return []*relScenario{
		mk("canon-vgpr-much-larger-firstfit", "firstfit", []relKernel{{NS: 16, NV: 64, W: 4, NWG: 4}}, alt),
		mk("canon-sgpr-much-larger-firstfit", "firstfit", []relKernel{{NS: 96, NV: 8, W: 4, NWG: 4}}, alt),
		mk("canon-vgpr-much-larger-lastfit", "lastfit", []relKernel{{NS: 16, NV: 64, W: 4, NWG: 4}}, rev),
		mk("canon-sgpr-much-larger-lastfit", "lastfit", []relKernel{{NS: 102, NV: 4, W: 4, NWG: 4}}, rev),
		mk("canon-two-kernels-interleaved", "firstfit", []relKernel{{NS: 24, NV: 100, W: 2, NWG: 4}, {NS: 80, NV: 12, W: 3, NWG: 4}}, alt),
		mk("canon-slot-reuse", "firstfit", []relKernel{{NS: 102, NV: 24, W: 8, NWG: 12}}, func(gid int) int { return []int{0, 60, 0, 250}[gid%4] }),
	}
}
