package main

// Heterogeneous per-SIMD VGPR counts: every other layer builds compute units
// with the default uniform register files. Here real compute units are built
// with cu.MakeBuilder().WithVGPRCount(v) for vectors whose SIMDs differ (SIMD
// i>0 larger than SIMD 0, and smaller), several wavefronts are placed on every
// SIMD at 4-register granules up to that SIMD's own capacity per lane
// (count/64 registers), random 1/2/4-dword writes go through the real
// wavefront accessors / CURegFileAccessor / SimpleRegisterFile, and every lane
// of every register of every wavefront is compared with the flat model.

import (
	"bytes"
	"encoding/binary"
	"fmt"

	"github.com/sarchlab/akita/v4/sim"
	"github.com/sarchlab/mgpusim/v4/amd/insts"
	"github.com/sarchlab/mgpusim/v4/amd/kernels"
	"github.com/sarchlab/mgpusim/v4/amd/timing/cu"
	"github.com/sarchlab/mgpusim/v4/amd/timing/wavefront"

	"verifharness/vlib"
)

var heteroVectors = [][]int{
	{16384, 32768, 16384, 16384}, // SIMD 1 larger than SIMD 0
	{32768, 16384, 16384, 16384}, // SIMDs 1..3 smaller than SIMD 0
	{16384, 16384, 8192, 49152},
	{8192, 16384, 32768, 65536},
	{65536, 8192, 32768, 16384},
	{16384, 24576, 16384, 40960},
}

type hetScenario struct {
	Name   string `json:"name"`
	Vector []int  `json:"vgpr_counts"`
	Seed   uint64 `json:"seed"`
	Writes int    `json:"writes"`
}

type hetWave struct {
	simd, vOff, nv int
	wf             *wavefront.Wavefront
	cells          [][]uint32 // [lane][reg]
}

type hetWrite struct {
	w, lane, idx, n int
	data            []byte
}

func runHetero(rec vlib.Recorder, sc *hetScenario) {
	rec.Eval()
	cnt := map[string]int64{}
	defer func() {
		for k, v := range cnt {
			rec.Count(k, v)
		}
	}()
	r := vlib.NewPRNG(sc.Seed)
	wit := func(key string, extra map[string]any) any {
		if _, dup := witnessed.LoadOrStore(key, struct{}{}); dup {
			return nil
		}
		w := map[string]any{"hetero": sc}
		for k, v := range extra {
			w[k] = v
		}
		return w
	}
	var c *cu.ComputeUnit
	if p := func() (p string) {
		defer func() {
			if rr := recover(); rr != nil {
				p = fmt.Sprint(rr)
			}
		}()
		c = cu.MakeBuilder().WithEngine(sim.NewSerialEngine()).WithFreq(1 * sim.GHz).WithVGPRCount(sc.Vector).Build("CU")
		return ""
	}(); p != "" {
		key := "C07|timing|hetero-vgpr-counts|build-panic"
		rec.Violation(key, fmt.Sprintf("cu.MakeBuilder().WithVGPRCount(%v).Build panicked: %s", sc.Vector, p), wit(key, nil))
		return
	}
	// placement: per SIMD a wavefront at offset 0, one in the last slot, others in between; 4-register granules
	var waves []*hetWave
	sOff := 0
	for simd, count := range sc.Vector {
		perLane := count / 64 // registers per lane
		var offs [][2]int     // (offset in registers, nv)
		nv := []int{8, 16, 32, 64}[r.Intn(4)]
		offs = append(offs, [2]int{0, nv})
		cur := nv
		for k := 0; k < 2+r.Intn(3); k++ {
			nv = []int{4, 8, 12, 32, 64, 128}[r.Intn(6)]
			cur += 4 * r.Intn(8)
			if cur+nv > perLane-8 {
				break
			}
			offs = append(offs, [2]int{cur, nv})
			cur += nv
		}
		if cur+8 <= perLane {
			offs = append(offs, [2]int{perLane - 8, 8}) // the last slot of this SIMD's lane slice
		}
		simd0Regs := sc.Vector[0] / 64
		for _, o := range offs {
			wf := wavefront.NewWavefront(kernels.NewWavefront())
			wf.SIMDID, wf.SRegOffset, wf.VRegOffset = simd, sOff, 4*o[0]
			wf.SetEXEC(^uint64(0))
			wf.RegAccessor = &cu.CURegFileAccessor{CU: c, WF: wf}
			sOff += 64
			hw := &hetWave{simd: simd, vOff: 4 * o[0], nv: o[1], wf: wf, cells: make([][]uint32, 64)}
			for l := range hw.cells {
				hw.cells[l] = make([]uint32, o[1])
			}
			waves = append(waves, hw)
			if o[0]+o[1] > simd0Regs {
				cnt["hetero.wavefronts_beyond_simd0_lane_slice"]++
			}
		}
	}
	cnt["hetero.wavefronts"] += int64(len(waves))
	var recent []hetWrite
	viol := func(key, what string) {
		rec.Violation(key, what+fmt.Sprintf(" [compute unit built with WithVGPRCount(%v), scenario %s]", sc.Vector, sc.Name), wit(key, nil))
	}
	sweep := func(after string) bool {
		for wi, hw := range waves {
			larger, smaller := sc.Vector[hw.simd] > sc.Vector[0], sc.Vector[hw.simd] < sc.Vector[0]
			for l := 0; l < 64; l++ {
				for reg := 0; reg < hw.nv; reg++ {
					var got uint32
					if p := func() (p string) {
						defer func() {
							if rr := recover(); rr != nil {
								p = fmt.Sprint(rr)
							}
						}()
						got = uint32(hw.wf.ReadOperand(insts.NewVRegOperand(reg, reg, 1), l))
						return ""
					}(); p != "" {
						viol("C07|timing|hetero-vgpr-counts|read-panic", fmt.Sprintf("reading v%d lane %d of the wavefront at SIMD %d VGPR offset %d panicked: %s", reg, l, hw.simd, hw.vOff, p))
						return false
					}
					if larger {
						cnt["hetero.cells_compared_on_simds_larger_than_simd0"]++
					} else if smaller {
						cnt["hetero.cells_compared_on_simds_smaller_than_simd0"]++
					} else {
						cnt["hetero.cells_compared_on_simds_equal_to_simd0"]++
					}
					if got == hw.cells[l][reg] {
						continue
					}
					rel, who := "cell-differs-from-model", ""
					for i := len(recent) - 1; i >= 0; i-- { // whose write put this value there?
						q := recent[i]
						for k := 0; k < q.n; k++ {
							if binary.LittleEndian.Uint32(q.data[4*k:]) == got {
								switch {
								case q.w != wi:
									rel = "write-disturbs-other-wavefront"
								case q.lane != l:
									rel = "write-disturbs-other-lane"
								default:
									rel = "write-disturbs-other-register"
								}
								ow := waves[q.w]
								who = fmt.Sprintf("; the value was written to v%d lane %d of the wavefront at SIMD %d VGPR offset %d", q.idx+k, q.lane, ow.simd, ow.vOff)
							}
						}
						if who != "" {
							break
						}
					}
					size := "equal-simd"
					if larger {
						size = "simd-larger-than-simd0"
					} else if smaller {
						size = "simd-smaller-than-simd0"
					}
					viol(fmt.Sprintf("C07|timing|hetero-vgpr-counts|%s|%s", rel, size),
						fmt.Sprintf("%s: v%d lane %d of the wavefront at SIMD %d (%d VGPRs in that SIMD's file) VGPR offset %d reads %#x, last written %#x%s",
							after, reg, l, hw.simd, sc.Vector[hw.simd], hw.vOff, got, hw.cells[l][reg], who))
					return false
				}
			}
		}
		return true
	}
	for n := 0; n < sc.Writes; n++ {
		wi := r.Intn(len(waves))
		if r.Chance(1, 3) { // prefer wavefronts beyond SIMD 0's lane slice and the ones at offset 0 they could alias
			for try := 0; try < 8; try++ {
				k := r.Intn(len(waves))
				if 4*waves[k].nv+waves[k].vOff > sc.Vector[0]/64*4 || waves[k].vOff == 0 {
					wi = k
					break
				}
			}
		}
		hw := waves[wi]
		w := []int{1, 2, 4}[r.Intn(3)]
		idx := r.Intn(hw.nv - w + 1)
		lane := pickLane(r, &hot{lane: []int{0, 1, 63}})
		data := make([]byte, 4*w)
		nonzero(r, data)
		op := insts.NewVRegOperand(idx, idx, w)
		if p := func() (p string) {
			defer func() {
				if rr := recover(); rr != nil {
					p = fmt.Sprint(rr)
				}
			}()
			if r.Bool() {
				hw.wf.WriteOperandBytes(op, lane, clone(data))
			} else {
				hw.wf.RegAccessor.WriteReg(op.Register, w, lane, hw.wf.VRegOffset, clone(data))
			}
			return ""
		}(); p != "" {
			viol("C07|timing|hetero-vgpr-counts|write-panic", fmt.Sprintf("writing v[%d:%d] lane %d of the wavefront at SIMD %d (%d VGPRs) VGPR offset %d panicked: %s", idx, idx+w-1, lane, hw.simd, sc.Vector[hw.simd], hw.vOff, p))
			return
		}
		for k := 0; k < w; k++ {
			hw.cells[lane][idx+k] = binary.LittleEndian.Uint32(data[4*k:])
		}
		recent = append(recent, hetWrite{wi, lane, idx, w, data})
		cnt["hetero.writes"]++
		// the operand just written, through the byte API
		if got := hw.wf.ReadOperandBytes(op, lane, 4*w); !bytes.Equal(got, data) {
			viol("C07|timing|hetero-vgpr-counts|read-back-differs", fmt.Sprintf("v[%d:%d] lane %d of the wavefront at SIMD %d VGPR offset %d reads back %x after writing %x", idx, idx+w-1, lane, hw.simd, hw.vOff, got, data))
			return
		}
		if n%12 == 11 || n == sc.Writes-1 {
			cnt["hetero.sweeps"]++
			if !sweep(fmt.Sprintf("after write %d", n)) {
				return
			}
		}
	}
	cnt["hetero_vgpr_cu_configs"]++
	rec.Distinct("hetero_vgpr_vector", fmt.Sprint(sc.Vector))
	rec.Nontrivial("hetero|" + sc.Name)
}

func heteroScenarios(c *vlib.Check) []*hetScenario {
	var out []*hetScenario
	for i, v := range heteroVectors { // seed-independent: every vector once
		out = append(out, &hetScenario{Name: fmt.Sprintf("het-canon%d", i), Vector: v, Seed: 0x4E7 + uint64(i), Writes: 96})
	}
	base := c.Rand("hetero")
	for i := 0; i < c.N(18, 600); i++ {
		r := base.ForkN("h", i)
		out = append(out, &hetScenario{Name: fmt.Sprintf("het%d", i), Vector: heteroVectors[r.Intn(len(heteroVectors))], Seed: r.Uint64(), Writes: 96})
	}
	return out
}
