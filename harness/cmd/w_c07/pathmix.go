package main

// Third part of the timing layer: path-mixing histories.
//
// A register cell of the timing model is written through several paths:
//   - Wavefront.WriteOperand / WriteOperandBytes (instruction write-back of the
//     ALUs and of the LDS unit, which all go through the wavefront accessors),
//   - ComputeUnit.handleScalarDataLoadReturn, which writes the scalar register
//     file directly when an s_load answer arrives,
//   - ComputeUnit.handleVectorDataLoadReturn, which writes the vector register
//     file directly, lane by lane and register by register,
//   - the dispatcher's initialisation.
// The property demands that a read returns the last value written to the cell
// by ANY of them, and that a multi-register operand aliases its registers.
//
// Here one real compute unit (cu.MakeBuilder, fake FIFO scalar/vector memories
// whose content is a pure function of the address) holds 2..6 wavefronts. The
// harness plays instruction fetch + decode only: it never lets the scheduler
// fetch (IsFetching stays set) and instead puts single decoded instructions
// into Wavefront.InstToIssue; the real scheduler issues them, the real
// scalar / SIMD / LDS / vector-memory units execute them and the real
// load-return handlers receive the answers of the fake memories. Between such
// instructions the harness reads and writes operands through the wavefront
// accessors, writes the register files with the exact calls of the two
// load-return handlers, and delivers hand-made s_load answers to the real
// handleScalarDataLoadReturn. A shadow array of cells follows every write,
// whatever its path; every read is compared with it; multi-register reads are
// compared with reads of their constituent registers. The dominating motif is
// "read X, write X by a non-accessor path, read X again".

import (
	"bytes"
	"encoding/binary"
	"fmt"
	"strings"

	"github.com/sarchlab/akita/v4/mem/mem"
	"github.com/sarchlab/akita/v4/sim"
	"github.com/sarchlab/mgpusim/v4/amd/emu"
	"github.com/sarchlab/mgpusim/v4/amd/emu/cdna3"
	"github.com/sarchlab/mgpusim/v4/amd/insts"
	"github.com/sarchlab/mgpusim/v4/amd/timing/cu"
	"github.com/sarchlab/mgpusim/v4/amd/timing/wavefront"

	"verifharness/vlib"
	g "verifharness/vlib/gcnasm"
	"verifharness/vlib/simkit"
)

type pmScenario struct {
	Name  string `json:"name"`
	Seed  uint64 `json:"seed"`
	Style int    `json:"placement_style_index"`
	Steps int    `json:"steps"`
	LatHi int    `json:"mem_latency_max"`
	Arch  string `json:"arch,omitempty"` // "" / gcn3 | cdna3 (cdna3.ALU, CDNA3 decoding, register scoreboard, as the MI300A platform builds its compute units)
}

// write paths
const (
	pInit uint8 = iota
	pAccessor
	pDirect
	pScalarRet
	pVectorRet
	pInstWB
	pLDS
	pDispatch
)

var pathName = [...]string{"initial-fill", "accessor-write", "direct-regfile-write", "scalar-load-return", "vector-load-return",
	"instruction-writeback", "lds-return", "dispatcher-initialisation"}

// ---------------------------------------------------------------------------
// synthetic memory: every address is readable; the content is a function of
// the address. Dwords at even dword indices have bits 1:0 clear, dwords at odd
// indices are below 256, so every 8-byte aligned pair is a 4-byte aligned
// pointer below 2^40 and loaded pointers can be followed without any set-up.

func synDword(addr uint64) uint32 {
	k := addr >> 2
	x := k*0x9e3779b97f4a7c15 + 0x632be59bd9b4e019
	x ^= x >> 29
	x *= 0xbf58476d1ce4e5b9
	x ^= x >> 32
	v := uint32(x)
	if k&1 == 1 {
		return v & 0xff
	}
	return v &^ 3
}

type synMem struct{}

func (synMem) R32(a uint64) uint32 {
	if a&3 == 0 {
		return synDword(a)
	}
	var b [4]byte
	for i := range b {
		b[i] = synByte(a + uint64(i))
	}
	return binary.LittleEndian.Uint32(b[:])
}
func (synMem) W32(uint64, uint32) {}

func synByte(a uint64) byte { return byte(synDword(a&^3) >> (8 * (a & 3))) }

func synBytes(a uint64, n int) []byte {
	out := make([]byte, n)
	for i := range out {
		out[i] = synByte(a + uint64(i))
	}
	return out
}

func validPtr(v uint64) bool { return v&3 == 0 && v < 1<<40 }

type pmPend struct {
	rsp   sim.Msg
	ready int64
}

// pmMem answers in FIFO order (the compute unit relies on in-order answers per
// port) after a PRNG latency.
type pmMem struct {
	*simkit.Agent
	port    sim.Port
	latHi   int
	rng     *vlib.PRNG
	pending []pmPend
	reads   int64
	bad     string
}

func newPmMem(name string, engine sim.Engine, freq sim.Freq, latHi int, rng *vlib.PRNG) *pmMem {
	m := &pmMem{latHi: max(1, latHi), rng: rng}
	m.Agent = simkit.NewAgent(name, engine, freq)
	m.port = m.Agent.NewPort("Top", 16, 16)
	m.Agent.TickFn = m.tick
	return m
}

func (m *pmMem) tick(a *simkit.Agent) bool {
	progress := false
	now := a.NowCycle()
	for len(m.pending) > 0 && m.pending[0].ready <= now {
		if err := m.port.Send(m.pending[0].rsp); err != nil {
			break
		}
		m.pending = m.pending[1:]
		progress = true
	}
	for {
		q := m.port.RetrieveIncoming()
		if q == nil {
			break
		}
		progress = true
		r, ok := q.(*mem.ReadReq)
		if !ok {
			m.bad = fmt.Sprintf("memory %s received %T", m.Name(), q)
			continue
		}
		m.reads++
		rsp := mem.DataReadyRspBuilder{}.WithSrc(m.port.AsRemote()).WithDst(r.Src).WithRspTo(r.ID).
			WithData(synBytes(r.Address, int(r.AccessByteSize))).Build()
		m.pending = append(m.pending, pmPend{rsp, now + int64(1+m.rng.Intn(m.latHi))})
	}
	return progress || len(m.pending) > 0
}

// ---------------------------------------------------------------------------

type pmRun struct {
	sc    *pmScenario
	rec   vlib.Recorder
	cat   *catalogue
	r     *vlib.PRNG
	m     *model
	s     *stores
	eng   sim.Engine
	mems  [2]*pmMem
	st    *stats
	trace []string
	step  int
	// per wave: the path that last wrote each general-purpose cell and the
	// content the cell had before that write
	lastPath [][]uint8
	prevS    [][]byte
	prevV    [][]byte
	lds      [][]byte
	hots     []*hot
	dead     bool
	held     []*heldRead // byte-slice read results kept alive (the last 32)
	avoid    [][2]int    // scalar register ranges a scratch destination must not touch
	handled  int64       // load answers the compute unit took from its memory ports
}

func (pm *pmRun) logf(format string, a ...any) {
	pm.trace = append(pm.trace, fmt.Sprintf("%d: ", pm.step)+fmt.Sprintf(format, a...))
}

func (pm *pmRun) witness(key string, extra map[string]any) any {
	if _, dup := witnessed.LoadOrStore(key, struct{}{}); dup {
		return nil
	}
	tail := pm.trace
	if len(tail) > 80 {
		tail = tail[len(tail)-80:]
	}
	w := map[string]any{"pathmix": pm.sc, "placement": pm.m.pl, "step": pm.step, "trace_tail": tail,
		"replay_note": "the scenario (seed, placement style, steps) regenerates the whole history"}
	for k, v := range extra {
		w[k] = v
	}
	return w
}

func (pm *pmRun) violation(key, what string, extra map[string]any) {
	pm.rec.Violation(key, what+fmt.Sprintf(" [path-mixing history %s step %d]", pm.sc.Name, pm.step), pm.witness(key, extra))
	pm.st.cnt["pm.deviations_reported"]++
}

// ---- shadow ---------------------------------------------------------------

func (pm *pmRun) cellS(idx int) int       { return idx }
func (pm *pmRun) cellV(lane, idx int) int { return emuSGPRs + lane*emuVGPRs + idx }

func (pm *pmRun) setS(w, idx int, v uint32, path uint8) {
	wm := pm.m.w[w]
	copy(pm.prevS[w][4*idx:], wm.sgpr[4*idx:4*idx+4])
	binary.LittleEndian.PutUint32(wm.sgpr[4*idx:], v)
	binary.LittleEndian.PutUint32(pm.m.imgS[pm.m.pl[w].SOff+4*idx:], v)
	pm.lastPath[w][pm.cellS(idx)] = path
}

func (pm *pmRun) setV(w, lane, idx int, v uint32, path uint8) {
	wm := pm.m.w[w]
	p := pm.m.pl[w]
	off := lane*laneStride + 4*idx
	copy(pm.prevV[w][off:], wm.vgpr[off:off+4])
	binary.LittleEndian.PutUint32(wm.vgpr[off:], v)
	binary.LittleEndian.PutUint32(pm.m.imgV[p.SIMD][lane*laneStride+p.VOff+4*idx:], v)
	pm.lastPath[w][pm.cellV(lane, idx)] = path
}

func (pm *pmRun) getS(w, idx int) uint32 { return binary.LittleEndian.Uint32(pm.m.w[w].sgpr[4*idx:]) }
func (pm *pmRun) getV(w, lane, idx int) uint32 {
	return binary.LittleEndian.Uint32(pm.m.w[w].vgpr[lane*laneStride+4*idx:])
}
func (pm *pmRun) pairS(w, idx int) uint64 {
	return uint64(pm.getS(w, idx)) | uint64(pm.getS(w, idx+1))<<32
}
func (pm *pmRun) pairV(w, lane, idx int) uint64 {
	return uint64(pm.getV(w, lane, idx)) | uint64(pm.getV(w, lane, idx+1))<<32
}

// pmRegs is the shadow of one wavefront as the host interpreter sees it; every
// register write is attributed to path.
type pmRegs struct {
	pm   *pmRun
	w    int
	path uint8
}

func (r pmRegs) S(i int) uint32             { return r.pm.getS(r.w, i) }
func (r pmRegs) SetS(i int, v uint32)       { r.pm.setS(r.w, i, v, r.path) }
func (r pmRegs) V(lane, i int) uint32       { return r.pm.getV(r.w, lane, i) }
func (r pmRegs) SetV(lane, i int, v uint32) { r.pm.setV(r.w, lane, i, v, r.path) }
func (r pmRegs) EXEC() uint64               { return r.pm.m.w[r.w].exec }
func (r pmRegs) SetEXEC(v uint64)           { r.pm.m.w[r.w].exec = v }
func (r pmRegs) VCC() uint64                { return r.pm.m.w[r.w].vcc }
func (r pmRegs) SetVCC(v uint64)            { r.pm.m.w[r.w].vcc = v }
func (r pmRegs) SCC() byte                  { return r.pm.m.w[r.w].scc }
func (r pmRegs) SetSCC(v byte)              { r.pm.m.w[r.w].scc = v }

// ---- operand helpers -------------------------------------------------------

func (pm *pmRun) pickCand(k kind, idx, rc int) *opnd {
	c := pm.cat.byKey[opKey{k, idx, rc}]
	if len(c) == 0 {
		return nil
	}
	return c[pm.r.Intn(len(c))]
}

// single returns an operand for one register (RegCount 0 or 1, as decoded).
func (pm *pmRun) single(k kind, idx int) *opnd {
	rc := pm.r.Intn(2)
	if od := pm.pickCand(k, idx, rc); od != nil {
		return od
	}
	return pm.pickCand(k, idx, 1-rc)
}

func (pm *pmRun) operand(k kind, idx, width int) *opnd {
	if width <= 1 {
		return pm.single(k, idx)
	}
	return pm.pickCand(k, idx, width)
}

func opClass(od *opnd) string {
	w := od.width()
	switch od.Kind {
	case kSGPR, kVGPR:
		n := map[int]string{1: "single", 2: "pair", 3: "x3", 4: "quad", 8: "x8", 16: "x16"}[w]
		return od.Kind.String() + "-" + n
	}
	if od.RC >= 2 {
		return od.Kind.String() + "-pair"
	}
	return od.Kind.String()
}

func regClass(k kind, w int) string {
	return k.String() + "-" + map[int]string{1: "single", 2: "pair", 3: "x3", 4: "quad", 8: "x8", 16: "x16"}[w]
}

// firstCell is the cell index of dword k of the operand (general-purpose
// registers only), -1 otherwise.
func (pm *pmRun) cellOf(od *opnd, lane, k int) int {
	switch od.Kind {
	case kSGPR:
		return pm.cellS(od.Idx + k)
	case kVGPR:
		return pm.cellV(lane, od.Idx+k)
	}
	return -1
}

func (pm *pmRun) prevOf(w int, od *opnd, lane int) []byte {
	n := od.size()
	switch od.Kind {
	case kSGPR:
		return pm.prevS[w][4*od.Idx : 4*od.Idx+n]
	case kVGPR:
		off := lane*laneStride + 4*od.Idx
		return pm.prevV[w][off : off+n]
	}
	return nil
}

// judgeRead compares what a read returned with the shadow. got is the raw
// byte string of the API (8 bytes for ReadOperand).
func (pm *pmRun) judgeRead(w int, od *opnd, lane int, how string, got []byte, pan string) bool {
	want := pm.m.read(w, od, lane)
	cmpWant := want
	cmpPrev := pm.prevOf(w, od, lane)
	if how == "ReadOperand" { // a uint64: the low 8 bytes, zero-extended
		cmpWant = make([]byte, 8)
		copy(cmpWant, want)
		if cmpPrev != nil {
			p := make([]byte, 8)
			copy(p, cmpPrev)
			cmpPrev = p
		}
	}
	pm.st.cnt["pm.reads_total"]++
	if pan == "" && bytes.Equal(got, cmpWant) {
		pm.st.cnt["pm.reads_verified"]++
		return true
	}
	path := "special-register"
	if c := pm.cellOf(od, lane, 0); c >= 0 {
		k := 0
		if pan == "" {
			if d := diffAt(cmpWant, got); d >= 0 && d/4 < od.width() {
				k = d / 4
			}
		}
		path = pathName[pm.lastPath[w][pm.cellOf(od, lane, k)]]
	}
	sym := "wrong-value"
	raw, _ := pm.s.observe(backTiming, w, od, lane)
	switch {
	case pan != "":
		sym = panicSym(pan)
	case !bytes.Equal(raw, want):
		sym = "cells-differ-from-model"
	case cmpPrev != nil && len(got) == len(cmpWant):
		// stale: every dword that is wrong holds what its cell held before the cell's last write
		stale := true
		for k := 0; k+4 <= len(got); k += 4 {
			if !bytes.Equal(got[k:k+4], cmpWant[k:k+4]) && !bytes.Equal(got[k:k+4], cmpPrev[k:k+4]) {
				stale = false
			}
		}
		if stale {
			sym = "stale"
		}
	}
	key := fmt.Sprintf("C07|timing|read-after-%s|%s|%s", path, opClass(od), sym)
	what := fmt.Sprintf("wave %d at %+v: %s of %s lane %d returned %x; the cells hold %x (register file read raw: %x), "+
		"they were last written by path %q and held %x before that write %s", w, pm.m.pl[w], how, od.String(), lane, got, want, raw, path, pm.prevOf(w, od, lane), pan)
	pm.violation(key, what, map[string]any{"got": fmt.Sprintf("%x", got), "want": fmt.Sprintf("%x", want), "raw": fmt.Sprintf("%x", raw),
		"operand": od.String(), "lane": lane, "wave": w, "last_write_path": path})
	return false
}

// accRead reads (od, lane) of wave w through a wavefront accessor and judges it.
func (pm *pmRun) accRead(w int, od *opnd, lane int, a api) ([]byte, bool) {
	o := mkOp(w, a, od, lane)
	if a == aReadOperandBytes {
		o.N = od.size()
	}
	got, pan := pm.s.do(backTiming, o)
	pm.logf("w%d %s %s lane %d -> %x %s", w, o.API, od.Name+fmt.Sprintf("(rc=%d)", od.RC), lane, got, pan)
	ok := pm.judgeRead(w, od, lane, apiName[a], got, pan)
	if a == aReadOperandBytes && pan == "" && pm.s.lastRaw != nil {
		pm.held = append(pm.held, &heldRead{back: backTiming, opIdx: pm.step, o: o, buf: pm.s.lastRaw, want: clone(pm.s.lastRaw)})
		if len(pm.held) > 32 {
			pm.held = pm.held[1:]
		}
	}
	return got, ok
}

func (pm *pmRun) readAPI() api {
	if pm.r.Chance(3, 4) {
		return aReadOperand
	}
	return aReadOperandBytes
}

// accWrite writes data (od.size() bytes) through a wavefront accessor.
func (pm *pmRun) accWrite(w int, od *opnd, lane int, data []byte) {
	a := aWriteOperandBytes
	if od.width() <= 2 && pm.r.Bool() {
		a = aWriteOperand
	}
	o := mkOp(w, a, od, lane)
	if a == aWriteOperand {
		var b [8]byte
		copy(b[:], data)
		o.Val = binary.LittleEndian.Uint64(b[:])
		if od.size() < 8 {
			o.Val |= pm.r.Uint64() << (8 * uint(od.size())) // bits above the operand's width must be ignored
		}
	} else {
		o.setData(data)
	}
	_, pan := pm.s.do(backTiming, o)
	pm.logf("w%d %s %s lane %d <- %x %s", w, o.API, od.Name+fmt.Sprintf("(rc=%d)", od.RC), lane, data, pan)
	pm.st.cnt["pm.accessor_writes"]++
	switch od.Kind {
	case kSGPR:
		for k := 0; k < od.width(); k++ {
			pm.setS(w, od.Idx+k, binary.LittleEndian.Uint32(data[4*k:]), pAccessor)
		}
	case kVGPR:
		for k := 0; k < od.width(); k++ {
			pm.setV(w, lane, od.Idx+k, binary.LittleEndian.Uint32(data[4*k:]), pAccessor)
		}
	default:
		pm.m.write(w, od, lane, data)
	}
	if pan != "" {
		pm.violation(fmt.Sprintf("C07|timing|write|%s|%s", opClass(od), panicSym(pan)),
			fmt.Sprintf("wave %d: %s of %s lane %d panicked: %s", w, o.API, od.String(), lane, pan), nil)
		pm.dead = true
		return
	}
	raw, _ := pm.s.observe(backTiming, w, od, lane)
	if want := pm.m.read(w, od, lane); !bytes.Equal(raw, want) {
		pm.violation(fmt.Sprintf("C07|timing|accessor-write|%s|cells-differ-after-write", opClass(od)),
			fmt.Sprintf("wave %d: after %s of %x to %s lane %d the cells hold %x", w, o.API, want, od.String(), lane, raw), nil)
		pm.dead = true
	}
}

func (pm *pmRun) randData(n int) []byte {
	b := make([]byte, n)
	nonzero(pm.r, b)
	return b
}

func (pm *pmRun) randPtr() uint64 { return pm.r.Uint64() & 0xfffffffffc }

// ---- raw checks ------------------------------------------------------------

func (pm *pmRun) rawCheckS(w, idx, n int, path uint8) bool {
	p := pm.m.pl[w]
	raw, pan := pm.s.rawS(p.SOff+4*idx, 4*n)
	want := pm.m.w[w].sgpr[4*idx : 4*idx+4*n]
	if pan == "" && bytes.Equal(raw, want) {
		return true
	}
	pm.violation(fmt.Sprintf("C07|timing|%s|%s|cells-differ-after-write", pathName[path], regClass(kSGPR, n)),
		fmt.Sprintf("wave %d at %+v: after a write of s[%d:%d] by path %q the scalar register file holds %x, written %x %s",
			w, p, idx, idx+n-1, pathName[path], raw, want, pan), nil)
	pm.dead = true
	return false
}

func (pm *pmRun) rawCheckV(w, lane, idx, n int, path uint8) bool {
	p := pm.m.pl[w]
	raw, pan := pm.s.rawV(p.SIMD, lane*laneStride+p.VOff+4*idx, 4*n)
	off := lane*laneStride + 4*idx
	want := pm.m.w[w].vgpr[off : off+4*n]
	if pan == "" && bytes.Equal(raw, want) {
		return true
	}
	pm.violation(fmt.Sprintf("C07|timing|%s|%s|cells-differ-after-write", pathName[path], regClass(kVGPR, n)),
		fmt.Sprintf("wave %d at %+v: after a write of v[%d:%d] lane %d by path %q the vector register file holds %x, written %x %s",
			w, p, idx, idx+n-1, lane, pathName[path], raw, want, pan), nil)
	pm.dead = true
	return false
}

// sweepTiming compares both register files byte by byte with the shadow images
// and the special registers with the shadow.
func (pm *pmRun) sweepTiming(after string) {
	pm.st.cnt["pm.sweeps"]++
	var f *sweepFail
	got, pan := pm.s.rawS(0, sgprFileRegs*4)
	switch {
	case pan != "":
		f = &sweepFail{Where: "scalar register file", Detail: "raw read panicked: " + pan, Wave: -1}
	case diffAt(pm.m.imgS, got) >= 0:
		f = pm.m.locateTiming(-1, diffAt(pm.m.imgS, got), got)
	}
	for simd := 0; simd < numSIMD && f == nil; simd++ {
		got, pan := pm.s.rawV(simd, 0, vgprFileRegs*4)
		switch {
		case pan != "":
			f = &sweepFail{Where: fmt.Sprintf("vector register file %d", simd), Detail: "raw read panicked: " + pan, Wave: -1}
		case diffAt(pm.m.imgV[simd], got) >= 0:
			f = pm.m.locateTiming(simd, diffAt(pm.m.imgV[simd], got), got)
		}
	}
	for w := 0; w < len(pm.s.twf) && f == nil; w++ {
		tw := pm.s.twf[w]
		f = specialDiff(backTiming, w, pm.m.w[w], tw.VCC(), tw.EXEC(), tw.SCC(), tw.M0)
	}
	if f == nil {
		return
	}
	rel := "outside-allocation"
	if f.Wave >= 0 {
		rel = "allocated-cell"
	}
	pm.violation("C07|timing|pathmix|sweep|"+rel+"-differs-from-model",
		fmt.Sprintf("full sweep after %s: %s holds %s, model %s %s", after, f.Where, f.Got, f.Want, f.Detail), map[string]any{"cell": f})
	pm.dead = true
}

// checkHeld: a read result is a value; whatever the wavefront or the compute
// unit did since, the slices handed out earlier must still hold it.
func (pm *pmRun) checkHeld(after string) {
	for _, h := range pm.held {
		pm.st.cnt["pm.held_read_results_rechecked"]++
		if h.bad || bytes.Equal(h.buf, h.want) {
			continue
		}
		h.bad = true
		pm.violation(fmt.Sprintf("C07|timing|held-read-result|%s|changed-by-later-access", h.o.od.Kind),
			fmt.Sprintf("the %d bytes returned by ReadOperandBytes of %s lane %d (wave %d, step %d) were %x; after %s the same slice holds %x",
				len(h.want), h.o.od.String(), h.o.Lane, h.o.W, h.opIdx, h.want, after, h.buf), nil)
	}
}

// ---- driving the compute unit ----------------------------------------------

func (pm *pmRun) runIdle(what string) bool {
	_, livelock, pv := simkit.RunBounded(pm.eng, 400_000)
	if pv != nil {
		pm.violation("C07|timing|pathmix|panic", fmt.Sprintf("the compute unit panicked while executing %s: %v", what, pv), nil)
		pm.dead = true
		return false
	}
	if livelock {
		pm.rec.Inconclusive(fmt.Sprintf("path-mixing history %s: engine did not go idle after %s", pm.sc.Name, what))
		pm.dead = true
		return false
	}
	for w, wf := range pm.s.twf {
		if wf.InstToIssue != nil || wf.State != wavefront.WfReady || wf.OutstandingScalarMemAccess != 0 || wf.OutstandingVectorMemAccess != 0 {
			pm.rec.Inconclusive(fmt.Sprintf("path-mixing history %s: after %s the engine is idle but wave %d has state %d, instruction pending %v, outstanding %d/%d",
				pm.sc.Name, what, w, wf.State, wf.InstToIssue != nil, wf.OutstandingScalarMemAccess, wf.OutstandingVectorMemAccess))
			pm.dead = true
			return false
		}
	}
	for _, mm := range pm.mems {
		if mm.bad != "" {
			pm.rec.Inconclusive("path-mixing history: " + mm.bad)
			pm.dead = true
			return false
		}
	}
	return true
}

func (pm *pmRun) decode(i pIns) (*insts.Inst, error) {
	code, err := g.Encode(i.desc())
	if err != nil {
		return nil, err
	}
	return pm.s.cu.Decoder.Decode(append(code, 0, 0, 0, 0))
}

// issue hands one instruction to the real scheduler and runs the compute unit
// until the engine is idle (every answer of the fake memories included). The
// shadow is then advanced with the ISA semantics; register writes are
// attributed to path.
func (pm *pmRun) issue(w int, i pIns, path uint8) bool {
	return pm.issueMany([]pmIssue{{w, i, path}})
}

type pmIssue struct {
	w    int
	i    pIns
	path uint8
}

// issueMany does the same for one instruction each of several different
// wavefronts, which then execute concurrently.
func (pm *pmRun) issueMany(list []pmIssue) bool {
	var names []string
	for _, it := range list {
		inst, err := pm.decode(it.i)
		if err != nil {
			pm.rec.Inconclusive(fmt.Sprintf("path-mixing history: cannot assemble/decode %s: %v", it.i, err))
			pm.dead = true
			return false
		}
		pm.logf("w%d issue %s", it.w, it.i)
		pm.s.twf[it.w].InstToIssue = wavefront.NewInst(inst)
		names = append(names, it.i.String())
	}
	pm.s.cu.TickLater()
	if !pm.runIdle(strings.Join(names, " || ")) {
		return false
	}
	pm.checkHeld(strings.Join(names, " || "))
	for _, it := range list {
		hostExec(it.i, pmRegs{pm, it.w, it.path}, synMem{}, pm.lds[it.w])
		pm.st.cnt["pm.instructions_retired"]++
		pm.st.distinct("pm_instruction", strings.Fields(it.i.String())[0])
	}
	return true
}

// ---- the non-accessor writes ------------------------------------------------

// directS writes s[idx:idx+n) of wave w exactly as handleScalarDataLoadReturn does.
func (pm *pmRun) directS(w, idx int, data []byte) {
	wf := pm.s.twf[w]
	pm.logf("w%d SRegFile.Write s%d x%d <- %x", w, idx, len(data)/4, data)
	func() {
		defer func() {
			if r := recover(); r != nil {
				pm.violation("C07|timing|direct-regfile-write|panic", fmt.Sprintf("SRegFile.Write of s%d x%d panicked: %v", idx, len(data)/4, r), nil)
				pm.dead = true
			}
		}()
		pm.s.cu.SRegFile.Write(cu.RegisterAccess{
			WaveOffset: wf.SRegOffset,
			Reg:        insts.SReg(idx),
			RegCount:   len(data) / 4,
			Data:       clone(data),
		})
	}()
	for k := 0; k < len(data)/4; k++ {
		pm.setS(w, idx+k, binary.LittleEndian.Uint32(data[4*k:]), pDirect)
	}
	pm.st.cnt["pm.direct_regfile_writes"]++
}

// directV writes v[idx:idx+n) of one lane exactly as handleVectorDataLoadReturn
// does: one register at a time, RegCount 1.
func (pm *pmRun) directV(w, lane, idx int, data []byte) {
	wf := pm.s.twf[w]
	pm.logf("w%d VRegFile[%d].Write v%d x%d lane %d <- %x", w, wf.SIMDID, idx, len(data)/4, lane, data)
	func() {
		defer func() {
			if r := recover(); r != nil {
				pm.violation("C07|timing|direct-regfile-write|panic", fmt.Sprintf("VRegFile.Write of v%d lane %d panicked: %v", idx, lane, r), nil)
				pm.dead = true
			}
		}()
		for k := 0; k < len(data)/4; k++ {
			access := cu.RegisterAccess{}
			access.WaveOffset = wf.VRegOffset
			access.Reg = insts.VReg(idx + k)
			access.RegCount = 1
			access.LaneID = lane
			access.Data = clone(data[4*k : 4*k+4])
			pm.s.cu.VRegFile[wf.SIMDID].Write(access)
		}
	}()
	for k := 0; k < len(data)/4; k++ {
		pm.setV(w, lane, idx+k, binary.LittleEndian.Uint32(data[4*k:]), pDirect)
	}
	pm.st.cnt["pm.direct_regfile_writes"]++
}

// injectScalarReturn registers an in-flight scalar access the way
// ScalarUnit.executeSMEMLoad does (one entry per cache-line piece) and delivers
// the answers to the compute unit's ToScalarMem port: the real
// handleScalarDataLoadReturn performs the register write.
func (pm *pmRun) injectScalarReturn(w, idx int, data []byte, split int) bool {
	c := pm.s.cu
	wf := pm.s.twf[w]
	n := len(data) / 4
	pcs := [][2]int{{0, n}}
	if split > 0 && split < n {
		pcs = [][2]int{{0, split}, {split, n}}
	}
	inst, err := pm.decode(pIns{Op: "s_load", D: 0, A: 0, W: 1}) // only its ID is used (instruction task bookkeeping)
	if err != nil {
		pm.rec.Inconclusive("path-mixing history: " + err.Error())
		pm.dead = true
		return false
	}
	dyn := wavefront.NewInst(inst)
	pm.logf("w%d scalar answer(s) -> handleScalarDataLoadReturn s%d x%d pieces %v <- %x", w, idx, n, pcs, data)
	wf.OutstandingScalarMemAccess++
	for pi, pc := range pcs {
		req := mem.ReadReqBuilder{}.WithSrc(c.ToScalarMem.AsRemote()).WithDst(pm.mems[0].port.AsRemote()).
			WithAddress(0x1000 + uint64(4*pc[0])).WithByteSize(uint64(4 * (pc[1] - pc[0]))).Build()
		if pi != len(pcs)-1 {
			req.CanWaitForCoalesce = true
		}
		c.InFlightScalarMemAccess = append(c.InFlightScalarMemAccess, &cu.ScalarMemAccessInfo{
			Req: req, Wavefront: wf, DstSGPR: insts.SReg(idx + pc[0]), Inst: dyn})
		rsp := mem.DataReadyRspBuilder{}.WithSrc(pm.mems[0].port.AsRemote()).WithDst(c.ToScalarMem.AsRemote()).
			WithRspTo(req.ID).WithData(clone(data[4*pc[0] : 4*pc[1]])).Build()
		if err := c.ToScalarMem.Deliver(rsp); err != nil {
			pm.rec.Inconclusive("path-mixing history: the ToScalarMem port refused a hand-made answer")
			pm.dead = true
			return false
		}
	}
	if !pm.runIdle("hand-made scalar load answers") {
		return false
	}
	for k := 0; k < n; k++ {
		pm.setS(w, idx+k, binary.LittleEndian.Uint32(data[4*k:]), pScalarRet)
	}
	pm.st.cnt["pm.scalar_answers_injected"] += int64(len(pcs))
	return true
}

// ---- motifs ----------------------------------------------------------------

func (pm *pmRun) pickIdx(hs []int, lim, width, al int) int {
	idx := pm.r.Intn(lim)
	if pm.r.Chance(3, 5) {
		idx = hs[pm.r.Intn(len(hs))] + pm.r.Intn(5) - 2
	}
	idx = idx / al * al
	if idx < 0 {
		idx = 0
	}
	if idx+width > lim {
		idx = (lim - width) / al * al
	}
	return idx
}

// regionOverlapping returns an aligned power-of-two register range that
// overlaps [idx, idx+width).
func (pm *pmRun) regionOverlapping(idx, width, lim int, widths []int, alignCap int) (int, int) {
	for try := 0; try < 24; try++ {
		dW := widths[pm.r.Intn(len(widths))]
		if dW > lim {
			continue
		}
		al := min(dW, alignCap)
		if al == 3 {
			al = 1
		}
		d := idx + pm.r.Intn(width+dW-1) - (dW - 1)
		if d < 0 {
			d = 0
		}
		d = d / al * al
		if d+dW > lim || d+dW <= idx || d >= idx+width {
			continue
		}
		return d, dW
	}
	return idx, width
}

// constituents reads every register of X singly (and, for wide operands, in
// pairs), compares each with the shadow and the concatenation with what the
// read of X itself returned.
func (pm *pmRun) constituents(w int, X *opnd, lane int, xVal []byte, xOK bool) {
	wd := X.width()
	if wd < 2 {
		return
	}
	cat := make([]byte, 0, 4*wd)
	ok := true
	unit := 1
	if wd >= 4 && X.Kind == kSGPR && pm.r.Bool() {
		unit = 2
	}
	for k := 0; k < wd; k += unit {
		od := pm.operand(X.Kind, X.Idx+k, unit)
		if od == nil {
			return
		}
		got, good := pm.accRead(w, od, lane, aReadOperand)
		ok = ok && good
		if len(got) < 4*unit {
			return
		}
		cat = append(cat, got[:4*unit]...)
	}
	pm.st.cnt["pm.constituent_alias_checks"]++
	if len(xVal) == 8 && wd > 2 { // ReadOperand carries the two low dwords only
		cat = cat[:8]
	}
	xv := xVal
	if len(xv) > len(cat) {
		xv = xv[:len(cat)]
	}
	if !bytes.Equal(xv, cat) && (ok || xOK) {
		key := fmt.Sprintf("C07|timing|pair-does-not-alias-constituents|%s", opClass(X))
		pm.violation(key, fmt.Sprintf("wave %d: %s lane %d reads %x, but its constituent registers read one by one give %x (model %x)",
			w, X.String(), lane, xVal, cat, pm.m.read(w, X, lane)), map[string]any{"operand": X.String(), "lane": lane, "wave": w})
	}
}

// instRead reads a scalar register (pair) by an instruction that writes no
// register through the accessors where possible: s_cmp_eq_u32 against the
// expected value for single registers (result in SCC), s_mov_b64 into a scratch
// pair for pairs. It returns false if nothing was done.
func (pm *pmRun) instReadS(w, idx, width int, why string) bool {
	lim := pm.m.pl[w].sLimit()
	switch width {
	case 1:
		want := pm.getS(w, idx)
		lit := want
		expect := byte(1)
		if pm.r.Chance(1, 4) {
			lit, expect = want^0x10, 0
		}
		if !pm.issue(w, pIns{Op: "s_cmp_eq_u32", A: idx, Imm: lit, Src: "lit"}, pInstWB) {
			return true
		}
		pm.st.cnt["pm.instruction_source_reads"]++
		if got := pm.s.twf[w].SCC(); got != expect {
			path := pathName[pm.lastPath[w][pm.cellS(idx)]]
			sym := "wrong-value"
			if prev := binary.LittleEndian.Uint32(pm.prevS[w][4*idx:]); (prev == lit) == (got == 1) && prev != want {
				sym = "stale"
			}
			pm.violation(fmt.Sprintf("C07|timing|instruction-source-read-after-%s|sgpr-single|%s", path, sym),
				fmt.Sprintf("wave %d: s_cmp_eq_u32 s%d, %#x (%s) set SCC=%d; s%d holds %#x (last written by path %q, %#x before)",
					w, idx, lit, why, got, idx, want, path, binary.LittleEndian.Uint32(pm.prevS[w][4*idx:])), nil)
			pm.s.twf[w].SetSCC(expect)
		}
		return true
	case 2:
		if lim < 8 {
			return false
		}
		t := pm.r.Intn(lim/2) * 2
		if t < idx+2 && idx < t+2 {
			return false
		}
		for _, a := range pm.avoid { // registers the surrounding motif still needs
			if t < a[0]+a[1] && a[0] < t+2 {
				return false
			}
		}
		src := pm.pairS(w, idx)
		prev := binary.LittleEndian.Uint64(pm.prevS[w][4*idx:])
		paths := [2]uint8{pm.lastPath[w][pm.cellS(idx)], pm.lastPath[w][pm.cellS(idx+1)]}
		if !pm.issue(w, pIns{Op: "s_mov_b64", D: t, A: idx}, pInstWB) {
			return true
		}
		pm.st.cnt["pm.instruction_source_reads"]++
		raw, _ := pm.s.rawS(pm.m.pl[w].SOff+4*t, 8)
		if got := binary.LittleEndian.Uint64(raw); got != src {
			sym := "stale"
			path := ""
			for k := 1; k >= 0; k-- { // per dword: wrong and not the cell's previous content -> not merely stale
				g, s, p := uint32(got>>(32*uint(k))), uint32(src>>(32*uint(k))), uint32(prev>>(32*uint(k)))
				if g != s {
					path = pathName[paths[k]]
					if g != p {
						sym = "wrong-value"
					}
				}
			}
			pm.violation(fmt.Sprintf("C07|timing|instruction-source-read-after-%s|sgpr-pair|%s", path, sym),
				fmt.Sprintf("wave %d: s_mov_b64 s[%d:%d], s[%d:%d] (%s) stored %#x; the source pair holds %#x (last written by path %q, %#x before)",
					w, t, t+1, idx, idx+1, why, got, src, path, prev), nil)
			pm.s.rawWriteS(pm.m.pl[w].SOff+4*t, le64(src)) // keep the history going
		}
		return true
	}
	return false
}

// motifS: read X, write X by a non-accessor path, read X again (scalar).
func (pm *pmRun) motifS(w int) {
	p := pm.m.pl[w]
	lim := p.sLimit()
	rc := []int{1, 1, 1, 2, 2, 2, 2, 2, 4, 4, 8, 16}[pm.r.Intn(12)]
	if rc > lim {
		rc = 2
	}
	width := rc
	idx := pm.pickIdx(pm.hots[w].s, lim, width, alignFor(kSGPR, rc))
	X := pm.operand(kSGPR, idx, width)
	if X == nil {
		return
	}
	if pm.r.Chance(3, 10) {
		pm.accWrite(w, X, 0, pm.randData(X.size()))
		if pm.dead {
			return
		}
	}
	dIdx, dW := pm.regionOverlapping(idx, width, lim, []int{1, 2, 2, 4, 8, 16}, 4)
	mode := pm.r.Intn(100)
	var ld pIns
	chase := false
	if mode >= 60 { // a real s_load: prepare its base (and offset register) first
		ld = pIns{Op: "s_load", D: dIdx, W: dW, Imm: uint32(4 * pm.r.Intn(64))}
		if pm.r.Chance(1, 5) {
			ld.Imm = uint32(pm.r.Intn(1<<18)) << 2
		}
		if width == 2 && pm.r.Chance(3, 5) {
			ld.A, chase = idx, true
		} else {
			ld.A = pm.r.Intn(lim/2) * 2
			if pm.r.Chance(1, 3) && dW >= 2 {
				ld.A = dIdx + 2*pm.r.Intn(dW/2) // base inside the destination
			}
		}
		if pm.r.Chance(1, 5) {
			o := pm.r.Intn(lim)
			if pm.r.Chance(1, 3) {
				o = dIdx + pm.r.Intn(dW) // the offset register is overwritten by the load
			}
			if o != ld.A && o != ld.A+1 {
				ld.Src, ld.B, ld.Imm = "s", o, 0
				if v := pm.getS(w, o); v&3 != 0 || v > 1<<20 {
					pm.accWrite(w, pm.single(kSGPR, o), 0, le32(uint32(4*pm.r.Intn(4096))))
				}
			}
		}
		if !validPtr(pm.pairS(w, ld.A)) {
			pm.accWrite(w, pm.operand(kSGPR, ld.A, 2), 0, le64(pm.randPtr()))
		}
		if pm.dead {
			return
		}
	}
	// first read of X
	pm.avoid = [][2]int{{idx, width}, {dIdx, dW}}
	if mode >= 60 {
		pm.avoid = append(pm.avoid, [2]int{ld.A, 2})
		if ld.Src == "s" {
			pm.avoid = append(pm.avoid, [2]int{ld.B, 1})
		}
	}
	defer func() { pm.avoid = nil }()
	preByInst := false
	if pm.r.Chance(1, 6) && width <= 2 {
		preByInst = pm.instReadS(w, idx, width, "before the non-accessor write")
	}
	if !preByInst && (!chase || pm.r.Bool()) {
		pm.accRead(w, X, 0, pm.readAPI())
	}
	if pm.dead {
		return
	}
	// the non-accessor write
	var path uint8
	switch {
	case mode < 35:
		path = pDirect
		d, n := dIdx, dW
		if pm.r.Chance(3, 10) { // any sub-range, as a cache-line piece would be
			d = idx + pm.r.Intn(width)
			n = 1 + pm.r.Intn(min(lim-d, 5))
		}
		pm.directS(w, d, pm.randData(4*n))
		if !pm.dead {
			pm.rawCheckS(w, d, n, path)
		}
	case mode < 60:
		path = pScalarRet
		split := 0
		if dW >= 2 && pm.r.Chance(2, 5) {
			split = 1 + pm.r.Intn(dW-1)
		}
		if pm.injectScalarReturn(w, dIdx, pm.randData(4*dW), split) {
			pm.rawCheckS(w, dIdx, dW, path)
		}
	default:
		path = pScalarRet
		if chase {
			pm.st.cnt["pm.chase_loads_scalar"]++
		}
		if pm.issue(w, ld, pScalarRet) {
			pm.st.cnt["pm.s_loads_executed"]++
			pm.st.distinct("pm_s_load_width", fmt.Sprint(dW))
			pm.rawCheckS(w, dIdx, dW, path)
		}
	}
	if pm.dead {
		return
	}
	// the second read of X (same operand object, or the same register and
	// RegCount decoded from another encoding)
	pm.st.cnt["pm.repeat_reads_with_intervening_nonaccessor_write"]++
	pm.st.distinct("pm_reread_class_path", regClass(kSGPR, width)+"|"+pathName[path])
	if pm.r.Chance(1, 6) && width <= 2 && pm.instReadS(w, idx, width, "after a write by "+pathName[path]) {
		if pm.dead {
			return
		}
	}
	X2 := X
	if pm.r.Chance(3, 10) {
		if o := pm.pickCand(kSGPR, idx, X.RC); o != nil {
			X2 = o
		}
	}
	xv, xok := pm.accRead(w, X2, 0, aReadOperand)
	if pm.r.Chance(3, 5) {
		pm.constituents(w, X2, 0, xv, xok)
	}
	if pm.r.Chance(1, 3) {
		pm.accRead(w, X, 0, aReadOperandBytes)
	}
}

func (pm *pmRun) setExec(w int, v uint64) {
	pm.logf("w%d SetEXEC %#x", w, v)
	pm.s.twf[w].SetEXEC(v)
	pm.m.w[w].exec = v
}

func (pm *pmRun) someLanes(w, must int) uint64 {
	if pm.r.Chance(1, 8) {
		return ^uint64(0)
	}
	v := uint64(1) << uint(must)
	for n := pm.r.Intn(4); n > 0; n-- {
		v |= 1 << uint(pickLane(pm.r, pm.hots[w]))
	}
	return v
}

// motifV: read X, write X by a non-accessor path, read X again (vector).
func (pm *pmRun) motifV(w int) {
	p := pm.m.pl[w]
	width := []int{1, 1, 2, 2, 2, 3, 4}[pm.r.Intn(7)]
	if width > p.NV {
		width = 1
	}
	idx := pm.pickIdx(pm.hots[w].v, p.NV, width, 1)
	lane := pickLane(pm.r, pm.hots[w])
	X := pm.operand(kVGPR, idx, width)
	if X == nil {
		return
	}
	if pm.r.Chance(3, 10) {
		pm.accWrite(w, X, lane, pm.randData(X.size()))
	}
	dIdx, dW := pm.regionOverlapping(idx, width, p.NV, []int{1, 2, 2, 3, 4}, 1)
	real := pm.r.Chance(1, 2) && p.NV >= 2
	var ld pIns
	chase := false
	exec := pm.m.w[w].exec
	if real {
		ld = pIns{Op: "flat_load", D: dIdx, W: dW}
		if width == 2 && pm.r.Chance(3, 5) {
			ld.A, chase = idx, true
		} else {
			ld.A = pm.r.Intn(p.NV - 1)
			if pm.r.Chance(1, 3) && dW >= 2 {
				ld.A = dIdx + pm.r.Intn(dW-1)
			}
		}
		exec = pm.someLanes(w, lane)
		pm.setExec(w, exec)
		ao := pm.operand(kVGPR, ld.A, 2)
		for l := 0; l < 64; l++ {
			if exec>>uint(l)&1 == 1 && !validPtr(pm.pairV(w, l, ld.A)) {
				pm.accWrite(w, ao, l, le64(pm.randPtr()))
			}
		}
	}
	if pm.dead {
		return
	}
	if !chase || pm.r.Bool() {
		pm.accRead(w, X, lane, pm.readAPI())
	}
	var path uint8
	if !real {
		path = pDirect
		lanes := pm.someLanes(w, lane)
		for l := 0; l < 64; l++ {
			if lanes>>uint(l)&1 == 1 {
				pm.directV(w, l, dIdx, pm.randData(4*dW))
				if !pm.dead {
					pm.rawCheckV(w, l, dIdx, dW, path)
				}
			}
		}
	} else {
		path = pVectorRet
		if chase {
			pm.st.cnt["pm.chase_loads_vector"]++
		}
		if pm.issue(w, ld, pVectorRet) {
			pm.st.cnt["pm.flat_loads_executed"]++
			pm.st.distinct("pm_flat_load_width", fmt.Sprint(dW))
			for l := 0; l < 64; l++ {
				if exec>>uint(l)&1 == 1 && !pm.dead {
					pm.rawCheckV(w, l, dIdx, dW, path)
				}
			}
		}
	}
	if pm.dead {
		return
	}
	pm.st.cnt["pm.repeat_reads_with_intervening_nonaccessor_write"]++
	pm.st.distinct("pm_reread_class_path", regClass(kVGPR, width)+"|"+pathName[path])
	X2 := X
	if pm.r.Chance(3, 10) {
		if o := pm.pickCand(kVGPR, idx, X.RC); o != nil {
			X2 = o
		}
	}
	xv, xok := pm.accRead(w, X2, lane, aReadOperand)
	if pm.r.Chance(3, 5) {
		pm.constituents(w, X2, lane, xv, xok)
	}
	if pm.r.Chance(1, 3) {
		pm.accRead(w, X, lane, aReadOperandBytes)
	}
	if real && pm.r.Bool() { // another active lane
		for l := 63; l >= 0; l-- {
			if exec>>uint(l)&1 == 1 && l != lane {
				pm.accRead(w, X, l, aReadOperand)
				break
			}
		}
	}
}

// concurrent: loads of two to four different wavefronts in flight at the same
// time (their answers interleave at the compute unit's ports); afterwards the
// destinations are read raw and through the accessors.
func (pm *pmRun) concurrent() {
	n := min(len(pm.m.pl), 2+pm.r.Intn(3))
	waves := pm.r.Perm(len(pm.m.pl))[:n]
	var list []pmIssue
	for _, w := range waves {
		p := pm.m.pl[w]
		lim := p.sLimit()
		if pm.r.Chance(3, 5) || p.NV < 2 {
			dW := []int{1, 2, 2, 4, 8, 16}[pm.r.Intn(6)]
			if dW > lim {
				dW = 2
			}
			al := min(dW, 4)
			ld := pIns{Op: "s_load", W: dW, D: pm.r.Intn(lim-dW+1) / al * al, A: pm.r.Intn(lim/2) * 2, Imm: uint32(4 * pm.r.Intn(64))}
			if dW == 2 && pm.r.Bool() {
				ld.A = ld.D
			}
			if !validPtr(pm.pairS(w, ld.A)) {
				pm.accWrite(w, pm.operand(kSGPR, ld.A, 2), 0, le64(pm.randPtr()))
			}
			if pm.r.Bool() {
				pm.accRead(w, pm.operand(kSGPR, ld.D, dW), 0, aReadOperand)
			}
			list = append(list, pmIssue{w, ld, pScalarRet})
		} else {
			dW := 1 + pm.r.Intn(4)
			if dW > p.NV {
				dW = 1
			}
			ld := pIns{Op: "flat_load", W: dW, D: pm.r.Intn(p.NV - dW + 1), A: pm.r.Intn(p.NV - 1)}
			if dW == 2 && pm.r.Bool() {
				ld.A = ld.D
			}
			lane := pickLane(pm.r, pm.hots[w])
			ex := pm.someLanes(w, lane)
			pm.setExec(w, ex)
			ao := pm.operand(kVGPR, ld.A, 2)
			for l := 0; l < 64; l++ {
				if ex>>uint(l)&1 == 1 && !validPtr(pm.pairV(w, l, ld.A)) {
					pm.accWrite(w, ao, l, le64(pm.randPtr()))
				}
			}
			if pm.r.Bool() {
				pm.accRead(w, pm.operand(kVGPR, ld.D, dW), lane, aReadOperand)
			}
			list = append(list, pmIssue{w, ld, pVectorRet})
		}
		if pm.dead {
			return
		}
	}
	if !pm.issueMany(list) {
		return
	}
	pm.st.cnt["pm.concurrent_load_groups"]++
	for _, it := range list {
		if pm.dead {
			return
		}
		w, ld := it.w, it.i
		if ld.Op == "s_load" {
			pm.st.cnt["pm.s_loads_executed"]++
			if pm.rawCheckS(w, ld.D, ld.W, it.path) {
				pm.st.cnt["pm.repeat_reads_with_intervening_nonaccessor_write"]++
				xv, ok := pm.accRead(w, pm.operand(kSGPR, ld.D, ld.W), 0, aReadOperand)
				if pm.r.Bool() {
					pm.constituents(w, pm.operand(kSGPR, ld.D, ld.W), 0, xv, ok)
				}
			}
			continue
		}
		pm.st.cnt["pm.flat_loads_executed"]++
		ex := pm.m.w[w].exec
		for l := 0; l < 64 && !pm.dead; l++ {
			if ex>>uint(l)&1 == 1 && pm.rawCheckV(w, l, ld.D, ld.W, it.path) && pm.r.Chance(1, 2) {
				pm.st.cnt["pm.repeat_reads_with_intervening_nonaccessor_write"]++
				pm.accRead(w, pm.operand(kVGPR, ld.D, ld.W), l, aReadOperand)
			}
		}
	}
}

// plain: an accessor read or write of any operand the decoder can produce,
// special registers included (as the first layer does).
func (pm *pmRun) plain(w int) {
	od := pickOperand(pm.r, pm.cat, pm.m.pl[w], pm.hots[w])
	lane := pickLane(pm.r, pm.hots[w])
	if pm.r.Chance(9, 20) {
		data := pm.randData(od.size())
		if od.Kind == kSCC {
			data = []byte{byte(pm.r.Intn(2))}
		}
		pm.accWrite(w, od, lane, data)
		return
	}
	pm.accRead(w, od, lane, pm.readAPI())
}

// alu: one ALU / LDS instruction through the real units; the result must be
// what the ISA semantics give on the shadow.
func (pm *pmRun) alu(w int) {
	p := pm.m.pl[w]
	lim := p.sLimit()
	rs := func() int { return pm.pickIdx(pm.hots[w].s, lim, 1, 1) }
	rv := func() int { return pm.pickIdx(pm.hots[w].v, p.NV, 1, 1) }
	var i pIns
	switch x := pm.r.Intn(100); {
	case x < 20:
		i = pIns{Op: "s_mov_b32", D: rs(), A: rs(), Src: "s"}
	case x < 35:
		if lim < 4 {
			return
		}
		i = pIns{Op: "s_mov_b64", D: rs() / 2 * 2, A: rs() / 2 * 2}
	case x < 60:
		pm.setExec(w, pm.someLanes(w, pickLane(pm.r, pm.hots[w])))
		i = pIns{Op: "v_mov_b32", D: rv(), A: rs(), Src: "s"}
		if pm.r.Bool() {
			i.A, i.Src = rv(), "v"
		}
	case x < 72:
		i = pIns{Op: "s_cmp_eq_u32", A: rs(), B: rs(), Src: "s"}
		if pm.r.Bool() {
			i.B = i.A
		}
	case x < 84:
		pm.setExec(w, pm.someLanes(w, pickLane(pm.r, pm.hots[w])))
		i = pIns{Op: "v_readfirstlane_b32", D: rs(), A: rv()}
	case x < 90:
		ex := pm.someLanes(w, pickLane(pm.r, pm.hots[w]))
		pm.setExec(w, ex)
		i = pIns{Op: "ds_read_b32", D: rv(), A: rv(), Imm: uint32(pm.r.Intn(200))}
		ao := pm.single(kVGPR, i.A)
		for l := 0; l < 64; l++ {
			if ex>>uint(l)&1 == 1 && pm.getV(w, l, i.A) > uint32(len(pm.lds[w])-256) {
				pm.accWrite(w, ao, l, le32(uint32(pm.r.Intn(len(pm.lds[w])-256))))
			}
		}
	case x < 99 && p.NV >= 8:
		// ds_write / ds_write2 with distinct DATA0 / DATA1: register reads whose results meet in the LDS
		ex := pm.someLanes(w, pickLane(pm.r, pm.hots[w]))
		pm.setExec(w, ex)
		regs := pm.r.Perm(p.NV - 1)[:3]
		i = pIns{Op: []string{"ds_write2_b32", "ds_write2_b64", "ds_write_b32"}[pm.r.Intn(3)], A: regs[0], D: regs[1], B: regs[2]}
		i.Imm = uint32(pm.r.Intn(100)) | uint32(100+pm.r.Intn(100))<<8
		if pm.r.Bool() {
			i.Imm = i.Imm>>8 | i.Imm<<8&0xff00
		}
		if i.Op == "ds_write2_b64" && (regs[1] == regs[0]-1 || regs[2] == regs[0]-1 || regs[1]+1 == regs[2] || regs[2]+1 == regs[1]) {
			i.Op = "ds_write2_b32" // keep address and the two data pairs apart
		}
		if i.Op == "ds_write_b32" {
			i.Imm = uint32(pm.r.Intn(3000)) // a 16-bit byte offset
		}
		ao := pm.single(kVGPR, i.A)
		for l := 0; l < 64; l++ { // a private 8-byte slot per lane, so that lanes do not overwrite each other
			if ex>>uint(l)&1 == 1 && pm.getV(w, l, i.A) != uint32(8*l) {
				pm.accWrite(w, ao, l, le32(uint32(8*l)))
			}
		}
	default:
		i = pIns{Op: "s_waitcnt"}
	}
	if pm.dead {
		return
	}
	path := pInstWB
	if i.Op == "ds_read_b32" {
		path = pLDS
	}
	// where the sources were last written, for the key
	srcPath := "n/a"
	switch {
	case i.Op == "s_mov_b32" || i.Op == "s_mov_b64" || i.Op == "s_cmp_eq_u32" || (i.Op == "v_mov_b32" && i.Src == "s"):
		srcPath = pathName[pm.lastPath[w][pm.cellS(i.A)]]
	case i.Op == "v_mov_b32" || i.Op == "v_readfirstlane_b32" || i.Op == "ds_read_b32":
		for l := 0; l < 64; l++ {
			if pm.m.w[w].exec>>uint(l)&1 == 1 {
				srcPath = pathName[pm.lastPath[w][pm.cellV(l, i.A)]]
				break
			}
		}
	}
	exec := pm.m.w[w].exec
	if !pm.issue(w, i, path) {
		return
	}
	mn := strings.Fields(i.String())[0]
	bad := func(what string) {
		pm.violation(fmt.Sprintf("C07|timing|instruction-result|%s|source-last-written-by-%s|differs-from-model", mn, srcPath),
			fmt.Sprintf("wave %d: after %s %s", w, i, what), nil)
		pm.dead = true
	}
	wf := pm.s.twf[w]
	switch i.Op {
	case "s_mov_b32", "v_readfirstlane_b32":
		if raw, _ := pm.s.rawS(p.SOff+4*i.D, 4); !bytes.Equal(raw, pm.m.w[w].sgpr[4*i.D:4*i.D+4]) {
			bad(fmt.Sprintf("s%d holds %x, model %x", i.D, raw, pm.m.w[w].sgpr[4*i.D:4*i.D+4]))
		}
	case "s_mov_b64":
		if raw, _ := pm.s.rawS(p.SOff+4*i.D, 8); !bytes.Equal(raw, pm.m.w[w].sgpr[4*i.D:4*i.D+8]) {
			bad(fmt.Sprintf("s[%d:%d] holds %x, model %x", i.D, i.D+1, raw, pm.m.w[w].sgpr[4*i.D:4*i.D+8]))
		}
	case "s_cmp_eq_u32":
		if wf.SCC() != pm.m.w[w].scc {
			bad(fmt.Sprintf("SCC is %d, model %d", wf.SCC(), pm.m.w[w].scc))
			wf.SetSCC(pm.m.w[w].scc)
		}
	case "ds_write_b32", "ds_write2_b32", "ds_write2_b64":
		pm.st.cnt["pm.ds_writes_checked"]++
		if d := diffAt(pm.lds[w], wf.WG.LDS); d >= 0 {
			pm.violation(fmt.Sprintf("C07|timing|instruction-result|%s|lds-differs-from-model", mn),
				fmt.Sprintf("wave %d: after %s the LDS holds %x at byte %d, the registers read give %x", w, i, wf.WG.LDS[d/4*4:d/4*4+4], d/4*4, pm.lds[w][d/4*4:d/4*4+4]), nil)
			copy(wf.WG.LDS, pm.lds[w])
		}
	case "v_mov_b32", "ds_read_b32":
		for l := 0; l < 64; l++ {
			if exec>>uint(l)&1 == 0 {
				continue
			}
			off := l*laneStride + 4*i.D
			if raw, _ := pm.s.rawV(p.SIMD, l*laneStride+p.VOff+4*i.D, 4); !bytes.Equal(raw, pm.m.w[w].vgpr[off:off+4]) {
				bad(fmt.Sprintf("v%d lane %d holds %x, model %x", i.D, l, raw, pm.m.w[w].vgpr[off:off+4]))
				break
			}
		}
	}
}

// ---------------------------------------------------------------------------

func runPathmix(rec vlib.Recorder, cat *catalogue, sc *pmScenario) {
	rec.Eval()
	st := newStats()
	defer st.flush(rec)
	r := vlib.NewPRNG(sc.Seed)
	pl, style := genPlacement(r.Fork("placement"), sc.Style)
	if err := checkPlacement(pl); err != nil {
		rec.Inconclusive("harness generated an invalid placement: " + err.Error())
		return
	}
	pm := &pmRun{sc: sc, rec: rec, cat: cat, r: r.Fork("ops"), st: st, m: newModel(pl)}
	pm.eng = sim.NewSerialEngine()
	freq := 1 * sim.GHz
	bld := cu.MakeBuilder().WithEngine(pm.eng).WithFreq(freq)
	if sc.Arch == "cdna3" {
		bld = bld.WithALUFactory(func(sa emu.StorageAccessor) emu.ALU { return cdna3.NewALU(sa) }).WithCDNA3Decoding(true).WithRegisterScoreboard(true)
	}
	c := bld.Build("CU")
	pm.s = &stores{pl: pl, cu: c}
	for i, port := range []sim.Port{c.ToScalarMem, c.ToVectorMem} {
		pm.mems[i] = newPmMem(fmt.Sprintf("Mem%d", i), pm.eng, freq, sc.LatHi, r.ForkN("mem", i))
		simkit.Connect(pm.eng, freq, fmt.Sprintf("ConnMem%d", i), port, pm.mems[i].port)
	}
	c.ScalarMem = pm.mems[0].port
	c.VectorMemModules = &mem.SinglePortMapper{Port: pm.mems[1].port.AsRemote()}
	plog := simkit.NewLog(pm.eng, freq)
	plog.OnEvent = func(e simkit.Event) {
		if _, ok := e.Msg.(*mem.DataReadyRsp); ok && e.Kind == simkit.KRetrieve {
			pm.handled++
		}
		plog.Events = plog.Events[:0]
	}
	plog.Attach(c.ToScalarMem, "ToScalarMem")
	plog.Attach(c.ToVectorMem, "ToVectorMem")

	// dispatch + fill: every cell of every allocation gets a distinctive value,
	// stored raw (the reads below go through the accessors)
	fill := r.Fork("fill")
	setupPanic := func() (p string) {
		defer func() {
			if rr := recover(); rr != nil {
				p = fmt.Sprint(rr)
			}
		}()
		for w, p := range pl {
			pm.s.addWave(w)
			wf := pm.s.twf[w]
			wf.IsFetching = true // the harness is the front end: the scheduler never fetches
			pm.lastPath = append(pm.lastPath, make([]uint8, modelledCells))
			pm.prevS = append(pm.prevS, make([]byte, 4*emuSGPRs))
			pm.prevV = append(pm.prevV, make([]byte, 4*64*emuVGPRs))
			// what the real dispatcher wrote (v0 = work-item id), read back through the accessors
			for lane := 0; lane < 64; lane++ {
				pm.setV(w, lane, 0, uint32(64*w+lane), pDispatch)
			}
			for _, lane := range []int{0, 63, fill.Intn(64)} {
				pm.accRead(w, pm.single(kVGPR, 0), lane, aReadOperand)
			}
			pm.st.cnt["pm.dispatch_reads"] += 3
			lds := make([]byte, 4096)
			fill.Bytes(lds)
			wf.WG.LDS = lds
			pm.lds = append(pm.lds, clone(lds)) // the host's copy
			wm := pm.m.w[w]
			nonzero(fill, wm.sgpr[:4*p.sLimit()])
			sAll := make([]byte, 4*p.NS) // registers above s101 of the allocation are not architectural; zero
			copy(sAll, wm.sgpr[:4*p.sLimit()])
			copy(pm.m.imgS[p.SOff:], sAll)
			pm.s.rawWriteS(p.SOff, sAll)
			for lane := 0; lane < 64; lane++ {
				row := wm.vgpr[lane*laneStride : lane*laneStride+4*p.NV]
				nonzero(fill, row)
				copy(pm.m.imgV[p.SIMD][lane*laneStride+p.VOff:], row)
				pm.s.rawWriteV(p.SIMD, lane*laneStride+p.VOff, row)
			}
			wm.vcc, wm.exec, wm.scc, wm.m0 = fill.Uint64(), ^uint64(0), byte(fill.Intn(2)), fill.Uint32()
			wf.SetVCC(wm.vcc)
			wf.SetEXEC(wm.exec)
			wf.SetSCC(wm.scc)
			wf.M0 = wm.m0
			for i := range pm.lastPath[w] {
				pm.lastPath[w][i] = pInit
			}
			copy(pm.prevS[w], wm.sgpr)
			copy(pm.prevV[w], wm.vgpr)
			ht := &hot{}
			for j := 0; j < 3; j++ {
				ht.s = append(ht.s, fill.Intn(p.sLimit()))
				ht.v = append(ht.v, fill.Intn(p.NV))
				ht.lane = append(ht.lane, fill.Intn(64))
			}
			pm.hots = append(pm.hots, ht)
		}
		return ""
	}()
	if setupPanic != "" {
		rec.Violation("C07|timing|pathmix|setup|panic", fmt.Sprintf("dispatching/filling the wavefronts of %+v panicked: %s", pl, setupPanic),
			map[string]any{"pathmix": sc, "placement": pl})
		return
	}
	st.distinct("pm_placement_style", style)
	st.distinct("pm_arch", map[string]string{"": "gcn3", "gcn3": "gcn3", "cdna3": "cdna3"}[sc.Arch])
	st.cnt["pm.histories"]++
	st.cnt["pm.wavefronts"] += int64(len(pl))
	pm.sweepTiming("the fill")

	for pm.step = 0; pm.step < sc.Steps && !pm.dead; pm.step++ {
		w := pm.r.Intn(len(pl))
		switch x := pm.r.Intn(100); {
		case x < 40:
			pm.motifS(w)
		case x < 60:
			pm.motifV(w)
		case x < 68:
			pm.concurrent()
		case x < 84:
			pm.plain(w)
		default:
			pm.alu(w)
		}
		st.cnt["pm.steps"]++
		pm.checkHeld(fmt.Sprintf("step %d", pm.step))
		if !pm.dead && pm.step%40 == 39 {
			pm.sweepTiming(fmt.Sprintf("step %d", pm.step))
		}
	}
	if !pm.dead {
		pm.sweepTiming("the last step")
	}
	st.cnt["pm.load_return_writes_observed"] += pm.handled
	st.cnt["pm.memory_reads_served"] += pm.mems[0].reads + pm.mems[1].reads
	if !pm.dead && st.cnt["pm.repeat_reads_with_intervening_nonaccessor_write"] > 0 && pm.handled > 0 {
		st.nt["pathmix|"+sc.Name] = struct{}{}
	}
}

func genPmScenario(r *vlib.PRNG, idx, steps int) *pmScenario {
	sc := &pmScenario{Name: fmt.Sprintf("pm%d", idx), Seed: r.Uint64(), Style: idx, Steps: steps, LatHi: []int{1, 4, 30, 120}[idx%4]}
	if idx%3 == 2 {
		sc.Arch = "cdna3"
	}
	return sc
}
