package main

// Operand catalogue: every operand the monitor uses is harvested from a real
// insts.Disassembler decoding a hand-assembled GCN3 encoding, so that the
// *insts.Operand (register object, RegCount 0/1/2/3/4/8/16, Code) is exactly
// what the simulator's decoder hands to ReadOperand/WriteOperand. Each harvest
// is verified: mnemonic, register and RegCount must be the intended ones.

import (
	"encoding/binary"
	"fmt"
	"sort"

	"github.com/sarchlab/mgpusim/v4/amd/insts"
)

type kind int

const (
	kSGPR kind = iota
	kVGPR
	kVCCLO
	kVCCHI
	kEXECLO
	kEXECHI
	kM0
	kSCC
	kOther // flat_scratch, xnack_mask, tba/tma, ttmp, vccz/execz: probed only
	numKinds
)

var kindName = [...]string{"sgpr", "vgpr", "vcclo", "vcchi", "execlo", "exechi", "m0", "scc", "other"}

func (k kind) String() string { return kindName[k] }

type opnd struct {
	ID    int
	Op    *insts.Operand
	Words []uint32
	Mnem  string
	Field string
	Kind  kind
	Idx   int // register index for sgpr/vgpr, else 0
	RC    int // RegCount as decoded
	Name  string
}

// width in dwords (SCC counts as 1 cell of one byte).
func (o *opnd) width() int {
	if o.RC <= 1 {
		return 1
	}
	return o.RC
}

// size in bytes of the operand as the register stores define it
// (Register.ByteSize, times RegCount when RegCount >= 2).
func (o *opnd) size() int {
	n := o.Op.Register.ByteSize
	if o.RC >= 2 {
		n *= o.RC
	}
	return n
}

func (o *opnd) isHalf() bool {
	return o.RC <= 1 && (o.Kind == kVCCLO || o.Kind == kVCCHI || o.Kind == kEXECLO || o.Kind == kEXECHI)
}

func (o *opnd) instHex() string {
	s := ""
	for i, w := range o.Words {
		if i > 0 {
			s += " "
		}
		s += fmt.Sprintf("%08x", w)
	}
	return s
}

func (o *opnd) String() string {
	return fmt.Sprintf("%s(rc=%d) from %s.%s [%s]", o.Name, o.RC, o.Mnem, o.Field, o.instHex())
}

type opKey struct {
	K   kind
	Idx int
	RC  int
}

// catChange: an operand harvested earlier differed from its snapshot after a later decode.
type catChange struct {
	od      *opnd
	change  string
	culprit string // the instruction whose decode changed it
}

type catalogue struct {
	specials []*opSnap // snapshots of the non-general-purpose operands harvested so far
	specOd   []*opnd
	changes  []catChange
	all      []*opnd
	byKey    map[opKey][]*opnd
	byInst   map[string]*opnd // instHex + "/" + field
	rcs      [numKinds][]int  // RegCounts harvested per kind
	others   []*opnd
	sources  map[string]int
}

// ---- GCN3 encoders (only what is needed to harvest operands) ----

func sop1(op, sdst, ssrc0 int) []uint32 {
	return []uint32{0xBE800000 | uint32(sdst)<<16 | uint32(op)<<8 | uint32(ssrc0)}
}
func sop2(op, sdst, s0, s1 int) []uint32 {
	return []uint32{0x80000000 | uint32(op)<<23 | uint32(sdst)<<16 | uint32(s1)<<8 | uint32(s0)}
}
func sopk(op, sdst, imm int) []uint32 {
	return []uint32{0xB0000000 | uint32(op)<<23 | uint32(sdst)<<16 | uint32(imm)}
}
func sopc(op, s0, s1 int) []uint32 {
	return []uint32{0xBF000000 | uint32(op)<<16 | uint32(s1)<<8 | uint32(s0)}
}
func vop1(op, vdst, src0 int) []uint32 {
	return []uint32{0x7E000000 | uint32(vdst)<<17 | uint32(op)<<9 | uint32(src0)}
}
func vop2(op, vdst, vsrc1, src0 int) []uint32 {
	return []uint32{uint32(op)<<25 | uint32(vdst)<<17 | uint32(vsrc1)<<9 | uint32(src0)}
}
func vopc(op, vsrc1, src0 int) []uint32 {
	return []uint32{0x7C000000 | uint32(op)<<17 | uint32(vsrc1)<<9 | uint32(src0)}
}
func vop3a(op, vdst, s0, s1, s2 int) []uint32 {
	return []uint32{0xD0000000 | uint32(op)<<16 | uint32(vdst), uint32(s0) | uint32(s1)<<9 | uint32(s2)<<18}
}
func vop3b(op, vdst, sdst, s0, s1, s2 int) []uint32 {
	return []uint32{0xD0000000 | uint32(op)<<16 | uint32(sdst)<<8 | uint32(vdst), uint32(s0) | uint32(s1)<<9 | uint32(s2)<<18}
}
func smem(op, sdata, sbase, imm, offset int) []uint32 {
	return []uint32{0xC0000000 | uint32(op)<<18 | uint32(imm)<<17 | uint32(sdata)<<6 | uint32(sbase), uint32(offset)}
}
func flat(op, vdst, data, addr, saddr int) []uint32 {
	return []uint32{0xDC000000 | uint32(op)<<18, uint32(addr) | uint32(data)<<8 | uint32(saddr)<<16 | uint32(vdst)<<24}
}
func ds(op, vdst, addr, d0, d1, off int) []uint32 {
	return []uint32{0xD8000000 | uint32(op)<<17 | uint32(off), uint32(addr) | uint32(d0)<<8 | uint32(d1)<<16 | uint32(vdst)<<24}
}

func wordsToBytes(ws []uint32) []byte {
	b := make([]byte, 4*len(ws)+4) // slack so that the decoder may look at a following dword
	for i, w := range ws {
		binary.LittleEndian.PutUint32(b[4*i:], w)
	}
	return b
}

func fieldOf(in *insts.Inst, f string) *insts.Operand {
	switch f {
	case "Dst":
		return in.Dst
	case "SDst":
		return in.SDst
	case "Src0":
		return in.Src0
	case "Src1":
		return in.Src1
	case "Src2":
		return in.Src2
	case "Data":
		return in.Data
	case "Data1":
		return in.Data1
	case "Addr":
		return in.Addr
	case "Base":
		return in.Base
	case "Offset":
		return in.Offset
	}
	return nil
}

func classify(o *insts.Operand) (kind, int, bool) {
	if o == nil || o.OperandType != insts.RegOperand || o.Register == nil {
		return 0, 0, false
	}
	r := o.Register
	switch {
	case r.IsSReg():
		return kSGPR, r.RegIndex(), true
	case r.IsVReg():
		return kVGPR, r.RegIndex(), true
	}
	switch r.RegType {
	case insts.VCCLO:
		return kVCCLO, 0, true
	case insts.VCCHI:
		return kVCCHI, 0, true
	case insts.EXECLO:
		return kEXECLO, 0, true
	case insts.EXECHI:
		return kEXECHI, 0, true
	case insts.M0:
		return kM0, 0, true
	case insts.SCC:
		return kSCC, 0, true
	}
	return kOther, 0, true
}

// what a scalar operand code is intended to denote (GCN3 ISA table 'scalar operands')
func scalarCode(code int) (kind, int, bool) {
	switch {
	case code >= 0 && code <= 101:
		return kSGPR, code, true
	case code == 106:
		return kVCCLO, 0, true
	case code == 107:
		return kVCCHI, 0, true
	case code == 124:
		return kM0, 0, true
	case code == 126:
		return kEXECLO, 0, true
	case code == 127:
		return kEXECHI, 0, true
	case code == 253:
		return kSCC, 0, true
	case code >= 102 && code <= 105, code >= 108 && code <= 122, code == 251, code == 252:
		return kOther, 0, true
	case code >= 256 && code <= 511:
		return kVGPR, code - 256, true
	}
	return 0, 0, false
}

type harvestErr struct{ msg string }

func (c *catalogue) harvest(d *insts.Disassembler, mnem string, words []uint32, field string, wantCode, wantRC int) error {
	wk, wi, ok := scalarCode(wantCode)
	if !ok {
		return fmt.Errorf("harness: code %d is no register", wantCode)
	}
	in, err := d.Decode(wordsToBytes(words))
	if err != nil {
		return fmt.Errorf("%s %x: decode error %v", mnem, words, err)
	}
	// an operand object must not change after Decode returned: re-check what was harvested before
	for i, sn := range c.specials {
		if sn.dirty {
			continue
		}
		if ch := sn.changed(); ch != "" {
			sn.dirty = true
			c.changes = append(c.changes, catChange{c.specOd[i], ch, fmt.Sprintf("%s %x", mnem, words)})
		}
	}
	if in.InstName != mnem {
		return fmt.Errorf("%x decodes to %s, intended %s", words, in.InstName, mnem)
	}
	if in.ByteSize != 4*len(words) {
		return fmt.Errorf("%s %x: decoded size %d, assembled %d", mnem, words, in.ByteSize, 4*len(words))
	}
	op := fieldOf(in, field)
	k, idx, ok := classify(op)
	if !ok {
		return fmt.Errorf("%s %x: field %s is not a register operand", mnem, words, field)
	}
	if k == wk && idx == wi && op.RegCount != wantRC && len(c.changes) > 0 {
		return nil // operand objects are being modified by later decodes (reported by the caller); this harvest is one more victim
	}
	if k == wk && idx != wi && (k == kVGPR || k == kSGPR) && op.Register != nil &&
		op.Register.Name == fmt.Sprintf("%s%d", map[kind]string{kVGPR: "v", kSGPR: "s"}[k], wi) {
		// the register table gives the register named by this operand code the cell of another register
		return &cellAliasErr{Kind: k.String(), Name: op.Register.Name, Cell: idx, Intended: wi,
			Msg: fmt.Sprintf("%s %x field %s: operand code of %s resolves to register cell %d (RegIndex) instead of %d: %s and %s%d are one cell",
				mnem, words, field, op.Register.Name, idx, wi, op.Register.Name, op.Register.Name[:1], idx)}
	}
	if k != wk || idx != wi || op.RegCount != wantRC {
		return fmt.Errorf("%s %x field %s: decoder gives %s rc=%d, intended kind=%s idx=%d rc=%d",
			mnem, words, field, op.Register.Name, op.RegCount, wk, wi, wantRC)
	}
	o := &opnd{ID: len(c.all), Op: op, Words: words, Mnem: mnem, Field: field, Kind: k, Idx: idx, RC: op.RegCount, Name: op.Register.Name}
	c.all = append(c.all, o)
	if k != kSGPR && k != kVGPR {
		c.specials = append(c.specials, snapOf(op, mnem+"."+field, len(c.all)))
		c.specOd = append(c.specOd, o)
	}
	key := opKey{k, idx, o.RC}
	if k == kOther {
		c.others = append(c.others, o)
	} else {
		c.byKey[key] = append(c.byKey[key], o)
	}
	c.byInst[o.instHex()+"/"+field] = o
	c.sources[mnem+"."+field]++
	return nil
}

func buildCatalogue() (*catalogue, error) {
	c := &catalogue{byKey: map[opKey][]*opnd{}, byInst: map[string]*opnd{}, sources: map[string]int{}}
	d := insts.NewDisassembler()
	var firstErr error
	h := func(mnem string, words []uint32, field string, code, rc int) {
		if err := c.harvest(d, mnem, words, field, code, rc); err != nil && firstErr == nil {
			firstErr = err
		}
	}
	var scalar1dst, scalar1src, scalar2, others7, others8 []int
	for i := 0; i <= 101; i++ {
		scalar1dst = append(scalar1dst, i)
		if i%2 == 0 {
			scalar2 = append(scalar2, i)
		}
	}
	scalar1dst = append(scalar1dst, 106, 107, 124, 126, 127)
	scalar1src = append(append([]int{}, scalar1dst...), 253)
	scalar2 = append(scalar2, 106, 126)
	for i := 102; i <= 105; i++ {
		others7 = append(others7, i)
	}
	for i := 108; i <= 122; i++ {
		others7 = append(others7, i)
	}
	others8 = append(append([]int{}, others7...), 251, 252)

	const zero = 128 // inline constant 0
	for _, cd := range scalar1dst {
		h("s_mov_b32", sop1(0, cd, zero), "Dst", cd, 0)
		h("s_and_b32", sop2(12, cd, zero, zero), "Dst", cd, 0)
		h("s_movk_i32", sopk(0, cd, 0x1234), "Dst", cd, 0)
		h("v_readfirstlane_b32", vop1(2, cd, 256), "Dst", cd, 0)
		h("s_load_dword", smem(0, cd, 0, 1, 0), "Data", cd, 1)
	}
	for _, cd := range scalar1src {
		h("s_mov_b32", sop1(0, 0, cd), "Src0", cd, 0)
		h("s_and_b32", sop2(12, 0, cd, zero), "Src0", cd, 0)
		h("s_and_b32", sop2(12, 0, zero, cd), "Src1", cd, 0)
		h("s_cmp_eq_u32", sopc(6, cd, zero), "Src0", cd, 0)
		h("s_cmp_eq_u32", sopc(6, zero, cd), "Src1", cd, 0)
		h("v_mov_b32_e32", vop1(1, 0, cd), "Src0", cd, 0)
		h("v_add_u32_e32", vop2(25, 0, 0, cd), "Src0", cd, 0)
		h("v_cmp_eq_u32_e32", vopc(0xca, 0, cd), "Src0", cd, 0)
	}
	for _, cd := range others7 {
		h("s_mov_b32", sop1(0, cd, zero), "Dst", cd, 0)
	}
	for _, cd := range others8 {
		h("s_mov_b32", sop1(0, 0, cd), "Src0", cd, 0)
		h("v_mov_b32_e32", vop1(1, 0, cd), "Src0", cd, 0)
	}
	for _, cd := range scalar2 {
		h("s_mov_b64", sop1(1, cd, zero), "Dst", cd, 2)
		h("s_mov_b64", sop1(1, 0, cd), "Src0", cd, 2)
		h("s_and_b64", sop2(13, cd, zero, zero), "Dst", cd, 2)
		h("s_and_b64", sop2(13, 0, cd, zero), "Src0", cd, 2)
		h("s_and_b64", sop2(13, 0, zero, cd), "Src1", cd, 2)
		h("s_load_dwordx2", smem(1, cd, 0, 1, 0), "Data", cd, 2)
		h("v_add_f64", vop3a(640, 0, cd, 256, 0), "Src0", cd, 2)
		h("v_add_f64", vop3a(640, 0, 256, cd, 0), "Src1", cd, 2)
		h("v_cmp_eq_u32_e64", vop3a(0xca, cd, 256, 257, 0), "Dst", cd, 2)
		h("v_cndmask_b32_e64", vop3a(256, 0, 256, 257, cd), "Src2", cd, 2)
		h("v_add_u32_e64", vop3b(281, 0, cd, 256, 257, 0), "SDst", cd, 2)
		h("v_addc_u32_e64", vop3b(284, 0, 106, 256, 257, cd), "Src2", cd, 2)
		if cd <= 100 {
			h("s_load_dword", smem(0, 0, cd/2, 1, 0), "Base", cd, 2)
		}
	}
	for i := 0; i <= 101; i++ {
		h("s_load_dword", smem(0, 0, 0, 0, i), "Offset", i, 1)
	}
	for i := 0; i+4 <= 102; i += 4 {
		h("s_load_dwordx4", smem(2, i, 0, 1, 0), "Data", i, 4)
	}
	for i := 0; i+8 <= 102; i += 4 {
		h("s_load_dwordx8", smem(3, i, 0, 1, 0), "Data", i, 8)
	}
	for i := 0; i+16 <= 102; i += 4 {
		h("s_load_dwordx16", smem(4, i, 0, 1, 0), "Data", i, 16)
	}
	for v := 0; v <= 255; v++ {
		cd := 256 + v
		h("v_mov_b32_e32", vop1(1, v, zero), "Dst", cd, 0)
		h("v_mov_b32_e32", vop1(1, 0, cd), "Src0", cd, 0)
		h("v_add_u32_e32", vop2(25, v, 0, zero), "Dst", cd, 0)
		h("v_add_u32_e32", vop2(25, 0, v, zero), "Src1", cd, 0)
		h("v_add_u32_e32", vop2(25, 0, 0, cd), "Src0", cd, 0)
		h("v_cmp_eq_u32_e32", vopc(0xca, v, zero), "Src1", cd, 0)
		h("flat_load_dword", flat(20, v, 0, 0, 0x7f), "Dst", cd, 0)
		h("flat_store_dword", flat(28, 0, v, 0, 0x7f), "Data", cd, 0)
		h("v_add_u32_e64", vop3b(281, v, 106, 256, 257, 0), "Dst", cd, 1)
		h("ds_read_b32", ds(54, v, 0, 0, 0, 0), "Dst", cd, 1)
		h("ds_read_b32", ds(54, 0, v, 0, 0, 0), "Addr", cd, 1)
		h("ds_write_b32", ds(13, 0, 0, v, 0, 0), "Data", cd, 1)
		if v+2 <= 256 {
			h("v_cvt_f64_i32_e32", vop1(4, v, zero), "Dst", cd, 2)
			h("v_add_f64", vop3a(640, v, 256, 256, 0), "Dst", cd, 2)
			h("v_add_f64", vop3a(640, 0, cd, 256, 0), "Src0", cd, 2)
			h("flat_load_dwordx2", flat(21, v, 0, 0, 0x7f), "Dst", cd, 2)
			h("flat_load_dword", flat(20, 0, 0, v, 0x7f), "Addr", cd, 2)
			h("flat_store_dwordx2", flat(29, 0, v, 0, 0x7f), "Data", cd, 2)
			h("ds_read_b64", ds(118, v, 0, 0, 0, 0), "Dst", cd, 2)
		}
		if v+3 <= 256 {
			h("flat_load_dwordx3", flat(22, v, 0, 0, 0x7f), "Dst", cd, 3)
			h("flat_store_dwordx3", flat(30, 0, v, 0, 0x7f), "Data", cd, 3)
		}
		if v+4 <= 256 {
			h("flat_load_dwordx4", flat(23, v, 0, 0, 0x7f), "Dst", cd, 4)
			h("flat_store_dwordx4", flat(31, 0, v, 0, 0x7f), "Data", cd, 4)
			h("ds_read_b128", ds(255, v, 0, 0, 0, 0), "Dst", cd, 4)
			h("ds_write_b128", ds(223, 0, 0, v, 0, 0), "Data", cd, 4)
		}
	}
	if firstErr != nil {
		return c, firstErr // the caller still wants c.changes
	}
	seen := [numKinds]map[int]bool{}
	for k, v := range c.byKey {
		if seen[k.K] == nil {
			seen[k.K] = map[int]bool{}
		}
		seen[k.K][k.RC] = true
		sort.Slice(v, func(i, j int) bool { return v[i].ID < v[j].ID })
	}
	for k := kind(0); k < numKinds; k++ {
		for rc := range seen[k] {
			c.rcs[k] = append(c.rcs[k], rc)
		}
		sort.Ints(c.rcs[k])
	}
	return c, nil
}

// cellAliasErr: the decoder yields the register the encoding names, but that
// register's cell index is the one of another register (two names, one cell).
type cellAliasErr struct {
	Kind, Name, Msg string
	Cell, Intended  int
}

func (e *cellAliasErr) Error() string { return e.Msg }
