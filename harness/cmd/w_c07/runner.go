package main

// The flat model, the two real register stores (emu.Wavefront; cu.ComputeUnit
// with wavefront.Wavefront + CURegFileAccessor) and the code that applies one
// operation to all three and compares.

import (
	"bytes"
	"encoding/binary"
	"encoding/hex"
	"fmt"
	"strings"

	"github.com/sarchlab/akita/v4/sim"
	"github.com/sarchlab/mgpusim/v4/amd/emu"
	"github.com/sarchlab/mgpusim/v4/amd/insts"
	"github.com/sarchlab/mgpusim/v4/amd/kernels"
	"github.com/sarchlab/mgpusim/v4/amd/protocol"
	"github.com/sarchlab/mgpusim/v4/amd/timing/cu"
	"github.com/sarchlab/mgpusim/v4/amd/timing/wavefront"
)

const (
	sgprFileRegs  = 3200  // cu.MakeBuilder default
	vgprFileRegs  = 16384 // per SIMD
	laneStride    = 1024  // bytes between the same VGPR of consecutive lanes
	numSIMD       = 4
	emuSGPRs      = 102
	emuVGPRs      = 256
	sgprGranule   = 16 // registers (resource.CUResourcePool: sregGranularity)
	vgprGranule   = 4  // registers per lane (vregGranularity)
	backEmu       = 0
	backTiming    = 1
	numBackings   = 2
	modelledCells = emuSGPRs + 64*emuVGPRs
)

var backName = [numBackings]string{"emu", "timing"}

// wavePlace is where one wavefront lives in the timing register files; the
// offsets are in bytes exactly as protocol.WfDispatchLocation carries them.
type wavePlace struct {
	SIMD int `json:"simd"`
	SOff int `json:"sgpr_offset_bytes"`
	VOff int `json:"vgpr_offset_bytes"`
	NS   int `json:"sgprs_allocated"`
	NV   int `json:"vgprs_allocated"`
}

func (p wavePlace) sLimit() int {
	if p.NS < emuSGPRs {
		return p.NS
	}
	return emuSGPRs
}

// ---------------------------------------------------------------------------
// model

type wmodel struct {
	sgpr  []byte // 4*102, same layout as emu.Wavefront.SRegFile
	vgpr  []byte // 4*64*256, lane-major like emu.Wavefront.VRegFile
	vcc   uint64
	exec  uint64
	scc   byte
	m0    uint32
	lastW [numBackings][]uint8 // class of the last verified history write per cell (+ specials at the end)
}

const (
	cellVCCLO = modelledCells + iota
	cellVCCHI
	cellEXECLO
	cellEXECHI
	cellM0
	cellSCC
	numCells
)

type model struct {
	pl   []wavePlace
	w    []*wmodel
	imgS []byte          // expected image of the CU's scalar register file
	imgV [numSIMD][]byte // expected images of the vector register files
}

func newModel(pl []wavePlace) *model {
	m := &model{pl: pl, imgS: make([]byte, sgprFileRegs*4)}
	for i := range m.imgV {
		m.imgV[i] = make([]byte, vgprFileRegs*4)
	}
	for range pl {
		w := &wmodel{sgpr: make([]byte, 4*emuSGPRs), vgpr: make([]byte, 4*64*emuVGPRs)}
		for b := range w.lastW {
			w.lastW[b] = make([]uint8, numCells)
		}
		m.w = append(m.w, w)
	}
	return m
}

// cells returns the cell indices (for lastW bookkeeping) an operand denotes.
func cellsOf(o *opnd, lane int) []int {
	switch o.Kind {
	case kSGPR:
		out := make([]int, o.width())
		for i := range out {
			out[i] = o.Idx + i
		}
		return out
	case kVGPR:
		out := make([]int, o.width())
		for i := range out {
			out[i] = emuSGPRs + lane*emuVGPRs + o.Idx + i
		}
		return out
	case kVCCLO:
		if o.RC >= 2 {
			return []int{cellVCCLO, cellVCCHI}
		}
		return []int{cellVCCLO}
	case kVCCHI:
		return []int{cellVCCHI}
	case kEXECLO:
		if o.RC >= 2 {
			return []int{cellEXECLO, cellEXECHI}
		}
		return []int{cellEXECLO}
	case kEXECHI:
		return []int{cellEXECHI}
	case kM0:
		return []int{cellM0}
	case kSCC:
		return []int{cellSCC}
	}
	return nil
}

func le64(v uint64) []byte { b := make([]byte, 8); binary.LittleEndian.PutUint64(b, v); return b }
func le32(v uint32) []byte { b := make([]byte, 4); binary.LittleEndian.PutUint32(b, v); return b }

// read returns the size() bytes the operand denotes, little-endian.
func (m *model) read(w int, o *opnd, lane int) []byte {
	wm := m.w[w]
	n := o.size()
	switch o.Kind {
	case kSGPR:
		return append([]byte(nil), wm.sgpr[4*o.Idx:4*o.Idx+n]...)
	case kVGPR:
		off := lane*laneStride + 4*o.Idx
		return append([]byte(nil), wm.vgpr[off:off+n]...)
	case kVCCLO:
		return le64(wm.vcc)[:n]
	case kVCCHI:
		return le64(wm.vcc >> 32)[:n]
	case kEXECLO:
		return le64(wm.exec)[:n]
	case kEXECHI:
		return le64(wm.exec >> 32)[:n]
	case kM0:
		return le32(wm.m0)[:n]
	case kSCC:
		return []byte{wm.scc}
	}
	panic("model: read of unmodelled register")
}

func setHalf(v uint64, hi bool, x uint32) uint64 {
	if hi {
		return v&0x00000000ffffffff | uint64(x)<<32
	}
	return v&0xffffffff00000000 | uint64(x)
}

// write stores data (len == size()) into the cells the operand denotes.
func (m *model) write(w int, o *opnd, lane int, data []byte) {
	wm := m.w[w]
	p := m.pl[w]
	n := o.size()
	if len(data) != n {
		panic(fmt.Sprintf("model: write of %d bytes to an operand of %d bytes", len(data), n))
	}
	switch o.Kind {
	case kSGPR:
		copy(wm.sgpr[4*o.Idx:], data)
		copy(m.imgS[p.SOff+4*o.Idx:], data)
	case kVGPR:
		copy(wm.vgpr[lane*laneStride+4*o.Idx:], data)
		copy(m.imgV[p.SIMD][lane*laneStride+p.VOff+4*o.Idx:], data)
	case kVCCLO:
		if n == 8 {
			wm.vcc = binary.LittleEndian.Uint64(data)
		} else {
			wm.vcc = setHalf(wm.vcc, false, binary.LittleEndian.Uint32(data))
		}
	case kVCCHI:
		wm.vcc = setHalf(wm.vcc, true, binary.LittleEndian.Uint32(data))
	case kEXECLO:
		if n == 8 {
			wm.exec = binary.LittleEndian.Uint64(data)
		} else {
			wm.exec = setHalf(wm.exec, false, binary.LittleEndian.Uint32(data))
		}
	case kEXECHI:
		wm.exec = setHalf(wm.exec, true, binary.LittleEndian.Uint32(data))
	case kM0:
		wm.m0 = binary.LittleEndian.Uint32(data)
	case kSCC:
		wm.scc = data[0]
	default:
		panic("model: write to unmodelled register")
	}
}

// ---------------------------------------------------------------------------
// operations

type api int

const (
	aReadOperand api = iota
	aReadOperandBytes
	aReadReg
	aWriteOperand
	aWriteOperandBytes
	aWriteReg
	aTypedGet // VCC()/EXEC()/SCC()/M0 (+ emu SRegValue/VRegValue)
	aTypedSet // SetVCC/SetEXEC/SetSCC/M0=
	numAPIs
)

var apiName = [...]string{"ReadOperand", "ReadOperandBytes", "ReadReg", "WriteOperand", "WriteOperandBytes", "WriteReg", "TypedGet", "TypedSet"}

func (a api) isWrite() bool {
	return a == aWriteOperand || a == aWriteOperandBytes || a == aWriteReg || a == aTypedSet
}

// apiClass is the part of a violation key that names the access path: the
// three write APIs share one code path in both stores; ReadOperand has its own
// fast path in emulation, ReadOperandBytes and ReadReg share the other.
func (a api) class() string {
	switch a {
	case aReadOperand:
		return "read"
	case aReadOperandBytes, aReadReg:
		return "readbytes"
	case aTypedGet, aTypedSet:
		return "typed"
	}
	return "write"
}

// typed registers
const (
	tVCC = iota
	tEXEC
	tSCC
	tM0
	tSReg // emu only: SRegValue(i)
	tVReg // emu only: VRegValue(lane,i)
)

var typedName = [...]string{"vcc", "exec", "scc", "m0", "sreg", "vreg"}

type op struct {
	W     int    `json:"w"`
	API   string `json:"api"`
	Inst  string `json:"inst,omitempty"`  // encoding the operand was decoded from
	Field string `json:"field,omitempty"` // which operand of that instruction
	Opnd  string `json:"operand,omitempty"`
	Lane  int    `json:"lane"`
	Val   uint64 `json:"val,omitempty"`
	Data  string `json:"data,omitempty"` // hex
	N     int    `json:"n,omitempty"`    // byteCount of ReadOperandBytes
	Typed string `json:"typed,omitempty"`
	Idx   int    `json:"idx,omitempty"`
	// Scribble: after a byte-slice read the harness overwrites the slice it was
	// handed (the register file must not change: a read result is a value)
	Scribble bool `json:"scribble,omitempty"`

	a    api
	od   *opnd
	data []byte
	t    int
}

func (o *op) resolve(c *catalogue) error {
	found := false
	for i, n := range apiName {
		if n == o.API {
			o.a = api(i)
			found = true
		}
	}
	if !found {
		return fmt.Errorf("unknown api %q", o.API)
	}
	if o.a == aTypedGet || o.a == aTypedSet {
		for i, n := range typedName {
			if n == o.Typed {
				o.t = i
				return nil
			}
		}
		return fmt.Errorf("unknown typed register %q", o.Typed)
	}
	o.od = c.byInst[o.Inst+"/"+o.Field]
	if o.od == nil {
		return fmt.Errorf("operand %s/%s is not in the catalogue", o.Inst, o.Field)
	}
	if o.Data != "" {
		b, err := hex.DecodeString(o.Data)
		if err != nil {
			return err
		}
		o.data = b
	}
	return nil
}

func mkOp(w int, a api, od *opnd, lane int) *op {
	return &op{W: w, API: apiName[a], Inst: od.instHex(), Field: od.Field, Opnd: fmt.Sprintf("%s rc=%d", od.Name, od.RC), Lane: lane, a: a, od: od}
}

func (o *op) setData(b []byte) { o.data = b; o.Data = hex.EncodeToString(b) }

// ---------------------------------------------------------------------------
// the two real stores

type stores struct {
	pl  []wavePlace
	cu  *cu.ComputeUnit
	raw []*kernels.Wavefront
	twf []*wavefront.Wavefront
	ewf []*emu.Wavefront

	lastRaw  []byte // the very slice the last ReadOperandBytes / ReadReg handed out (not a copy)
	lastArg  []byte // the very slice the last WriteOperandBytes / WriteReg was given
	keepHeld bool
	held     []*heldRead
}

// heldRead is a read result the harness keeps alive, as an ALU does with the
// operands of one instruction: a result is a value, so no later access to the
// register store may change it.
type heldRead struct {
	back  int
	opIdx int
	o     *op
	buf   []byte // the slice the store handed out
	want  []byte // its content when it was handed out (after the harness' own scribble, if any)
	bad   bool
}

func scribble(b []byte) {
	for i := range b {
		b[i] ^= 0xA5
	}
}

func newStores(pl []wavePlace) *stores {
	s := &stores{pl: pl}
	engine := sim.NewSerialEngine()
	s.cu = cu.MakeBuilder().WithEngine(engine).WithFreq(1 * sim.GHz).Build("CU")
	return s
}

// addWave creates wavefront i in both stores the way the simulator does: the
// timing one as ComputeUnit.wrapWG + WfDispatcherImpl.DispatchWf do (the real
// dispatcher sets SIMDID/SRegOffset/VRegOffset and initialises v0), the
// emulation one as emu.ComputeUnit does (NewWavefront + v0 := work-item id).
func (s *stores) addWave(i int) {
	p := s.pl[i]
	co := &insts.KernelCodeObject{KernelCodeObjectMeta: &insts.KernelCodeObjectMeta{
		WFSgprCount: uint16(p.NS), WIVgprCount: uint16(p.NV)}, Version: insts.CodeObjectV3}
	pkt := &kernels.HsaKernelDispatchPacket{WorkgroupSizeX: 512, WorkgroupSizeY: 1, WorkgroupSizeZ: 1,
		GridSizeX: 512, GridSizeY: 1, GridSizeZ: 1, KernelObject: 0x1000}
	rawWG := &kernels.WorkGroup{UID: fmt.Sprintf("wg%d", i), CodeObject: co, Packet: pkt, SizeX: 512, SizeY: 1, SizeZ: 1,
		CurrSizeX: 512, CurrSizeY: 1, CurrSizeZ: 1}
	raw := &kernels.Wavefront{UID: fmt.Sprintf("wf%d", i), CodeObject: co, Packet: pkt, FirstWiFlatID: 64 * i, WG: rawWG,
		InitExecMask: 0xffffffffffffffff}
	rawWG.Wavefronts = []*kernels.Wavefront{raw}
	wg := wavefront.NewWorkGroup(rawWG, nil)
	wf := wavefront.NewWavefront(raw)
	wf.RegAccessor = &cu.CURegFileAccessor{CU: s.cu, WF: wf}
	wg.Wfs = append(wg.Wfs, wf)
	wf.WG = wg
	wf.SetPID(1)
	s.cu.WfPools[p.SIMD].AddWf(wf)
	s.cu.WfDispatcher.DispatchWf(wf, protocol.WfDispatchLocation{Wavefront: raw, SIMDID: p.SIMD, VGPROffset: p.VOff, SGPROffset: p.SOff})
	wf.State = wavefront.WfReady

	ew := emu.NewWavefront(raw)
	ew.SetEXEC(raw.InitExecMask)
	for lane := 0; lane < 64; lane++ {
		ew.WriteReg(insts.VReg(0), 1, lane, insts.Uint32ToBytes(uint32(64*i+lane)))
	}
	s.raw = append(s.raw, raw)
	s.twf = append(s.twf, wf)
	s.ewf = append(s.ewf, ew)
}

func clone(b []byte) []byte { return append([]byte(nil), b...) }

// do performs one operation on one backing; a panic inside the code under test
// is caught and returned.
func (s *stores) do(back int, o *op) (res []byte, pan string) {
	s.lastRaw, s.lastArg = nil, nil
	defer func() {
		if r := recover(); r != nil {
			pan = fmt.Sprint(r)
			res = nil
		}
	}()
	if back == backEmu {
		wf := s.ewf[o.W]
		switch o.a {
		case aReadOperand:
			return le64(wf.ReadOperand(o.od.Op, o.Lane)), ""
		case aReadOperandBytes:
			s.lastRaw = wf.ReadOperandBytes(o.od.Op, o.Lane, o.N)
			return clone(s.lastRaw), ""
		case aReadReg:
			s.lastRaw = wf.ReadReg(o.od.Op.Register, o.od.Op.RegCount, o.Lane)
			return clone(s.lastRaw), ""
		case aWriteOperand:
			wf.WriteOperand(o.od.Op, o.Lane, o.Val)
		case aWriteOperandBytes:
			s.lastArg = clone(o.data)
			wf.WriteOperandBytes(o.od.Op, o.Lane, s.lastArg)
		case aWriteReg:
			s.lastArg = clone(o.data)
			wf.WriteReg(o.od.Op.Register, o.od.Op.RegCount, o.Lane, s.lastArg)
		case aTypedGet:
			switch o.t {
			case tVCC:
				return le64(wf.VCC()), ""
			case tEXEC:
				return le64(wf.EXEC()), ""
			case tSCC:
				return []byte{wf.SCC()}, ""
			case tM0:
				return le32(wf.M0), ""
			case tSReg:
				return le32(wf.SRegValue(o.Idx)), ""
			case tVReg:
				return le32(wf.VRegValue(o.Lane, o.Idx)), ""
			}
		case aTypedSet:
			switch o.t {
			case tVCC:
				wf.SetVCC(o.Val)
			case tEXEC:
				wf.SetEXEC(o.Val)
			case tSCC:
				wf.SetSCC(byte(o.Val))
			case tM0:
				wf.M0 = uint32(o.Val)
			}
		}
		return nil, ""
	}
	wf := s.twf[o.W]
	waveOffset := func() int { // as wavefront.Wavefront.ReadOperandBytes computes it
		if o.od.Op.Register.IsVReg() {
			return wf.VRegOffset
		}
		return wf.SRegOffset
	}
	switch o.a {
	case aReadOperand:
		return le64(wf.ReadOperand(o.od.Op, o.Lane)), ""
	case aReadOperandBytes:
		s.lastRaw = wf.ReadOperandBytes(o.od.Op, o.Lane, o.N)
		return clone(s.lastRaw), ""
	case aReadReg:
		s.lastRaw = wf.RegAccessor.ReadReg(o.od.Op.Register, o.od.Op.RegCount, o.Lane, waveOffset())
		return clone(s.lastRaw), ""
	case aWriteOperand:
		wf.WriteOperand(o.od.Op, o.Lane, o.Val)
	case aWriteOperandBytes:
		s.lastArg = clone(o.data)
		wf.WriteOperandBytes(o.od.Op, o.Lane, s.lastArg)
	case aWriteReg:
		s.lastArg = clone(o.data)
		wf.RegAccessor.WriteReg(o.od.Op.Register, o.od.Op.RegCount, o.Lane, waveOffset(), s.lastArg)
	case aTypedGet:
		switch o.t {
		case tVCC:
			return le64(wf.VCC()), ""
		case tEXEC:
			return le64(wf.EXEC()), ""
		case tSCC:
			return []byte{wf.SCC()}, ""
		case tM0:
			return le32(wf.M0), ""
		}
		return nil, "n/a"
	case aTypedSet:
		switch o.t {
		case tVCC:
			wf.SetVCC(o.Val)
		case tEXEC:
			wf.SetEXEC(o.Val)
		case tSCC:
			wf.SetSCC(byte(o.Val))
		case tM0:
			wf.M0 = uint32(o.Val)
		}
	}
	return nil, ""
}

// rawS / rawV read the timing register files as plain byte arrays: register
// s0 / v0 lane 0 with the byte address as "wave offset" is the identity map of
// SimpleRegisterFile.getRegOffset.
func (s *stores) rawS(off, n int) (out []byte, pan string) {
	defer func() {
		if r := recover(); r != nil {
			pan = fmt.Sprint(r)
		}
	}()
	out = make([]byte, n)
	s.cu.SRegFile.Read(cu.RegisterAccess{Reg: insts.SReg(0), RegCount: n / 4, WaveOffset: off, Data: out})
	return out, ""
}

func (s *stores) rawV(simd, off, n int) (out []byte, pan string) {
	defer func() {
		if r := recover(); r != nil {
			pan = fmt.Sprint(r)
		}
	}()
	out = make([]byte, n)
	s.cu.VRegFile[simd].Read(cu.RegisterAccess{Reg: insts.VReg(0), RegCount: n / 4, LaneID: 0, WaveOffset: off, Data: out})
	return out, ""
}

func (s *stores) rawWriteS(off int, data []byte) {
	s.cu.SRegFile.Write(cu.RegisterAccess{Reg: insts.SReg(0), RegCount: len(data) / 4, WaveOffset: off, Data: data})
}

func (s *stores) rawWriteV(simd, off int, data []byte) {
	s.cu.VRegFile[simd].Write(cu.RegisterAccess{Reg: insts.VReg(0), RegCount: len(data) / 4, WaveOffset: off, Data: data})
}

// observe returns what the cells denoted by (od, lane) of wave w hold in a
// backing, read without the access path under test (emu: the exported byte
// arrays and typed getters; timing: raw file reads and typed getters).
func (s *stores) observe(back, w int, od *opnd, lane int) ([]byte, string) {
	n := od.size()
	var vcc, exec uint64
	var scc byte
	var m0 uint32
	if back == backEmu {
		wf := s.ewf[w]
		switch od.Kind {
		case kSGPR:
			return clone(wf.SRegFile[4*od.Idx : 4*od.Idx+n]), ""
		case kVGPR:
			off := lane*laneStride + 4*od.Idx
			return clone(wf.VRegFile[off : off+n]), ""
		}
		vcc, exec, scc, m0 = wf.VCC(), wf.EXEC(), wf.SCC(), wf.M0
	} else {
		wf := s.twf[w]
		p := s.pl[w]
		switch od.Kind {
		case kSGPR:
			return s.rawS(p.SOff+4*od.Idx, n)
		case kVGPR:
			return s.rawV(p.SIMD, lane*laneStride+p.VOff+4*od.Idx, n)
		}
		vcc, exec, scc, m0 = wf.VCC(), wf.EXEC(), wf.SCC(), wf.M0
	}
	switch od.Kind {
	case kVCCLO:
		return le64(vcc)[:n], ""
	case kVCCHI:
		return le64(vcc >> 32)[:n], ""
	case kEXECLO:
		return le64(exec)[:n], ""
	case kEXECHI:
		return le64(exec >> 32)[:n], ""
	case kM0:
		return le32(m0), ""
	case kSCC:
		return []byte{scc}, ""
	}
	return nil, "unmodelled"
}

// repairSpecials forces the special registers of wave w in both backings to
// the model's values (plain field setters), so that a history can go on after
// a reported deviation.
func (s *stores) repairSpecials(m *model, w int) {
	wm := m.w[w]
	s.ewf[w].SetVCC(wm.vcc)
	s.ewf[w].SetEXEC(wm.exec)
	s.ewf[w].SetSCC(wm.scc)
	s.ewf[w].M0 = wm.m0
	s.twf[w].SetVCC(wm.vcc)
	s.twf[w].SetEXEC(wm.exec)
	s.twf[w].SetSCC(wm.scc)
	s.twf[w].M0 = wm.m0
}

// ---------------------------------------------------------------------------
// sweep

type sweepFail struct {
	Back   int
	Wave   int    // wave owning the cell, -1 = outside every allocation
	Where  string // human readable cell name
	Kind   kind
	Lane   int
	Idx    int
	Got    string
	Want   string
	Detail string
}

func diffAt(a, b []byte) int {
	for i := range a {
		if a[i] != b[i] {
			return i
		}
	}
	return -1
}

// sweep compares every cell of every wavefront in both backings with the
// model, plus every byte of the timing register files outside the allocations
// (which must still be zero). It returns the first differences (one per
// backing at most).
func sweep(m *model, s *stores) []sweepFail {
	var out []sweepFail
	// emulation: whole arrays, specials
	for w, wm := range m.w {
		if w >= len(s.ewf) { // not dispatched yet
			break
		}
		ew := s.ewf[w]
		if i := diffAt(wm.sgpr, ew.SRegFile); i >= 0 || len(ew.SRegFile) != len(wm.sgpr) {
			r := i / 4
			out = append(out, sweepFail{Back: backEmu, Wave: w, Kind: kSGPR, Idx: r, Where: fmt.Sprintf("wave %d s%d", w, r),
				Got: hex.EncodeToString(ew.SRegFile[4*r : 4*r+4]), Want: hex.EncodeToString(wm.sgpr[4*r : 4*r+4])})
			break
		}
		if i := diffAt(wm.vgpr, ew.VRegFile); i >= 0 || len(ew.VRegFile) != len(wm.vgpr) {
			lane, r := i/laneStride, i%laneStride/4
			out = append(out, sweepFail{Back: backEmu, Wave: w, Kind: kVGPR, Lane: lane, Idx: r, Where: fmt.Sprintf("wave %d lane %d v%d", w, lane, r),
				Got: hex.EncodeToString(ew.VRegFile[i/4*4 : i/4*4+4]), Want: hex.EncodeToString(wm.vgpr[i/4*4 : i/4*4+4])})
			break
		}
		if f := specialDiff(backEmu, w, wm, ew.VCC(), ew.EXEC(), ew.SCC(), ew.M0); f != nil {
			out = append(out, *f)
			break
		}
	}
	// timing: raw images, specials
	tf := func() *sweepFail {
		got, pan := s.rawS(0, sgprFileRegs*4)
		if pan != "" {
			return &sweepFail{Back: backTiming, Wave: -1, Where: "scalar register file", Detail: "raw read panicked: " + pan}
		}
		if i := diffAt(m.imgS, got); i >= 0 {
			return m.locateTiming(-1, i, got)
		}
		for simd := 0; simd < numSIMD; simd++ {
			got, pan := s.rawV(simd, 0, vgprFileRegs*4)
			if pan != "" {
				return &sweepFail{Back: backTiming, Wave: -1, Where: fmt.Sprintf("vector register file %d", simd), Detail: "raw read panicked: " + pan}
			}
			if i := diffAt(m.imgV[simd], got); i >= 0 {
				return m.locateTiming(simd, i, got)
			}
		}
		for w, wm := range m.w {
			if w >= len(s.twf) {
				break
			}
			tw := s.twf[w]
			if f := specialDiff(backTiming, w, wm, tw.VCC(), tw.EXEC(), tw.SCC(), tw.M0); f != nil {
				return f
			}
		}
		return nil
	}()
	if tf != nil {
		out = append(out, *tf)
	}
	return out
}

func specialDiff(back, w int, wm *wmodel, vcc, exec uint64, scc byte, m0 uint32) *sweepFail {
	mk := func(k kind, name string, got, want uint64) *sweepFail {
		return &sweepFail{Back: back, Wave: w, Kind: k, Where: fmt.Sprintf("wave %d %s", w, name), Got: fmt.Sprintf("%x", got), Want: fmt.Sprintf("%x", want)}
	}
	switch {
	case vcc != wm.vcc:
		return mk(kVCCLO, "vcc", vcc, wm.vcc)
	case exec != wm.exec:
		return mk(kEXECLO, "exec", exec, wm.exec)
	case scc != wm.scc:
		return mk(kSCC, "scc", uint64(scc), uint64(wm.scc))
	case m0 != wm.m0:
		return mk(kM0, "m0", uint64(m0), uint64(wm.m0))
	}
	return nil
}

// locateTiming names the owner of byte i of a timing register file
// (simd < 0: the scalar file).
func (m *model) locateTiming(simd, i int, got []byte) *sweepFail {
	f := &sweepFail{Back: backTiming, Wave: -1, Got: hex.EncodeToString(got[i/4*4 : i/4*4+4])}
	if simd < 0 {
		f.Kind = kSGPR
		f.Want = hex.EncodeToString(m.imgS[i/4*4 : i/4*4+4])
		for w, p := range m.pl {
			if i >= p.SOff && i < p.SOff+4*p.NS {
				f.Wave, f.Idx = w, (i-p.SOff)/4
				f.Where = fmt.Sprintf("wave %d s%d (scalar file byte %d)", w, f.Idx, i)
				return f
			}
		}
		f.Where = fmt.Sprintf("scalar file byte %d, outside every allocation", i)
		return f
	}
	f.Kind = kVGPR
	f.Want = hex.EncodeToString(m.imgV[simd][i/4*4 : i/4*4+4])
	lane, within := i/laneStride, i%laneStride
	f.Lane = lane
	for w, p := range m.pl {
		if p.SIMD == simd && within >= p.VOff && within < p.VOff+4*p.NV {
			f.Wave, f.Idx = w, (within-p.VOff)/4
			f.Where = fmt.Sprintf("wave %d lane %d v%d (SIMD %d file byte %d)", w, lane, f.Idx, simd, i)
			return f
		}
	}
	f.Where = fmt.Sprintf("SIMD %d file byte %d (lane slot %d), outside every allocation", simd, i, lane)
	return f
}

// ---------------------------------------------------------------------------
// judging one operation

type verdict struct {
	Bad  bool
	Sym  string // unsupported-panic | panic | wrong-half | wrong-value
	What string
	Pan  string
	Got  []byte // read result / observed cells after a write
	Want []byte
}

func panicSym(p string) string {
	if strings.Contains(p, "not supported") {
		return "unsupported-panic"
	}
	return "panic"
}

func valueSym(od *opnd) string {
	if od != nil && od.isHalf() {
		return "wrong-half"
	}
	return "wrong-value"
}

// expectRead is the model's answer for a read API.
func expectRead(m *model, o *op) []byte {
	if o.a == aTypedGet {
		wm := m.w[o.W]
		switch o.t {
		case tVCC:
			return le64(wm.vcc)
		case tEXEC:
			return le64(wm.exec)
		case tSCC:
			return []byte{wm.scc}
		case tM0:
			return le32(wm.m0)
		case tSReg:
			return clone(wm.sgpr[4*o.Idx : 4*o.Idx+4])
		case tVReg:
			off := o.Lane*laneStride + 4*o.Idx
			return clone(wm.vgpr[off : off+4])
		}
	}
	b := m.read(o.W, o.od, o.Lane)
	switch o.a {
	case aReadOperand: // uint64: the low 8 bytes, zero-extended
		out := make([]byte, 8)
		copy(out, b)
		return out
	case aReadOperandBytes:
		if len(b) > o.N {
			b = b[:o.N]
		}
	}
	return b
}

// writeData is the byte string a write API stores.
func writeData(o *op) []byte {
	if o.a == aWriteOperand {
		return le64(o.Val)[:o.od.size()]
	}
	return o.data
}

func keyFor(back int, o *op, sym string) string {
	if o.a == aTypedGet || o.a == aTypedSet {
		return fmt.Sprintf("C07|%s|typed|%s|%s", backName[back], typedName[o.t], sym)
	}
	if sym == "unsupported-panic" {
		return fmt.Sprintf("C07|%s|%s|%s|unsupported-panic", backName[back], o.a.class(), o.od.Kind)
	}
	return fmt.Sprintf("C07|%s|%s|%s|regcount%d|%s", backName[back], o.a.class(), o.od.Kind, o.od.RC, sym)
}

// apply performs o on the model and on both stores and judges each store
// against the model (and thereby against each other) on the operand touched.
func apply(m *model, s *stores, o *op) [numBackings]verdict {
	var v [numBackings]verdict
	if o.a == aTypedSet {
		wm := m.w[o.W]
		switch o.t {
		case tVCC:
			wm.vcc = o.Val
		case tEXEC:
			wm.exec = o.Val
		case tSCC:
			wm.scc = byte(o.Val)
		case tM0:
			wm.m0 = uint32(o.Val)
		}
		for b := 0; b < numBackings; b++ {
			_, pan := s.do(b, o)
			if pan != "" {
				v[b] = verdict{Bad: true, Sym: panicSym(pan), Pan: pan, What: "panic: " + pan}
				continue
			}
			var got, want uint64
			if b == backEmu {
				got = [...]uint64{s.ewf[o.W].VCC(), s.ewf[o.W].EXEC(), uint64(s.ewf[o.W].SCC()), uint64(s.ewf[o.W].M0)}[o.t]
			} else {
				got = [...]uint64{s.twf[o.W].VCC(), s.twf[o.W].EXEC(), uint64(s.twf[o.W].SCC()), uint64(s.twf[o.W].M0)}[o.t]
			}
			want = [...]uint64{wm.vcc, wm.exec, uint64(wm.scc), uint64(wm.m0)}[o.t]
			if got != want {
				v[b] = verdict{Bad: true, Sym: "wrong-value", What: fmt.Sprintf("after the typed setter the register holds %x, written %x", got, want)}
			}
		}
		return v
	}
	if !o.a.isWrite() {
		want := expectRead(m, o)
		for b := 0; b < numBackings; b++ {
			if o.a == aTypedGet && b == backTiming && o.t >= tSReg {
				continue
			}
			got, pan := s.do(b, o)
			v[b].Got, v[b].Want, v[b].Pan = got, want, pan
			switch {
			case pan != "":
				v[b].Bad, v[b].Sym, v[b].What = true, panicSym(pan), "panic: "+pan
			case !bytes.Equal(got, want):
				v[b].Bad, v[b].Sym = true, valueSym(o.od)
				v[b].What = fmt.Sprintf("returned %x, the cells hold %x", got, want)
			}
			if pan != "" || s.lastRaw == nil || (o.a != aReadOperandBytes && o.a != aReadReg) {
				continue
			}
			raw := s.lastRaw
			if o.Scribble && !v[b].Bad {
				// the caller owns what it was handed: writing into it must not reach the register store
				scribble(raw)
				obs, opan := s.observe(b, o.W, o.od, o.Lane)
				if full := m.read(o.W, o.od, o.Lane); opan != "" || !bytes.Equal(obs, full) {
					v[b].Bad, v[b].Sym = true, "result-is-a-view-of-the-register-store"
					v[b].What = fmt.Sprintf("after the caller overwrote the %d bytes it was handed, the cells hold %x (model %x) %s", len(raw), obs, full, opan)
				}
			}
			if s.keepHeld {
				s.held = append(s.held, &heldRead{back: b, opIdx: -1, o: o, buf: raw, want: clone(raw)})
			}
		}
		return v
	}
	data := writeData(o)
	m.write(o.W, o.od, o.Lane, data)
	for b := 0; b < numBackings; b++ {
		_, pan := s.do(b, o)
		v[b].Pan = pan
		if pan != "" {
			v[b].Bad, v[b].Sym, v[b].What = true, panicSym(pan), "panic: "+pan
			continue
		}
		if s.lastArg != nil && s.keepHeld {
			scribble(s.lastArg) // the store must have copied the caller's bytes
		}
		// the 64-bit register a half belongs to is observed whole, so that a
		// write to one half that damages the other is seen at once
		obs := o.od
		got, opan := s.observe(b, o.W, obs, o.Lane)
		want := m.read(o.W, obs, o.Lane)
		v[b].Got, v[b].Want = got, want
		if opan != "" {
			v[b].Bad, v[b].Sym, v[b].What = true, "panic", "raw read-back panicked: "+opan
			continue
		}
		if !bytes.Equal(got, want) {
			v[b].Bad, v[b].Sym = true, valueSym(o.od)
			v[b].What = fmt.Sprintf("after writing %x the cells hold %x", want, got)
			continue
		}
		if o.od.isHalf() {
			var full, wfull uint64
			wm := m.w[o.W]
			vccKind := o.od.Kind == kVCCLO || o.od.Kind == kVCCHI
			if b == backEmu {
				full = s.ewf[o.W].EXEC()
				if vccKind {
					full = s.ewf[o.W].VCC()
				}
			} else {
				full = s.twf[o.W].EXEC()
				if vccKind {
					full = s.twf[o.W].VCC()
				}
			}
			wfull = wm.exec
			if vccKind {
				wfull = wm.vcc
			}
			if full != wfull {
				v[b].Bad, v[b].Sym = true, "wrong-half"
				v[b].What = fmt.Sprintf("after writing %x to the half the 64-bit register holds %016x, model %016x (the other half was changed)", want, full, wfull)
			}
		}
	}
	return v
}
