package main

// Wavefront placements, random operand histories, and the history runner.

import (
	"bytes"
	"fmt"
	"sync"

	"verifharness/vlib"
)

type history struct {
	Name     string      `json:"name"`
	Style    string      `json:"placement_style"`
	Pl       []wavePlace `json:"placement"`
	FillSeed uint64      `json:"fill_seed"`
	Ops      []*op       `json:"ops"`
}

// ---------------------------------------------------------------------------
// placements

// cuAlloc re-implements the arithmetic of the command processor's
// resource.CUResourceImpl (internal package, not importable): SGPRs in units
// of 16 registers first-fit in the CU-wide file, VGPRs in units of 4 registers
// per lane first-fit in the file of the next SIMD in round-robin order, at most
// 10 wavefronts per SIMD; offsets are handed out in bytes.
type cuAlloc struct {
	s    [sgprFileRegs / sgprGranule]bool
	v    [numSIMD][emuVGPRs / vgprGranule]bool
	pool [numSIMD]int
	next int
}

func firstFit(mask []bool, n int) (int, bool) {
	run := 0
	for i := range mask {
		if !mask[i] {
			run++
			if run == n {
				return i - n + 1, true
			}
		} else {
			run = 0
		}
	}
	return 0, false
}

func setRange(mask []bool, off, n int, v bool) {
	for i := 0; i < n; i++ {
		mask[off+i] = v
	}
}

func (a *cuAlloc) reserve(nWf, sUnits, vUnits int) ([]wavePlace, bool) {
	save := *a
	var out []wavePlace
	for i := 0; i < nWf; i++ {
		so, ok := firstFit(a.s[:], sUnits)
		if !ok {
			*a = save
			return nil, false
		}
		setRange(a.s[:], so, sUnits, true)
		out = append(out, wavePlace{SOff: so * sgprGranule * 4, NS: sUnits * sgprGranule, NV: vUnits * vgprGranule})
	}
	for i := 0; i < nWf; i++ {
		first, firstTry, found := a.next, true, false
		for firstTry || a.next != first {
			firstTry = false
			vo, ok := firstFit(a.v[a.next][:], vUnits)
			if ok && a.pool[a.next] < 10 {
				found = true
				a.pool[a.next]++
				out[i].SIMD = a.next
				out[i].VOff = vo * vgprGranule * 4
				setRange(a.v[a.next][:], vo, vUnits, true)
			}
			a.next = (a.next + 1) % numSIMD
			if found {
				break
			}
		}
		if !found {
			*a = save
			return nil, false
		}
	}
	return out, true
}

func (a *cuAlloc) free(pl []wavePlace) {
	for _, p := range pl {
		setRange(a.s[:], p.SOff/4/sgprGranule, p.NS/sgprGranule, false)
		setRange(a.v[p.SIMD][:], p.VOff/4/vgprGranule, p.NV/vgprGranule, false)
		a.pool[p.SIMD]--
	}
}

func pickVUnits(r *vlib.PRNG) int {
	return []int{1, 1, 2, 3, 4, 6, 8, 16, 21, 32, 64, 1 + r.Intn(64)}[r.Intn(12)]
}

func pickSUnits(r *vlib.PRNG) int {
	return []int{1, 2, 3, 6, 7, 7, 7, 1 + r.Intn(7)}[r.Intn(8)]
}

// genPlacement returns 2..6 co-resident wavefronts. Style 0/4: what the
// dispatcher's allocator hands out after other work-groups came and went;
// 1: all on one SIMD, back to back in both files; 2: the last slots of the
// files; 3: same VGPR offset on different SIMDs plus full-size wavefronts.
func genPlacement(r *vlib.PRNG, style int) ([]wavePlace, string) {
	n := 2 + r.Intn(5)
	switch style % 5 {
	case 1:
		simd := r.Intn(numSIMD)
		var pl []wavePlace
		so := r.Intn(40) * sgprGranule * 4
		vo := 0
		if r.Bool() {
			vo = r.Intn(8) * vgprGranule * 4
		}
		for i := 0; i < n; i++ {
			su, vu := pickSUnits(r), []int{1, 2, 4, 8, 10}[r.Intn(5)]
			if vo+vu*vgprGranule*4 > laneStride {
				break
			}
			pl = append(pl, wavePlace{SIMD: simd, SOff: so, VOff: vo, NS: su * sgprGranule, NV: vu * vgprGranule})
			so += su * sgprGranule * 4
			vo += vu * vgprGranule * 4
		}
		if len(pl) >= 2 {
			return pl, "adjacent-same-simd"
		}
		return genPlacement(r, 0)
	case 2:
		// wavefronts packed against the end of the scalar file and of each lane's VGPR slot
		simd := r.Intn(numSIMD)
		var pl []wavePlace
		sEnd, vEnd := sgprFileRegs*4, laneStride
		for i := 0; i < n; i++ {
			su, vu := pickSUnits(r), []int{1, 1, 2, 4, 8}[r.Intn(5)]
			sEnd -= su * sgprGranule * 4
			vEnd -= vu * vgprGranule * 4
			if vEnd < 0 {
				break
			}
			pl = append(pl, wavePlace{SIMD: simd, SOff: sEnd, VOff: vEnd, NS: su * sgprGranule, NV: vu * vgprGranule})
		}
		return pl, "last-slot"
	case 3:
		var pl []wavePlace
		so := r.Intn(20) * sgprGranule * 4
		vu := pickVUnits(r)
		if r.Bool() {
			vu = 64
		}
		vo := 0
		if vu < 64 {
			vo = r.Intn(64-vu+1) * vgprGranule * 4
		}
		if n > numSIMD {
			n = numSIMD
		}
		for i := 0; i < n; i++ {
			pl = append(pl, wavePlace{SIMD: i, SOff: so, VOff: vo, NS: 7 * sgprGranule, NV: vu * vgprGranule})
			so += 7 * sgprGranule * 4
		}
		return pl, "same-vgpr-offset-different-simd"
	}
	// dispatcher-like
	var a cuAlloc
	a.next = r.Intn(numSIMD)
	var ghosts [][]wavePlace
	ng := r.Intn(7)
	if style%5 == 4 {
		ng = 6 + r.Intn(10)
	}
	for g := 0; g < ng; g++ {
		if pl, ok := a.reserve(1+r.Intn(4), pickSUnits(r), []int{1, 2, 4, 8, 16}[r.Intn(5)]); ok {
			ghosts = append(ghosts, pl)
		}
	}
	for _, g := range ghosts { // some of the earlier work-groups have finished
		if r.Chance(1, 2) {
			a.free(g)
		}
	}
	var pl []wavePlace
	for len(pl) < n {
		k := 1 + r.Intn(n-len(pl))
		got, ok := a.reserve(k, pickSUnits(r), pickVUnits(r))
		if !ok {
			got, ok = a.reserve(k, 1, 1)
			if !ok {
				break
			}
		}
		pl = append(pl, got...)
	}
	if len(pl) < 2 {
		return genPlacement(r, 1)
	}
	if style%5 == 4 {
		return pl, "dispatcher-fragmented"
	}
	return pl, "dispatcher"
}

func checkPlacement(pl []wavePlace) error {
	for i, p := range pl {
		if p.SOff%(sgprGranule*4) != 0 || p.VOff%(vgprGranule*4) != 0 || p.NS <= 0 || p.NV <= 0 ||
			p.SOff+4*p.NS > sgprFileRegs*4 || p.VOff+4*p.NV > laneStride || p.SIMD < 0 || p.SIMD >= numSIMD {
			return fmt.Errorf("wave %d placed outside the files: %+v", i, p)
		}
		for j := 0; j < i; j++ {
			q := pl[j]
			if p.SOff < q.SOff+4*q.NS && q.SOff < p.SOff+4*p.NS {
				return fmt.Errorf("waves %d and %d overlap in the scalar file", i, j)
			}
			if p.SIMD == q.SIMD && p.VOff < q.VOff+4*q.NV && q.VOff < p.VOff+4*p.NV {
				return fmt.Errorf("waves %d and %d overlap in vector file %d", i, j, p.SIMD)
			}
		}
	}
	return nil
}

// ---------------------------------------------------------------------------
// operations

var rcWeights = [numKinds][]int{
	kSGPR:   {0, 0, 0, 0, 1, 1, 2, 2, 2, 4, 4, 8, 16},
	kVGPR:   {0, 0, 0, 0, 1, 1, 2, 2, 2, 3, 4, 4},
	kVCCLO:  {0, 0, 1, 2, 2},
	kVCCHI:  {0, 0, 1},
	kEXECLO: {0, 0, 1, 2, 2},
	kEXECHI: {0, 1},
	kM0:     {0, 0, 1},
	kSCC:    {0},
}

type hot struct {
	s    []int
	v    []int
	lane []int
}

func alignFor(k kind, rc int) int {
	if k != kSGPR {
		return 1
	}
	switch {
	case rc >= 4:
		return 4
	case rc == 2:
		return 2
	}
	return 1
}

// pickOperand chooses a decoded operand that fits wave p's allocation.
func pickOperand(r *vlib.PRNG, c *catalogue, p wavePlace, h *hot) *opnd {
	for {
		var k kind
		switch x := r.Intn(100); {
		case x < 34:
			k = kVGPR
		case x < 64:
			k = kSGPR
		case x < 73:
			k = kVCCLO
		case x < 79:
			k = kVCCHI
		case x < 86:
			k = kEXECLO
		case x < 90:
			k = kEXECHI
		case x < 95:
			k = kM0
		default:
			k = kSCC
		}
		rc := rcWeights[k][r.Intn(len(rcWeights[k]))]
		w := rc
		if w < 1 {
			w = 1
		}
		idx := 0
		if k == kSGPR || k == kVGPR {
			lim, hs := p.sLimit(), h.s
			if k == kVGPR {
				lim, hs = p.NV, h.v
			}
			if w > lim {
				continue
			}
			al := alignFor(k, rc)
			switch x := r.Intn(10); {
			case x < 5:
				idx = hs[r.Intn(len(hs))] + r.Intn(6) - 2
			case x < 6:
				idx = lim - w // last registers of the allocation
			case x < 7:
				idx = 0
			default:
				idx = r.Intn(lim)
			}
			idx = idx / al * al
			if idx < 0 {
				idx = 0
			}
			if idx+w > lim {
				idx = (lim - w) / al * al
			}
			if idx < 0 || idx+w > lim {
				continue
			}
		}
		cands := c.byKey[opKey{k, idx, rc}]
		if len(cands) == 0 {
			continue
		}
		return cands[r.Intn(len(cands))]
	}
}

func pickLane(r *vlib.PRNG, h *hot) int {
	switch x := r.Intn(10); {
	case x < 5:
		return h.lane[r.Intn(len(h.lane))]
	case x < 7:
		return []int{0, 1, 31, 32, 62, 63}[r.Intn(6)]
	}
	return r.Intn(64)
}

func nonzero(r *vlib.PRNG, b []byte) {
	r.Bytes(b)
	for i := range b {
		if b[i] == 0 {
			b[i] = byte(1 + i)
		}
	}
}

func genHistory(r *vlib.PRNG, c *catalogue, idx, nOps int) *history {
	h := &history{Name: fmt.Sprintf("h%d", idx), FillSeed: r.Uint64()}
	h.Pl, h.Style = genPlacement(r.Fork("placement"), idx)
	hots := make([]*hot, len(h.Pl))
	for i, p := range h.Pl {
		ht := &hot{}
		for j := 0; j < 3; j++ {
			ht.s = append(ht.s, r.Intn(p.sLimit()))
			ht.v = append(ht.v, r.Intn(p.NV))
			ht.lane = append(ht.lane, r.Intn(64))
		}
		hots[i] = ht
	}
	for len(h.Ops) < nOps {
		w := r.Intn(len(h.Pl))
		if r.Chance(1, 25) { // typed accessors
			o := &op{W: w, Lane: r.Intn(64)}
			if r.Bool() {
				o.a, o.t = aTypedSet, r.Intn(4)
				o.Val = r.Uint64() | 0x0100000001
				if o.t == tSCC {
					o.Val = uint64(r.Intn(2))
				}
			} else {
				o.a, o.t = aTypedGet, r.Intn(6)
				if o.t == tSReg {
					o.Idx = r.Intn(h.Pl[w].sLimit())
				} else if o.t == tVReg {
					o.Idx = r.Intn(h.Pl[w].NV)
				}
			}
			o.API, o.Typed = apiName[o.a], typedName[o.t]
			h.Ops = append(h.Ops, o)
			continue
		}
		od := pickOperand(r, c, h.Pl[w], hots[w])
		lane := pickLane(r, hots[w])
		var o *op
		if r.Chance(9, 20) { // write
			a := []api{aWriteOperand, aWriteOperand, aWriteOperandBytes, aWriteOperandBytes, aWriteReg}[r.Intn(5)]
			if a == aWriteOperand && od.width() > 2 {
				a = aWriteOperandBytes // a uint64 cannot carry more than two dwords
			}
			o = mkOp(w, a, od, lane)
			if od.Kind == kSCC {
				if a == aWriteOperand {
					o.Val = uint64(r.Intn(2))
				} else {
					o.setData([]byte{byte(r.Intn(2))})
				}
			} else if a == aWriteOperand {
				o.Val = r.Uint64() | 0x0100000001 // bits above the operand's width must be ignored
			} else {
				b := make([]byte, od.size())
				nonzero(r, b)
				o.setData(b)
			}
		} else {
			a := []api{aReadOperand, aReadOperand, aReadOperandBytes, aReadOperandBytes, aReadReg}[r.Intn(5)]
			o = mkOp(w, a, od, lane)
			if a == aReadOperandBytes {
				o.N = od.size()
				if r.Chance(1, 4) {
					o.N = []int{1, 2, 4, 8, 12, 16}[r.Intn(6)] // as DS/FLAT stores ask for fewer bytes
				}
			}
			if a != aReadOperand {
				o.Scribble = r.Chance(1, 4)
			}
		}
		h.Ops = append(h.Ops, o)
	}
	return h
}

// ---------------------------------------------------------------------------
// running a history

type stats struct {
	cnt  map[string]int64
	dist map[string]map[string]struct{}
	nt   map[string]struct{}
}

func newStats() *stats {
	return &stats{cnt: map[string]int64{}, dist: map[string]map[string]struct{}{}, nt: map[string]struct{}{}}
}

func (s *stats) distinct(set, k string) {
	if s.dist[set] == nil {
		s.dist[set] = map[string]struct{}{}
	}
	s.dist[set][k] = struct{}{}
}

func (s *stats) flush(rec vlib.Recorder) {
	for k, v := range s.cnt {
		rec.Count(k, v)
	}
	for set, m := range s.dist {
		for k := range m {
			rec.Distinct(set, k)
		}
	}
	for k := range s.nt {
		rec.Nontrivial(k)
	}
}

var witnessed sync.Map // violation key -> struct{}: the heavy witness is built once per key

func widthIdx(w int) int {
	switch w {
	case 1, 2, 3, 4:
		return w - 1
	case 8:
		return 4
	}
	return 5
}

func classID(od *opnd) uint8 { return uint8(1 + int(od.Kind)*6 + widthIdx(od.width())) }

func laneClass(l int) string {
	switch {
	case l == 0:
		return "lane0"
	case l == 63:
		return "lane63"
	case l < 32:
		return "lanes1-31"
	}
	return "lanes32-62"
}

type runOpts struct {
	sweepEvery bool // locate mode: full sweep after every step, no reporting
	fineFill   int  // locate mode: 1 + wave whose fill writes are swept one by one (0 = none)
}

type pendingViol struct {
	back  int
	key   string
	what  string
	opIdx int
	op    *op
	extra map[string]any
}

type located struct {
	phase string // "dispatch", "fill", "op"
	wave  int
	opIdx int
	op    *op
	fails []sweepFail
}

func relation(o *op, targetWave int, f sweepFail) string {
	switch {
	case f.Wave < 0:
		return "outside-allocation"
	case f.Wave != targetWave:
		return "other-wavefront"
	case f.Kind != kSGPR && f.Kind != kVGPR:
		return "special-register"
	case o != nil && o.od != nil && o.od.Kind == kVGPR && f.Kind == kVGPR && f.Lane != o.Lane:
		return "other-lane"
	}
	return "other-register"
}

// fillOps yields the deterministic writes that give every cell of wave w a
// distinctive value (descending order, so that a write that spills upwards
// damages cells already filled).
func fillOps(c *catalogue, p wavePlace, w int, seed uint64) []*op {
	r := vlib.NewPRNG(seed ^ uint64(w+1)*0x9e3779b97f4a7c15)
	var out []*op
	put := func(k kind, idx, rc, lane int, a api) {
		cands := c.byKey[opKey{k, idx, rc}]
		od := cands[r.Intn(len(cands))]
		o := mkOp(w, a, od, lane)
		b := make([]byte, od.size())
		nonzero(r, b)
		o.setData(b)
		out = append(out, o)
	}
	for lane := 63; lane >= 0; lane-- {
		for idx := p.NV - 4; idx >= 0; idx -= 4 {
			put(kVGPR, idx, 4, lane, []api{aWriteOperandBytes, aWriteReg}[r.Intn(2)])
		}
	}
	lim := p.sLimit()
	idx := lim
	if lim%4 != 0 { // 102 = 25*4 + 2
		idx = lim / 4 * 4
		put(kSGPR, idx, 2, 0, aWriteOperandBytes)
	}
	for idx -= 4; idx >= 0; idx -= 4 {
		put(kSGPR, idx, 4, r.Intn(64), aWriteOperandBytes)
	}
	for t, v := range []uint64{r.Uint64() | 0x0100000001, r.Uint64() | 0x0100000001, uint64(r.Intn(2)), r.Uint64() | 1} {
		out = append(out, &op{W: w, API: apiName[aTypedSet], Typed: typedName[t], Val: v, a: aTypedSet, t: t})
	}
	return out
}

// runHistory drives model and both stores through h. In normal mode it
// reports per-operation deviations and returns whether a sweep failed; in
// locate mode it only finds the first step after which a sweep fails.
func runHistory(rec vlib.Recorder, c *catalogue, h *history, opt runOpts, st *stats) (loc *located, swept []sweepFail, pending []pendingViol) {
	quiet := opt.sweepEvery
	m := newModel(h.Pl)
	s := newStores(h.Pl)
	s.keepHeld = true
	witness := func(key string, i int, o *op, extra map[string]any) any {
		if _, dup := witnessed.LoadOrStore(key, struct{}{}); dup {
			return nil
		}
		wit := map[string]any{"history": h.Name, "placement_style": h.Style, "placement": h.Pl, "fill_seed": h.FillSeed,
			"op_index": i, "op": o, "replay_note": "ops[0..op_index] after the deterministic fill reproduce the observation"}
		if i >= 0 && i < len(h.Ops) {
			wit["ops"] = h.Ops[:i+1]
		}
		for k, v := range extra {
			wit[k] = v
		}
		return wit
	}
	// checkHeld: every byte-slice read result handed out so far must still hold
	// the value it had when it was handed out
	checkHeld := func(i int, o *op) {
		for _, hr := range s.held {
			if hr.opIdx < 0 {
				hr.opIdx = i
			}
			if hr.bad || bytes.Equal(hr.buf, hr.want) {
				continue
			}
			hr.bad = true
			if quiet {
				continue
			}
			later := "typed"
			if o.od != nil {
				later = o.a.class()
			}
			key := fmt.Sprintf("C07|%s|held-read-result|%s|changed-by-later-%s", backName[hr.back], hr.o.od.Kind, later)
			what := fmt.Sprintf("%s store: the %d bytes returned by %s of %s lane %d (wave %d, history %s step %d) were %x; after step %d (%s of %s lane %d, wave %d) the same slice holds %x",
				backName[hr.back], len(hr.want), hr.o.API, describe(hr.o), hr.o.Lane, hr.o.W, h.Name, hr.opIdx, hr.want, i, o.API, describe(o), o.Lane, o.W, hr.buf)
			rec.Violation(key, what, witness(key, i, o, map[string]any{"held_read_step": hr.opIdx, "held_read": hr.o,
				"handed_out": fmt.Sprintf("%x", hr.want), "now": fmt.Sprintf("%x", hr.buf)}))
			st.cnt["deviations_reported"]++
		}
	}
	// judge reports the verdicts of one step; it returns false when the history
	// cannot go on (a general-purpose register file no longer matches the model).
	judge := func(i int, o *op, v [numBackings]verdict, phase string) bool {
		goOn := true
		special := o.od == nil || (o.od.Kind != kSGPR && o.od.Kind != kVGPR)
		for b := 0; b < numBackings; b++ {
			if !v[b].Bad {
				continue
			}
			if !quiet {
				key := keyFor(b, o, v[b].Sym)
				other := "the other store agrees with the model"
				if v[1-b].Bad {
					other = "the other store deviates too: " + v[1-b].What
				}
				what := fmt.Sprintf("%s store, %s of %s lane %d (%s, history %s step %d): %s; %s", backName[b], o.API, describe(o), o.Lane, phase, h.Name, i, v[b].What, other)
				extra := map[string]any{"got": fmt.Sprintf("%x", v[b].Got), "want": fmt.Sprintf("%x", v[b].Want), "panic": v[b].Pan}
				if !special && !o.a.isWrite() && v[b].Pan == "" {
					// a general-purpose register reads back wrong: either the read path is wrong or an
					// earlier operation damaged the cell; the caller finds out which before reporting
					pending = append(pending, pendingViol{b, key, what, i, o, extra})
					goOn = false
					continue
				}
				rec.Violation(key, what, witness(key, i, o, extra))
				st.cnt["deviations_reported"]++
			}
			if o.a.isWrite() && !special {
				goOn = false
			}
		}
		if (v[0].Bad || v[1].Bad) && special {
			s.repairSpecials(m, o.W)
		}
		return goOn
	}
	step := func(phase string, wave, i int, o *op) *located {
		if !opt.sweepEvery {
			return nil
		}
		if f := sweep(m, s); len(f) > 0 {
			return &located{phase: phase, wave: wave, opIdx: i, op: o, fails: f}
		}
		return nil
	}

	// ---- setup: dispatch and fill one wavefront after the other ----
	for w := range h.Pl {
		pan := func() (p string) {
			defer func() {
				if r := recover(); r != nil {
					p = fmt.Sprint(r)
				}
			}()
			s.addWave(w)
			return ""
		}()
		if pan != "" {
			if !quiet {
				key := "C07|setup|dispatch|panic"
				rec.Violation(key, fmt.Sprintf("creating wavefront %d at %+v panicked: %s", w, h.Pl[w], pan), witness(key, -1, nil, nil))
			}
			return nil, nil, pending
		}
		wm := m.w[w]
		wm.exec = 0xffffffffffffffff
		for lane := 0; lane < 64; lane++ { // what the dispatcher writes: v0 = work-item id
			v := le32(uint32(64*w + lane))
			copy(wm.vgpr[lane*laneStride:], v)
			copy(m.imgV[h.Pl[w].SIMD][lane*laneStride+h.Pl[w].VOff:], v)
		}
		if l := step("dispatch", w, -1, nil); l != nil {
			return l, nil, nil
		}
		for _, o := range fillOps(c, h.Pl[w], w, h.FillSeed) {
			v := apply(m, s, o)
			if !quiet {
				st.cnt["fill_writes"]++
			}
			if !judge(-1, o, v, fmt.Sprintf("fill of wave %d", w)) {
				return nil, nil, pending
			}
			if opt.fineFill == w+1 {
				if l := step("op", w, -1, o); l != nil {
					return l, nil, nil
				}
			}
		}
		if l := step("fill", w, -1, nil); l != nil {
			return l, nil, nil
		}
	}
	if !opt.sweepEvery {
		st.cnt["sweeps"]++
		st.cnt["cells_swept"] += int64(len(h.Pl)) * (modelledCells + 6) * 2
		if f := sweep(m, s); len(f) > 0 {
			return nil, f, nil
		}
	}

	// ---- the random history ----
	for i, o := range h.Ops {
		v := apply(m, s, o)
		checkHeld(i, o)
		if !quiet {
			account(st, o, v, m)
			st.cnt["held_read_results_rechecked"] += int64(len(s.held))
			if o.Scribble {
				st.cnt["read_results_overwritten_by_caller"] += numBackings
			}
		}
		if !judge(i, o, v, "random phase") {
			if len(pending) > 0 {
				return nil, sweep(m, s), pending
			}
			return nil, nil, nil
		}
		if l := step("op", o.W, i, o); l != nil {
			return l, nil, nil
		}
	}
	if opt.sweepEvery {
		return nil, nil, nil
	}
	st.cnt["sweeps"]++
	st.cnt["cells_swept"] += int64(len(h.Pl)) * (modelledCells + 6) * 2
	st.cnt["timing_file_bytes_compared"] += 4 * (sgprFileRegs + numSIMD*vgprFileRegs)
	st.cnt["held_read_results_alive_at_end"] += int64(len(s.held))
	return nil, sweep(m, s), nil
}

func describe(o *op) string {
	if o.od == nil {
		return "typed accessor " + o.Typed
	}
	return o.od.String()
}

// account updates evidence counters and the written-then-read bookkeeping.
func account(st *stats, o *op, v [numBackings]verdict, m *model) {
	st.cnt["ops_total"]++
	if o.od == nil {
		st.cnt["ops.typed."+o.Typed+"."+map[bool]string{true: "w", false: "r"}[o.a.isWrite()]]++
		if o.a == aTypedSet { // a typed write invalidates the bookkeeping of the cells it covers
			for b := 0; b < numBackings; b++ {
				lw := m.w[o.W].lastW[b]
				switch o.t {
				case tVCC:
					lw[cellVCCLO], lw[cellVCCHI] = 0, 0
				case tEXEC:
					lw[cellEXECLO], lw[cellEXECHI] = 0, 0
				case tSCC:
					lw[cellSCC] = 0
				case tM0:
					lw[cellM0] = 0
				}
			}
		}
		return
	}
	od := o.od
	rw := "r"
	if o.a.isWrite() {
		rw = "w"
	}
	cls := classID(od)
	cells := cellsOf(od, o.Lane)
	st.distinct("api_kind_regcount", fmt.Sprintf("%s|%s|rc%d", o.API, od.Kind, od.RC))
	st.distinct("kind_width_laneclass", fmt.Sprintf("%s|w%d|%s", od.Kind, od.width(), laneClass(o.Lane)))
	st.distinct("operand_source", od.Mnem+"."+od.Field)
	st.distinct("register_regcount", fmt.Sprintf("%s|rc%d", od.Name, od.RC))
	for b := 0; b < numBackings; b++ {
		st.cnt[fmt.Sprintf("ops.%s.w%d.%s.%s", od.Kind, od.width(), rw, backName[b])]++
		lw := m.w[o.W].lastW[b]
		if o.a.isWrite() {
			mark := cls
			if v[b].Bad {
				mark = 0
			}
			for _, cidx := range cells {
				lw[cidx] = mark
			}
			if !v[b].Bad {
				st.cnt["writes_verified"]++
			}
			continue
		}
		if v[b].Bad {
			continue
		}
		st.cnt["reads_verified"]++
		for _, cidx := range cells {
			if lw[cidx] != 0 {
				st.cnt["read_cells_after_history_write"]++
			}
			if lw[cidx] == cls {
				st.nt[fmt.Sprintf("%s|%s|w%d", backName[b], od.Kind, od.width())] = struct{}{}
			}
		}
	}
	if !v[0].Bad && !v[1].Bad {
		st.cnt["emu_timing_agree_on_operand"]++
	}
}

// runAndReport is the per-history entry point.
func runAndReport(rec vlib.Recorder, c *catalogue, h *history) {
	rec.Eval()
	st := newStats()
	defer st.flush(rec)
	if err := checkPlacement(h.Pl); err != nil {
		rec.Inconclusive("harness generated an invalid placement: " + err.Error())
		return
	}
	st.distinct("placement_style", h.Style)
	st.distinct("placement", fmt.Sprintf("%+v", h.Pl))
	st.cnt["wavefronts_placed"] += int64(len(h.Pl))
	_, fails, pending := runHistory(rec, c, h, runOpts{}, st)
	if len(fails) == 0 && len(pending) == 0 {
		return
	}
	// a sweep found a cell nobody should have touched, or a register read back
	// wrong: find the first step after which the stores differ from the model
	loc, _, _ := runHistory(rec, c, h, runOpts{sweepEvery: true}, newStats())
	if loc != nil && loc.phase == "fill" {
		if fine, _, _ := runHistory(rec, c, h, runOpts{sweepEvery: true, fineFill: loc.wave + 1}, newStats()); fine != nil {
			loc = fine
		}
	}
	for _, pv := range pending {
		culprit := false
		if loc != nil {
			for _, lf := range loc.fails {
				if lf.Back == pv.back && (loc.phase != "op" || loc.opIdx < pv.opIdx) {
					culprit = true
				}
			}
		}
		if culprit {
			// report the damaging step below (make sure this backing has an entry)
			has := false
			for _, f := range fails {
				has = has || f.Back == pv.back
			}
			if !has {
				for _, lf := range loc.fails {
					if lf.Back == pv.back {
						fails = append(fails, lf)
					}
				}
			}
			continue
		}
		// the cells are intact, the read path itself answers wrongly
		var wit any
		if _, dup := witnessed.LoadOrStore(pv.key, struct{}{}); !dup {
			w := map[string]any{"history": h.Name, "placement_style": h.Style, "placement": h.Pl, "fill_seed": h.FillSeed, "op_index": pv.opIdx, "op": pv.op}
			if pv.opIdx >= 0 && pv.opIdx < len(h.Ops) {
				w["ops"] = h.Ops[:pv.opIdx+1]
			}
			for k, v := range pv.extra {
				w[k] = v
			}
			wit = w
		}
		rec.Violation(pv.key, pv.what, wit)
		// the sweep entries of this backing, if any, would only repeat it when nothing was located
		if loc == nil {
			kept := fails[:0]
			for _, f := range fails {
				if f.Back != pv.back {
					kept = append(kept, f)
				}
			}
			fails = kept
		}
	}
	for _, f := range fails {
		key := fmt.Sprintf("C07|%s|sweep|unlocated", backName[f.Back])
		what := fmt.Sprintf("%s store: %s holds %s, model %s %s", backName[f.Back], f.Where, f.Got, f.Want, f.Detail)
		extra := map[string]any{"cell": f}
		opIdx := len(h.Ops) - 1
		var lop *op
		if loc != nil {
			for _, lf := range loc.fails {
				if lf.Back != f.Back {
					continue
				}
				opIdx, lop = loc.opIdx, loc.op
				rel := relation(loc.op, loc.wave, lf)
				switch loc.phase {
				case "op":
					if lop.od != nil {
						key = fmt.Sprintf("C07|%s|%s|%s|regcount%d|disturbs-%s", backName[f.Back], lop.a.class(), lop.od.Kind, lop.od.RC, rel)
					} else {
						key = fmt.Sprintf("C07|%s|typed|%s|disturbs-%s", backName[f.Back], lop.Typed, rel)
					}
					stepName := fmt.Sprintf("step %d", opIdx)
					if opIdx < 0 {
						stepName = "during the fill"
					}
					what = fmt.Sprintf("%s store: %s of %s lane %d on wave %d at %+v (history %s %s) changed %s: holds %s, model %s",
						backName[f.Back], lop.API, describe(lop), lop.Lane, lop.W, h.Pl[lop.W], h.Name, stepName, lf.Where, lf.Got, lf.Want)
				default:
					key = fmt.Sprintf("C07|%s|setup|%s|disturbs-%s", backName[f.Back], loc.phase, rel)
					what = fmt.Sprintf("%s store: %s of wave %d at %+v (history %s) changed %s: holds %s, model %s %s",
						backName[f.Back], loc.phase, loc.wave, h.Pl[loc.wave], h.Name, lf.Where, lf.Got, lf.Want, lf.Detail)
				}
				extra["cell"] = lf
			}
		}
		if _, dup := witnessed.LoadOrStore(key, struct{}{}); dup {
			rec.Violation(key, what, nil)
			continue
		}
		wit := map[string]any{"history": h.Name, "placement_style": h.Style, "placement": h.Pl, "fill_seed": h.FillSeed, "op_index": opIdx, "op": lop}
		if opIdx >= 0 && opIdx < len(h.Ops) {
			wit["ops"] = h.Ops[:opIdx+1]
		}
		for k, v := range extra {
			wit[k] = v
		}
		rec.Violation(key, what, wit)
	}
}
