package main

// Dispatch-time initialisation (mirror image of release.go): a new wavefront's
// registers are initialised by the real WfDispatcherImpl.DispatchWf while
// other wavefronts are resident on the compute unit. Both register files of a
// real timing compute unit (cu.MakeBuilder; GCN3 or CDNA3-mode) are filled
// with a pattern through raw writes, 1..5 wavefronts with seeded register
// footprints are dispatched (their SGPR and VGPR offsets differ), then further
// wavefronts B with seeded enable bits (work-item id level 0/1/2, work-group
// ids, dispatch / kernarg pointer, reserved user SGPRs, V3 and V5 code
// objects) are dispatched one after the other. Around every dispatch both
// files are compared byte by byte: exactly the cells the ABI says the
// initialisation writes may change (B's first SGPRs as laid out by the enable
// bits, v0..v2 per id level), with the ABI's values; no cell of another
// wavefront, of B's other registers or outside every allocation may change.
// The same work-group is also started in the real emulation compute unit and
// the registers its initWfRegs produced are compared ("both stores agree").

import (
	"encoding/binary"
	"fmt"

	"github.com/sarchlab/akita/v4/mem/mem"
	"github.com/sarchlab/akita/v4/mem/vm"
	"github.com/sarchlab/akita/v4/sim"
	"github.com/sarchlab/mgpusim/v4/amd/emu"
	"github.com/sarchlab/mgpusim/v4/amd/emu/cdna3"
	"github.com/sarchlab/mgpusim/v4/amd/insts"
	"github.com/sarchlab/mgpusim/v4/amd/kernels"
	"github.com/sarchlab/mgpusim/v4/amd/protocol"
	"github.com/sarchlab/mgpusim/v4/amd/timing/cu"
	"github.com/sarchlab/mgpusim/v4/amd/timing/wavefront"

	"verifharness/vlib"
	"verifharness/vlib/simkit"
)

type dspFlags struct {
	PrivSegBuf  bool   `json:"private_segment_buffer,omitempty"`
	DispatchPtr bool   `json:"dispatch_ptr,omitempty"`
	QueuePtr    bool   `json:"queue_ptr,omitempty"`
	KernargPtr  bool   `json:"kernarg_ptr,omitempty"`
	DispatchID  bool   `json:"dispatch_id,omitempty"`
	FlatScratch bool   `json:"flat_scratch_init,omitempty"`
	PrivSegSize bool   `json:"private_segment_size,omitempty"`
	CountX      bool   `json:"grid_count_x,omitempty"`
	CountY      bool   `json:"grid_count_y,omitempty"`
	CountZ      bool   `json:"grid_count_z,omitempty"`
	Rsrc2       uint32 `json:"compute_pgm_rsrc2"` // wg id x/y/z (bits 7..9), wg info (10), work-item id level (11..12), wave byte offset (0)
	V5          bool   `json:"code_object_v5,omitempty"`
}

type dspWave struct {
	SIMD  int      `json:"simd"`
	SOff  int      `json:"sgpr_offset_bytes"`
	VOff  int      `json:"vgpr_offset_bytes"`
	NS    int      `json:"sgprs"`
	NV    int      `json:"vgprs"`
	Flags dspFlags `json:"flags"`
	Size  [3]int   `json:"work_group_size"`
	WGID  [3]int   `json:"work_group_id"`
	Wave  int      `json:"wavefront_in_group"`
	// residents are dispatched before the first judged dispatch
	Resident bool `json:"resident,omitempty"`
}

type dspScenario struct {
	Name  string     `json:"name"`
	Arch  string     `json:"arch"`
	Seed  uint64     `json:"seed"`
	Waves []*dspWave `json:"waves"`
}

func (f dspFlags) idLevel() int { return int(f.Rsrc2 >> 11 & 3) }

// abiInit is what the ABI (as both compute units implement it) makes of the
// enable bits: values for SGPRs (nil = reserved, content not prescribed) and
// the number of VGPRs written.
type abiInit struct {
	sgpr  []*uint32
	names []string
}

func (w *dspWave) abi(pktAddr, kernarg uint64, grid [3]uint32) abiInit {
	var a abiInit
	put := func(name string, vals ...*uint32) {
		for i, v := range vals {
			a.sgpr = append(a.sgpr, v)
			a.names = append(a.names, fmt.Sprintf("%s[%d]", name, i))
		}
	}
	u := func(v uint32) *uint32 { return &v }
	f := w.Flags
	if f.PrivSegBuf {
		put("private-segment-buffer", nil, nil, nil, nil)
	}
	if f.DispatchPtr {
		put("dispatch-ptr", u(uint32(pktAddr)), u(uint32(pktAddr>>32)))
	}
	if f.KernargPtr {
		put("kernarg-ptr", u(uint32(kernarg)), u(uint32(kernarg>>32)))
	}
	if f.DispatchID {
		put("dispatch-id", nil, nil)
	}
	if f.FlatScratch {
		put("flat-scratch-init", nil, nil)
	}
	cnt := func(i int) uint32 { return (grid[i] + uint32(w.Size[i]) - 1) / uint32(w.Size[i]) }
	if f.CountX {
		put("grid-workgroup-count-x", u(cnt(0)))
	}
	if f.CountY {
		put("grid-workgroup-count-y", u(cnt(1)))
	}
	if f.CountZ {
		put("grid-workgroup-count-z", u(cnt(2)))
	}
	for i, n := range []string{"workgroup-id-x", "workgroup-id-y", "workgroup-id-z"} {
		if f.Rsrc2>>(7+uint(i))&1 == 1 {
			put(n, u(uint32(w.WGID[i])))
		}
	}
	return a
}

// vgprInit returns the expected v0..v2 of one lane (nil = not written).
func (w *dspWave) vgprInit(lane int) [3]*uint32 {
	i := 64*w.Wave + lane
	z := i / (w.Size[0] * w.Size[1])
	y := i % (w.Size[0] * w.Size[1]) / w.Size[0]
	x := i % (w.Size[0] * w.Size[1]) % w.Size[0]
	u := func(v int) *uint32 { q := uint32(v); return &q }
	if w.Flags.V5 {
		return [3]*uint32{u(x | y<<10 | z<<20), nil, nil}
	}
	out := [3]*uint32{u(x), nil, nil}
	if w.Flags.idLevel() > 0 {
		out[1] = u(y)
	}
	if w.Flags.idLevel() > 1 {
		out[2] = u(z)
	}
	return out
}

func (w *dspWave) codeObject() *insts.KernelCodeObject {
	f := w.Flags
	co := &insts.KernelCodeObject{KernelCodeObjectMeta: &insts.KernelCodeObjectMeta{
		EnableSgprPrivateSegmentBuffer: f.PrivSegBuf, EnableSgprDispatchPtr: f.DispatchPtr, EnableSgprQueuePtr: f.QueuePtr,
		EnableSgprKernargSegmentPtr: f.KernargPtr, EnableSgprDispatchID: f.DispatchID, EnableSgprFlatScratchInit: f.FlatScratch,
		EnableSgprPrivateSegmentSize: f.PrivSegSize, EnableSgprGridWorkgroupCountX: f.CountX, EnableSgprGridWorkgroupCountY: f.CountY,
		EnableSgprGridWorkgroupCountZ: f.CountZ, ComputePgmRsrc2: f.Rsrc2,
		WFSgprCount: uint16(min(w.NS, 102)), WIVgprCount: uint16(w.NV)}, Version: insts.CodeObjectV3}
	if f.V5 {
		co.Version = insts.CodeObjectV5
	}
	// s_nop 0 ; s_endpgm (for the emulation run)
	co.Data = []byte{0, 0, 0x80, 0xBF, 0, 0, 0x81, 0xBF}
	return co
}

const dspCodeAddr = 0x1000

// rawGroup builds the work-group with the real grid builder.
func (w *dspWave) rawGroup(kernarg, pktAddr uint64) (*kernels.WorkGroup, [3]uint32) {
	grid := [3]uint32{uint32(w.Size[0] * (w.WGID[0] + 2)), uint32(w.Size[1] * (w.WGID[1] + 1)), uint32(w.Size[2] * (w.WGID[2] + 1))}
	pkt := &kernels.HsaKernelDispatchPacket{WorkgroupSizeX: uint16(w.Size[0]), WorkgroupSizeY: uint16(w.Size[1]), WorkgroupSizeZ: uint16(w.Size[2]),
		GridSizeX: grid[0], GridSizeY: grid[1], GridSizeZ: grid[2], KernelObject: dspCodeAddr, KernargAddress: kernarg}
	gb := kernels.NewGridBuilder()
	gb.SetKernel(kernels.KernelLaunchInfo{CodeObject: w.codeObject(), Packet: pkt, PacketAddr: pktAddr})
	for {
		wg := gb.NextWG()
		if wg == nil {
			return nil, grid
		}
		if wg.IDX == w.WGID[0] && wg.IDY == w.WGID[1] && wg.IDZ == w.WGID[2] {
			return wg, grid
		}
	}
}

// ---- emulation side -----------------------------------------------------------

type dspEmuRegs struct {
	s    []byte
	v    [64][3]uint32
	exec uint64
}

type dspEmuHook struct{ seen map[int]*dspEmuRegs }

func (h *dspEmuHook) Func(ctx sim.HookCtx) {
	wf, ok := ctx.Item.(*emu.Wavefront)
	if !ok {
		return
	}
	k := wf.FirstWiFlatID / 64
	if h.seen[k] != nil {
		return
	}
	r := &dspEmuRegs{s: append([]byte(nil), wf.SRegFile...), exec: wf.EXEC()}
	for l := 0; l < 64; l++ {
		for j := 0; j < 3; j++ {
			r.v[l][j] = binary.LittleEndian.Uint32(wf.VRegFile[l*laneStride+4*j:])
		}
	}
	h.seen[k] = r
}

// emuInit starts the work-group in the real emulation compute unit and returns
// the registers of wavefront `wave` as its first instruction found them.
func emuInit(arch string, wg *kernels.WorkGroup, wave int) (*dspEmuRegs, string) {
	engine := sim.NewSerialEngine()
	freq := 1 * sim.GHz
	storage := mem.NewStorage(1 << 16)
	if err := storage.Write(dspCodeAddr, wg.CodeObject.Data); err != nil {
		return nil, err.Error()
	}
	pt := vm.NewPageTable(12)
	for a := uint64(0); a < 1<<16; a += 4096 {
		pt.Insert(vm.Page{PID: 1, VAddr: a, PAddr: a, PageSize: 4096, Valid: true})
	}
	dis := insts.NewDisassembler()
	var u *emu.ComputeUnit
	if arch == "cdna3" {
		dis.IsCDNA3 = true
		u = emu.BuildComputeUnitWithALU("EmuCU", engine, dis, pt, 12, storage, nil, func(sa emu.StorageAccessor) emu.ALU { return cdna3.NewALU(sa) }, true)
	} else {
		u = emu.BuildComputeUnit("EmuCU", engine, dis, pt, 12, storage, nil)
	}
	h := &dspEmuHook{seen: map[int]*dspEmuRegs{}}
	u.AcceptHook(h)
	disp := &relDisp{rng: vlib.NewPRNG(1), alloc: newRelAlloc(false), byReq: map[string]*relWG{}}
	disp.Agent = simkit.NewAgent("Disp", engine, freq)
	disp.port = disp.Agent.NewPort("ToCU", 4, 4)
	disp.Agent.TickFn = disp.tick
	disp.cu = u.ToDispatcher.AsRemote()
	simkit.Connect(engine, freq, "ConnEmu", u.ToDispatcher, disp.port)
	disp.wgs = []*relWG{{wg: wg}}
	disp.TickLater()
	_, livelock, pv := simkit.RunBounded(engine, 200_000)
	if pv != nil {
		return nil, fmt.Sprint("panic: ", pv)
	}
	if livelock || h.seen[wave] == nil {
		return nil, "the emulation compute unit did not run the wavefront"
	}
	return h.seen[wave], ""
}

// ---- run ----------------------------------------------------------------------

func runDispatch(rec vlib.Recorder, sc *dspScenario) {
	rec.Eval()
	cnt := map[string]int64{}
	defer func() {
		for k, v := range cnt {
			rec.Count(k, v)
		}
	}()
	b := cu.MakeBuilder().WithEngine(sim.NewSerialEngine()).WithFreq(1 * sim.GHz)
	if sc.Arch == "cdna3" {
		b = b.WithALUFactory(func(sa emu.StorageAccessor) emu.ALU { return cdna3.NewALU(sa) }).WithCDNA3Decoding(true).WithRegisterScoreboard(true)
	}
	c := b.Build("CU")
	r := vlib.NewPRNG(sc.Seed)
	// pattern
	fillS := make([]byte, sgprFileRegs*4)
	nonzero(r, fillS)
	c.SRegFile.Write(cu.RegisterAccess{Reg: insts.SReg(0), RegCount: sgprFileRegs, Data: fillS})
	for simd := 0; simd < numSIMD; simd++ {
		f := make([]byte, vgprFileRegs*4)
		nonzero(r, f)
		c.VRegFile[simd].Write(cu.RegisterAccess{Reg: insts.VReg(0), RegCount: vgprFileRegs, Data: f})
	}
	snap := func() (s []byte, v [numSIMD][]byte) {
		s = make([]byte, sgprFileRegs*4)
		c.SRegFile.Read(cu.RegisterAccess{Reg: insts.SReg(0), RegCount: sgprFileRegs, Data: s})
		for i := range v {
			v[i] = make([]byte, vgprFileRegs*4)
			c.VRegFile[i].Read(cu.RegisterAccess{Reg: insts.VReg(0), RegCount: vgprFileRegs, Data: v[i]})
		}
		return
	}
	wit := func(key string, extra map[string]any) any {
		if _, dup := witnessed.LoadOrStore(key, struct{}{}); dup {
			return nil
		}
		w := map[string]any{"dispatch": sc}
		for k, v := range extra {
			w[k] = v
		}
		return w
	}
	var placed []*dspWave
	owner := func(simd, off int, vec bool) (*dspWave, int) { // off: byte offset inside the scalar file / inside one lane's slice
		for _, p := range placed {
			if !vec && off >= p.SOff && off < p.SOff+4*p.NS {
				return p, (off - p.SOff) / 4
			}
			if vec && p.SIMD == simd && off >= p.VOff && off < p.VOff+4*p.NV {
				return p, (off - p.VOff) / 4
			}
		}
		return nil, 0
	}
	for wi, w := range sc.Waves {
		kernarg, pktAddr := 0x10000+r.Uint64()&0xffffffff00, 0x20000+r.Uint64()&0xffffffff00
		wg, grid := w.rawGroup(kernarg, pktAddr)
		if wg == nil || w.Wave >= len(wg.Wavefronts) {
			rec.Inconclusive(fmt.Sprintf("harness: dispatch scenario %s wave %d: the grid builder did not produce the work-group", sc.Name, wi))
			return
		}
		raw := wg.Wavefronts[w.Wave]
		twg := wavefront.NewWorkGroup(wg, nil)
		wf := wavefront.NewWavefront(raw)
		wf.RegAccessor = &cu.CURegFileAccessor{CU: c, WF: wf}
		twg.Wfs = append(twg.Wfs, wf)
		wf.WG = twg
		beforeS, beforeV := snap()
		residents := 0
		for _, p := range placed {
			if p.SIMD == w.SIMD {
				residents++
			}
		}
		pan := func() (p string) {
			defer func() {
				if rr := recover(); rr != nil {
					p = fmt.Sprint(rr)
				}
			}()
			c.WfDispatcher.DispatchWf(wf, protocol.WfDispatchLocation{Wavefront: raw, SIMDID: w.SIMD, VGPROffset: w.VOff, SGPROffset: w.SOff})
			return ""
		}()
		placed = append(placed, w)
		desc := fmt.Sprintf("wavefront %d of scenario %s (SIMD %d, SGPR offset %d, VGPR offset %d, %d SGPRs, %d VGPRs, id level %d, V5 %v)",
			wi, sc.Name, w.SIMD, w.SOff, w.VOff, w.NS, w.NV, w.Flags.idLevel(), w.Flags.V5)
		if pan != "" {
			key := "C07|timing|dispatch|panic"
			rec.Violation(key, fmt.Sprintf("DispatchWf of %s panicked: %s", desc, pan), wit(key, map[string]any{"wave": wi}))
			return
		}
		if w.Resident {
			cnt["dsp.residents_placed"]++
			continue
		}
		cnt["dsp.dispatches"]++
		if w.SOff != w.VOff {
			cnt["dsp.dispatches_with_sreg_offset_ne_vreg_offset"]++
		}
		if w.Flags.idLevel() == 2 && !w.Flags.V5 {
			cnt["dsp.dispatches_with_id_level_2"]++
		}
		if w.Flags.V5 {
			cnt["dsp.dispatches_v5"]++
		}
		if residents >= 2 {
			cnt["dsp.dispatches_onto_simd_with_2plus_residents"]++
		}
		rec.Distinct("dsp_flags", fmt.Sprintf("%+v", w.Flags))
		afterS, afterV := snap()
		a := w.abi(pktAddr, kernarg, grid)
		if len(a.sgpr) > w.NS {
			rec.Inconclusive("harness: dispatch scenario with more user SGPRs than the wavefront owns")
			return
		}
		bad := false
		seenKey := map[string]bool{}
		report := func(key, what string) { // every kind of deviation once per dispatch
			bad = true
			if !seenKey[key] {
				seenKey[key] = true
				rec.Violation(key, what+" ["+desc+"]", wit(key, map[string]any{"wave": wi}))
			}
		}
		// scalar file
		for off := 0; off < len(afterS); off += 4 {
			was, is := binary.LittleEndian.Uint32(beforeS[off:]), binary.LittleEndian.Uint32(afterS[off:])
			idx := (off - w.SOff) / 4
			if off >= w.SOff && idx < len(a.sgpr) { // a cell the initialisation owns
				cnt["dsp.init_cells_verified"]++
				switch want := a.sgpr[idx]; {
				case want == nil: // reserved, not prescribed
				case is == *want:
				case is == was:
					report("C07|timing|dispatch|own-register-not-initialised|sgpr-"+a.names[idx][:len(a.names[idx])-3],
						fmt.Sprintf("after the dispatch s%d (%s) still holds %#x, the ABI value is %#x", idx, a.names[idx], is, *want))
				default:
					report("C07|timing|dispatch|own-register-wrong-value|sgpr-"+a.names[idx][:len(a.names[idx])-3],
						fmt.Sprintf("after the dispatch s%d (%s) holds %#x, the ABI value is %#x", idx, a.names[idx], is, *want))
				}
				continue
			}
			if is == was {
				continue
			}
			o, reg := owner(0, off, false)
			switch {
			case o == w:
				report("C07|timing|dispatch|writes-unexpected-own-register|sgpr", fmt.Sprintf("the dispatch changed s%d of the new wavefront (%#x -> %#x), which the enable bits do not initialise", reg, was, is))
			case o != nil:
				report("C07|timing|dispatch|disturbs-other-wavefront|sgpr", fmt.Sprintf("the dispatch changed s%d of the resident wavefront at SGPR offset %d (scalar file byte %d: %#x -> %#x)", reg, o.SOff, off, was, is))
			default:
				report("C07|timing|dispatch|writes-outside-every-allocation|sgpr", fmt.Sprintf("the dispatch changed scalar file byte %d (%#x -> %#x), which no wavefront owns", off, was, is))
			}
		}
		// vector files
		for simd := 0; simd < numSIMD; simd++ {
			for off := 0; off < len(afterV[simd]); off += 4 {
				was, is := binary.LittleEndian.Uint32(beforeV[simd][off:]), binary.LittleEndian.Uint32(afterV[simd][off:])
				lane, within := off/laneStride, off%laneStride
				idx := (within - w.VOff) / 4
				if simd == w.SIMD && within >= w.VOff && idx < 3 {
					want := w.vgprInit(lane)[idx]
					if want != nil {
						cnt["dsp.init_cells_verified"]++
						switch {
						case is == *want:
						case is == was:
							report(fmt.Sprintf("C07|timing|dispatch|own-register-not-initialised|v%d", idx),
								fmt.Sprintf("after the dispatch v%d of lane %d still holds %#x, the work-item id is %d", idx, lane, is, *want))
						default:
							report(fmt.Sprintf("C07|timing|dispatch|own-register-wrong-value|v%d", idx),
								fmt.Sprintf("after the dispatch v%d of lane %d holds %#x, the work-item id is %d", idx, lane, is, *want))
						}
						continue
					}
				}
				if is == was {
					continue
				}
				o, reg := owner(simd, within, true)
				switch {
				case o == w:
					report("C07|timing|dispatch|writes-unexpected-own-register|vgpr", fmt.Sprintf("the dispatch changed v%d lane %d of the new wavefront (%#x -> %#x), which its id level does not initialise", reg, lane, was, is))
				case o != nil:
					report("C07|timing|dispatch|disturbs-other-wavefront|vgpr", fmt.Sprintf("the dispatch changed v%d lane %d of the resident wavefront at SIMD %d VGPR offset %d (file byte %d: %#x -> %#x); nothing of that wavefront wrote it",
						reg, lane, simd, o.VOff, off, was, is))
				default:
					report("C07|timing|dispatch|writes-outside-every-allocation|vgpr", fmt.Sprintf("the dispatch changed byte %d of the vector file of SIMD %d (lane slice %d, %#x -> %#x), which no wavefront owns", off, simd, lane, was, is))
				}
			}
		}
		cnt["dsp.file_bytes_compared"] += int64(len(afterS) + numSIMD*vgprFileRegs*4)
		if wf.EXEC() != raw.InitExecMask || wf.SRegOffset != w.SOff || wf.VRegOffset != w.VOff || wf.SIMDID != w.SIMD {
			report("C07|timing|dispatch|wavefront-fields-wrong", fmt.Sprintf("EXEC %#x (initial mask %#x), offsets %d/%d, SIMD %d", wf.EXEC(), raw.InitExecMask, wf.SRegOffset, wf.VRegOffset, wf.SIMDID))
		}
		if bad {
			return
		}
		// both stores agree: the emulation compute unit's initialisation of the same wavefront
		if wi%2 == 0 {
			er, msg := emuInit(sc.Arch, wg, w.Wave)
			if er == nil {
				key := "C07|emu|dispatch|initialisation-failed"
				rec.Violation(key, "emulation compute unit, "+desc+": "+msg, wit(key, map[string]any{"wave": wi}))
				return
			}
			cnt["dsp.emu_initialisations_compared"]++
			for i := 0; i < min(len(a.sgpr), emuSGPRs); i++ {
				got, tim := binary.LittleEndian.Uint32(er.s[4*i:]), binary.LittleEndian.Uint32(afterS[w.SOff+4*i:])
				if a.sgpr[i] != nil && got != tim {
					key := "C07|emu|dispatch|differs-from-timing|sgpr"
					rec.Violation(key, fmt.Sprintf("emulation initialises s%d (%s) to %#x, timing to %#x [%s]", i, a.names[i], got, tim, desc), wit(key, map[string]any{"wave": wi}))
					return
				}
			}
			for l := 0; l < 64; l++ {
				exp := w.vgprInit(l)
				for j := 0; j < 3; j++ {
					want := uint32(0) // emulation starts from zeroed registers
					if exp[j] != nil {
						want = *exp[j]
					}
					if er.v[l][j] != want {
						key := fmt.Sprintf("C07|emu|dispatch|differs-from-timing|v%d", j)
						rec.Violation(key, fmt.Sprintf("emulation has v%d of lane %d = %#x after initialisation, timing/ABI %#x [%s]", j, l, er.v[l][j], want, desc), wit(key, map[string]any{"wave": wi}))
						return
					}
				}
			}
			if er.exec != raw.InitExecMask {
				key := "C07|emu|dispatch|differs-from-timing|exec"
				rec.Violation(key, fmt.Sprintf("emulation EXEC %#x, initial mask %#x [%s]", er.exec, raw.InitExecMask, desc), wit(key, nil))
				return
			}
		}
	}
	cnt["dsp.scenarios"]++
	rec.Nontrivial("dispatch|" + sc.Name)
}

// ---- scenarios ------------------------------------------------------------------

func genFlags(r *vlib.PRNG, mode int) dspFlags {
	var f dspFlags
	switch mode {
	case 0: // everything off
	case 1: // everything on
		f = dspFlags{true, true, true, true, true, true, true, true, true, true, 1<<7 | 1<<8 | 1<<9 | 1<<10 | 2<<11 | 1, false}
	default:
		bit := func() bool { return r.Chance(2, 5) }
		f = dspFlags{PrivSegBuf: bit(), DispatchPtr: bit(), QueuePtr: bit(), KernargPtr: r.Chance(4, 5), DispatchID: bit(), FlatScratch: bit(),
			PrivSegSize: bit(), CountX: bit(), CountY: bit(), CountZ: bit()}
		f.Rsrc2 = uint32(r.Intn(16))<<7 | uint32([]int{0, 1, 2, 2, 2}[r.Intn(5)])<<11 | uint32(r.Intn(2))
		f.V5 = r.Chance(1, 5)
	}
	return f
}

func genDispatch(r *vlib.PRNG, idx int) *dspScenario {
	sc := &dspScenario{Name: fmt.Sprintf("d%d", idx), Seed: r.Uint64(), Arch: []string{"gcn3", "gcn3", "cdna3"}[idx%3]}
	simd := r.Intn(numSIMD)
	nRes := 1 + r.Intn(5)
	nNew := 2 + r.Intn(5)
	sOff := r.Intn(20) * sgprGranule * 4
	if r.Chance(2, 3) { // low SGPR offsets: a byte offset mistaken for a VGPR offset then lands inside a resident's window
		sOff = r.Intn(3) * sgprGranule * 4
	}
	var vOff [numSIMD]int
	for i := range vOff {
		vOff[i] = r.Intn(6) * vgprGranule * 4
	}
	style := idx % 4
	for k := 0; k < nRes+nNew; k++ {
		w := &dspWave{Resident: k < nRes, SIMD: simd}
		if r.Chance(1, 4) {
			w.SIMD = r.Intn(numSIMD)
		}
		su, vu := pickSUnits(r), []int{1, 2, 3, 4, 6, 8, 16, 24, 32}[r.Intn(9)]
		if k >= nRes {
			su, vu = []int{1, 1, 2, 3}[r.Intn(4)], []int{1, 2, 3, 4, 6}[r.Intn(5)]
		}
		w.NS, w.NV = su*sgprGranule, vu*vgprGranule
		w.Flags = genFlags(r, 2+r.Intn(8))
		if k == nRes && idx%5 == 0 {
			w.Flags = genFlags(r, idx/5%2)
		}
		w.Size = [][3]int{{4, 4, 4}, {8, 4, 2}, {16, 2, 4}, {64, 1, 1}, {8, 8, 4}, {2, 16, 8}, {32, 2, 2}}[r.Intn(7)]
		w.WGID = [3]int{r.Intn(3), r.Intn(2), r.Intn(2)}
		w.Wave = r.Intn(w.Size[0] * w.Size[1] * w.Size[2] / 64)
		for need := len(w.abi(0, 0, [3]uint32{1, 1, 1}).sgpr); w.NS < need; {
			w.NS += sgprGranule // the user SGPRs have to fit
		}
		if style == 3 && k == nRes+nNew-1 { // the last slots of both files
			w.SOff, w.VOff = sgprFileRegs*4-4*w.NS, laneStride-4*w.NV
			if vOff[w.SIMD] > w.VOff {
				break
			}
		} else {
			if vOff[w.SIMD]+4*w.NV > laneStride-64 || sOff+4*w.NS > sgprFileRegs*4-512 {
				break
			}
			w.SOff, w.VOff = sOff, vOff[w.SIMD]
			sOff += 4 * w.NS
			vOff[w.SIMD] += 4 * w.NV
			if style == 1 && r.Bool() { // leave gaps
				sOff += r.Intn(3) * sgprGranule * 4
				vOff[w.SIMD] += r.Intn(3) * vgprGranule * 4
			}
		}
		sc.Waves = append(sc.Waves, w)
	}
	return sc
}

func canonicalDispatch() []*dspScenario {
	var out []*dspScenario
	// the seed demo's shape: A resident with live data, B (3-D ids) lands behind it on the same SIMD with SGPR offset != VGPR offset
	for _, arch := range []string{"gcn3", "cdna3"} {
		for lvl := 0; lvl <= 2; lvl++ {
			for _, v5 := range []bool{false, true} {
				fl := dspFlags{KernargPtr: true, Rsrc2: 1<<7 | uint32(lvl)<<11, V5: v5}
				out = append(out, &dspScenario{Name: fmt.Sprintf("canon-%s-level%d-v5%v", arch, lvl, v5), Arch: arch, Seed: 0xD15 + uint64(len(out)), Waves: []*dspWave{
					{Resident: true, SIMD: 1, SOff: 0, VOff: 0, NS: 16, NV: 64, Flags: fl, Size: [3]int{4, 4, 4}},
					{Resident: true, SIMD: 1, SOff: 64, VOff: 256, NS: 32, NV: 8, Flags: fl, Size: [3]int{4, 4, 4}},
					{SIMD: 1, SOff: 192, VOff: 288, NS: 16, NV: 12, Flags: fl, Size: [3]int{4, 4, 4}, WGID: [3]int{1, 0, 0}},
					{SIMD: 1, SOff: 256, VOff: 336, NS: 48, NV: 4, Flags: genFlags(nil, 1), Size: [3]int{8, 4, 4}, WGID: [3]int{2, 1, 1}, Wave: 1},
					{SIMD: 1, SOff: sgprFileRegs*4 - 64, VOff: laneStride - 16, NS: 16, NV: 4, Flags: fl, Size: [3]int{4, 4, 4}},
					{SIMD: 2, SOff: 448, VOff: 0, NS: 16, NV: 64, Flags: fl, Size: [3]int{2, 16, 8}, Wave: 3},
				}})
			}
		}
	}
	return out
}
