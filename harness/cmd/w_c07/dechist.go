package main

// Decode-history layer. The operands the register stores are driven with come
// out of the instruction decoder; the cells an access denotes are a function
// of the ENCODING (format, opcode, field -> width from the ISA), not of
// whatever width the operand object happens to carry. Two things are checked
// on long-lived decoders (one per architecture, as every compute unit has):
//
//  1. an operand object does not change after Decode returned: every operand
//     of every decoded instruction is snapshotted (type, register, RegCount,
//     constant values) and re-compared after every later decode; the same
//     encoding decoded again later must give an equal operand;
//  2. short decoded sequences -- 64-bit uses of vcc / exec / SGPR pairs
//     before and after 32-bit uses of their halves, constants in between --
//     are executed by the real ALUs on both register stores and compared with
//     a cell model whose widths come from the ISA; before execution every
//     register operand is also read through ReadOperand.
//
// The canonical history runs first in the process, before anything else has
// been decoded: its first phase uses the halves before any 64-bit use exists.

import (
	"encoding/binary"
	"fmt"

	"github.com/sarchlab/akita/v4/sim"
	"github.com/sarchlab/mgpusim/v4/amd/emu"
	"github.com/sarchlab/mgpusim/v4/amd/emu/cdna3"
	"github.com/sarchlab/mgpusim/v4/amd/insts"
	"github.com/sarchlab/mgpusim/v4/amd/kernels"
	"github.com/sarchlab/mgpusim/v4/amd/timing/cu"
	"github.com/sarchlab/mgpusim/v4/amd/timing/wavefront"

	"verifharness/vlib"
)

// scalar operand codes
const (
	cVCCLO  = 106
	cVCCHI  = 107
	cM0     = 124
	cEXECLO = 126
	cEXECHI = 127
	cLit    = 255
)

type dhIns struct {
	Kind string `json:"kind"` // smov32 smov64 sand32 sand64 scmp smovk vcmp32 vcmp64
	Dst  int    `json:"dst"`
	S0   int    `json:"s0"`
	S1   int    `json:"s1"`
	Lit  uint32 `json:"lit,omitempty"`
}

func codeName(c, w int) string {
	switch {
	case c <= 101 && w == 2:
		return fmt.Sprintf("s[%d:%d]", c, c+1)
	case c <= 101:
		return fmt.Sprintf("s%d", c)
	case c == cVCCLO && w == 2:
		return "vcc"
	case c == cEXECLO && w == 2:
		return "exec"
	case c == cVCCLO:
		return "vcc_lo"
	case c == cVCCHI:
		return "vcc_hi"
	case c == cM0:
		return "m0"
	case c == cEXECLO:
		return "exec_lo"
	case c == cEXECHI:
		return "exec_hi"
	case c >= 128 && c <= 192:
		return fmt.Sprint(c - 128)
	case c >= 193 && c <= 208:
		return fmt.Sprint(-(c - 192))
	case c == cLit:
		return "lit"
	case c >= 256:
		return fmt.Sprintf("v%d", c-256)
	}
	return fmt.Sprintf("code%d", c)
}

func (i dhIns) String() string {
	l := func(c, w int) string {
		if c == cLit {
			return fmt.Sprintf("%#x", i.Lit)
		}
		return codeName(c, w)
	}
	switch i.Kind {
	case "smov32":
		return fmt.Sprintf("s_mov_b32 %s, %s", l(i.Dst, 1), l(i.S0, 1))
	case "smov64":
		return fmt.Sprintf("s_mov_b64 %s, %s", l(i.Dst, 2), l(i.S0, 2))
	case "sand32":
		return fmt.Sprintf("s_and_b32 %s, %s, %s", l(i.Dst, 1), l(i.S0, 1), l(i.S1, 1))
	case "sand64":
		return fmt.Sprintf("s_and_b64 %s, %s, %s", l(i.Dst, 2), l(i.S0, 2), l(i.S1, 2))
	case "scmp":
		return fmt.Sprintf("s_cmp_eq_u32 %s, %s", l(i.S0, 1), l(i.S1, 1))
	case "smovk":
		return fmt.Sprintf("s_movk_i32 %s, %#x", l(i.Dst, 1), i.Lit)
	case "vcmp32":
		return fmt.Sprintf("v_cmp_eq_u32_e32 vcc, %s, v1", l(i.S0, 1))
	case "vcmp64":
		return fmt.Sprintf("v_cmp_eq_u32_e64 %s, v0, v1", l(i.Dst, 2))
	}
	return i.Kind
}

func (i dhIns) words() []uint32 {
	var w []uint32
	switch i.Kind {
	case "smov32":
		w = sop1(0, i.Dst, i.S0)
	case "smov64":
		w = sop1(1, i.Dst, i.S0)
	case "sand32":
		w = sop2(12, i.Dst, i.S0, i.S1)
	case "sand64":
		w = sop2(13, i.Dst, i.S0, i.S1)
	case "scmp":
		w = sopc(6, i.S0, i.S1)
	case "smovk":
		return sopk(0, i.Dst, int(i.Lit&0xffff))
	case "vcmp32":
		w = vopc(0xca, 1, i.S0)
	case "vcmp64":
		return vop3a(0xca, i.Dst, 256, 257, 0)
	}
	if i.S0 == cLit || (i.S1 == cLit && (i.Kind == "sand32" || i.Kind == "scmp")) {
		w = append(w, i.Lit)
	}
	return w
}

// isaOp is what the encoding says about one operand field.
type isaOp struct {
	Field string
	Code  int
	Width int // dwords
}

func (i dhIns) isa() []isaOp {
	switch i.Kind {
	case "smov32":
		return []isaOp{{"Dst", i.Dst, 1}, {"Src0", i.S0, 1}}
	case "smov64":
		return []isaOp{{"Dst", i.Dst, 2}, {"Src0", i.S0, 2}}
	case "sand32":
		return []isaOp{{"Dst", i.Dst, 1}, {"Src0", i.S0, 1}, {"Src1", i.S1, 1}}
	case "sand64":
		return []isaOp{{"Dst", i.Dst, 2}, {"Src0", i.S0, 2}, {"Src1", i.S1, 2}}
	case "scmp":
		return []isaOp{{"Src0", i.S0, 1}, {"Src1", i.S1, 1}}
	case "smovk":
		return []isaOp{{"Dst", i.Dst, 1}}
	case "vcmp32":
		return []isaOp{{"Src0", i.S0, 1}, {"Src1", 257, 1}}
	case "vcmp64":
		return []isaOp{{"Dst", i.Dst, 2}, {"Src0", 256, 1}, {"Src1", 257, 1}}
	}
	return nil
}

// ---- cell model (widths from the ISA) ---------------------------------------

type dhModel struct {
	s    [emuSGPRs]uint32
	vcc  uint64
	exec uint64
	scc  byte
	m0   uint32
	v    [2][64]uint32
}

func (m *dhModel) r32(c int, lit uint32) uint32 {
	switch {
	case c <= 101:
		return m.s[c]
	case c == cVCCLO:
		return uint32(m.vcc)
	case c == cVCCHI:
		return uint32(m.vcc >> 32)
	case c == cM0:
		return m.m0
	case c == cEXECLO:
		return uint32(m.exec)
	case c == cEXECHI:
		return uint32(m.exec >> 32)
	case c >= 128 && c <= 192:
		return uint32(c - 128)
	case c >= 193 && c <= 208:
		return uint32(-(c - 192))
	case c == cLit:
		return lit
	}
	panic("harness: r32 of code " + fmt.Sprint(c))
}

func (m *dhModel) r64(c int) uint64 {
	switch {
	case c <= 100:
		return uint64(m.s[c]) | uint64(m.s[c+1])<<32
	case c == cVCCLO:
		return m.vcc
	case c == cEXECLO:
		return m.exec
	case c >= 128 && c <= 192:
		return uint64(c - 128)
	case c >= 193 && c <= 208:
		return uint64(int64(-(c - 192)))
	}
	panic("harness: r64 of code " + fmt.Sprint(c))
}

func (m *dhModel) w32(c int, v uint32) {
	switch {
	case c <= 101:
		m.s[c] = v
	case c == cVCCLO:
		m.vcc = m.vcc&^0xffffffff | uint64(v)
	case c == cVCCHI:
		m.vcc = m.vcc&0xffffffff | uint64(v)<<32
	case c == cM0:
		m.m0 = v
	case c == cEXECLO:
		m.exec = m.exec&^0xffffffff | uint64(v)
	case c == cEXECHI:
		m.exec = m.exec&0xffffffff | uint64(v)<<32
	default:
		panic("harness: w32 of code " + fmt.Sprint(c))
	}
}

func (m *dhModel) w64(c int, v uint64) {
	switch {
	case c <= 100:
		m.s[c], m.s[c+1] = uint32(v), uint32(v>>32)
	case c == cVCCLO:
		m.vcc = v
	case c == cEXECLO:
		m.exec = v
	default:
		panic("harness: w64 of code " + fmt.Sprint(c))
	}
}

func (m *dhModel) exe(i dhIns) {
	b := func(x bool) byte {
		if x {
			return 1
		}
		return 0
	}
	switch i.Kind {
	case "smov32":
		m.w32(i.Dst, m.r32(i.S0, i.Lit))
	case "smov64":
		m.w64(i.Dst, m.r64(i.S0))
	case "sand32":
		v := m.r32(i.S0, i.Lit) & m.r32(i.S1, i.Lit)
		m.w32(i.Dst, v)
		m.scc = b(v != 0)
	case "sand64":
		v := m.r64(i.S0) & m.r64(i.S1)
		m.w64(i.Dst, v)
		m.scc = b(v != 0)
	case "scmp":
		m.scc = b(m.r32(i.S0, i.Lit) == m.r32(i.S1, i.Lit))
	case "smovk":
		m.w32(i.Dst, uint32(int32(int16(i.Lit))))
	case "vcmp32", "vcmp64":
		var mask uint64
		for l := 0; l < 64; l++ {
			if m.exec>>uint(l)&1 == 0 {
				continue
			}
			a := m.v[0][l]
			if i.Kind == "vcmp32" {
				a = m.r32(i.S0, i.Lit)
			}
			if a == m.v[1][l] {
				mask |= 1 << uint(l)
			}
		}
		if i.Kind == "vcmp32" {
			m.vcc = mask
		} else {
			m.w64(i.Dst, mask)
		}
	}
}

// ---- the two stores -----------------------------------------------------------

type dhEmuState struct {
	*emu.Wavefront
	cur *insts.Inst
}

func (s *dhEmuState) Inst() *insts.Inst { return s.cur }

type dhStore struct {
	name string
	st   emu.InstEmuState
	set  func(*insts.Inst)
	getS func(i int) uint32
	putS func(i int, v uint32)
	m0   func() uint32
	setM func(uint32)
}

// ---- snapshots ----------------------------------------------------------------

type opSnap struct {
	op    *insts.Operand
	what  string // instruction and field
	seq   int
	typ   insts.OperandType
	reg   *insts.Reg
	rc    int
	iv    int64
	fv    float64
	lc    uint32
	dirty bool
}

func snapOf(op *insts.Operand, what string, seq int) *opSnap {
	return &opSnap{op: op, what: what, seq: seq, typ: op.OperandType, reg: op.Register, rc: op.RegCount, iv: op.IntValue, fv: op.FloatValue, lc: op.LiteralConstant}
}

func (s *opSnap) changed() string {
	o := s.op
	switch {
	case o.OperandType != s.typ:
		return fmt.Sprintf("OperandType %v -> %v", s.typ, o.OperandType)
	case o.Register != s.reg:
		return "Register changed"
	case o.RegCount != s.rc:
		return fmt.Sprintf("RegCount %d -> %d", s.rc, o.RegCount)
	case o.IntValue != s.iv:
		return fmt.Sprintf("IntValue %d -> %d", s.iv, o.IntValue)
	case o.FloatValue != s.fv:
		return fmt.Sprintf("FloatValue %v -> %v", s.fv, o.FloatValue)
	case o.LiteralConstant != s.lc:
		return fmt.Sprintf("LiteralConstant %#x -> %#x", s.lc, o.LiteralConstant)
	}
	return ""
}

func opRegName(op *insts.Operand) string {
	if op.OperandType == insts.RegOperand && op.Register != nil {
		n := op.Register.Name
		if op.Register.IsSReg() {
			return "sgpr"
		}
		if op.Register.IsVReg() {
			return "vgpr"
		}
		return n
	}
	return "constant"
}

// ---- scenario -------------------------------------------------------------------

type dhScenario struct {
	Name  string `json:"name"`
	Seed  uint64 `json:"seed"`
	Arch  string `json:"arch"`
	Canon bool   `json:"canonical"`
	N     int    `json:"instructions"`
}

// long-lived decoders, one per architecture (a compute unit keeps its decoder
// for its whole life)
var dhDecoders = map[string]*insts.Disassembler{}

func dhDecoder(arch string) *insts.Disassembler {
	if d := dhDecoders[arch]; d != nil {
		return d
	}
	d := insts.NewDisassembler()
	d.IsCDNA3 = arch == "cdna3"
	dhDecoders[arch] = d
	return d
}

// seen64 records, process-wide, that a 64-bit use of vcc / exec was decoded.
var dhSeen64 = map[int]bool{}

var halves = []int{cVCCLO, cVCCHI, cEXECLO, cEXECHI}

func dhProgram(sc *dhScenario) []dhIns {
	r := vlib.NewPRNG(sc.Seed)
	var p []dhIns
	sg := func() int { return 2 + r.Intn(28) }
	sp := func() int { return 2 + 2*r.Intn(14) }
	konst := func() int { return []int{128, 129, 130, 192, 193, 208, 128 + r.Intn(65)}[r.Intn(7)] }
	half32 := func() dhIns {
		h := halves[r.Intn(4)]
		if r.Chance(1, 8) {
			h = cM0
		}
		switch r.Intn(8) {
		case 0, 1:
			return dhIns{Kind: "smov32", Dst: h, S0: sg()}
		case 2:
			return dhIns{Kind: "smov32", Dst: h, S0: cLit, Lit: r.Uint32() | 1}
		case 3:
			return dhIns{Kind: "smov32", Dst: sg(), S0: h}
		case 4:
			if h == cVCCLO { // the listed finding concerns 64-bit answers for vcc_lo sources in emulation; s_and would fold them into SCC
				h = cEXECLO
			}
			return dhIns{Kind: "sand32", Dst: sg(), S0: h, S1: sg()}
		case 5:
			return dhIns{Kind: "sand32", Dst: h, S0: sg(), S1: konst()}
		case 6:
			return dhIns{Kind: "smovk", Dst: h, Lit: uint32(r.Intn(1 << 16))}
		}
		if h == cVCCLO {
			h = cVCCHI
		}
		return dhIns{Kind: "scmp", S0: h, S1: sg()}
	}
	pair64 := func() dhIns {
		q := []int{cVCCLO, cEXECLO}[r.Intn(2)]
		switch r.Intn(7) {
		case 0, 1:
			return dhIns{Kind: "smov64", Dst: q, S0: sp()}
		case 2:
			return dhIns{Kind: "smov64", Dst: sp(), S0: q}
		case 3:
			return dhIns{Kind: "sand64", Dst: q, S0: sp(), S1: sp()}
		case 4:
			return dhIns{Kind: "sand64", Dst: sp(), S0: q, S1: []int{cVCCLO, cEXECLO, sp()}[r.Intn(3)]}
		case 5:
			return dhIns{Kind: "vcmp64", Dst: []int{cVCCLO, sp()}[r.Intn(2)]}
		}
		return dhIns{Kind: "vcmp32", S0: []int{sg(), konst(), cVCCHI, cEXECHI}[r.Intn(4)]}
	}
	filler := func() dhIns {
		switch r.Intn(5) {
		case 0:
			return dhIns{Kind: "smov32", Dst: sg(), S0: konst()}
		case 1:
			return dhIns{Kind: "smov64", Dst: sp(), S0: konst()}
		case 2:
			return dhIns{Kind: "smov32", Dst: sg(), S0: cLit, Lit: r.Uint32()}
		case 3:
			return dhIns{Kind: "sand32", Dst: sg(), S0: sg(), S1: cLit, Lit: r.Uint32()}
		}
		return dhIns{Kind: "smov64", Dst: sp(), S0: sp()}
	}
	if sc.Canon {
		// phase A: halves alone, before this process has decoded any 64-bit use
		for _, h := range halves {
			p = append(p, dhIns{Kind: "smov32", Dst: h, S0: 4}, dhIns{Kind: "smov32", Dst: 5, S0: h})
		}
		// the seed demo's shape, for vcc and for exec
		for _, q := range []int{cVCCLO, cEXECLO} {
			p = append(p, dhIns{Kind: "smov64", Dst: q, S0: 2}, dhIns{Kind: "smov32", Dst: q, S0: 4}, dhIns{Kind: "smov32", Dst: 5, S0: q + 1},
				dhIns{Kind: "smov64", Dst: q, S0: 2}, dhIns{Kind: "smov32", Dst: q + 1, S0: 4}, dhIns{Kind: "smov32", Dst: 6, S0: q},
				dhIns{Kind: "smov64", Dst: 8, S0: q})
		}
		p = append(p, dhIns{Kind: "smov64", Dst: cEXECLO, S0: 193}, // exec = -1
			dhIns{Kind: "vcmp32", S0: 130}, dhIns{Kind: "smov32", Dst: cVCCHI, S0: 4}, dhIns{Kind: "smov64", Dst: 10, S0: cVCCLO},
			dhIns{Kind: "vcmp64", Dst: cVCCLO}, dhIns{Kind: "smov32", Dst: cVCCLO, S0: cLit, Lit: 0x13572468}, dhIns{Kind: "smov64", Dst: 12, S0: cVCCLO},
			dhIns{Kind: "sand32", Dst: cEXECLO, S0: cEXECLO, S1: 4}, dhIns{Kind: "smov64", Dst: 14, S0: cEXECLO},
			dhIns{Kind: "smovk", Dst: cEXECHI, Lit: 0x7fff}, dhIns{Kind: "smov64", Dst: 16, S0: cEXECLO})
	}
	for len(p) < sc.N {
		switch x := r.Intn(10); {
		case x < 4:
			p = append(p, half32())
		case x < 7:
			p = append(p, pair64())
		default:
			p = append(p, filler())
		}
	}
	return p
}

func runDecodeHistory(rec vlib.Recorder, sc *dhScenario) (fired bool) {
	rec.Eval()
	cnt := map[string]int64{}
	defer func() {
		for k, v := range cnt {
			rec.Count(k, v)
		}
	}()
	prog := dhProgram(sc)
	var listing []string
	wit := func(key string, extra map[string]any) any {
		if _, dup := witnessed.LoadOrStore(key, struct{}{}); dup {
			return nil
		}
		w := map[string]any{"decode_history": sc, "listing": listing}
		for k, v := range extra {
			w[k] = v
		}
		return w
	}
	viol := func(key, what string) {
		fired = true
		rec.Violation(key, what+fmt.Sprintf(" [decode history %s, instruction %d]", sc.Name, len(listing)-1), wit(key, nil))
	}
	dec := dhDecoder(sc.Arch)
	var alu emu.ALU = emu.NewALU(nil)
	if sc.Arch == "cdna3" {
		alu = cdna3.NewALU(nil)
	}

	// the two stores
	m := &dhModel{exec: ^uint64(0)}
	ew := &dhEmuState{Wavefront: emu.NewWavefront(kernels.NewWavefront())}
	unit := cu.MakeBuilder().WithEngine(sim.NewSerialEngine()).WithFreq(1 * sim.GHz).Build("CU")
	twf := wavefront.NewWavefront(kernels.NewWavefront())
	twf.SIMDID, twf.SRegOffset, twf.VRegOffset = 1, 3*16*4, 2*4*4
	twf.RegAccessor = &cu.CURegFileAccessor{CU: unit, WF: twf}
	rawS := func(i int) []byte {
		b := make([]byte, 4)
		unit.SRegFile.Read(cu.RegisterAccess{Reg: insts.SReg(0), RegCount: 1, WaveOffset: twf.SRegOffset + 4*i, Data: b})
		return b
	}
	stores := []*dhStore{
		{name: "emu", st: ew, set: func(i *insts.Inst) { ew.cur = i },
			getS: func(i int) uint32 { return binary.LittleEndian.Uint32(ew.SRegFile[4*i:]) },
			putS: func(i int, v uint32) { binary.LittleEndian.PutUint32(ew.SRegFile[4*i:], v) },
			m0:   func() uint32 { return ew.M0 }, setM: func(v uint32) { ew.M0 = v }},
		{name: "timing", st: twf, set: func(i *insts.Inst) { twf.SetDynamicInst(wavefront.NewInst(i)) },
			getS: func(i int) uint32 { return binary.LittleEndian.Uint32(rawS(i)) },
			putS: func(i int, v uint32) {
				unit.SRegFile.Write(cu.RegisterAccess{Reg: insts.SReg(0), RegCount: 1, WaveOffset: twf.SRegOffset + 4*i, Data: le32(v)})
			},
			m0: func() uint32 { return twf.M0 }, setM: func(v uint32) { twf.M0 = v }},
	}
	r := vlib.NewPRNG(sc.Seed).Fork("state")
	for i := range m.s {
		m.s[i] = r.Uint32() | 0x01000100
	}
	m.vcc, m.m0, m.scc = r.Uint64()|0x0100000001, r.Uint32(), 0
	for l := 0; l < 64; l++ {
		m.v[0][l], m.v[1][l] = uint32(r.Intn(4)), uint32(r.Intn(4))
	}
	for _, s := range stores {
		for i := range m.s {
			s.putS(i, m.s[i])
		}
		s.st.SetVCC(m.vcc)
		s.st.SetEXEC(m.exec)
		s.st.SetSCC(m.scc)
		s.setM(m.m0)
		for l := 0; l < 64; l++ {
			s.st.WriteOperand(insts.NewVRegOperand(0, 0, 1), l, uint64(m.v[0][l]))
			s.st.WriteOperand(insts.NewVRegOperand(1, 1, 1), l, uint64(m.v[1][l]))
		}
	}

	var snaps []*opSnap
	first := map[string][]*opSnap{} // encoding -> snapshots of its first decode in this history
	for n, in := range prog {
		listing = append(listing, in.String())
		ws := in.words()
		inst, err := dec.Decode(wordsToBytes(ws))
		if err != nil {
			rec.Inconclusive(fmt.Sprintf("decode history %s: %s %x does not decode: %v", sc.Name, in, ws, err))
			return
		}
		cnt["dh.instructions_decoded"]++
		// (1a) nothing decoded earlier may have changed
		for _, s := range snaps {
			cnt["dh.operand_objects_rechecked"]++
			if s.dirty {
				continue
			}
			if ch := s.changed(); ch != "" {
				s.dirty = true
				viol(fmt.Sprintf("C07|decode|operand-changed-after-later-decode|%s", opRegName(s.op)),
					fmt.Sprintf("%s decoder: operand %s, decoded as instruction %d, changed when %s was decoded: %s (the operand object is shared between instructions)",
						sc.Arch, s.what, s.seq, in, ch))
			}
		}
		// (1b) snapshot; the same encoding must decode to the same operands as before
		var mine []*opSnap
		key := fmt.Sprintf("%x", ws)
		for _, io := range in.isa() {
			op := fieldOf(inst, io.Field)
			if op == nil {
				continue
			}
			sn := snapOf(op, fmt.Sprintf("%s.%s (%s)", in, io.Field, op.String()), n)
			mine = append(mine, sn)
			// the width the operand object carries against the width the encoding has
			if op.OperandType == insts.RegOperand && max(op.RegCount, 1) != io.Width {
				cnt["dh.operand_width_differs_from_encoding"]++
			}
		}
		if prev, ok := first[key]; ok && len(prev) == len(mine) {
			cnt["dh.same_encoding_redecoded"]++
			for k := range mine {
				a, b := prev[k], mine[k]
				if a.typ != b.typ || a.reg != b.reg || a.rc != b.rc || a.iv != b.iv || a.lc != b.lc {
					viol(fmt.Sprintf("C07|decode|same-encoding-decodes-differently-after-other-decodes|%s", opRegName(b.op)),
						fmt.Sprintf("%s decoder: %s gave RegCount %d as instruction %d and RegCount %d now (type %v/%v): the operand depends on what was decoded in between",
							sc.Arch, b.what, a.rc, a.seq, b.rc, a.typ, b.typ))
					break
				}
			}
		} else {
			first[key] = mine
		}
		snaps = append(snaps, mine...)

		// which half accesses follow a 64-bit decode of the same register
		for _, io := range in.isa() {
			if io.Width == 2 && (io.Code == cVCCLO || io.Code == cEXECLO) {
				dhSeen64[io.Code] = true
			}
			if io.Width == 1 && (io.Code == cVCCLO || io.Code == cVCCHI) && dhSeen64[cVCCLO] {
				cnt["dh.half_accesses_after_64bit_decode"]++
			}
			if io.Width == 1 && (io.Code == cEXECLO || io.Code == cEXECHI) && dhSeen64[cEXECLO] {
				cnt["dh.half_accesses_after_64bit_decode"]++
			}
		}

		// (2) direct reads of the source operands, then execution, on both stores
		old := *m
		m.exe(in)
		for _, s := range stores {
			for _, io := range in.isa() {
				op := fieldOf(inst, io.Field)
				if io.Field == "Dst" || op == nil || op.OperandType != insts.RegOperand || io.Code >= 256 {
					continue
				}
				want := uint64(old.r32(io.Code, in.Lit))
				if io.Width == 2 {
					want = old.r64(io.Code)
				}
				got, pan := dhRead(s.st, op)
				cnt["dh.direct_operand_reads"]++
				if s.name == "emu" && io.Code == cVCCLO && io.Width == 1 && op.RegCount == 0 {
					got &= 0xffffffff // listed finding C07|emu|read|vcclo|regcount0|wrong-half: 64-bit answer for RegCount-0 vcc_lo
				}
				if pan == "" && got == want {
					continue
				}
				reg := map[int]string{cVCCLO: "vcc", cVCCHI: "vcc", cEXECLO: "exec", cEXECHI: "exec", cM0: "m0"}[io.Code]
				k := fmt.Sprintf("C07|%s|decoded-operand-read|%s|wrong-value", s.name, codeName(io.Code, io.Width))
				if reg != "" && io.Width == 1 && pan == "" && (got == old.r64(io.Code&^1) || got>>32 != 0) {
					k = fmt.Sprintf("C07|%s|half-read-returns-pair|%s", s.name, reg)
				}
				viol(k, fmt.Sprintf("%s store: ReadOperand of %s.%s (a %d-dword operand by its encoding; the decoder's operand carries RegCount %d) returned %#x, the cells hold %#x %s",
					s.name, in, io.Field, io.Width, op.RegCount, got, want, pan))
			}
			s.set(inst)
			pan := func() (p string) {
				defer func() {
					if rr := recover(); rr != nil {
						p = fmt.Sprint(rr)
					}
				}()
				alu.Run(s.st)
				return ""
			}()
			cnt["dh.instructions_executed"]++
			if pan != "" {
				viol(fmt.Sprintf("C07|%s|decoded-sequence|%s|panic", s.name, in.Kind), fmt.Sprintf("%s store: executing %s panicked: %s", s.name, in, pan))
			}
			dhJudge(s, m, &old, in, viol)
		}
	}
	cnt["dh.histories"]++
	cnt["dh.histories."+sc.Arch]++
	if !fired {
		rec.Nontrivial("decode-history|" + sc.Name)
	}
	return
}

func dhRead(st emu.InstEmuState, op *insts.Operand) (v uint64, pan string) {
	defer func() {
		if r := recover(); r != nil {
			pan = fmt.Sprint(r)
		}
	}()
	return st.ReadOperand(op, 0), ""
}

// dhJudge compares the store with the model after one instruction and repairs
// the store so that the sequence can go on.
func dhJudge(s *dhStore, m, old *dhModel, in dhIns, viol func(key, what string)) {
	halfDst := func() (reg string, other func(uint64) uint32, otherName string) {
		if in.Kind == "vcmp32" || in.Kind == "vcmp64" || in.Kind == "smov64" || in.Kind == "sand64" || in.Kind == "scmp" {
			return "", nil, ""
		}
		switch in.Dst {
		case cVCCLO:
			return "vcc", func(v uint64) uint32 { return uint32(v >> 32) }, "vcc_hi"
		case cVCCHI:
			return "vcc", func(v uint64) uint32 { return uint32(v) }, "vcc_lo"
		case cEXECLO:
			return "exec", func(v uint64) uint32 { return uint32(v >> 32) }, "exec_hi"
		case cEXECHI:
			return "exec", func(v uint64) uint32 { return uint32(v) }, "exec_lo"
		}
		return "", nil, ""
	}
	srcHalf := ""
	for _, io := range in.isa() {
		if io.Field != "Dst" && io.Width == 1 {
			switch io.Code {
			case cVCCLO, cVCCHI:
				srcHalf = "vcc"
			case cEXECLO, cEXECHI:
				srcHalf = "exec"
			}
		}
	}
	for _, q := range []struct {
		name     string
		got, mod uint64
		fix      func()
	}{
		{"vcc", s.st.VCC(), m.vcc, func() { s.st.SetVCC(m.vcc) }},
		{"exec", s.st.EXEC(), m.exec, func() { s.st.SetEXEC(m.exec) }},
	} {
		if q.got == q.mod {
			continue
		}
		reg, other, otherName := halfDst()
		key := fmt.Sprintf("C07|%s|decoded-sequence|%s|%s-differs-from-model", s.name, in.Kind, q.name)
		if reg == q.name && other(q.got) != other(q.mod) {
			key = fmt.Sprintf("C07|%s|half-write-disturbs-other-half|%s", s.name, reg)
		}
		viol(key, fmt.Sprintf("%s store: after %s %s is %#016x, the ISA gives %#016x (before: %#016x)%s", s.name, in, q.name, q.got, q.mod,
			map[bool]uint64{true: old.vcc, false: old.exec}[q.name == "vcc"],
			map[bool]string{true: "; the 32-bit write changed " + otherName, false: ""}[reg == q.name]))
		q.fix()
	}
	if s.st.SCC() != m.scc {
		viol(fmt.Sprintf("C07|%s|decoded-sequence|%s|scc-differs-from-model", s.name, in.Kind),
			fmt.Sprintf("%s store: after %s SCC is %d, the ISA gives %d", s.name, in, s.st.SCC(), m.scc))
		s.st.SetSCC(m.scc)
	}
	if s.m0() != m.m0 {
		viol(fmt.Sprintf("C07|%s|decoded-sequence|%s|m0-differs-from-model", s.name, in.Kind),
			fmt.Sprintf("%s store: after %s M0 is %#x, the ISA gives %#x", s.name, in, s.m0(), m.m0))
		s.setM(m.m0)
	}
	for i := range m.s {
		got := s.getS(i)
		if got == m.s[i] {
			continue
		}
		key := fmt.Sprintf("C07|%s|decoded-sequence|%s|sgpr-differs-from-model", s.name, in.Kind)
		if srcHalf != "" && (i == in.Dst) {
			pair := map[string]uint64{"vcc": old.vcc, "exec": old.exec}[srcHalf]
			if got == uint32(pair) || got == uint32(pair>>32) {
				key = fmt.Sprintf("C07|%s|half-read-returns-pair|%s", s.name, srcHalf)
			}
		}
		viol(key, fmt.Sprintf("%s store: after %s s%d holds %#x, the ISA gives %#x", s.name, in, i, got, m.s[i]))
		s.putS(i, m.s[i])
	}
}

func decodeHistoryScenarios(c *vlib.Check) []*dhScenario {
	out := []*dhScenario{
		{Name: "dh-canon-gcn3", Seed: 0xD0C0DE, Arch: "gcn3", Canon: true, N: 160},
		{Name: "dh-canon-cdna3", Seed: 0xD0C0DF, Arch: "cdna3", Canon: true, N: 160},
	}
	base := c.Rand("decode-history")
	for i := 0; i < c.N(30, 600); i++ {
		out = append(out, &dhScenario{Name: fmt.Sprintf("dh%d", i), Seed: base.ForkN("d", i).Uint64(), Arch: []string{"gcn3", "cdna3"}[i%2], N: c.N(200, 500)})
	}
	return out
}
