package main

// A small instruction vocabulary shared by the path-mixing layer (pathmix.go:
// single instructions handed to the real scheduler of a real compute unit) and
// the end-to-end chase kernels (chase.go): each pIns can be assembled with
// vlib/gcnasm and interpreted on the host (ISA semantics, loads complete at
// once) over an abstract register store.

import (
	"encoding/binary"
	"fmt"

	g "verifharness/vlib/gcnasm"
)

type pIns struct {
	Op  string `json:"op"`
	D   int    `json:"d"`             // destination register (first of W for loads), data register of a store
	A   int    `json:"a"`             // first source / base pair / address pair
	B   int    `json:"b,omitempty"`   // second source / offset register / vsrc1
	W   int    `json:"w,omitempty"`   // dwords moved by a load or store
	Imm uint32 `json:"imm,omitempty"` // immediate offset, literal or shift count
	Src string `json:"src,omitempty"` // "s" | "v" | "lit" | "imm": what the variable source is
}

func (i pIns) String() string {
	r := func(p string, n, w int) string {
		if w <= 1 {
			return fmt.Sprintf("%s%d", p, n)
		}
		return fmt.Sprintf("%s[%d:%d]", p, n, n+w-1)
	}
	src := func() string {
		switch i.Src {
		case "s":
			return r("s", i.A, 1)
		case "v":
			return r("v", i.A, 1)
		}
		return fmt.Sprintf("%#x", i.Imm)
	}
	switch i.Op {
	case "s_load":
		off := fmt.Sprintf("%#x", i.Imm)
		if i.Src == "s" {
			off = r("s", i.B, 1)
		}
		return fmt.Sprintf("s_load_dwordx%d %s, %s, %s", i.W, r("s", i.D, i.W), r("s", i.A, 2), off)
	case "flat_load":
		return fmt.Sprintf("flat_load_dwordx%d %s, %s", i.W, r("v", i.D, i.W), r("v", i.A, 2))
	case "flat_store":
		return fmt.Sprintf("flat_store_dwordx%d %s, %s", i.W, r("v", i.A, 2), r("v", i.D, i.W))
	case "s_mov_b32":
		return fmt.Sprintf("s_mov_b32 s%d, %s", i.D, src())
	case "s_mov_b64":
		return fmt.Sprintf("s_mov_b64 %s, %s", r("s", i.D, 2), r("s", i.A, 2))
	case "s_mov_exec":
		return fmt.Sprintf("s_mov_b64 exec, %d", i.Imm)
	case "v_mov_b32":
		return fmt.Sprintf("v_mov_b32 v%d, %s", i.D, src())
	case "s_cmp_eq_u32", "s_cmp_lg_u32":
		if i.Src == "s" {
			return fmt.Sprintf("%s s%d, s%d", i.Op, i.A, i.B)
		}
		return fmt.Sprintf("%s s%d, %#x", i.Op, i.A, i.Imm)
	case "s_cselect_b32":
		return fmt.Sprintf("s_cselect_b32 s%d, 1, 0", i.D)
	case "s_add_u32", "s_addc_u32":
		if i.Src == "s" {
			return fmt.Sprintf("%s s%d, s%d, s%d", i.Op, i.D, i.A, i.B)
		}
		return fmt.Sprintf("%s s%d, s%d, %#x", i.Op, i.D, i.A, i.Imm)
	case "s_lshl_b32":
		return fmt.Sprintf("s_lshl_b32 s%d, s%d, %d", i.D, i.A, i.Imm)
	case "v_lshlrev_b32":
		return fmt.Sprintf("v_lshlrev_b32 v%d, %d, v%d", i.D, i.Imm, i.A)
	case "v_add_u32":
		if i.Src == "s" {
			return fmt.Sprintf("v_add_u32 v%d, s%d, v%d", i.D, i.A, i.B)
		}
		return fmt.Sprintf("v_add_u32 v%d, %#x, v%d", i.D, i.Imm, i.B)
	case "v_readfirstlane_b32":
		return fmt.Sprintf("v_readfirstlane_b32 s%d, v%d", i.D, i.A)
	case "ds_read_b32":
		return fmt.Sprintf("ds_read_b32 v%d, v%d offset:%d", i.D, i.A, i.Imm)
	case "ds_write_b32":
		return fmt.Sprintf("ds_write_b32 v%d, v%d offset:%d", i.A, i.D, i.Imm)
	case "ds_write2_b32":
		return fmt.Sprintf("ds_write2_b32 v%d, v%d, v%d offset0:%d offset1:%d", i.A, i.D, i.B, i.Imm&0xff, i.Imm>>8)
	case "ds_write2_b64":
		return fmt.Sprintf("ds_write2_b64 v%d, %s, %s offset0:%d offset1:%d", i.A, r("v", i.D, 2), r("v", i.B, 2), i.Imm&0xff, i.Imm>>8)
	}
	return i.Op
}

func opc(f g.Format, name string) int {
	return g.MustOpcode(g.GCN3, f, name)
}

func immOrLit(v uint32) g.Operand {
	if v <= 64 {
		return g.Imm(int(v))
	}
	return g.Lit(v)
}

var sloadOp = map[int]int{1: g.OpSLoadDword, 2: g.OpSLoadDwordx2, 4: g.OpSLoadDwordx4, 8: g.OpSLoadDwordx8, 16: g.OpSLoadDwordx16}
var flatLoadOp = map[int]int{1: g.OpFlatLoadDword, 2: g.OpFlatLoadDwordx2, 3: g.OpFlatLoadDwordx3, 4: g.OpFlatLoadDwordx4}
var flatStoreOp = map[int]int{1: g.OpFlatStoreDword, 2: g.OpFlatStoreDwordx2, 3: g.OpFlatStoreDwordx3, 4: g.OpFlatStoreDwordx4}

// desc assembles the instruction (GCN3).
func (i pIns) desc() g.Desc {
	ssrc := func() g.Operand { // the variable scalar source
		if i.Src == "s" {
			return g.S(i.B)
		}
		return immOrLit(i.Imm)
	}
	switch i.Op {
	case "s_load":
		if i.Src == "s" {
			return g.SMEMLoadSGPR(sloadOp[i.W], g.SRange(i.D, i.W), g.SRange(i.A, 2), g.S(i.B))
		}
		return g.SMEMLoadImm(sloadOp[i.W], g.SRange(i.D, i.W), g.SRange(i.A, 2), int64(i.Imm))
	case "flat_load":
		// SEG = flat, SADDR = off: the GCN3 decoder ignores the field, the CDNA3 decoder needs it for a 64-bit VGPR address
		return g.Desc{Arch: g.CDNA3, Format: g.FLAT, Seg: g.SegFlat, Opcode: flatLoadOp[i.W], Dst: g.VRange(i.D, i.W), Addr: g.VRange(i.A, 2), SAddr: g.Off}
	case "flat_store":
		return g.Desc{Arch: g.CDNA3, Format: g.FLAT, Seg: g.SegFlat, Opcode: flatStoreOp[i.W], Addr: g.VRange(i.A, 2), Data: g.VRange(i.D, i.W), SAddr: g.Off}
	case "ds_write2_b32":
		return g.DSWrite2(g.OpDSWrite2B32, g.V(i.A), g.V(i.D), g.V(i.B), uint8(i.Imm), uint8(i.Imm>>8))
	case "ds_write2_b64":
		return g.DSWrite2(g.OpDSWrite2B64, g.V(i.A), g.VRange(i.D, 2), g.VRange(i.B, 2), uint8(i.Imm), uint8(i.Imm>>8))
	case "ds_write_b32":
		return g.DSWrite(g.OpDSWriteB32, g.V(i.A), g.V(i.D), uint16(i.Imm))
	case "s_mov_b32":
		if i.Src == "s" {
			return g.MkSOP1(opc(g.SOP1, "s_mov_b32"), g.S(i.D), g.S(i.A))
		}
		return g.MkSOP1(opc(g.SOP1, "s_mov_b32"), g.S(i.D), immOrLit(i.Imm))
	case "s_mov_b64":
		return g.MkSOP1(opc(g.SOP1, "s_mov_b64"), g.SRange(i.D, 2), g.SRange(i.A, 2))
	case "s_mov_exec":
		return g.MkSOP1(opc(g.SOP1, "s_mov_b64"), g.EXEC, g.Imm(int(i.Imm)))
	case "v_mov_b32":
		switch i.Src {
		case "s":
			return g.MkVOP1(opc(g.VOP1, "v_mov_b32"), g.V(i.D), g.S(i.A))
		case "v":
			return g.MkVOP1(opc(g.VOP1, "v_mov_b32"), g.V(i.D), g.V(i.A))
		}
		return g.MkVOP1(opc(g.VOP1, "v_mov_b32"), g.V(i.D), immOrLit(i.Imm))
	case "s_cmp_eq_u32", "s_cmp_lg_u32":
		return g.MkSOPC(opc(g.SOPC, i.Op), g.S(i.A), ssrc())
	case "s_cselect_b32":
		return g.MkSOP2(opc(g.SOP2, "s_cselect_b32"), g.S(i.D), g.Imm(1), g.Imm(0))
	case "s_add_u32", "s_addc_u32":
		return g.MkSOP2(opc(g.SOP2, i.Op), g.S(i.D), g.S(i.A), ssrc())
	case "s_lshl_b32":
		return g.MkSOP2(opc(g.SOP2, "s_lshl_b32"), g.S(i.D), g.S(i.A), g.Imm(int(i.Imm)))
	case "v_lshlrev_b32":
		return g.MkVOP2(opc(g.VOP2, "v_lshlrev_b32"), g.V(i.D), g.Imm(int(i.Imm)), g.V(i.A))
	case "v_add_u32":
		if i.Src == "s" {
			return g.MkVOP2(opc(g.VOP2, "v_add_u32"), g.V(i.D), g.S(i.A), g.V(i.B))
		}
		return g.MkVOP2(opc(g.VOP2, "v_add_u32"), g.V(i.D), immOrLit(i.Imm), g.V(i.B))
	case "v_readfirstlane_b32":
		return g.MkVOP1(opc(g.VOP1, "v_readfirstlane_b32"), g.S(i.D), g.V(i.A))
	case "ds_read_b32":
		return g.DSRead(g.OpDSReadB32, g.V(i.D), g.V(i.A), uint16(i.Imm))
	case "s_waitcnt":
		return g.WaitcntAll()
	case "s_nop":
		return g.Nop(0)
	case "s_endpgm":
		return g.Endpgm()
	}
	panic("harness: unknown pIns " + i.Op)
}

// ---------------------------------------------------------------------------
// host semantics

// hregs is the register store of one wavefront as the host interpreter sees it.
type hregs interface {
	S(i int) uint32
	SetS(i int, v uint32)
	V(lane, i int) uint32
	SetV(lane, i int, v uint32)
	EXEC() uint64
	SetEXEC(v uint64)
	VCC() uint64
	SetVCC(v uint64)
	SCC() byte
	SetSCC(v byte)
}

type hmem interface {
	R32(addr uint64) uint32
	W32(addr uint64, v uint32)
}

func pairOf(r hregs, i int) uint64 { return uint64(r.S(i)) | uint64(r.S(i+1))<<32 }

// sloadAddr is the address an s_load reads from, given the register contents.
func (i pIns) sloadAddr(r hregs) uint64 {
	off := uint64(i.Imm)
	if i.Src == "s" {
		off = uint64(r.S(i.B))
	}
	return pairOf(r, i.A) + off
}

// hostExec applies the ISA semantics of i (memory operations complete at once,
// as in emulation mode).
func hostExec(i pIns, r hregs, m hmem, lds []byte) {
	active := func(l int) bool { return r.EXEC()>>uint(l)&1 == 1 }
	ssrc := func() uint32 {
		if i.Src == "s" {
			return r.S(i.B)
		}
		return i.Imm
	}
	b2s := func(b bool) byte {
		if b {
			return 1
		}
		return 0
	}
	switch i.Op {
	case "s_load":
		addr := i.sloadAddr(r)
		vals := make([]uint32, i.W)
		for k := range vals {
			vals[k] = m.R32(addr + uint64(4*k))
		}
		for k, v := range vals {
			r.SetS(i.D+k, v)
		}
	case "flat_load":
		for l := 0; l < 64; l++ {
			if !active(l) {
				continue
			}
			addr := uint64(r.V(l, i.A)) | uint64(r.V(l, i.A+1))<<32
			vals := make([]uint32, i.W)
			for k := range vals {
				vals[k] = m.R32(addr + uint64(4*k))
			}
			for k, v := range vals {
				r.SetV(l, i.D+k, v)
			}
		}
	case "flat_store":
		for l := 0; l < 64; l++ {
			if !active(l) {
				continue
			}
			addr := uint64(r.V(l, i.A)) | uint64(r.V(l, i.A+1))<<32
			for k := 0; k < i.W; k++ {
				m.W32(addr+uint64(4*k), r.V(l, i.D+k))
			}
		}
	case "s_mov_b32":
		if i.Src == "s" {
			r.SetS(i.D, r.S(i.A))
		} else {
			r.SetS(i.D, i.Imm)
		}
	case "s_mov_b64":
		lo, hi := r.S(i.A), r.S(i.A+1)
		r.SetS(i.D, lo)
		r.SetS(i.D+1, hi)
	case "s_mov_exec":
		r.SetEXEC(uint64(i.Imm))
	case "v_mov_b32":
		for l := 0; l < 64; l++ {
			if !active(l) {
				continue
			}
			switch i.Src {
			case "s":
				r.SetV(l, i.D, r.S(i.A))
			case "v":
				r.SetV(l, i.D, r.V(l, i.A))
			default:
				r.SetV(l, i.D, i.Imm)
			}
		}
	case "s_cmp_eq_u32":
		r.SetSCC(b2s(r.S(i.A) == ssrc()))
	case "s_cmp_lg_u32":
		r.SetSCC(b2s(r.S(i.A) != ssrc()))
	case "s_cselect_b32":
		r.SetS(i.D, uint32(r.SCC()))
	case "s_add_u32":
		sum := uint64(r.S(i.A)) + uint64(ssrc())
		r.SetS(i.D, uint32(sum))
		r.SetSCC(b2s(sum>>32 != 0))
	case "s_addc_u32":
		sum := uint64(r.S(i.A)) + uint64(ssrc()) + uint64(r.SCC())
		r.SetS(i.D, uint32(sum))
		r.SetSCC(b2s(sum>>32 != 0))
	case "s_lshl_b32":
		v := r.S(i.A) << (i.Imm & 31)
		r.SetS(i.D, v)
		r.SetSCC(b2s(v != 0))
	case "v_lshlrev_b32":
		for l := 0; l < 64; l++ {
			if active(l) {
				r.SetV(l, i.D, r.V(l, i.A)<<(i.Imm&31))
			}
		}
	case "v_add_u32":
		vcc := r.VCC()
		for l := 0; l < 64; l++ {
			if !active(l) {
				continue
			}
			a := uint64(i.Imm)
			if i.Src == "s" {
				a = uint64(r.S(i.A))
			}
			sum := a + uint64(r.V(l, i.B))
			r.SetV(l, i.D, uint32(sum))
			vcc &^= 1 << uint(l)
			if sum>>32 != 0 {
				vcc |= 1 << uint(l)
			}
		}
		r.SetVCC(vcc)
	case "v_readfirstlane_b32":
		lane := 0
		for l := 0; l < 64; l++ {
			if active(l) {
				lane = l
				break
			}
		}
		r.SetS(i.D, r.V(lane, i.A))
	case "ds_read_b32":
		for l := 0; l < 64; l++ {
			if !active(l) {
				continue
			}
			a := r.V(l, i.A) + i.Imm
			r.SetV(l, i.D, uint32(lds[a])|uint32(lds[a+1])<<8|uint32(lds[a+2])<<16|uint32(lds[a+3])<<24)
		}
	case "ds_write_b32":
		for l := 0; l < 64; l++ {
			if active(l) {
				binary.LittleEndian.PutUint32(lds[r.V(l, i.A)+i.Imm:], r.V(l, i.D))
			}
		}
	case "ds_write2_b32", "ds_write2_b64":
		n := 1
		if i.Op == "ds_write2_b64" {
			n = 2
		}
		for l := 0; l < 64; l++ {
			if !active(l) {
				continue
			}
			base := r.V(l, i.A)
			for k := 0; k < n; k++ { // DATA0 first, then DATA1
				binary.LittleEndian.PutUint32(lds[base+(i.Imm&0xff)*uint32(4*n)+uint32(4*k):], r.V(l, i.D+k))
			}
			for k := 0; k < n; k++ {
				binary.LittleEndian.PutUint32(lds[base+(i.Imm>>8)*uint32(4*n)+uint32(4*k):], r.V(l, i.B+k))
			}
		}
	case "s_waitcnt", "s_nop", "s_endpgm":
	default:
		panic("harness: no host semantics for " + i.Op)
	}
}
