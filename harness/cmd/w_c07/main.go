// w_c07: architectural registers as independent cells with ISA-defined
// aliasing (DESIGN.md, C07). Both real register stores -- emu.Wavefront and a
// cu.ComputeUnit's SimpleRegisterFiles behind wavefront.Wavefront +
// CURegFileAccessor, with 2..6 co-resident wavefronts -- are driven with the
// same random operand read/write history and compared with a flat
// array-of-cells model (and thereby with each other) after every operation on
// the operand touched and by full sweeps of every cell of every wavefront.
// Operands come from the real decoder (catalogue.go).
package main

import (
	"encoding/json"
	"fmt"
	"io"
	"log"
	"os"

	"verifharness/vlib"
)

func replay(cat *catalogue, path string) {
	b, err := os.ReadFile(path)
	if err != nil {
		fmt.Println("cannot read replay:", err)
		os.Exit(2)
	}
	var f struct {
		Key     string `json:"key"`
		Witness struct {
			History  string       `json:"history"`
			Style    string       `json:"placement_style"`
			Pl       []wavePlace  `json:"placement"`
			FillSeed uint64       `json:"fill_seed"`
			Ops      []*op        `json:"ops"`
			Scenario *relScenario `json:"scenario"`
		} `json:"witness"`
	}
	if err := json.Unmarshal(b, &f); err != nil {
		fmt.Println("cannot parse replay:", err)
		os.Exit(2)
	}
	if f.Witness.Scenario != nil { // release layer
		rec := &printRec{want: f.Key}
		runRelease(rec, f.Witness.Scenario)
		if rec.hit {
			fmt.Printf("[C07] replay of %s: reproduced key %s\n", path, f.Key)
			os.Exit(1)
		}
		fmt.Printf("[C07] replay of %s: key %s NOT reproduced (%d other deviations)\n", path, f.Key, rec.n)
		os.Exit(0)
	}
	if len(f.Witness.Pl) == 0 {
		fmt.Println("[C07] this replay is a canonical-battery finding; the battery runs on every invocation")
		os.Exit(2)
	}
	h := &history{Name: f.Witness.History + "-replay", Style: f.Witness.Style, Pl: f.Witness.Pl, FillSeed: f.Witness.FillSeed, Ops: f.Witness.Ops}
	for _, o := range h.Ops {
		if err := o.resolve(cat); err != nil {
			fmt.Println("cannot resolve replay op:", err)
			os.Exit(2)
		}
	}
	rec := &printRec{want: f.Key}
	runAndReport(rec, cat, h)
	if rec.hit {
		fmt.Printf("[C07] replay of %s: reproduced key %s (%d deviations in total, known ones included)\n", path, f.Key, rec.n)
		os.Exit(1)
	}
	fmt.Printf("[C07] replay of %s: key %s NOT reproduced (%d other deviations)\n", path, f.Key, rec.n)
	os.Exit(0)
}

type printRec struct {
	n    int
	want string
	hit  bool
}

func (p *printRec) Eval()                        {}
func (p *printRec) Count(string, int64)          {}
func (p *printRec) Distinct(string, string)      {}
func (p *printRec) Nontrivial(string)            {}
func (p *printRec) Sample(any)                   {}
func (p *printRec) Inconclusive(r string)        { fmt.Println("[C07] inconclusive:", r) }
func (p *printRec) Violation(k, w string, x any) { p.ViolationFP(k, "", w, x) }
func (p *printRec) ViolationFP(k, fp, w string, _ any) {
	p.n++
	if k == p.want && !p.hit {
		p.hit = true
		fmt.Printf("[C07] replay VIOLATION key=%s : %s\n", k, w)
	}
}

func main() {
	log.SetOutput(io.Discard) // log.Panicf of the code under test prints before panicking; the panic value is what we keep
	cat, err := buildCatalogue()
	for i, a := range os.Args {
		if a == "--replay" && i+1 < len(os.Args) {
			if err != nil {
				fmt.Println("catalogue:", err)
				os.Exit(2)
			}
			replay(cat, os.Args[i+1])
		}
	}
	c := vlib.Start("C07")
	if err != nil {
		c.Inconclusive("operand harvest failed (the decoder did not yield the intended operand): " + err.Error())
		c.Finish(vlib.FinishOpts{Rule: "n/a"})
	}
	c.Count("catalogue_operands", int64(len(cat.all)))
	for src := range cat.sources {
		c.Distinct("catalogue_source", src)
	}
	c.Set("regcounts_harvested_per_kind", func() map[string][]int {
		out := map[string][]int{}
		for k := kind(0); k < kOther; k++ {
			out[k.String()] = cat.rcs[k]
		}
		return out
	}())

	if os.Getenv("C07_SKIP_BATTERY") == "" { // self-validation knob: do the histories alone catch a seeded break?
		battery(c, cat)
	}

	n := c.N(200, 5000)
	nOps := c.N(400, 2000)
	base := c.Rand("histories")
	vlib.Parallel(n, 0, func(i int) {
		h := genHistory(base.ForkN("h", i), cat, i, nOps)
		if i < 3 {
			c.Sample(map[string]any{"name": h.Name, "placement_style": h.Style, "placement": h.Pl, "ops": len(h.Ops), "first_ops": h.Ops[:4]})
		}
		runAndReport(c, cat, h)
	})

	// second layer: release of registers at wavefront end (release.go)
	rels := canonicalRelease()
	nRel := c.N(58, 1500)
	relBase := c.Rand("release")
	for i := 0; i < nRel; i++ {
		rels = append(rels, genRelScenario(relBase.ForkN("r", i), i))
	}
	if os.Getenv("C07_SKIP_RELEASE") == "" {
		vlib.Parallel(len(rels), 0, func(i int) {
			if i == len(rels)-1 {
				c.Sample(map[string]any{"release_scenario": rels[i]})
			}
			runRelease(c, rels[i])
		})
	}

	minOps := int64(n) * int64(nOps) * 9 / 10
	c.Finish(vlib.FinishOpts{
		Rule: "case = canonical battery step, or history (2..6 co-resident wavefronts at dispatcher-like or hostile register-file offsets; " +
			"dispatch + fill of every cell; then a seeded sequence of operand reads/writes through ReadOperand/WriteOperand/" +
			"ReadOperandBytes/WriteOperandBytes/ReadReg/WriteReg and the typed accessors, operands taken from decoded encodings); " +
			"non-trivial = distinct (backing, register kind, width) for which a read of that kind and width, verified against the model, " +
			"returned cells last written by a verified history write of the same kind and width; " +
			"release layer: case = scenario (1..3 generated kernels with WFSgprCount 8..102 / WIVgprCount 4..256 run to s_endpgm in a real compute unit, " +
			"first-fit or last-fit placement, slots re-used by later work-groups), non-trivial = scenario in which a wavefront ended while another one was live and checked",
		Assumptions: []string{
			"operands stay inside the wavefront's allocation (granule-rounded WFSgprCount/WIVgprCount) and inside s0..s101 / v0..v255; SGPR tuples are aligned as the ISA requires",
			"WriteOperand is used for operands of at most two dwords (a uint64 cannot carry more); byte writes pass exactly the operand's size",
			"wavefront placement arithmetic (16-SGPR and 4-VGPR granules, byte offsets, round-robin SIMD) re-implements resource.CUResourceImpl, which is in an internal package",
			"timing register files are observed raw through SimpleRegisterFile.Read with register s0/v0, lane 0 and the byte address as wave offset",
			"release layer: live wavefronts are observed through raw reads of cu.SRegFile/cu.VRegFile at tracer callbacks (instruction start/end) and through the sums they dump to memory; a window that is not cleared at release is counted, not judged",
		},
		MinNontrivial: 20,
		MinCounters: map[string]int64{
			"ops_total": minOps, "reads_verified": minOps / 2, "writes_verified": minOps / 3, "read_cells_after_history_write": minOps / 20,
			"sweeps": int64(n), "battery_cases": 300, "emu_timing_agree_on_operand": minOps / 3, "wavefronts_placed": int64(2 * n),
			"probe.outside_property_list.explicit_diagnostic": 10,
			"release.scenarios": int64(len(rels)), "release.ends_with_live_neighbours": int64(8 * len(rels)), "release.live_windows_checked": int64(50 * len(rels)),
			"release.dumps_judged": int64(5 * len(rels)), "release.slots_reused": int64(len(rels)), "release.wavefronts_ended_at_once": int64(4 * len(rels)),
		},
	})
}
