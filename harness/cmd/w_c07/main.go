// w_c07: architectural registers as independent cells with ISA-defined
// aliasing (DESIGN.md, C07). Both real register stores -- emu.Wavefront and a
// cu.ComputeUnit's SimpleRegisterFiles behind wavefront.Wavefront +
// CURegFileAccessor, with 2..6 co-resident wavefronts -- are driven with the
// same random operand read/write history and compared with a flat
// array-of-cells model (and thereby with each other) after every operation on
// the operand touched and by full sweeps of every cell of every wavefront.
// Operands come from the real decoder (catalogue.go).
package main

import (
	"encoding/json"
	"errors"
	"fmt"
	"io"
	"log"
	"os"

	"github.com/sarchlab/akita/v4/sim"

	"verifharness/vlib"
)

func replay(cat *catalogue, path string) {
	b, err := os.ReadFile(path)
	if err != nil {
		fmt.Println("cannot read replay:", err)
		os.Exit(2)
	}
	var f struct {
		Key     string `json:"key"`
		Witness struct {
			History  string       `json:"history"`
			Style    string       `json:"placement_style"`
			Pl       []wavePlace  `json:"placement"`
			FillSeed uint64       `json:"fill_seed"`
			Ops      []*op        `json:"ops"`
			Scenario *relScenario `json:"scenario"`
			Pathmix  *pmScenario  `json:"pathmix"`
			Dispatch *dspScenario `json:"dispatch"`
			Alloc    *relScenario `json:"allocator_placement"`
			Hetero   *hetScenario `json:"hetero"`
			Chase    *chaseCase   `json:"chase"`
		} `json:"witness"`
	}
	if err := json.Unmarshal(b, &f); err != nil {
		fmt.Println("cannot parse replay:", err)
		os.Exit(2)
	}
	if f.Witness.Pathmix != nil || f.Witness.Chase != nil || f.Witness.Dispatch != nil || f.Witness.Alloc != nil || f.Witness.Hetero != nil { // path-mixing / chase / dispatch layers
		rec := &printRec{want: f.Key}
		if f.Witness.Hetero != nil {
			runHetero(rec, f.Witness.Hetero)
		} else if f.Witness.Alloc != nil {
			runAllocPlacement(rec, f.Witness.Alloc)
		} else if f.Witness.Dispatch != nil {
			runDispatch(rec, f.Witness.Dispatch)
		} else if f.Witness.Pathmix != nil {
			runPathmix(rec, cat, f.Witness.Pathmix)
		} else {
			runChase(rec, f.Witness.Chase)
		}
		if rec.hit {
			fmt.Printf("[C07] replay of %s: reproduced key %s\n", path, f.Key)
			os.Exit(1)
		}
		fmt.Printf("[C07] replay of %s: key %s NOT reproduced (%d other deviations)\n", path, f.Key, rec.n)
		os.Exit(0)
	}
	if f.Witness.Scenario != nil { // release layer
		rec := &printRec{want: f.Key}
		runRelease(rec, f.Witness.Scenario)
		if rec.hit {
			fmt.Printf("[C07] replay of %s: reproduced key %s\n", path, f.Key)
			os.Exit(1)
		}
		fmt.Printf("[C07] replay of %s: key %s NOT reproduced (%d other deviations)\n", path, f.Key, rec.n)
		os.Exit(0)
	}
	if len(f.Witness.Pl) == 0 {
		fmt.Println("[C07] this replay is a canonical-battery finding; the battery runs on every invocation")
		os.Exit(2)
	}
	h := &history{Name: f.Witness.History + "-replay", Style: f.Witness.Style, Pl: f.Witness.Pl, FillSeed: f.Witness.FillSeed, Ops: f.Witness.Ops}
	for _, o := range h.Ops {
		if err := o.resolve(cat); err != nil {
			fmt.Println("cannot resolve replay op:", err)
			os.Exit(2)
		}
	}
	rec := &printRec{want: f.Key}
	runAndReport(rec, cat, h)
	if rec.hit {
		fmt.Printf("[C07] replay of %s: reproduced key %s (%d deviations in total, known ones included)\n", path, f.Key, rec.n)
		os.Exit(1)
	}
	fmt.Printf("[C07] replay of %s: key %s NOT reproduced (%d other deviations)\n", path, f.Key, rec.n)
	os.Exit(0)
}

type printRec struct {
	n    int
	want string
	hit  bool
}

func (p *printRec) Eval()                        {}
func (p *printRec) Count(string, int64)          {}
func (p *printRec) Distinct(string, string)      {}
func (p *printRec) Nontrivial(string)            {}
func (p *printRec) Sample(any)                   {}
func (p *printRec) Inconclusive(r string)        { fmt.Println("[C07] inconclusive:", r) }
func (p *printRec) Violation(k, w string, x any) { p.ViolationFP(k, "", w, x) }
func (p *printRec) ViolationFP(k, fp, w string, _ any) {
	p.n++
	if k == p.want && !p.hit {
		p.hit = true
		fmt.Printf("[C07] replay VIOLATION key=%s : %s\n", k, w)
	}
}

func replayDecodeHistory(path string) {
	b, err := os.ReadFile(path)
	if err != nil {
		return
	}
	var f struct {
		Key     string `json:"key"`
		Witness struct {
			DH *dhScenario `json:"decode_history"`
		} `json:"witness"`
	}
	if json.Unmarshal(b, &f) != nil || f.Witness.DH == nil {
		return
	}
	rec := &printRec{want: f.Key}
	if f.Witness.DH.Canon { // the canonical history is the first thing the process decodes
		runDecodeHistory(rec, f.Witness.DH)
	} else {
		for _, a := range []string{"gcn3", "cdna3"} { // what ran before it in the real run
			runDecodeHistory(&printRec{}, &dhScenario{Name: "warm-up", Seed: 0xD0C0DE, Arch: a, Canon: true, N: 160})
		}
		runDecodeHistory(rec, f.Witness.DH)
	}
	if rec.hit {
		fmt.Printf("[C07] replay of %s: reproduced key %s\n", path, f.Key)
		os.Exit(1)
	}
	fmt.Printf("[C07] replay of %s: key %s NOT reproduced (%d other deviations)\n", path, f.Key, rec.n)
	os.Exit(0)
}

func main() {
	log.SetOutput(io.Discard) // log.Panicf of the code under test prints before panicking; the panic value is what we keep
	for i, a := range os.Args {
		if a == "--replay" && i+1 < len(os.Args) {
			replayDecodeHistory(os.Args[i+1]) // returns if the replay is of another layer
			cat, err := buildCatalogue()
			if err != nil {
				fmt.Println("catalogue:", err)
				os.Exit(2)
			}
			replay(cat, os.Args[i+1])
		}
	}
	c := vlib.Start("C07")
	// decode-history layer (dechist.go): first, sequentially, before this process has decoded anything else
	dhs := decodeHistoryScenarios(c)
	dhFired := false
	if os.Getenv("C07_SKIP_DECHIST") == "" {
		for _, sc := range dhs {
			dhFired = runDecodeHistory(c, sc) || dhFired
		}
	}
	cat, err := buildCatalogue()
	seenCh := map[string]bool{}
	for _, ch := range cat.changes {
		key := "C07|decode|operand-changed-after-later-decode|" + ch.od.Name
		var w any
		if !seenCh[key] {
			seenCh[key] = true
			w = map[string]any{"operand": ch.od.String(), "change": ch.change, "changed_by_decode_of": ch.culprit}
		}
		c.Violation(key, fmt.Sprintf("operand catalogue: %s, harvested with RegCount %d, changed (%s) when %s was decoded later on the same decoder: the operand object is shared between instructions",
			ch.od.String(), ch.od.RC, ch.change, ch.culprit), w)
	}
	if len(cat.changes) > 0 || dhFired {
		// operands change under the register stores' feet: the histories below would only repeat this in many shapes
		c.Finish(vlib.FinishOpts{Rule: "decode-history layer only: the decoder's operand objects are not stable (see the violations); the remaining layers were not run"})
	}
	var ca *cellAliasErr
	if errors.As(err, &ca) {
		c.Violation("C07|register-table|operand-code-resolves-to-the-cell-of-another-register|"+ca.Kind, ca.Msg,
			map[string]any{"register": ca.Name, "cell": ca.Cell, "intended_cell": ca.Intended})
		c.Finish(vlib.FinishOpts{Rule: "operand catalogue only: a register name resolves to another register's cell (see the violation); the remaining layers were not run"})
	}
	if err != nil {
		c.Inconclusive("operand harvest failed (the decoder did not yield the intended operand): " + err.Error())
		c.Finish(vlib.FinishOpts{Rule: "n/a"})
	}
	c.Count("catalogue_operands", int64(len(cat.all)))
	for src := range cat.sources {
		c.Distinct("catalogue_source", src)
	}
	c.Set("regcounts_harvested_per_kind", func() map[string][]int {
		out := map[string][]int{}
		for k := kind(0); k < kOther; k++ {
			out[k.String()] = cat.rcs[k]
		}
		return out
	}())

	if os.Getenv("C07_SKIP_BATTERY") == "" { // self-validation knob: do the histories alone catch a seeded break?
		battery(c, cat)
	}

	n := c.N(200, 5000)
	nOps := c.N(400, 2000)
	base := c.Rand("histories")
	vlib.Parallel(n, 0, func(i int) {
		h := genHistory(base.ForkN("h", i), cat, i, nOps)
		if i < 3 {
			c.Sample(map[string]any{"name": h.Name, "placement_style": h.Style, "placement": h.Pl, "ops": len(h.Ops), "first_ops": h.Ops[:4]})
		}
		runAndReport(c, cat, h)
	})

	// second layer: release of registers at wavefront end (release.go)
	rels := canonicalRelease()
	nRel := c.N(58, 1500)
	relBase := c.Rand("release")
	for i := 0; i < nRel; i++ {
		rels = append(rels, genRelScenario(relBase.ForkN("r", i), i))
	}
	if os.Getenv("C07_SKIP_RELEASE") == "" {
		vlib.Parallel(len(rels), 0, func(i int) {
			if i == len(rels)-1 {
				c.Sample(map[string]any{"release_scenario": rels[i]})
			}
			runRelease(c, rels[i])
		})
	}

	// third layer: path-mixing histories on a real compute unit (pathmix.go)
	sim.GetIDGenerator()
	var pms []*pmScenario
	pmSteps := c.N(200, 400)
	for i := 0; i < 8; i++ { // seed-independent
		pms = append(pms, &pmScenario{Name: fmt.Sprintf("pm-canon%d", i), Seed: 0xC07C07 + uint64(i)*0x9e3779b97f4a7c15, Style: i, Steps: pmSteps, LatHi: []int{1, 4, 30, 120}[i%4], Arch: []string{"gcn3", "cdna3"}[i/4%2]})
	}
	nPm := c.N(312, 4000)
	pmBase := c.Rand("pathmix")
	for i := 0; i < nPm; i++ {
		pms = append(pms, genPmScenario(pmBase.ForkN("p", i), i, pmSteps))
	}
	if os.Getenv("C07_SKIP_PATHMIX") == "" {
		vlib.Parallel(len(pms), 0, func(i int) {
			if i == len(pms)-1 {
				c.Sample(map[string]any{"pathmix_scenario": pms[i]})
			}
			runPathmix(c, cat, pms[i])
		})
	}

	// dispatch-time initialisation with resident neighbours (dispatch.go)
	dsps := canonicalDispatch()
	dspBase := c.Rand("dispatch")
	for i := 0; i < c.N(150, 3000); i++ {
		dsps = append(dsps, genDispatch(dspBase.ForkN("d", i), i))
	}
	if os.Getenv("C07_SKIP_DISPATCH") == "" {
		vlib.Parallel(len(dsps), 0, func(i int) {
			if i == len(dsps)-1 {
				c.Sample(map[string]any{"dispatch_scenario": dsps[i]})
			}
			runDispatch(c, dsps[i])
		})
	}

	// compute units with different VGPR counts per SIMD (hetero.go)
	hets := heteroScenarios(c)
	if os.Getenv("C07_SKIP_HETERO") == "" {
		vlib.Parallel(len(hets), 0, func(i int) { runHetero(c, hets[i]) })
	}

	// allocator placement: the release kernels dispatched by the real command processor (alloc.go)
	allocs := allocScenarios(c)
	if os.Getenv("C07_SKIP_ALLOC") == "" {
		vlib.Parallel(len(allocs), 0, func(i int) { runAllocPlacement(c, allocs[i]) })
	}

	// fourth layer: end-to-end pointer-chasing kernels, timing vs emulation vs host (chase.go)
	chases := canonicalChases()
	nCh := c.N(120, 2000)
	chBase := c.Rand("chase")
	for i := 0; i < nCh; i++ {
		chases = append(chases, genChase(chBase.ForkN("c", i), i))
	}
	if os.Getenv("C07_SKIP_CHASE") == "" {
		vlib.Parallel(len(chases), 0, func(i int) {
			if i == len(chases)-1 {
				c.Sample(map[string]any{"chase_case": chases[i]})
			}
			runChase(c, chases[i])
		})
	}

	minOps := int64(n) * int64(nOps) * 9 / 10
	c.Finish(vlib.FinishOpts{
		Rule: "case = canonical battery step, or history (2..6 co-resident wavefronts at dispatcher-like or hostile register-file offsets; " +
			"dispatch + fill of every cell; then a seeded sequence of operand reads/writes through ReadOperand/WriteOperand/" +
			"ReadOperandBytes/WriteOperandBytes/ReadReg/WriteReg and the typed accessors, operands taken from decoded encodings); " +
			"non-trivial = distinct (backing, register kind, width) for which a read of that kind and width, verified against the model, " +
			"returned cells last written by a verified history write of the same kind and width; every byte slice a store hands out " +
			"(ReadOperandBytes/ReadReg) is kept alive and re-compared after every later operation (a read result is a value, not a view), a quarter of them are overwritten by the caller " +
			"and the cells re-read raw, and the buffers given to WriteOperandBytes/WriteReg are overwritten after the call; " +
			"release layer: case = scenario (1..3 generated kernels with WFSgprCount 8..102 / WIVgprCount 4..256 run to s_endpgm in a real compute unit, " +
			"first-fit or last-fit placement, slots re-used by later work-groups), non-trivial = scenario in which a wavefront ended while another one was live and checked; " +
			"path-mixing layer: case = history on one real compute unit with 2..6 wavefronts (the harness only plays fetch+decode: single decoded instructions -- s_load_dword x1..x16, " +
			"flat_load_dword x1..x4, s_mov, v_mov, s_cmp, v_readfirstlane, ds_read -- are put into Wavefront.InstToIssue and executed by the real scheduler/units/load-return handlers, " +
			"mixed with accessor reads/writes, register-file writes made with the exact calls of handleScalarDataLoadReturn/handleVectorDataLoadReturn and hand-made s_load answers " +
			"delivered to ToScalarMem), every read compared with a shadow array of cells; non-trivial = history with at least one 'read X, non-accessor write of X, read X again' and one load answer handled by the real compute unit; " +
			"dispatch layer: case = scenario (both register files of a real compute unit filled with a pattern, 1..5 resident wavefronts with seeded footprints, then 2..6 wavefronts dispatched through the real " +
			"WfDispatcherImpl.DispatchWf with seeded enable bits / id levels / V3 and V5 code objects; both files compared byte by byte around every dispatch: only the cells the ABI initialises may change, with the ABI's values; " +
			"every second dispatch is repeated in the emulation compute unit), non-trivial = scenario without deviation; " +
			"hetero layer: case = real compute unit built with WithVGPRCount(v) for a vector with different counts per SIMD (SIMD i>0 larger and smaller than SIMD 0), 3..6 wavefronts per SIMD placed up to that SIMD's own registers per lane, " +
			"96 random 1/2/4-dword writes through the accessors, every lane of every register of every wavefront compared with the flat model every 12 writes; non-trivial = configuration without deviation; " +
			"allocator-placement layer: case = the release kernels launched concurrently (1-, 2-, 3- and 4-wavefront work-groups, different register counts) through a real cp.CommandProcessor onto the real compute unit; " +
			"register ranges of simultaneously resident wavefronts taken from the MapWGReq trace must be disjoint and no register of a live wavefront may change; non-trivial = scenario without deviation; " +
			"decode-history layer (runs first, sequentially): case = instruction stream decoded on a long-lived decoder per architecture (64-bit uses of vcc/exec/SGPR pairs before and after 32-bit uses of their halves, " +
			"constants between them) and executed by the real ALUs on both stores; the expected cells of every access come from the encoding (ISA width), not from the operand object; every operand object is snapshotted at decode and re-compared after every later decode; " +
			"non-trivial = stream without deviation; " +
			"chase layer: case = generated straight-line kernel (pointer chasing through one SGPR/VGPR pair, SGPR operand re-read around a load return) run in the timing compute unit, " +
			"the emulation compute unit and the host interpreter, on GCN3 and on CDNA3 (cdna3.ALU + CDNA3 decoding + register scoreboard), plus ds_write2_b32/_b64 kernels with distinct DATA0/DATA1 read back through ds_read_b32; " +
			"non-trivial = kernel whose three register dumps agree",
		Assumptions: []string{
			"operands stay inside the wavefront's allocation (granule-rounded WFSgprCount/WIVgprCount) and inside s0..s101 / v0..v255; SGPR tuples are aligned as the ISA requires",
			"WriteOperand is used for operands of at most two dwords (a uint64 cannot carry more); byte writes pass exactly the operand's size",
			"wavefront placement arithmetic (16-SGPR and 4-VGPR granules, byte offsets, round-robin SIMD) re-implements resource.CUResourceImpl, which is in an internal package",
			"timing register files are observed raw through SimpleRegisterFile.Read with register s0/v0, lane 0 and the byte address as wave offset",
			"path-mixing layer: the compute unit receives in-order answers per memory port (fake FIFO memories); one instruction per wavefront is in flight at a time and the engine runs idle before the shadow is advanced; " +
				"scalar loads use 4-byte aligned addresses below 2^40 (the synthetic memory makes every aligned pair a valid pointer); the ISA semantics of the handful of injected instructions are re-implemented on the host (pmisa.go)",
			"decode-history layer: widths and semantics of s_mov_b32/b64, s_and_b32/b64, s_cmp_eq_u32, s_movk_i32, v_cmp_eq_u32 (e32/e64) are taken from the ISA manual; emulation's 64-bit answer for a RegCount-0 vcc_lo source (listed finding) is masked to 32 bits and vcc_lo is not used as a source of s_and/s_cmp there",
			"chase layer: registers a kernel never writes are zero at wavefront start in both modes; the kernels use s0..s17, v0..v16, one wavefront per work-group, 1..4 co-resident work-groups",
			"release layer: live wavefronts are observed through raw reads of cu.SRegFile/cu.VRegFile at tracer callbacks (instruction start/end) and through the sums they dump to memory; a window that is not cleared at release is counted, not judged",
		},
		MinNontrivial: 20,
		MinCounters: map[string]int64{
			"ops_total": minOps, "reads_verified": minOps / 2, "writes_verified": minOps / 3, "read_cells_after_history_write": minOps / 20,
			"sweeps": int64(n), "battery_cases": 300, "emu_timing_agree_on_operand": minOps / 3, "wavefronts_placed": int64(2 * n),
			"probe.outside_property_list.explicit_diagnostic": 10,
			"release.scenarios": int64(len(rels)), "release.ends_with_live_neighbours": int64(8 * len(rels)), "release.live_windows_checked": int64(50 * len(rels)),
			"pm.histories": int64(len(pms)), "pm.steps": int64(len(pms)) * int64(pmSteps) * 9 / 10,
			"pm.repeat_reads_with_intervening_nonaccessor_write": int64(len(pms)) * int64(pmSteps) / 2,
			"pm.load_return_writes_observed":                     int64(len(pms)) * int64(pmSteps), "pm.direct_regfile_writes": int64(len(pms)) * int64(pmSteps) / 2,
			"pm.scalar_answers_injected": int64(len(pms)) * int64(pmSteps) / 20, "pm.s_loads_executed": int64(len(pms)) * int64(pmSteps) / 10,
			"pm.flat_loads_executed": int64(len(pms)) * int64(pmSteps) / 20, "pm.chase_loads_scalar": int64(len(pms)) * int64(pmSteps) / 50,
			"pm.chase_loads_vector": int64(len(pms)) * int64(pmSteps) / 100, "pm.constituent_alias_checks": int64(len(pms)) * int64(pmSteps) / 10,
			"pm.instruction_source_reads": int64(len(pms)) * int64(pmSteps) / 50, "pm.concurrent_load_groups": int64(len(pms)) * int64(pmSteps) / 50,
			"pm.reads_verified": int64(len(pms)) * int64(pmSteps), "pm.sweeps": int64(2 * len(pms)),
			"chase.kernels_run": int64(len(chases)), "chase.loads_overwriting_their_address_registers": int64(3 * len(chases)),
			"chase.dump_dwords_compared": int64(1000 * len(chases)), "chase.lds_write2_kernels.gcn3": 8, "chase.lds_write2_kernels.cdna3": 8,
			"dsp.scenarios": int64(len(dsps)) * 9 / 10, "dsp.dispatches": int64(2 * len(dsps)), "dsp.dispatches_with_sreg_offset_ne_vreg_offset": int64(2 * len(dsps)),
			"dsp.dispatches_with_id_level_2": int64(len(dsps)) / 2, "dsp.dispatches_onto_simd_with_2plus_residents": int64(len(dsps)), "dsp.dispatches_v5": int64(len(dsps)) / 10,
			"dsp.emu_initialisations_compared": int64(len(dsps)), "dsp.init_cells_verified": int64(100 * len(dsps)),
			"hetero_vgpr_cu_configs": int64(len(hets)) * 9 / 10, "hetero.writes": int64(80 * len(hets)), "hetero.wavefronts_beyond_simd0_lane_slice": int64(len(hets)) / 2,
			"hetero.cells_compared_on_simds_larger_than_simd0": int64(20000 * len(hets)), "hetero.cells_compared_on_simds_smaller_than_simd0": int64(10000 * len(hets)),
			"alloc.scenarios": int64(len(allocs)) * 9 / 10, "alloc.work_groups_mapped": int64(15 * len(allocs)), "alloc.maps_with_fragmented_sgpr_file": int64(3 * len(allocs)),
			"alloc.maps_with_groups_of_different_wavefront_counts_resident": int64(8 * len(allocs)), "alloc.range_pairs_checked": int64(500 * len(allocs)), "alloc.dumps_judged": int64(20 * len(allocs)),
			"dh.histories": int64(len(dhs)), "dh.instructions_decoded": int64(150 * len(dhs)), "dh.instructions_executed": int64(300 * len(dhs)),
			"dh.operand_objects_rechecked": int64(20000 * len(dhs)), "dh.half_accesses_after_64bit_decode": int64(40 * len(dhs)),
			"dh.direct_operand_reads": int64(200 * len(dhs)), "dh.same_encoding_redecoded": int64(5 * len(dhs)),
			"pm.ds_writes_checked": int64(len(pms)), "pm.held_read_results_rechecked": int64(len(pms)) * int64(pmSteps),
			"held_read_results_rechecked": minOps * 20, "held_read_results_alive_at_end": int64(n) * int64(nOps) / 10, "read_results_overwritten_by_caller": minOps / 40,
			"release.dumps_judged": int64(5 * len(rels)), "release.slots_reused": int64(len(rels)), "release.wavefronts_ended_at_once": int64(4 * len(rels)),
		},
	})
}
