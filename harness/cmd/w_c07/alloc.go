package main

// Allocator-placement variant of the release layer: the register offsets of
// the co-resident wavefronts come from the REAL allocator. A real
// cp.CommandProcessor (cp.MakeBuilder) with the real timing compute unit
// registered dispatches the release layer's kernels (every wavefront fills all
// its registers with a pattern that encodes its identity, spins, dumps sums)
// launched concurrently with different wavefront counts per work-group, so that
// completions fragment the register files. Checked: (a) from the MapWGReq
// trace at the compute unit's port, no two simultaneously resident wavefronts
// have overlapping SGPR / VGPR ranges; (b) the release layer's monitor: no
// register of a live wavefront changes except by its own instructions.

import (
	"encoding/binary"
	"fmt"

	"github.com/sarchlab/akita/v4/mem/mem"
	"github.com/sarchlab/akita/v4/sim"
	"github.com/sarchlab/akita/v4/tracing"
	"github.com/sarchlab/mgpusim/v4/amd/insts"
	"github.com/sarchlab/mgpusim/v4/amd/kernels"
	"github.com/sarchlab/mgpusim/v4/amd/protocol"
	"github.com/sarchlab/mgpusim/v4/amd/timing/cp"
	"github.com/sarchlab/mgpusim/v4/amd/timing/cu"

	"verifharness/vlib"
	"verifharness/vlib/simkit"
)

type apResident struct {
	reqID string
	gid   int
	loc   protocol.WfDispatchLocation
	ns    int // bytes
	nv    int
	w     int // wavefronts of its group
}

func runAllocPlacement(rec vlib.Recorder, sc *relScenario) {
	rec.Eval()
	cnt := map[string]int64{}
	defer func() {
		for k, v := range cnt {
			rec.Count(k, v)
		}
	}()
	engine := sim.NewSerialEngine()
	freq := 1 * sim.GHz
	store := make([]byte, relStoreSize)
	c := cu.MakeBuilder().WithEngine(engine).WithFreq(freq).Build("CU")
	base := vlib.NewPRNG(sc.Seed)
	var mems [3]*relMem
	for i, p := range []sim.Port{c.ToInstMem, c.ToScalarMem, c.ToVectorMem} {
		mems[i] = newRelMem(fmt.Sprintf("Mem%d", i), engine, freq, max(1, sc.LatHi), store, base.ForkN("mem", i))
		simkit.Connect(engine, freq, fmt.Sprintf("ConnMem%d", i), p, mems[i].port)
	}
	c.InstMem = mems[0].port
	c.ScalarMem = mems[1].port
	c.VectorMemModules = &mem.SinglePortMapper{Port: mems[2].port.AsRemote()}

	proc := cp.MakeBuilder().WithEngine(engine).WithFreq(freq).Build("CP")
	drv := simkit.NewAgent("Drv", engine, freq)
	drvOut := drv.NewPort("Out", 16, 16)
	proc.Driver = drvOut
	proc.RegisterCU(c)
	simkit.Connect(engine, freq, "ConnCUs", proc.ToCUs, c.ToACE, c.ToCP)
	simkit.Connect(engine, freq, "ConnDrv", proc.ToDriver, drvOut)

	mon := &relMonitor{sc: sc, cu: c, waves: map[*kernels.Wavefront]*relWave{}, byGid: make([]*relWave, sc.totalWaves()),
		endTask: map[string]*relWave{}, cnt: cnt}
	wit := func(key string, extra map[string]any) any {
		if _, dup := witnessed.LoadOrStore(key, struct{}{}); dup {
			return nil
		}
		w := map[string]any{"allocator_placement": sc}
		for k, v := range extra {
			w[k] = v
		}
		return w
	}
	// kernels
	var launches []sim.Msg
	for k, ks := range sc.Kernels {
		pr, err := buildRelProgram(ks, sc.gBase(k))
		if err != nil {
			rec.Inconclusive(err.Error())
			return
		}
		mon.progs = append(mon.progs, pr)
		copy(store[relCodeBase+k*relCodeSpan:], pr.code)
		co := &insts.KernelCodeObject{KernelCodeObjectMeta: &insts.KernelCodeObjectMeta{ComputePgmRsrc2: 1 << 7,
			WFSgprCount: uint16(ks.NS), WIVgprCount: uint16(ks.NV)}, Data: pr.code, Version: insts.CodeObjectV3}
		pkt := &kernels.HsaKernelDispatchPacket{WorkgroupSizeX: uint16(64 * ks.W), WorkgroupSizeY: 1, WorkgroupSizeZ: 1,
			GridSizeX: uint32(64 * ks.W * ks.NWG), GridSizeY: 1, GridSizeZ: 1, KernelObject: uint64(relCodeBase + k*relCodeSpan)}
		req := protocol.NewLaunchKernelReq(drvOut, proc.ToDriver)
		req.PID = 1
		req.Packet = pkt
		req.PacketAddress = 0x100000 + 0x1000*uint64(k+1)
		req.CodeObject = co
		launches = append(launches, req)
	}
	for gid, n := range sc.Spin {
		binary.LittleEndian.PutUint32(store[relTableAddr+4*gid:], uint32(n))
	}
	sent, answered := 0, 0
	drv.TickFn = func(a *simkit.Agent) bool {
		progress := false
		for sent < len(launches) && drvOut.Send(launches[sent]) == nil {
			sent++
			progress = true
		}
		for drvOut.RetrieveIncoming() != nil {
			answered++
			progress = true
		}
		return progress
	}

	// the MapWGReq trace at the compute unit
	var resident []*apResident
	overlaps := map[string]bool{}
	plog := simkit.NewLog(engine, freq)
	plog.OnEvent = func(e simkit.Event) {
		plog.Events = plog.Events[:0]
		switch m := e.Msg.(type) {
		case *protocol.MapWGReq:
			if e.Kind != simkit.KRecv {
				return
			}
			k := int(m.WorkGroup.Packet.KernelObject-relCodeBase) / relCodeSpan
			ks := sc.Kernels[k]
			cnt["alloc.work_groups_mapped"]++
			kinds := map[int]bool{ks.W: true}
			for _, r := range resident {
				kinds[r.w] = true
			}
			if len(kinds) > 1 {
				cnt["alloc.maps_with_groups_of_different_wavefront_counts_resident"]++
			}
			// is the SGPR file fragmented (a free hole below an occupied region)?
			top := 0
			used := 0
			for _, r := range resident {
				top = max(top, r.loc.SGPROffset+r.ns)
				used += r.ns
			}
			if used < top {
				cnt["alloc.maps_with_fragmented_sgpr_file"]++
			}
			for i, l := range m.Wavefronts {
				gid := sc.gBase(k) + m.WorkGroup.IDX*ks.W + i
				nw := &apResident{reqID: m.ID, gid: gid, loc: l, ns: 4 * roundUp(ks.NS, sgprGranule), nv: 4 * roundUp(ks.NV, vgprGranule), w: ks.W}
				for _, r := range resident {
					cnt["alloc.range_pairs_checked"]++
					what := ""
					if l.SGPROffset < r.loc.SGPROffset+r.ns && r.loc.SGPROffset < l.SGPROffset+nw.ns {
						what = "sgpr"
					} else if l.SIMDID == r.loc.SIMDID && l.VGPROffset < r.loc.VGPROffset+r.nv && r.loc.VGPROffset < l.VGPROffset+nw.nv {
						what = "vgpr"
					}
					if what != "" && !overlaps[what] {
						overlaps[what] = true
						key := "C07|timing|allocator-placement|ranges-overlap|" + what
						rec.Violation(key, fmt.Sprintf("the command processor mapped wavefront %d (%d-wavefront group) to SIMD %d SGPR bytes %d..%d VGPR bytes %d..%d while wavefront %d (SIMD %d SGPR bytes %d..%d VGPR bytes %d..%d) is still resident on the compute unit [scenario %s]",
							gid, ks.W, l.SIMDID, l.SGPROffset, l.SGPROffset+nw.ns, l.VGPROffset, l.VGPROffset+nw.nv,
							r.gid, r.loc.SIMDID, r.loc.SGPROffset, r.loc.SGPROffset+r.ns, r.loc.VGPROffset, r.loc.VGPROffset+r.nv, sc.Name), wit(key, nil))
					}
				}
				resident = append(resident, nw)
				rw := &relWave{gid: gid, kernel: k, k: ks, loc: l, spin: sc.Spin[gid]}
				mon.waves[l.Wavefront] = rw
				mon.byGid[gid] = rw
			}
		case *protocol.WGCompletionMsg:
			if e.Kind != simkit.KSend {
				return
			}
			for _, id := range m.RspTo {
				kept := resident[:0]
				for _, r := range resident {
					if r.reqID != id {
						kept = append(kept, r)
					}
				}
				resident = kept
			}
		}
	}
	plog.Attach(c.ToACE, "ToACE")
	tracing.CollectTrace(c, mon)
	drv.TickLater()
	events, livelock, pv := simkit.RunBounded(engine, 6_000_000)
	cnt["alloc.engine_events"] += events
	if pv != nil {
		key := "C07|timing|allocator-placement|panic"
		rec.Violation(key, fmt.Sprintf("command processor + compute unit panicked: %v [scenario %s]", pv, sc.Name), wit(key, nil))
		return
	}
	if livelock || answered < len(launches) {
		if len(overlaps) == 0 && len(mon.viols) == 0 { // with shared registers a kernel may well never end
			rec.Inconclusive(fmt.Sprintf("allocator-placement scenario %s: %d of %d kernels completed (livelock=%v)", sc.Name, answered, len(launches), livelock))
			return
		}
	}
	for _, h := range mon.harness {
		if len(overlaps) == 0 {
			rec.Inconclusive("allocator-placement layer: " + h)
		}
	}
	seen := map[string]bool{}
	report := func(kind, what string) {
		key := "C07|timing|allocator-placement|registers-of-resident-wavefront-overwritten|" + kind
		if seen[key] {
			return
		}
		seen[key] = true
		rec.Violation(key, what, wit(key, nil))
	}
	for _, v := range mon.viols {
		kind := "sgpr"
		if len(v.key) > 4 && v.key[len(v.key)-4:] == "vgpr" {
			kind = "vgpr"
		}
		report(kind, v.what)
	}
	for gid, w := range mon.byGid {
		if w == nil || w.spin == 0 || w.state != wsEnded {
			continue
		}
		cnt["alloc.dumps_judged"]++
		var ssum uint32
		for r := 0; r < w.k.NS; r++ {
			ssum += patS(gid, r)
		}
		for lane := 0; lane < 64; lane++ {
			var vsum uint32
			for r := 0; r < w.k.NV; r++ {
				vsum += patV(gid, r, lane)
			}
			off := relOutAddr + (gid*64+lane)*8
			gotV, gotS := binary.LittleEndian.Uint32(store[off:]), binary.LittleEndian.Uint32(store[off+4:])
			if gotS != ssum {
				report("sgpr", fmt.Sprintf("wavefront %d dumped the sum of its SGPRs as %08x, the pattern it wrote sums to %08x [scenario %s]", gid, gotS, ssum, sc.Name))
				break
			}
			if gotV != vsum {
				report("vgpr", fmt.Sprintf("wavefront %d lane %d dumped the sum of its VGPRs as %08x, the pattern it wrote sums to %08x [scenario %s]", gid, lane, gotV, vsum, sc.Name))
				break
			}
		}
	}
	cnt["alloc.scenarios"]++
	if len(overlaps) == 0 && len(seen) == 0 {
		rec.Nontrivial("alloc|" + sc.Name)
	}
}

func allocScenarios(c *vlib.Check) []*relScenario {
	mk := func(name string, seed uint64, ks []relKernel, spin func(gid, w int) int) *relScenario {
		sc := &relScenario{Name: name, Kernels: ks, Alloc: "real-command-processor", LatHi: 4, Seed: seed}
		for k, kk := range ks {
			for i := 0; i < kk.W*kk.NWG; i++ {
				sc.Spin = append(sc.Spin, spin(sc.gBase(k)+i, kk.W))
			}
		}
		return sc
	}
	// the seed's history: 1-wavefront groups end at once while 4-wavefront groups mapped after them keep running
	canon := func(gid, w int) int {
		if w == 1 {
			return 0
		}
		return []int{1200, 150, 2500, 400}[gid/4%4]
	}
	out := []*relScenario{
		mk("alloc-canon-1-and-4", 0xA110C, []relKernel{{NS: 16, NV: 8, W: 1, NWG: 14}, {NS: 16, NV: 8, W: 4, NWG: 14}}, canon),
		mk("alloc-canon-1-4-2", 0xA110D, []relKernel{{NS: 32, NV: 12, W: 1, NWG: 10}, {NS: 16, NV: 8, W: 4, NWG: 12}, {NS: 48, NV: 4, W: 2, NWG: 8}}, canon),
		mk("alloc-canon-4-then-1", 0xA110E, []relKernel{{NS: 16, NV: 8, W: 4, NWG: 14}, {NS: 24, NV: 16, W: 1, NWG: 16}}, canon),
	}
	base := c.Rand("alloc")
	for i := 0; i < c.N(20, 400); i++ {
		r := base.ForkN("a", i)
		var ks []relKernel
		for k := 0; k < 2+r.Intn(2); k++ {
			ks = append(ks, relKernel{NS: []int{16, 16, 24, 32, 48, 64}[r.Intn(6)], NV: []int{4, 8, 8, 12, 16, 24}[r.Intn(6)],
				W: []int{1, 4, 1, 2, 4, 3}[(k+r.Intn(2)*3)%6], NWG: 6 + r.Intn(10)})
		}
		sc := mk(fmt.Sprintf("alloc%d", i), r.Uint64(), ks, func(gid, w int) int {
			switch r.Intn(4) {
			case 0:
				return 0
			case 1:
				return 50 + r.Intn(200)
			case 2:
				return 300 + r.Intn(900)
			}
			return 1500 + r.Intn(1500)
		})
		sc.LatHi = []int{2, 20, 80}[r.Intn(3)]
		out = append(out, sc)
	}
	return out
}
