package main

// Seed-independent canonical battery: one fixed three-wavefront placement, a
// fixed register pattern, and every (register kind, RegCount) class the
// decoder yields x every access API, each followed by a full sweep. Known
// findings are keyed and fingerprinted here.

import (
	"encoding/binary"
	"fmt"
	"hash/fnv"
	"sort"
	"strings"

	"verifharness/vlib"
)

var batteryPlacement = []wavePlace{
	{SIMD: 0, SOff: 0, VOff: 0, NS: 112, NV: 256},
	{SIMD: 1, SOff: 448, VOff: 0, NS: 112, NV: 128},   // target; directly after wave 0 in the scalar file
	{SIMD: 1, SOff: 896, VOff: 512, NS: 112, NV: 128}, // directly after the target in both files
}

const batteryTarget = 1

// loadPattern puts model and both stores into the same known state without
// using the access paths under test.
func loadPattern(m *model, s *stores) {
	for i := range m.imgS {
		m.imgS[i] = 0
	}
	for _, img := range m.imgV {
		for i := range img {
			img[i] = 0
		}
	}
	for w, wm := range m.w {
		p := m.pl[w]
		for i := range wm.vgpr {
			wm.vgpr[i] = 0
		}
		for i := 0; i < emuSGPRs; i++ {
			binary.LittleEndian.PutUint32(wm.sgpr[4*i:], uint32(w+1)<<28|0x5000000|uint32(i)<<8|0x5)
		}
		for lane := 0; lane < 64; lane++ {
			for i := 0; i < p.NV; i++ {
				binary.LittleEndian.PutUint32(wm.vgpr[lane*laneStride+4*i:], uint32(w+1)<<28|uint32(lane)<<16|uint32(i)<<4|0x8)
			}
		}
		wm.vcc = 0x1111111122222222 + uint64(w)*0x0000000100000001
		wm.exec = 0x3333333344444444 + uint64(w)*0x0000000100000001
		wm.scc = 1
		wm.m0 = 0x55555550 + uint32(w)
		for b := range wm.lastW {
			for i := range wm.lastW[b] {
				wm.lastW[b][i] = 0
			}
		}
		copy(s.ewf[w].SRegFile, wm.sgpr)
		copy(s.ewf[w].VRegFile, wm.vgpr)
		copy(m.imgS[p.SOff:], wm.sgpr)
		s.rawWriteS(p.SOff, wm.sgpr)
		for lane := 0; lane < 64; lane++ {
			row := wm.vgpr[lane*laneStride : lane*laneStride+4*p.NV]
			copy(m.imgV[p.SIMD][lane*laneStride+p.VOff:], row)
			s.rawWriteV(p.SIMD, lane*laneStride+p.VOff, row)
		}
		s.repairSpecials(m, w)
	}
}

type batEntry struct {
	caseID string
	digest string
	what   string
}

func battery(rec vlib.Recorder, c *catalogue) {
	defer func() {
		// the harness' own raw file accesses and the dispatcher run outside do()
		if r := recover(); r != nil {
			rec.Violation("C07|timing|battery-setup|panic", fmt.Sprintf("dispatching the canonical wavefronts or loading the canonical pattern "+
				"through SimpleRegisterFile.Read/Write (register s0/v0, lane 0) panicked: %v", r), map[string]any{"placement": batteryPlacement})
		}
	}()
	m := newModel(batteryPlacement)
	s := newStores(batteryPlacement)
	for w := range batteryPlacement {
		s.addWave(w)
	}
	loadPattern(m, s)
	if f := sweep(m, s); len(f) > 0 {
		// rows of registers written with one multi-register SimpleRegisterFile.Write (s0/v0, lane 0, byte
		// address as wave offset) and read back the same way: this is the register file's own contract
		rec.Violation("C07|"+backName[f[0].Back]+"|battery-setup|pattern-mismatch", fmt.Sprintf("the canonical pattern, stored row by row, does not read back: %s holds %s, stored %s %s",
			f[0].Where, f[0].Got, f[0].Want, f[0].Detail), map[string]any{"placement": batteryPlacement, "cell": f[0]})
		return
	}
	groups := map[string][]batEntry{}
	st := newStats()
	p := batteryPlacement[batteryTarget]

	type pick struct {
		od   *opnd
		lane int
	}
	var picks []pick
	for k := kind(0); k < kOther; k++ {
		for _, rc := range c.rcs[k] {
			w := rc
			if w < 1 {
				w = 1
			}
			idxs, lanes := []int{0}, []int{0}
			switch k {
			case kSGPR:
				al := alignFor(k, rc)
				idxs = []int{0, 3 * al, (emuSGPRs - w) / al * al}
				lanes = []int{0, 5}
			case kVGPR:
				idxs = []int{0, 7, p.NV - w}
				lanes = []int{0, 1, 63}
			}
			for _, idx := range idxs {
				cands := c.byKey[opKey{k, idx, rc}]
				if len(cands) == 0 {
					continue
				}
				for _, l := range lanes {
					picks = append(picks, pick{cands[0], l})
					if len(cands) > 1 && l == lanes[0] { // the same register and RegCount from another format
						picks = append(picks, pick{cands[len(cands)-1], l})
					}
				}
			}
		}
	}
	apis := []api{aReadOperand, aReadOperandBytes, aReadReg, aWriteOperand, aWriteOperandBytes, aWriteReg}
	for _, pk := range picks {
		for _, a := range apis {
			od := pk.od
			if a == aWriteOperand && od.width() > 2 {
				continue
			}
			o := mkOp(batteryTarget, a, od, pk.lane)
			switch a {
			case aReadOperandBytes:
				o.N = od.size()
			case aWriteOperand:
				o.Val = 0xB8B7B6B5B4B3B2B1
				if od.Kind == kSCC {
					o.Val = 0
				}
			case aWriteOperandBytes, aWriteReg:
				b := make([]byte, od.size())
				for i := range b {
					b[i] = byte(0xA1 + i)
				}
				if od.Kind == kSCC {
					b[0] = 0
				}
				o.setData(b)
			}
			loadPattern(m, s)
			rec.Eval()
			st.cnt["battery_cases"]++
			v := apply(m, s, o)
			fails := sweep(m, s)
			caseID := fmt.Sprintf("%s %s lane %d", o.API, od.String(), pk.lane)
			for b := 0; b < numBackings; b++ {
				if v[b].Bad {
					key := keyFor(b, o, v[b].Sym)
					dig := fmt.Sprintf("%s|%x|%x", panicDigest(v[b].Pan), v[b].Got, v[b].Want)
					groups[key] = append(groups[key], batEntry{caseID, dig, fmt.Sprintf("%s store, %s: %s", backName[b], caseID, v[b].What)})
					continue
				}
				for _, f := range fails {
					if f.Back != b {
						continue
					}
					key := fmt.Sprintf("C07|%s|%s|%s|regcount%d|disturbs-%s", backName[b], a.class(), od.Kind, od.RC, relation(o, batteryTarget, f))
					groups[key] = append(groups[key], batEntry{caseID, f.Where + "=" + f.Got,
						fmt.Sprintf("%s store, %s changed %s: holds %s, model %s %s", backName[b], caseID, f.Where, f.Got, f.Want, f.Detail)})
				}
			}
		}
	}

	// registers outside the property's list and the uint64 API beyond two
	// dwords: an explicit diagnostic is fine, silent damage is not
	seen := map[string]bool{}
	probe := func(o *op, label string) {
		loadPattern(m, s)
		rec.Eval()
		for b := 0; b < numBackings; b++ {
			_, pan := s.do(b, o)
			switch {
			case pan == "":
				st.cnt["probe."+label+".no_diagnostic"]++
			case strings.Contains(pan, "not supported"):
				st.cnt["probe."+label+".explicit_diagnostic"]++
			default:
				st.cnt["probe."+label+".other_panic"]++
			}
		}
		for _, f := range sweep(m, s) {
			key := fmt.Sprintf("C07|%s|%s|%s|silent-corruption", backName[f.Back], o.a.class(), o.od.Name)
			groups[key] = append(groups[key], batEntry{o.API + " " + o.od.String(), f.Where + "=" + f.Got,
				fmt.Sprintf("%s store: %s of %s changed %s: holds %s, model %s", backName[f.Back], o.API, o.od.String(), f.Where, f.Got, f.Want)})
		}
	}
	for _, od := range c.others {
		if seen[od.Name+od.Field] {
			continue
		}
		seen[od.Name+od.Field] = true
		for _, a := range apis {
			o := mkOp(batteryTarget, a, od, 0)
			o.N = od.size()
			o.Val = 0xB8B7B6B5B4B3B2B1
			b := make([]byte, od.size())
			for i := range b {
				b[i] = byte(0xA1 + i)
			}
			o.setData(b)
			probe(o, "outside_property_list")
		}
	}
	for _, key := range []opKey{{kSGPR, 8, 4}, {kVGPR, 8, 3}, {kSGPR, 16, 16}} {
		if cands := c.byKey[key]; len(cands) > 0 {
			o := mkOp(batteryTarget, aWriteOperand, cands[0], 0)
			o.Val = 0xB8B7B6B5B4B3B2B1
			probe(o, "writeoperand_wider_than_uint64")
		}
	}

	keys := make([]string, 0, len(groups))
	for k := range groups {
		keys = append(keys, k)
	}
	sort.Strings(keys)
	for _, k := range keys {
		es := groups[k]
		sort.Slice(es, func(i, j int) bool { return es[i].caseID < es[j].caseID })
		h := fnv.New64a()
		var cases []string
		for _, e := range es {
			h.Write([]byte(e.caseID + "=" + e.digest + ";"))
			cases = append(cases, e.what)
		}
		fp := fmt.Sprintf("%016x", h.Sum64())
		witnessed.Store(k, struct{}{})
		rec.ViolationFP(k, fp, fmt.Sprintf("canonical battery, %d case(s); first: %s", len(es), es[0].what),
			map[string]any{"placement": batteryPlacement, "target_wave": batteryTarget, "cases": cases,
				"pattern": "s[i]=(w+1)<<28|0x5000000|i<<8|5, v[lane][i]=(w+1)<<28|lane<<16|i<<4|8, vcc=0x1111111122222222+w*0x100000001, exec=0x3333333344444444+w*0x100000001, scc=1, m0=0x55555550+w"})
	}
	st.flush(rec)
}

func panicDigest(p string) string {
	switch {
	case p == "":
		return "ok"
	case strings.Contains(p, "not supported"):
		return "unsupported"
	}
	return "panic:" + p
}
