package main

import (
	"compress/gzip"
	"encoding/binary"
	"encoding/json"
	"flag"
	"fmt"
	"math/rand"
	"os"
	"reflect"
	"runtime"
	"strings"
	"sync"
	"sync/atomic"
	"time"

	"github.com/sarchlab/akita/v4/sim"
	"github.com/sarchlab/akita/v4/tracing"
	"github.com/sarchlab/mgpusim/v4/amd/arch"
	"github.com/sarchlab/mgpusim/v4/amd/benchmarks"
	"github.com/sarchlab/mgpusim/v4/amd/driver"
	"github.com/sarchlab/mgpusim/v4/amd/protocol"
	"github.com/sarchlab/mgpusim/v4/amd/samples/runner"

	"verifharness/vlib"
)

// runCase is the descriptor of one child run.
type runCase struct {
	ID       string `json:"id"`
	Workload string `json:"workload"`
	Params   []int  `json:"params"`
	ParamStr string `json:"param_str"`
	Class    class  `json:"class"`
	Parallel bool   `json:"parallel_engine"`
	Magic    bool   `json:"magic_memory_copy"`
	RandSeed int64  `json:"rand_seed"`
	Sabotage bool   `json:"sabotage"`
	Canon    bool   `json:"canonical"`
	// PageCross: the layer's bias tensor is a slice of the parameter buffer
	// (offset = weight bytes) that straddles a 4 KiB page boundary
	PageCross bool `json:"page_crossing_parameter_slice,omitempty"`
	Occ       bool `json:"occupancy_anchor,omitempty"` // calibrated to launch > 480 wavefronts on one mi300a
	// several benchmarks in one simulation (amd/samples/concurrentkernel,
	// concurrentworkload): the primary workload above is member 0; every
	// member gets its own Driver.Init() context (= its own process id).
	Extra []member `json:"extra_members,omitempty"`
	GPUs  []int    `json:"member0_gpus,omitempty"` // GPUs of member 0 (pair cases only)
	Order string   `json:"order,omitempty"`        // sequential | concurrent
	Place string   `json:"placement,omitempty"`    // same-gpu | different-gpus
}

type member struct {
	Workload string `json:"workload"`
	Params   []int  `json:"params"`
	ParamStr string `json:"param_str"`
	GPUs     []int  `json:"gpus"`
}

func (c runCase) isPair() bool { return len(c.Extra) > 0 }

// pairName is "<w1>+<w2>[+<w3>]".
func (c runCase) pairName() string {
	s := c.Workload
	for _, m := range c.Extra {
		s += "+" + m.Workload
	}
	return s
}

// flags returns the runner command line of the case: exactly what a user of
// the sample binary would type.
func (c runCase) flags(w *workload) []string {
	f := []string{"-disable-rtm"}
	if c.Class.Timing {
		f = append(f, "-timing", "-gpu="+c.Class.GPUType)
	}
	f = append(f, "-arch="+c.Class.Arch)
	if w.Oracle != oCross {
		f = append(f, "-verify")
	}
	ids := []string{"1", "1,2", "1,2,3", "1,2,3,4"}[c.Class.NGPU-1]
	if c.Class.UnifiedGPU {
		f = append(f, "-unified-gpus="+ids)
	} else {
		f = append(f, "-gpus="+ids)
	}
	if c.Class.UnifiedMem {
		f = append(f, "-use-unified-memory")
	}
	if c.Parallel {
		f = append(f, "-parallel")
	}
	if c.Magic {
		f = append(f, "-magic-memory-copy")
	}
	return f
}

func (c runCase) tripleKey() string {
	if c.isPair() {
		s := "pair:" + c.Workload + "(" + c.ParamStr + ")"
		for _, m := range c.Extra {
			s += "+" + m.Workload + "(" + m.ParamStr + ")"
		}
		return s + "|" + c.Class.Arch + "/" + c.Class.mode() + "|" + c.Place + "|" + c.Order
	}
	return c.Workload + "|" + c.ParamStr + "|" + c.Class.String()
}

// ---------------------------------------------------------------------------
// driver tracer: "Driver Command" tasks and the requests the driver sends

type cmdTracer struct {
	mu        sync.Mutex
	kind      map[string]string // task id -> command type
	kernels   int64             // launch commands started
	kernelEnd int64
	d2hStart  int64
	d2hEnd    int64
	h2dStart  int64
	d2hReqs   map[string]*protocol.MemCopyD2HReq
	d2hBytes  int64 // timing only: bytes carried by completed MemCopyD2HReq
	sabotage  bool
	flipped   int64
	maxWaves  int64 // largest number of wavefronts in one kernel launch
	rec       *vlib.ChildRecorder
}

func (t *cmdTracer) StartTask(task tracing.Task) {
	t.mu.Lock()
	defer t.mu.Unlock()
	switch task.Kind {
	case "Driver Command":
		t.kind[task.ID] = task.What
		switch {
		case strings.Contains(task.What, "LaunchKernelCommand"), strings.Contains(task.What, "LaunchUnifiedMultiGPUKernelCommand"):
			t.kernels++
		case strings.Contains(task.What, "MemCopyD2HCommand"):
			t.d2hStart++
		case strings.Contains(task.What, "MemCopyH2DCommand"):
			t.h2dStart++
		}
	case "req_out":
		if r, ok := task.Detail.(*protocol.MemCopyD2HReq); ok {
			t.d2hReqs[task.ID] = r
		}
		if r, ok := task.Detail.(*protocol.LaunchKernelReq); ok && r.Packet != nil && r.Packet.WorkgroupSizeX > 0 {
			// launch geometry: wavefronts of this launch = work-groups x
			// wavefronts per work-group (unified launches: per-GPU share unknown
			// here, the whole grid is counted)
			p := r.Packet
			div := func(a uint32, b uint16) int64 {
				if b == 0 {
					return 1
				}
				return int64((a-1)/uint32(b) + 1)
			}
			wgs := div(p.GridSizeX, p.WorkgroupSizeX) * div(p.GridSizeY, p.WorkgroupSizeY) * div(p.GridSizeZ, p.WorkgroupSizeZ)
			wis := int64(p.WorkgroupSizeX)
			if p.WorkgroupSizeY > 0 {
				wis *= int64(p.WorkgroupSizeY)
			}
			if p.WorkgroupSizeZ > 0 {
				wis *= int64(p.WorkgroupSizeZ)
			}
			if n := wgs * ((wis-1)/64 + 1); n > t.maxWaves {
				t.maxWaves = n
			}
		}
	}
}

func (t *cmdTracer) StepTask(tracing.Task)          {}
func (t *cmdTracer) AddMilestone(tracing.Milestone) {}

func (t *cmdTracer) EndTask(task tracing.Task) {
	t.mu.Lock()
	defer t.mu.Unlock()
	if k, ok := t.kind[task.ID]; ok {
		switch {
		case strings.Contains(k, "Launch"):
			t.kernelEnd++
		case strings.Contains(k, "MemCopyD2HCommand"):
			t.d2hEnd++
		}
		delete(t.kind, task.ID)
		return
	}
	if r, ok := t.d2hReqs[task.ID]; ok {
		delete(t.d2hReqs, task.ID)
		t.d2hBytes += int64(len(r.DstBuffer))
		if t.sabotage {
			// The reply has arrived: DstBuffer (a window of the command's
			// RawData) holds what the DMA engine read from device memory and
			// the driver has not yet decoded it into the application's
			// destination. Flip bits in what was read back.
			n := int64(sabotageBuffer(r.DstBuffer))
			if t.flipped == 0 && n > 0 && t.rec != nil {
				t.rec.Note("sabotaged", len(r.DstBuffer))
			}
			t.flipped += n
		}
	}
}

// sabotageBuffer flips one high-order bit in up to four 32-bit words spread
// over the buffer (bit 29 or 30 of a little-endian word: an exponent bit of a
// float32, 2^29 / 2^30 of an integer). Buffers shorter than 8 bytes are left
// alone.
func sabotageBuffer(b []byte) int {
	if len(b) < 8 {
		// single scalars are loop-control flags (bfs, kmeans), not results
		return 0
	}
	words := len(b) / 4
	n := 0
	seen := map[int]bool{}
	for k, w := range []int{0, words / 3, 2 * words / 3, words - 1} {
		if seen[w] {
			continue
		}
		seen[w] = true
		if k%2 == 0 {
			b[4*w+3] ^= 0x20
		} else {
			b[4*w+3] ^= 0x40
		}
		n++
	}
	return n
}

func (t *cmdTracer) snapshot() map[string]int64 {
	t.mu.Lock()
	defer t.mu.Unlock()
	d2hDone := t.d2hEnd
	return map[string]int64{
		"kernels_launched": t.kernels, "kernels_completed": t.kernelEnd,
		"d2h_started": t.d2hStart, "d2h_completed_traced": d2hDone, "h2d_started": t.h2dStart,
		"d2h_bytes_dma": t.d2hBytes, "sabotage_words_flipped": t.flipped, "max_wavefronts_per_launch": t.maxWaves,
	}
}

// ---------------------------------------------------------------------------
// logical deadlock watcher (predicate of w_c12/child.go)

const (
	pDrainSubscribed = iota
	pDrainSignalled
	pDrainReturn
	pDrainBeforeWait
	pDrainAfterWait
	pAsyncIdle
	pAsyncSignal
	pAsyncTicked
	pEngineRunReturned
	pEngineExit
	pNotify
	numPoints
)

var pointIdx = map[string]int{
	"drain.subscribed": pDrainSubscribed, "drain.signalled": pDrainSignalled, "drain.return": pDrainReturn,
	"drain.beforeWait": pDrainBeforeWait, "drain.afterWait": pDrainAfterWait,
	"async.idle": pAsyncIdle, "async.signal": pAsyncSignal, "async.ticked": pAsyncTicked,
	"engine.runReturned": pEngineRunReturned, "engine.exit": pEngineExit, "listener.notify": pNotify,
}

type yieldMon struct{ cnt [numPoints]atomic.Int64 }

func (m *yieldMon) hook(point string) {
	if i, ok := pointIdx[point]; ok {
		m.cnt[i].Add(1)
	}
}

type ysnap struct {
	c       [numPoints]int64
	running bool
	kicked  bool
}

func takeSnap(m *yieldMon, d *driver.Driver) ysnap {
	var s ysnap
	for i := range s.c {
		s.c[i] = m.cnt[i].Load()
	}
	s.running, s.kicked = d.VerifEngineState()
	return s
}

// deadlocked: at least one application goroutine is inside Listener.Wait,
// every signal sent to runAsync has been handled and runAsync is back in its
// select, and no engine goroutine exists. Together with "every goroutine that
// runs driver / simulator / benchmark code is parked" nothing can ever run.
func deadlocked(s ysnap) bool {
	inWait := s.c[pDrainBeforeWait] - s.c[pDrainAfterWait]
	asyncIdle := s.c[pAsyncSignal] == s.c[pDrainSignalled] && s.c[pAsyncIdle] == s.c[pAsyncSignal]+1
	return inWait > 0 && asyncIdle && !s.running
}

func watch(m *yieldMon, d *driver.Driver, rec *vlib.ChildRecorder, tr *cmdTracer, stop chan struct{}) {
	for {
		select {
		case <-stop:
			return
		case <-time.After(50 * time.Millisecond):
		}
		a := takeSnap(m, d)
		if !deadlocked(a) {
			continue
		}
		stk := make([]byte, 8<<20)
		stk = stk[:runtime.Stack(stk, true)]
		if !allParked(string(stk)) {
			continue
		}
		if b := takeSnap(m, d); a != b {
			continue
		}
		select {
		case <-stop:
			return
		default:
		}
		rec.Note("hang", map[string]any{"goroutines": trimTo(string(stk), 20000), "yield_counters": a.c, "trace": tr.snapshot()})
		os.Exit(3)
	}
}

func allParked(dump string) bool {
	for _, blk := range strings.Split(dump, "\n\n") {
		nl := strings.IndexByte(blk, '\n')
		if nl < 0 {
			continue
		}
		head, body := blk[:nl], blk[nl:]
		if strings.Contains(body, "main.watch(") {
			continue
		}
		relevant := strings.Contains(body, "mgpusim/v4/") || strings.Contains(body, "akita/v4/sim") ||
			strings.Contains(body, "main.childMain") || strings.Contains(body, "main.(*wrapBench)") || strings.Contains(body, "main.(*seqBench)")
		if !relevant {
			continue
		}
		lb := strings.IndexByte(head, '[')
		rb := strings.IndexByte(head, ']')
		if lb < 0 || rb < lb {
			return false
		}
		state := head[lb+1 : rb]
		if c := strings.IndexByte(state, ','); c >= 0 {
			state = state[:c]
		}
		switch state {
		case "chan receive", "chan send", "select", "sync.WaitGroup.Wait", "semacquire", "sync.Mutex.Lock", "sync.Cond.Wait", "chan receive (nil chan)":
		default:
			return false
		}
	}
	return true
}

func trimTo(s string, n int) string {
	if len(s) > n {
		return s[:n] + "…"
	}
	return s
}

// ---------------------------------------------------------------------------
// benchmark wrapper: records "run_returned" / "verified" at the boundary of
// the benchmark interface the runner calls.

type wrapBench struct {
	inner  benchmarks.Benchmark
	rec    *vlib.ChildRecorder
	tr     *cmdTracer
	oracle string
	idx    int // member index (0 for ordinary cases)
}

func (w *wrapBench) snap() map[string]int64 {
	s := w.tr.snapshot()
	s["member"] = int64(w.idx)
	return s
}

func (w *wrapBench) SelectGPU(g []int) { w.inner.SelectGPU(g) }
func (w *wrapBench) SetUnifiedMemory() { w.inner.SetUnifiedMemory() }

// EnableVerification is what runner.Run calls before Run() under -verify for
// benchmarks that have it (conv2d, im2col).
func (w *wrapBench) EnableVerification() {
	if e, ok := w.inner.(interface{ EnableVerification() }); ok {
		e.EnableVerification()
		w.rec.Note("enable_verification", true)
	}
}

func (w *wrapBench) Run() {
	w.inner.Run()
	w.rec.Note("run_returned", w.snap())
	if w.oracle == oCross {
		// no -verify for these: the operator cross-check ran inside Run()
		w.rec.Note("verified", w.snap())
	}
}

func (w *wrapBench) Verify() {
	w.inner.Verify()
	w.rec.Note("verified", w.snap())
}

// seqBench runs its members one after the other in one application
// goroutine: Run and Verify of member 0, then Run and Verify of member 1, ...
// It is added to the runner as one benchmark; every member keeps the context
// (process) its constructor created with Driver.Init().
type seqBench struct{ members []*wrapBench }

func (s *seqBench) SelectGPU([]int)   {}
func (s *seqBench) SetUnifiedMemory() {}
func (s *seqBench) EnableVerification() {
	for _, m := range s.members {
		m.EnableVerification()
	}
}
func (s *seqBench) Run() {
	for _, m := range s.members {
		m.Run()
		if m.oracle != oCross {
			m.Verify()
		}
	}
}
func (s *seqBench) Verify() {}

// ---------------------------------------------------------------------------

func writeMNIST(dir string, n int, seed int64) {
	r := vlib.NewPRNG(uint64(seed)).Fork("mnist")
	wr := func(name string, hdr []uint32, body []byte) {
		f, err := os.Create(dir + "/" + name)
		if err != nil {
			panic(err)
		}
		z := gzip.NewWriter(f)
		for _, h := range hdr {
			binary.Write(z, binary.BigEndian, h)
		}
		z.Write(body)
		z.Close()
		f.Close()
	}
	img := make([]byte, n*784)
	r.Bytes(img)
	lab := make([]byte, n)
	for i := range lab {
		lab[i] = byte(r.Intn(10))
	}
	for _, p := range []string{"train", "t10k"} {
		wr(p+"-images-idx3-ubyte.gz", []uint32{2051, uint32(n), 28, 28}, img)
		wr(p+"-labels-idx1-ubyte.gz", []uint32{2049, uint32(n)}, lab)
	}
}

func childMain() {
	// args: child <case.json> <runner flags...>
	rec := vlib.ChildRec()
	raw, err := os.ReadFile(os.Args[2])
	if err != nil {
		rec.Note("infra", "cannot read case file: "+err.Error())
		os.Exit(4)
	}
	var cs runCase
	if err := json.Unmarshal(raw, &cs); err != nil {
		rec.Note("infra", "cannot parse case file: "+err.Error())
		os.Exit(4)
	}
	w := findWorkload(cs.Workload)
	if w == nil {
		rec.Note("infra", "unknown workload "+cs.Workload)
		os.Exit(4)
	}
	// the descriptor goes to the record before anything of the code under test runs
	rec.Note("case", cs)

	rand.Seed(cs.RandSeed)
	fl := os.Args[3:]
	if w.NeedsMNIST {
		cwd, _ := os.Getwd()
		n := 8
		if len(cs.Params) >= 2 {
			n = cs.Params[0]*cs.Params[1] + 4
		}
		writeMNIST(cwd, n, cs.RandSeed)
		fl = append(fl, "-mnist-data-folder="+cwd)
	}
	if err := flag.CommandLine.Parse(fl); err != nil {
		rec.Note("infra", "flag parse: "+err.Error())
		os.Exit(4)
	}
	sim.GetIDGenerator()

	mon := &yieldMon{}
	driver.VerifSetYieldHook(mon.hook)

	r := new(runner.Runner).Init()
	d := r.Driver()
	tr := &cmdTracer{kind: map[string]string{}, d2hReqs: map[string]*protocol.MemCopyD2HReq{}, sabotage: cs.Sabotage, rec: rec}
	tracing.CollectTrace(d, tr)

	a := arch.GCN3
	if cs.Class.Arch == "cdna3" {
		a = arch.CDNA3
	}
	if r.ArchType != a || r.Timing != cs.Class.Timing || r.UseUnifiedMemory != cs.Class.UnifiedMem {
		rec.Note("infra", fmt.Sprintf("runner did not take the flags: arch=%v timing=%v um=%v", r.ArchType, r.Timing, r.UseUnifiedMemory))
		os.Exit(4)
	}
	if cs.isPair() {
		// several benchmark objects on one driver, as amd/samples/
		// concurrentkernel and concurrentworkload do: each constructor calls
		// Driver.Init(), each benchmark selects its own GPUs, and the runner
		// gets them through AddBenchmarkWithoutSettingGPUsToUse
		all := append([]member{{Workload: cs.Workload, Params: cs.Params, ParamStr: cs.ParamStr, GPUs: cs.GPUs}}, cs.Extra...)
		var wbs []*wrapBench
		for i, m := range all {
			mw := findWorkload(m.Workload)
			if mw == nil || mw.Oracle == oCross {
				rec.Note("infra", "pair member "+m.Workload+" unknown or without Verify()")
				os.Exit(4)
			}
			inner := mw.Build(d, a, m.Params)
			inner.SelectGPU(m.GPUs)
			wbs = append(wbs, &wrapBench{inner: inner, rec: rec, tr: tr, oracle: mw.Oracle, idx: i})
		}
		if cs.Order == "sequential" {
			r.AddBenchmarkWithoutSettingGPUsToUse(&seqBench{members: wbs})
		} else {
			for _, b := range wbs {
				r.AddBenchmarkWithoutSettingGPUsToUse(b)
			}
		}
		rec.Note("built", fmt.Sprintf("%d members, %s, %s", len(wbs), cs.Order, cs.Place))
	} else {
		inner := w.Build(d, a, cs.Params)
		wb := &wrapBench{inner: inner, rec: rec, tr: tr, oracle: w.Oracle}
		r.AddBenchmark(wb)
		rec.Note("built", reflect.TypeOf(inner).String())
	}

	stop := make(chan struct{})
	go watch(mon, d, rec, tr, stop)

	r.Run() // Driver.Run, b.Run, b.Verify, report, Driver.Terminate, simulation.Terminate
	close(stop)
	rec.Note("done", tr.snapshot())
	os.Exit(0)
}
