package main

// The workload table of w_c01: every benchmark package shipped under
// /repo/amd/benchmarks, how it is constructed (mirrors /repo/amd/samples/*/main.go),
// which parameter vectors are admissible and in which configuration classes.
//
// Admissibility is calibrated, not guessed (DESIGN.md C01): the anchor of every
// workload is the size the project's own acceptance matrix
// (amd/tests/acceptance/cases.go) runs, or the sample's default where the
// matrix passes no size argument. A parameter leaves the anchor only along a
// dimension for which the kernel source has a bounds guard, the launch grid is
// exactly the problem size (the grid builder forms the partial work-group), or
// the host code rounds/pads. The source of every rule is cited next to it.

import (
	"fmt"
	"strings"

	"github.com/sarchlab/mgpusim/v4/amd/arch"
	"github.com/sarchlab/mgpusim/v4/amd/benchmarks"
	"github.com/sarchlab/mgpusim/v4/amd/benchmarks/amdappsdk/bitonicsort"
	"github.com/sarchlab/mgpusim/v4/amd/benchmarks/amdappsdk/fastwalshtransform"
	"github.com/sarchlab/mgpusim/v4/amd/benchmarks/amdappsdk/floydwarshall"
	"github.com/sarchlab/mgpusim/v4/amd/benchmarks/amdappsdk/matrixmultiplication"
	"github.com/sarchlab/mgpusim/v4/amd/benchmarks/amdappsdk/matrixtranspose"
	"github.com/sarchlab/mgpusim/v4/amd/benchmarks/amdappsdk/nbody"
	"github.com/sarchlab/mgpusim/v4/amd/benchmarks/amdappsdk/simpleconvolution"
	"github.com/sarchlab/mgpusim/v4/amd/benchmarks/amdappsdk/vectoradd"
	"github.com/sarchlab/mgpusim/v4/amd/benchmarks/dnn/layer_benchmarks/conv2d"
	"github.com/sarchlab/mgpusim/v4/amd/benchmarks/dnn/layer_benchmarks/im2col"
	"github.com/sarchlab/mgpusim/v4/amd/benchmarks/dnn/layer_benchmarks/relu"
	"github.com/sarchlab/mgpusim/v4/amd/benchmarks/dnn/training_benchmarks/lenet"
	"github.com/sarchlab/mgpusim/v4/amd/benchmarks/dnn/training_benchmarks/minerva"
	"github.com/sarchlab/mgpusim/v4/amd/benchmarks/dnn/training_benchmarks/vgg16"
	"github.com/sarchlab/mgpusim/v4/amd/benchmarks/dnn/training_benchmarks/xor"
	"github.com/sarchlab/mgpusim/v4/amd/benchmarks/heteromark/aes"
	"github.com/sarchlab/mgpusim/v4/amd/benchmarks/heteromark/fir"
	"github.com/sarchlab/mgpusim/v4/amd/benchmarks/heteromark/kmeans"
	"github.com/sarchlab/mgpusim/v4/amd/benchmarks/heteromark/pagerank"
	"github.com/sarchlab/mgpusim/v4/amd/benchmarks/polybench/atax"
	"github.com/sarchlab/mgpusim/v4/amd/benchmarks/polybench/bicg"
	"github.com/sarchlab/mgpusim/v4/amd/benchmarks/rodinia/nw"
	"github.com/sarchlab/mgpusim/v4/amd/benchmarks/shoc/bfs"
	"github.com/sarchlab/mgpusim/v4/amd/benchmarks/shoc/fft"
	"github.com/sarchlab/mgpusim/v4/amd/benchmarks/shoc/spmv"
	"github.com/sarchlab/mgpusim/v4/amd/benchmarks/shoc/stencil2d"
	"github.com/sarchlab/mgpusim/v4/amd/driver"
)

// class is one configuration class of the property's quantifier.
type class struct {
	Arch       string `json:"arch"`     // gcn3 | cdna3
	Timing     bool   `json:"timing"`   // false = functional emulation
	GPUType    string `json:"gpu_type"` // timing only: r9nano | mi300a
	NGPU       int    `json:"ngpu"`     // 1, 2, 4  ({1}, {1,2}, {1,2,3,4})
	UnifiedGPU bool   `json:"unified_gpu"`
	UnifiedMem bool   `json:"unified_mem"`
}

func (c class) mode() string {
	if c.Timing {
		return "timing"
	}
	return "emu"
}

func (c class) gpuClass() string {
	if c.NGPU == 1 {
		return "single"
	}
	if c.UnifiedGPU {
		return fmt.Sprintf("ug%d", c.NGPU)
	}
	return fmt.Sprintf("plain%d", c.NGPU)
}

func (c class) mem() string {
	if c.UnifiedMem {
		return "um"
	}
	return "dm"
}

func (c class) String() string {
	s := c.Arch + "/" + c.mode()
	if c.Timing {
		s += "(" + c.GPUType + ")"
	}
	return s + "/" + c.gpuClass() + "/" + c.mem()
}

// nPlain is the number of GPUs the benchmark's own host code has to split its
// work over (a unified GPU looks like one GPU to the benchmark).
func (c class) nPlain() int {
	if c.UnifiedGPU {
		return 1
	}
	return c.NGPU
}

// timing lists (amd/tests/acceptance/cases.go)
const (
	tlFull    = "full"              // the 20 gcn3/r9nano timing classes: {1},{1,2},{1,2,3,4} x plain/unified GPU x device/unified memory
	tlBFS     = "bfs"               // bfs: {1} and unified {1,2},{1,2,3,4}, device + unified memory (no plain multi-GPU)
	tlSPMV    = "spmv"              // spmv: all GPU sets, device memory only
	tlNone    = "unlisted"          // workload does not appear in the matrix: every gcn3/r9nano class it is capable of
	tlSingle  = "unlisted-single"   // not in the matrix and far too slow in timing mode beyond one GPU (150-900 s per run): single GPU, device memory only
	tlVecAdd  = "vectoradd"         // cdna3/mi300a: {1}, unified {1,2}, unified {1,2,3,4}, device memory (the only mi300a timing entries)
	oVerify   = "verify"            // oracle = Benchmark.Verify() (runner -verify)
	oCross    = "crosscheck"        // oracle = gputensor operator cross-check against tensor.CPUOperator (Verify() is "not implemented" / empty)
	oCrossVer = "crosscheck+verify" // -verify: runner calls EnableVerification() (operator cross-check), Verify() itself is empty
)

type workload struct {
	Name       string
	Suite      string
	Archs      []string // architectures for which the package ships a code object
	ParamNames []string
	Anchor     []int // acceptance-matrix size (or sample default if the matrix passes no size)
	AnchorSrc  string
	// Sizes lists the admissible single-GPU parameter vectors this check draws
	// from, smallest first. Each entry is justified in Admit.
	Sizes [][]int
	// TimingMax: vectors with cost() above this are not used in timing mode
	// (cost control only; admissibility is decided by Adm).
	Cost       func(p []int) int
	Admit      string // human-readable admissibility rule + source
	Adm        func(p []int, c class) bool
	PlainMulti bool // SelectGPU accepts several plain GPUs (false: the package panics "does not support multi-GPU")
	Splits     bool // host code splits the work over its gpus
	UnifiedMem bool // SetUnifiedMemory supported
	TimingList string
	Oracle     string
	Build      func(d *driver.Driver, a arch.Type, p []int) benchmarks.Benchmark
	NeedsMNIST bool
	Runnable   bool // false: linked but cannot run here (reason in Admit)
	// MultiLaunch: the workload launches several kernels that communicate
	// through device memory and / or copies data between host and device
	// between launches (kmeans re-uploads its centroids before every
	// iteration and reads the membership back after it). In timing mode these
	// are the runs that depend on what the caches hold across launches and
	// copies.
	MultiLaunch bool
	// Shapes2D: for workloads whose kernels are launched with a 2-D grid,
	// admissible parameter vectors that give tall (few work-group columns, many
	// rows), wide, or large (> 256 work-groups) grids. The driver's unified
	// multi-GPU launch path (work-group filter, per-GPU share) only shows what
	// it does with such grids: a grid of <= 64 work-groups stays on the first
	// GPU, a square one hides x/y mix-ups. Each entry notes columns x rows.
	Shapes2D [][]int
	// OracleBlind: the workload's Verify() does not look at the data read back
	// (established by reading it and confirmed by the sabotage run of the
	// thorough tier). Its runs are executed and counted, but they are not
	// "non-trivial" and say nothing about the property.
	OracleBlind bool
	// Quar names the region of a listed known finding that (p, c) lies in
	// ("" = none). Quarantined regions are not drawn by the seeded planner
	// (every run there fails for the listed reason and would need a key of its
	// own per class); fixed representatives of every region are part of the
	// canonical battery, so the finding stays observed on every run. The tag is
	// appended to the violation key.
	Quar func(p []int, c class) string
}

// quarantine = workload-specific regions + the two class-wide regions.
func (w *workload) quarantine(p []int, c class) string {
	if c.Timing && c.NGPU > 1 && c.UnifiedMem {
		// every workload: the timing platform builder leaves
		// CommandProcessor.Driver nil (and the page-migration controllers
		// unwired); the first on-demand page migration dereferences it. Plain
		// GPU sets hit it at once, a unified GPU as soon as work-groups reach a
		// second GPU.
		return "timing-multi-gpu-unified-memory"
	}
	if w.Quar != nil {
		return w.Quar(p, c)
	}
	return ""
}

// hipIgnoresGlobalOffset: cdna3 + plain multi-GPU for workloads whose host
// code splits the grid over the GPUs through HiddenGlobalOffsetX while the HIP
// kernel computes its index from blockIdx*blockDim+threadIdx.
func hipIgnoresGlobalOffset(p []int, c class) string {
	if c.Arch == "cdna3" && !c.UnifiedGPU && c.NGPU > 1 {
		return "cdna3-plain-multi-gpu-split-by-global-offset"
	}
	return ""
}

func pow2(n int) bool { return n > 0 && n&(n-1) == 0 }

var both = []string{"gcn3", "cdna3"}

func workloads() []*workload {
	ws := []*workload{
		// ------------------------------------------------------------ amdappsdk
		{
			Name: "vectoradd", Suite: "amdappsdk", Archs: []string{"cdna3"}, // only a gfx942 code object is shipped (kernels.hsaco is the HIP build; no Arch field)
			ParamNames: []string{"width", "height"}, Anchor: []int{4096, 1}, AnchorSrc: "cases.go: -width=4096 -height=1",
			Sizes:      [][]int{{64, 1}, {128, 1}, {64, 3}, {1088, 1}, {4096, 1}},
			Admit:      "width*height must be a multiple of 64*nGPUs: native/vectoradd.cpp guards i<width*height but the host launches exactly numData/nGPUs work-items with HiddenBlockCountX=gridSize/64 (no rounding up), so a ragged tail would simply not be launched",
			Adm:        func(p []int, c class) bool { return p[0]*p[1]%(64*c.nPlain()) == 0 },
			PlainMulti: true, Splits: true, UnifiedMem: true, TimingList: tlVecAdd, Oracle: oVerify,
			Quar: hipIgnoresGlobalOffset,
			Build: func(d *driver.Driver, a arch.Type, p []int) benchmarks.Benchmark {
				b := vectoradd.NewBenchmark(d)
				b.Width, b.Height = uint32(p[0]), uint32(p[1])
				return b
			},
		},
		{
			Name: "bitonicsort", Suite: "amdappsdk", Archs: both,
			ParamNames: []string{"length"}, Anchor: []int{1024}, AnchorSrc: "sample default (matrix entry -length=4096 is commented out)",
			Sizes:      [][]int{{2}, {64}, {256}, {1024}, {2048}},
			Admit:      "length must be a power of two >= 2 (kernels.cl has no guard, the pairing arithmetic needs 2^k); grid = length/2 exactly, split evenly (+remainder to the last queue) by the host, so length/2 >= nGPUs",
			Adm:        func(p []int, c class) bool { return pow2(p[0]) && p[0] >= 2 && p[0]/2 >= c.nPlain() },
			Cost:       func(p []int) int { return p[0] * 12 },
			PlainMulti: true, Splits: true, UnifiedMem: true, TimingList: tlNone, Oracle: oVerify,
			Quar:        hipIgnoresGlobalOffset,
			MultiLaunch: true,
			Build: func(d *driver.Driver, a arch.Type, p []int) benchmarks.Benchmark {
				b := bitonicsort.NewBenchmark(d)
				b.Arch, b.Length, b.OrderAscending = a, p[0], true
				return b
			},
		},
		{
			Name: "fastwalshtransform", Suite: "amdappsdk", Archs: both,
			ParamNames: []string{"length"}, Anchor: []int{1024}, AnchorSrc: "sample default (not in the matrix)",
			Sizes:      [][]int{{2}, {64}, {512}, {1024}, {2048}},
			Admit:      "length must be a power of two >= 2 (no guard in FastWalshTransform_Kernels.cl; grid = length/2 exactly, work-group 256, partial group formed by the grid builder). Plain multi-GPU excluded: the host enqueues the complete transform on every queue over the same array (no split)",
			Adm:        func(p []int, c class) bool { return pow2(p[0]) && p[0] >= 2 },
			PlainMulti: false, Splits: false, UnifiedMem: true, TimingList: tlNone, Oracle: oVerify,
			MultiLaunch: true,
			Build: func(d *driver.Driver, a arch.Type, p []int) benchmarks.Benchmark {
				b := fastwalshtransform.NewBenchmark(d)
				b.Arch, b.Length = a, uint32(p[0])
				return b
			},
		},
		{
			Name: "floydwarshall", Suite: "amdappsdk", Archs: both,
			ParamNames: []string{"node", "iter"}, Anchor: []int{16, 0}, AnchorSrc: "sample default (matrix passes no size)",
			Sizes:      [][]int{{8, 0}, {16, 0}, {16, 5}, {24, 0}, {40, 3}},
			Admit:      "node must be a multiple of the 8x8 block: exec() rounds the grid AND the numNodes kernel argument up to a multiple of 8 while the buffers keep node*node elements (no guard in FloydWarshall_Kernels.cl); iter 0 or > node means node iterations (sample). Plain multi-GPU lists are accepted (matrix lists them) but only gpus[0] is used",
			Adm:        func(p []int, c class) bool { return p[0]%8 == 0 && p[0] >= 8 },
			Cost:       func(p []int) int { return p[0] * p[0] * p[0] },
			PlainMulti: true, Splits: false, UnifiedMem: true, TimingList: tlFull, Oracle: oVerify,
			Shapes2D:    [][]int{{136, 2}, {96, 3}}, // (node/8)^2: 17x17 = 289, 12x12 = 144 work-groups
			MultiLaunch: true,
			Build: func(d *driver.Driver, a arch.Type, p []int) benchmarks.Benchmark {
				b := floydwarshall.NewBenchmark(d)
				b.NumNodes, b.NumIterations, b.Arch = uint32(p[0]), uint32(p[1]), a
				return b
			},
		},
		{
			Name: "matrixmultiplication", Suite: "amdappsdk", Archs: both,
			ParamNames: []string{"x", "y", "z"}, Anchor: []int{128, 128, 128}, AnchorSrc: "cases.go: -x=128 -y=128 -z=128",
			Sizes: [][]int{{32, 32, 32}, {64, 32, 32}, {32, 64, 96}, {64, 64, 64}, {128, 128, 128}},
			Admit: "x, y, z multiples of 32: mmmKernel_local computes 4x4 per work-item in 8x8 groups (32x32 tiles) and loops widthA/4/8 times without any guard; with n plain GPUs the host gives each GPU y/4/n rows of work-items, which must again be a multiple of 8: y % (32*n) == 0",
			Adm: func(p []int, c class) bool {
				return p[0]%32 == 0 && p[2]%32 == 0 && p[1]%(32*c.nPlain()) == 0 && p[0] > 0 && p[1] > 0 && p[2] > 0
			},
			Cost:       func(p []int) int { return p[0] * p[1] * p[2] / 16 },
			PlainMulti: true, Splits: true, UnifiedMem: true, TimingList: tlFull, Oracle: oVerify,
			Shapes2D: [][]int{{32, 640, 64}, {32, 64, 640}}, // (z/32) x (y/32): 2x20, 20x2 (Verify looks at row 0 only)
			Build: func(d *driver.Driver, a arch.Type, p []int) benchmarks.Benchmark {
				b := matrixmultiplication.NewBenchmark(d)
				b.Arch, b.X, b.Y, b.Z = a, uint32(p[0]), uint32(p[1]), uint32(p[2])
				return b
			},
		},
		{
			Name: "matrixtranspose", Suite: "amdappsdk", Archs: both,
			ParamNames: []string{"width"}, Anchor: []int{1024}, AnchorSrc: "cases.go: -width=1024",
			Sizes:      [][]int{{64}, {128}, {192}, {256}, {512}},
			Admit:      "width must be a multiple of 64*nGPUs: 4 elements per work-item and 16x16 groups (no guard in MatrixTranspose_Kernels.cl), and exec() gives each GPU numWGWidth/nGPUs group columns (integer division)",
			Adm:        func(p []int, c class) bool { return p[0] > 0 && p[0]%(64*c.nPlain()) == 0 },
			Cost:       func(p []int) int { return p[0] * p[0] / 4 },
			PlainMulti: true, Splits: true, UnifiedMem: true, TimingList: tlFull, Oracle: oVerify,
			Shapes2D: [][]int{{1280}, {1088}}, // (width/64)^2: 20x20 = 400, 17x17 = 289 work-groups
			Build: func(d *driver.Driver, a arch.Type, p []int) benchmarks.Benchmark {
				b := matrixtranspose.NewBenchmark(d)
				b.Width, b.Arch = p[0], a
				return b
			},
		},
		{
			Name: "nbody", Suite: "amdappsdk", Archs: both,
			ParamNames: []string{"particles", "iter"}, Anchor: []int{1024, 8}, AnchorSrc: "sample default (matrix passes no size)",
			Sizes: [][]int{{1, 1}, {256, 2}, {300, 1}, {512, 2}, {1024, 1}},
			Admit: "any particle count: Run() raises it to >= 256 and rounds it down to a multiple of the 256 group size (host pads); iterations >= 1. Plain multi-GPU lists accepted (matrix lists them); kernels are launched on the context's current GPU only",
			Adm:   func(p []int, c class) bool { return p[0] >= 1 && p[1] >= 1 },
			Cost: func(p []int) int {
				n := p[0] / 256 * 256
				if n < 256 {
					n = 256
				}
				return n * n * p[1] / 4
			},
			PlainMulti: true, Splits: false, UnifiedMem: true, TimingList: tlFull, Oracle: oVerify,
			MultiLaunch: true,
			Build: func(d *driver.Driver, a arch.Type, p []int) benchmarks.Benchmark {
				b := nbody.NewBenchmark(d)
				b.Arch, b.NumParticles, b.NumIterations = a, int32(p[0]), int32(p[1])
				return b
			},
		},
		{
			Name: "simpleconvolution", Suite: "amdappsdk", Archs: both,
			ParamNames: []string{"width", "height", "mask"}, Anchor: []int{254, 254, 3}, AnchorSrc: "sample default (matrix passes no size)",
			Sizes:      [][]int{{1, 1, 3}, {30, 17, 3}, {62, 62, 3}, {33, 31, 5}, {126, 34, 3}},
			Admit:      "any width, height >= 1 and mask >= 3: simpleNonSeparableConvolution returns for x>=width||y>=height, the host pads the input by mask-1 and launches (w+pad)*(h+pad)/nGPUs work-items per GPU (partial group by the grid builder); with mask >= 3 the padding exceeds what the integer division by nGPUs drops",
			Adm:        func(p []int, c class) bool { return p[0] >= 1 && p[1] >= 1 && p[2] >= 3 && p[2]%2 == 1 },
			Cost:       func(p []int) int { return p[0] * p[1] * p[2] * p[2] },
			PlainMulti: true, Splits: true, UnifiedMem: true, TimingList: tlFull, Oracle: oVerify,
			Quar: hipIgnoresGlobalOffset,
			Build: func(d *driver.Driver, a arch.Type, p []int) benchmarks.Benchmark {
				b := simpleconvolution.NewBenchmark(d)
				b.Width, b.Height, b.Arch = uint32(p[0]), uint32(p[1]), a
				b.SetMaskSize(uint32(p[2]))
				return b
			},
		},
		// ----------------------------------------------------------- heteromark
		{
			Name: "aes", Suite: "heteromark", Archs: both,
			ParamNames: []string{"length"}, Anchor: []int{16384}, AnchorSrc: "cases.go: -length=16384",
			Sizes:      [][]int{{64}, {1024}, {1600}, {4160}, {16384}},
			Admit:      "length must be a multiple of 16*nGPUs: one work-item per 16-byte block, grid = length/16/nGPUs exactly (kernels.cl has no guard, none is needed); 1600 and 4160 give grids that are not multiples of the 64 work-group",
			Adm:        func(p []int, c class) bool { return p[0] >= 16*c.nPlain() && p[0]%(16*c.nPlain()) == 0 },
			Cost:       func(p []int) int { return p[0] * 20 },
			PlainMulti: true, Splits: true, UnifiedMem: true, TimingList: tlFull, Oracle: oVerify,
			Quar: hipIgnoresGlobalOffset,
			Build: func(d *driver.Driver, a arch.Type, p []int) benchmarks.Benchmark {
				b := aes.NewBenchmark(d)
				b.Arch, b.Length = a, p[0]
				return b
			},
		},
		{
			Name: "fir", Suite: "heteromark", Archs: both,
			ParamNames: []string{"length", "taps"}, Anchor: []int{8192, 16}, AnchorSrc: "cases.go: -length=8192 (taps default 16)",
			Sizes: [][]int{{4, 16}, {100, 16}, {1028, 3}, {1024, 16}, {8192, 16}},
			Admit: "length must be a multiple of nGPUs: grid = length/nGPUs exactly, work-group 256 (partial group by the grid builder), kernels.cl reads input[tid-i] only for tid>=i; taps >= 1 (the history buffer holds taps floats). length <= 8192 keeps the float32 sums exact as at the anchor",
			Adm: func(p []int, c class) bool {
				return p[0] >= c.nPlain() && p[0]%c.nPlain() == 0 && p[1] >= 1 && p[0] <= 8192
			},
			Cost:       func(p []int) int { return p[0] * p[1] },
			PlainMulti: true, Splits: true, UnifiedMem: true, TimingList: tlFull, Oracle: oVerify,
			Quar: hipIgnoresGlobalOffset,
			Build: func(d *driver.Driver, a arch.Type, p []int) benchmarks.Benchmark {
				b := fir.NewBenchmark(d)
				b.Length, b.NumTapsParam, b.Arch = p[0], p[1], a
				return b
			},
		},
		{
			Name: "kmeans", Suite: "heteromark", Archs: both,
			ParamNames: []string{"points", "features", "clusters", "maxiter"}, Anchor: []int{1024, 32, 5, 5}, AnchorSrc: "cases.go: -points=1024 -features=32 -clusters=5 -max-iter=5",
			Sizes: [][]int{{8, 2, 2, 2}, {8, 2, 2, 4}, {64, 4, 3, 5}, {100, 4, 3, 3}, {260, 8, 5, 2}, {256, 32, 5, 2}, {1024, 32, 5, 5}},
			Admit: "points must be a multiple of nGPUs and >= clusters (initial centroids are the first points): grid = points/nGPUs exactly, kernels.cl guards point_id < npoints / tid >= npoints; features, clusters, maxiter >= 1",
			Adm: func(p []int, c class) bool {
				return p[0] >= c.nPlain() && p[0]%c.nPlain() == 0 && p[0] >= p[2] && p[1] >= 1 && p[2] >= 1 && p[3] >= 1
			},
			Cost:       func(p []int) int { return p[0] * p[1] * p[2] * p[3] },
			PlainMulti: true, Splits: true, UnifiedMem: true, TimingList: tlFull, Oracle: oVerify,
			Quar:        hipIgnoresGlobalOffset,
			MultiLaunch: true,
			Build: func(d *driver.Driver, a arch.Type, p []int) benchmarks.Benchmark {
				b := kmeans.NewBenchmark(d)
				b.Arch, b.NumPoints, b.NumFeatures, b.NumClusters, b.MaxIter = a, p[0], p[1], p[2], p[3]
				return b
			},
		},
		{
			Name: "pagerank", Suite: "heteromark", Archs: both,
			ParamNames: []string{"node", "connections", "iterations"}, Anchor: []int{64, 2048, 2}, AnchorSrc: "cases.go: -node=64 -sparsity=0.5 -iterations=2 (connections = node*node*sparsity)",
			Sizes:      [][]int{{4, 8, 1}, {16, 64, 2}, {33, 200, 3}, {64, 2048, 2}, {100, 1000, 2}},
			Admit:      "node >= 1, node <= connections <= node*node (sample's own clamp), iterations >= 1: one 64-lane group per row, kernels.cl guards row < num_rows. Plain multi-GPU lists accepted (matrix lists them); the kernel runs on the context's GPU",
			Adm:        func(p []int, c class) bool { return p[0] >= 1 && p[1] >= p[0] && p[1] <= p[0]*p[0] && p[2] >= 1 },
			Cost:       func(p []int) int { return (p[0]*64 + p[1]) * p[2] * 4 },
			PlainMulti: true, Splits: false, UnifiedMem: true, TimingList: tlFull, Oracle: oVerify,
			MultiLaunch: true,
			Build: func(d *driver.Driver, a arch.Type, p []int) benchmarks.Benchmark {
				b := pagerank.NewBenchmark(d)
				b.Arch, b.NumNodes, b.NumConnections, b.MaxIterations = a, uint32(p[0]), uint32(p[1]), uint32(p[2])
				return b
			},
		},
		// ------------------------------------------------------------ polybench
		{
			Name: "atax", Suite: "polybench", Archs: both,
			ParamNames: []string{"x", "y"}, Anchor: []int{256, 256}, AnchorSrc: "cases.go: -x=256 -y=256",
			Sizes:      [][]int{{1, 1}, {33, 33}, {100, 100}, {256, 256}, {300, 300}},
			Admit:      "square only (x == y as at the anchor): the host allocates x[] with NX elements but the device buffer and both kernels index it by NY; within square sizes any n >= 1 (atax.cl guards i<nx / j<ny, grid rounded up to 256 by the host)",
			Adm:        func(p []int, c class) bool { return p[0] == p[1] && p[0] >= 1 },
			Cost:       func(p []int) int { return p[0] * p[1] * 2 },
			PlainMulti: true, Splits: false, UnifiedMem: true, TimingList: tlFull, Oracle: oVerify,
			MultiLaunch: true,
			Build: func(d *driver.Driver, a arch.Type, p []int) benchmarks.Benchmark {
				b := atax.NewBenchmark(d)
				b.Arch, b.NX, b.NY = a, p[0], p[1]
				return b
			},
		},
		{
			Name: "bicg", Suite: "polybench", Archs: both,
			ParamNames: []string{"x", "y"}, Anchor: []int{256, 256}, AnchorSrc: "cases.go: -x=256 -y=256",
			Sizes:      [][]int{{1, 1}, {33, 70}, {100, 100}, {256, 256}, {300, 40}},
			Admit:      "any x, y >= 1: bicg.cl guards i<nx / j<ny, the host rounds both grids up to 256, all buffers are sized consistently (r,q: NX; p,s: NY)",
			Adm:        func(p []int, c class) bool { return p[0] >= 1 && p[1] >= 1 },
			Cost:       func(p []int) int { return p[0] * p[1] * 2 },
			PlainMulti: true, Splits: false, UnifiedMem: true, TimingList: tlFull, Oracle: oVerify,
			MultiLaunch: true,
			Build: func(d *driver.Driver, a arch.Type, p []int) benchmarks.Benchmark {
				b := bicg.NewBenchmark(d)
				b.Arch, b.NX, b.NY = a, p[0], p[1]
				return b
			},
		},
		// -------------------------------------------------------------- rodinia
		{
			Name: "nw", Suite: "rodinia", Archs: both,
			ParamNames: []string{"length"}, Anchor: []int{64}, AnchorSrc: "cases.go: -length=64",
			Sizes:      [][]int{{64}, {128}, {192}, {256}},
			Admit:      "length must be a multiple of the 64 block: runKernel1/2 launch workSize/64 diagonal blocks (integer division), nothing covers a tail. SelectGPU panics for more than one GPU (unified GPU is one id)",
			Adm:        func(p []int, c class) bool { return p[0] >= 64 && p[0]%64 == 0 },
			Cost:       func(p []int) int { return p[0] * p[0] * 4 },
			PlainMulti: false, Splits: false, UnifiedMem: true, TimingList: tlNone, Oracle: oVerify,
			MultiLaunch: true,
			Build: func(d *driver.Driver, a arch.Type, p []int) benchmarks.Benchmark {
				b := nw.NewBenchmark(d)
				b.Arch = a
				b.SetLength(p[0])
				return b
			},
		},
		// ----------------------------------------------------------------- shoc
		{
			Name: "bfs", Suite: "shoc", Archs: both,
			ParamNames: []string{"node", "degree"}, Anchor: []int{1024, 3}, AnchorSrc: "cases.go: -node=1024 (degree default 3)",
			Sizes:      [][]int{{2, 1}, {64, 3}, {1000, 3}, {1024, 3}, {1030, 2}},
			Admit:      "node >= 2 (the generator links to other nodes), degree >= 1 and < node: grid rounded up to 1024 by the host, kernels.cl guards tid < numNodes. SelectGPU panics for more than one GPU",
			Adm:        func(p []int, c class) bool { return p[0] >= 2 && p[1] >= 1 && p[1] < p[0] },
			Cost:       func(p []int) int { return (p[0] + 1024) * 40 },
			PlainMulti: false, Splits: false, UnifiedMem: true, TimingList: tlBFS, Oracle: oVerify,
			MultiLaunch: true,
			Build: func(d *driver.Driver, a arch.Type, p []int) benchmarks.Benchmark {
				b := bfs.NewBenchmark(d)
				b.Arch, b.NumNode, b.Degree, b.MaxDepth = a, p[0], p[1], 1<<31-1
				return b
			},
		},
		{
			Name: "fft", Suite: "shoc", Archs: both,
			ParamNames: []string{"bytes"}, Anchor: []int{1 << 20}, AnchorSrc: "cases.go: -MB=1",
			Sizes:       [][]int{{8192}, {20000}, {65536}, {1 << 20}},
			Admit:       "bytes >= 8192 (sample flag -bytes): initMem() derives the number of 512-point transforms by integer division and sizes buffers and grid from that (host rounds down), 64 work-items per transform",
			Adm:         func(p []int, c class) bool { return p[0] >= 8192 },
			Cost:        func(p []int) int { return p[0] * 6 },
			OracleBlind: true, // fftCPU() compares the two halves of the host INPUT array; Benchmark.result is never read
			PlainMulti:  true, Splits: false, UnifiedMem: true, TimingList: tlFull, Oracle: oVerify,
			Build: func(d *driver.Driver, a arch.Type, p []int) benchmarks.Benchmark {
				b := fft.NewBenchmark(d)
				b.Arch, b.Bytes, b.BytesMode, b.Passes = a, int64(p[0]), true, 1
				return b
			},
		},
		{
			Name: "spmv", Suite: "shoc", Archs: both,
			ParamNames: []string{"dim", "permille"}, Anchor: []int{128, 10}, AnchorSrc: "sample default -dim=128 -sparsity=0.01 (matrix passes no size)",
			Sizes:      [][]int{{16, 100}, {100, 50}, {128, 10}, {130, 30}, {256, 10}, {1025, 2}},
			Admit:      "dim >= 1 and dim*dim*sparsity >= 1: grid = dim exactly, work-group 128 (partial group by the grid builder), spmv.cl guards myRow < dim",
			Adm:        func(p []int, c class) bool { return p[0] >= 1 && p[0]*p[0]*p[1]/1000 >= 1 && p[1] <= 1000 },
			Cost:       func(p []int) int { return p[0]*40 + p[0]*p[0]*p[1]/100 },
			PlainMulti: true, Splits: false, UnifiedMem: true, TimingList: tlSPMV, Oracle: oVerify,
			Build: func(d *driver.Driver, a arch.Type, p []int) benchmarks.Benchmark {
				b := spmv.NewBenchmark(d)
				b.Dim, b.Sparsity, b.Arch = int32(p[0]), float64(p[1])/1000, a
				return b
			},
		},
		{
			Name: "stencil2d", Suite: "shoc", Archs: both,
			ParamNames: []string{"row", "col", "iter"}, Anchor: []int{64, 64, 1}, AnchorSrc: "sample default (matrix passes no size)",
			Sizes: [][]int{{16, 64, 1}, {32, 64, 2}, {64, 64, 1}, {16, 128, 1}, {48, 192, 2}, {32, 1280, 1}, {320, 64, 1}},
			Admit: "row multiple of 16, col multiple of 64: one work-item per interior column in groups of 64, 16 rows per group; StencilKernel derives the row pitch from get_num_groups(1)*64 and has no guard, the host launches (rows-2)/16 row groups (integer division)",
			Adm: func(p []int, c class) bool {
				return p[0] >= 16 && p[0]%16 == 0 && p[1] >= 64 && p[1]%64 == 0 && p[2] >= 1
			},
			Cost:       func(p []int) int { return p[0] * p[1] * p[2] * 30 },
			PlainMulti: true, Splits: false, UnifiedMem: true, TimingList: tlFull, Oracle: oVerify,
			Shapes2D:    [][]int{{32, 1280, 1}, {32, 2048, 2}, {320, 64, 1}, {272, 128, 1}}, // work-groups (rows/16) x (cols/64): 2x20, 2x32, 20x1, 17x2
			MultiLaunch: true,
			Build: func(d *driver.Driver, a arch.Type, p []int) benchmarks.Benchmark {
				b := stencil2d.NewBenchmark(d)
				b.Arch, b.NumIteration, b.NumRows, b.NumCols = a, p[2], p[0]+2, p[1]+2
				return b
			},
		},
		// ------------------------------------------------------------------ dnn
		{
			Name: "relu", Suite: "dnn-layer", Archs: both,
			ParamNames: []string{"length"}, Anchor: []int{4096}, AnchorSrc: "sample default (matrix passes no size)",
			Sizes:      [][]int{{4}, {100}, {1028}, {4096}, {4100}},
			Admit:      "length must be a multiple of nGPUs: grid = length/nGPUs exactly (partial group by the grid builder), kernels.cl guards index < count",
			Adm:        func(p []int, c class) bool { return p[0] >= c.nPlain() && p[0]%c.nPlain() == 0 },
			Cost:       func(p []int) int { return p[0] * 4 },
			PlainMulti: true, Splits: true, UnifiedMem: true, TimingList: tlFull, Oracle: oVerify,
			Quar: hipIgnoresGlobalOffset,
			Build: func(d *driver.Driver, a arch.Type, p []int) benchmarks.Benchmark {
				b := relu.NewBenchmark(d)
				b.Arch, b.Length = a, p[0]
				return b
			},
		},
		{
			Name: "conv2d", Suite: "dnn-layer", Archs: both,
			ParamNames: []string{"n", "c", "h", "w", "outc", "k", "pad", "stride", "backward"}, Anchor: []int{1, 1, 28, 28, 3, 3, 0, 1, 0}, AnchorSrc: "sample default (not in the matrix)",
			Sizes: [][]int{{1, 1, 5, 5, 1, 3, 0, 1, 0}, {1, 1, 8, 8, 2, 3, 1, 1, 1}, {2, 1, 9, 7, 3, 3, 1, 2, 0}, {2, 2, 9, 7, 3, 3, 1, 2, 0}, {1, 1, 28, 28, 3, 3, 0, 1, 0}, {1, 1, 8, 8, 110, 3, 1, 1, 0}, {1, 2, 8, 8, 56, 3, 1, 1, 1}},
			Admit: "kernel <= h+2*pad and <= w+2*pad, stride >= 1 (output size formula of the layer); all gputensor kernels guard their element index. Single GPU only (SelectGPU panics)",
			Adm: func(p []int, c class) bool {
				return p[5] <= p[2]+2*p[6] && p[5] <= p[3]+2*p[6] && p[7] >= 1 && p[0] >= 1 && p[1] >= 1 && p[4] >= 1
			},
			Cost:       func(p []int) int { return p[0] * p[1] * p[2] * p[3] * p[4] * p[5] * p[5] * 40 * (1 + 2*p[8]) },
			PlainMulti: false, Splits: false, UnifiedMem: true, TimingList: tlNone, Oracle: oCrossVer,
			MultiLaunch: true,
			Build: func(d *driver.Driver, a arch.Type, p []int) benchmarks.Benchmark {
				b := conv2d.NewBenchmark(d)
				b.N, b.C, b.H, b.W, b.KernelChannel = p[0], p[1], p[2], p[3], p[4]
				b.KernelHeight, b.KernelWidth, b.PadX, b.PadY, b.StrideX, b.StrideY = p[5], p[5], p[6], p[6], p[7], p[7]
				b.EnableBackward, b.Arch = p[8] == 1, a
				return b
			},
		},
		{
			Name: "im2col", Suite: "dnn-layer", Archs: both,
			ParamNames: []string{"n", "c", "h", "w", "k", "pad", "stride", "dilate"}, Anchor: []int{1, 1, 28, 28, 3, 0, 1, 1}, AnchorSrc: "sample default (not in the matrix)",
			Sizes: [][]int{{1, 1, 3, 3, 3, 0, 1, 1}, {1, 2, 9, 9, 3, 1, 2, 1}, {1, 2, 9, 7, 3, 1, 2, 1}, {2, 1, 10, 10, 3, 1, 1, 2}, {1, 1, 28, 28, 3, 0, 1, 1}, {1, 64, 6, 6, 3, 0, 1, 1}, {8, 1, 12, 12, 3, 0, 1, 1}},
			Admit: "effective kernel (dilate*(k-1)+1) <= h+2*pad and <= w+2*pad, stride, dilate >= 1. Single GPU only (SelectGPU panics)",
			Adm: func(p []int, c class) bool {
				ek := p[7]*(p[4]-1) + 1
				return ek <= p[2]+2*p[5] && ek <= p[3]+2*p[5] && p[6] >= 1 && p[7] >= 1
			},
			Cost:       func(p []int) int { return p[0] * p[1] * p[2] * p[3] * p[4] * p[4] * 30 },
			PlainMulti: false, Splits: false, UnifiedMem: true, TimingList: tlNone, Oracle: oCrossVer,
			Shapes2D: [][]int{{1, 64, 6, 6, 3, 0, 1, 1}, {1, 40, 5, 7, 3, 0, 1, 1}, {8, 1, 12, 12, 3, 0, 1, 1}, {2, 16, 10, 10, 3, 1, 1, 1}}, // 8x8 groups over (fields*batch) x (k*k*C): 2x72, 2x45, 100x2, 25x18
			Build: func(d *driver.Driver, a arch.Type, p []int) benchmarks.Benchmark {
				b := im2col.NewBenchmark(d)
				b.N, b.C, b.H, b.W = p[0], p[1], p[2], p[3]
				b.KernelHeight, b.KernelWidth, b.PadX, b.PadY, b.StrideX, b.StrideY, b.DilateX, b.DilateY = p[4], p[4], p[5], p[5], p[6], p[6], p[7], p[7]
				b.Arch = a
				return b
			},
		},
		{
			Name: "xor", Suite: "dnn-training", Archs: []string{"gcn3"}, // the benchmark has no Arch field; its operator stays GCN3
			ParamNames: []string{}, Anchor: []int{}, AnchorSrc: "fixed network, 50 epochs of one batch of 4",
			Sizes:      [][]int{{}},
			Admit:      "no parameters. Verify() panics 'not implemented' and unified memory panics, so the run is made without -verify; the oracle is the operator cross-check the benchmark always enables. Single GPU only",
			Adm:        func(p []int, c class) bool { return true },
			Cost:       func(p []int) int { return 400000 },
			PlainMulti: false, Splits: false, UnifiedMem: false, TimingList: tlSingle, Oracle: oCross,
			Build: func(d *driver.Driver, a arch.Type, p []int) benchmarks.Benchmark { return xor.NewBenchmark(d) },
		},
		{
			Name: "lenet", Suite: "dnn-training", Archs: []string{"gcn3"},
			ParamNames: []string{"batch", "batches", "epoch"}, Anchor: []int{32, 2, 1}, AnchorSrc: "sample default -batch-size=32 -max-batch-per-epoch=2 -epoch=1",
			Sizes: [][]int{{1, 1, 1}, {2, 1, 1}, {3, 2, 1}, {4, 1, 1}},
			Admit: "batch, batches, epoch >= 1 (tiny counts for cost). MNIST is not shipped; the child writes an MNIST-format file pair with seeded pixel/label bytes and passes -mnist-data-folder. Verify() is 'not implemented': run without -verify, EnableVerification=true (operator cross-check). Multi-GPU = data parallel over gpus (mccl broadcast / all-reduce), batch must be a multiple of nGPUs",
			Adm: func(p []int, c class) bool {
				return p[0] >= c.nPlain() && p[0]%c.nPlain() == 0 && p[1] >= 1 && p[2] >= 1
			},
			Cost:       func(p []int) int { return 3000000 * p[0] * p[1] * p[2] },
			PlainMulti: true, Splits: true, UnifiedMem: false, TimingList: tlSingle, Oracle: oCross, NeedsMNIST: true,
			Build: func(d *driver.Driver, a arch.Type, p []int) benchmarks.Benchmark {
				b := lenet.NewBenchmark(d)
				b.BatchSize, b.MaxBatchPerEpoch, b.Epoch, b.EnableVerification = p[0], p[1], p[2], true
				return b
			},
		},
		{
			Name: "minerva", Suite: "dnn-training", Archs: []string{"gcn3"},
			ParamNames: []string{"batch", "batches", "epoch"}, Anchor: []int{32, 2, 1}, AnchorSrc: "sample default -batch-size=32 -max-batch-per-epoch=2 -epoch=1",
			Sizes: [][]int{{1, 1, 1}, {2, 1, 1}, {4, 2, 1}},
			Admit: "as lenet (fully connected 784-256-100-100-10 network on MNIST-format data)",
			Adm: func(p []int, c class) bool {
				return p[0] >= c.nPlain() && p[0]%c.nPlain() == 0 && p[1] >= 1 && p[2] >= 1
			},
			Cost:       func(p []int) int { return 3000000 * p[0] * p[1] * p[2] },
			PlainMulti: true, Splits: true, UnifiedMem: false, TimingList: tlSingle, Oracle: oCross, NeedsMNIST: true,
			Build: func(d *driver.Driver, a arch.Type, p []int) benchmarks.Benchmark {
				b := minerva.NewBenchmark(d)
				b.BatchSize, b.MaxBatchPerEpoch, b.Epoch, b.EnableVerification = p[0], p[1], p[2], true
				return b
			},
		},
		{
			Name: "vgg16", Suite: "dnn-training", Archs: []string{"gcn3"},
			ParamNames: []string{"batch", "batches", "epoch"}, Anchor: []int{8, 2, 1}, AnchorSrc: "sample default",
			Sizes:  [][]int{},
			Admit:  "linked but never run: needs the tiny-imagenet directory tree (dataset/imagenet/data/download.sh; not shipped, no flag to point elsewhere) and 13 convolution layers on 64x64x3 images are far beyond an emulation budget",
			Adm:    func(p []int, c class) bool { return false },
			Oracle: oCross,
			Build: func(d *driver.Driver, a arch.Type, p []int) benchmarks.Benchmark {
				b := vgg16.NewBenchmark(d)
				b.BatchSize, b.MaxBatchPerEpoch, b.Epoch, b.EnableVerification = p[0], p[1], p[2], true
				return b
			},
		},
	}
	for _, w := range ws {
		w.Runnable = len(w.Sizes) > 0
		if w.Cost == nil {
			w.Cost = func(p []int) int {
				n := 1
				for _, v := range p {
					if v > 0 {
						n *= v
					}
				}
				return n
			}
		}
	}
	return ws
}

func findWorkload(name string) *workload {
	for _, w := range workloads() {
		if w.Name == name {
			return w
		}
	}
	return nil
}

// parallelOK: the parallel engine (-parallel) is used only for (workload,
// arch) pairs the acceptance matrix runs with it: every gcn3 entry, and on
// cdna3 vectoradd, spmv, fft, stencil2d, bfs, nw. The cdna3 ports of
// matrixmultiplication and nbody keep their per-work-group tile in ONE global
// buffer shared by all work-groups, which is only correct as long as the
// emulator runs work-groups one after the other (serial engine).
func (w *workload) parallelOK(a string) bool {
	if a == "gcn3" {
		return true
	}
	switch w.Name {
	case "vectoradd", "spmv", "fft", "stencil2d", "bfs", "nw":
		return true
	}
	return false
}

func (w *workload) hasArch(a string) bool {
	for _, x := range w.Archs {
		if x == a {
			return true
		}
	}
	return false
}

func (w *workload) paramString(p []int) string {
	parts := make([]string, len(p))
	for i, v := range p {
		parts[i] = fmt.Sprintf("%s=%d", w.ParamNames[i], v)
	}
	if len(parts) == 0 {
		return "-"
	}
	return strings.Join(parts, ",")
}

// classes enumerates the configuration classes in which the workload is
// generated. Emulation: everywhere the package can run (the property says
// "in functional-emulation mode everywhere"). Timing: only what the acceptance
// matrix lists (see the tl* constants).
func (w *workload) classes() []class {
	var out []class
	type gs struct {
		n  int
		ug bool
	}
	gpuSets := []gs{{1, false}, {2, false}, {4, false}, {2, true}, {4, true}}
	for _, a := range w.Archs {
		for _, g := range gpuSets {
			if g.n > 1 && !g.ug && !w.PlainMulti {
				continue
			}
			for _, um := range []bool{false, true} {
				if um && !w.UnifiedMem {
					continue
				}
				out = append(out, class{Arch: a, NGPU: g.n, UnifiedGPU: g.ug, UnifiedMem: um})
				// timing
				c := class{Arch: a, Timing: true, NGPU: g.n, UnifiedGPU: g.ug, UnifiedMem: um}
				if a == "gcn3" {
					c.GPUType = "r9nano"
					ok := false
					switch w.TimingList {
					case tlFull, tlNone:
						ok = true
					case tlBFS:
						ok = g.n == 1 || g.ug
					case tlSPMV:
						ok = !um
					case tlSingle:
						ok = g.n == 1 && !um
					}
					if ok {
						out = append(out, c)
					}
				} else if w.TimingList == tlVecAdd {
					c.GPUType = "mi300a"
					if !um && (g.n == 1 || g.ug) {
						out = append(out, c)
					}
				}
			}
		}
	}
	return out
}
