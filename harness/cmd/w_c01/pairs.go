package main

// Case family "several benchmarks in one simulation", modelled on the shipped
// samples amd/samples/concurrentkernel and amd/samples/concurrentworkload: two
// or three benchmark objects are created on one driver (each constructor
// calls Driver.Init(), i.e. each is its own process with its own address
// space starting at the same virtual address), each selects its own GPUs, and
// the runner gets them through AddBenchmarkWithoutSettingGPUsToUse. Either the
// instances run one after the other (one application goroutine), or
// runner.Run() starts one goroutine per instance as it does for the samples.
// Oracle: every instance's own Verify().

import (
	"fmt"

	"verifharness/vlib"
)

type pm struct {
	w    string
	p    []int
	gpus []int
}

func mkPair(tag, archName string, timing bool, order string, seed int64, ms ...pm) runCase {
	maxGPU := 1
	used := map[int]bool{}
	for _, m := range ms {
		for _, g := range m.gpus {
			used[g] = true
			if g > maxGPU {
				maxGPU = g
			}
		}
	}
	place := "same-gpu"
	if len(used) > 1 {
		place = "different-gpus"
	}
	c := class{Arch: archName, Timing: timing, NGPU: maxGPU}
	if timing {
		c.GPUType = map[string]string{"gcn3": "r9nano", "cdna3": "mi300a"}[archName]
	}
	w0 := findWorkload(ms[0].w)
	cs := mkCase(w0, ms[0].p, c, tag, seed)
	cs.GPUs = ms[0].gpus
	cs.Order, cs.Place = order, place
	for _, m := range ms {
		w := findWorkload(m.w)
		mc := c
		mc.NGPU = len(m.gpus)
		if w == nil || !w.hasArch(archName) || !w.Adm(m.p, mc) || w.Oracle == oCross || (len(m.gpus) > 1 && !w.PlainMulti) {
			panic(fmt.Sprintf("pair %s: member %s %v not admissible on %s with gpus %v", tag, m.w, m.p, archName, m.gpus))
		}
	}
	for _, m := range ms[1:] {
		w := findWorkload(m.w)
		cs.Extra = append(cs.Extra, member{Workload: m.w, Params: append([]int{}, m.p...), ParamStr: w.paramString(m.p), GPUs: m.gpus})
	}
	return cs
}

var g1, g2, g3 = []int{1}, []int{2}, []int{3}

// canonicalPairs: seed-independent anchors of the family (quick tier).
func canonicalPairs() []runCase {
	var out []runCase
	add := func(archName string, timing bool, order string, ms ...pm) {
		name := ""
		for i, m := range ms {
			if i > 0 {
				name += "+"
			}
			name += m.w
		}
		mode := "emu"
		if timing {
			mode = "timing"
		}
		cs := mkPair(fmt.Sprintf("canon-pair%02d-%s-%s-%s-%s", len(out), name, archName, mode, order), archName, timing, order, 1, ms...)
		cs.ID += "-" + cs.Place
		cs.Canon = true
		out = append(out, cs)
	}
	seq, con := "sequential", "concurrent"
	// emulation, gcn3
	add("gcn3", false, seq, pm{"fir", []int{1024, 16}, g1}, pm{"fir", []int{1028, 3}, g1})
	add("gcn3", false, con, pm{"fir", []int{1024, 16}, g1}, pm{"fir", []int{8192, 16}, g1})
	add("gcn3", false, seq, pm{"relu", []int{4096}, g1}, pm{"relu", []int{1028}, g1})
	add("gcn3", false, con, pm{"relu", []int{4100}, g1}, pm{"relu", []int{4096}, g1})
	add("gcn3", false, seq, pm{"matrixtranspose", []int{128}, g1}, pm{"fir", []int{1024, 16}, g1})
	add("gcn3", false, con, pm{"matrixtranspose", []int{128}, g1}, pm{"fir", []int{1024, 16}, g1})
	add("gcn3", false, con, pm{"kmeans", []int{100, 4, 3, 3}, g1}, pm{"fir", []int{1024, 16}, g1})
	add("gcn3", false, seq, pm{"aes", []int{1600}, g1}, pm{"aes", []int{1024}, g1}, pm{"bfs", []int{64, 3}, g1})
	add("gcn3", false, con, pm{"fir", []int{1024, 16}, g1}, pm{"relu", []int{1028}, g2})
	// first member with >= 64 work-groups: it visits every compute unit of
	// the emulated GPU, so whatever a compute unit keeps per virtual address
	// (decoded instructions, translations) meets the second process
	add("gcn3", false, seq, pm{"relu", []int{4096}, g1}, pm{"fir", []int{1024, 16}, g1})
	add("gcn3", false, seq, pm{"matrixtranspose", []int{512}, g1}, pm{"aes", []int{1600}, g1})
	add("gcn3", false, con, pm{"relu", []int{8192}, g1}, pm{"bfs", []int{64, 3}, g1}, pm{"fir", []int{1028, 3}, g1})
	add("cdna3", false, seq, pm{"vectoradd", []int{4096, 1}, g1}, pm{"relu", []int{1028}, g1})
	add("cdna3", false, con, pm{"relu", []int{4096}, g1}, pm{"aes", []int{1600}, g1})
	// two different kernels behind identical allocation footprints (one buffer
	// of length*4 bytes each): both processes get their code object at the same
	// virtual address, so whatever is cached per program counter collides
	add("gcn3", false, seq, pm{"bitonicsort", []int{2048}, g1}, pm{"fastwalshtransform", []int{2048}, g1})
	add("gcn3", false, con, pm{"fastwalshtransform", []int{1024}, g1}, pm{"bitonicsort", []int{1024}, g1})
	add("cdna3", false, seq, pm{"bitonicsort", []int{2048}, g1}, pm{"fastwalshtransform", []int{2048}, g1})
	// the two shipped samples (fir 10240 there; 8192 keeps the float32 sums exact)
	add("gcn3", false, con, pm{"fir", []int{8192, 16}, g1}, pm{"bitonicsort", []int{64}, g1})
	add("gcn3", false, con, pm{"fir", []int{8192, 16}, []int{1, 2}}, pm{"bitonicsort", []int{64}, g3})
	// emulation, cdna3
	add("cdna3", false, seq, pm{"vectoradd", []int{1088, 1}, g1}, pm{"vectoradd", []int{4096, 1}, g1})
	add("cdna3", false, con, pm{"vectoradd", []int{1088, 1}, g1}, pm{"relu", []int{1028}, g1})
	// timing
	add("gcn3", true, seq, pm{"fir", []int{1024, 16}, g1}, pm{"fir", []int{1028, 3}, g1})
	add("gcn3", true, con, pm{"matrixtranspose", []int{128}, g1}, pm{"relu", []int{1028}, g1})
	return out
}

// pairable: workloads with a Verify() of their own that are cheap at their
// small sizes.
func pairable(ws []*workload, archName string) []*workload {
	var out []*workload
	for _, w := range ws {
		if w.Runnable && w.Oracle != oCross && w.hasArch(archName) {
			out = append(out, w)
		}
	}
	return out
}

func smallSizes(w *workload, archName string, n int) [][]int {
	c := class{Arch: archName, NGPU: 1}
	ss := admissibleSizes(w, c, emuCostCap/6)
	if len(ss) > n {
		ss = ss[:n]
	}
	return ss
}

// seededPairs draws n pairs: workloads, sizes, order and placement from the
// PRNG; emulation (timing for every sixth draw on gcn3 with the smallest sizes).
func seededPairs(r *vlib.PRNG, ws []*workload, n int, seed int64, tag string) []runCase {
	var out []runCase
	for i := 0; i < n; i++ {
		archName := "gcn3"
		if r.Chance(1, 3) {
			archName = "cdna3"
		}
		pool := pairable(ws, archName)
		w1 := pool[r.Intn(len(pool))]
		w2 := w1
		if r.Chance(2, 3) {
			w2 = pool[r.Intn(len(pool))]
		}
		s1, s2 := smallSizes(w1, archName, 3), smallSizes(w2, archName, 3)
		p1, p2 := s1[r.Intn(len(s1))], s2[r.Intn(len(s2))]
		order := "sequential"
		gp2 := g1
		switch r.Intn(3) {
		case 1:
			order = "concurrent"
		case 2:
			order = "concurrent"
			gp2 = g2
		}
		timing := archName == "gcn3" && i%6 == 5
		if timing {
			p1, p2 = s1[0], s2[0]
		}
		cs := mkPair(fmt.Sprintf("%s%02d-%s+%s", tag, i, w1.Name, w2.Name), archName, timing, order, seed+int64(i), pm{w1.Name, p1, g1}, pm{w2.Name, p2, gp2})
		out = append(out, cs)
	}
	return out
}

// thoroughPairs: the whole pairable list in emulation on both architectures:
// every workload twice in sequence on one GPU with two sizes, and every
// workload concurrently with fir (gcn3) / relu (cdna3) on one GPU; a few
// timing anchors; plus seeded pairs.
func thoroughPairs(r *vlib.PRNG, ws []*workload, seed int64) []runCase {
	var out []runCase
	for _, archName := range []string{"gcn3", "cdna3"} {
		partner := pm{"fir", []int{1024, 16}, g1}
		if archName == "cdna3" {
			partner = pm{"relu", []int{1028}, g1}
		}
		for _, w := range pairable(ws, archName) {
			ss := smallSizes(w, archName, 3)
			a, b := ss[0], ss[len(ss)-1]
			out = append(out, mkPair(fmt.Sprintf("tp-self-%s-%s", w.Name, archName), archName, false, "sequential", seed+int64(len(out)), pm{w.Name, b, g1}, pm{w.Name, a, g1}))
			out = append(out, mkPair(fmt.Sprintf("tp-conc-%s-%s", w.Name, archName), archName, false, "concurrent", seed+int64(len(out)), pm{w.Name, b, g1}, partner))
			out = append(out, mkPair(fmt.Sprintf("tp-seq-%s-%s", w.Name, archName), archName, false, "sequential", seed+int64(len(out)), partner, pm{w.Name, b, g1}))
		}
	}
	for _, n := range []string{"relu", "aes", "kmeans", "bfs", "atax", "nw"} {
		w := findWorkload(n)
		p := smallSizes(w, "gcn3", 2)
		out = append(out, mkPair("tp-timing-seq-"+n, "gcn3", true, "sequential", seed+int64(len(out)), pm{"fir", []int{1024, 16}, g1}, pm{n, p[len(p)-1], g1}))
		out = append(out, mkPair("tp-timing-conc-"+n, "gcn3", true, "concurrent", seed+int64(len(out)), pm{n, p[len(p)-1], g1}, pm{"fir", []int{1024, 16}, g1}))
	}
	out = append(out, seededPairs(r, ws, 40, seed+1000, "tps")...)
	return out
}
