package main

import (
	"fmt"
	"os"
	"sort"
	"strings"
	"sync"
	"time"

	"verifharness/vlib"
)

// probeMain (C01_PROBE=<spec>) is a calibration aid, not part of the check:
// it runs every table size of the selected workloads in the selected classes
// and prints one line per run. spec: "emu1" (all workloads, single GPU
// emulation, every arch), "all" (every class, smallest two sizes),
// "<workload>" (every class and size of one workload).
func probeMain(spec string) {
	scratch, cleanup := vlib.Scratch("c01-probe")
	defer cleanup()
	var cases []runCase
	if strings.HasPrefix(spec, "one:") {
		// one:<workload>:<p;p;p>[,<p;p;p>...]:<arch>:<emu|timing>:<ngpu>:<ug|plain>:<um|dm>
		f := strings.Split(spec, ":")
		w := findWorkload(f[1])
		c := class{Arch: f[3], Timing: f[4] == "timing", UnifiedGPU: f[6] == "ug", UnifiedMem: f[7] == "um"}
		fmt.Sscanf(f[5], "%d", &c.NGPU)
		if c.Timing {
			c.GPUType = map[string]string{"gcn3": "r9nano", "cdna3": "mi300a"}[c.Arch]
		}
		for i, ps := range strings.Split(f[2], ",") {
			var p []int
			for _, x := range strings.Split(ps, ";") {
				if x == "" {
					continue
				}
				var v int
				fmt.Sscanf(x, "%d", &v)
				p = append(p, v)
			}
			cs := mkCase(w, p, c, fmt.Sprintf("one-%d", i), 1)
			cs.Sabotage = os.Getenv("C01_SABOTAGE") != ""
			cases = append(cases, cs)
		}
		spec = "none"
	}
	if spec == "pairs" {
		cases = append(cases, canonicalPairs()...)
		cases = append(cases, thoroughPairs(vlib.NewPRNG(1).Fork("probe-pairs"), workloads(), 1)...)
		for s := uint64(2); s <= 9; s++ { // more seeded pairs
			cases = append(cases, seededPairs(vlib.NewPRNG(s).Fork("probe-pairs"), workloads(), 40, int64(s)*1000, fmt.Sprintf("ps%d-", s))...)
		}
		spec = "none"
	}
	for _, w := range workloads() {
		if !w.Runnable {
			continue
		}
		for ci, c := range w.classes() {
			var ss [][]int
			switch {
			case spec == "emu1":
				if c.Timing || c.NGPU > 1 || c.UnifiedMem {
					continue
				}
				ss = admissibleSizes(w, c, 0)
			case spec == "all":
				ss = admissibleSizes(w, c, capFor(c, false))
				if len(ss) > 2 {
					ss = ss[:2]
				}
			case spec == "timingmulti":
				if !c.Timing || c.NGPU == 1 {
					continue
				}
				ss = admissibleSizes(w, c, 0)
			case spec == "emumulti":
				if c.Timing || (c.NGPU == 1 && !c.UnifiedMem) {
					continue
				}
				ss = admissibleSizes(w, c, 0)
			case spec == "shapes":
				if c.Timing || !c.UnifiedGPU {
					continue
				}
				for _, p := range w.Shapes2D {
					if w.Adm(p, c) && w.quarantine(p, c) == "" {
						ss = append(ss, p)
					}
				}
			case spec == "timing1um":
				if !c.Timing || c.NGPU > 1 || !c.UnifiedMem {
					continue
				}
				ss = admissibleSizes(w, c, 0)
			case spec == "timing1":
				if !c.Timing || c.NGPU > 1 || c.UnifiedMem {
					continue
				}
				ss = admissibleSizes(w, c, 0)
			case spec == w.Name:
				ss = admissibleSizes(w, c, 0)
			default:
				continue
			}
			for si, p := range ss {
				cases = append(cases, mkCase(w, p, c, fmt.Sprintf("p-%s-%d-%d", w.Name, ci, si), 1))
			}
		}
	}
	fmt.Printf("probe %s: %d cases\n", spec, len(cases))
	var mu sync.Mutex
	var lines []string
	workers := 14
	if v := os.Getenv("C01_WORKERS"); v != "" {
		fmt.Sscanf(v, "%d", &workers)
	}
	vlib.Parallel(len(cases), workers, func(i int) {
		o := execCase(scratch, cases[i], 15*time.Minute)
		if o.Case.isPair() {
			o.Case.ParamStr, o.Case.Workload = o.Case.ID, "pair"
		}
		l := fmt.Sprintf("%-22s %-34s %-28s %-9s %6.1fs k=%d d2h=%d B=%d wf=%d %s %s", o.Case.Workload, o.Case.ParamStr, o.Case.Class, o.Verdict, o.Dur.Seconds(),
			o.Trace["kernels_launched"], o.Trace["d2h_started"], o.Trace["d2h_bytes_dma"], o.Trace["max_wavefronts_per_launch"], o.Symptom, trimTo(strings.ReplaceAll(o.Detail, "\n", " "), 140))
		mu.Lock()
		lines = append(lines, l)
		mu.Unlock()
		if o.Verdict != "verified" && os.Getenv("C01_PROBE_TAIL") != "" {
			fmt.Println("-----", l)
			fmt.Println(o.Tail)
		}
	})
	sort.Strings(lines)
	for _, l := range lines {
		fmt.Println(l)
	}
}
