// w_c01: simulated kernels compute what the host reference computes
// (DESIGN.md C01). The parent plans cases (workload x admissible parameter
// vector x configuration class), runs each in a child process of this binary
// that builds the platform through the real runner.Runner from real command
// line flags and lets runner.Run() call the benchmark's Run() and Verify(),
// and judges each case from the child's record file: descriptor written before
// the run, "verified" written after Verify() returned. Log text and the exit
// code are never used for the verdict.
//
//go:debug randseednop=0
package main

import (
	"encoding/json"
	"fmt"
	"os"
	"path/filepath"
	"regexp"
	"sort"
	"strings"
	"sync"
	"time"

	"verifharness/vlib"
)

type outcome struct {
	Case      runCase
	Verdict   string // verified | failed | hang | watchdog | infra
	Symptom   string
	Detail    string
	Trace     map[string]int64
	Dur       time.Duration
	PostCrash bool
	Sabotaged bool // the child flipped bits in at least one completed D2H request
	Tail      string
}

var reNum = regexp.MustCompile(`0x[0-9a-fA-F]+|[-+]?\d+(\.\d+)?(e[-+]?\d+)?`)

// crashSymptom normalises the first panic / fatal line of a child's output.
func crashSymptom(out string) (string, string) {
	lines := strings.Split(out, "\n")
	for _, l := range lines {
		t := strings.TrimSpace(l)
		i := -1
		for _, pat := range []string{"panic: ", "Panic: ", "fatal error: "} {
			if k := strings.Index(t, pat); k >= 0 {
				i = k + len(pat)
				break
			}
		}
		if i < 0 {
			continue
		}
		msg := t[i:]
		if k := strings.Index(msg, " [recovered]"); k >= 0 {
			msg = msg[:k]
		}
		norm := reNum.ReplaceAllString(msg, " ")
		norm = strings.Map(func(r rune) rune {
			switch {
			case r >= 'a' && r <= 'z', r >= '0' && r <= '9':
				return r
			case r >= 'A' && r <= 'Z':
				return r + 32
			}
			return ' '
		}, norm)
		f := strings.Fields(norm)
		if len(f) > 8 {
			f = f[:8]
		}
		norm = strings.Join(f, "-")
		return norm, t
	}
	return "exit-without-panic-line", ""
}

func toInt64Map(v any) map[string]int64 {
	out := map[string]int64{}
	if m, ok := v.(map[string]any); ok {
		for k, x := range m {
			if f, ok := x.(float64); ok {
				out[k] = int64(f)
			}
		}
	}
	return out
}

// notesOf reads the free-form notes of a child record without touching a Check.
func notesOf(path string) map[string][]any {
	notes := map[string][]any{}
	data, err := os.ReadFile(path)
	if err != nil {
		return notes
	}
	for _, line := range strings.Split(string(data), "\n") {
		if line == "" {
			continue
		}
		var m struct {
			T string `json:"t"`
			V any    `json:"v"`
		}
		if json.Unmarshal([]byte(line), &m) == nil {
			notes[m.T] = append(notes[m.T], m.V)
		}
	}
	return notes
}

func execCase(scratch string, cs runCase, timeout time.Duration) (o outcome) {
	w := findWorkload(cs.Workload)
	dir, err := os.MkdirTemp(scratch, "case-")
	if err != nil {
		return outcome{Case: cs, Verdict: "infra", Detail: err.Error()}
	}
	cf := filepath.Join(dir, "case.json")
	b, _ := json.Marshal(cs)
	if err := os.WriteFile(cf, b, 0o644); err != nil {
		return outcome{Case: cs, Verdict: "infra", Detail: err.Error()}
	}
	args := append([]string{"child", cf}, cs.flags(w)...)
	res := vlib.RunChild(dir, timeout, []string{"GOMAXPROCS=4"}, args...)
	notes := notesOf(res.RecPath)
	o = outcome{Case: cs, Dur: res.Dur}
	defer func() {
		if o.Verdict == "verified" && !keepDirs {
			os.RemoveAll(dir)
		} else {
			o.Tail = vlib.Tail(res.OutPath, 2500)
			if !keepDirs {
				os.RemoveAll(dir)
			}
		}
	}()
	if v := notes["done"]; len(v) > 0 {
		// final counters: the driver traces an emulation-mode copy only after
		// it has dequeued the command (which is what wakes the application), so
		// the snapshot taken right after Verify() can miss the last copy
		o.Trace = toInt64Map(v[0])
	} else if v := notes["verified"]; len(v) > 0 {
		o.Trace = toInt64Map(v[0])
	} else if v := notes["run_returned"]; len(v) > 0 {
		o.Trace = toInt64Map(v[0])
	}
	_, hasCase := notes["case"]
	switch {
	case len(notes["infra"]) > 0 || !hasCase:
		o.Verdict = "infra"
		o.Detail = fmt.Sprintf("%v exit=%d", notes["infra"], res.ExitCode)
	case len(notes["verified"]) >= 1+len(cs.Extra):
		o.Verdict = "verified"
		o.Sabotaged = len(notes["sabotaged"]) > 0
		if _, done := notes["done"]; !done {
			o.PostCrash = true // died after Verify() returned (teardown); not a C01 matter
		}
	case len(notes["hang"]) > 0:
		o.Verdict = "hang"
		o.Symptom = "hang"
		if m, ok := notes["hang"][0].(map[string]any); ok {
			o.Detail, _ = m["goroutines"].(string)
			o.Trace = toInt64Map(m["trace"])
		}
	case res.TimedOut:
		o.Verdict = "watchdog"
	default:
		o.Verdict = "failed"
		out, _ := os.ReadFile(res.OutPath)
		sym, line := crashSymptom(string(out))
		o.Sabotaged = len(notes["sabotaged"]) > 0
		if cs.isPair() {
			// which member returned from Run() but not from Verify()?
			ret, ver := map[int64]bool{}, map[int64]bool{}
			for _, v := range notes["run_returned"] {
				ret[toInt64Map(v)["member"]] = true
			}
			for _, v := range notes["verified"] {
				ver[toInt64Map(v)["member"]] = true
			}
			o.Symptom = "crash:" + sym
			for i := int64(0); i <= int64(len(cs.Extra)); i++ {
				if ret[i] && !ver[i] {
					o.Symptom = []string{"first", "second", "third", "fourth"}[i] + "-instance-verify-failed"
					break
				}
			}
		} else if len(notes["run_returned"]) > 0 {
			// Run() returned, the child died inside Verify()
			o.Symptom = "verify-failed"
		} else {
			o.Symptom = "crash:" + sym
		}
		o.Detail = line
	}
	return o
}

var keepDirs = os.Getenv("C01_KEEP") != ""

func key(cs runCase, symptom string) string {
	if cs.isPair() {
		return fmt.Sprintf("C01|pair:%s|%s|%s|%s|%s|%s", cs.pairName(), cs.Class.Arch, cs.Class.mode(), cs.Place, cs.Order, symptom)
	}
	k := fmt.Sprintf("C01|%s|%s|%s|%s|%s|%s", cs.Workload, cs.Class.Arch, cs.Class.mode(), cs.Class.gpuClass(), cs.Class.mem(), symptom)
	if w := findWorkload(cs.Workload); w != nil {
		if t := w.quarantine(cs.Params, cs.Class); t != "" {
			k += "|" + t
		}
	}
	return k
}

// ---------------------------------------------------------------------------
// planning

func mkCase(w *workload, p []int, c class, tag string, seed int64) runCase {
	return runCase{
		ID: tag, Workload: w.Name, Params: append([]int{}, p...), ParamStr: w.paramString(p), Class: c,
		RandSeed: seed,
	}
}

// admissibleSizes returns the table sizes admissible in class c (cost-capped
// for timing), smallest first; never empty for a runnable workload (checked).
func admissibleSizes(w *workload, c class, costCap int) [][]int {
	var out [][]int
	for _, p := range w.Sizes {
		if !w.Adm(p, c) || w.quarantine(p, c) != "" {
			continue
		}
		if costCap > 0 && len(out) > 0 && w.Cost(p) > costCap {
			continue
		}
		out = append(out, p)
	}
	return out
}

const (
	emuCostCap    = 6_000_000
	timingCostCap = 400_000
)

func capFor(c class, quick bool) int {
	k := emuCostCap
	if c.Timing {
		k = timingCostCap
	}
	if quick {
		k /= 3
	}
	return k
}

func pickSizes(w *workload, c class, r *vlib.PRNG, n int, quick bool) [][]int {
	ss := admissibleSizes(w, c, capFor(c, quick))
	if len(ss) <= n {
		return ss
	}
	// always the smallest admissible, the rest seeded without repetition
	out := [][]int{ss[0]}
	perm := r.Perm(len(ss) - 1)
	for _, i := range perm[:n-1] {
		out = append(out, ss[1+i])
	}
	return out
}

type pair struct {
	w *workload
	c class
}

func planQuick(ck *vlib.Check, ws []*workload) []runCase {
	var cases []runCase
	r := ck.Rand("plan-quick")
	var pool []pair
	for _, w := range ws {
		if !w.Runnable {
			continue
		}
		// 1: every workload once in emulation, single GPU, seeded small size
		a := w.Archs[r.Intn(len(w.Archs))]
		c := class{Arch: a, NGPU: 1}
		ss := admissibleSizes(w, c, capFor(c, true))
		k := len(ss)
		if k > 3 {
			k = 3
		}
		p := ss[r.Intn(k)]
		cs := mkCase(w, p, c, "emu1-"+w.Name, ck.Seed*1000+int64(len(cases)))
		cs.Parallel = r.Chance(1, 5) && w.parallelOK(c.Arch)
		cases = append(cases, cs)
		for _, c := range w.classes() {
			if c.Timing || c.NGPU > 1 || c.UnifiedMem {
				ss := admissibleSizes(w, c, 0)
				if len(ss) == 0 {
					continue // class-wide quarantine
				}
				if c.Timing && w.Cost(ss[0]) > 2_000_000 {
					continue // dnn training in timing mode: minutes per run, thorough tier only
				}
				if w.Cost(ss[0]) > 8_000_000 {
					continue // dnn training on four plain GPUs in emulation: 1-2 min per run, thorough tier only
				}
				pool = append(pool, pair{w, c})
			}
		}
	}
	// 1b: seeded draws of 2-D-grid shapes (tall / wide / large) on unified
	// GPU classes, emulation
	var shaped []pair
	for _, w := range ws {
		if len(w.Shapes2D) == 0 {
			continue
		}
		for _, c := range w.classes() {
			if !c.Timing && c.UnifiedGPU {
				shaped = append(shaped, pair{w, c})
			}
		}
	}
	for k, i := range r.Perm(len(shaped)) {
		if k >= 8 {
			break
		}
		pr := shaped[i]
		var ok [][]int
		for _, p := range pr.w.Shapes2D {
			if pr.w.Adm(p, pr.c) && pr.w.quarantine(p, pr.c) == "" {
				ok = append(ok, p)
			}
		}
		if len(ok) == 0 {
			continue
		}
		cs := mkCase(pr.w, ok[r.Intn(len(ok))], pr.c, fmt.Sprintf("shape%d-%s", k, pr.w.Name), ck.Seed*1000+300+int64(k))
		cs.Parallel = r.Chance(1, 5) && pr.w.parallelOK(pr.c.Arch)
		cases = append(cases, cs)
	}
	// 1c: at least 4 seeded timing cases of multi-launch workloads
	var ml []pair
	for _, w := range ws {
		if !w.MultiLaunch {
			continue
		}
		for _, c := range w.classes() {
			if c.Timing && len(admissibleSizes(w, c, capFor(c, true))) > 0 {
				ml = append(ml, pair{w, c})
			}
		}
	}
	for k, i := range r.Perm(len(ml)) {
		if k >= 4 {
			break
		}
		pr := ml[i]
		ss := admissibleSizes(pr.w, pr.c, capFor(pr.c, true))
		n := len(ss)
		if n > 3 {
			n = 3
		}
		cs := mkCase(pr.w, ss[r.Intn(n)], pr.c, fmt.Sprintf("ml%d-%s", k, pr.w.Name), ck.Seed*1000+400+int64(k))
		cs.Parallel = r.Chance(1, 5) && pr.w.parallelOK(pr.c.Arch)
		cases = append(cases, cs)
	}
	// 1d: seeded multi-benchmark cases (several processes in one simulation)
	cases = append(cases, seededPairs(ck.Rand("pairs-quick"), ws, 6, ck.Seed*1000+700, "sp")...)
	// 2: seeded rotation of 24 (workload, class) pairs from the timing /
	// multi-GPU / unified-memory classes
	perm := r.Perm(len(pool))
	n := 24
	for i := 0; i < len(perm) && n > 0; i++ {
		pr := pool[perm[i]]
		ss := admissibleSizes(pr.w, pr.c, capFor(pr.c, true))
		if len(ss) == 0 {
			continue
		}
		k := len(ss)
		if k > 2 && pr.c.Timing {
			k = 2 // timing: the two smallest; emulation is fast enough for any table size
		}
		cs := mkCase(pr.w, ss[r.Intn(k)], pr.c, fmt.Sprintf("rot%02d-%s", 24-n, pr.w.Name), ck.Seed*1000+500+int64(n))
		cs.Parallel = r.Chance(1, 5) && pr.w.parallelOK(pr.c.Arch)
		cases = append(cases, cs)
		n--
	}
	return cases
}

func planThorough(ck *vlib.Check, ws []*workload) []runCase {
	var cases []runCase
	r := ck.Rand("plan-thorough")
	for _, w := range ws {
		if !w.Runnable {
			continue
		}
		for ci, c := range w.classes() {
			n := 3
			if c.Timing {
				n = 1 + r.Intn(2)
			}
			for si, p := range pickSizes(w, c, r.ForkN(w.Name, ci), n, false) {
				cs := mkCase(w, p, c, fmt.Sprintf("t-%s-%d-%d", w.Name, ci, si), ck.Seed*100000+int64(len(cases)))
				cs.Parallel = r.Chance(1, 4) && w.parallelOK(c.Arch)
				cases = append(cases, cs)
			}
		}
	}
	cases = append(cases, thoroughPairs(ck.Rand("pairs-thorough"), ws, ck.Seed*100000+50000)...)
	// sabotage: one per workload, smallest size, single GPU timing platform
	// (the only configuration in which read-back data crosses a public
	// boundary before the application sees it; see child.go)
	for _, w := range ws {
		if !w.Runnable {
			continue
		}
		c := class{Arch: "gcn3", Timing: true, GPUType: "r9nano", NGPU: 1}
		if !w.hasArch("gcn3") {
			c = class{Arch: "cdna3", Timing: true, GPUType: "mi300a", NGPU: 1}
		}
		ss := admissibleSizes(w, c, timingCostCap/3)
		base := mkCase(w, sabotageSize(w, ss), c, "sabotage-"+w.Name+"-base", 77)
		cases = append(cases, base)
		cs := mkCase(w, sabotageSize(w, ss), c, "sabotage-"+w.Name, 77)
		cs.Sabotage = true
		cases = append(cases, cs)
	}
	return cases
}

// sabotageSize: the smallest size whose output is not degenerate (a
// one-element problem can make the flipped word the only word).
func sabotageSize(w *workload, ss [][]int) []int {
	if len(ss) > 1 {
		return ss[1]
	}
	return ss[0]
}

// ---------------------------------------------------------------------------

func main() {
	if vlib.IsChild() {
		childMain()
		return
	}
	// --replay <file>: re-run exactly the case of a replay file (read before
	// vlib.Start, which removes stale replay files)
	for i, a := range os.Args {
		if a == "--replay" && i+1 < len(os.Args) {
			replay(os.Args[i+1])
			return
		}
	}
	if p := os.Getenv("C01_PROBE"); p != "" {
		probeMain(p)
		return
	}
	ck := vlib.Start("C01")
	scratch, cleanup := vlib.Scratch("c01")
	defer cleanup()
	ws := workloads()

	// table self-check: every runnable workload has an admissible size in
	// every class it is generated in
	for _, w := range ws {
		if !w.Runnable {
			ck.Distinct("workloads_linked_not_runnable", w.Name)
			continue
		}
		for _, c := range w.classes() {
			if len(admissibleSizes(w, c, 0)) == 0 {
				anyAdm := false
				for _, p := range w.Sizes {
					anyAdm = anyAdm || w.Adm(p, c)
				}
				if !anyAdm {
					ck.Inconclusive(fmt.Sprintf("table: %s has no admissible size in class %s", w.Name, c))
				} else {
					ck.Distinct("quarantined_classes", w.Name+"|"+c.String())
				}
			}
		}
	}

	var cases []runCase
	only := os.Getenv("C01_ONLY") // debugging aid: canonical | workload name
	if only != "canonical" {
		if ck.Thorough() {
			cases = planThorough(ck, ws)
		} else {
			cases = planQuick(ck, ws)
		}
	}
	cases = append(cases, canonical()...)
	cases = append(cases, canonicalPairs()...)
	cases = append(cases, occCanonical(ck.Thorough())...)
	if only == "" {
		cases = append(cases, occSeeded(ck.Rand("occ"), 2, ck.Seed*1000+900)...)
	}
	if only != "" && only != "canonical" {
		var f []runCase
		for _, c := range cases {
			if c.Workload == only {
				f = append(f, c)
			}
		}
		cases = f
	}
	// longest first
	sort.SliceStable(cases, func(i, j int) bool {
		wi, wj := findWorkload(cases[i].Workload), findWorkload(cases[j].Workload)
		ci, cj := wi.Cost(cases[i].Params), wj.Cost(cases[j].Params)
		for _, x := range cases[i].Extra {
			ci += findWorkload(x.Workload).Cost(x.Params)
		}
		for _, x := range cases[j].Extra {
			cj += findWorkload(x.Workload).Cost(x.Params)
		}
		if cases[i].Class.Timing {
			ci *= 12 * cases[i].Class.NGPU
		}
		if cases[j].Class.Timing {
			cj *= 12 * cases[j].Class.NGPU
		}
		return ci > cj
	})
	fmt.Printf("[C01] %d cases planned\n", len(cases))

	var mu sync.Mutex
	var outs []outcome
	workers := 12
	if v := os.Getenv("C01_WORKERS"); v != "" {
		fmt.Sscanf(v, "%d", &workers)
	}
	vlib.Parallel(len(cases), workers, func(i int) {
		// watchdog: 10x the slowest case measured under load (dnn training in
		// timing mode: ~10 min); a sabotaged run either dies early or is not
		// decided
		wd := 100 * time.Minute
		if cases[i].Sabotage {
			wd = 8 * time.Minute
		}
		o := execCase(scratch, cases[i], wd)
		mu.Lock()
		outs = append(outs, o)
		mu.Unlock()
		if os.Getenv("C01_VERBOSE") != "" {
			fmt.Printf("[C01]   %-9s %6.1fs %s %s %s %s\n", o.Verdict, o.Dur.Seconds(), o.Case.ID, o.Case.tripleKey(), o.Symptom, trimTo(o.Detail, 160))
		}
	})
	sort.Slice(outs, func(i, j int) bool { return outs[i].Case.ID < outs[j].Case.ID })

	sens := map[string]string{}
	var slow []string
	baseOK := map[string]bool{}
	for _, o := range outs {
		if strings.HasSuffix(o.Case.ID, "-base") && strings.HasPrefix(o.Case.ID, "sabotage-") {
			baseOK[o.Case.Workload] = o.Verdict == "verified"
		}
	}
	for _, o := range outs {
		cs := o.Case
		w := findWorkload(cs.Workload)
		ck.Eval()
		if o.Dur > 60*time.Second {
			slow = append(slow, fmt.Sprintf("%s %.0fs", cs.tripleKey(), o.Dur.Seconds()))
		}
		if cs.Sabotage {
			ck.Count("sabotage_runs", 1)
			switch {
			case !baseOK[cs.Workload]:
				sens[cs.Workload] = "not decided (the same case fails without sabotage)"
			case o.Verdict == "verified" && o.Sabotaged:
				sens[cs.Workload] = "INSENSITIVE (oracle passed although read-back data was corrupted)"
				ck.Count("sabotage_oracle_insensitive", 1)
				if !w.OracleBlind {
					ck.Inconclusive("oracle of " + cs.Workload + " is insensitive to corrupted read-back data and the table does not say so: its runs prove nothing")
				}
			case o.Verdict == "verified":
				sens[cs.Workload] = "not decided (no D2H request crossed the DMA path)"
			case o.Verdict == "failed" && o.Sabotaged:
				sens[cs.Workload] = "sensitive (" + o.Symptom + ")"
				if strings.HasPrefix(o.Symptom, "crash:") && w.Oracle == oVerify {
					sens[cs.Workload] = "sensitive (the host code itself tripped over the corrupted data before Verify(): " + o.Symptom + ")"
				}
				ck.Count("sabotage_oracle_sensitive", 1)
				if w.OracleBlind {
					fmt.Printf("[C01] note: %s is marked OracleBlind but its oracle reacted to the sabotage; update the table\n", cs.Workload)
				}
			default:
				sens[cs.Workload] = "not decided (" + o.Verdict + ")"
			}
			continue
		}
		cls := fmt.Sprintf("runs/%s/%s/%s/%s", w.Suite, cs.Class.Arch, cs.Class.mode(), cs.Class.gpuClass())
		if cs.isPair() {
			cls = fmt.Sprintf("runs/pairs/%s/%s/%s/%s", cs.Class.Arch, cs.Class.mode(), cs.Place, cs.Order)
			ck.Count("multi_benchmark_runs", 1)
			ck.Distinct("pairs", cs.pairName())
		}
		ck.Count(cls, 1)
		ck.Distinct("triples", cs.tripleKey())
		ck.Distinct("workloads_run", cs.Workload)
		ck.Distinct("classes", cs.Class.String())
		wit := map[string]any{"case": cs, "flags": cs.flags(w), "first_failure_line": o.Detail, "trace": o.Trace, "output_tail": o.Tail,
			"admissibility": w.Admit, "anchor": w.AnchorSrc}
		switch o.Verdict {
		case "verified":
			ck.Count("verified_runs", 1)
			ck.Count("kernels_launched", o.Trace["kernels_launched"])
			ck.Count("d2h_commands", o.Trace["d2h_started"])
			ck.Count("d2h_bytes_dma_path", o.Trace["d2h_bytes_dma"])
			if o.PostCrash {
				ck.Count("died_after_verify_returned", 1)
			}
			if cs.PageCross && cs.Class.UnifiedGPU && cs.Class.NGPU > 1 {
				ck.Count("anchors_with_a_page_crossing_parameter_slice_on_scattered_frames", 1)
			}
			if cs.Class.Arch == "cdna3" && cs.Class.Timing && cs.Class.NGPU == 1 && o.Trace["max_wavefronts_per_launch"] > 480 {
				ck.Count("timing_cdna3_anchors_with_two_wavefronts_per_simd", 1)
			} else if cs.Occ {
				ck.Inconclusive(fmt.Sprintf("occupancy anchor %s launched only %d wavefronts at once (needs > 480): recalibrate", cs.tripleKey(), o.Trace["max_wavefronts_per_launch"]))
			}
			need := int64(1 + len(cs.Extra))
			if cs.isPair() {
				ck.Count("multi_benchmark_runs_verified", 1)
			}
			if w.OracleBlind {
				ck.Count("verified_runs_with_blind_oracle", 1)
			} else if cs.isPair() && (o.Trace["kernels_launched"] < need || o.Trace["d2h_started"] < need) {
				ck.Inconclusive(fmt.Sprintf("vacuous pair run %s: kernels=%d d2h=%d for %d members", cs.tripleKey(), o.Trace["kernels_launched"], o.Trace["d2h_started"], need))
			} else if o.Trace["kernels_launched"] >= 1 && o.Trace["d2h_started"] >= 1 && (!cs.Class.Timing || o.Trace["d2h_bytes_dma"] >= 1) {
				ck.Nontrivial(cs.tripleKey())
			} else {
				ck.Inconclusive(fmt.Sprintf("vacuous run %s: kernels=%d d2h=%d bytes=%d", cs.tripleKey(), o.Trace["kernels_launched"], o.Trace["d2h_started"], o.Trace["d2h_bytes_dma"]))
			}
			ck.Sample(map[string]any{"workload": cs.Workload, "params": cs.ParamStr, "class": cs.Class.String(), "kernels": o.Trace["kernels_launched"], "d2h": o.Trace["d2h_started"]})
		case "failed":
			what := fmt.Sprintf("%s %s in class %s: ", cs.Workload, cs.ParamStr, cs.Class)
			if cs.isPair() {
				what = fmt.Sprintf("%s (%d benchmark objects, one Driver.Init() context each, in one simulation): ", cs.tripleKey(), 1+len(cs.Extra))
			}
			if strings.HasSuffix(o.Symptom, "-instance-verify-failed") {
				what += "that instance's Run() returned, its Verify() did not (" + trimTo(o.Detail, 200) + ")"
			} else if o.Symptom == "verify-failed" {
				what += "Run() returned, Verify() did not (" + trimTo(o.Detail, 200) + ")"
			} else {
				what += "the run died before Verify(): " + trimTo(o.Detail, 200)
			}
			ck.Violation(key(cs, o.Symptom), what, wit)
		case "hang":
			ck.Violation(key(cs, "hang"), fmt.Sprintf("%s %s in class %s: logical deadlock (application in Listener.Wait, runAsync idle, no engine goroutine, every simulator goroutine parked)", cs.Workload, cs.ParamStr, cs.Class), wit)
		case "watchdog":
			ck.Inconclusive(fmt.Sprintf("watchdog fired for %s (%s); tail: %s", cs.ID, cs.tripleKey(), trimTo(o.Tail, 400)))
		default:
			ck.Inconclusive(fmt.Sprintf("infrastructure failure for %s: %s %s", cs.ID, o.Detail, trimTo(o.Tail, 400)))
		}
	}
	if len(sens) > 0 {
		ck.Set("sabotage_verify_sensitivity", sens)
	}
	ck.Set("slow_cases_over_60s", slow)
	tbl := map[string]any{}
	for _, w := range ws {
		tbl[w.Name] = map[string]any{"suite": w.Suite, "archs": w.Archs, "anchor": w.AnchorSrc, "admissibility": w.Admit,
			"plain_multi_gpu": w.PlainMulti, "host_splits_work": w.Splits, "unified_memory": w.UnifiedMem, "timing_list": w.TimingList,
			"oracle": w.Oracle, "oracle_blind": w.OracleBlind, "runnable": w.Runnable, "classes": len(w.classes())}
	}
	ck.Set("workload_table", tbl)

	cleanup() // Finish exits the process: deferred calls do not run
	minNT := 40
	if ck.Thorough() {
		minNT = 600
	}
	if only != "" {
		minNT = 2
	}
	ck.Finish(vlib.FinishOpts{
		Rule: "case = (workload, admissible parameter vector, configuration class = arch x mode x GPU set x unified-GPU x memory mode [, parallel engine]); " +
			"run = child process: runner.Runner built from the case's command-line flags, runner.Run() calls Benchmark.Run() and Benchmark.Verify(); " +
			"held for a case iff the child's record holds 'verified' (written after Verify() returned, or after Run() returned for the dnn training workloads whose oracle is the operator cross-check); " +
			"distinct_nontrivial = distinct (workload, parameter vector, class) triples whose run was verified AND whose 'Driver Command' trace shows >= 1 kernel launch command and >= 1 MemCopyD2H command " +
			"(timing: plus >= 1 byte carried by completed MemCopyD2HReq requests; the emulation copy path reads storage directly and exposes no byte count at a public boundary)",
		Assumptions: []string{
			"admissible parameter vectors are those of the table (anchored on amd/tests/acceptance/cases.go resp. the sample defaults; moved off the anchor only along guarded / padded / exactly-gridded dimensions; rules and sources are in the evidence under workload_table)",
			"timing mode is generated only for (workload, class) pairs the acceptance matrix lists; workloads absent from the matrix (bitonicsort is commented out there) get every gcn3/r9nano class they are capable of; cdna3 timing = vectoradd on mi300a in {1}, unified {1,2}, unified {1,2,3,4}",
			"the oracle is the workload's own Verify() (tolerances and blind spots included: matrixmultiplication checks row 0 only, bitonicsort checks order only, conv2d runs on an all-zero input); fft's Verify() never reads the result (sabotage-confirmed), its runs are executed but not counted as non-trivial",
			"a watchdog kill is inconclusive; a hang is a violation only if the exact deadlock predicate fired inside the child",
			"vgg16 is linked but not run (dataset not shipped, cost)",
		},
		MinNontrivial: minNT,
		MinCounters:   minCounters(minNT, only, ck.Thorough()),
	})
}

func replay(path string) {
	data, err := os.ReadFile(path)
	if err != nil {
		fmt.Println("cannot read replay file:", err)
		os.Exit(2)
	}
	var rf struct {
		Key     string `json:"key"`
		Witness struct {
			Case runCase `json:"case"`
		} `json:"witness"`
	}
	if err := json.Unmarshal(data, &rf); err != nil || rf.Witness.Case.Workload == "" {
		fmt.Println("replay file has no case descriptor:", err)
		os.Exit(2)
	}
	scratch, cleanup := vlib.Scratch("c01-replay")
	defer cleanup()
	cs := rf.Witness.Case
	w := findWorkload(cs.Workload)
	fmt.Printf("[C01] replay %s: %s %s flags=%v\n", rf.Key, cs.Workload, cs.ParamStr, cs.flags(w))
	o := execCase(scratch, cs, 20*time.Minute)
	fmt.Printf("[C01] verdict=%s symptom=%s detail=%s trace=%v\n", o.Verdict, o.Symptom, o.Detail, o.Trace)
	if o.Verdict != "verified" {
		fmt.Println(o.Tail)
		fmt.Printf("VIOLATION property=C01 replay=%s\n", path)
		cleanup()
		os.Exit(1)
	}
	cleanup()
	os.Exit(0)
}

func minCounters(minNT int, only string, thorough bool) map[string]int64 {
	mc := map[string]int64{"verified_runs": int64(minNT), "kernels_launched": int64(minNT), "d2h_commands": int64(minNT)}
	if only == "" || only == "canonical" {
		// cdna3 timing runs (mi300a, one GPU) whose traced launch geometry has
		// > 480 wavefronts in one launch: some SIMD held two wavefronts at once
		mc["timing_cdna3_anchors_with_two_wavefronts_per_simd"] = 6
		if thorough {
			mc["timing_cdna3_anchors_with_two_wavefronts_per_simd"] = 12
		}
		mc["multi_benchmark_runs_verified"] = 20
		// conv2d shapes whose bias slice straddles a page boundary, verified on
		// unified multi-GPU devices (non-consecutive physical frames)
		mc["anchors_with_a_page_crossing_parameter_slice_on_scattered_frames"] = 4
	}
	return mc
}
