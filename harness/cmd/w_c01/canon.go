package main

import "fmt"

// canonical returns the seed-independent battery: fixed representatives of
// every quarantined region (= one reproducer per listed known finding) plus a
// few anchor runs at the acceptance sizes.
func canonical() []runCase {
	var out []runCase
	add := func(name string, p []int, c class) {
		w := findWorkload(name)
		if c.Timing && c.GPUType == "" {
			c.GPUType = map[string]string{"gcn3": "r9nano", "cdna3": "mi300a"}[c.Arch]
		}
		if !w.Adm(p, c) {
			panic(fmt.Sprintf("canonical case %s %v inadmissible in %s", name, p, c))
		}
		cs := mkCase(w, p, c, "canon-"+name+"-"+w.paramString(p)+"-"+c.Arch+"-"+c.mode()+"-"+c.gpuClass()+"-"+c.mem(), 1)
		cs.Canon = true
		out = append(out, cs)
	}
	g := func(n int, ug, um bool) class { return class{Arch: "gcn3", NGPU: n, UnifiedGPU: ug, UnifiedMem: um} }
	cd := func(n int, ug, um bool) class { return class{Arch: "cdna3", NGPU: n, UnifiedGPU: ug, UnifiedMem: um} }
	tm := func(c class) class { c.Timing = true; return c }

	// anchors (acceptance sizes, must hold)
	add("fir", []int{8192, 16}, g(1, false, false))
	add("fir", []int{8192, 16}, tm(g(2, false, false)))
	add("aes", []int{16384}, tm(g(2, false, false))) // stalled before fix e18fcb94
	add("vectoradd", []int{4096, 1}, tm(cd(2, true, false)))
	add("kmeans", []int{1024, 32, 5, 5}, g(4, false, true))

	// region: timing + plain multi-GPU + unified memory (CommandProcessor.Driver nil)
	add("fir", []int{1024, 16}, tm(g(2, false, true)))
	add("fir", []int{1024, 16}, tm(g(4, false, true)))
	add("atax", []int{33, 33}, tm(g(2, false, true)))
	add("matrixtranspose", []int{256}, tm(g(4, false, true)))

	// region: cdna3, plain multi-GPU, grid split through HiddenGlobalOffsetX
	for _, x := range []struct {
		n string
		p []int
	}{{"vectoradd", []int{4096, 1}}, {"relu", []int{1028}}, {"fir", []int{1024, 16}}, {"aes", []int{1024}},
		{"simpleconvolution", []int{30, 17, 3}}, {"kmeans", []int{256, 32, 5, 2}}, {"bitonicsort", []int{256}}} {
		add(x.n, x.p, cd(2, false, false))
		add(x.n, x.p, cd(4, false, true))
	}

	// region: bitonicsort, gcn3 timing, two or more work-groups
	add("bitonicsort", []int{256}, tm(g(1, false, false)))
	add("bitonicsort", []int{128}, tm(g(1, false, false))) // one work-group: holds

	// region: nw with three or more 64-blocks (the package default length is 256)
	add("nw", []int{192}, g(1, false, false))
	add("nw", []int{256}, cd(1, false, false))
	add("nw", []int{192}, tm(g(1, false, false)))

	// region: spmv on cdna3 with more than one work-group
	add("spmv", []int{130, 30}, cd(1, false, false))
	add("spmv", []int{256, 10}, cd(1, false, false))

	// region: im2col with a non-square input (host reference)
	add("im2col", []int{1, 2, 9, 7, 3, 1, 2, 1}, g(1, false, false))
	add("im2col", []int{1, 2, 9, 7, 3, 1, 2, 1}, cd(1, false, false))

	// regions: conv2d on cdna3
	add("conv2d", []int{1, 1, 8, 8, 2, 3, 1, 1, 1}, cd(1, false, false))
	add("conv2d", []int{2, 2, 9, 7, 3, 3, 1, 2, 0}, cd(1, false, false))
	return out
}
