package main

// canonical returns the seed-independent battery: one reproducer per known
// finding plus a few anchor runs.
func canonical() []runCase {
	var out []runCase
	add := func(name string, p []int, c class) {
		w := findWorkload(name)
		cs := mkCase(w, p, c, "canon-"+name+"-"+c.Arch+"-"+c.mode()+"-"+c.gpuClass()+"-"+c.mem(), 1)
		cs.Canon = true
		out = append(out, cs)
	}
	add("fir", []int{1024, 16}, class{Arch: "gcn3", NGPU: 1})
	return out
}
