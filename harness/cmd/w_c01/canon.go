package main

import "fmt"

// canonical returns the seed-independent battery: fixed representatives of
// every quarantined region (= one reproducer per listed known finding) plus a
// few anchor runs at the acceptance sizes.
func canonical() []runCase {
	var out []runCase
	add := func(name string, p []int, c class) {
		w := findWorkload(name)
		if c.Timing && c.GPUType == "" {
			c.GPUType = map[string]string{"gcn3": "r9nano", "cdna3": "mi300a"}[c.Arch]
		}
		if !w.Adm(p, c) {
			panic(fmt.Sprintf("canonical case %s %v inadmissible in %s", name, p, c))
		}
		cs := mkCase(w, p, c, "canon-"+name+"-"+w.paramString(p)+"-"+c.Arch+"-"+c.mode()+"-"+c.gpuClass()+"-"+c.mem(), 1)
		cs.Canon = true
		out = append(out, cs)
	}
	g := func(n int, ug, um bool) class { return class{Arch: "gcn3", NGPU: n, UnifiedGPU: ug, UnifiedMem: um} }
	cd := func(n int, ug, um bool) class { return class{Arch: "cdna3", NGPU: n, UnifiedGPU: ug, UnifiedMem: um} }
	tm := func(c class) class { c.Timing = true; return c }

	// anchors at the acceptance sizes (must hold)
	add("fir", []int{8192, 16}, g(1, false, false))
	add("fir", []int{8192, 16}, tm(g(2, false, false)))
	add("aes", []int{16384}, tm(g(2, false, false))) // stalled before fix e18fcb94
	add("vectoradd", []int{4096, 1}, tm(cd(2, true, false)))
	add("kmeans", []int{1024, 32, 5, 5}, g(4, false, true))

	// fixed small-size sweep: every workload on gcn3 (and a cdna3 subset) in
	// single-GPU emulation, so that the mechanisms C01 is aimed at (instruction
	// semantics, kernel-argument marshalling, LDS pointer patching, partial
	// work-groups, 2-D packets) are exercised identically at every seed
	for _, x := range []struct {
		n string
		p []int
	}{
		{"nw", []int{128}}, {"matrixtranspose", []int{128}}, {"matrixmultiplication", []int{64, 64, 64}},
		{"stencil2d", []int{32, 64, 2}}, {"pagerank", []int{33, 200, 3}}, {"nbody", []int{256, 2}},
		{"floydwarshall", []int{16, 0}}, {"relu", []int{100}}, {"spmv", []int{100, 50}}, {"fir", []int{100, 16}},
		{"aes", []int{1600}}, {"bitonicsort", []int{256}}, {"fastwalshtransform", []int{512}},
		{"kmeans", []int{100, 4, 3, 3}}, {"atax", []int{33, 33}}, {"bicg", []int{33, 70}}, {"bfs", []int{64, 3}},
		{"fft", []int{8192}}, {"simpleconvolution", []int{30, 17, 3}}, {"im2col", []int{1, 2, 9, 9, 3, 1, 2, 1}},
		{"conv2d", []int{1, 1, 8, 8, 2, 3, 1, 1, 1}},
	} {
		add(x.n, x.p, g(1, false, false))
	}
	for _, x := range []struct {
		n string
		p []int
	}{
		{"vectoradd", []int{1088, 1}}, {"relu", []int{100}}, {"matrixtranspose", []int{128}}, {"floydwarshall", []int{16, 0}},
		{"stencil2d", []int{32, 64, 2}}, {"nw", []int{128}}, {"aes", []int{1600}}, {"bfs", []int{64, 3}}, {"fft", []int{8192}},
		{"nbody", []int{256, 2}}, {"kmeans", []int{100, 4, 3, 3}},
	} {
		add(x.n, x.p, cd(1, false, false))
	}
	// multi-GPU splits in benchmark host code, the driver's unified-GPU
	// work-group distribution, unified memory
	add("fir", []int{1024, 16}, g(2, false, false))
	add("relu", []int{1028}, g(4, false, false))
	add("matrixtranspose", []int{256}, g(2, false, false))
	add("matrixmultiplication", []int{64, 64, 64}, g(2, false, false))
	add("kmeans", []int{256, 32, 5, 2}, g(2, false, false))
	add("aes", []int{1024}, g(4, false, false))
	add("simpleconvolution", []int{30, 17, 3}, g(2, false, true))
	add("bitonicsort", []int{256}, g(2, false, false))
	add("vectoradd", []int{128, 1}, cd(2, true, false))
	add("bfs", []int{64, 3}, g(4, true, false))
	add("relu", []int{1028}, g(2, true, true))
	add("stencil2d", []int{32, 64, 2}, cd(4, true, false))
	add("relu", []int{4100}, g(2, true, false))                    // 65 work-groups: the 65th goes to the second GPU
	add("simpleconvolution", []int{126, 34, 3}, g(2, true, false)) // 72 work-groups
	add("vectoradd", []int{4096, 3}, cd(2, true, false))           // 192 work-groups
	add("vectoradd", []int{4096, 2}, cd(2, true, false))           // 128 work-groups: exactly one per compute unit of two GPUs
	add("relu", []int{8192}, g(2, true, false))                    // 128 work-groups
	add("relu", []int{16384}, g(4, true, true))                    // 256 work-groups over four GPUs
	// unified GPUs with 2-D grids that are tall (few work-group columns, many
	// rows), wide, or larger than one work-group per compute unit: the shapes
	// on which the driver's unified launch path (flattened work-group id,
	// per-GPU share) can lose work-groups. All emulation, all must verify.
	add("im2col", []int{1, 64, 6, 6, 3, 0, 1, 1}, g(2, true, false))    // 2 x 72
	add("im2col", []int{1, 64, 6, 6, 3, 0, 1, 1}, g(4, true, false))    // 2 x 72
	add("im2col", []int{1, 40, 5, 7, 3, 0, 1, 1}, cd(4, true, true))    // 2 x 45, non-square image
	add("im2col", []int{8, 1, 12, 12, 3, 0, 1, 1}, g(4, true, false))   // 100 x 2
	add("im2col", []int{2, 16, 10, 10, 3, 1, 1, 1}, cd(2, true, false)) // 25 x 18 = 450
	add("stencil2d", []int{32, 1280, 1}, g(2, true, false))             // 2 x 20
	add("stencil2d", []int{32, 2048, 2}, g(4, true, false))             // 2 x 32
	add("stencil2d", []int{32, 1280, 1}, cd(4, true, false))            // 2 x 20
	add("stencil2d", []int{320, 64, 1}, g(4, true, true))               // 20 x 1
	add("stencil2d", []int{272, 128, 1}, cd(2, true, false))            // 17 x 2
	add("matrixtranspose", []int{1280}, g(4, true, false))              // 20 x 20 = 400
	add("matrixtranspose", []int{1088}, cd(2, true, false))             // 17 x 17 = 289
	add("floydwarshall", []int{136, 2}, g(4, true, false))              // 17 x 17 = 289
	add("floydwarshall", []int{96, 3}, cd(2, true, false))              // 12 x 12 = 144
	add("lenet", []int{1, 1, 1}, g(2, true, false))                     // tall gemm / transpose grids of the layers
	add("minerva", []int{1, 1, 1}, g(4, true, false))                   // 784x256 layer: 16 x 49 gemm grid and its transposes
	// gcn3/r9nano timing, DMA copy path: workloads that launch several kernels
	// and / or copy between host and device between launches (kmeans uploads
	// new centroids before every iteration: a kernel reads a buffer through
	// scalar loads, the host overwrites it, the next kernel reads it again).
	// Sizes stay outside the quarantined stale-L1 regions. All must verify.
	add("kmeans", []int{8, 2, 2, 4}, tm(g(1, false, false)))
	add("kmeans", []int{64, 4, 3, 5}, tm(g(1, false, false)))
	add("kmeans", []int{100, 4, 3, 3}, tm(g(1, false, false)))
	add("kmeans", []int{8, 2, 2, 4}, tm(g(2, true, false)))
	add("kmeans", []int{100, 4, 3, 3}, tm(g(4, true, false)))
	add("kmeans", []int{260, 8, 5, 2}, tm(g(2, false, false)))
	add("bfs", []int{64, 3}, tm(g(1, false, false)))
	add("bfs", []int{64, 3}, tm(g(2, true, false)))
	add("pagerank", []int{16, 64, 3}, tm(g(1, false, false)))
	add("floydwarshall", []int{16, 0}, tm(g(2, true, false)))
	add("nw", []int{128}, tm(g(1, false, false)))
	add("fastwalshtransform", []int{512}, tm(g(1, false, false)))
	add("bitonicsort", []int{128}, tm(g(2, true, false)))
	add("stencil2d", []int{32, 64, 2}, tm(g(1, false, false)))
	add("nbody", []int{256, 2}, tm(g(1, false, false)))
	add("atax", []int{33, 33}, tm(g(1, false, false)))
	add("bicg", []int{33, 70}, tm(g(1, false, false)))
	add("conv2d", []int{1, 1, 8, 8, 2, 3, 1, 1, 1}, tm(g(1, false, false))) // 16 kernels, copies between them
	add("im2col", []int{1, 2, 9, 9, 3, 1, 2, 1}, tm(g(1, false, false)))
	// conv2d keeps weights and bias in ONE parameter buffer; the bias tensor is
	// the slice at offset outc*c*k*k*4. Shapes whose bias straddles a 4 KiB page
	// boundary, on devices whose consecutive virtual pages are NOT consecutive
	// physical frames (unified GPUs place pages round-robin on their members):
	// a copy that ignores the offset inside the page runs into a foreign frame.
	// outc=110,c=1,k=3: bias = bytes 3960..4400; outc=56,c=2: 4032..4256;
	// outc=227,c=1: 8172..9080. Single GPU = control (consecutive frames).
	pc := len(out)
	add("conv2d", []int{1, 1, 8, 8, 110, 3, 1, 1, 0}, g(2, true, false))
	add("conv2d", []int{1, 1, 8, 8, 110, 3, 1, 1, 0}, g(4, true, false))
	add("conv2d", []int{1, 2, 8, 8, 56, 3, 1, 1, 1}, g(4, true, false))
	add("conv2d", []int{1, 1, 6, 6, 227, 3, 0, 1, 0}, cd(2, true, false))
	add("conv2d", []int{1, 1, 8, 8, 110, 3, 1, 1, 0}, cd(4, true, true))
	add("conv2d", []int{1, 1, 8, 8, 110, 3, 1, 1, 0}, g(1, false, false))
	for i := pc; i < len(out); i++ {
		out[i].PageCross = true
	}
	// timing platforms
	add("fir", []int{1024, 16}, tm(g(1, false, false)))
	add("matrixtranspose", []int{128}, tm(g(1, false, false)))
	add("relu", []int{1028}, tm(g(2, true, false)))
	add("vectoradd", []int{128, 1}, tm(cd(1, false, false)))

	// region: timing + plain multi-GPU + unified memory (CommandProcessor.Driver nil)
	add("fir", []int{1024, 16}, tm(g(2, false, true)))
	add("fir", []int{1024, 16}, tm(g(4, false, true)))
	add("atax", []int{33, 33}, tm(g(2, false, true)))
	add("matrixtranspose", []int{256}, tm(g(4, false, true)))
	add("simpleconvolution", []int{126, 34, 3}, tm(g(2, true, true))) // unified GPU: crashes once a second GPU gets work-groups

	// region: cdna3, plain multi-GPU, grid split through HiddenGlobalOffsetX
	for _, x := range []struct {
		n string
		p []int
	}{{"vectoradd", []int{4096, 1}}, {"relu", []int{1028}}, {"fir", []int{1024, 16}}, {"aes", []int{1024}},
		{"simpleconvolution", []int{30, 17, 3}}, {"kmeans", []int{256, 32, 5, 2}}, {"bitonicsort", []int{256}}} {
		add(x.n, x.p, cd(2, false, false))
		add(x.n, x.p, cd(4, false, true))
	}

	// region: bitonicsort, gcn3 timing, two or more work-groups
	add("bitonicsort", []int{256}, tm(g(1, false, false)))
	add("bitonicsort", []int{128}, tm(g(1, false, false))) // one work-group: holds

	// regions: gcn3 timing, later kernels re-read lines that another compute
	// unit has overwritten since they were first read
	add("floydwarshall", []int{24, 0}, tm(g(1, false, false)))
	add("floydwarshall", []int{16, 0}, tm(g(1, false, false))) // holds
	add("pagerank", []int{33, 200, 3}, tm(g(1, false, false)))
	add("pagerank", []int{64, 2048, 2}, tm(g(1, false, false))) // acceptance size: holds

	// fixed upstream (b6371032, ac05422c, efd0931d): now anchors that must hold
	// nw with three or more 64-blocks (the package default length is 256)
	add("nw", []int{192}, g(1, false, false))
	add("nw", []int{256}, cd(1, false, false))
	add("nw", []int{192}, tm(g(1, false, false)))

	// spmv on cdna3 with more than one work-group
	add("spmv", []int{130, 30}, cd(1, false, false))
	add("spmv", []int{256, 10}, cd(1, false, false))

	// im2col with a non-square input (host reference)
	add("im2col", []int{1, 2, 9, 7, 3, 1, 2, 1}, g(1, false, false))
	add("im2col", []int{1, 2, 9, 7, 3, 1, 2, 1}, cd(1, false, false))

	// regions: conv2d on cdna3
	add("conv2d", []int{1, 1, 8, 8, 2, 3, 1, 1, 1}, cd(1, false, false))
	add("conv2d", []int{2, 2, 9, 7, 3, 3, 1, 2, 0}, cd(1, false, false))
	return out
}
