package main

// Occupancy-aware anchors for cdna3 timing on one mi300a (120 compute units x
// 4 SIMDs = 480 SIMDs). A launch of more than 480 wavefronts makes at least
// one SIMD hold two wavefronts of the kernel at once, which is when the
// per-wavefront register-file regions the command processor carves out of a
// SIMD (from KernelCodeObject.WIVgprCount / WFSgprCount) matter. The class is
// not in the acceptance matrix (it lists mi300a timing for vectoradd only);
// every size below was calibrated to verify on the unchanged tree and its
// wavefront count is re-measured from the traced launch geometry on every run.

import (
	"fmt"

	"verifharness/vlib"
)

type occAnchor struct {
	w    string
	p    []int
	fast bool   // <= ~10 s: quick tier
	note string // work-groups x wavefronts
}

var occAnchors = []occAnchor{
	{"im2col", []int{1, 1, 48, 48, 3, 0, 1, 1}, true, "265x2 groups of one wavefront = 530 (kernel uses 10 VGPRs)"},
	{"im2col", []int{1, 3, 34, 34, 3, 0, 1, 1}, true, "128x4 = 512"},
	{"vectoradd", []int{4096, 8}, true, "512 groups of one wavefront (the acceptance workload of this platform)"},
	{"relu", []int{32768}, true, "512"},
	{"kmeans", []int{30784, 2, 2, 1}, true, "481"},
	{"floydwarshall", []int{176, 1}, true, "22x22 = 484"},
	{"simpleconvolution", []int{180, 180, 3}, true, "518"},
	{"pagerank", []int{500, 1500, 2}, true, "500"},
	{"bicg", []int{1, 30976}, true, "121 groups of four wavefronts = 484 (bicgKernel2)"},
	{"matrixtranspose", []int{704}, true, "11x11 groups of four wavefronts = 484"},
	// thorough tier only (30 s - 5 min each)
	{"conv2d", []int{1, 1, 34, 34, 32, 3, 0, 1, 0}, false, "gemm 64x2 groups of four wavefronts = 512"},
	{"matrixmultiplication", []int{32, 704, 704}, false, "22x22 = 484"},
	{"fastwalshtransform", []int{65536}, false, "128 groups of four wavefronts = 512, 16 launches"},
	{"aes", []int{492032}, false, "481"},
	{"bitonicsort", []int{65536}, false, "512, 136 launches (~5 min)"},
	{"stencil2d", []int{512, 1024, 1}, false, "32x16 = 512"},
}

var occClass = class{Arch: "cdna3", Timing: true, GPUType: "mi300a", NGPU: 1}

func occCase(a occAnchor, tag string, seed int64) runCase {
	w := findWorkload(a.w)
	if w == nil || !w.hasArch("cdna3") || !w.Adm(a.p, occClass) {
		panic(fmt.Sprintf("occupancy anchor %s %v inadmissible", a.w, a.p))
	}
	cs := mkCase(w, a.p, occClass, tag+"-"+a.w+"-"+w.paramString(a.p), seed)
	cs.Occ = true
	return cs
}

// occCanonical: 8 fixed quick-tier anchors (thorough: all calibrated ones).
func occCanonical(thorough bool) []runCase {
	var out []runCase
	n := 0
	for _, a := range occAnchors {
		if thorough || (a.fast && n < 8) {
			cs := occCase(a, "canon-occ", 1)
			cs.Canon = true
			out = append(out, cs)
			if a.fast {
				n++
			}
		}
	}
	return out
}

// occSeeded: n seeded draws from the fast anchors with another input seed and
// the parallel engine by chance (vectoradd is what the matrix runs with it).
func occSeeded(r *vlib.PRNG, n int, seed int64) []runCase {
	var fast []occAnchor
	for _, a := range occAnchors {
		if a.fast {
			fast = append(fast, a)
		}
	}
	var out []runCase
	for i, k := range r.Perm(len(fast)) {
		if i >= n {
			break
		}
		cs := occCase(fast[k], fmt.Sprintf("occ-seeded%d", i), seed+int64(i))
		cs.Parallel = fast[k].w == "vectoradd" && r.Bool()
		out = append(out, cs)
	}
	return out
}
