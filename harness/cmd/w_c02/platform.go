package main

// Platforms: emulation and the default timing shapes come from vlib/plat
// (built exactly as runner.Runner builds them); knob variants are built here
// with the public r9nano.Builder / mi300a.Builder options, wired together the
// way /repo/amd/samples/runner/timingconfig/builder.go does it (that builder
// itself exposes only GPU type, number of GPUs and magic copy).

import (
	"fmt"

	"github.com/sarchlab/akita/v4/mem/mem"
	"github.com/sarchlab/akita/v4/mem/vm"
	"github.com/sarchlab/akita/v4/mem/vm/mmu"
	"github.com/sarchlab/akita/v4/noc/networking/pcie"
	"github.com/sarchlab/akita/v4/sim"
	"github.com/sarchlab/akita/v4/simulation"
	"github.com/sarchlab/mgpusim/v4/amd/driver"
	"github.com/sarchlab/mgpusim/v4/amd/samples/runner/timingconfig/gpubuilder"
	"github.com/sarchlab/mgpusim/v4/amd/samples/runner/timingconfig/mi300a"
	"github.com/sarchlab/mgpusim/v4/amd/samples/runner/timingconfig/r9nano"
	"github.com/sarchlab/mgpusim/v4/amd/sampling"

	"verifharness/vlib/plat"
)

// Knobs are the per-GPU builder options that can be reached from outside.
// Zero values keep the builder's default.
type Knobs struct {
	CUPerSA        int    `json:"cu_per_sa,omitempty"`
	NumSA          int    `json:"num_sa,omitempty"`
	L2KB           int    `json:"l2_kb,omitempty"`
	MemBanks       int    `json:"mem_banks,omitempty"`
	Log2Interleave uint64 `json:"log2_interleave,omitempty"`
	FreqMHz        int    `json:"freq_mhz,omitempty"`
}

// PlatSpec selects a platform.
type PlatSpec struct {
	Name    string `json:"name"`
	Timing  bool   `json:"timing"`
	Arch    string `json:"arch"`     // emulation: gcn3 | cdna3
	GPUType string `json:"gpu_type"` // timing: r9nano | mi300a
	NumGPUs int    `json:"num_gpus"`
	Magic   bool   `json:"magic_copy,omitempty"`
	Knobs   *Knobs `json:"knobs,omitempty"`
	// UseGPU: device the program runs on (1 = default). With 2 GPUs and
	// UseGPU = 2 the buffers are allocated on GPU 1 and the kernels run on
	// GPU 2 (remote accesses through the RDMA engines).
	UseGPU int `json:"use_gpu,omitempty"`
}

func buildPlatform(ps PlatSpec) *plat.Platform {
	if ps.NumGPUs <= 0 {
		ps.NumGPUs = 1
	}
	if !ps.Timing || ps.Knobs == nil {
		return plat.Build(plat.Config{Timing: ps.Timing, Arch: ps.Arch, GPUType: ps.GPUType,
			NumGPUs: ps.NumGPUs, MagicCopy: ps.Magic})
	}
	return buildKnobPlatform(ps)
}

func buildKnobPlatform(ps PlatSpec) *plat.Platform {
	s := simulation.MakeBuilder().WithoutMonitoring().Build()
	sampling.InitSampledEngine()
	kn := *ps.Knobs
	const log2PageSize = 12
	memSize := uint64(4 * mem.GB)
	numCUPerSA, numSA := 4, 16
	switchLatency, d2h, h2d := 140, 300, 500
	if ps.GPUType == "mi300a" {
		numCUPerSA, numSA = mi300a.NumCUPerShaderArray, mi300a.NumShaderArray
		switchLatency, d2h, h2d = 15, 150, 250
	}
	if kn.CUPerSA > 0 {
		numCUPerSA = kn.CUPerSA
	}
	if kn.NumSA > 0 {
		numSA = kn.NumSA
	}
	storage := mem.NewStorage(uint64(ps.NumGPUs)*memSize + memSize)

	pageTable := vm.NewPageTable(log2PageSize)
	mmuComp := mmu.MakeBuilder().
		WithEngine(s.GetEngine()).
		WithFreq(1 * sim.GHz).
		WithPageWalkingLatency(100).
		WithLog2PageSize(log2PageSize).
		WithPageTable(pageTable).
		Build("MMU")
	s.RegisterComponent(mmuComp)

	db := driver.MakeBuilder()
	if ps.Magic {
		db = db.WithMagicMemoryCopyMiddleware()
	}
	drv := db.WithEngine(s.GetEngine()).
		WithPageTable(pageTable).
		WithLog2PageSize(log2PageSize).
		WithGlobalStorage(storage).
		WithD2HCycles(d2h).
		WithH2DCycles(h2d).
		Build("Driver")
	s.RegisterComponent(drv)

	rdmaMapper := new(mem.BankedAddressPortMapper)
	rdmaMapper.BankSize = memSize
	rdmaMapper.LowModules = append(rdmaMapper.LowModules, sim.RemotePort("CPU"))

	var gb gpubuilder.GPUBuilder
	if ps.GPUType == "mi300a" {
		b := mi300a.MakeBuilder().WithSimulation(s).WithMMU(mmuComp).
			WithLog2PageSize(log2PageSize).WithGlobalStorage(storage).
			WithNumCUPerShaderArray(numCUPerSA).WithNumShaderArray(numSA)
		if kn.L2KB > 0 {
			b = b.WithL2CacheSize(uint64(kn.L2KB) * mem.KB)
		}
		if kn.MemBanks > 0 {
			b = b.WithNumMemoryBank(kn.MemBanks)
		}
		if kn.Log2Interleave > 0 {
			b = b.WithLog2MemoryBankInterleavingSize(kn.Log2Interleave)
		}
		if kn.FreqMHz > 0 {
			b = b.WithFreq(sim.Freq(kn.FreqMHz) * sim.MHz)
		}
		gb = b
	} else {
		b := r9nano.MakeBuilder().WithSimulation(s).WithMMU(mmuComp).
			WithLog2PageSize(log2PageSize).WithGlobalStorage(storage).
			WithNumCUPerShaderArray(numCUPerSA).WithNumShaderArray(numSA)
		if kn.L2KB > 0 {
			b = b.WithL2CacheSize(uint64(kn.L2KB) * mem.KB)
		}
		if kn.MemBanks > 0 {
			b = b.WithNumMemoryBank(kn.MemBanks)
		}
		if kn.Log2Interleave > 0 {
			b = b.WithLog2MemoryBankInterleavingSize(kn.Log2Interleave)
		}
		if kn.FreqMHz > 0 {
			b = b.WithFreq(sim.Freq(kn.FreqMHz) * sim.MHz)
		}
		gb = b
	}

	conn := pcie.NewConnector().
		WithEngine(s.GetEngine()).
		WithVersion(4, 16).
		WithSwitchLatency(switchLatency)
	conn.CreateNetwork("PCIe")
	root := conn.AddRootComplex([]sim.Port{
		drv.GetPortByName("GPU"),
		drv.GetPortByName("MMU"),
		mmuComp.GetPortByName("Migration"),
		mmuComp.GetPortByName("Top"),
	})
	mmuComp.MigrationServiceProvider = drv.GetPortByName("MMU").AsRemote()

	lastSwitch := root
	for i := 1; i <= ps.NumGPUs; i++ {
		if i%2 == 1 {
			lastSwitch = conn.AddSwitch(root)
		}
		gpu := gb.WithGPUID(uint64(i)).
			WithMemAddrOffset(uint64(i) * memSize).
			WithRDMAAddressMapper(rdmaMapper).
			Build(fmt.Sprintf("GPU[%d]", i))
		drv.RegisterGPU(gpu.GetPortByName("CommandProcessor"),
			driver.DeviceProperties{CUCount: numCUPerSA * numSA, DRAMSize: memSize})
		rdmaMapper.LowModules = append(rdmaMapper.LowModules, gpu.GetPortByName("RDMAData").AsRemote())
		conn.PlugInDevice(lastSwitch, gpu.Ports())
	}
	conn.EstablishRoute()
	return &plat.Platform{Sim: s, Driver: drv, Engine: s.GetEngine()}
}
