package main

// Debugging aid (not used by the check): C02_WATCH=<hex virtual address>
// logs every memory message that touches the watched dword's cache line
// (matched by page offset) at every port of the platform.

import (
	"fmt"
	"os"
	"strconv"
	"strings"

	"github.com/sarchlab/akita/v4/mem/mem"
	"github.com/sarchlab/akita/v4/mem/vm"
	"github.com/sarchlab/akita/v4/sim"

	"verifharness/vlib/plat"
)

type watchHook struct {
	addr uint64
	eng  sim.Engine
	f    *os.File
	port string
}

func (h *watchHook) Func(ctx sim.HookCtx) {
	if ctx.Pos != sim.HookPosPortMsgSend && ctx.Pos != sim.HookPosPortMsgRecvd {
		return
	}
	line := h.addr & 0xfff &^ 63
	off := int(h.addr & 63)
	kind := "send"
	if ctx.Pos == sim.HookPosPortMsgRecvd {
		kind = "recv"
	}
	switch m := ctx.Item.(type) {
	case *mem.WriteReq:
		if m.Address&0xfff&^63 != line {
			return
		}
		o := off - int(m.Address&63)
		val := "-"
		if o >= 0 && o+4 <= len(m.Data) && (m.DirtyMask == nil || m.DirtyMask[o]) {
			val = fmt.Sprintf("%x", m.Data[o:o+4])
		}
		fmt.Fprintf(h.f, "%.9f %-40s %s WRITE id=%s addr=0x%x len=%d val@watch=%s\n", float64(h.eng.CurrentTime())*1e6, h.port, kind, m.ID, m.Address, len(m.Data), val)
	case *mem.ReadReq:
		if m.Address&0xfff&^63 != line {
			return
		}
		fmt.Fprintf(h.f, "%.9f %-40s %s READ  id=%s addr=0x%x len=%d\n", float64(h.eng.CurrentTime())*1e6, h.port, kind, m.ID, m.Address, m.AccessByteSize)
	case *vm.TranslationReq:
		if m.VAddr>>12 != h.addr>>12 {
			return
		}
		fmt.Fprintf(h.f, "%.9f %-40s %s XLATE id=%s vaddr=0x%x\n", float64(h.eng.CurrentTime())*1e6, h.port, kind, m.ID, m.VAddr)
	case *vm.TranslationRsp:
		if m.Page.VAddr>>12 != h.addr>>12 {
			return
		}
		fmt.Fprintf(h.f, "%.9f %-40s %s XRSP  rspto=%s\n", float64(h.eng.CurrentTime())*1e6, h.port, kind, m.RespondTo)
	case *mem.DataReadyRsp:
		fmt.Fprintf(h.f, "%.9f %-40s %s DATA  rspto=%s\n", float64(h.eng.CurrentTime())*1e6, h.port, kind, m.RespondTo)
	case *mem.WriteDoneRsp:
		fmt.Fprintf(h.f, "%.9f %-40s %s WDONE rspto=%s\n", float64(h.eng.CurrentTime())*1e6, h.port, kind, m.RespondTo)
	}
}

func installWatch(p *plat.Platform) {
	w := os.Getenv("C02_WATCH")
	if w == "" {
		return
	}
	addr, err := strconv.ParseUint(strings.TrimPrefix(w, "0x"), 16, 64)
	if err != nil {
		return
	}
	f, _ := os.Create("watch.txt")
	for _, c := range p.Sim.Components() {
		for _, port := range c.Ports() {
			port.AcceptHook(&watchHook{addr: addr, eng: p.Engine, f: f, port: port.Name()})
		}
	}
}
