package main

// Host-API shape of the host program around the generated kernels. The same
// host program runs in both modes; the shape decides through which driver
// contexts the buffers are allocated, uploaded, the kernels launched and the
// results read back:
//
//	""          one context does everything (the shape of every shipped sample)
//	host_wl     a worker context (InitWithExistingPID) launches the kernels, the
//	            main context uploads and reads back
//	host_wc     the main context launches, a worker context uploads and reads back
//	host_three  uploads through one sibling, kernels through a second, read-back
//	            through a third
//	host_2proc  two processes (Driver.Init twice) run the whole program one
//	            after the other on the same GPU; the buffers of both are compared
//
// host_alloc_other: the buffers are allocated through the uploading context
// (otherwise through the launching one). reup: between two kernels the first
// half of the finished kernel's OUT buffer and the random area of TAB are
// uploaded again with new data through the uploading context; the following
// kernel reads both.

import (
	"github.com/sarchlab/mgpusim/v4/amd/driver"

	"verifharness/vlib"
)

var hostShapes = []string{"host_wl", "host_wc", "host_three", "host_2proc"}

var hostCounter = map[string]string{
	"":           "host|one-context",
	"host_wl":    "host|worker-launches-main-copies",
	"host_wc":    "host|main-launches-worker-copies",
	"host_three": "host|three-sibling-contexts",
	"host_2proc": "host|two-processes",
}

// chooseHost draws the host shape of a program (own PRNG stream: the kernels
// of a program do not depend on it).
func chooseHost(p *Program, allow, force map[string]bool) {
	r := vlib.NewPRNG(p.Spec.Seed).Fork("host/" + p.Spec.Arch)
	var c []string
	for _, f := range hostShapes {
		if force[f] {
			p.Host = f
		}
		if allow[f] {
			c = append(c, f)
		}
	}
	if p.Host == "" && len(c) > 0 && r.Bool() {
		p.Host = pick(r, c)
	}
	if p.Host != "" && p.Host != "host_2proc" && allow["host_alloc_other"] && (force["host_alloc_other"] || r.Chance(1, 3)) {
		p.AllocOther = true
	}
	if len(p.Kernels) >= 2 && allow["reup"] && (force["reup"] || r.Chance(1, 3)) {
		p.ReupAfter = r.Intn(len(p.Kernels) - 1)
	}
	if len(p.Kernels) >= 2 && p.ReupAfter < 0 && allow["host_enqueue_all"] && (force["host_enqueue_all"] || r.Chance(1, 4)) {
		p.EnqueueAll = true
	}
	if p.Motifs == nil {
		p.Motifs = map[string]int{}
	}
	p.Motifs[hostCounter[p.Host]]++
	feat := []string{}
	if p.Host != "" {
		feat = append(feat, p.Host)
	}
	if p.AllocOther {
		feat = append(feat, "host_alloc_other")
		p.Motifs["host|buffers-allocated-through-the-copying-context"]++
	}
	if p.ReupAfter >= 0 {
		feat = append(feat, "reup")
		p.Motifs["host|re-upload-between-kernels"]++
	}
	if len(p.Kernels) >= 2 {
		if p.EnqueueAll {
			feat = append(feat, "host_enqueue_all")
			p.Motifs["host|enqueue-all-then-drain"]++
		} else {
			p.Motifs["host|drain-per-kernel"]++
		}
	}
	if len(p.Kernels) > 0 {
		p.Kernels[0].Feat = append(p.Kernels[0].Feat, feat...)
	}
}

// hostCtx: the contexts of one process of the host program.
type hostCtx struct {
	alloc, up, launch, down *driver.Context
}

func makeHost(d *driver.Driver, prog *Program) hostCtx {
	main := d.Init()
	h := hostCtx{alloc: main, up: main, launch: main, down: main}
	switch prog.Host {
	case "host_wl":
		h.launch = d.InitWithExistingPID(main)
	case "host_wc":
		w := d.InitWithExistingPID(main)
		h.up, h.down = w, w
	case "host_three":
		h.launch = d.InitWithExistingPID(main)
		h.down = d.InitWithExistingPID(main)
	}
	h.alloc = h.launch
	if prog.AllocOther {
		h.alloc = h.up
	}
	return h
}
