package main

// Child process: one (program, platform) run. Builds the platform, attaches
// the instruction observers, runs the program through the real driver, reads
// every device buffer back with MemCopyD2H and writes result.json into its
// scratch cwd.

import (
	"crypto/sha256"
	"encoding/base64"
	"encoding/binary"
	"encoding/hex"
	"encoding/json"
	"fmt"
	"math/rand"
	"os"
	"sort"
	"sync/atomic"
	"time"

	"github.com/sarchlab/akita/v4/sim"
	"github.com/sarchlab/akita/v4/tracing"
	"github.com/sarchlab/mgpusim/v4/amd/driver"
	"github.com/sarchlab/mgpusim/v4/amd/emu"
	"github.com/sarchlab/mgpusim/v4/amd/timing/cu"

	"verifharness/vlib"
	"verifharness/vlib/plat"
)

// Case is what a child executes.
type Case struct {
	Prog    *ProgSpec    `json:"prog,omitempty"`
	Shipped *ShippedSpec `json:"shipped,omitempty"`
	Plat    PlatSpec     `json:"plat"`
	Full    bool         `json:"full,omitempty"`
}

// BufDump is one device buffer read back at the end.
type BufDump struct {
	Idx  int    `json:"idx"`
	Ctx  int    `json:"ctx"`
	Name string `json:"name,omitempty"`
	Ptr  uint64 `json:"ptr"`
	Size uint64 `json:"size"`
	SHA  string `json:"sha"`
	Data string `json:"data,omitempty"` // base64 (omitted above 1 MiB)
}

// Result is what a child reports.
type Result struct {
	OK         bool             `json:"ok"`
	Error      string           `json:"error,omitempty"`
	Deadlock   bool             `json:"deadlock,omitempty"`
	Phase      string           `json:"phase,omitempty"`
	Buffers    []BufDump        `json:"buffers"`
	Wavefronts map[string]WfSum `json:"wavefronts"`
	Insts      int              `json:"insts"`
	Opcodes    map[string]int   `json:"opcodes"`
	Launches   int              `json:"launches"`
	CUs        int              `json:"cus"`
	Traces     map[string][]*Ev `json:"traces,omitempty"`
	Features   []string         `json:"features,omitempty"`
	ABIFlags   []string         `json:"abi_flags,omitempty"`
	Flags      []string         `json:"flags,omitempty"`
	KernelInfo []map[string]any `json:"kernel_info,omitempty"`
	Motifs     map[string]int   `json:"motifs,omitempty"`
}

// Args is the kernel argument block of generated kernels (64 bytes).
type Args struct {
	Out driver.Ptr
	In  driver.Ptr
	Tab driver.Ptr
	C   [10]uint32
}

var progress atomic.Int64
var phase atomic.Value

func childMain() {
	var cs Case
	if err := json.Unmarshal([]byte(os.Args[2]), &cs); err != nil {
		panic(err)
	}
	rand.Seed(20240925)
	sim.GetIDGenerator()
	phase.Store("build")
	p := buildPlatform(cs.Plat)
	col := newCollector(cs.Full)
	col.cdna3 = cs.Plat.Arch == "cdna3" || cs.Plat.GPUType == "mi300a"
	if cs.Full && cs.Plat.Timing {
		col.journal, _ = os.Create("journal.txt")
	}
	ncu := 0
	for _, comp := range p.Sim.Components() {
		switch c := comp.(type) {
		case *emu.ComputeUnit:
			c.AcceptHook(col)
			ncu++
		case *cu.ComputeUnit:
			tracing.CollectTrace(c, &cuTracer{c: col, cu: c})
			ncu++
		}
	}
	installWatch(p)
	res := &Result{CUs: ncu}
	done := make(chan struct{})
	go func() {
		defer close(done)
		p.Driver.Run()
		if cs.Prog != nil {
			runGenerated(p, &cs, res)
		} else {
			runShipped(p, &cs, res)
		}
	}()
	// logical deadlock: the engine is not running, nothing kicked it, and the
	// application has made no progress for a long run of observations
	idle := 0
	last := int64(-1)
	tick := time.NewTicker(100 * time.Millisecond)
loop:
	for {
		select {
		case <-done:
			break loop
		case <-tick.C:
			running, kicked := p.Driver.VerifEngineState()
			pr := progress.Load()
			if !running && !kicked && pr == last {
				idle++
			} else {
				idle = 0
			}
			last = pr
			if idle >= 80 {
				res.Deadlock = true
				res.Phase, _ = phase.Load().(string)
				break loop
			}
		}
	}
	res.Wavefronts = col.summaries()
	res.Insts = col.total
	res.Opcodes = col.opcodes
	res.Launches = len(col.launches)
	res.ABIFlags = col.abiFlags()
	res.Flags = col.flags
	if os.Getenv("C02_DIAG") != "" && cs.Plat.Timing {
		if f, err := os.OpenFile("flags.txt", os.O_CREATE|os.O_WRONLY|os.O_APPEND, 0o644); err == nil {
			fmt.Fprintf(f, "diag max-resident-wavefronts-per-cu=%d work-groups-with-scattered-sgprs=%d\n", col.maxLive, col.scattered)
			fmt.Fprintf(f, "diag seq %v\n", col.diagSeq)
			f.Close()
		}
	}
	if cs.Full {
		res.Traces = col.fullTraces()
	}
	res.OK = !res.Deadlock && res.Error == ""
	b, err := json.Marshal(res)
	if err != nil {
		panic(err)
	}
	if err := os.WriteFile("result.json", b, 0o644); err != nil {
		panic(err)
	}
	if vlib.IsChild() {
		vlib.ChildRec().Note("done", true)
	}
	os.Exit(0)
}

// dumpBuffers reads every live buffer of every context back. reader maps a
// context to the context the read-back is issued through (nil / missing: the
// owning context).
func dumpBuffers(d *driver.Driver, res *Result, names map[uint64]string, reader map[*driver.Context]*driver.Context) {
	phase.Store("dump")
	idx := 0
	for ci, ctx := range d.VerifContexts() {
		for _, b := range ctx.VerifBuffers() {
			if b.Freed || b.Size == 0 {
				continue
			}
			via := ctx
			if r := reader[ctx]; r != nil {
				via = r
			}
			data := make([]byte, b.Size)
			d.MemCopyD2H(via, data, b.Ptr)
			progress.Add(1)
			sum := sha256.Sum256(data)
			bd := BufDump{Idx: idx, Ctx: ci, Ptr: uint64(b.Ptr), Size: b.Size, SHA: hex.EncodeToString(sum[:8]), Name: names[uint64(b.Ptr)]}
			if b.Size <= 4<<20 {
				bd.Data = base64.StdEncoding.EncodeToString(data)
			}
			res.Buffers = append(res.Buffers, bd)
			idx++
		}
	}
}

func runGenerated(p *plat.Platform, cs *Case, res *Result) {
	prog, err := BuildProgram(*cs.Prog)
	if err != nil {
		res.Error = "generator: " + err.Error()
		return
	}
	d := p.Driver
	names := map[uint64]string{}
	reader := map[*driver.Context]*driver.Context{}
	nproc := 1
	if prog.Host == "host_2proc" {
		nproc = 2
	}
	for pi := 0; pi < nproc; pi++ {
		h := makeHost(d, prog)
		reader[h.alloc] = h.down
		runProcess(d, cs, prog, res, h, names, pi)
	}
	res.Features = prog.features()
	res.Motifs = prog.Motifs
	dumpBuffers(d, res, names, reader)
	sort.Strings(res.Features)
}

// runProcess runs the host program of one process: allocate, upload, launch
// the kernels one after the other.
func runProcess(d *driver.Driver, cs *Case, prog *Program, res *Result, h hostCtx, names map[uint64]string, pi int) {
	// every process has its own input data (same virtual addresses, different
	// contents: what one process must never see of the other)
	dataR := vlib.NewPRNG(cs.Prog.Seed).Fork("data")
	if pi > 0 {
		dataR = vlib.NewPRNG(cs.Prog.Seed).ForkN("data/process", pi)
	}
	inData := make([]byte, prog.InSize)
	dataR.Bytes(inData)
	tabData := make([]byte, prog.TabSize)
	dataR.Bytes(tabData)
	phase.Store("alloc")
	for _, c := range []*driver.Context{h.alloc, h.up, h.down} {
		d.SelectGPU(c, 1)
	}
	in := d.AllocateMemory(h.alloc, uint64(len(inData)))
	tab := d.AllocateMemory(h.alloc, uint64(len(tabData)))
	names[uint64(in)], names[uint64(tab)] = "IN", "TAB"
	d.MemCopyH2D(h.up, in, inData)
	d.MemCopyH2D(h.up, tab, tabData)
	progress.Add(1)
	var outs []driver.Ptr
	for i, k := range prog.Kernels {
		if k.OutTo >= 0 {
			outs = append(outs, outs[k.OutTo])
			continue
		}
		size := k.L.slots() * k.OStr
		o := d.AllocateMemory(h.alloc, uint64(size))
		fill := make([]byte, size)
		for j := range fill {
			fill[j] = 0xA5
		}
		d.MemCopyH2D(h.up, o, fill)
		names[uint64(o)] = fmt.Sprintf("OUT%d", i)
		outs = append(outs, o)
		progress.Add(1)
	}
	if len(prog.Patches)+len(prog.TabInit) > 0 {
		// host-prepared pointer / index tables of the dependent-load motifs: the
		// addresses are known now; TAB is written once more before any kernel
		// runs and never by a kernel
		for _, w := range prog.TabInit {
			binary.LittleEndian.PutUint32(tabData[w.Off:], w.Val)
		}
		for _, pt := range prog.Patches {
			base := uint64(tab)
			if pt.Base == "out" {
				base = uint64(outs[pt.K])
			}
			for i := 0; i < pt.Count; i++ {
				binary.LittleEndian.PutUint64(tabData[pt.Off+8*i:], base+uint64(pt.Add+pt.Stride*int64(i)))
			}
		}
		d.MemCopyH2D(h.up, tab, tabData)
		progress.Add(1)
	}
	use := 1
	if cs.Plat.UseGPU > 1 {
		use = cs.Plat.UseGPU
	}
	d.SelectGPU(h.launch, use)
	q := d.CreateCommandQueue(h.launch)
	for i, k := range prog.Kernels {
		phase.Store(fmt.Sprintf("p%d-kernel%d", pi, i))
		args := Args{Out: outs[i], In: in, Tab: tab, C: k.Consts}
		if k.InFrom >= 0 {
			args.In = outs[k.InFrom]
		}
		d.EnqueueLaunchKernel(q, k.CO, k.L.Grid, k.L.WG, &args)
		if !prog.EnqueueAll || i == len(prog.Kernels)-1 {
			d.DrainCommandQueue(q)
		}
		progress.Add(1)
		res.KernelInfo = append(res.KernelInfo, map[string]any{"launch": k.L, "insts": k.NInst, "mem_insts": k.NMem, "features": k.Feat})
		if i == prog.ReupAfter && i+1 < len(prog.Kernels) {
			// re-upload with new data through the copying context: the first
			// half of the finished kernel's OUT buffer (the next kernel's input)
			// and the random area of TAB (every kernel's scalar / table loads)
			reR := vlib.NewPRNG(cs.Prog.Seed).Fork("reup")
			half := make([]byte, (k.L.slots()*k.OStr/2)&^3)
			reR.Bytes(half)
			d.MemCopyH2D(h.up, outs[i], half)
			area := make([]byte, tabColdOff)
			reR.Bytes(area)
			d.MemCopyH2D(h.up, tab, area)
			progress.Add(1)
		}
	}
}
