package main

// Dependent-load motifs with NOTHING in between: a load returns into a
// register, and the very next thing that touches that register is another
// memory instruction / compare / branch reading it - only s_waitcnt (and
// s_nop) separate the two. Compiled kernels almost always have an ALU write
// between a load's return and the next use; state that a timing model keeps
// about "the last operand read" / "the last address" survives only in these
// sequences.
//
// All data is prepared by the host and never rewritten by a kernel:
//
//	CH   (TAB + chOff):  chNodes nodes of 16 bytes {pointer, random payload} + 64
//	     bytes of padding of the same shape; every pointer is the device address
//	     of another node of CH. A chase may load 2/4/8 dwords at +0 or +8 of any
//	     pointer it finds: the qwords it gets alternate pointer / payload,
//	     starting with a pointer at +0 and with a payload at +8.
//	IDX  (TAB + idxOff): idxN entries of 8 bytes {byte offset (relative to TAB)
//	     of another entry of IDX, random payload} + padding of the same shape.
//	KP   (TAB + kpOff):  per kernel {address of its OUT buffer, address of TAB}.
//	PT   tables allocated per motif instance: one qword per work-item slot
//	     (pointer to a dword of the work-item's own OUT region, or to the
//	     work-item's entry of another table).
//
// Addresses are only known after allocation: the program carries Patches, the
// child fills them in (the same way in both modes).

import (
	"verifharness/vlib"
	g "verifharness/vlib/gcnasm"
)

// Patch: for i < Count: qword TAB[Off+8*i] = base + Add + Stride*i, where base
// is the device address of TAB (Base "tab") or of kernel K's OUT buffer ("out").
type Patch struct {
	Off    int
	Base   string
	K      int
	Add    int64
	Stride int64
	Count  int
}

// TabWord is a host-prepared dword of TAB that does not depend on addresses.
type TabWord struct {
	Off int
	Val uint32
}

const (
	chNodes  = 64
	chBytes  = chNodes*16 + 64
	idxN     = 64
	idxBytes = 8*idxN + 64
	kpMax    = 24
	kpStride = 16
)

type motifLayout struct{ chOff, idxOff, kpOff int }

// motif features -> counter names
var motifCounter = map[string]string{
	"chase_s":      "motif|scalar-pointer-chase",
	"chase_s_part": "motif|scalar-chase-partial-overlap",
	"chase_v":      "motif|vector-pointer-chase",
	"chase_v_st":   "motif|vector-chase-to-store",
	"ld_branch":    "motif|load-to-branch",
	"ld_soff":      "motif|load-to-smem-offset",
	"ld_saddr":     "motif|load-to-saddr",
	"reread":       "motif|reread-across-load-return",
	"lds_rbw":      "motif|lds-read-before-write",
}

var motifFeatures = []string{"chase_s", "chase_s_part", "chase_v", "chase_v_st", "ld_branch", "ld_soff", "reread"}
var motifFeaturesCDNA3 = []string{"ld_saddr"}

func isMotif(f string) bool { _, ok := motifCounter[f]; return ok && f != "lds_rbw" }

func motifsOf(arch string) []string {
	out := append([]string{}, motifFeatures...)
	if arch == "cdna3" {
		out = append(out, motifFeaturesCDNA3...)
	}
	return out
}

// layoutMotifs reserves CH / IDX / KP behind the cold lines of TAB and fills
// their contents (patches / words).
func (p *Program) layoutMotifs(seed uint64, arch string) *motifLayout {
	ml := &motifLayout{}
	ml.chOff = (p.TabSize + 63) &^ 63
	ml.idxOff = ml.chOff + chBytes
	ml.kpOff = ml.idxOff + idxBytes
	p.TabSize = ml.kpOff + kpMax*kpStride
	r := vlib.NewPRNG(seed).Fork("motif-data/" + arch)
	// the payload qwords / dwords keep the random fill of TAB
	for node := 0; node < chBytes/16; node++ {
		t := r.Intn(chNodes)
		for t == node {
			t = r.Intn(chNodes)
		}
		p.Patches = append(p.Patches, Patch{Off: ml.chOff + 16*node, Base: "tab", Add: int64(ml.chOff + 16*t), Count: 1})
	}
	for i := 0; i < idxBytes/8; i++ {
		t := r.Intn(idxN)
		for t == i {
			t = r.Intn(idxN)
		}
		p.TabInit = append(p.TabInit, TabWord{Off: ml.idxOff + 8*i, Val: uint32(ml.idxOff + 8*t)})
	}
	return ml
}

// tabAlloc reserves n bytes of TAB (64-byte aligned).
func (p *Program) tabAlloc(n int) int {
	off := (p.TabSize + 63) &^ 63
	p.TabSize = off + n
	return off
}

// ---------------------------------------------------------------- helpers

func (x *gen) countMotif(f string) {
	x.use(f)
	if x.mcount == nil {
		x.mcount = map[string]int{}
	}
	x.mcount[motifCounter[f]]++
}

// gap: what separates two dependent memory instructions - s_waitcnt, and
// sometimes s_nop. Never anything that writes a register.
func (x *gen) gapS() {
	x.k.add(g.Waitcnt(15, 7, 0))
	if x.r.Chance(1, 4) {
		x.k.add(g.Nop(uint16(x.r.Intn(4))))
	}
}

func (x *gen) gapV() {
	x.k.add(g.Waitcnt(0, 7, 15))
	if x.r.Chance(1, 4) {
		x.k.add(g.Nop(uint16(x.r.Intn(4))))
	}
}

// sIndex: s[dst] = base + ((sWG*mul + c) & (n-1)) << shift   (ALU, before the motif)
func (x *gen) sIndex(dst, base int, shift, n int) {
	k := x.k
	mul, c := 1+2*x.r.Intn(8), x.r.Intn(n)
	k.sop2(opSMulI32, g.S(sTMP), g.S(sWG), g.Imm(mul))
	k.sop2(opSAddU32, g.S(sTMP), g.S(sTMP), g.Imm(c))
	k.sop2(12 /*s_and_b32*/, g.S(sTMP), g.S(sTMP), g.Imm(n-1))
	k.sop2(28 /*s_lshl_b32*/, g.S(sTMP), g.S(sTMP), g.Imm(shift))
	k.sop2(opSAddU32, g.S(dst), g.S(sTMP), immOrLit(base))
}

// sPointer: s[p:p+1] = TAB + s[off]
func (x *gen) sPointer(p, off int) {
	x.k.sop2(opSAddU32, g.S(p), g.S(sTAB), g.S(off))
	x.k.sop2(4 /*s_addc_u32*/, g.S(p+1), g.S(sTAB+1), g.Imm(0))
}

// vPointer: v[a:a+1] = TAB + base + (idx << shift); idx = (gid*mul + c) & (n-1),
// or gid itself when n == 0.
func (x *gen) vPointer(a, base int, shift, n int) {
	k := x.k
	if n > 0 {
		mul, c := 1+2*x.r.Intn(8), x.r.Intn(n)
		k.vop2(8 /*v_mul_u32_u24*/, g.V(a), g.Imm(mul), g.V(vGID))
		k.vop2(opVAddU32, g.V(a), g.Imm(c), g.V(a))
		k.vop2(opVAnd, g.V(a), g.Imm(n-1), g.V(a))
		k.vop2(opVLshl, g.V(a), g.Imm(shift), g.V(a))
	} else {
		k.vop2(opVLshl, g.V(a), g.Imm(shift), g.V(vGID))
	}
	k.vop2(opVAddU32, g.V(a), immOrLit(base), g.V(a))
	k.vop2(opVAddU32, g.V(a), g.S(sTAB), g.V(a))
	k.vop1(opVMov, g.V(a+1), g.S(sTAB+1))
	k.vop2(opVAddcU32, g.V(a+1), g.Imm(0), g.V(a+1))
}

// vload / vstore through a 64-bit VGPR pointer; off is used on CDNA3 only
// (GCN3 FLAT has no immediate offset).
func (x *gen) vload(op int, dst g.Operand, ptr int, off int) {
	x.k.nMem++
	if x.arch == "cdna3" {
		x.k.add(g.GlobalLoad(op, dst, g.VRange(ptr, 2), g.Off, int64(off)))
	} else {
		x.k.add(g.FlatLoad(op, dst, g.VRange(ptr, 2)))
	}
}

func (x *gen) vstore(op int, ptr int, data g.Operand, off int) {
	x.k.nMem++
	if x.arch == "cdna3" {
		x.k.add(g.GlobalStore(op, g.VRange(ptr, 2), data, g.Off, int64(off)))
	} else {
		x.k.add(g.FlatStore(op, g.VRange(ptr, 2), data))
	}
}

func (x *gen) foldS(reg int) {
	if x.r.Bool() {
		t := x.st()
		x.k.sop2(16 /*s_xor_b32*/, g.S(t), g.S(t), g.S(reg))
	} else {
		t := x.vt()
		x.k.vop2(opVXor, g.V(t), g.S(reg), g.V(t))
	}
}

func (x *gen) foldV(reg int) {
	t := x.vt()
	x.k.vop2(pick(x.r, []int{opVXor, 26, 20}), g.V(t), g.V(reg), g.V(t))
}

// freshOffset reserves n dwords of the OUT body area that nothing has stored
// to (byte offset within the work-item's OUT region). Not inside loops.
func (x *gen) freshOffset(n int) (int, bool) {
	if x.inLoop > 0 {
		return 0, false
	}
	span := (x.k.oBody - outBodyOff) / 4
	for try := 0; try < 40; try++ {
		d := x.r.Intn(span - n + 1)
		free := true
		for j := 0; j < n; j++ {
			free = free && !x.written[d+j]
		}
		if free {
			for j := 0; j < n; j++ {
				x.written[d+j] = true
			}
			return outBodyOff + 4*d, true
		}
	}
	return 0, false
}

func smemOp(w int) int {
	return map[int]int{1: g.OpSLoadDword, 2: g.OpSLoadDwordx2, 4: g.OpSLoadDwordx4, 8: g.OpSLoadDwordx8}[w]
}

func (x *gen) sload(w int, dst int, base int, off int) {
	x.k.nMem++
	x.k.add(g.SMEMLoadImm(smemOp(w), g.SRange(dst, w), g.SRange(base, 2), int64(off)))
}

func (x *gen) sloadS(w int, dst int, base int, soff int) {
	x.k.nMem++
	x.k.add(g.SMEMLoadSGPR(smemOp(w), g.SRange(dst, w), g.SRange(base, 2), g.S(soff)))
}

// ---------------------------------------------------------------- motifs

// motif emits one instance of feature f (if its preconditions hold).
func (x *gen) motif(f string) {
	if x.ml == nil || !x.ok(f) || x.k.lean {
		return
	}
	switch f {
	case "chase_s":
		x.chaseScalar(false)
	case "chase_s_part":
		x.chaseScalar(true)
	case "chase_v":
		x.chaseVector()
	case "chase_v_st":
		x.chaseVectorStore()
	case "ld_branch":
		x.loadToBranch()
	case "ld_soff":
		x.loadToOffset()
	case "ld_saddr":
		x.loadToSaddr()
	case "reread":
		switch x.r.Intn(3) {
		case 0:
			x.rereadScalar()
		case 1:
			x.rereadVectorData()
		default:
			x.rereadVectorAddr()
		}
	}
}

// anyMotif emits a motif drawn from the allowed ones.
func (x *gen) anyMotif() {
	var c []string
	for _, f := range motifsOf(x.arch) {
		if x.ok(f) {
			c = append(c, f)
		}
	}
	if len(c) > 0 {
		x.motif(pick(x.r, c))
	}
}

// chaseScalar: pointer chasing through SGPRs, 2-4 links, only s_waitcnt /
// s_nop between the links.
//
//	same pair (partial=false):  s_load_dwordx2 s[P:P+1], s[P:P+1], 0     /  s_load_dwordx4 s[P:P+3], s[P:P+1], 0
//	partial overlap:            s_load_dwordx4 s[P:P+3], s[P+2:P+3], o   /  s_load_dwordx8 s[P:P+7], s[P+2j:P+2j+1], o
//
// P is an 8-aligned block of SGPRs that is dead (s0.. after the prologue) or
// scratch (s48.., s56..). A load of w dwords at pointer+o leaves pointers in
// the qwords q of its destination with (q + o/8) even, payload in the others.
func (x *gen) chaseScalar(partial bool) {
	P := pick(x.r, []int{0, 0, 48, 56})
	links := 2 + x.r.Intn(3)
	B := P // current base pair
	if partial {
		B = P + 2 + 4*x.r.Intn(2) // the first link's base is not the low end of its destination
	}
	x.sIndex(sTMP+1, x.ml.chOff, 4, chNodes)
	x.sPointer(B, sTMP+1)
	pre := x.r.Chance(1, 4)
	if pre {
		// an earlier reader of the same pair whose load is still outstanding
		// when the first link overwrites the pair
		x.sload(1, sTMP+2, B, 8*x.r.Intn(2))
	}
	w := 2
	for l := 0; l < links; l++ {
		if !partial {
			w = pick(x.r, []int{2, 2, 4})
			x.sload(w, P, P, 0)
		} else {
			w = 4
			if B >= P+4 || x.r.Chance(1, 3) {
				w = 8
			}
			off := 8 * x.r.Intn(2)
			x.sload(w, P, B, off)
			var c []int
			for q := 0; q < w/2; q++ {
				if (q+off/8)%2 == 0 {
					c = append(c, P+2*q)
				}
			}
			B = pick(x.r, c)
		}
		x.gapS()
	}
	for j := 0; j < w; j++ {
		x.foldS(P + j)
	}
	if pre {
		x.foldS(sTMP + 2)
	}
	f := "chase_s"
	if partial {
		f = "chase_s_part"
	}
	x.countMotif(f)
}

// chaseVector: per-lane pointer chasing through one VGPR pair (block v36..39),
// ended by a load through the final pointer.
func (x *gen) chaseVector() {
	a := vL0 + 12
	B := a + 2*x.r.Intn(2)
	x.vPointer(B, x.ml.chOff, 4, chNodes)
	links := 1 + x.r.Intn(3)
	for l := 0; l < links; l++ {
		if x.r.Chance(2, 3) {
			// through the same pair
			x.vload(g.OpFlatLoadDwordx2, g.VRange(B, 2), B, 0)
		} else {
			// x4: the destination block covers the base pair (its low or its high
			// half); the pointer lands in the low half (+0) or the high half (+8)
			off := 0
			if x.arch == "cdna3" {
				off = 8 * x.r.Intn(2)
			}
			x.vload(g.OpFlatLoadDwordx4, g.VRange(a, 4), B, off)
			B = a + off/4
		}
		x.gapV()
	}
	n := pick(x.r, []int{1, 2, 4})
	op := map[int]int{1: g.OpFlatLoadDword, 2: g.OpFlatLoadDwordx2, 4: g.OpFlatLoadDwordx4}[n]
	x.vload(op, g.VRange(vL0, n), B, 8*x.r.Intn(2))
	x.k.add(g.Waitcnt(0, 7, 15))
	for j := 0; j < n; j++ {
		x.foldV(vL0 + j)
	}
	for j := 0; j < 4; j++ {
		x.foldV(a + j)
	}
	x.countMotif("chase_v")
}

// chaseVectorStore: the chased pointer is the address of a store: tables of
// per-work-item pointers, the last level points into the work-item's own OUT
// region.
func (x *gen) chaseVectorStore() {
	n := 1 + x.r.Intn(2)
	off, ok := x.freshOffset(n)
	if !ok {
		return
	}
	slots := x.k.l.slots()
	levels := 1 + x.r.Intn(2)
	tabs := make([]int, levels)
	for i := range tabs {
		tabs[i] = x.prog.tabAlloc(8 * slots)
	}
	// last level -> OUT slot, level i -> entry of level i+1
	x.prog.Patches = append(x.prog.Patches, Patch{Off: tabs[levels-1], Base: "out", K: x.ki, Add: int64(off), Stride: int64(x.k.oStr), Count: slots})
	for i := 0; i < levels-1; i++ {
		x.prog.Patches = append(x.prog.Patches, Patch{Off: tabs[i], Base: "tab", Add: int64(tabs[i+1]), Stride: 8, Count: slots})
	}
	a := vL0 + 12
	data := vT0 + x.r.Intn(nVT-n+1)
	x.vPointer(a, tabs[0], 3, 0)
	for l := 0; l < levels; l++ {
		x.vload(g.OpFlatLoadDwordx2, g.VRange(a, 2), a, 0)
		x.gapV()
	}
	x.vstore(map[int]int{1: g.OpFlatStoreDword, 2: g.OpFlatStoreDwordx2}[n], a, g.VRange(data, n), 0)
	x.use(map[int]string{1: "st_dword", 2: "st_x2"}[n])
	x.countMotif("chase_v_st")
}

// loadToBranch: the first consumer of a loaded register is a compare whose
// only result is SCC / VCC, and a branch on it.
func (x *gen) loadToBranch() {
	k := x.k
	lab := k.label("mb")
	if x.r.Chance(1, 3) {
		// vector: flat load -> v_cmp -> s_cbranch_vccz
		l := ldKinds[3]
		x.k.load(l.op, g.V(vL0), regIN, x.inOffset(l), 0)
		x.gapV()
		k.add(g.MkVOPC(pick(x.r, []int{204 /*gt_u32*/, 201 /*lt_u32*/, 196 /*gt_i32*/}), g.Lit(0x80000000), g.V(vL0)))
		k.add(g.Branch(pick(x.r, []int{g.OpSCbranchVCCZ, g.OpSCbranchVCNZ}), lab))
	} else {
		X := sLD + x.r.Intn(16)
		if x.r.Bool() {
			x.sload(1, X, sTAB, 4*x.r.Intn(128))
		} else {
			// offset depends on the work-group: groups take different paths
			k.sop2(opSMulI32, g.S(sTMP+1), g.S(sWG), g.Imm(4*(1+x.r.Intn(8))))
			k.sop2(12, g.S(sTMP+1), g.S(sTMP+1), g.Lit(0x1fc))
			x.sloadS(1, X, sTAB, sTMP+1)
		}
		x.gapS()
		switch x.r.Intn(3) {
		case 0:
			k.add(g.MkSOPC(8 /*s_cmp_gt_u32*/, g.S(X), g.Lit(0x80000000)))
		case 1:
			k.add(g.MkSOPC(4 /*s_cmp_lt_i32*/, g.S(X), g.Imm(0)))
		default:
			k.add(g.MkSOPC(10 /*s_cmp_lt_u32*/, g.S(X), g.Lit(0x40000000+x.r.Uint32()>>1)))
		}
		k.add(g.Branch(pick(x.r, []int{g.OpSCbranchSCC0, g.OpSCbranchSCC1}), lab))
	}
	x.aluRun(1 + x.r.Intn(2))
	k.p.Label(lab)
	x.countMotif("ld_branch")
}

// loadToOffset: a loaded SGPR is first used as the offset register of the next
// scalar load; with self links it is index chasing through one SGPR
// (s_load_dword sX, s[TAB], sX).
func (x *gen) loadToOffset() {
	X := sTMP + 1
	self := x.r.Intn(4)
	if self == 0 {
		x.sload(1, X, sTAB, x.ml.idxOff+8*x.r.Intn(idxN))
		x.gapS()
	} else {
		x.sIndex(X, x.ml.idxOff, 3, idxN)
		for l := 0; l < self; l++ {
			x.sloadS(1, X, sTAB, X)
			x.gapS()
		}
	}
	w := pick(x.r, []int{1, 2, 4})
	Y := sLD + w*x.r.Intn(16/w)
	x.sloadS(w, Y, sTAB, X)
	x.k.add(g.Waitcnt(15, 7, 0))
	for j := 0; j < w; j++ {
		x.foldS(Y + j)
	}
	x.foldS(X)
	x.countMotif("ld_soff")
}

// loadToSaddr (CDNA3): a loaded SGPR pair is first used as the scalar base of a
// global access.
func (x *gen) loadToSaddr() {
	k := x.k
	X := sLD + 2*x.r.Intn(8)
	kp := x.ml.kpOff + kpStride*x.ki
	if off, ok := x.freshOffset(1); ok && x.r.Bool() {
		// base = this kernel's OUT buffer, store to the work-item's own slot
		x.sload(2, X, sTAB, kp)
		x.gapS()
		k.nMem++
		k.add(g.GlobalStore(g.OpFlatStoreDword, g.V(vOOFF), g.V(x.vt()), g.SRange(X, 2), int64(off)))
		x.use("st_dword")
	} else {
		// base = TAB, lanes read nodes of CH
		a := vA0
		mul, c := 1+2*x.r.Intn(8), x.r.Intn(chNodes)
		k.vop2(8, g.V(a), g.Imm(mul), g.V(vGID))
		k.vop2(opVAddU32, g.V(a), g.Imm(c), g.V(a))
		k.vop2(opVAnd, g.V(a), g.Imm(chNodes-1), g.V(a))
		k.vop2(opVLshl, g.V(a), g.Imm(4), g.V(a))
		k.vop2(opVAddU32, g.V(a), immOrLit(x.ml.chOff), g.V(a)) // (the 13-bit immediate offset cannot hold it)
		x.sload(2, X, sTAB, kp+8)
		x.gapS()
		k.nMem++
		k.add(g.GlobalLoad(g.OpFlatLoadDwordx2, g.VRange(vL0, 2), g.V(a), g.SRange(X, 2), int64(8*x.r.Intn(2))))
		k.add(g.Waitcnt(0, 7, 15))
		x.foldV(vL0)
		x.foldV(vL0 + 1)
	}
	x.countMotif("ld_saddr")
}

// rereadScalar: X is read (as an offset), a load into X is issued, waited for,
// and X is read again by the next instruction.
func (x *gen) rereadScalar() {
	X, Y, Z := sTMP+1, sLD+x.r.Intn(8), sLD+8+x.r.Intn(8)
	x.sIndex(X, x.ml.idxOff, 3, idxN)
	x.k.nMem++
	x.k.add(g.SMEMLoadSGPR(g.OpSLoadDword, g.S(Y), g.SRange(sTAB, 2), g.S(X))) // first read of X
	if x.r.Bool() {
		x.sloadS(1, X, sTAB, X)
	} else {
		x.sload(1, X, sTAB, x.ml.idxOff+8*x.r.Intn(idxN))
	}
	x.gapS()
	x.sloadS(2, Z&^1, sTAB, X) // second read of X: {next offset, payload}
	x.k.add(g.Waitcnt(15, 7, 0))
	x.foldS(Y)
	x.foldS(Z &^ 1)
	x.foldS(Z | 1)
	x.countMotif("reread")
}

// rereadVectorData: a VGPR is stored, loaded into, waited for and stored again
// - the two stores are consecutive readers of the register.
func (x *gen) rereadVectorData() {
	k := x.k
	o1, ok1 := x.freshOffset(1)
	o2, ok2 := x.freshOffset(1)
	if !ok1 || !ok2 {
		return
	}
	X := vL0 + 4
	k.vop1(opVMov, g.V(X), g.V(x.vt()))
	if x.arch == "cdna3" {
		x.vstore(g.OpFlatStoreDword, vOUT, g.V(X), o1)
		x.vload(g.OpFlatLoadDword, g.V(X), vIN, 4*x.r.Intn(k.iStr/4))
		x.gapV()
		x.vstore(g.OpFlatStoreDword, vOUT, g.V(X), o2)
	} else {
		k.add64(vA0, vOUT, o1)
		k.add64(vA0+2, vOUT, o2)
		x.vstore(g.OpFlatStoreDword, vA0, g.V(X), 0)
		x.vload(g.OpFlatLoadDword, g.V(X), vIN, 0)
		x.gapV()
		x.vstore(g.OpFlatStoreDword, vA0+2, g.V(X), 0)
	}
	x.use("st_dword")
	x.countMotif("reread")
}

// rereadVectorAddr: an address pair is read by a load, overwritten by the next
// load (through itself), waited for and read again.
func (x *gen) rereadVectorAddr() {
	a := vL0 + 12
	x.vPointer(a, x.ml.chOff, 4, chNodes)
	x.vload(g.OpFlatLoadDwordx2, g.VRange(vL0, 2), a, 0)
	x.vload(g.OpFlatLoadDwordx2, g.VRange(a, 2), a, 0)
	x.gapV()
	x.vload(g.OpFlatLoadDwordx2, g.VRange(vL0+2, 2), a, 8*x.r.Intn(2))
	x.k.add(g.Waitcnt(0, 7, 15))
	for j := 0; j < 4; j++ {
		x.foldV(vL0 + j)
	}
	x.countMotif("reread")
}

// ---------------------------------------------------------------- LDS state

// ldsRBW: read-before-write of the work-item's own LDS locations: the LDS is
// read first (locations this work-group may never have written), the value
// goes into the data flow, and non-zero data is written afterwards. Nothing is
// demanded about WHAT an unwritten LDS location holds - only that both modes
// agree (a work-group must not see what an earlier work-group or an earlier
// launch left in the LDS of "its" compute unit in one mode and zeros in the
// other).
//
//	kind: b32 | r2b32 | b64 | r2b64 (ds_read_b32 / ds_read2_b32 / ds_read_b64 / ds_read2_b64)
//	o0, o1: dword (b32 forms) / qword (b64 forms) index inside the region
//	extra: use a region behind the per-work-item slots (8 bytes per work-item)
//	       that makes this kernel's LDS bigger than that of kernels without it
//	narrow: write less than was read (part of the LDS stays unwritten)
func (x *gen) ldsRBW(kind string, o0, o1 int, extra, narrow bool) {
	k := x.k
	k.lds = true
	addr := vLDS
	if extra {
		k.ldsExtra = pow2ceil(k.l.wgSize()) * 8
		addr = vA0
		k.vop2(opVLshl, g.V(addr), g.Imm(3), g.V(vLID))
		k.vop2(opVAddU32, g.V(addr), immOrLit(pow2ceil(k.l.wgSize())*ldsPer), g.V(addr))
		if kind == "b64" || kind == "r2b64" {
			kind, o0, o1 = "r2b32", 0, 1
		}
		o0, o1 = o0%2, o1%2
	}
	if o1 == o0 {
		o1 = o0 ^ 1
	}
	// non-zero data to write: v[42:43]
	d := vA0 + 2
	k.vop2(20 /*v_or_b32*/, g.V(d), g.Imm(1), g.V(x.vt()))
	k.vop2(20, g.V(d+1), g.Imm(2), g.V(x.vt()))
	n := 0
	switch kind {
	case "b32":
		k.add(g.DSRead(g.OpDSReadB32, g.V(vL0), g.V(addr), uint16(4*o0)))
		n = 1
	case "r2b32":
		k.add(g.DSRead2(g.OpDSRead2B32, g.VRange(vL0, 2), g.V(addr), uint8(o0), uint8(o1)))
		n = 2
	case "b64":
		o0 %= 4
		k.add(g.DSRead(g.OpDSReadB64, g.VRange(vL0, 2), g.V(addr), uint16(8*o0)))
		n = 2
	default:
		o0, o1 = o0%4, o1%4
		if o1 == o0 {
			o1 = (o0 + 1) % 4
		}
		k.add(g.DSRead2(g.OpDSRead2B64, g.VRange(vL0, 4), g.V(addr), uint8(o0), uint8(o1)))
		n = 4
	}
	k.nMem++
	k.add(g.Waitcnt(15, 7, 0))
	for j := 0; j < n; j++ {
		x.foldV(vL0 + j)
	}
	// (the emulator has no ds_write_b64: 64-bit writes are ds_write2_b32 / ds_write2_b64)
	switch {
	case kind == "b32" || (narrow && kind == "r2b32"):
		k.add(g.DSWrite(g.OpDSWriteB32, g.V(addr), g.V(d), uint16(4*o0)))
	case kind == "r2b32":
		k.add(g.DSWrite2(g.OpDSWrite2B32, g.V(addr), g.V(d), g.V(d+1), uint8(o0), uint8(o1)))
	case kind == "b64" && narrow:
		k.add(g.DSWrite(g.OpDSWriteB32, g.V(addr), g.V(d), uint16(8*o0)))
	case kind == "b64" || narrow:
		k.add(g.DSWrite2(g.OpDSWrite2B32, g.V(addr), g.V(d), g.V(d+1), uint8(2*o0), uint8(2*o0+1)))
	default:
		k.add(g.DSWrite2(g.OpDSWrite2B64, g.V(addr), g.VRange(d, 2), g.VRange(d, 2), uint8(o0), uint8(o1)))
	}
	k.nMem++
	k.add(g.Waitcnt(15, 7, 0))
	x.use("lds_rbw")
	if x.mcount == nil {
		x.mcount = map[string]int{}
	}
	x.mcount["motif|lds-read-before-write"]++
}

func (x *gen) ldsRBWRandom() {
	if !x.ok("lds_rbw") || x.k.lean {
		return
	}
	kind := pick(x.r, []string{"b32", "r2b32", "b64", "r2b64"})
	extra := x.r.Chance(1, 4)
	if extra && x.ldsPair && x.ki > 0 {
		// in a launch pair the LDS mostly shrinks or stays (bigger, then smaller)
		extra = x.r.Chance(1, 3)
	}
	x.ldsRBW(kind, x.r.Intn(8), x.r.Intn(8), extra, x.r.Chance(1, 3))
}

// ---------------------------------------------------------------- scalar re-read of device-written data

// smemDev: a kernel whose IN buffer is the OUT buffer of the previous kernel
// reads words of it with SCALAR loads (uniform address) and folds them into
// its temporaries. In a chain K0 -> A, K1 -> B, K2 -> A, K3 -> B ... kernel i
// reads what kernel i-1 stored, kernel i+1 overwrites it with vector stores,
// kernel i+2 reads the same addresses again: whatever a scalar cache kept from
// kernel i must not be served to kernel i+2. Reads the dump of the previous
// kernel's temporaries (bytes 0..95 of a work-item's region: always stored).
//
//	w <= 0: drawn; off < 0: drawn; mode < 0: drawn (0 = the region of one fixed
//	work-item slot, the same line for every work-group; 1 = the region of the
//	work-group's first work-item)
func (x *gen) smemDev(w, off, mode int) {
	k := x.k
	if !k.inPrev || k.lean {
		return
	}
	if w <= 0 {
		w = pick(x.r, []int{1, 2, 4, 8})
	}
	if off < 0 {
		off = 4 * x.r.Intn((96-4*w)/4+1)
	}
	if mode < 0 {
		mode = x.r.Intn(2)
	}
	dst := sLD + w*x.r.Intn(16/w)
	if mode == 0 {
		slot := 3
		if slot >= k.l.slots() {
			slot = 0
		}
		x.sload(w, dst, sIN, slot*k.iStr+k.iShift+off)
	} else {
		k.sop2(opSMulI32, g.S(sTMP+1), g.S(sBASE), immOrLit(k.iStr))
		k.sop2(opSAddU32, g.S(sTMP+1), g.S(sTMP+1), immOrLit(k.iShift+off))
		x.sloadS(w, dst, sIN, sTMP+1)
	}
	k.add(g.Waitcnt(15, 7, 0))
	for j := 0; j < w; j++ {
		x.foldS(dst + j)
	}
	x.use("smem_dev")
	if x.mcount == nil {
		x.mcount = map[string]int{}
	}
	x.mcount["motif|scalar-reread-of-kernel-written-data"]++
}

// ---------------------------------------------------------------- mixed work-groups

// mixedGeo: a 3-D grid of 8x16x1 work-groups, one column, two full rows and a
// third row only 8 work-items high per Z plane: in dispatch order the groups
// have 2,2,1,2,2,1,... wavefronts (a partial extent in X does not reduce the
// wavefront count, a partial extent in Y does). 30-42 groups.
func mixedGeo(r *vlib.PRNG) Launch {
	nz := 10 + r.Intn(5)
	return Launch{Grid: [3]uint32{8, 16*2 + 8, uint32(nz)}, WG: [3]uint16{8, 16, 1}}
}

// spinWG: a scalar loop whose trip count depends on the work-group:
// (fullRows - wgY) * n + (wgZ & 3) * m + 1 iterations: the low last-row groups
// (one wavefront) are the shortest, the group dispatched right after them (row
// 0 of the next plane) the longest, so that the groups sharing a compute unit
// finish out of order and one-wavefront holes open between running groups.
// The scalar state every kernel keeps (buffer pointers, long-lived registers,
// the loop's own accumulators) is live across it and used afterwards for the
// stores. Runs first in the body (the work-group id registers are intact).
func (x *gen) spinWG(n, m int) {
	k := x.k
	top := k.label("spw")
	full := k.l.numWG()[1] - 1
	k.sop2(1 /*s_sub_u32*/, g.S(sCNT), g.Imm(full), g.S(k.rWGY))
	k.sop2(opSMulI32, g.S(sCNT), g.S(sCNT), immOrLit(n))
	k.sop2(12 /*s_and_b32*/, g.S(sCNT+1), g.S(k.rWGZ), g.Imm(3))
	k.sop2(opSMulI32, g.S(sCNT+1), g.S(sCNT+1), g.Imm(m))
	k.sop2(opSAddU32, g.S(sCNT), g.S(sCNT), g.S(sCNT+1))
	k.sop2(opSAddU32, g.S(sCNT), g.S(sCNT), g.Imm(1))
	k.p.Label(top)
	k.sop2(opSAddU32, g.S(sT0), g.S(sT0), g.S(sCNT))
	k.sop2(opSMulI32, g.S(sT0+1), g.S(sT0), g.Imm(3))
	k.sop2(16, g.S(sT0+2), g.S(sT0+2), g.S(sT0+1))
	k.sop2(2, g.S(sCNT), g.S(sCNT), g.Imm(-1))
	k.add(g.MkSOPC(7, g.S(sCNT), g.Imm(0)))
	k.add(g.Branch(g.OpSCbranchSCC1, top))
}
