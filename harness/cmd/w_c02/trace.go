package main

// Instruction-trace collection in both modes, normalised to
// (pc relative to the kernel entry, format, opcode) sequences keyed by
// wavefront = (kernel launch ordinal, work-group x/y/z, FirstWiFlatID/64).

import (
	"encoding/base64"
	"encoding/binary"
	"fmt"
	"os"
	"sort"
	"strings"
	"sync"

	"github.com/sarchlab/akita/v4/sim"
	"github.com/sarchlab/akita/v4/tracing"
	"github.com/sarchlab/mgpusim/v4/amd/emu"
	"github.com/sarchlab/mgpusim/v4/amd/insts"
	"github.com/sarchlab/mgpusim/v4/amd/kernels"
	"github.com/sarchlab/mgpusim/v4/amd/timing/cu"
	"github.com/sarchlab/mgpusim/v4/amd/timing/wavefront"
)

// Ev is one executed instruction in a full trace.
type Ev struct {
	PC   uint64 `json:"pc"`
	Fmt  int    `json:"f"`
	Op   int    `json:"o"`
	Name string `json:"n"`
	FN   string `json:"fn"`
	Done bool   `json:"d"`
	// Init (first instruction of a wavefront only): s0..s15 and v0..v2 (64
	// lanes each) as the dispatcher left them
	Init string `json:"init,omitempty"`
	// state after the instruction (full mode): hashes of the destination
	// registers / VCC / SCC / EXEC, and the destination's raw lane values
	HDst  uint64 `json:"hd,omitempty"`
	HSDst uint64 `json:"hs,omitempty"`
	VCC   uint64 `json:"vcc,omitempty"`
	SCC   byte   `json:"scc,omitempty"`
	EXEC  uint64 `json:"exec,omitempty"`
	Async bool   `json:"a,omitempty"` // memory instruction: only the destination is compared
	Dst   string `json:"dst,omitempty"`
	DstOp string `json:"dstop,omitempty"`
	// emulation side, FLAT/GLOBAL accesses: EXEC (8 bytes), 64 lane addresses
	// (8 bytes each) and, for stores, 64 x n data dwords
	Mem string `json:"mem,omitempty"`
	Seq int    `json:"seq,omitempty"` // global order of the emulation's execution
}

// WfSum is the per-wavefront summary kept in normal (hash) mode.
type WfSum struct {
	N    int    `json:"n"`
	Hash uint64 `json:"h"`
	Mem  int    `json:"m"`
}

type wfRec struct {
	retired bool // its s_endpgm has completed (timing)
	key     string
	n       int
	hash    uint64
	mem     int
	nextPC  uint64 // emulation: pc_before of the next instruction
	evs     []*Ev
}

type regReader interface {
	ReadOperand(operand *insts.Operand, laneID int) uint64
	EXEC() uint64
	VCC() uint64
	SCC() byte
}

// timingRegs reads the registers of a timing wavefront straight from the
// compute unit's register files (wavefront.RegAccessor), not through
// Wavefront.ReadOperand: the observer must not go through (and thereby disturb
// or be fooled by) any state the operand path of the wavefront keeps.
type timingRegs struct{ wf *wavefront.Wavefront }

func (t timingRegs) ReadOperand(op *insts.Operand, lane int) uint64 {
	if op.OperandType != insts.RegOperand || op.Register == nil || t.wf.RegAccessor == nil {
		return t.wf.ReadOperand(op, lane)
	}
	off := t.wf.SRegOffset
	if op.Register.IsVReg() {
		off = t.wf.VRegOffset
	}
	buf := t.wf.RegAccessor.ReadReg(op.Register, op.RegCount, lane, off)
	if len(buf) < 8 {
		padded := make([]byte, 8)
		copy(padded, buf)
		buf = padded
	}
	return insts.BytesToUint64(buf)
}
func (t timingRegs) EXEC() uint64 { return t.wf.EXEC() }
func (t timingRegs) VCC() uint64  { return t.wf.VCC() }
func (t timingRegs) SCC() byte    { return t.wf.SCC() }

type collector struct {
	mu                 sync.Mutex
	full               bool
	launches           map[*kernels.HsaKernelDispatchPacket]int
	recs               map[*kernels.Wavefront]*wfRec
	order              []*wfRec
	byTask             map[string]taskRef
	opcodes            map[string]int
	total              int
	cdna3              bool
	lite               map[string]liteRef
	flagged            map[string]bool
	flags              []string
	maxLive, scattered int
	lastHi             map[string]int
	diagSeq            []string
	liveS              map[*wfRec]sgprSpan
	pendingS           *sgprSpan
	journal            *os.File // full mode: every start / completion is appended at once (survives a crash)
}

type liteRef struct {
	rec *wfRec
	in  *insts.Inst
}

type taskRef struct {
	rec *wfRec
	idx int
	wf  *wavefront.Wavefront
	in  *insts.Inst
}

func newCollector(full bool) *collector {
	return &collector{full: full, launches: map[*kernels.HsaKernelDispatchPacket]int{},
		recs: map[*kernels.Wavefront]*wfRec{}, byTask: map[string]taskRef{}, opcodes: map[string]int{}, flagged: map[string]bool{}, lite: map[string]liteRef{}}
}

func (c *collector) rec(raw *kernels.Wavefront) *wfRec {
	r := c.recs[raw]
	if r != nil {
		return r
	}
	l, ok := c.launches[raw.Packet]
	if !ok {
		l = len(c.launches)
		c.launches[raw.Packet] = l
	}
	r = &wfRec{key: fmt.Sprintf("k%d/wg%d.%d.%d/wf%d", l, raw.WG.IDX, raw.WG.IDY, raw.WG.IDZ, raw.FirstWiFlatID/64),
		hash: 1469598103934665603}
	c.recs[raw] = r
	c.order = append(c.order, r)
	return r
}

func entryPC(raw *kernels.Wavefront) uint64 {
	return raw.Packet.KernelObject + raw.CodeObject.KernelCodeEntryByteOffset
}

func isMem(in *insts.Inst) bool {
	return in.FormatType == insts.FLAT || in.FormatType == insts.SMEM || in.FormatType == insts.DS
}

func (c *collector) note(r *wfRec, pc uint64, in *insts.Inst) *Ev {
	f, o := int(in.FormatType), int(in.Opcode)
	for _, v := range [3]uint64{pc, uint64(f), uint64(o)} {
		r.hash = (r.hash ^ v) * 1099511628211
	}
	r.n++
	c.total++
	if isMem(in) {
		r.mem++
	}
	c.opcodes[fmt.Sprintf("%s/%d/%s", in.Format.FormatName, o, in.InstName)]++
	if !c.full {
		return nil
	}
	ev := &Ev{PC: pc, Fmt: f, Op: o, Name: in.InstName, FN: strings.ToLower(in.Format.FormatName)}
	r.evs = append(r.evs, ev)
	if c.journal != nil {
		fmt.Fprintf(c.journal, "S %s %d %s %d %s\n", r.key, len(r.evs)-1, ev.FN, o, in.InstName)
	}
	return ev
}

func fnvMix(h uint64, v uint64) uint64 {
	for i := 0; i < 8; i++ {
		h = (h ^ (v & 0xff)) * 1099511628211
		v >>= 8
	}
	return h
}

func regDigest(w regReader, op *insts.Operand) (uint64, string, string) {
	if op == nil || op.OperandType != insts.RegOperand || op.Register == nil {
		return 0, "", ""
	}
	n := op.RegCount
	if n <= 0 {
		n = 1
	}
	h := uint64(1469598103934665603)
	var raw []byte
	switch {
	case op.Register.IsVReg():
		if n > 4 {
			n = 4
		}
		base := op.Register.RegIndex()
		for j := 0; j < n; j++ {
			o := insts.NewVRegOperand(base+j, base+j, 1)
			for lane := 0; lane < 64; lane++ {
				v := uint32(w.ReadOperand(o, lane))
				h = fnvMix(h, uint64(v))
				raw = binary.LittleEndian.AppendUint32(raw, v)
			}
		}
		return h | 1, base64.StdEncoding.EncodeToString(raw), fmt.Sprintf("v[%d:%d]", base, base+n-1)
	case op.Register.IsSReg():
		if n > 16 {
			n = 16
		}
		base := op.Register.RegIndex()
		for j := 0; j < n; j++ {
			o := insts.NewSRegOperand(base+j, base+j, 1)
			v := uint32(w.ReadOperand(o, 0))
			h = fnvMix(h, uint64(v))
			raw = binary.LittleEndian.AppendUint32(raw, v)
		}
		return h | 1, base64.StdEncoding.EncodeToString(raw), fmt.Sprintf("s[%d:%d]", base, base+n-1)
	}
	return 0, "", "" // VCC / EXEC / SCC / M0 destinations are captured separately
}

// initState reads s0..s15 and v0..v2 of a wavefront.
func initState(w regReader) string {
	var raw []byte
	for i := 0; i < 16; i++ {
		raw = binary.LittleEndian.AppendUint32(raw, uint32(w.ReadOperand(insts.NewSRegOperand(i, i, 1), 0)))
	}
	for i := 0; i < 3; i++ {
		o := insts.NewVRegOperand(i, i, 1)
		for lane := 0; lane < 64; lane++ {
			raw = binary.LittleEndian.AppendUint32(raw, uint32(w.ReadOperand(o, lane)))
		}
	}
	return base64.StdEncoding.EncodeToString(raw)
}

func (c *collector) state(ev *Ev, w regReader, in *insts.Inst) {
	ev.Done = true
	if in.FormatType == insts.SOPP {
		return
	}
	dst := in.Dst
	if in.FormatType == insts.SMEM {
		dst = in.Data
	}
	if in.FormatType == insts.FLAT && in.Opcode >= 24 {
		dst = nil // stores
	}
	if in.FormatType == insts.DS && (in.Opcode < 54 || (in.Opcode >= 64 && in.Opcode < 118)) {
		dst = nil // writes
	}
	ev.HDst, ev.Dst, ev.DstOp = regDigest(w, dst)
	if in.FormatType == insts.SMEM || in.FormatType == insts.FLAT {
		ev.Async = true
		return
	}
	if in.FormatType == insts.VOP3b {
		ev.HSDst, _, _ = regDigest(w, in.SDst)
	}
	ev.VCC, ev.SCC, ev.EXEC = w.VCC(), w.SCC(), w.EXEC()
}

// ---- emulation: hook on the emulation compute unit (after the instruction)

func (c *collector) Func(ctx sim.HookCtx) {
	wf, ok := ctx.Item.(*emu.Wavefront)
	if !ok {
		return
	}
	in, ok := ctx.Detail.(*insts.Inst)
	if !ok {
		return
	}
	c.mu.Lock()
	defer c.mu.Unlock()
	_, seen := c.recs[wf.Wavefront]
	r := c.rec(wf.Wavefront)
	if !seen {
		r.nextPC = entryPC(wf.Wavefront)
	}
	pc := r.nextPC - entryPC(wf.Wavefront)
	r.nextPC = wf.PC()
	ev := c.note(r, pc, in)
	if ev != nil {
		if len(r.evs) == 1 {
			ev.Init = initState(wf)
		}
		c.state(ev, wf, in)
		ev.Seq = c.total
		if in.FormatType == insts.FLAT && !loadOverwritesAddr(in) {
			ev.Mem = c.memAccess(wf, in)
		}
	}
}

// loadOverwritesAddr: the destination of a FLAT load covers its own address
// registers (pointer chasing). The emulation hook runs after the instruction,
// so the lane addresses can no longer be read back: no address record then
// (the destination is still compared).
func loadOverwritesAddr(in *insts.Inst) bool {
	if in.Opcode >= 24 || in.Dst == nil || in.Addr == nil || in.Dst.Register == nil || in.Addr.Register == nil {
		return false
	}
	if !in.Dst.Register.IsVReg() || !in.Addr.Register.IsVReg() {
		return false
	}
	d0, a0 := in.Dst.Register.RegIndex(), in.Addr.Register.RegIndex()
	d1, a1 := d0+max(in.Dst.RegCount, 1), a0+max(in.Addr.RegCount, 1)
	return d0 < a1 && a0 < d1
}

// memAccess records the lane addresses (and store data) of a FLAT access the
// way the emulation ALU computes them.
func (c *collector) memAccess(w regReader, in *insts.Inst) string {
	return c.memAccessMode(w, in, false)
}

// memAccessMode: timingRule selects the address rule of the timing coalescer
// (cu.defaultCoalescer.readFlatAddr: scalar base iff the decoded address
// operand is one register wide) instead of the emulation ALU's.
func (c *collector) memAccessMode(w regReader, in *insts.Inst, timingRule bool) string {
	raw := binary.LittleEndian.AppendUint64(nil, w.EXEC())
	hasS := in.SAddr != nil && in.SAddr.IntValue != 0x7F && (c.cdna3 || in.SAddr.IntValue != 0)
	if timingRule {
		hasS = in.Addr != nil && in.Addr.RegCount == 1 && in.SAddr != nil
	}
	var base uint64
	if hasS {
		r := int(in.SAddr.IntValue)
		base = w.ReadOperand(insts.NewSRegOperand(r, r, 2), 0)
	}
	for lane := 0; lane < 64; lane++ {
		a := w.ReadOperand(in.Addr, lane)
		if hasS {
			a = base + (a & 0xffffffff)
		}
		a += uint64(int64(int32(in.Offset0)))
		raw = binary.LittleEndian.AppendUint64(raw, a)
	}
	n := 0
	switch in.Opcode {
	case 28:
		n = 1
	case 29:
		n = 2
	case 30:
		n = 3
	case 31:
		n = 4
	}
	if n > 0 && in.Data != nil && in.Data.Register != nil {
		b := in.Data.Register.RegIndex()
		for lane := 0; lane < 64; lane++ {
			for j := 0; j < n; j++ {
				raw = binary.LittleEndian.AppendUint32(raw, uint32(w.ReadOperand(insts.NewVRegOperand(b+j, b+j, 1), lane)))
			}
		}
	}
	return base64.StdEncoding.EncodeToString(raw)
}

// ---- timing: tracer on every timing compute unit (PC at issue)

// cuTracer is the tracer attached to one timing compute unit.
type cuTracer struct {
	c  *collector
	cu *cu.ComputeUnit
}

func (t *cuTracer) StartTask(task tracing.Task)      { t.c.startTask(task, t.cu) }
func (t *cuTracer) EndTask(task tracing.Task)        { t.c.EndTask(task) }
func (t *cuTracer) StepTask(task tracing.Task)       {}
func (t *cuTracer) AddMilestone(m tracing.Milestone) {}

// checkVGPRWindow flags a wavefront whose vector registers do not fit into the
// per-lane window of the register file it was placed in (its registers then
// alias the next lane's registers of the co-resident wavefronts).
func (c *collector) checkVGPRWindow(unit *cu.ComputeUnit, wf *wavefront.Wavefront) {
	if unit == nil || wf.SIMDID >= len(unit.VRegFile) {
		return
	}
	rf, ok := unit.VRegFile[wf.SIMDID].(*cu.SimpleRegisterFile)
	if !ok || rf.ByteSizePerLane <= 0 {
		return
	}
	need := wf.VRegOffset + 4*int(wf.CodeObject.WIVgprCount)
	if need > rf.ByteSizePerLane && !c.flagged["vgpr-window-overflow"] {
		c.flagged["vgpr-window-overflow"] = true
		msg := fmt.Sprintf("vgpr-window-overflow %s SIMD %d: wavefront placed at byte offset %d with %d VGPRs needs %d bytes per lane, the register file keeps %d bytes per lane",
			unit.Name(), wf.SIMDID, wf.VRegOffset, wf.CodeObject.WIVgprCount, need, rf.ByteSizePerLane)
		c.flags = append(c.flags, msg)
		if f, err := os.OpenFile("flags.txt", os.O_CREATE|os.O_WRONLY|os.O_APPEND, 0o644); err == nil {
			fmt.Fprintln(f, msg)
			f.Close()
		}
	}
}

// checkSGPROverlap flags a wavefront that is given scalar registers a resident
// (not yet retired) wavefront of the same compute unit still owns.
func (c *collector) checkSGPROverlap(unit *cu.ComputeUnit, wf *wavefront.Wavefront) {
	if unit == nil || wf.CodeObject == nil {
		return
	}
	if c.liveS == nil {
		c.liveS = map[*wfRec]sgprSpan{}
	}
	lo := wf.SRegOffset
	hi := lo + 4*int(wf.CodeObject.WFSgprCount)
	for r, s := range c.liveS {
		if s.cu == unit.Name() && lo < s.hi && s.lo < hi && !c.flagged["sgpr-overlap"] {
			c.flagged["sgpr-overlap"] = true
			msg := fmt.Sprintf("sgpr-overlap %s: a new wavefront gets scalar register bytes [%d,%d) while resident wavefront %s still owns [%d,%d)", unit.Name(), lo, hi, r.key, s.lo, s.hi)
			c.flags = append(c.flags, msg)
			if f, err := os.OpenFile("flags.txt", os.O_CREATE|os.O_WRONLY|os.O_APPEND, 0o644); err == nil {
				fmt.Fprintln(f, msg)
				f.Close()
			}
		}
	}
	live := 1
	for _, s := range c.liveS {
		if s.cu == unit.Name() {
			live++
		}
	}
	if live > c.maxLive {
		c.maxLive = live
	}
	c.pendingS = &sgprSpan{cu: unit.Name(), lo: lo, hi: hi}
}

type sgprSpan struct {
	cu     string
	lo, hi int
}

func (c *collector) StartTask(t tracing.Task) { c.startTask(t, nil) }

func (c *collector) startTask(t tracing.Task, unit *cu.ComputeUnit) {
	if t.Kind != "inst" {
		return
	}
	d, ok := t.Detail.(map[string]interface{})
	if !ok {
		return
	}
	in, ok1 := d["inst"].(*wavefront.Inst)
	wf, ok2 := d["wf"].(*wavefront.Wavefront)
	if !ok1 || !ok2 {
		return
	}
	c.mu.Lock()
	defer c.mu.Unlock()
	if _, seen := c.recs[wf.Wavefront]; !seen {
		c.checkVGPRWindow(unit, wf)
		c.checkSGPROverlap(unit, wf)
	}
	r := c.rec(wf.Wavefront)
	if c.pendingS != nil {
		c.liveS[r] = *c.pendingS
		if c.lastHi == nil {
			c.lastHi = map[string]int{}
		}
		wgKey := r.key[:strings.LastIndex(r.key, "/")]
		if prev, ok := c.lastHi[wgKey]; ok && prev != c.pendingS.lo && prev != c.pendingS.hi+(c.pendingS.hi-c.pendingS.lo)-(c.pendingS.hi-c.pendingS.lo) {
			c.scattered++
		}
		c.lastHi[wgKey] = c.pendingS.hi
		if len(c.diagSeq) < 40 {
			c.diagSeq = append(c.diagSeq, fmt.Sprintf("%s@%d", r.key[3:], c.pendingS.lo/384))
		}
		c.pendingS = nil
	}
	ev := c.note(r, wf.PC()-entryPC(wf.Wavefront), in.Inst)
	if isMem(in.Inst) || (in.Inst.FormatType == insts.SOPP && in.Inst.Opcode == 1) {
		c.lite[t.ID] = liteRef{rec: r, in: in.Inst}
	}
	if ev != nil {
		if len(r.evs) == 1 {
			ev.Init = initState(timingRegs{wf})
		}
		if in.Inst.FormatType == insts.FLAT {
			ev.Mem = c.memAccessMode(timingRegs{wf}, in.Inst, true)
		}
		c.byTask[t.ID] = taskRef{rec: r, idx: len(r.evs) - 1, wf: wf, in: in.Inst}
	}
}

func (c *collector) EndTask(t tracing.Task) {
	c.mu.Lock()
	defer c.mu.Unlock()
	if l, ok := c.lite[t.ID]; ok {
		delete(c.lite, t.ID)
		if l.in.FormatType == insts.SOPP {
			l.rec.retired = true
			delete(c.liveS, l.rec)
		} else if l.rec.retired && !c.flagged["late:"+l.in.InstName] {
			// a memory instruction of a wavefront completes after the
			// wavefront's s_endpgm has: its registers may already belong to
			// another wavefront
			c.flagged["late:"+l.in.InstName] = true
			msg := fmt.Sprintf("memory-response-after-wavefront-retired %s %s (wavefront %s)", strings.ToLower(l.in.Format.FormatName), l.in.InstName, l.rec.key)
			c.flags = append(c.flags, msg)
			if f, err := os.OpenFile("flags.txt", os.O_CREATE|os.O_WRONLY|os.O_APPEND, 0o644); err == nil {
				fmt.Fprintln(f, msg)
				f.Close()
			}
		}
	}
	if !c.full {
		return
	}
	ref, ok := c.byTask[t.ID]
	if !ok {
		return
	}
	delete(c.byTask, t.ID)
	ev := ref.rec.evs[ref.idx]
	if !ev.Done {
		c.state(ev, timingRegs{ref.wf}, ref.in)
		if c.journal != nil {
			fmt.Fprintf(c.journal, "D %s %d\n", ref.rec.key, ref.idx)
		}
	}
}

func (c *collector) StepTask(t tracing.Task)          {}
func (c *collector) AddMilestone(m tracing.Milestone) {}

// abiFlags lists the optional ABI registers the launched code objects ask for.
func (c *collector) abiFlags() []string {
	c.mu.Lock()
	defer c.mu.Unlock()
	set := map[string]bool{}
	for raw := range c.recs {
		co := raw.CodeObject
		if co == nil {
			continue
		}
		for name, on := range map[string]bool{"private_segment_buffer": co.EnableSgprPrivateSegmentBuffer, "dispatch_ptr": co.EnableSgprDispatchPtr,
			"queue_ptr": co.EnableSgprQueuePtr, "dispatch_id": co.EnableSgprDispatchID, "flat_scratch_init": co.EnableSgprFlatScratchInit,
			"private_segment_size": co.EnableSgprPrivateSegmentSize, "grid_workgroup_count": co.EnableSgprGridWorkgroupCountX} {
			if on {
				set[name] = true
			}
		}
	}
	var out []string
	for f := range set {
		out = append(out, f)
	}
	sort.Strings(out)
	return out
}

func (c *collector) summaries() map[string]WfSum {
	c.mu.Lock()
	defer c.mu.Unlock()
	out := map[string]WfSum{}
	for _, r := range c.order {
		out[r.key] = WfSum{N: r.n, Hash: r.hash, Mem: r.mem}
	}
	return out
}

func (c *collector) fullTraces() map[string][]*Ev {
	c.mu.Lock()
	defer c.mu.Unlock()
	out := map[string][]*Ev{}
	for _, r := range c.order {
		out[r.key] = r.evs
	}
	return out
}
