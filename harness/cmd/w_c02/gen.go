package main

// Program generator. A program is a pure function of its ProgSpec (seed,
// architecture, allowed / forced feature sets). Seeded programs draw from all
// features that are not disabled by an open (keyed) finding; a canonical
// probe is the same generator with a fixed seed, restricted to the base
// features plus the one feature it probes.

import (
	"fmt"
	"sort"
	"strings"

	"github.com/sarchlab/mgpusim/v4/amd/insts"

	"verifharness/vlib"
	g "verifharness/vlib/gcnasm"
)

// ProgSpec describes a generated program.
type ProgSpec struct {
	ID    string   `json:"id"`
	Arch  string   `json:"arch"` // gcn3 (code object V3) | cdna3 (code object V5)
	Seed  uint64   `json:"seed"`
	Allow []string `json:"allow"`           // features the generator may use
	Force []string `json:"force,omitempty"` // features that must occur
	Probe string   `json:"probe,omitempty"`
	Size  int      `json:"size"` // 0 small (<= 320 work-items, short body), 1 medium, 2 large
	// hand-written canonical programs: fixed geometry, number of kernels of a
	// chain, and the body as a list of commands (see runScript)
	Geo    *Launch  `json:"geo,omitempty"`
	Geo2   *Launch  `json:"geo2,omitempty"` // geometry of the kernels after the first (not larger than Geo)
	Chain  int      `json:"chain,omitempty"`
	Script []string `json:"script,omitempty"`
	OStr   int      `json:"ostr,omitempty"`
	// Lean: no temporaries (prologue, long-lived values, body, dump, tail);
	// DeclVGPR: VGPRs the code object declares; Tail: operations before s_endpgm
	Lean     bool     `json:"lean,omitempty"`
	DeclVGPR int      `json:"decl_vgpr,omitempty"`
	Tail     []string `json:"tail,omitempty"`
}

// Kernel is one generated kernel with its launch.
type Kernel struct {
	CO       *insts.KernelCodeObject
	L        Launch
	OStr     int
	IStr     int
	IShift   int
	InFrom   int // -1: the IN buffer; j: output buffer of kernel j
	OutTo    int // -1: a buffer of its own; j: the output buffer of kernel j (overwritten)
	Consts   [10]uint32
	NInst    int
	NMem     int
	DeclVGPR int
	Feat     []string
	Listing  []string
}

// Program is a generated program.
type Program struct {
	Spec    ProgSpec
	Kernels []*Kernel
	InSize  int
	TabSize int
	// host-prepared parts of TAB (motif.go) and the number of motif instances
	Patches []Patch
	TabInit []TabWord
	Motifs  map[string]int
	// host-API shape of the host program that runs the kernels (host.go):
	// "" (one context) | host_wl | host_wc | host_three | host_2proc;
	// AllocOther: buffers are allocated through the context that does the
	// copies instead of the one that launches; ReupAfter >= 0: after kernel
	// ReupAfter the first half of its OUT buffer and the random area of TAB are
	// uploaded again (new data) through the copying context
	Host       string
	AllocOther bool
	ReupAfter  int
	// EnqueueAll: all launches are enqueued before the queue is drained
	// (otherwise every kernel is drained before the next is enqueued)
	EnqueueAll bool
}

// feature names
var baseFeatures = []string{"alu", "salu", "ld_dword", "st_dword"}

var allFeatures = []string{
	"alu", "salu",
	"ld_ubyte", "ld_sbyte", "ld_ushort", "ld_dword", "ld_x2", "ld_x4",
	"st_dword", "st_x2", "st_x3", "st_x4", "straddle",
	"smem_x1", "smem_x2", "smem_x4", "smem_x8", "smem_x16", "smem_sgpr_off", "smem_cross_line",
	"lds", "lds2", "lds64", "waitcnt_nz",
	"diamond", "diamond_else", "nested", "loop_uniform", "loop_divergent",
	"dims2", "dims3", "partial_wg", "wg_non64", "big_wg",
	"abi_dispatch", "abi_wgcount",
	"multi_kernel", "readfirstlane", "vop3_sgpr_pair", "vcc_ops", "exec_ops", "sgpr64",
	"waw", "waw_waitcnt", "raw_mem", "xkernel",
	"tail_nowait", "tail_smem", "tail_flat_ld", "tail_flat_st", "tail_lds", "oversub",
	// dependent-load motifs (motif.go)
	"chase_s", "chase_s_part", "chase_v", "chase_v_st", "ld_branch", "ld_soff", "reread",
	// LDS read before written; with multi_kernel also pairs of launches whose
	// every kernel reads the same LDS words first and writes them afterwards
	"lds_rbw",
	// host-API shapes (host.go)
	"host_wl", "host_wc", "host_three", "host_2proc", "host_alloc_other", "reup", "host_enqueue_all",
	// scalar loads of what the previous kernel stored (motif.go smemDev)
	"smem_dev",
	// 2-D grid with partial work-groups in X and Y (work-groups of 4 / 2 / 1
	// wavefronts), many more groups than fit a small platform, per-work-group
	// loop trip count (motif.go spinWG)
	"wg_mixed",
}

// features that exist only for one architecture
var cdna3Only = []string{"saddr", "goffset", "v5_ids_yz", "vgpr_pressure", "ld_saddr"}

// probe-only features (never drawn by seeded programs): ABI flags whose
// register layout DESIGN suspects to differ, s_getpc_b64, SADDR = s[0:1]
var probeOnly = []string{"abi_queue_ptr", "abi_private_segment_size", "s_getpc", "saddr_s0", "slot_recycle", "slot_recycle_small"}

func featureList(arch string) []string {
	out := append([]string{}, allFeatures...)
	if arch == "cdna3" {
		out = append(out, cdna3Only...)
	}
	return out
}

type gen struct {
	size    int
	r       *vlib.PRNG
	k       *kb
	allow   map[string]bool
	used    map[string]bool
	arch    string
	written map[int]bool // dword offsets of the OUT body area already stored to
	inLoop  int
	// motifs (motif.go): layout of the host-prepared tables (nil: no motif
	// feature allowed), the program under construction, kernel index, counts
	ml     *motifLayout
	prog   *Program
	ki     int
	mcount map[string]int
	// the program is an LDS launch pair (see BuildProgram)
	ldsPair bool
}

func (x *gen) ok(f string) bool { return x.allow[f] }
func (x *gen) use(f string)     { x.used[f] = true }

func pick[T any](r *vlib.PRNG, xs []T) T { return xs[r.Intn(len(xs))] }

// ---------------------------------------------------------------- operands

func (x *gen) vt() int { return vT0 + x.r.Intn(nVT) }
func (x *gen) st() int { return sT0 + x.r.Intn(nST) }

// vsrc picks a vector-ALU source. lit: literal allowed; sgpr: SGPR allowed.
func (x *gen) vsrc(lit, sgpr bool) g.Operand {
	for {
		switch d := x.r.Intn(100); {
		case d < 55:
			return g.V(x.vt())
		case d < 65:
			return g.V(pick(x.r, []int{vX, vY, vZ, vLID, vGID}))
		case d < 75:
			if sgpr {
				if x.r.Bool() {
					return g.S(sC0 + x.r.Intn(4))
				}
				return g.S(x.st())
			}
		case d < 88:
			return g.Imm(x.r.Range(-16, 64))
		case d < 91:
			return g.F(pick(x.r, []float64{0.5, -0.5, 1, -1, 2, -2, 4, -4}))
		default:
			if lit {
				return g.Lit(x.r.Uint32())
			}
		}
	}
}

func (x *gen) ssrc(lit bool) g.Operand {
	for {
		switch d := x.r.Intn(100); {
		case d < 50:
			return g.S(x.st())
		case d < 62:
			return g.S(sC0 + x.r.Intn(4))
		case d < 68:
			return g.S(pick(x.r, []int{sWG, sBASE}))
		case d < 88:
			return g.Imm(x.r.Range(-16, 64))
		default:
			if lit {
				return g.Lit(x.r.Uint32())
			}
		}
	}
}

// ---------------------------------------------------------------- ALU runs

var vop2Ops = []int{1, 2, 3, 5, 6, 8, 10, 11, 12, 13, 14, 15, 16, 17, 18, 19, 20, 21, 26, 27}
var vop1Ops = []int{1, 5, 6, 7, 8, 28, 30, 43, 44}
var vop3Ops3 = []int{449, 450, 451, 456, 457, 464, 465, 466, 467, 468, 469, 470, 471, 472}
var vop3Ops2 = []int{645, 646}
var vopcOps = []int{193, 195, 196, 198, 201, 202, 203, 204, 205, 206, 65, 66, 68}
var vopcIntOps = []int{193, 195, 196, 198, 201, 202, 203, 204, 205, 206}
var sop2Ops = []int{0, 1, 2, 3, 6, 7, 8, 9, 12, 16, 28, 30, 32, 34, 36, 38}
var sop2Ops64 = []int{13, 15, 17, 19}
var sop1Ops = []int{0, 4, 8, 48}
var sopcOps = []int{0, 1, 2, 3, 4, 5, 6, 7, 8, 10}

func (x *gen) valuOp() {
	k := x.k
	x.use("alu")
	switch d := x.r.Intn(100); {
	case d < 45:
		k.vop2(pick(x.r, vop2Ops), g.V(x.vt()), x.vsrc(true, true), g.V(x.vt()))
	case d < 52:
		// v_add_u32 writes VCC, v_addc_u32 consumes it
		a := x.vt()
		k.vop2(opVAddU32, g.V(a), x.vsrc(true, true), g.V(x.vt()))
		if x.ok("vcc_ops") && x.r.Bool() {
			x.use("vcc_ops")
			k.vop2(opVAddcU32, g.V(x.vt()), x.vsrc(false, false), g.V(x.vt()))
		}
	case d < 57:
		k.vop2(22, g.V(x.vt()), x.vsrc(true, true), g.V(x.vt())) // v_mac_f32
	case d < 70:
		k.vop1(pick(x.r, vop1Ops), g.V(x.vt()), x.vsrc(true, true))
	case d < 82:
		// VOP3a, three sources, at most one SGPR
		s := []g.Operand{x.vsrc(false, true), x.vsrc(false, false), x.vsrc(false, false)}
		p := x.r.Perm(3)
		k.vop3(pick(x.r, vop3Ops3), g.V(x.vt()), s[p[0]], s[p[1]], s[p[2]])
	case d < 88:
		s := []g.Operand{x.vsrc(false, true), x.vsrc(false, false)}
		if x.r.Bool() {
			s[0], s[1] = s[1], s[0]
		}
		k.vop3(pick(x.r, vop3Ops2), g.V(x.vt()), s[0], s[1], g.Operand{})
	case d < 93:
		// compare into VCC, select
		k.add(g.MkVOPC(pick(x.r, vopcOps), x.vsrc(true, true), g.V(x.vt())))
		k.vop2(0, g.V(x.vt()), x.vsrc(false, false), g.V(x.vt())) // v_cndmask_b32
		x.use("vcc_ops")
	case d < 96:
		if x.ok("vop3_sgpr_pair") {
			x.use("vop3_sgpr_pair")
			pair := sT0 + 2*x.r.Intn(nST/2)
			k.vop3(pick(x.r, vopcIntOps), g.SRange(pair, 2), x.vsrc(false, false), g.V(x.vt()), g.Operand{})
			k.vop3(256, g.V(x.vt()), g.V(x.vt()), g.V(x.vt()), g.SRange(pair, 2)) // v_cndmask_b32_e64
			if x.r.Bool() {
				// carry-out add into an SGPR pair (VOP3b)
				k.add(g.MkVOP3b(281, g.V(x.vt()), g.SRange(pair, 2), g.V(x.vt()), g.V(x.vt()), g.Operand{}))
			}
		}
	default:
		if x.ok("readfirstlane") {
			x.use("readfirstlane")
			k.vop1(2, g.S(x.st()), g.V(x.vt()))
		}
	}
}

func (x *gen) saluOp() {
	k := x.k
	x.use("salu")
	switch d := x.r.Intn(100); {
	case d < 50:
		k.sop2(pick(x.r, sop2Ops), g.S(x.st()), x.ssrc(true), x.ssrc(false))
	case d < 60:
		k.sop1(pick(x.r, sop1Ops), g.S(x.st()), x.ssrc(true))
	case d < 68:
		if x.r.Bool() {
			k.add(g.MkSOPK(0, g.S(x.st()), uint16(x.r.Uint32()))) // s_movk_i32
		} else {
			k.add(g.MkSOPK(15, g.S(x.st()), uint16(x.r.Intn(200)))) // s_mulk_i32
		}
	case d < 82:
		// compare, then consume SCC
		k.add(g.MkSOPC(pick(x.r, sopcOps), x.ssrc(true), x.ssrc(false)))
		switch x.r.Intn(3) {
		case 0:
			k.sop2(10, g.S(x.st()), x.ssrc(false), x.ssrc(false)) // s_cselect_b32
		case 1:
			k.sop2(4, g.S(x.st()), x.ssrc(false), x.ssrc(false)) // s_addc_u32
		default:
			k.add(g.MkSOPK(1, g.S(x.st()), uint16(x.r.Uint32()))) // s_cmovk_i32
		}
	default:
		if x.ok("sgpr64") {
			x.use("sgpr64")
			p := func() g.Operand { return g.SRange(sT0+2*x.r.Intn(nST/2), 2) }
			src := p()
			if x.ok("exec_ops") && x.r.Chance(1, 4) {
				src = g.EXEC
				x.use("exec_ops")
			} else if x.r.Chance(1, 4) {
				src = g.VCC
			}
			switch x.r.Intn(3) {
			case 0:
				k.sop2(pick(x.r, sop2Ops64), p(), src, p())
			case 1:
				k.sop2(pick(x.r, []int{29, 31}), p(), src, g.Imm(x.r.Intn(40))) // s_lshl_b64 / s_lshr_b64
			default:
				k.sop1(opSMovB64, p(), src)
			}
		}
	}
}

func (x *gen) aluRun(n int) {
	for i := 0; i < n; i++ {
		if x.ok("salu") && x.r.Chance(1, 4) {
			x.saluOp()
		} else {
			x.valuOp()
		}
	}
}

// ---------------------------------------------------------------- memory

type ldKind struct {
	feat  string
	op    int
	regs  int
	bytes int
	align int
}

var ldKinds = []ldKind{
	{"ld_ubyte", g.OpFlatLoadUbyte, 1, 1, 1},
	{"ld_sbyte", g.OpFlatLoadSbyte, 1, 1, 1},
	{"ld_ushort", g.OpFlatLoadUshort, 1, 2, 2},
	{"ld_dword", g.OpFlatLoadDword, 1, 4, 4},
	{"ld_x2", g.OpFlatLoadDwordx2, 2, 8, 4},
	{"ld_x4", g.OpFlatLoadDwordx4, 4, 16, 4},
}

type stKind struct {
	feat string
	op   int
	regs int
}

var stKinds = []stKind{
	{"st_dword", g.OpFlatStoreDword, 1},
	{"st_x2", g.OpFlatStoreDwordx2, 2},
	{"st_x3", g.OpFlatStoreDwordx3, 3},
	{"st_x4", g.OpFlatStoreDwordx4, 4},
}

func (x *gen) form() int {
	if x.arch == "cdna3" && x.ok("saddr") && x.r.Bool() {
		x.use("saddr")
		return 1
	}
	return 0
}

func (x *gen) pickLoad() (ldKind, bool) {
	var c []ldKind
	for _, l := range ldKinds {
		if x.ok(l.feat) {
			c = append(c, l)
		}
	}
	if len(c) == 0 {
		return ldKind{}, false
	}
	// prefer forced kinds
	return pick(x.r, c), true
}

func (x *gen) inOffset(l ldKind) int {
	max := (x.k.iStr - l.bytes) / l.align
	return x.r.Intn(max+1) * l.align
}

// emitLoad issues one load into vL0+slot*4.
func (x *gen) emitLoad(l ldKind, slot int) g.Operand {
	dst := g.VRange(vL0+4*slot, l.regs)
	x.use(l.feat)
	region := regIN
	if x.k.rev && x.r.Bool() {
		region = regREV
		x.use("xkernel")
	}
	x.k.load(l.op, dst, region, x.inOffset(l), x.form())
	return dst
}

func (x *gen) fold(l ldKind, slot int) {
	for j := 0; j < l.regs; j++ {
		t := x.vt()
		x.k.vop2(pick(x.r, []int{opVXor, 26, 20, 14}), g.V(t), g.V(vL0+4*slot+j), g.V(t))
	}
}

func (x *gen) loadBlock() {
	l, ok := x.pickLoad()
	if !ok {
		return
	}
	n := 1 + x.r.Intn(3)
	kinds := make([]ldKind, n)
	for i := 0; i < n; i++ {
		kinds[i], _ = x.pickLoad()
		if i == 0 {
			kinds[i] = l
		}
		x.emitLoad(kinds[i], i)
	}
	x.k.add(g.Waitcnt(0, 7, 15))
	for i := 0; i < n; i++ {
		x.fold(kinds[i], i)
	}
}

// waitcntBlock issues two loads and waits in stages with non-zero counts.
func (x *gen) waitcntBlock() {
	a, ok := x.pickLoad()
	if !ok {
		return
	}
	b, _ := x.pickLoad()
	x.use("waitcnt_nz")
	k := x.k
	k.add(g.Waitcnt(0, 7, 15))
	x.emitLoad(a, 0)
	x.emitLoad(b, 1)
	k.add(g.Waitcnt(1, 7, 15))
	if x.arch == "cdna3" {
		// global_* loads return in order: the first result may be used now
		x.fold(a, 0)
		k.add(g.Waitcnt(0, 7, 15))
	} else {
		// FLAT may return out of order on GCN3: only vmcnt(0) is a guarantee
		x.aluRun(1 + x.r.Intn(2))
		k.add(g.Waitcnt(0, 7, 15))
		x.fold(a, 0)
	}
	x.fold(b, 1)
}

// storeOffset picks the OUT body offset of a store of n dwords. Unless the
// features waw / waw_waitcnt allow it, no dword is stored to twice by one
// work-item (and no store is placed in a loop). needWait: an s_waitcnt
// vmcnt(0) has to precede the store.
func (x *gen) storeOffset(n int) (off int, needWait, ok bool) {
	span := (x.k.oBody - outBodyOff) / 4
	free := func(d int) bool {
		for j := 0; j < n; j++ {
			if x.written[d+j] {
				return false
			}
		}
		return true
	}
	overlapOK := x.ok("waw") || x.ok("waw_waitcnt")
	if x.inLoop > 0 && !overlapOK {
		return 0, false, false
	}
	d := -1
	wantOverlap := overlapOK && len(x.written) > 0 && x.r.Bool()
	for try := 0; try < 30; try++ {
		c := x.r.Intn(span - n + 1)
		if wantOverlap != free(c) {
			d = c
			break
		}
	}
	if d < 0 {
		if !overlapOK {
			return 0, false, false
		}
		d = x.r.Intn(span - n + 1)
	}
	overlap := !free(d) || x.inLoop > 0
	if overlap {
		if x.ok("waw") {
			x.use("waw")
		} else {
			x.use("waw_waitcnt")
			needWait = true
		}
	}
	for j := 0; j < n; j++ {
		x.written[d+j] = true
	}
	return outBodyOff + 4*d, needWait, true
}

// wawPair: two stores of one work-item to overlapping addresses back to back
// (the second must win).
func (x *gen) wawPair(c []stKind) {
	a, b := pick(x.r, c), pick(x.r, c)
	span := (x.k.oBody - outBodyOff) / 4
	m := max(a.regs, b.regs)
	d := x.r.Intn(span - m + 1)
	da := d + x.r.Intn(m-a.regs+1)
	db := d + x.r.Intn(m-b.regs+1)
	for j := 0; j < m; j++ {
		x.written[d+j] = true
	}
	x.use("waw")
	x.use(a.feat)
	x.use(b.feat)
	f := x.form()
	x.k.store(a.op, g.VRange(vT0+x.r.Intn(nVT-a.regs+1), a.regs), outBodyOff+4*da, f)
	x.k.store(b.op, g.VRange(vT0+x.r.Intn(nVT-b.regs+1), b.regs), outBodyOff+4*db, f)
}

func (x *gen) storeBlock() {
	var c []stKind
	for _, s := range stKinds {
		if x.ok(s.feat) {
			c = append(c, s)
		}
	}
	if len(c) == 0 {
		return
	}
	if x.ok("waw") && x.r.Chance(1, 3) {
		x.wawPair(c)
		return
	}
	s := pick(x.r, c)
	off, wait, ok := x.storeOffset(s.regs)
	if !ok {
		x.aluRun(1)
		return
	}
	x.use(s.feat)
	if wait {
		x.k.add(g.Waitcnt(0, 7, 15))
	}
	first := vT0 + x.r.Intn(nVT-s.regs+1)
	x.k.store(s.op, g.VRange(first, s.regs), off, x.form())
}

// rawBlock: a work-item stores to one of its slots, waits, and loads it back.
func (x *gen) rawBlock() {
	if !x.ok("raw_mem") {
		return
	}
	off, wait, ok := x.storeOffset(1)
	if !ok {
		return
	}
	x.use("raw_mem")
	k := x.k
	if wait {
		k.add(g.Waitcnt(0, 7, 15))
	}
	if x.r.Bool() {
		// read the slot first so that a cache may hold the old contents
		k.load(g.OpFlatLoadDword, g.V(vL0+1), regOUT, off, x.form())
		k.add(g.Waitcnt(0, 7, 15))
		x.fold(ldKinds[3], 0)
	}
	k.store(g.OpFlatStoreDword, g.V(x.vt()), off, x.form())
	k.add(g.Waitcnt(0, 7, 15))
	k.load(g.OpFlatLoadDword, g.V(vL0), regOUT, off, x.form())
	k.add(g.Waitcnt(0, 7, 15))
	x.fold(ldKinds[3], 0)
}

func (x *gen) smemBlock() {
	type sk struct {
		feat string
		op   int
		n    int
	}
	var c []sk
	for _, s := range []sk{{"smem_x1", g.OpSLoadDword, 1}, {"smem_x2", g.OpSLoadDwordx2, 2}, {"smem_x4", g.OpSLoadDwordx4, 4},
		{"smem_x8", g.OpSLoadDwordx8, 8}, {"smem_x16", g.OpSLoadDwordx16, 16}} {
		if x.ok(s.feat) {
			c = append(c, s)
		}
	}
	if len(c) == 0 {
		return
	}
	s := pick(x.r, c)
	x.use(s.feat)
	k := x.k
	size := 4 * s.n
	// offsets: naturally aligned to min(size,64) unless line crossing is allowed
	al := size
	if al > 64 {
		al = 64
	}
	off := x.r.Intn((512-size)/al+1) * al
	if x.ok("smem_cross_line") && s.n >= 2 && x.r.Bool() {
		off = 64*x.r.Intn(6) + 64 - 4*(1+x.r.Intn(s.n-1))
		x.use("smem_cross_line")
	}
	dst := g.SRange(sLD, s.n)
	if x.ok("smem_sgpr_off") && x.r.Chance(1, 3) {
		x.use("smem_sgpr_off")
		k.sop1(opSMovB32, g.S(sTMP+1), immOrLit(off))
		k.add(g.SMEMLoadSGPR(s.op, dst, g.SRange(sTAB, 2), g.S(sTMP+1)))
	} else {
		k.add(g.SMEMLoadImm(s.op, dst, g.SRange(sTAB, 2), int64(off)))
	}
	k.nMem++
	k.add(g.Waitcnt(15, 7, 0))
	for j := 0; j < s.n; j++ {
		if x.r.Bool() {
			t := x.st()
			k.sop2(16, g.S(t), g.S(t), g.S(sLD+j))
		} else {
			t := x.vt()
			k.vop2(opVXor, g.V(t), g.S(sLD+j), g.V(t))
		}
	}
}

// ldsBlock: every work-item writes its LDS slot, barrier, reads the slot of
// work-item (lid ^ peer), barrier.
func (x *gen) ldsBlock() {
	k := x.k
	var kinds []string
	for _, f := range []string{"lds", "lds2", "lds64"} {
		if x.ok(f) {
			kinds = append(kinds, f)
		}
	}
	if len(kinds) == 0 {
		return
	}
	f := pick(x.r, kinds)
	x.use(f)
	k.lds = true
	peer := 1 + x.r.Intn(pow2ceil(k.l.wgSize())-1)
	if pow2ceil(k.l.wgSize()) == 1 {
		peer = 0
	}
	// peer slot address
	k.sop1(opSMovB32, g.S(sTMP), immOrLit(peer))
	k.vop2(opVXor, g.V(vA0), g.S(sTMP), g.V(vLID))
	k.vop2(opVLshl, g.V(vA0), g.Imm(5), g.V(vA0))
	a, b := x.vt(), x.vt()
	switch f {
	case "lds":
		o := uint16(4 * x.r.Intn(8))
		k.add(g.DSWrite(g.OpDSWriteB32, g.V(vLDS), g.V(a), o))
		if x.r.Chance(1, 3) {
			k.add(g.DSWrite(30 /*ds_write_b8*/, g.V(vLDS), g.V(b), o)) // overwrite low byte
		}
		k.add(g.Waitcnt(15, 7, 0), g.Barrier())
		k.add(g.DSRead(g.OpDSReadB32, g.V(vL0), g.V(vA0), o))
		k.add(g.Waitcnt(15, 7, 0))
		x.fold(ldKinds[3], 0)
	case "lds2":
		o0, o1 := uint8(x.r.Intn(8)), uint8(x.r.Intn(8))
		if o1 == o0 {
			o1 = (o0 + 1) % 8
		}
		k.add(g.DSWrite2(g.OpDSWrite2B32, g.V(vLDS), g.V(a), g.V(b), o0, o1))
		k.add(g.Waitcnt(15, 7, 0), g.Barrier())
		k.add(g.DSRead2(g.OpDSRead2B32, g.VRange(vL0, 2), g.V(vA0), o1, o0))
		k.add(g.Waitcnt(15, 7, 0))
		x.fold(ldKinds[4], 0)
	default:
		// 64-bit: data pairs are consecutive temporaries
		pa := vT0 + 2*x.r.Intn(nVT/2)
		pb := vT0 + 2*x.r.Intn(nVT/2)
		o0, o1 := uint8(x.r.Intn(4)), uint8(x.r.Intn(4))
		if o1 == o0 {
			o1 = (o0 + 1) % 4
		}
		k.add(g.DSWrite2(g.OpDSWrite2B64, g.V(vLDS), g.VRange(pa, 2), g.VRange(pb, 2), o0, o1))
		k.add(g.Waitcnt(15, 7, 0), g.Barrier())
		if x.r.Bool() {
			k.add(g.DSRead2(g.OpDSRead2B64, g.VRange(vL0, 4), g.V(vA0), o0, o1))
			k.add(g.Waitcnt(15, 7, 0))
			x.fold(ldKinds[5], 0)
		} else {
			k.add(g.DSRead(g.OpDSReadB64, g.VRange(vL0, 2), g.V(vA0), uint16(o1)*8))
			k.add(g.Waitcnt(15, 7, 0))
			x.fold(ldKinds[4], 0)
		}
	}
	k.add(g.Barrier())
}

// ---------------------------------------------------------------- control

// innerBlocks emits blocks that are legal under a partial EXEC mask.
func (x *gen) innerBlocks(depth int, n int) {
	for i := 0; i < n; i++ {
		switch d := x.r.Intn(100); {
		case d < 8 && x.ml != nil:
			x.anyMotif()
		case d < 45:
			x.aluRun(1 + x.r.Intn(4))
		case d < 65:
			x.loadBlock()
		case d < 85:
			x.storeBlock()
		default:
			if depth < 2 && x.ok("nested") && x.ok("diamond") {
				x.use("nested")
				x.diamond(depth + 1)
			} else {
				x.aluRun(2)
			}
		}
	}
}

func (x *gen) diamond(depth int) {
	k := x.k
	x.use("diamond")
	save := g.SRange(sSAVE+2*depth, 2)
	k.add(g.MkVOPC(pick(x.r, vopcIntOps), x.vsrc(true, true), g.V(x.vt())))
	k.sop1(32, save, g.VCC) // s_and_saveexec_b64
	skip := ""
	if x.r.Bool() {
		skip = k.label("skip")
		k.add(g.Branch(g.OpSCbranchEXZ, skip))
	}
	x.innerBlocks(depth, 1+x.r.Intn(2))
	if skip != "" {
		k.p.Label(skip)
	}
	if x.ok("diamond_else") && x.r.Bool() {
		x.use("diamond_else")
		// else lanes = saved & ~then
		k.sop2(19, g.EXEC, save, g.EXEC) // s_andn2_b64 exec, save, exec
		skip2 := ""
		if x.r.Bool() {
			skip2 = k.label("skipe")
			k.add(g.Branch(g.OpSCbranchEXZ, skip2))
		}
		x.innerBlocks(depth, 1+x.r.Intn(2))
		if skip2 != "" {
			k.p.Label(skip2)
		}
	}
	if x.r.Bool() {
		k.sop1(opSMovB64, g.EXEC, save)
	} else {
		k.sop2(15, g.EXEC, g.EXEC, save) // s_or_b64
	}
}

func (x *gen) loopUniform(level int) {
	k := x.k
	x.use("loop_uniform")
	cnt := g.S(sCNT + level)
	k.add(g.MkSOPK(0, cnt, uint16(1+x.r.Intn(4))))
	top := k.label("loop")
	k.p.Label(top)
	x.inLoop++
	defer func() { x.inLoop-- }()
	n := 1 + x.r.Intn(2)
	for i := 0; i < n; i++ {
		switch d := x.r.Intn(100); {
		case d < 10 && x.ml != nil:
			x.anyMotif()
		case d < 40:
			x.aluRun(1 + x.r.Intn(4))
		case d < 55:
			x.loadBlock()
		case d < 70:
			x.storeBlock()
		case d < 80:
			if x.ok("diamond") {
				x.diamond(0)
			}
		case d < 90:
			if level == 0 && x.ok("loop_divergent") {
				x.loopDivergent()
			}
		default:
			if level == 0 && x.r.Bool() {
				x.loopUniform(1)
			} else {
				x.smemBlock()
			}
		}
	}
	// loop counter feeds the data flow
	t := x.vt()
	k.vop2(opVAddU32, g.V(t), cnt, g.V(t))
	k.sop2(2 /*s_add_i32*/, cnt, cnt, g.Imm(-1))
	switch x.r.Intn(3) {
	case 0:
		k.add(g.MkSOPC(7 /*s_cmp_lg_u32*/, cnt, g.Imm(0)))
		k.add(g.Branch(g.OpSCbranchSCC1, top))
	case 1:
		k.add(g.MkSOPC(6 /*s_cmp_eq_u32*/, cnt, g.Imm(0)))
		k.add(g.Branch(g.OpSCbranchSCC0, top))
	default:
		k.add(g.MkSOPK(3 /*s_cmpk_lg_i32*/, cnt, 0))
		k.add(g.Branch(g.OpSCbranchSCC1, top))
	}
}

// loopDivergent: per-lane trip count 0..3, EXEC shrinks until empty.
func (x *gen) loopDivergent() {
	k := x.k
	x.use("loop_divergent")
	save := g.SRange(sDIV, 2)
	k.vop2(opVAnd, g.V(vCNT), g.Imm(3), g.V(x.vt()))
	k.sop1(opSMovB64, save, g.EXEC)
	top, end := k.label("dl"), k.label("dlend")
	k.p.Label(top)
	k.add(g.MkVOPC(205 /*v_cmp_ne_u32*/, g.Imm(0), g.V(vCNT)))
	k.sop2(13 /*s_and_b64*/, g.EXEC, g.EXEC, g.VCC)
	k.add(g.Branch(g.OpSCbranchEXZ, end))
	x.inLoop++
	x.aluRun(1 + x.r.Intn(3))
	if x.r.Bool() {
		x.storeBlock()
	}
	x.inLoop--
	k.vop2(opVAddU32, g.V(vCNT), g.Imm(-1), g.V(vCNT))
	if x.r.Bool() {
		k.add(g.Branch(g.OpSBranch, top))
	} else {
		k.add(g.Branch(g.OpSCbranchEXNZ, top))
	}
	k.p.Label(end)
	k.sop1(opSMovB64, g.EXEC, save)
}

// ---------------------------------------------------------------- geometry

func (x *gen) geometry() Launch {
	r := x.r
	forced := func(f string) bool { return x.allow["force:"+f] }
	dims := 1
	switch {
	case forced("dims3"):
		dims = 3
	case forced("dims2"):
		dims = 2
	case x.ok("dims3") && r.Chance(1, 4):
		dims = 3
	case x.ok("dims2") && r.Chance(1, 3):
		dims = 2
	}
	if dims == 3 {
		x.use("dims3")
	} else if dims == 2 {
		x.use("dims2")
	}
	var cands [][3]int
	switch dims {
	case 1:
		cands = [][3]int{{64, 1, 1}, {64, 1, 1}, {128, 1, 1}, {256, 1, 1}}
		if x.ok("wg_non64") {
			cands = append(cands, [3]int{32, 1, 1}, [3]int{96, 1, 1}, [3]int{192, 1, 1}, [3]int{100, 1, 1})
		}
		if x.ok("big_wg") {
			cands = append(cands, [3]int{512, 1, 1}, [3]int{1024, 1, 1})
		}
	case 2:
		cands = [][3]int{{16, 4, 1}, {8, 8, 1}, {32, 2, 1}, {16, 16, 1}, {64, 2, 1}}
		if x.ok("wg_non64") {
			cands = append(cands, [3]int{7, 5, 1}, [3]int{10, 10, 1}, [3]int{24, 4, 1})
		}
		if x.ok("big_wg") {
			cands = append(cands, [3]int{32, 16, 1})
		}
	default:
		cands = [][3]int{{4, 4, 4}, {8, 4, 2}, {16, 2, 2}, {8, 8, 4}}
		if x.ok("wg_non64") {
			cands = append(cands, [3]int{3, 5, 2}, [3]int{6, 4, 4})
		}
		if x.ok("big_wg") {
			cands = append(cands, [3]int{8, 8, 8})
		}
	}
	var sel [][3]int
	for _, c := range cands {
		size := c[0] * c[1] * c[2]
		if forced("wg_non64") && size%64 == 0 {
			continue
		}
		if forced("big_wg") && size <= 256 {
			continue
		}
		sel = append(sel, c)
	}
	if len(sel) == 0 {
		sel = cands
	}
	maxItems := []int{320, 768, 1536}[x.size]
	if !forced("big_wg") {
		var fit [][3]int
		for _, c := range sel {
			if c[0]*c[1]*c[2] <= maxItems {
				fit = append(fit, c)
			}
		}
		if len(fit) > 0 {
			sel = fit
		}
	}
	s := pick(r, sel)
	size := s[0] * s[1] * s[2]
	wg := [3]uint16{uint16(s[0]), uint16(s[1]), uint16(s[2])}
	budget := max(1, maxItems/size) // number of work-groups
	var nwg [3]int
	switch dims {
	case 1:
		nwg = [3]int{1 + r.Intn(min(6, budget)), 1, 1}
	case 2:
		nwg = [3]int{1, 1, 1}
		if budget >= 2 {
			nwg[r.Intn(2)] = 2
		}
		if budget >= 4 {
			nwg = [3]int{1 + r.Intn(2), 1 + r.Intn(2), 1}
		}
		if budget >= 9 && r.Bool() {
			nwg = [3]int{1 + r.Intn(3), 1 + r.Intn(3), 1}
		}
	default:
		nwg = [3]int{1, 1, 1}
		if budget >= 2 {
			nwg[r.Intn(3)] = 2
		}
		if budget >= 8 {
			nwg = [3]int{1 + r.Intn(2), 1 + r.Intn(2), 1 + r.Intn(2)}
		}
	}
	if size%64 != 0 {
		x.use("wg_non64")
	}
	if size > 256 {
		x.use("big_wg")
	}
	var l Launch
	l.WG = wg
	for i := 0; i < 3; i++ {
		l.Grid[i] = uint32(nwg[i] * int(wg[i]))
		if x.ok("partial_wg") && wg[i] > 1 && r.Bool() {
			l.Grid[i] -= uint32(1 + r.Intn(int(wg[i])-1))
			x.use("partial_wg")
		}
	}
	if forced("partial_wg") && !x.used["partial_wg"] {
		l.Grid[0] -= uint32(1 + r.Intn(int(wg[0])-1))
		x.use("partial_wg")
	}
	return l
}

// ---------------------------------------------------------------- program

// runScript emits the body of a hand-written canonical program.
//
//	st <n> <off> <t>      store n dwords vT[t..] to OUT+off (body area offset)
//	ld|ldo|ldr <kind> <off> <slot>   load from IN / own OUT / reversed IN region
//	fold <n> <slot>       fold n loaded registers of a slot into temporaries
//	wait                  s_waitcnt vmcnt(0);  waitv <n>: s_waitcnt vmcnt(n)
//	alu <n>               n generated ALU operations
func (x *gen) runScript(script []string) {
	k := x.k
	for _, line := range script {
		var a, b, c int
		var kind string
		// "k<i>: cmd" restricts a command to kernel i of the program
		if len(line) > 3 && line[0] == 'k' && line[2] == ':' {
			if int(line[1]-'0') != x.ki {
				continue
			}
			line = strings.TrimSpace(line[3:])
		}
		switch {
		case scan(line, "sdev %d %d %d", &a, &b, &c):
			// scalar load of a dwords at byte b of the previous kernel's output; c:
			// 0 = the region of work-item slot 3 (all groups read the same line),
			// 1 = the region of the work-group's first work-item
			x.smemDev(a, b, c)
		case scan(line, "ldsrbw %s %d %d %d", &kind, &a, &b, &c):
			// c: bit 0 = extra region, bit 1 = narrow write
			x.ldsRBW(kind, a, b, c&1 != 0, c&2 != 0)
		case scan(line, "st %d %d %d", &a, &b, &c):
			op := []int{0, g.OpFlatStoreDword, g.OpFlatStoreDwordx2, g.OpFlatStoreDwordx3, g.OpFlatStoreDwordx4}[a]
			k.store(op, g.VRange(vT0+c, a), outBodyOff+b, 0)
		case scan(line, "ld %s %d %d", &kind, &b, &c), scan(line, "ldo %s %d %d", &kind, &b, &c), scan(line, "ldr %s %d %d", &kind, &b, &c):
			region := regIN
			if strings.HasPrefix(line, "ldo") {
				region = regOUT
				b += outBodyOff
			} else if strings.HasPrefix(line, "ldr") && k.rev {
				region = regREV
			}
			for _, l := range ldKinds {
				if l.feat == "ld_"+kind {
					k.load(l.op, g.VRange(vL0+4*c, l.regs), region, b, 0)
				}
			}
		case scan(line, "fold %d %d", &a, &b):
			for j := 0; j < a; j++ {
				k.vop2(opVXor, g.V(vT0+(b*4+j)%nVT), g.V(vL0+4*b+j), g.V(vT0+(b*4+j)%nVT))
			}
		case line == "wait":
			k.add(g.Waitcnt(0, 7, 15))
		case scan(line, "waitv %d", &a):
			k.add(g.Waitcnt(a, 7, 15))
		case scan(line, "alu %d", &a):
			x.aluRun(a)
		case scan(line, "spinwg %d %d", &a, &b):
			x.spinWG(a, b)
		case scan(line, "spin %d", &a):
			// uniform scalar work loop (keeps the wavefront alive for a while)
			top := k.label("spin")
			k.add(g.MkSOPK(0, g.S(sCNT), uint16(a)))
			k.p.Label(top)
			k.sop2(opSAddU32, g.S(sT0), g.S(sT0), g.S(sCNT))
			k.sop2(opSMulI32, g.S(sT0+1), g.S(sT0), g.Imm(3))
			k.sop2(16, g.S(sT0+2), g.S(sT0+2), g.S(sT0+1))
			k.sop2(2, g.S(sCNT), g.S(sCNT), g.Imm(-1))
			k.add(g.MkSOPC(7, g.S(sCNT), g.Imm(0)))
			k.add(g.Branch(g.OpSCbranchSCC1, top))
		default:
			panic("bad script line: " + line)
		}
	}
}

func scan(line, format string, args ...any) bool {
	n, err := fmt.Sscanf(line, format, args...)
	return err == nil && n == len(args) && strings.Fields(line)[0] == strings.Fields(format)[0]
}

// abiSigKernel is the probe kernel of the ABI-flag features: no memory access,
// the control flow spells out which of s0..s9 are zero, so that a different
// initial register layout shows in the instruction trace.
func abiSigKernel(arch g.Arch, v5 bool, l Launch, abi ABI) *kb {
	k := newKB(arch, v5, l, abi, 192, 64, 0)
	k.add(g.Nop(0))
	for rgn := 0; rgn < 10; rgn++ {
		lab := k.label("z")
		k.add(g.MkSOPC(6 /*s_cmp_eq_u32*/, g.S(rgn), g.Imm(0)))
		k.add(g.Branch(g.OpSCbranchSCC1, lab))
		k.add(g.Nop(uint16(rgn)))
		k.p.Label(lab)
	}
	k.add(g.Endpgm())
	return k
}

// BuildProgram generates the program of a spec.
func BuildProgram(spec ProgSpec) (prog *Program, err error) {
	defer func() {
		if e := recover(); e != nil {
			err = fmt.Errorf("generator: %v", e)
		}
	}()
	r := vlib.NewPRNG(spec.Seed).Fork("prog/" + spec.Arch)
	allow := map[string]bool{}
	for _, f := range spec.Allow {
		allow[f] = true
	}
	force := map[string]bool{}
	for _, f := range spec.Force {
		force[f] = true
		allow[f] = true
		allow["force:"+f] = true
	}
	prog = &Program{Spec: spec, TabSize: 1024, ReupAfter: -1}
	arch := g.GCN3
	if spec.Arch == "cdna3" {
		arch = g.CDNA3
	}
	x := &gen{r: r, allow: allow, arch: spec.Arch, size: spec.Size, prog: prog}
	x.used = map[string]bool{}
	geo := x.geometry()
	if spec.Geo != nil {
		geo = *spec.Geo
	} else if force["xkernel"] {
		// eight one-wavefront work-groups per kernel: consecutive kernels walk
		// over the compute units and come back to the first ones
		geo = Launch{Grid: [3]uint32{512, 1, 1}, WG: [3]uint16{64, 1, 1}}
	}
	if spec.Arch == "cdna3" && !allow["v5_ids_yz"] {
		// work-item ids y/z must stay zero: 1-D work-groups only
		for geo.WG[1] != 1 || geo.WG[2] != 1 {
			x.used = map[string]bool{}
			a2 := map[string]bool{}
			for f := range allow {
				a2[f] = true
			}
			delete(a2, "dims2")
			delete(a2, "dims3")
			x.allow = a2
			geo = x.geometry()
			x.allow = allow
		}
	} else if spec.Arch == "cdna3" && (geo.WG[1] > 1 || geo.WG[2] > 1) {
		x.use("v5_ids_yz")
	}
	rt := vlib.NewPRNG(spec.Seed).Fork("tail/" + spec.Arch)
	oversub := false
	if spec.Geo == nil && !force["xkernel"] && allow["oversub"] && (force["oversub"] || rt.Chance(1, 8)) {
		// many one-wavefront work-groups with a register budget that lets one
		// wavefront live on a SIMD: on the small platform variants the
		// wavefront slots are recycled many times
		oversub = true
		n := []int{16, 24, 32}[spec.Size]
		w := pick(rt, []int{64, 32, 16, 8})
		geo = Launch{Grid: [3]uint32{uint32(n*w - rt.Intn(w/2)), 1, 1}, WG: [3]uint16{uint16(w), 1, 1}}
	}
	// LDS launch pair: two launches whose every work-item reads the same LDS
	// words first and writes them afterwards. The command processor hands
	// work-groups to the compute units round-robin and keeps going where the
	// previous launch stopped, so the pair has more work-groups than an
	// emulation GPU has compute units (64): later groups run on compute units
	// that earlier groups (of this or of the first launch) have used. The
	// second launch is not larger than the first. (Own PRNG stream.)
	ldsPair := false
	geo2 := spec.Geo2
	if rl := vlib.NewPRNG(spec.Seed).Fork("ldspair/" + spec.Arch); allow["lds_rbw"] && allow["multi_kernel"] && spec.Geo == nil && spec.Script == nil &&
		!force["xkernel"] && !oversub && !spec.Lean && rl.Chance(1, 8) {
		ldsPair = true
		w := pick(rl, []int{4, 8, 16, 32})
		n1 := 40 + rl.Intn(33)
		n2 := 28 + rl.Intn(n1-27)
		geo = Launch{Grid: [3]uint32{uint32(n1 * w), 1, 1}, WG: [3]uint16{uint16(w), 1, 1}}
		geo2 = &Launch{Grid: [3]uint32{uint32(n2 * w), 1, 1}, WG: [3]uint16{uint16(w), 1, 1}}
	}
	x.ldsPair = ldsPair
	wgMixed := false
	if rm := vlib.NewPRNG(spec.Seed).Fork("wgmixed/" + spec.Arch); allow["wg_mixed"] && spec.Geo == nil && spec.Script == nil && !force["xkernel"] &&
		!oversub && !ldsPair && !spec.Lean && (spec.Arch != "cdna3" || allow["v5_ids_yz"]) && (force["wg_mixed"] || rm.Chance(1, 10)) {
		wgMixed = true
		geo = mixedGeo(rm)
	}
	geoUsed := x.used
	prog.InSize = geo.slots()*112 + 256
	{
		n := geo.numWG()
		prog.TabSize = tabColdOff + 64*n[0]*n[1]*n[2] + 64
	}
	for _, f := range motifsOf(spec.Arch) {
		if allow[f] && x.ml == nil && !spec.Lean {
			x.ml = prog.layoutMotifs(spec.Seed, spec.Arch)
		}
	}

	if force["abi_queue_ptr"] || force["abi_private_segment_size"] {
		abi := ABI{QueuePtr: force["abi_queue_ptr"], PrivSegSize: force["abi_private_segment_size"]}
		k := abiSigKernel(arch, spec.Arch == "cdna3", geo, abi)
		co, e := k.codeObject()
		if e != nil {
			return nil, e
		}
		kn := &Kernel{CO: co, L: geo, OStr: 192, IStr: 64, InFrom: -1, OutTo: -1, NInst: k.p.Len(), DeclVGPR: nVGPR}
		for f := range force {
			kn.Feat = append(kn.Feat, f)
		}
		sort.Strings(kn.Feat)
		prog.Kernels = append(prog.Kernels, kn)
		chooseHost(prog, allow, force)
		return prog, nil
	}

	// kernel chain shape
	nk := 1
	chain := false
	switch {
	case ldsPair:
		nk = 2
	case allow["xkernel"] && (force["xkernel"] || r.Chance(1, 6)):
		chain = true
		nk = 4 + r.Intn(5)
		if force["xkernel"] {
			nk = 11 // 88 work-groups > 64 compute units of the r9nano
			if spec.Arch == "cdna3" {
				nk = 18 // 144 > 120 compute units of the mi300a
			}
		}
	case allow["multi_kernel"] && (force["multi_kernel"] || r.Chance(1, 5)):
		nk = 2
	}
	if spec.Chain > 0 {
		chain, nk = true, spec.Chain
	}
	chainO := 192
	prevO := 0
	for ki := 0; ki < nk; ki++ {
		x.used = map[string]bool{}
		for f := range geoUsed {
			x.used[f] = true
		}
		x.written = map[int]bool{}
		x.ki, x.mcount = ki, nil
		if x.ml != nil && ki < kpMax {
			prog.Patches = append(prog.Patches, Patch{Off: x.ml.kpOff + kpStride*ki, Base: "out", K: ki, Count: 1},
				Patch{Off: x.ml.kpOff + kpStride*ki + 8, Base: "tab", Count: 1})
		}
		oStr := 192
		iStr := 64
		iShift := 0
		if allow["straddle"] && (force["straddle"] || r.Bool()) {
			oStr = pick(r, []int{196, 208, 240, 272})
			iStr = pick(r, []int{68, 80, 96, 112})
			iShift = pick(r, []int{0, 4, 8, 60})
			x.use("straddle")
		}
		if spec.OStr > 0 {
			oStr = spec.OStr
		}
		oStr += llDump // the dump of the long-lived registers ends every OUT region
		inFrom, outTo := -1, -1
		if chain {
			if ki == 0 {
				chainO = oStr
			}
			oStr = chainO
			if ki > 0 {
				inFrom, iStr, iShift = ki-1, chainO, 0
			}
			if ki >= 2 {
				outTo = ki - 2
				for prog.Kernels[outTo].OutTo >= 0 {
					outTo = prog.Kernels[outTo].OutTo
				}
			}
			x.use("xkernel")
		} else if ki > 0 {
			x.use("multi_kernel")
			inFrom, iStr, iShift = ki-1, prevO, 0
		}
		abi := ABI{}
		if allow["abi_dispatch"] && (force["abi_dispatch"] || r.Chance(1, 3)) {
			abi.DispatchPtr = true
			x.use("abi_dispatch")
		}
		if allow["abi_wgcount"] && (force["abi_wgcount"] || r.Chance(1, 3)) {
			abi.WGCount = true
			x.use("abi_wgcount")
		}
		geoK := geo
		if ki > 0 && geo2 != nil {
			geoK = *geo2
		}
		k := newKB(arch, spec.Arch == "cdna3", geoK, abi, oStr, iStr, iShift)
		k.rev = chain && ki > 0
		k.inPrev = inFrom >= 0
		k.lean = spec.Lean
		// what happens between the last store and s_endpgm (own PRNG stream)
		for _, t := range []string{"nowait", "smem", "flat_ld", "flat_st", "lds"} {
			f := "tail_" + t
			if allow[f] && (force[f] || rt.Chance(1, 5)) {
				k.tail = append(k.tail, t)
				x.use(f)
			}
		}
		for _, t := range spec.Tail {
			if !k.hasTail(t) {
				k.tail = append(k.tail, t)
			}
		}
		if spec.DeclVGPR > 0 {
			k.declVGPR = spec.DeclVGPR
		}
		if oversub {
			k.declVGPR = 256
			x.use("oversub")
		}
		if allow["vgpr_pressure"] && (force["vgpr_pressure"] || r.Chance(1, 6)) {
			// the mi300a advertises 512 VGPRs per lane: declare a large register
			// budget (the code uses the same registers)
			k.declVGPR = pick(r, []int{96, 128})
			if force["vgpr_pressure"] {
				k.declVGPR = 96
			}
			x.use("vgpr_pressure")
		}
		x.k = k
		k.prologue()
		seedT := r.Uint64()
		if !k.lean {
			k.initTemps(seedT)
		}
		if abi.DispatchPtr {
			// fold the grid size read through the dispatch pointer (AQL packet
			// offset 12 = grid_size_x) into the data flow
			k.add(g.SMEMLoadImm(g.OpSLoadDword, g.S(sLD), g.SRange(k.rDisp, 2), 12))
			k.add(g.Waitcnt(15, 7, 0))
			k.sop2(16, g.S(sT0), g.S(sT0), g.S(sLD))
		}
		if abi.WGCount {
			for i := 0; i < 3; i++ {
				k.sop2(opSAddU32, g.S(sT0+1+i), g.S(sT0+1+i), g.S(k.rCnt+i))
			}
		}
		// body
		nb := []int{3, 5, 7}[spec.Size] + r.Intn([]int{3, 6, 8}[spec.Size])
		if chain {
			nb = 1 + r.Intn(2)
		}
		forced := []string{}
		for f := range force {
			forced = append(forced, f)
		}
		sort.Strings(forced)
		emit := func(kind string) {
			switch kind {
			case "alu":
				x.aluRun(2 + r.Intn(6))
			case "salu":
				for i := 0; i < 1+r.Intn(4); i++ {
					x.saluOp()
				}
			case "load":
				x.loadBlock()
			case "store":
				x.storeBlock()
			case "raw":
				x.rawBlock()
			case "smem":
				x.smemBlock()
			case "lds":
				x.ldsBlock()
			case "waitcnt":
				x.waitcntBlock()
			case "diamond":
				x.diamond(0)
			case "loop":
				x.loopUniform(0)
			case "dloop":
				x.loopDivergent()
			case "motif":
				x.anyMotif()
			case "ldsrbw":
				x.ldsRBWRandom()
			default:
				if strings.HasPrefix(kind, "m:") {
					x.motif(kind[2:])
				}
			}
		}
		kindOf := func(f string) string {
			if isMotif(f) {
				return "m:" + f
			}
			switch f {
			case "ld_ubyte", "ld_sbyte", "ld_ushort", "ld_dword", "ld_x2", "ld_x4", "saddr", "straddle", "xkernel":
				return "load"
			case "st_dword", "st_x2", "st_x3", "st_x4", "waw", "waw_waitcnt":
				return "store"
			case "raw_mem":
				return "raw"
			case "smem_x1", "smem_x2", "smem_x4", "smem_x8", "smem_x16", "smem_sgpr_off", "smem_cross_line":
				return "smem"
			case "lds", "lds2", "lds64":
				return "lds"
			case "lds_rbw":
				return "ldsrbw"
			case "waitcnt_nz":
				return "waitcnt"
			case "diamond", "diamond_else", "nested":
				return "diamond"
			case "loop_uniform":
				return "loop"
			case "loop_divergent":
				return "dloop"
			case "salu", "sgpr64", "exec_ops":
				return "salu"
			}
			return "alu"
		}
		weights := []struct {
			kind string
			w    int
			need []string
		}{
			{"alu", 30, nil}, {"salu", 8, []string{"salu"}},
			{"load", 14, nil}, {"store", 14, nil},
			{"raw", 5, []string{"raw_mem"}},
			{"smem", 8, []string{"smem_x1", "smem_x2", "smem_x4", "smem_x8", "smem_x16"}},
			{"lds", 7, []string{"lds", "lds2", "lds64"}},
			{"waitcnt", 5, []string{"waitcnt_nz"}},
			{"diamond", 10, []string{"diamond"}},
			{"loop", 6, []string{"loop_uniform"}},
			{"dloop", 4, []string{"loop_divergent"}},
			{"motif", 14, motifsOf(spec.Arch)},
			{"ldsrbw", 5, []string{"lds_rbw"}},
		}
		var bag []string
		for _, w := range weights {
			okk := w.need == nil
			for _, n := range w.need {
				if allow[n] {
					okk = true
				}
			}
			if okk {
				for i := 0; i < w.w; i++ {
					bag = append(bag, w.kind)
				}
			}
		}
		if spec.Script != nil {
			nb = 0
			x.runScript(spec.Script)
		}
		if k.inPrev && allow["smem_dev"] && spec.Script == nil && (force["smem_dev"] || r.Bool()) {
			x.smemDev(0, -1, -1)
		}
		if wgMixed {
			x.use("wg_mixed")
			x.spinWG(10+x.r.Intn(20), 1+x.r.Intn(4))
		}
		if ldsPair {
			x.use("multi_kernel")
			x.ldsRBW("r2b64", 0, 1, false, false)
		}
		for i := 0; i < nb; i++ {
			emit(pick(r, bag))
			if len(forced) > 0 && i%2 == 1 {
				emit(kindOf(forced[(i/2)%len(forced)]))
			}
		}
		// forced features that did not occur by chance: retry their block
		blockReachable := map[string]bool{"vcc_ops": true, "vop3_sgpr_pair": true, "readfirstlane": true, "sgpr64": true, "exec_ops": true, "salu": true, "alu": true}
		for _, f := range forced {
			if kindOf(f) == "alu" && !blockReachable[f] {
				continue
			}
			for try := 0; try < 60 && !x.used[f]; try++ {
				emit(kindOf(f))
			}
		}
		// single-instruction probes go last so that their result reaches the
		// dump of the temporaries unmodified
		if force["s_getpc"] {
			x.use("s_getpc")
			k.sop1(28, g.SRange(sT0, 2), g.Imm(0)) // s_getpc_b64
		}
		if force["saddr_s0"] {
			// SADDR = s[0:1]: scalar base on CDNA3 (emulation decoder), "off" under
			// the GCN3 rule. The operands are arranged so that both readings give a
			// valid address: base = (IN_hi << 32) + 16, VGPR = low half of the own
			// IN-region address, whose successor register holds the high half.
			x.use("saddr_s0")
			k.sop1(opSMovB32, g.S(0), g.Imm(16))
			k.sop1(opSMovB32, g.S(1), g.S(sIN+1))
			k.nMem++
			k.add(g.GlobalLoad(g.OpFlatLoadDword, g.V(vL0), g.V(vIN), g.SRange(0, 2), 0))
			k.add(g.Waitcnt(0, 7, 15))
			k.vop2(opVXor, g.V(vT0), g.V(vL0), g.V(vT0))
		}
		if force["goffset"] || (allow["goffset"] && r.Chance(1, 3)) {
			// negative immediate offset: address register points 32 bytes past
			x.use("goffset")
			k.add64(vA0, vIN, 32)
			k.nMem++
			k.add(g.GlobalLoad(g.OpFlatLoadDword, g.V(vL0), g.VRange(vA0, 2), g.Off, int64(-4*(1+r.Intn(8)))))
			k.add(g.Waitcnt(0, 7, 15))
			k.vop2(opVXor, g.V(vT0+1), g.V(vL0), g.V(vT0+1))
		}
		k.epilogue()
		co, e := k.codeObject()
		if e != nil {
			return nil, e
		}
		kn := &Kernel{CO: co, L: geoK, OStr: oStr, IStr: iStr, IShift: iShift, InFrom: inFrom, OutTo: outTo, NInst: k.p.Len(), NMem: k.nMem, DeclVGPR: max(nVGPR, k.declVGPR)}
		for i := range kn.Consts {
			kn.Consts[i] = r.Uint32()
		}
		for f := range x.used {
			kn.Feat = append(kn.Feat, f)
		}
		sort.Strings(kn.Feat)
		for name, n := range x.mcount {
			if prog.Motifs == nil {
				prog.Motifs = map[string]int{}
			}
			prog.Motifs[name] += n
		}
		prog.Kernels = append(prog.Kernels, kn)
		prevO = oStr
	}
	chooseHost(prog, allow, force)
	return prog, nil
}

// hasFeature reports whether any kernel of the program used f.
func (p *Program) hasFeature(f string) bool {
	for _, k := range p.Kernels {
		for _, x := range k.Feat {
			if x == f {
				return true
			}
		}
	}
	return false
}

func (p *Program) features() []string {
	m := map[string]bool{}
	for _, k := range p.Kernels {
		for _, x := range k.Feat {
			m[x] = true
		}
	}
	var out []string
	for f := range m {
		out = append(out, f)
	}
	sort.Strings(out)
	return out
}
