package main

// Parent side: run the children of one program, compare, localise the first
// divergence, key the finding.

import (
	"encoding/base64"
	"encoding/binary"
	"encoding/json"
	"fmt"
	"os"
	"runtime/debug"
	"sort"
	"strings"
)

type replayCase struct {
	Prog    *ProgSpec    `json:"prog,omitempty"`
	Shipped *ShippedSpec `json:"shipped,omitempty"`
	Emu     PlatSpec     `json:"emu"`
	Timing  PlatSpec     `json:"timing"`
	Arch    string       `json:"arch"`
	GPU     string       `json:"gpu"`
	Scope   string       `json:"scope"`
}

func loadReplay(path string) *replayCase {
	b, err := os.ReadFile(path)
	if err != nil {
		fmt.Println("cannot read replay:", err)
		os.Exit(2)
	}
	var f struct {
		Witness struct {
			Replay *replayCase `json:"replay"`
		} `json:"witness"`
	}
	if err := json.Unmarshal(b, &f); err != nil || f.Witness.Replay == nil {
		fmt.Println("replay file has no case")
		os.Exit(2)
	}
	return f.Witness.Replay
}

func (o *orch) runReplay(rc *replayCase) {
	p := pairDef{Arch: rc.Arch, GPU: rc.GPU, Emu: rc.Emu, Timing: rc.Timing}
	j := &job{id: "replay", pair: p, prog: rc.Prog, shipped: rc.Shipped, timing: []PlatSpec{rc.Timing}, scope: rc.Scope}
	o.runJob(j)
	// a replay is judged on its own: minimum counters do not apply
	o.c.Count("programs_compared", 1<<20)
	o.c.Count("wavefronts_compared", 1<<20)
	o.c.Count("instructions_compared", 1<<30)
	o.c.Count("buffers_compared", 1<<20)
	o.c.Count("shipped_compared", 1<<20)
	o.c.Count("emulation_self_stable", 1<<20)
	for _, name := range motifCounter {
		o.c.Count(name, 1<<20)
	}
	for _, name := range hostCounter {
		o.c.Count(name, 1<<20)
	}
	o.c.Count("host|re-upload-between-kernels", 1<<20)
	o.c.Count("host|drain-per-kernel", 1<<20)
	o.c.Count("host|enqueue-all-then-drain", 1<<20)
	o.c.Count("motif|scalar-reread-of-kernel-written-data", 1<<20)
	o.c.Count("launches_with_partial_workgroups", 1<<20)
	o.c.Count("cases_with_mixed_wavefront_counts_per_cu", 1<<20)
	for i := 0; i < 500; i++ {
		o.c.Nontrivial(fmt.Sprintf("replay-%d", i))
	}
}

func (j *job) caseFor(ps PlatSpec, full bool) Case {
	return Case{Prog: j.prog, Shipped: j.shipped, Plat: ps, Full: full}
}

func (o *orch) inconclusive(j *job, what string) {
	o.c.Inconclusive(j.id + ": " + what)
}

func (o *orch) runJob(j *job) {
	c := o.c
	defer func() {
		if e := recover(); e != nil {
			o.inconclusive(j, fmt.Sprintf("harness failure while judging the case: %v\n%s", e, debug.Stack()))
		}
	}()
	c.Eval()
	// emulation twice: self-stability
	e1 := o.runCase(j.caseFor(j.pair.Emu, false))
	if e1.res == nil || !e1.res.OK {
		why := e1.crash
		if e1.res != nil {
			why = e1.res.Error
			if e1.res.Deadlock {
				why = "deadlock in phase " + e1.res.Phase
			}
		}
		if e1.timeout {
			why = "watchdog"
		}
		if j.shipped != nil {
			// the workload does not run in emulation: not a C02 subject (C01)
			c.Count("shipped_not_running_in_emulation", 1)
			c.Distinct("shipped_emu_failures", j.id+": "+why)
			return
		}
		o.inconclusive(j, "emulation cannot run the generated program (generator bug): "+why+" | "+lastLines(e1.tail, 3))
		return
	}
	e2 := o.runCase(j.caseFor(j.pair.Emu, false))
	if e2.res == nil || !e2.res.OK {
		o.inconclusive(j, "second emulation run failed: "+e2.crash)
		return
	}
	if d := diffResults(e1.res, e2.res); d != "" {
		if j.shipped != nil {
			c.Count("shipped_unstable_in_emulation", 1)
			c.Distinct("shipped_emu_unstable", j.id+": "+d)
			return
		}
		o.inconclusive(j, "two emulation runs differ (generator bug, not a finding): "+d)
		return
	}
	c.Count("emulation_self_stable", 1)
	held := true
	for _, ts := range j.timing {
		if j.scope == "seeded" && j.prog != nil {
			o.mu.Lock()
			_, open := o.disabled[j.pair.Arch+"/"+j.pair.GPU]["vgpr_pressure"]
			o.mu.Unlock()
			if open && vgprOverflowRisk(*j.prog, ts) {
				c.Count("runs_skipped_for_open_vgpr_window_overflow", 1)
				continue
			}
		}
		held = o.compareOn(j, e1.res, ts) && held
	}
	// probabilistic reproducers: alternates are tried while the probe holds
	if held && len(j.alts) > 0 {
		alt := *j
		alt.prog, alt.alts = &j.alts[0], j.alts[1:]
		alt.id = alt.prog.ID
		o.runJob(&alt)
	}
	if j.prog != nil {
		for _, f := range e1.res.Features {
			c.Distinct("generator_features", j.pair.Arch+"/"+f)
		}
	}
}

func lastLines(s string, n int) string {
	ls := strings.Split(strings.TrimSpace(s), "\n")
	if len(ls) > n {
		ls = ls[len(ls)-n:]
	}
	return strings.Join(ls, " / ")
}

// diffResults returns "" if buffers and per-wavefront summaries agree.
func diffResults(a, b *Result) string {
	if len(a.Buffers) != len(b.Buffers) {
		return fmt.Sprintf("number of device buffers %d vs %d", len(a.Buffers), len(b.Buffers))
	}
	for i := range a.Buffers {
		x, y := a.Buffers[i], b.Buffers[i]
		if x.Size != y.Size {
			return fmt.Sprintf("buffer %d size %d vs %d", i, x.Size, y.Size)
		}
		if x.SHA != y.SHA {
			return fmt.Sprintf("buffer %d (%s, %d bytes) differs%s", i, x.Name, x.Size, firstByteDiff(x, y))
		}
	}
	if len(a.Wavefronts) != len(b.Wavefronts) {
		return fmt.Sprintf("number of wavefronts %d vs %d", len(a.Wavefronts), len(b.Wavefronts))
	}
	keys := make([]string, 0, len(a.Wavefronts))
	for k := range a.Wavefronts {
		keys = append(keys, k)
	}
	sort.Strings(keys)
	for _, k := range keys {
		x := a.Wavefronts[k]
		y, ok := b.Wavefronts[k]
		if !ok {
			return "wavefront " + k + " missing on one side"
		}
		if x.N != y.N {
			return fmt.Sprintf("wavefront %s retired %d vs %d instructions", k, x.N, y.N)
		}
		if x.Hash != y.Hash {
			return fmt.Sprintf("wavefront %s executed a different instruction sequence (same length %d)", k, x.N)
		}
	}
	return ""
}

func firstByteDiff(x, y BufDump) string {
	if x.Data == "" || y.Data == "" {
		return ""
	}
	a, _ := base64.StdEncoding.DecodeString(x.Data)
	b, _ := base64.StdEncoding.DecodeString(y.Data)
	n := 0
	first := -1
	for i := range a {
		if i < len(b) && a[i] != b[i] {
			if first < 0 {
				first = i
			}
			n++
		}
	}
	if first < 0 {
		return ""
	}
	lo := first &^ 3
	hi := lo + 16
	if hi > len(a) {
		hi = len(a)
	}
	return fmt.Sprintf(": %d bytes differ, first at offset %d (emulation %x, timing %x)", n, first, a[lo:hi], b[lo:hi])
}

// compareOn runs the program on one timing platform and judges it against the
// emulation result.
func (o *orch) compareOn(j *job, emu *Result, ts PlatSpec) (held bool) {
	c := o.c
	t := o.runCase(j.caseFor(ts, false))
	c.Count("timing_runs", 1)
	if os.Getenv("C02_FLAGS") != "" {
		fmt.Printf("[C02] flags %s on %s: %v (cus=%d)\n", j.id, ts.Name, t.flags, func() int {
			if t.res != nil {
				return t.res.CUs
			}
			return -1
		}())
	}
	c.Distinct("platform_variants", ts.Name)
	if t.timeout {
		o.inconclusive(j, "timing run on "+ts.Name+": watchdog fired")
		return true
	}
	pk := j.pair.Arch + "/" + j.pair.GPU
	diff := ""
	switch {
	case t.res == nil:
		diff = "timing run crashed: " + t.crash
	case t.res.Deadlock:
		diff = "timing run deadlocked in phase " + t.res.Phase
	case t.res.Error != "":
		o.inconclusive(j, "timing child error: "+t.res.Error)
		return true
	default:
		if len(emu.Motifs) > 0 {
			// the host-prepared pointer tables assume that both modes allocate
			// the buffers at the same device addresses
			for i := range emu.Buffers {
				if i < len(t.res.Buffers) && emu.Buffers[i].Ptr != t.res.Buffers[i].Ptr {
					o.inconclusive(j, fmt.Sprintf("buffer %d is allocated at 0x%x in emulation and at 0x%x on %s: pointer tables differ (harness assumption broken)",
						i, emu.Buffers[i].Ptr, t.res.Buffers[i].Ptr, ts.Name))
					return true
				}
			}
		}
		diff = diffResults(emu, t.res)
	}
	if diff == "" {
		// held for this (program, platform)
		c.Count("programs_compared", 1)
		if j.shipped != nil {
			c.Count("shipped_compared", 1)
		}
		c.Count("wavefronts_compared", int64(len(emu.Wavefronts)))
		c.Count("instructions_compared", int64(emu.Insts))
		c.Count("buffers_compared", int64(len(emu.Buffers)))
		var bytes int64
		for _, b := range emu.Buffers {
			bytes += int64(b.Size)
		}
		c.Count("buffer_bytes_compared", bytes)
		for name, n := range emu.Motifs {
			c.Count(name, int64(n))
		}
		// launches with partial work-groups; cases in which work-groups of
		// different wavefront counts have to share compute units (more groups
		// than compute units)
		mixed := false
		for _, ki := range emu.KernelInfo {
			b, _ := json.Marshal(ki["launch"])
			var l Launch
			if json.Unmarshal(b, &l) != nil || l.WG[0] == 0 {
				continue
			}
			counts := map[int]bool{}
			partial := false
			for d := 0; d < 3; d++ {
				partial = partial || l.Grid[d]%uint32(l.WG[d]) != 0
			}
			if partial {
				c.Count("launches_with_partial_workgroups", 1)
				ext := func(d int) []int {
					out := []int{int(l.WG[d])}
					if r := int(l.Grid[d] % uint32(l.WG[d])); r != 0 {
						out = append(out, r)
					}
					return out
				}
				for _, a := range ext(0) {
					for _, b2 := range ext(1) {
						for _, c2 := range ext(2) {
							counts[(a*b2*c2+63)/64] = true
						}
					}
				}
				n := l.numWG()
				if len(counts) >= 2 && t.res.CUs > 0 && n[0]*n[1]*n[2] > 2*t.res.CUs {
					mixed = true
				}
			}
		}
		if mixed {
			c.Count("cases_with_mixed_wavefront_counts_per_cu", 1)
		}
		for op := range emu.Opcodes {
			c.Distinct("opcodes_in_compared_traces", j.pair.Arch+"/"+op)
		}
		mem := 0
		for _, w := range emu.Wavefronts {
			mem += w.Mem
		}
		if mem > 0 && len(emu.Wavefronts) >= 2 {
			c.Nontrivial(j.id + "@" + ts.Name)
		}
		c.Sample(map[string]any{"program": j.id, "platform": ts.Name, "wavefronts": len(emu.Wavefronts), "instructions": emu.Insts,
			"buffers": len(emu.Buffers), "features": emu.Features})
		return true
	}
	// ---- divergence: re-run both sides with full traces
	c.Count("divergences", 1)
	ef := o.runCase(j.caseFor(j.pair.Emu, true))
	tf := o.runCase(j.caseFor(ts, true))
	fd := locate(ef.res, tf.res)
	wit := map[string]any{
		"summary": diff, "program": j.id, "platform": ts, "scope": j.scope,
		"replay": replayCase{Prog: j.prog, Shipped: j.shipped, Emu: j.pair.Emu, Timing: ts, Arch: j.pair.Arch, GPU: j.pair.GPU, Scope: j.scope},
	}
	if t.res == nil {
		wit["timing_output_tail"] = lastLines(t.tail, 12)
	}
	if emu.KernelInfo != nil {
		wit["kernels"] = emu.KernelInfo
	}
	variant := ""
	if ts.Name != j.pair.Timing.Name {
		variant = strings.TrimPrefix(ts.Name, j.pair.GPU+"/")
	}
	key, what := o.keyFor(j, ts, variant, diff, t, tf, fd, wit, emu, ef.res, tf.res)
	c.Violation(key, what, wit)
	// keep exploring: features / variants reproduced by the canonical battery
	// are not used by seeded programs of this pair
	o.mu.Lock()
	if strings.HasPrefix(j.scope, "probe:") {
		if o.disabled[pk] == nil {
			o.disabled[pk] = map[string]string{}
		}
		o.disabled[pk][strings.TrimPrefix(j.scope, "probe:")] = key
	}
	if j.scope == "variant" && variant != "" {
		if o.varOff[pk] == nil {
			o.varOff[pk] = map[string]string{}
		}
		o.varOff[pk][ts.Name] = key
	}
	o.mu.Unlock()
	return false
}

// firstDiv describes the first diverging instruction.
type firstDiv struct {
	Found   bool
	Wf      string
	Index   int
	What    string // pc | dst | sdst | vcc | scc | exec | never-completed | missing-in-timing | extra-in-timing | initial-register:<r>
	Fmt     string
	Op      int
	Name    string
	PC      uint64
	Detail  string
	Context []string
}

func decodeRegs(s string) []uint32 {
	b, _ := base64.StdEncoding.DecodeString(s)
	out := make([]uint32, len(b)/4)
	for i := range out {
		out[i] = binary.LittleEndian.Uint32(b[4*i:])
	}
	return out
}

// locate walks the full traces of both modes in lockstep, wavefront by
// wavefront, and returns the earliest divergence (smallest instruction index;
// ties by wavefront key).
func locate(emu, tim *Result) firstDiv {
	best := firstDiv{}
	if emu == nil || emu.Traces == nil {
		return best
	}
	if tim == nil || tim.Traces == nil {
		return best
	}
	keys := make([]string, 0, len(emu.Traces))
	for k := range emu.Traces {
		keys = append(keys, k)
	}
	sort.Strings(keys)
	// earliest = earliest kernel launch first (a wrong result of kernel i shows
	// in what kernel i+1 loads), then the smallest instruction index
	launchOf := func(wf string) int {
		n := 0
		fmt.Sscanf(wf, "k%d/", &n)
		return n
	}
	consider := func(d firstDiv) {
		if !best.Found || launchOf(d.Wf) < launchOf(best.Wf) || (launchOf(d.Wf) == launchOf(best.Wf) && d.Index < best.Index) {
			best = d
		}
	}
	for _, k := range keys {
		ea := emu.Traces[k]
		ta, ok := tim.Traces[k]
		if !ok {
			consider(firstDiv{Found: true, Wf: k, Index: 0, What: "wavefront-missing-in-timing"})
			continue
		}
		for i := 0; i < len(ea) || i < len(ta); i++ {
			if i >= len(ta) {
				e := ea[i]
				consider(firstDiv{Found: true, Wf: k, Index: i, What: "missing-in-timing", Fmt: e.FN, Op: e.Op, Name: e.Name, PC: e.PC,
					Detail: fmt.Sprintf("timing stopped after %d instructions of this wavefront, emulation executed %d", len(ta), len(ea))})
				break
			}
			if i >= len(ea) {
				e := ta[i]
				consider(firstDiv{Found: true, Wf: k, Index: i, What: "extra-in-timing", Fmt: e.FN, Op: e.Op, Name: e.Name, PC: e.PC})
				break
			}
			e, t := ea[i], ta[i]
			if i == 0 && e.Init != "" && t.Init != "" && e.Init != t.Init {
				if d, ok := initDiff(k, e, t); ok {
					consider(d)
					break
				}
			}
			if e.PC != t.PC || e.Fmt != t.Fmt || e.Op != t.Op {
				// control flow diverged: blame the previous instruction
				d := firstDiv{Found: true, Wf: k, Index: i, What: "pc", Fmt: e.FN, Op: e.Op, Name: e.Name, PC: e.PC,
					Detail: fmt.Sprintf("emulation executes %s at pc 0x%x, timing %s at pc 0x%x", e.Name, e.PC, t.Name, t.PC)}
				if i > 0 {
					p := ea[i-1]
					d.Fmt, d.Op, d.Name, d.PC = p.FN, p.Op, p.Name, p.PC
					d.What = "next-pc"
				}
				consider(d)
				break
			}
			if !t.Done {
				consider(firstDiv{Found: true, Wf: k, Index: i, What: "never-completed", Fmt: e.FN, Op: e.Op, Name: e.Name, PC: e.PC})
				break
			}
			what, detail := "", ""
			if e.Mem != "" && t.Mem != "" && e.Mem != t.Mem {
				what, detail = memDiff(e, t)
			}
			switch {
			case what != "":
			case e.HDst != t.HDst:
				what = "dst"
				ev, tv := decodeRegs(e.Dst), decodeRegs(t.Dst)
				for x := range ev {
					if x < len(tv) && ev[x] != tv[x] {
						lane := x % 64
						reg := x / 64
						if strings.HasPrefix(e.DstOp, "s") {
							lane, reg = 0, x
						}
						detail = fmt.Sprintf("%s register +%d lane %d: emulation 0x%08x, timing 0x%08x", e.DstOp, reg, lane, ev[x], tv[x])
						break
					}
				}
			case e.Async:
			case e.HSDst != t.HSDst:
				what = "sdst"
			case e.VCC != t.VCC:
				what, detail = "vcc", fmt.Sprintf("emulation 0x%x, timing 0x%x", e.VCC, t.VCC)
			case e.SCC != t.SCC:
				what, detail = "scc", fmt.Sprintf("emulation %d, timing %d", e.SCC, t.SCC)
			case e.EXEC != t.EXEC:
				what, detail = "exec", fmt.Sprintf("emulation 0x%x, timing 0x%x", e.EXEC, t.EXEC)
			}
			if what != "" {
				d := firstDiv{Found: true, Wf: k, Index: i, What: what, Fmt: e.FN, Op: e.Op, Name: e.Name, PC: e.PC, Detail: detail}
				lo := i - 4
				if lo < 0 {
					lo = 0
				}
				for x := lo; x <= i; x++ {
					d.Context = append(d.Context, fmt.Sprintf("0x%x %s", ea[x].PC, ea[x].Name))
				}
				consider(d)
				break
			}
		}
	}
	return best
}

func (o *orch) keyFor(j *job, ts PlatSpec, variant, diff string, t, tfRun runOut, fd firstDiv, wit map[string]any, emu, emuFull, timFull *Result) (string, string) {
	prefix := "C02|" + j.pair.Arch + "|" + j.pair.GPU
	if variant != "" {
		prefix += "|variant:" + variant
	}
	if fd.Found {
		wit["first_divergence"] = fd
	}
	feature := strings.TrimPrefix(j.scope, "probe:")
	if strings.HasPrefix(j.scope, "probe:") && (strings.HasPrefix(feature, "host_") || feature == "reup") {
		// the probe of a host-API shape: the shape is part of the key (the same
		// symptom under another shape is another finding)
		prefix += "|host:" + feature
		if j.prog != nil {
			if pg, err := BuildProgram(*j.prog); err == nil {
				wit["host_shape"] = map[string]any{"shape": pg.Host, "buffers_allocated_through_copying_context": pg.AllocOther, "reupload_after_kernel": pg.ReupAfter}
			}
		}
	}
	// ---- white-box flag: a wavefront's VGPRs do not fit the per-lane window
	for _, f := range append(append([]string{}, t.flags...), tfRun.flags...) {
		if strings.HasPrefix(f, "vgpr-window-overflow") {
			wit["vgpr_window_overflow"] = f
			return prefix + "|vgpr-window-overflow", "co-resident wavefronts corrupt each other's vector registers: the dispatcher places a wavefront so that its VGPRs exceed the per-lane window of cu.SimpleRegisterFile (1024 bytes = 256 registers per lane) and alias the next lane's registers of other wavefronts; observed as: " + diff + " (" + f + ")"
		}
	}
	for _, f := range append(append([]string{}, t.flags...), tfRun.flags...) {
		if strings.HasPrefix(f, "sgpr-overlap") {
			wit["sgpr_overlap"] = f
			return prefix + "|sgpr-overlap-between-resident-wavefronts", "the dispatcher gives a new wavefront scalar registers that a wavefront still running on the same compute unit owns (resource bookkeeping of the command processor); observed as: " + diff + " (" + f + ")"
		}
	}
	for _, f := range append(append([]string{}, t.flags...), tfRun.flags...) {
		if strings.HasPrefix(f, "memory-response-after-wavefront-retired") {
			parts := strings.Fields(f)
			wit["late_memory_response"] = f
			return prefix + "|memory-response-after-wavefront-retired|" + parts[1],
				"a wavefront is retired (its s_endpgm completes and its register slot is released) while a memory instruction it issued is still outstanding; the late response is written into registers that may already belong to the next wavefront; observed as: " + diff + " (" + f + ")"
		}
	}
	// ---- initial register state (dispatcher)
	if fd.Found && strings.HasPrefix(fd.What, "initial-register:") {
		reg := strings.TrimPrefix(fd.What, "initial-register:")
		if j.pair.Arch == "cdna3" && reg == "v0" {
			return prefix + "|workitem-id-not-packed",
				"timing wavefront dispatcher (cu.WfDispatcherImpl.initRegisters) does not pack the work-item ids into v0 for code-object V5 kernels as emulation (emu.ComputeUnit.initWfRegs) does: " + fd.Detail
		}
		suffix := ""
		if emu != nil {
			for _, f := range emu.ABIFlags {
				if f == "queue_ptr" || f == "private_segment_size" {
					suffix += "|enable-sgpr-" + strings.ReplaceAll(f, "_", "-")
				}
			}
		}
		return prefix + "|initial-register|" + reg + suffix, "initial register " + reg + " of a wavefront differs between emulation and timing (code object flags: " + strings.Join(emu.ABIFlags, ",") + "): " + fd.Detail
	}
	if t.res == nil {
		k := prefix + "|timing-crash|" + t.crash
		w := "program runs in emulation and crashes the timing platform: " + t.crash
		if len(tfRun.suspects) > 0 {
			w += "; issued instructions whose opcode completed nowhere before the crash: " + strings.Join(tfRun.suspects, ", ")
		}
		wit["instructions_in_flight_at_crash"] = tfRun.inflight
		return k, w
	}
	if t.res.Deadlock {
		k := prefix + "|timing-deadlock"
		if fd.Found && fd.Name != "" {
			k += fmt.Sprintf("|%s|%d|%s", fd.Fmt, fd.Op, fd.Name)
		}
		return k, "program terminates in emulation and never finishes on the timing platform (engine idle, application waiting; phase " + t.res.Phase + ")"
	}
	if cl, det, ok := explainLoadDiff(emuFull, timFull, fd); ok {
		k := fmt.Sprintf("%s|first-divergence|%s|%d|%s|returns-%s", prefix, fd.Fmt, fd.Op, fd.Name,
			map[string]string{"older-store-survives": "value-of-an-older-store", "last-store-not-visible": "value-from-before-the-last-store",
				"address-never-stored-to": "different-data-of-unwritten-address"}[cl])
		return k, fmt.Sprintf("first diverging instruction: %s at pc 0x%x, instruction #%d of wavefront %s returns different data: %s [%s]", fd.Name, fd.PC, fd.Index, fd.Wf, det, diff)
	}
	if fd.Found {
		k := fmt.Sprintf("%s|first-divergence|%s|%d|%s|%s", prefix, fd.Fmt, fd.Op, fd.Name, fd.What)
		w := fmt.Sprintf("first diverging instruction: %s (%s opcode %d) at pc 0x%x, instruction #%d of wavefront %s — %s differs between emulation and timing. %s [%s]",
			fd.Name, fd.Fmt, fd.Op, fd.PC, fd.Index, fd.Wf, fd.What, fd.Detail, diff)
		return k, w
	}
	// buffers differ although every instruction and every register state agree
	_ = feature
	if cl, det, ok := explainBufferDiff(emuFull, emu, t.res); ok {
		return prefix + "|final-memory|" + cl, "all wavefronts execute the same instructions with the same register results in both modes, yet the final device memory differs: " + det
	}
	k := prefix + "|buffers-differ-without-instruction-divergence"
	return k, "all wavefronts execute the same instructions with the same register results in both modes, yet the final device memory differs (store path, cache flush or copy path): " + diff
}

// initDiff compares the dispatcher-written registers, ignoring what the first
// instruction itself wrote on the emulation side (the emulation hook runs
// after the instruction).
func initDiff(wf string, e, t *Ev) (firstDiv, bool) {
	ev, tv := decodeRegs(e.Init), decodeRegs(t.Init)
	skipS := map[int]bool{}
	if strings.HasPrefix(e.DstOp, "s[") {
		var a, b int
		if _, err := fmt.Sscanf(e.DstOp, "s[%d:%d]", &a, &b); err == nil {
			for i := a; i <= b; i++ {
				skipS[i] = true
			}
		}
	}
	skipV := map[int]bool{}
	if strings.HasPrefix(e.DstOp, "v[") {
		var a, b int
		if _, err := fmt.Sscanf(e.DstOp, "v[%d:%d]", &a, &b); err == nil {
			for i := a; i <= b; i++ {
				skipV[i] = true
			}
		}
	}
	for i := 0; i < len(ev) && i < len(tv); i++ {
		if ev[i] == tv[i] {
			continue
		}
		reg, lane := "", 0
		if i < 16 {
			if skipS[i] {
				continue
			}
			reg = fmt.Sprintf("s%d", i)
		} else {
			r := (i - 16) / 64
			lane = (i - 16) % 64
			if skipV[r] {
				continue
			}
			reg = fmt.Sprintf("v%d", r)
		}
		return firstDiv{Found: true, Wf: wf, Index: -1, What: "initial-register:" + reg, Fmt: e.FN, Op: e.Op, Name: e.Name, PC: e.PC,
			Detail: fmt.Sprintf("%s lane %d at wavefront start: emulation 0x%08x, timing 0x%08x", reg, lane, ev[i], tv[i])}, true
	}
	return firstDiv{}, false
}

// ---------------------------------------------------------------------------
// memory explanation: which store produced the value emulation holds, and what
// does timing hold instead

type storeHit struct {
	Seq   int    `json:"seq"`
	Wf    string `json:"wavefront"`
	Index int    `json:"inst_index"`
	Name  string `json:"mnemonic"`
	PC    uint64 `json:"pc"`
	Value uint32 `json:"value"`
}

func decodeMem(s string) (exec uint64, addrs []uint64, data []uint32) {
	b, _ := base64.StdEncoding.DecodeString(s)
	if len(b) < 8+512 {
		return 0, nil, nil
	}
	exec = binary.LittleEndian.Uint64(b)
	addrs = make([]uint64, 64)
	for i := range addrs {
		addrs[i] = binary.LittleEndian.Uint64(b[8+8*i:])
	}
	rest := b[8+512:]
	data = make([]uint32, len(rest)/4)
	for i := range data {
		data[i] = binary.LittleEndian.Uint32(rest[4*i:])
	}
	return
}

// storesTo lists, in emulation execution order, every store (active lane)
// that covers the dword at addr and was executed before sequence number
// before (0 = all).
func storesTo(emu *Result, addr uint64, before int) []storeHit {
	var out []storeHit
	for wf, evs := range emu.Traces {
		for i, e := range evs {
			if e.Mem == "" || e.FN != "flat" || e.Op < 28 || e.Op > 31 {
				continue
			}
			if before > 0 && e.Seq >= before {
				continue
			}
			exec, addrs, data := decodeMem(e.Mem)
			n := e.Op - 27
			for lane := 0; lane < 64; lane++ {
				if exec&(1<<uint(lane)) == 0 {
					continue
				}
				a := addrs[lane]
				if addr >= a && addr < a+uint64(4*n) && (addr-a)%4 == 0 && len(data) >= 64*n {
					out = append(out, storeHit{Seq: e.Seq, Wf: wf, Index: i, Name: e.Name, PC: e.PC, Value: data[lane*n+int(addr-a)/4]})
				}
			}
		}
	}
	sort.Slice(out, func(i, j int) bool { return out[i].Seq < out[j].Seq })
	return out
}

// classifyValue says what the timing value at addr is, given the emulation's
// store history: "older-store-survives", "pre-store-contents", "unwritten",
// "unexplained".
func classifyValue(hits []storeHit, timingVal uint32) (string, string) {
	if len(hits) == 0 {
		return "address-never-stored-to", "no store instruction of the program covers this address"
	}
	last := hits[len(hits)-1]
	for i := len(hits) - 2; i >= 0; i-- {
		if hits[i].Value == timingVal && hits[i].Value != last.Value {
			return "older-store-survives", fmt.Sprintf("timing holds 0x%08x = value of the OLDER store %s (#%d of %s, pc 0x%x); the last store in program order is %s (#%d of %s, pc 0x%x) with value 0x%08x",
				timingVal, hits[i].Name, hits[i].Index, hits[i].Wf, hits[i].PC, last.Name, last.Index, last.Wf, last.PC, last.Value)
		}
	}
	return "last-store-not-visible", fmt.Sprintf("timing holds 0x%08x, which no store to this address produced; the last store in program order is %s (#%d of %s, pc 0x%x) with value 0x%08x (%d stores cover the address)",
		timingVal, last.Name, last.Index, last.Wf, last.PC, last.Value, len(hits))
}

// explainBufferDiff looks at the first differing dword of the first differing
// buffer.
func explainBufferDiff(emuFull, emuRes, timRes *Result) (class, detail string, ok bool) {
	if emuFull == nil || emuFull.Traces == nil || timRes == nil {
		return "", "", false
	}
	for i := range emuRes.Buffers {
		if i >= len(timRes.Buffers) {
			break
		}
		x, y := emuRes.Buffers[i], timRes.Buffers[i]
		if x.SHA == y.SHA || x.Data == "" || y.Data == "" {
			continue
		}
		a, _ := base64.StdEncoding.DecodeString(x.Data)
		b, _ := base64.StdEncoding.DecodeString(y.Data)
		for off := 0; off+4 <= len(a) && off+4 <= len(b); off += 4 {
			ev, tv := binary.LittleEndian.Uint32(a[off:]), binary.LittleEndian.Uint32(b[off:])
			if ev == tv {
				continue
			}
			addr := x.Ptr + uint64(off)
			hits := storesTo(emuFull, addr, 0)
			cl, det := classifyValue(hits, tv)
			return cl, fmt.Sprintf("buffer %d (%s) offset %d (address 0x%x): emulation 0x%08x, timing 0x%08x; %s", i, x.Name, off, addr, ev, tv, det), true
		}
	}
	return "", "", false
}

// explainLoadDiff: a load returned different data in timing; relate the value
// timing loaded to the emulation's store history of that address.
func explainLoadDiff(emuFull, timFull *Result, fd firstDiv) (class, detail string, ok bool) {
	if emuFull == nil || timFull == nil || !fd.Found || fd.What != "dst" || fd.Fmt != "flat" || fd.Index < 0 {
		return "", "", false
	}
	e := emuFull.Traces[fd.Wf][fd.Index]
	t := timFull.Traces[fd.Wf][fd.Index]
	if e.Mem == "" {
		return "", "", false
	}
	_, addrs, _ := decodeMem(e.Mem)
	ev, tv := decodeRegs(e.Dst), decodeRegs(t.Dst)
	for x := range ev {
		if x < len(tv) && ev[x] != tv[x] {
			lane, reg := x%64, x/64
			addr := addrs[lane] + uint64(4*reg)
			if e.Op != 20 && e.Op != 21 && e.Op != 23 {
				return "", "", false // sub-dword loads: width / extension, not memory contents
			}
			hits := storesTo(emuFull, addr, e.Seq)
			cl, det := classifyValue(hits, tv[x])
			return cl, fmt.Sprintf("lane %d loads address 0x%x: emulation 0x%08x, timing 0x%08x; %s", lane, addr, ev[x], tv[x], det), true
		}
	}
	return "", "", false
}

// memDiff compares the effective lane addresses (and store data) of a FLAT
// access as computed under the emulation's and the timing model's rules.
func memDiff(e, t *Ev) (string, string) {
	ex, ea, ed := decodeMem(e.Mem)
	tx, ta, td := decodeMem(t.Mem)
	if ex != tx {
		return "exec", fmt.Sprintf("EXEC at the access: emulation 0x%x, timing 0x%x", ex, tx)
	}
	for lane := 0; lane < 64; lane++ {
		if ex&(1<<uint(lane)) == 0 {
			continue
		}
		if ea[lane] != ta[lane] {
			return "address", fmt.Sprintf("lane %d effective address: emulation 0x%x, timing 0x%x", lane, ea[lane], ta[lane])
		}
	}
	if len(ed) == len(td) && len(ed) >= 64 {
		n := len(ed) / 64
		for lane := 0; lane < 64; lane++ {
			if ex&(1<<uint(lane)) == 0 {
				continue
			}
			for j := 0; j < n; j++ {
				if ed[lane*n+j] != td[lane*n+j] {
					return "store-data", fmt.Sprintf("lane %d dword %d to be stored: emulation 0x%08x, timing 0x%08x", lane, j, ed[lane*n+j], td[lane*n+j])
				}
			}
		}
	}
	return "", ""
}
