package main

// Kernel builder for generated programs: register conventions, prologue /
// epilogue, code-object construction. Everything here is a pure function of
// the KernelSpec (no PRNG state is kept outside gen.go).

import (
	"encoding/binary"
	"fmt"

	"github.com/sarchlab/mgpusim/v4/amd/insts"

	g "verifharness/vlib/gcnasm"
)

// Launch is the launch geometry of one kernel.
type Launch struct {
	Grid [3]uint32 `json:"grid"`
	WG   [3]uint16 `json:"wg"`
}

func (l Launch) wgSize() int { return int(l.WG[0]) * int(l.WG[1]) * int(l.WG[2]) }
func (l Launch) numWG() [3]int {
	var n [3]int
	for i := 0; i < 3; i++ {
		n[i] = (int(l.Grid[i]) + int(l.WG[i]) - 1) / int(l.WG[i])
	}
	return n
}
func (l Launch) slots() int { n := l.numWG(); return n[0] * n[1] * n[2] * l.wgSize() }
func (l Launch) dims() int {
	d := 1
	if l.Grid[1] > 1 {
		d = 2
	}
	if l.Grid[2] > 1 {
		d = 3
	}
	return d
}
func (l Launch) numWavefronts() int {
	// per work-group: ceil(items in this group / 64), groups may be partial
	n := l.numWG()
	total := 0
	for z := 0; z < n[2]; z++ {
		for y := 0; y < n[1]; y++ {
			for x := 0; x < n[0]; x++ {
				total += (l.wgSize() + 63) / 64
			}
		}
	}
	return total
}

// ABI selects which optional ABI registers the code object asks for.
type ABI struct {
	DispatchPtr bool `json:"dispatch_ptr,omitempty"`
	QueuePtr    bool `json:"queue_ptr,omitempty"`
	PrivSegSize bool `json:"private_segment_size,omitempty"`
	WGCount     bool `json:"wg_count,omitempty"`
}

// fixed register homes (see prologue)
const (
	sOUT   = 16 // pair
	sIN    = 18 // pair
	sTAB   = 20 // pair
	sC0    = 22 // c0..c3 = s22..s25
	sWG    = 26 // linear work-group index
	sBASE  = 27 // sWG * work-group size
	sSAVE  = 28 // three pairs: 28,30,32 (saved EXEC by nesting depth)
	sT0    = 34 // 12 scalar temporaries s34..s45
	nST    = 12
	sCNT   = 46 // loop counters s46, s47
	sLD    = 48 // s48..s63: SMEM destinations
	sTMP   = 64 // s64..s67 scratch
	sDIV   = 68 // pair 68,69: divergent-loop saved exec
	sLLlo  = 12 // s12..s15: long-lived values (written first, dumped last)
	sLLhi  = 84 // s84..s95: long-lived values in high registers
	nLLhi  = 12
	nSGPR  = 96
	vX     = 45
	vY     = 46
	vZ     = 47
	vLID   = 3
	vGID   = 4
	vOUT   = 5 // pair
	vIN    = 7 // pair
	vLDS   = 9
	vOOFF  = 10
	vIOFF  = 11
	vT0    = 12 // 12 temporaries v12..v23
	nVT    = 12
	vL0    = 24 // load destinations v24..v39
	vA0    = 40 // address scratch v40..v43
	vCNT   = 44
	vRIN   = 48 // pair: address of the reversed work-item's IN region
	vRIOFF = 50
	vLLlo  = 52  // v52..v55: long-lived values
	vLLhi  = 248 // v248..v251: long-lived values in high registers (code objects declaring 256 VGPRs)
	nVGPR  = 56
	// bytes appended to every OUT region for the dump of the long-lived
	// registers: 4 dwords into which the 16 scalar ones are folded, 4 + 4
	// vector dwords
	llDump = 48
	ldsPer = 32 // LDS bytes per work-item slot
)

// kb builds one kernel.
type kb struct {
	arch     g.Arch
	v5       bool
	l        Launch
	abi      ABI
	p        *g.Program
	nlab     int
	lds      bool
	ldsExtra int // bytes of LDS declared behind the per-work-item slots (motif.go ldsRBW)
	oStr     int // bytes per work-item in OUT
	iStr     int // bytes per work-item in IN
	iShift   int
	rev      bool     // compute the reversed-region address (xkernel chains)
	inPrev   bool     // IN is the OUT buffer of the previous kernel (device-written)
	declVGPR int      // VGPRs per work-item the code object declares (>= nVGPR)
	oBody    int      // end of the body area of an OUT region (= oStr - llDump)
	lean     bool     // no temporaries: prologue, long-lived values, body, dump
	tail     []string // operations placed right before s_endpgm, not waited for
	// ABI register numbers
	rKA, rDisp, rWGX, rWGY, rWGZ, rCnt int
	nMem                               int
	feat                               map[string]bool
}

func pow2ceil(n int) int {
	p := 1
	for p < n {
		p <<= 1
	}
	return p
}

func newKB(arch g.Arch, v5 bool, l Launch, abi ABI, oStr, iStr, iShift int) *kb {
	k := &kb{arch: arch, v5: v5, l: l, abi: abi, p: g.NewProgram(arch), oStr: oStr, oBody: oStr - llDump, iStr: iStr, iShift: iShift, feat: map[string]bool{}}
	// register layout as amd/emu/computeunit.go initWfRegs assigns it
	r := 0
	k.rDisp = -1
	if abi.DispatchPtr {
		k.rDisp = r
		r += 2
	}
	// QueuePtr: emulation reserves nothing, timing reserves two registers.
	// Generated code is written for the emulation layout.
	k.rKA = r
	r += 2
	k.rCnt = -1
	if abi.WGCount {
		k.rCnt = r
		r += 3
	}
	k.rWGX, k.rWGY, k.rWGZ = r, r+1, r+2
	return k
}

func (k *kb) label(prefix string) string {
	k.nlab++
	return fmt.Sprintf("%s%d", prefix, k.nlab)
}

func (k *kb) add(ds ...g.Desc) { k.p.Add(ds...) }

// immOrLit returns an inline constant when possible, a literal otherwise.
func immOrLit(v int) g.Operand {
	if v >= -16 && v <= 64 {
		return g.Imm(v)
	}
	return g.Lit(uint32(int32(v)))
}

func (k *kb) sop2(op int, d, a, b g.Operand) { k.add(g.MkSOP2(op, d, a, b)) }
func (k *kb) sop1(op int, d, a g.Operand)    { k.add(g.MkSOP1(op, d, a)) }
func (k *kb) vop2(op int, d, a, b g.Operand) { k.add(g.MkVOP2(op, d, a, b)) }
func (k *kb) vop1(op int, d, a g.Operand)    { k.add(g.MkVOP1(op, d, a)) }
func (k *kb) vop3(op int, d, a, b, c g.Operand) {
	k.add(g.MkVOP3a(op, d, a, b, c))
}

// opcode numbers used directly (identical in both tables unless noted)
const (
	opSAddU32  = 0
	opSMulI32  = 36
	opSMovB32  = 0  // SOP1
	opSMovB64  = 1  // SOP1
	opVMov     = 1  // VOP1
	opVAddU32  = 25 // VOP2: v_add_u32 (GCN3, writes VCC) / v_add_co_u32 (CDNA3)
	opVAddcU32 = 28
	opVAnd     = 19
	opVXor     = 21
	opVLshl    = 18
	opVLshr    = 16
	opVMadU24  = 451 // VOP3a
	opVMulLo   = 645
	opVBfeU32  = 456
)

// add64 emits v[d:d+1] = v[a:a+1] + c (c small constant), via VCC.
func (k *kb) add64(d, a int, c int) {
	k.vop2(opVAddU32, g.V(d), immOrLit(c), g.V(a))
	if d != a {
		k.vop1(opVMov, g.V(d+1), g.V(a+1))
	}
	k.vop2(opVAddcU32, g.V(d+1), g.Imm(0), g.V(d+1))
}

// prologue loads the kernel arguments and computes the per-work-item values.
func (k *kb) prologue() {
	ka := g.SRange(k.rKA, 2)
	k.add(g.Nop(0))
	k.initLongLived()
	k.add(g.SMEMLoadImm(g.OpSLoadDwordx4, g.SRange(sOUT, 4), ka, 0))
	k.add(g.SMEMLoadImm(g.OpSLoadDwordx4, g.SRange(sTAB, 4), ka, 16))
	k.add(g.SMEMLoadImm(g.OpSLoadDwordx2, g.SRange(sC0+2, 2), ka, 32))
	k.sop1(opSMovB32, g.M0, g.Imm(-1))
	k.add(g.Waitcnt(15, 7, 0))
	n := k.l.numWG()
	// linear work-group index
	k.sop2(opSMulI32, g.S(sWG), g.S(k.rWGZ), immOrLit(n[1]))
	k.sop2(opSAddU32, g.S(sWG), g.S(sWG), g.S(k.rWGY))
	k.sop2(opSMulI32, g.S(sWG), g.S(sWG), immOrLit(n[0]))
	k.sop2(opSAddU32, g.S(sWG), g.S(sWG), g.S(k.rWGX))
	k.sop2(opSMulI32, g.S(sBASE), g.S(sWG), immOrLit(k.l.wgSize()))
	// work-item ids
	if k.v5 {
		k.vop2(opVAnd, g.V(vX), g.Lit(0x3ff), g.V(0))
		k.vop3(opVBfeU32, g.V(vY), g.V(0), g.Imm(10), g.Imm(10))
		k.vop2(opVLshr, g.V(vZ), g.Imm(20), g.V(0))
	} else {
		k.vop1(opVMov, g.V(vX), g.V(0))
		k.vop1(opVMov, g.V(vY), g.V(1))
		k.vop1(opVMov, g.V(vZ), g.V(2))
	}
	sx, sy := int(k.l.WG[0]), int(k.l.WG[1])
	k.sop1(opSMovB32, g.S(sTMP), immOrLit(sx))
	k.vop3(opVMadU24, g.V(vLID), g.V(vY), g.S(sTMP), g.V(vX))
	k.sop1(opSMovB32, g.S(sTMP), immOrLit(sx*sy))
	k.vop3(opVMadU24, g.V(vLID), g.V(vZ), g.S(sTMP), g.V(vLID))
	k.vop2(opVAddU32, g.V(vGID), g.S(sBASE), g.V(vLID))
	// OUT region
	k.sop1(opSMovB32, g.S(sTMP), immOrLit(k.oStr))
	k.vop3(opVMulLo, g.V(vOOFF), g.V(vGID), g.S(sTMP), g.Operand{})
	k.vop2(opVAddU32, g.V(vOUT), g.S(sOUT), g.V(vOOFF))
	k.vop1(opVMov, g.V(vOUT+1), g.S(sOUT+1))
	k.vop2(opVAddcU32, g.V(vOUT+1), g.Imm(0), g.V(vOUT+1))
	// IN region
	k.sop1(opSMovB32, g.S(sTMP), immOrLit(k.iStr))
	k.vop3(opVMulLo, g.V(vIOFF), g.V(vGID), g.S(sTMP), g.Operand{})
	if k.iShift != 0 {
		k.vop2(opVAddU32, g.V(vIOFF), immOrLit(k.iShift), g.V(vIOFF))
	}
	k.vop2(opVAddU32, g.V(vIN), g.S(sIN), g.V(vIOFF))
	k.vop1(opVMov, g.V(vIN+1), g.S(sIN+1))
	k.vop2(opVAddcU32, g.V(vIN+1), g.Imm(0), g.V(vIN+1))
	// LDS slot address
	k.vop2(opVLshl, g.V(vLDS), g.Imm(5), g.V(vLID))
	if k.rev {
		// region of work-item (slots-1-gid)
		k.sop1(opSMovB32, g.S(sTMP), immOrLit(k.l.slots()-1))
		k.vop2(26 /*v_sub_u32: src0 - src1*/, g.V(vRIOFF), g.S(sTMP), g.V(vGID))
		k.sop1(opSMovB32, g.S(sTMP), immOrLit(k.iStr))
		k.vop3(opVMulLo, g.V(vRIOFF), g.V(vRIOFF), g.S(sTMP), g.Operand{})
		k.vop2(opVAddU32, g.V(vRIN), g.S(sIN), g.V(vRIOFF))
		k.vop1(opVMov, g.V(vRIN+1), g.S(sIN+1))
		k.vop2(opVAddcU32, g.V(vRIN+1), g.Imm(0), g.V(vRIN+1))
	}
}

func (k *kb) hiVGPR() bool { return k.declVGPR >= 256 }

// initLongLived writes the long-lived registers as the very first thing a
// wavefront does: SALU/VALU values derived from the work-group / work-item
// ids. Nothing in the body touches them; the epilogue dumps them. (A register
// slot recycled from a retired wavefront must not be disturbed by anything
// that wavefront left in flight.)
func (k *kb) initLongLived() {
	mix := func(i int) uint32 { return uint32(0x9e3779b1*uint32(i+1)) | 1 }
	src := []int{k.rWGX, k.rWGY, k.rWGZ}
	regs := []int{}
	for i := 0; i < 4; i++ {
		regs = append(regs, sLLlo+i)
	}
	for i := 0; i < nLLhi; i++ {
		regs = append(regs, sLLhi+i)
	}
	for i, r := range regs {
		k.sop2(opSMulI32, g.S(r), g.S(src[i%3]), g.Lit(mix(i)))
		if i%2 == 0 {
			k.sop2(16 /*s_xor_b32*/, g.S(r), g.S(r), g.Lit(mix(i+40)))
		}
	}
	for i := 0; i < 4; i++ {
		k.vop2(8 /*v_mul_u32_u24*/, g.V(vLLlo+i), g.Lit(mix(i+80)&0xffff|1), g.V(0))
		k.vop2(opVXor, g.V(vLLlo+i), g.Lit(mix(i+90)), g.V(vLLlo+i))
	}
	if k.hiVGPR() {
		for i := 0; i < 4; i++ {
			k.vop2(8, g.V(vLLhi+i), g.Lit(mix(i+100)&0xffff|1), g.V(0))
			k.vop2(opVXor, g.V(vLLhi+i), g.Lit(mix(i+110)), g.V(vLLhi+i))
		}
	}
}

// initTemps gives every temporary a lane-dependent defined value.
func (k *kb) initTemps(seed uint64) {
	x := seed
	next := func() uint32 {
		x = x*6364136223846793005 + 1442695040888963407
		return uint32(x >> 32)
	}
	for i := 0; i < nVT; i++ {
		k.vop2(8 /*v_mul_u32_u24*/, g.V(vT0+i), g.Lit(next()&0xffff|1), g.V(vGID))
		k.vop2(opVXor, g.V(vT0+i), g.Lit(next()), g.V(vT0+i))
	}
	for i := 0; i < nST; i++ {
		k.sop2(opSMulI32, g.S(sT0+i), g.S(sWG), g.Lit(next()|1))
		k.sop2(16 /*s_xor_b32*/, g.S(sT0+i), g.S(sT0+i), g.S(sC0+i%4))
	}
	// load destinations and scratch get defined values too
	for i := 0; i < 16; i++ {
		k.vop1(opVMov, g.V(vL0+i), g.Imm(0))
	}
	for i := 0; i < 4; i++ {
		k.vop1(opVMov, g.V(vA0+i), g.Imm(0))
	}
	k.vop1(opVMov, g.V(vCNT), g.Imm(0))
	k.sop1(opSMovB32, g.S(sCNT), g.Imm(0))
	k.sop1(opSMovB32, g.S(sCNT+1), g.Imm(0))
	for i := 0; i < 16; i++ {
		k.sop1(opSMovB32, g.S(sLD+i), g.Imm(0))
	}
}

// memAddr prepares the address operands of a global access at byte offset off
// of the work-item's IN (in=true) or OUT region. It returns addr, saddr and the
// immediate offset to put into the instruction. form: 0 = 64-bit VGPR address,
// 1 = SGPR base + 32-bit VGPR offset (CDNA3 only).
func (k *kb) memAddr(region int, off int, form int, scratch int) (addr, saddr g.Operand, imm int64) {
	base, off32, sb := vOUT, vOOFF, sOUT
	switch region {
	case regIN:
		base, off32, sb = vIN, vIOFF, sIN
	case regREV:
		base, off32, sb = vRIN, vRIOFF, sIN
	}
	if k.arch == g.CDNA3 {
		if form == 1 {
			return g.V(off32), g.SRange(sb, 2), int64(off)
		}
		return g.VRange(base, 2), g.Off, int64(off)
	}
	if off == 0 {
		return g.VRange(base, 2), g.Operand{}, 0
	}
	k.add64(scratch, base, off)
	return g.VRange(scratch, 2), g.Operand{}, 0
}

// regions a generated access can address
const (
	regOUT = 0
	regIN  = 1
	regREV = 2
)

func (k *kb) load(op int, dst g.Operand, region int, off int, form int) {
	addr, saddr, imm := k.memAddr(region, off, form, vA0)
	k.nMem++
	if k.arch == g.CDNA3 {
		k.add(g.GlobalLoad(op, dst, addr, saddr, imm))
	} else {
		k.add(g.FlatLoad(op, dst, addr))
	}
}

func (k *kb) store(op int, data g.Operand, off int, form int) {
	addr, saddr, imm := k.memAddr(regOUT, off, form, vA0+2)
	k.nMem++
	if k.arch == g.CDNA3 {
		k.add(g.GlobalStore(op, addr, data, saddr, imm))
	} else {
		k.add(g.FlatStore(op, addr, data))
	}
}

// epilogue stores every temporary into the work-item's OUT region and ends.
// Layout of an OUT region (dwords): 0..11 vector temporaries, 12..23 scalar
// temporaries, 24.. free for stores of the body (outBodyOff).
const outBodyOff = 96

func (k *kb) epilogue() {
	if !k.lean {
		for i := 0; i < nVT; i += 4 {
			k.store(g.OpFlatStoreDwordx4, g.VRange(vT0+i, 4), 4*i, 0)
		}
		for i := 0; i < nST; i += 4 {
			for j := 0; j < 4; j++ {
				k.vop1(opVMov, g.V(vL0+j), g.S(sT0+i+j))
			}
			k.store(g.OpFlatStoreDwordx4, g.VRange(vL0, 4), 48+4*i, 0)
		}
	}
	// long-lived registers: 4 low + 12 high scalar ones folded into 4 dwords
	// (register i goes into dword i%4), 4 low (+ 4 high) vector ones
	ll := k.oBody
	regs := []int{sLLlo, sLLlo + 1, sLLlo + 2, sLLlo + 3}
	for i := 0; i < nLLhi; i++ {
		regs = append(regs, sLLhi+i)
	}
	for i, r := range regs {
		if i < 4 {
			k.vop1(opVMov, g.V(vL0+i), g.S(r))
		} else {
			k.vop2(opVXor, g.V(vL0+i%4), g.S(r), g.V(vL0+i%4))
		}
	}
	k.store(g.OpFlatStoreDwordx4, g.VRange(vL0, 4), ll, 0)
	k.store(g.OpFlatStoreDwordx4, g.VRange(vLLlo, 4), ll+16, 0)
	if k.hiVGPR() {
		k.store(g.OpFlatStoreDwordx4, g.VRange(vLLhi, 4), ll+32, 0)
	}
	k.tailOps()
	k.add(g.Endpgm())
}

func (k *kb) hasTail(name string) bool {
	for _, t := range k.tail {
		if t == name {
			return true
		}
	}
	return false
}

// tabColdOff is where the per-work-group cold lines of the TAB buffer start.
const tabColdOff = 1024

// tailOps: what a kernel does between its last dump store and s_endpgm.
// Default: s_waitcnt 0. "nowait": nothing (s_endpgm itself has to cover the
// stores). The dead operations are legal and race-free: their destination
// registers are dead (already dumped) and nothing waits for them - the
// hardware (and the timing model) must keep the wavefront's registers until
// they have returned.
func (k *kb) tailOps() {
	dead := k.hasTail("smem") || k.hasTail("flat_ld") || k.hasTail("flat_st") || k.hasTail("lds")
	if !dead {
		if !k.hasTail("nowait") {
			k.add(g.WaitcntAll())
		}
		return
	}
	// the dump stores are acknowledged first, so that only the dead
	// operations are outstanding at s_endpgm
	k.add(g.Waitcnt(0, 7, 15))
	// cold line of this work-group: TAB + tabColdOff + 64 * linear group index
	k.sop2(28 /*s_lshl_b32*/, g.S(sTMP+2), g.S(sWG), g.Imm(6))
	k.sop2(opSAddU32, g.S(sTMP+2), g.S(sTMP+2), immOrLit(tabColdOff))
	k.sop2(opSAddU32, g.S(sTMP+2), g.S(sTAB), g.S(sTMP+2))
	k.sop2(4 /*s_addc_u32*/, g.S(sTMP+3), g.S(sTAB+1), g.Imm(0))
	cold := g.SRange(sTMP+2, 2)
	if k.hasTail("flat_ld") || k.hasTail("flat_st") {
		k.vop1(opVMov, g.V(vA0), g.S(sTMP+2))
		k.vop1(opVMov, g.V(vA0+1), g.S(sTMP+3))
	}
	if k.hasTail("lds") {
		k.lds = true
		k.nMem++
		k.add(g.DSWrite(g.OpDSWriteB32, g.V(vLDS), g.V(vLLlo), 0))
	}
	if k.hasTail("flat_st") {
		// every wavefront of the group stores the group index (the same value
		// from every lane) into the last dword of the group's cold line, which
		// nothing reads
		k.nMem++
		k.vop1(opVMov, g.V(vCNT), g.S(sWG))
		if k.arch == g.CDNA3 {
			k.add(g.GlobalStore(g.OpFlatStoreDword, g.VRange(vA0, 2), g.V(vCNT), g.Off, 60))
		} else {
			k.add64(vA0+2, vA0, 60)
			k.add(g.FlatStore(g.OpFlatStoreDword, g.VRange(vA0+2, 2), g.V(vCNT)))
		}
	}
	if k.hasTail("flat_ld") {
		k.nMem++
		dst := g.VRange(vLLlo, 4)
		if k.hiVGPR() {
			dst = g.VRange(vLLhi, 4)
		}
		if k.arch == g.CDNA3 {
			k.add(g.GlobalLoad(g.OpFlatLoadDwordx4, dst, g.VRange(vA0, 2), g.Off, 16))
		} else {
			k.add64(vL0, vA0, 16)
			k.add(g.FlatLoad(g.OpFlatLoadDwordx4, dst, g.VRange(vL0, 2)))
		}
	}
	if k.hasTail("smem") {
		k.nMem += 3
		k.add(g.SMEMLoadImm(g.OpSLoadDwordx4, g.SRange(sLLhi+4, 4), cold, 0))
		k.add(g.SMEMLoadImm(g.OpSLoadDwordx2, g.SRange(sLLhi+8, 2), cold, 32))
		k.add(g.SMEMLoadImm(g.OpSLoadDword, g.S(sLLhi+11), cold, 48))
		k.add(g.SMEMLoadImm(g.OpSLoadDwordx4, g.SRange(sLLlo, 4), cold, 16))
	}
}

// codeObject assembles the program into a hand-built code object.
func (k *kb) codeObject() (*insts.KernelCodeObject, error) {
	code, err := k.p.Bytes()
	if err != nil {
		return nil, err
	}
	decl := nVGPR
	if k.declVGPR > decl {
		decl = k.declVGPR
	}
	meta := &insts.KernelCodeObjectMeta{
		ComputePgmRsrc1:               uint32(decl/4-1)&0x3f | uint32(nSGPR/8-1)<<6,
		ComputePgmRsrc2:               1<<7 | 1<<8 | 1<<9 | 2<<11, // work-group id x,y,z; work-item id x,y,z
		KernargSegmentByteSize:        64,
		EnableSgprKernargSegmentPtr:   true,
		EnableSgprDispatchPtr:         k.abi.DispatchPtr,
		EnableSgprQueuePtr:            k.abi.QueuePtr,
		EnableSgprPrivateSegmentSize:  k.abi.PrivSegSize,
		EnableSgprGridWorkgroupCountX: k.abi.WGCount,
		EnableSgprGridWorkgroupCountY: k.abi.WGCount,
		EnableSgprGridWorkgroupCountZ: k.abi.WGCount,
		WFSgprCount:                   nSGPR,
		WIVgprCount:                   uint16(decl),
	}
	if k.lds {
		meta.GroupSegmentByteSize = uint32(pow2ceil(k.l.wgSize())*ldsPer + k.ldsExtra)
	}
	ver := insts.CodeObjectV3
	if k.v5 {
		ver = insts.CodeObjectV5
	}
	// pad the code to a multiple of 64 bytes plus one line of s_endpgm so that
	// the timing instruction fetch (64-byte lines) never leaves the buffer
	for len(code)%64 != 0 {
		code = binary.LittleEndian.AppendUint32(code, 0xBF810000)
	}
	for i := 0; i < 16; i++ {
		code = binary.LittleEndian.AppendUint32(code, 0xBF810000)
	}
	return &insts.KernelCodeObject{KernelCodeObjectMeta: meta, Data: code, Version: ver}, nil
}
