package main

// Shipped workloads at tiny sizes, constructed as /repo/amd/samples/*/main.go
// construct them but on a platform of our own so that the instruction
// observers can be attached. Only workloads without inter-work-group data
// races are listed (every work-item / work-group owns its outputs within one
// kernel; kernels of one run are launched back to back).

import (
	"github.com/sarchlab/mgpusim/v4/amd/arch"
	"github.com/sarchlab/mgpusim/v4/amd/benchmarks"
	"github.com/sarchlab/mgpusim/v4/amd/benchmarks/amdappsdk/bitonicsort"
	"github.com/sarchlab/mgpusim/v4/amd/benchmarks/amdappsdk/fastwalshtransform"
	"github.com/sarchlab/mgpusim/v4/amd/benchmarks/amdappsdk/floydwarshall"
	"github.com/sarchlab/mgpusim/v4/amd/benchmarks/amdappsdk/matrixmultiplication"
	"github.com/sarchlab/mgpusim/v4/amd/benchmarks/amdappsdk/matrixtranspose"
	"github.com/sarchlab/mgpusim/v4/amd/benchmarks/amdappsdk/nbody"
	"github.com/sarchlab/mgpusim/v4/amd/benchmarks/amdappsdk/simpleconvolution"
	"github.com/sarchlab/mgpusim/v4/amd/benchmarks/amdappsdk/vectoradd"
	"github.com/sarchlab/mgpusim/v4/amd/benchmarks/dnn/layer_benchmarks/im2col"
	"github.com/sarchlab/mgpusim/v4/amd/benchmarks/dnn/layer_benchmarks/relu"
	"github.com/sarchlab/mgpusim/v4/amd/benchmarks/heteromark/aes"
	"github.com/sarchlab/mgpusim/v4/amd/benchmarks/heteromark/fir"
	"github.com/sarchlab/mgpusim/v4/amd/benchmarks/heteromark/kmeans"
	"github.com/sarchlab/mgpusim/v4/amd/benchmarks/polybench/atax"
	"github.com/sarchlab/mgpusim/v4/amd/benchmarks/polybench/bicg"
	"github.com/sarchlab/mgpusim/v4/amd/benchmarks/rodinia/nw"
	"github.com/sarchlab/mgpusim/v4/amd/benchmarks/shoc/fft"
	"github.com/sarchlab/mgpusim/v4/amd/benchmarks/shoc/spmv"
	"github.com/sarchlab/mgpusim/v4/amd/benchmarks/shoc/stencil2d"
	"github.com/sarchlab/mgpusim/v4/amd/driver"

	"verifharness/vlib/plat"
)

// ShippedSpec names a shipped workload run.
type ShippedSpec struct {
	Name   string `json:"name"`
	Arch   string `json:"arch"`
	Params []int  `json:"params"`
}

type shippedWL struct {
	Name  string
	Archs []string
	Quick [][]int // parameter vectors of the quick tier (per arch the same)
	More  [][]int // additional vectors of the thorough tier
	Build func(d *driver.Driver, a arch.Type, p []int) benchmarks.Benchmark
}

var bothArch = []string{"gcn3", "cdna3"}

func shippedTable() []*shippedWL {
	return []*shippedWL{
		{Name: "fir", Archs: bothArch, Quick: [][]int{{300, 5}}, More: [][]int{{1028, 16}, {64, 3}},
			Build: func(d *driver.Driver, a arch.Type, p []int) benchmarks.Benchmark {
				b := fir.NewBenchmark(d)
				b.Length, b.NumTapsParam, b.Arch = p[0], p[1], a
				return b
			}},
		{Name: "matrixtranspose", Archs: bothArch, Quick: [][]int{{64}}, More: [][]int{{128}},
			Build: func(d *driver.Driver, a arch.Type, p []int) benchmarks.Benchmark {
				b := matrixtranspose.NewBenchmark(d)
				b.Width, b.Arch = p[0], a
				return b
			}},
		{Name: "floydwarshall", Archs: bothArch, Quick: [][]int{{8, 0}}, More: [][]int{{16, 5}, {24, 3}},
			Build: func(d *driver.Driver, a arch.Type, p []int) benchmarks.Benchmark {
				b := floydwarshall.NewBenchmark(d)
				b.NumNodes, b.NumIterations, b.Arch = uint32(p[0]), uint32(p[1]), a
				return b
			}},
		{Name: "relu", Archs: bothArch, Quick: [][]int{{300}}, More: [][]int{{1028}, {64}},
			Build: func(d *driver.Driver, a arch.Type, p []int) benchmarks.Benchmark {
				b := relu.NewBenchmark(d)
				b.Arch, b.Length = a, p[0]
				return b
			}},
		{Name: "vectoradd", Archs: []string{"cdna3"}, Quick: [][]int{{128, 1}}, More: [][]int{{64, 3}, {1088, 1}},
			Build: func(d *driver.Driver, a arch.Type, p []int) benchmarks.Benchmark {
				b := vectoradd.NewBenchmark(d)
				b.Width, b.Height = uint32(p[0]), uint32(p[1])
				return b
			}},
		{Name: "bitonicsort", Archs: bothArch, Quick: [][]int{{256}}, More: [][]int{{64}, {1024}},
			Build: func(d *driver.Driver, a arch.Type, p []int) benchmarks.Benchmark {
				b := bitonicsort.NewBenchmark(d)
				b.Arch, b.Length, b.OrderAscending = a, p[0], true
				return b
			}},
		// thorough tier only
		{Name: "fastwalshtransform", Archs: bothArch, More: [][]int{{64}, {512}},
			Build: func(d *driver.Driver, a arch.Type, p []int) benchmarks.Benchmark {
				b := fastwalshtransform.NewBenchmark(d)
				b.Arch, b.Length = a, uint32(p[0])
				return b
			}},
		{Name: "matrixmultiplication", Archs: bothArch, More: [][]int{{32, 32, 32}},
			Build: func(d *driver.Driver, a arch.Type, p []int) benchmarks.Benchmark {
				b := matrixmultiplication.NewBenchmark(d)
				b.Arch, b.X, b.Y, b.Z = a, uint32(p[0]), uint32(p[1]), uint32(p[2])
				return b
			}},
		{Name: "simpleconvolution", Archs: bothArch, More: [][]int{{30, 17, 3}},
			Build: func(d *driver.Driver, a arch.Type, p []int) benchmarks.Benchmark {
				b := simpleconvolution.NewBenchmark(d)
				b.Width, b.Height, b.Arch = uint32(p[0]), uint32(p[1]), a
				b.SetMaskSize(uint32(p[2]))
				return b
			}},
		{Name: "nbody", Archs: bothArch, More: [][]int{{256, 1}},
			Build: func(d *driver.Driver, a arch.Type, p []int) benchmarks.Benchmark {
				b := nbody.NewBenchmark(d)
				b.Arch, b.NumParticles, b.NumIterations = a, int32(p[0]), int32(p[1])
				return b
			}},
		{Name: "aes", Archs: bothArch, More: [][]int{{1600}},
			Build: func(d *driver.Driver, a arch.Type, p []int) benchmarks.Benchmark {
				b := aes.NewBenchmark(d)
				b.Arch, b.Length = a, p[0]
				return b
			}},
		{Name: "kmeans", Archs: bothArch, More: [][]int{{100, 4, 3, 2}},
			Build: func(d *driver.Driver, a arch.Type, p []int) benchmarks.Benchmark {
				b := kmeans.NewBenchmark(d)
				b.Arch, b.NumPoints, b.NumFeatures, b.NumClusters, b.MaxIter = a, p[0], p[1], p[2], p[3]
				return b
			}},
		{Name: "atax", Archs: bothArch, More: [][]int{{33, 33}},
			Build: func(d *driver.Driver, a arch.Type, p []int) benchmarks.Benchmark {
				b := atax.NewBenchmark(d)
				b.Arch, b.NX, b.NY = a, p[0], p[1]
				return b
			}},
		{Name: "bicg", Archs: bothArch, More: [][]int{{33, 70}},
			Build: func(d *driver.Driver, a arch.Type, p []int) benchmarks.Benchmark {
				b := bicg.NewBenchmark(d)
				b.Arch, b.NX, b.NY = a, p[0], p[1]
				return b
			}},
		{Name: "nw", Archs: bothArch, More: [][]int{{64}},
			Build: func(d *driver.Driver, a arch.Type, p []int) benchmarks.Benchmark {
				b := nw.NewBenchmark(d)
				b.Arch = a
				b.SetLength(p[0])
				return b
			}},
		{Name: "fft", Archs: bothArch, More: [][]int{{8192}},
			Build: func(d *driver.Driver, a arch.Type, p []int) benchmarks.Benchmark {
				b := fft.NewBenchmark(d)
				b.Arch, b.Bytes, b.BytesMode, b.Passes = a, int64(p[0]), true, 1
				return b
			}},
		{Name: "spmv", Archs: bothArch, More: [][]int{{100, 50}},
			Build: func(d *driver.Driver, a arch.Type, p []int) benchmarks.Benchmark {
				b := spmv.NewBenchmark(d)
				b.Dim, b.Sparsity, b.Arch = int32(p[0]), float64(p[1])/1000, a
				return b
			}},
		{Name: "stencil2d", Archs: bothArch, More: [][]int{{16, 64, 1}},
			Build: func(d *driver.Driver, a arch.Type, p []int) benchmarks.Benchmark {
				b := stencil2d.NewBenchmark(d)
				b.Arch, b.NumIteration, b.NumRows, b.NumCols = a, p[2], p[0]+2, p[1]+2
				return b
			}},
		{Name: "im2col", Archs: bothArch, More: [][]int{{1, 2, 9, 7, 3, 1, 2, 1}},
			Build: func(d *driver.Driver, a arch.Type, p []int) benchmarks.Benchmark {
				b := im2col.NewBenchmark(d)
				b.N, b.C, b.H, b.W = p[0], p[1], p[2], p[3]
				b.KernelHeight, b.KernelWidth, b.PadX, b.PadY, b.StrideX, b.StrideY, b.DilateX, b.DilateY = p[4], p[4], p[5], p[5], p[6], p[6], p[7], p[7]
				b.Arch = a
				return b
			}},
	}
}

func findShipped(name string) *shippedWL {
	for _, w := range shippedTable() {
		if w.Name == name {
			return w
		}
	}
	return nil
}

func runShipped(p *plat.Platform, cs *Case, res *Result) {
	w := findShipped(cs.Shipped.Name)
	if w == nil {
		res.Error = "unknown shipped workload " + cs.Shipped.Name
		return
	}
	a := arch.GCN3
	if cs.Shipped.Arch == "cdna3" {
		a = arch.CDNA3
	}
	phase.Store("shipped-build")
	b := w.Build(p.Driver, a, cs.Shipped.Params)
	b.SelectGPU([]int{1})
	phase.Store("shipped-run")
	progress.Add(1)
	b.Run()
	progress.Add(1)
	dumpBuffers(p.Driver, res, map[uint64]string{}, nil)
}
