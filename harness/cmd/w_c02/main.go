// w_c02: timing mode is functionally transparent (DESIGN.md C02).
// Differential emulation <-> timing on generated kernels (vlib/gcnasm) and on
// a few shipped kernels, platform knobs varied; one child process per
// (program, platform) run. Observables: final bytes of every device buffer
// (read back with MemCopyD2H) and the per-wavefront executed instruction
// sequence; on a mismatch the case is re-run with full traces (including the
// register state after every instruction) to name the FIRST diverging
// instruction.
//
//go:debug randseednop=0
package main

import (
	"encoding/json"
	"fmt"
	"hash/fnv"
	"os"
	"path/filepath"
	"sort"
	"strings"
	"sync"
	"time"

	"github.com/sarchlab/mgpusim/v4/amd/insts"

	"verifharness/vlib"
)

func main() {
	if len(os.Args) > 2 && os.Args[1] == "child" {
		childMain()
		return
	}
	if len(os.Args) > 1 && os.Args[1] == "list" {
		listMain()
		return
	}
	if len(os.Args) > 2 && os.Args[1] == "gencheck" {
		gencheckMain(os.Args[2])
		return
	}
	if len(os.Args) > 2 && os.Args[1] == "disasm" {
		disasmMain(os.Args[2])
		return
	}
	if len(os.Args) > 2 && os.Args[1] == "spec" {
		specMain(os.Args[2:])
		return
	}
	// --replay <file>: re-execute the case of a replay file (read before
	// vlib.Start removes stale replays)
	var replay *replayCase
	for i, a := range os.Args {
		if a == "--replay" && i+1 < len(os.Args) {
			replay = loadReplay(os.Args[i+1])
		}
	}
	c := vlib.Start("C02")
	scratch, cleanup := vlib.Scratch("c02")
	o := &orch{c: c, scratch: scratch, disabled: map[string]map[string]string{}, varOff: map[string]map[string]string{}}
	if replay != nil {
		o.runReplay(replay)
	} else {
		o.run()
	}
	cleanup()
	c.Set("timing_platform_knobs_varied", []string{
		"GPU type (r9nano / mi300a; register scoreboard off / on is fixed by the GPU type)", "CUs per shader array {1,2,4}", "shader arrays {1,2,4,8}",
		"L2 size {16 KiB, 64 KiB, default}", "memory banks / L2 slices {1,4,8,16}", "bank interleaving {128 B, 4 KiB}", "GPU clock {500 MHz, default}",
		"number of GPUs {1,2}, kernels on the GPU that owns the data or on the other one (RDMA)", "DMA vs magic memory copy"})
	c.Finish(vlib.FinishOpts{
		Rule: "a comparison = one program (generated from vlib/gcnasm or shipped) run in emulation (twice, self-stability) and on one timing platform variant, " +
			"every device buffer read back with MemCopyD2H and every wavefront's (pc, format, opcode) sequence compared; " +
			"non-trivial = distinct (program, timing platform) pair with at least one memory instruction and at least two wavefronts whose comparison was carried out to the end; " +
			"counters motif|* = instances of dependent-load sequences with nothing but s_waitcnt / s_nop between a load's return and the next reader of the loaded register " +
			"(scalar / vector pointer chasing through one register pair, destination overlapping the base partially, loaded register first consumed by compare+branch, by the next load's offset or scalar base, " +
			"re-read of an operand across the return of a load into it) in programs whose comparison held; " +
			"host|* = host-API shape of the host program of a compared program (through which driver contexts buffers are allocated / uploaded, kernels launched, results read back; two processes one after the other; re-upload between two kernels); " +
			"motif|lds-read-before-write = LDS reads of words the work-group has not written (then written with non-zero data), in grids with more work-groups than compute units and in pairs of launches",
		Assumptions: []string{
			"generated programs are race-free by construction (every work-item owns its output slots and its LDS slot; LDS exchanges are fenced by s_barrier on both sides; loaded registers are consumed only after s_waitcnt covers them; non-zero vmcnt is relied upon for in-order return only for CDNA3 global_* loads)",
			"operations a kernel leaves un-waited before s_endpgm (scalar / vector loads into registers that were dumped before, a store to a dword nothing reads, an LDS write) are legal: s_endpgm has to keep the wavefront's registers until they have returned; every kernel writes long-lived values into low and high SGPRs/VGPRs first and dumps them last, so that anything a retired wavefront left in flight shows in a recycled register slot",
			"the host program is the same in both modes; contexts made with InitWithExistingPID share one address space, so allocating through one, launching through another and copying through a third is legal API use; every launch is drained before the next copy, every copy returns before the next launch",
			"nothing is assumed about the contents of LDS words a work-group reads before writing them except that both modes agree (both give a work-group a zero-filled LDS on the unchanged tree); such reads touch only the work-item's own LDS locations",
			"the pointer / index tables the dependent-load motifs walk are prepared by the host after allocation (device addresses are the same in both modes; checked), every address they hold is mapped, and no kernel writes them",
			"a program whose two emulation runs differ, or that emulation cannot run, is a generator / workload problem (inconclusive), not a finding",
			"features for which the canonical battery reproduces an open keyed finding are not used by seeded programs of the same platform pair (so that one finding does not hide the rest); the canonical battery keeps them",
			"deadlock = engine not running, not kicked and no application progress over a long run of observations; the wall-clock watchdog only yields inconclusive",
		},
		MinNontrivial: c.N(80, 800),
		MinCounters: map[string]int64{"programs_compared": int64(c.N(100, 1000)), "wavefronts_compared": int64(c.N(400, 5000)),
			"instructions_compared": int64(c.N(80000, 1000000)), "buffers_compared": int64(c.N(500, 5000)), "shipped_compared": int64(c.N(5, 20)),
			"emulation_self_stable":      int64(c.N(100, 600)),
			"motif|scalar-pointer-chase": int64(c.N(10, 40)), "motif|scalar-chase-partial-overlap": int64(c.N(10, 40)),
			"motif|vector-pointer-chase": int64(c.N(10, 40)), "motif|vector-chase-to-store": int64(c.N(10, 40)),
			"motif|load-to-branch": int64(c.N(10, 40)), "motif|load-to-smem-offset": int64(c.N(10, 40)),
			"motif|load-to-saddr": int64(c.N(5, 20)), "motif|reread-across-load-return": int64(c.N(10, 40)),
			"motif|lds-read-before-write": int64(c.N(10, 40)),
			"host|one-context":            int64(c.N(50, 500)), "host|worker-launches-main-copies": int64(c.N(2, 10)), "host|main-launches-worker-copies": int64(c.N(2, 10)),
			"host|three-sibling-contexts": int64(c.N(2, 10)), "host|drain-per-kernel": int64(c.N(10, 100)), "host|enqueue-all-then-drain": int64(c.N(2, 10)),
			"motif|scalar-reread-of-kernel-written-data": int64(c.N(20, 100)),
			"launches_with_partial_workgroups":           int64(c.N(10, 100)), "cases_with_mixed_wavefront_counts_per_cu": int64(c.N(4, 20)), "host|two-processes": int64(c.N(2, 10)), "host|re-upload-between-kernels": int64(c.N(2, 10))},
	})
}

// ---------------------------------------------------------------------------

type pairDef struct {
	Arch   string
	GPU    string
	Emu    PlatSpec
	Timing PlatSpec
}

func pairs() []pairDef {
	return []pairDef{
		{Arch: "gcn3", GPU: "r9nano", Emu: PlatSpec{Name: "emu-gcn3", Arch: "gcn3", NumGPUs: 1},
			Timing: PlatSpec{Name: "r9nano", Timing: true, GPUType: "r9nano", NumGPUs: 1}},
		{Arch: "cdna3", GPU: "mi300a", Emu: PlatSpec{Name: "emu-cdna3", Arch: "cdna3", NumGPUs: 1},
			Timing: PlatSpec{Name: "mi300a", Timing: true, GPUType: "mi300a", NumGPUs: 1}},
	}
}

// variants are the knob variants of a pair's timing platform.
func variants(p pairDef) []PlatSpec {
	t := func(name string, f func(ps *PlatSpec)) PlatSpec {
		ps := p.Timing
		ps.Name = p.GPU + "/" + name
		f(&ps)
		return ps
	}
	return []PlatSpec{
		t("1cu", func(ps *PlatSpec) { ps.Knobs = &Knobs{CUPerSA: 1, NumSA: 1} }),
		t("2cu-x-2sa-l2-64k-4banks", func(ps *PlatSpec) { ps.Knobs = &Knobs{CUPerSA: 2, NumSA: 2, L2KB: 64, MemBanks: 4} }),
		t("4sa-x-1cu-interleave-4k", func(ps *PlatSpec) { ps.Knobs = &Knobs{CUPerSA: 1, NumSA: 4, Log2Interleave: 12, MemBanks: 8} }),
		t("l2-16k-1bank", func(ps *PlatSpec) { ps.Knobs = &Knobs{CUPerSA: 4, NumSA: 2, L2KB: 16, MemBanks: 1} }),
		t("freq-500mhz-8sa", func(ps *PlatSpec) { ps.Knobs = &Knobs{CUPerSA: 2, NumSA: 8, FreqMHz: 500} }),
		t("2gpus", func(ps *PlatSpec) { ps.NumGPUs = 2 }),
		t("2gpus-run-on-gpu2", func(ps *PlatSpec) { ps.NumGPUs = 2; ps.UseGPU = 2 }),
		t("magic-copy", func(ps *PlatSpec) { ps.Magic = true }),
	}
}

type orch struct {
	c       *vlib.Check
	scratch string
	mu      sync.Mutex
	// disabled[pair][feature] = key of the finding that disabled it
	disabled map[string]map[string]string
	varOff   map[string]map[string]string
}

type job struct {
	alts    []ProgSpec // tried in order while the program holds (probabilistic reproducers)
	id      string
	pair    pairDef
	prog    *ProgSpec
	shipped *ShippedSpec
	timing  []PlatSpec
	scope   string // probe:<f> | variant:<name> | seeded | shipped
}

// smallVariants: the platform variants with few compute units, on which
// wavefront slots are recycled by programs of moderate size.
func smallVariants(p pairDef) []PlatSpec {
	var out []PlatSpec
	for _, v := range variants(p) {
		if v.Knobs != nil && v.Knobs.CUPerSA*v.Knobs.NumSA <= 4 {
			out = append(out, v)
		}
	}
	return out
}

func hash64(s string) uint64 {
	h := fnv.New64a()
	h.Write([]byte(s))
	return h.Sum64()
}

func probeSpec(arch, f string) ProgSpec {
	allow := append([]string{}, baseFeatures...)
	force := []string{f}
	switch f {
	case "v5_ids_yz":
		force = append(force, "dims2")
	case "nested", "diamond_else":
		allow = append(allow, "diamond")
	case "smem_sgpr_off", "smem_cross_line":
		allow = append(allow, "smem_x4", "smem_x2")
	case "waitcnt_nz", "straddle":
		allow = append(allow, "ld_x2", "ld_x4", "st_x4")
	case "saddr":
		allow = append(allow, "ld_x2", "st_x2")
	case "exec_ops":
		allow = append(allow, "sgpr64")
	case "vgpr_pressure":
		// one 1024-work-item group: four wavefronts per SIMD
		force = append(force, "big_wg")
		sp := ProgSpec{ID: "probe-" + arch + "-" + f, Arch: arch, Seed: hash64("C02/probe/" + f), Allow: append(allow, "ld_x4", "st_x4"), Force: force, Probe: f,
			Geo: &Launch{Grid: [3]uint32{1024, 1, 1}, WG: [3]uint16{1024, 1, 1}}}
		return sp
	case "slot_recycle", "slot_recycle_small":
		// lean kernels, far more one-wavefront work-groups than wavefront
		// slots (one wavefront per SIMD: 256 / 512 declared VGPRs), dead
		// un-waited operations right before s_endpgm
		n, wg, tail := 1100, 4, []string{"smem"}
		if f == "slot_recycle_small" {
			n, wg, tail = 96, 16, []string{"smem", "flat_ld", "flat_st", "lds"}
		}
		decl := 256
		if arch == "cdna3" {
			decl = 512
		}
		return ProgSpec{ID: "probe-" + arch + "-" + f, Arch: arch, Seed: hash64("C02/probe/" + f), Allow: allow, Probe: f, Lean: true,
			Geo: &Launch{Grid: [3]uint32{uint32(n * wg), 1, 1}, WG: [3]uint16{uint16(wg), 1, 1}}, DeclVGPR: decl, Tail: tail, Script: []string{"spin 8"}}
	case "waw", "waw_waitcnt":
		allow = append(allow, "st_x2", "st_x4", "loop_uniform")
	case "xkernel":
		allow = append(allow, "ld_x2", "ld_x4")
	case "sgpr64", "readfirstlane":
		allow = append(allow, "salu")
	case "chase_v", "chase_v_st", "reread":
		allow = append(allow, "diamond", "loop_uniform")
	case "host_wl", "host_wc", "host_three", "host_alloc_other", "reup":
		// two kernels, the second reads what the first stored; scalar and vector
		// loads of TAB in both
		allow = append(allow, "multi_kernel", "smem_x4", "smem_x2", "ld_x4", "st_x4")
		force = append(force, "multi_kernel", "smem_x4")
		if f == "host_alloc_other" {
			force = append(force, "host_wl")
		}
		if f == "reup" {
			force = append(force, "host_three")
		}
	case "smem_dev":
		// chain K0 -> A, K1 -> B, K2 -> A, ...: every kernel scalar-loads (and, as
		// the control, flat-loads) what the previous one stored; 32 one-wavefront
		// groups per kernel, so that kernel i+2 runs on the compute units (shader
		// arrays) kernel i used (round-robin over 64; on the 120 of the mi300a
		// kernel i+4 does); every kernel is drained before the next is launched
		sp := ProgSpec{ID: "probe-" + arch + "-" + f, Arch: arch, Seed: hash64("C02/probe/" + f), Allow: append(allow, "xkernel"), Force: []string{f}, Probe: f,
			Geo: &Launch{Grid: [3]uint32{32 * 16, 1, 1}, WG: [3]uint16{16, 1, 1}}, Chain: 5,
			Script: []string{"sdev 1 0 0", "sdev 4 16 0", "sdev 2 40 1", "sdev 8 64 0", "ldr dword 0 0", "ldr x4 16 1", "wait", "fold 1 0", "fold 4 1"}}
		if arch == "cdna3" {
			sp.Chain = 6
		}
		return sp
	case "wg_mixed":
		// 4 x 9 work-groups of 8x16 with a narrow last column and a low last row:
		// groups of 2 and 1 wavefronts, per-group loop trip count; on the small platform
		// variants many groups share a compute unit and finish out of order
		return ProgSpec{ID: "probe-" + arch + "-" + f, Arch: arch, Seed: hash64("C02/probe/" + f), Allow: append(allow, "dims2", "dims3", "partial_wg", "v5_ids_yz", "smem_x4", "ld_x4", "st_x4"),
			Force: []string{f}, Probe: f, Geo: &Launch{Grid: [3]uint32{8, 40, 12}, WG: [3]uint16{8, 16, 1}},
			Script: []string{"spinwg 40 6", "alu 3"}}
	case "host_enqueue_all":
		allow = append(allow, "multi_kernel", "smem_x4", "ld_x4", "st_x4")
		force = append(force, "multi_kernel")
	case "host_2proc":
		// 64 one-wavefront work-groups per process: the second process runs on
		// compute units the first one has used, and (64 compute units in the
		// emulation / r9nano GPU, round-robin dispatch that continues where the
		// previous launch stopped) work-group j of both processes runs on the
		// same compute unit; on the mi300a (120) the mapping is shifted
		sp := ProgSpec{ID: "probe-" + arch + "-" + f, Arch: arch, Seed: hash64("C02/probe/" + f), Allow: append(allow, "smem_x4", "ld_x4", "st_x4"),
			Force: []string{f, "smem_x4"}, Probe: f, Geo: &Launch{Grid: [3]uint32{64 * 16, 1, 1}, WG: [3]uint16{16, 1, 1}}}
		return sp
	case "lds_rbw":
		// 256 one-wavefront work-groups (more than the 64 compute units of an
		// emulation GPU, so that compute units run several groups one after
		// another), then a second, smaller launch in the same process. Every
		// work-item reads LDS words before anything wrote them in its group and
		// writes non-zero data afterwards; ds_read / read2 / b64 forms; partial
		// writes; kernel 0 declares a bigger LDS than kernel 1.
		return ProgSpec{ID: "probe-" + arch + "-" + f, Arch: arch, Seed: hash64("C02/probe/" + f), Allow: append(allow, "multi_kernel"),
			Force: []string{"lds_rbw", "multi_kernel"}, Probe: f,
			Geo:    &Launch{Grid: [3]uint32{4096, 1, 1}, WG: [3]uint16{16, 1, 1}},
			Geo2:   &Launch{Grid: [3]uint32{1024, 1, 1}, WG: [3]uint16{16, 1, 1}},
			Script: []string{"k0: ldsrbw b32 1 0 1", "ldsrbw b32 2 0 0", "ldsrbw r2b32 5 1 2", "ldsrbw b64 3 0 0", "ldsrbw r2b64 0 2 0", "k1: ldsrbw r2b64 1 3 2", "alu 2"}}
	case "dims2", "dims3":
		if arch == "cdna3" {
			// probed together with the packed ids by v5_ids_yz
			allow = append(allow, "v5_ids_yz")
		}
	}
	sp := ProgSpec{ID: "probe-" + arch + "-" + f, Arch: arch, Seed: hash64("C02/probe/" + f), Allow: allow, Force: force, Probe: f}
	switch f {
	case "xkernel":
		// hand-written chain: eight one-wavefront work-groups per kernel walk
		// over the compute units; after 64 (r9nano) / 120 (mi300a) work-groups
		// a compute unit reads lines it has read before and that other
		// compute units have rewritten since
		sp.Geo = &Launch{Grid: [3]uint32{512, 1, 1}, WG: [3]uint16{64, 1, 1}}
		sp.Chain = 11
		if arch == "cdna3" {
			// 120 compute units: ten work-groups per kernel come back after 12 kernels
			sp.Geo = &Launch{Grid: [3]uint32{640, 1, 1}, WG: [3]uint16{64, 1, 1}}
			sp.Chain = 15
		}
		sp.Script = []string{"ldr dword 0 0", "ldr x4 16 1", "wait", "fold 1 0", "fold 4 1"}
	case "waw":
		sp.Seed, sp.Size = wawSeeds[0], 1
	}
	return sp
}

// wawSeeds: programs (medium size, store heavy) that reproduce the
// same-address store inversion on the mi300a platform at the time of writing;
// the probe tries them in order until one diverges.
var wawSeeds = []uint64{37, 14, 24, 21, 16, 38}

func probeAlts(arch, f string) []ProgSpec {
	if f != "waw" {
		return nil
	}
	var out []ProgSpec
	for i, s := range wawSeeds[1:] {
		sp := probeSpec(arch, f)
		sp.Seed = s
		sp.ID = fmt.Sprintf("%s-alt%d", sp.ID, i+1)
		out = append(out, sp)
	}
	return out
}

// features whose open findings have one root cause in code shared by both
// platform pairs: disabled everywhere as soon as one pair reproduces them
var sharedAcrossPairs = map[string]bool{"waw": true, "xkernel": true}

// canonMix is the fixed program every knob variant is probed with.
func canonMix(arch string, k int) ProgSpec {
	allow := append([]string{}, baseFeatures...)
	allow = append(allow, "ld_x2", "ld_x4", "st_x2", "st_x4", "straddle", "smem_x2", "smem_x4", "smem_x8", "lds", "lds2", "lds64",
		"diamond", "diamond_else", "nested", "loop_uniform", "loop_divergent", "partial_wg", "big_wg", "multi_kernel", "waitcnt_nz",
		"vcc_ops", "sgpr64", "readfirstlane", "vop3_sgpr_pair", "ld_ubyte", "raw_mem", "waw_waitcnt")
	force := []string{"lds", "st_x4", "ld_x4", "partial_wg", "smem_x4"}
	if k == 1 {
		force = append(force, "big_wg", "multi_kernel")
	}
	return ProgSpec{ID: fmt.Sprintf("canon-mix%d-%s", k, arch), Arch: arch, Seed: hash64(fmt.Sprintf("C02/canon-mix/%d", k)), Allow: allow, Force: force, Size: 1}
}

// canonMotif is the fixed program that carries every dependent-load motif
// (motif.go) onto every knob variant.
func canonMotif(arch string) ProgSpec {
	allow := append([]string{}, baseFeatures...)
	allow = append(allow, "ld_x2", "st_x2", "smem_x2", "diamond", "loop_uniform")
	allow = append(allow, motifsOf(arch)...)
	return ProgSpec{ID: "canon-motif-" + arch, Arch: arch, Seed: hash64("C02/canon-motif"), Allow: allow, Force: motifsOf(arch),
		Geo: &Launch{Grid: [3]uint32{320, 1, 1}, WG: [3]uint16{64, 1, 1}}}
}

func (o *orch) run() {
	c := o.c
	only := os.Getenv("C02_ONLY") // debugging aid: substring filter on job ids
	// ---- phase A: canonical battery (seed independent) + shipped kernels
	var jobsA []*job
	for _, p := range pairs() {
		fs := append(featureList(p.Arch), probeOnly...)
		for _, f := range fs {
			if p.Arch != "cdna3" && (f == "saddr_s0") {
				continue
			}
			if f == "alu" || f == "ld_dword" || f == "st_dword" {
				continue // base features: part of every probe
			}
			sp := probeSpec(p.Arch, f)
			ts := []PlatSpec{p.Timing}
			if f == "slot_recycle_small" || f == "oversub" || f == "smem_dev" || f == "wg_mixed" {
				ts = smallVariants(p)
				if f == "oversub" || f == "smem_dev" {
					ts = append([]PlatSpec{p.Timing}, ts...)
				}
				if f == "wg_mixed" && len(ts) > 2 {
					ts = ts[:2] // one and four compute units: the groups have to share them
				}
			}
			jobsA = append(jobsA, &job{id: sp.ID, pair: p, prog: &sp, timing: ts, scope: "probe:" + f, alts: probeAlts(p.Arch, f)})
		}
		for k := 0; k < c.N(1, 2); k++ {
			sp := canonMix(p.Arch, k)
			ts := []PlatSpec{p.Timing}
			ts = append(ts, variants(p)...)
			jobsA = append(jobsA, &job{id: sp.ID, pair: p, prog: &sp, timing: ts, scope: "variant"})
		}
		{
			sp := canonMotif(p.Arch)
			ts := []PlatSpec{p.Timing}
			for _, v := range variants(p) {
				if !v.Magic { // the copy path (open finding) is canon-mix's business
					ts = append(ts, v)
				}
			}
			jobsA = append(jobsA, &job{id: sp.ID, pair: p, prog: &sp, timing: ts, scope: "variant"})
		}
	}
	for _, w := range shippedTable() {
		sets := w.Quick
		if c.Thorough() {
			sets = append(append([][]int{}, w.Quick...), w.More...)
		}
		for _, params := range sets {
			for _, p := range pairs() {
				has := false
				for _, a := range w.Archs {
					has = has || a == p.Arch
				}
				if !has {
					continue
				}
				sh := ShippedSpec{Name: w.Name, Arch: p.Arch, Params: params}
				jobsA = append(jobsA, &job{id: fmt.Sprintf("shipped-%s-%s-%v", w.Name, p.Arch, params), pair: p, shipped: &sh,
					timing: []PlatSpec{p.Timing}, scope: "shipped"})
			}
		}
	}
	jobsA = filterJobs(jobsA, only)
	o.runJobs(jobsA)

	// ---- phase B: seeded programs over the features still enabled
	var jobsB []*job
	n := c.N(20, 300)
	base := c.Rand("programs")
	for _, p := range pairs() {
		pk := p.Arch + "/" + p.GPU
		var allow []string
		var off []string
		for _, f := range featureList(p.Arch) {
			_, dis := o.disabled[pk][f]
			if sharedAcrossPairs[f] {
				for _, m := range o.disabled {
					if _, d := m[f]; d {
						dis = true
					}
				}
			}
			if dis {
				off = append(off, f)
				continue
			}
			allow = append(allow, f)
		}
		sort.Strings(off)
		c.Set("features_disabled_by_open_findings/"+pk, off)
		var vs []PlatSpec
		var voff []string
		for _, v := range variants(p) {
			if _, dis := o.varOff[pk][v.Name]; dis {
				voff = append(voff, v.Name)
				continue
			}
			vs = append(vs, v)
		}
		c.Set("variants_disabled_by_open_findings/"+pk, voff)
		for i := 0; i < n; i++ {
			r := base.ForkN(p.Arch, i)
			sp := ProgSpec{ID: fmt.Sprintf("seeded-%s-%d", p.Arch, i), Arch: p.Arch, Seed: r.Uint64(), Allow: allow, Size: []int{0, 0, 1, 0, 1, 2}[i%6]}
			ts := []PlatSpec{p.Timing}
			if len(vs) > 0 {
				if c.Thorough() {
					// every program on two variants, rotating
					ts = append(ts, vs[i%len(vs)], vs[(i+3)%len(vs)])
				} else {
					ts = append(ts, vs[i%len(vs)])
				}
			}
			if pg, err := BuildProgram(sp); err == nil && (pg.hasFeature("oversub") || pg.hasFeature("wg_mixed")) {
				for _, v := range smallVariants(p) {
					dup := false
					for _, t := range ts {
						dup = dup || t.Name == v.Name
					}
					if _, off := o.varOff[pk][v.Name]; !dup && !off {
						ts = append(ts, v)
					}
				}
			}
			jobsB = append(jobsB, &job{id: sp.ID, pair: p, prog: &sp, timing: ts, scope: "seeded"})
		}
	}
	jobsB = filterJobs(jobsB, only)
	o.runJobs(jobsB)
}

func filterJobs(js []*job, only string) []*job {
	if only == "" {
		return js
	}
	var out []*job
	for _, j := range js {
		for _, pat := range strings.Split(only, ",") {
			if strings.Contains(j.id, pat) {
				out = append(out, j)
				break
			}
		}
	}
	return out
}

// ---------------------------------------------------------------------------
// running children

type runOut struct {
	res     *Result
	crash   string // non-empty: the child died without a result
	timeout bool
	tail    string
	dur     time.Duration
	// crash in a full-trace run: instructions that were issued and never
	// completed, and those among them whose opcode completed nowhere
	inflight []string
	suspects []string
	flags    []string // white-box observations of the child (flags.txt), also after a crash
}

func (o *orch) runCase(cs Case) runOut {
	b, _ := json.Marshal(cs)
	r := vlib.RunChild(o.scratch, 12*time.Minute, []string{"GOMAXPROCS=2"}, "child", string(b))
	defer os.RemoveAll(r.Dir)
	out := runOut{dur: r.Dur}
	if fb, err := os.ReadFile(filepath.Join(r.Dir, "flags.txt")); err == nil {
		for _, l := range strings.Split(strings.TrimSpace(string(fb)), "\n") {
			if l != "" {
				out.flags = append(out.flags, l)
			}
		}
	}
	data, err := os.ReadFile(filepath.Join(r.Dir, "result.json"))
	if err == nil {
		var res Result
		if e := json.Unmarshal(data, &res); e == nil {
			out.res = &res
			return out
		}
	}
	out.tail = vlib.Tail(r.OutPath, 6000)
	if cs.Full {
		out.inflight, out.suspects = readJournal(filepath.Join(r.Dir, "journal.txt"))
	}
	if r.TimedOut {
		out.timeout = true
		return out
	}
	out.crash = crashClass(out.tail)
	return out
}

func crashClass(tail string) string {
	lines := strings.Split(tail, "\n")
	// the first panic line of the dump
	for _, l := range lines {
		t := strings.TrimSpace(l)
		if strings.HasPrefix(t, "panic:") || strings.HasPrefix(t, "fatal error:") || strings.Contains(t, "Panic:") {
			return normCrash(t)
		}
	}
	for i := len(lines) - 1; i >= 0; i-- {
		if t := strings.TrimSpace(lines[i]); t != "" {
			return normCrash(t)
		}
	}
	return "no output"
}

func normCrash(s string) string {
	if i := strings.Index(s, "runtime error:"); i >= 0 {
		s = "Panic: " + s[i:]
		// indices / capacities vary with the data: keep the shape only
		var b strings.Builder
		inNum := false
		for _, ch := range s {
			if ch >= '0' && ch <= '9' {
				if !inNum {
					b.WriteByte('N')
				}
				inNum = true
				continue
			}
			inNum = false
			b.WriteRune(ch)
		}
		s = b.String()
	}
	// drop addresses / ids / timestamps so that the class is stable
	var b strings.Builder
	prevHex := false
	for _, f := range strings.Fields(s) {
		if strings.HasPrefix(f, "0x") || strings.HasPrefix(f, "[0x") {
			if !prevHex {
				b.WriteString("<addr> ")
			}
			prevHex = true
			continue
		}
		prevHex = false
		if len(f) >= 8 && strings.Count(f, "/") == 2 && f[4] == '/' { // log date
			continue
		}
		if len(f) == 8 && f[2] == ':' && f[5] == ':' { // log time
			continue
		}
		b.WriteString(f + " ")
	}
	out := strings.TrimSpace(b.String())
	if len(out) > 140 {
		out = out[:140]
	}
	return out
}

func (o *orch) runJobs(jobs []*job) {
	workers := 14
	vlib.Parallel(len(jobs), workers, func(i int) {
		t0 := time.Now()
		o.runJob(jobs[i])
		if os.Getenv("C02_TIMES") != "" {
			extra := ""
			if jobs[i].prog != nil {
				if pg, err := BuildProgram(*jobs[i].prog); err == nil {
					extra = fmt.Sprintf("  kernels=%d %v", len(pg.Kernels), pg.features())
				}
			}
			fmt.Printf("[C02] time %-40s %6.1fs%s\n", jobs[i].id, time.Since(t0).Seconds(), extra)
		}
	})
}

func listMain() {
	for _, p := range pairs() {
		for _, f := range append(featureList(p.Arch), probeOnly...) {
			sp := probeSpec(p.Arch, f)
			prog, err := BuildProgram(sp)
			if err != nil {
				fmt.Println(sp.ID, "ERROR", err)
				continue
			}
			for _, k := range prog.Kernels {
				fmt.Printf("%s: launch=%v insts=%d mem=%d feat=%v code=%016x tab=%d\n", sp.ID, k.L, k.NInst, k.NMem, k.Feat, hash64(string(k.CO.Data)), prog.TabSize)
			}
		}
		for k := 0; k < 3; k++ {
			sp := canonMix(p.Arch, k)
			if k == 2 {
				sp = canonMotif(p.Arch)
			}
			prog, err := BuildProgram(sp)
			if err != nil {
				fmt.Println(sp.ID, "ERROR", err)
				continue
			}
			for _, k := range prog.Kernels {
				fmt.Printf("%s: launch=%v insts=%d mem=%d feat=%v code=%016x tab=%d\n", sp.ID, k.L, k.NInst, k.NMem, k.Feat, hash64(string(k.CO.Data)), prog.TabSize)
			}
		}
	}
}

// gencheckMain builds n programs per architecture from all features (no
// simulation) and reports generator errors and how often each motif occurs
// (debugging aid: w_c02 gencheck <n>).
func gencheckMain(arg string) {
	n := 0
	fmt.Sscanf(arg, "%d", &n)
	for _, p := range pairs() {
		bad, withMotif, pairsN := 0, 0, 0
		count := map[string]int{}
		for i := 0; i < n; i++ {
			sp := ProgSpec{ID: fmt.Sprintf("gencheck-%s-%d", p.Arch, i), Arch: p.Arch, Seed: hash64(fmt.Sprintf("gencheck/%d", i)), Allow: featureList(p.Arch), Size: []int{0, 0, 1, 0, 1, 2}[i%6]}
			pg, err := BuildProgram(sp)
			if err != nil {
				bad++
				fmt.Println(sp.ID, "seed", sp.Seed, "ERROR", err)
				continue
			}
			if len(pg.Motifs) > 0 {
				withMotif++
			}
			for m := range pg.Motifs {
				count[m]++
			}
			if len(pg.Kernels) == 2 && pg.Kernels[1].L != pg.Kernels[0].L {
				pairsN++
			}
		}
		fmt.Printf("%s: %d programs, %d generator errors, %d with a motif, %d launch pairs with a smaller second launch; programs per motif: %v\n", p.Arch, n, bad, withMotif, pairsN, count)
	}
}

// specMain prints a replay file for a canonical program id (debugging aid):
// w_c02 spec <probe-<arch>-<feature> | canon-mix<k>-<arch> | shipped-<name>-<arch>-<p1,p2>> [variant]
func specMain(args []string) {
	id := args[0]
	var rc replayCase
	for _, p := range pairs() {
		if !strings.Contains(id, "-"+p.Arch) {
			continue
		}
		rc.Arch, rc.GPU, rc.Emu, rc.Timing = p.Arch, p.GPU, p.Emu, p.Timing
		if len(args) > 1 {
			for _, v := range variants(p) {
				if strings.HasSuffix(v.Name, "/"+args[1]) {
					rc.Timing = v
				}
			}
		}
		switch {
		case strings.HasPrefix(id, "probe-"):
			f := strings.TrimPrefix(id, "probe-"+p.Arch+"-")
			sp := probeSpec(p.Arch, f)
			rc.Prog, rc.Scope = &sp, "probe:"+f
		case strings.HasPrefix(id, "canon-motif"):
			sp := canonMotif(p.Arch)
			rc.Prog, rc.Scope = &sp, "variant"
		case strings.HasPrefix(id, "canon-mix"):
			k := int(id[len("canon-mix")] - '0')
			sp := canonMix(p.Arch, k)
			rc.Prog, rc.Scope = &sp, "variant"
		case strings.HasPrefix(id, "shipped-"):
			parts := strings.Split(id, "-")
			var params []int
			for _, x := range strings.Split(parts[3], ",") {
				var v int
				fmt.Sscanf(x, "%d", &v)
				params = append(params, v)
			}
			rc.Shipped, rc.Scope = &ShippedSpec{Name: parts[1], Arch: p.Arch, Params: params}, "shipped"
		}
	}
	b, _ := json.MarshalIndent(map[string]any{"witness": map[string]any{"replay": rc}}, "", " ")
	fmt.Println(string(b))
}

// disasmMain prints the kernels of the program in a replay file, decoded by
// the simulator's own disassembler (debugging aid).
func disasmMain(path string) {
	rc := loadReplay(path)
	prog, err := BuildProgram(*rc.Prog)
	if err != nil {
		fmt.Println(err)
		return
	}
	for i, k := range prog.Kernels {
		fmt.Printf("== kernel %d launch %v ostr %d istr %d ishift %d infrom %d\n", i, k.L, k.OStr, k.IStr, k.IShift, k.InFrom)
		d := insts.NewDisassembler()
		d.IsCDNA3 = rc.Arch == "cdna3"
		buf := k.CO.Data
		pc := 0
		n := 0
		for len(buf) > 0 && n < k.NInst {
			in, err := d.Decode(buf)
			if err != nil {
				fmt.Printf("%5x: decode error %v\n", pc, err)
				break
			}
			extra := ""
			if in.FormatType == insts.FLAT {
				extra = fmt.Sprintf("  ; offset %d saddr %v", int32(in.Offset0), in.SAddr.IntValue)
			}
			if in.FormatType == insts.DS {
				extra = fmt.Sprintf("  ; offset0 %d offset1 %d", in.Offset0, in.Offset1)
			}
			if in.FormatType == insts.SMEM && in.Offset != nil {
				extra = "  ; offset " + in.Offset.String()
			}
			fmt.Printf("%4d %5x: %s%s\n", n, pc, insts.NewInstPrinter(nil).Print(in), extra)
			buf = buf[in.ByteSize:]
			pc += in.ByteSize
			n++
		}
	}
}

// readJournal parses the crash-safe instruction journal of a full-trace
// timing run.
func readJournal(path string) (inflight, suspects []string) {
	b, err := os.ReadFile(path)
	if err != nil {
		return nil, nil
	}
	type st struct{ desc, op string }
	open := map[string]st{}
	completedOps := map[string]bool{}
	var order []string
	for _, l := range strings.Split(string(b), "\n") {
		f := strings.Fields(l)
		if len(f) >= 6 && f[0] == "S" {
			id := f[1] + "#" + f[2]
			open[id] = st{desc: fmt.Sprintf("%s|%s|%s", f[3], f[4], f[5]), op: f[3] + "/" + f[4]}
			order = append(order, id)
		} else if len(f) >= 3 && f[0] == "D" {
			id := f[1] + "#" + f[2]
			if s, ok := open[id]; ok {
				completedOps[s.op] = true
				delete(open, id)
			}
		}
	}
	seenI, seenS := map[string]bool{}, map[string]bool{}
	for _, id := range order {
		s, ok := open[id]
		if !ok {
			continue
		}
		if !seenI[s.desc] {
			seenI[s.desc] = true
			inflight = append(inflight, s.desc)
		}
		if !completedOps[s.op] && !seenS[s.desc] {
			seenS[s.desc] = true
			suspects = append(suspects, s.desc)
		}
	}
	sort.Strings(inflight)
	sort.Strings(suspects)
	return
}

// vgprOverflowRisk reports whether the program can put more VGPRs on one SIMD
// lane of the mi300a than the 256 its register file keeps per lane (open
// finding vgpr-window-overflow): such (program, platform) runs are skipped in
// the seeded part while the finding is open.
func vgprOverflowRisk(sp ProgSpec, ps PlatSpec) bool {
	if ps.GPUType != "mi300a" {
		return false
	}
	prog, err := BuildProgram(sp)
	if err != nil {
		return false
	}
	cus := 120
	if ps.Knobs != nil {
		a, b := 6, 20
		if ps.Knobs.CUPerSA > 0 {
			a = ps.Knobs.CUPerSA
		}
		if ps.Knobs.NumSA > 0 {
			b = ps.Knobs.NumSA
		}
		cus = a * b
	}
	for _, k := range prog.Kernels {
		n := k.L.numWG()
		wgs := n[0] * n[1] * n[2]
		perCU := (wgs + cus - 1) / cus * ((k.L.wgSize() + 63) / 64)
		perSIMD := (perCU + 3) / 4
		if perSIMD*k.DeclVGPR > 256 {
			return true
		}
	}
	return false
}
