// swap.go: the "Comp.Storage is reassigned after Build" layer of the C17
// monitor. Comp.Storage is an exported field; pointing it at another storage
// (a fresh one, a pre-populated one, a sibling component's) on an already
// built component is legal at a quiescent point (engine idle, no request in
// flight): before the first request or between requests. From then on the
// component must be a memory over the storage the field points to: reads
// return that storage's bytes (pre-populated bytes included), writes land in
// it and nowhere else.
//
// A scenario is a list of phases; every phase first performs its
// reassignments and then runs one interleaved request stream to quiescence.
// The flat model is kept per storage object; a component is judged against
// the model of the storage its field points to in that phase. Components that
// point to the same storage in a phase touch disjoint lines in that phase (no
// order ambiguity); what a sibling wrote is read in a later phase.
package main

import (
	"fmt"
	"strconv"

	"github.com/sarchlab/akita/v4/mem/mem"
	"github.com/sarchlab/akita/v4/sim"
	"github.com/sarchlab/mgpusim/v4/amd/timing/mem/simplebankedmemory"

	"verifharness/vlib"
	"verifharness/vlib/simkit"
)

type swapAct struct {
	Inst int    `json:"inst"`
	Kind string `json:"kind"` // fresh | prepop | sibling
	From int    `json:"from"` // sibling: the instance whose current storage is taken
	Seed uint64 `json:"seed"` // prepop: content seed
}

type swapPhase struct {
	Swaps []swapAct `json:"swaps"`
	Ops   []mop     `json:"ops"`
}

type swapScenario struct {
	Name       string      `json:"name"`
	Cfgs       []config    `json:"cfgs"`
	OneBuilder bool        `json:"one_builder"` // all instances from one builder value (Cfgs[0])
	Phases     []swapPhase `json:"phases"`
}

const swapPoolLines = 24 // internal lines 0..23 are the ones pre-populated storages carry

func builderFor(c config, engine sim.Engine, freq sim.Freq) simplebankedmemory.Builder {
	b := simplebankedmemory.MakeBuilder().
		WithEngine(engine).WithFreq(freq).
		WithNumBanks(c.Banks).WithLog2InterleaveSize(c.Log2Inter).
		WithBankPipelineWidth(c.Width).WithBankPipelineDepth(c.Depth).WithStageLatency(c.StageLat).
		WithTopPortBufferSize(c.TopBuf).WithPostPipelineBufferSize(c.PostBuf)
	if c.RowLog2 > 0 {
		b = b.WithRowBufferSizeLog2(c.RowLog2).WithRowMissDelay(c.RowMissDelay)
	}
	if c.BankConv {
		b = b.WithBankAddressConverter(c.converter())
	}
	if c.AddrConv {
		b = b.WithAddressConverter(c.converter())
	}
	return b
}

func prepopBytes(seed uint64, line uint64) []byte {
	r := vlib.NewPRNG(seed ^ line*0x9e3779b97f4a7c15)
	d := make([]byte, 64)
	r.Bytes(d)
	for i := range d {
		if d[i] == 0 {
			d[i] = byte(1 + i)
		}
	}
	return d
}

// sstore: a storage object with its flat model.
type sstore struct {
	st    *mem.Storage
	model map[uint64]byte
	pre   map[uint64]bool // byte still holds its pre-populated value
	label string
}

func runSwap(rec vlib.Recorder, sc swapScenario) {
	rec.Eval()
	cnt := map[string]int64{}
	defer func() {
		for k, v := range cnt {
			rec.Count(k, v)
		}
	}()
	wit := func(extra map[string]any) map[string]any {
		m := map[string]any{"swap": sc}
		for k, v := range extra {
			m[k] = v
		}
		return m
	}
	n := len(sc.Cfgs)
	engine := sim.NewSerialEngine()
	freq := 1 * sim.GHz
	comps := make([]*simplebankedmemory.Comp, n)
	var b0 simplebankedmemory.Builder
	for i := range comps {
		name := fmt.Sprintf("DRAM.Ch[%d]", i)
		if sc.OneBuilder {
			if i == 0 {
				b0 = builderFor(sc.Cfgs[0], engine, freq).WithNewStorage(1 << 30)
			}
			comps[i] = b0.Build(name)
		} else {
			comps[i] = builderFor(sc.Cfgs[i], engine, freq).WithNewStorage(1 << 30).Build(name)
		}
	}
	cfg := func(i int) config {
		if sc.OneBuilder {
			return sc.Cfgs[0]
		}
		return sc.Cfgs[i]
	}
	log := simkit.NewLog(engine, freq)
	reqs := make([]*simkit.Requester, n)
	for i := range comps {
		top := comps[i].GetPortByName("Top")
		c := cfg(i)
		reqs[i] = simkit.NewRequester("Req"+strconv.Itoa(i), engine, freq, c.ReqInBuf, 4)
		if c.StallPct > 0 {
			stall := vlib.NewPRNG(uint64(i)*7919 + uint64(c.StallPct))
			pct := c.StallPct
			reqs[i].StallFn = func(int64) bool { return stall.Intn(100) < pct }
		}
		simkit.Connect(engine, freq, "Conn"+strconv.Itoa(i), reqs[i].Out, top)
		log.Attach(top, strconv.Itoa(i))
	}

	var stores []*sstore
	ptr := make([]int, n)    // instance -> index into stores
	hist := make([][]int, n) // storages the instance pointed to before
	for i := range comps {
		stores = append(stores, &sstore{st: comps[i].Storage, model: map[uint64]byte{}, pre: map[uint64]bool{}, label: fmt.Sprintf("built-with[%d]", i)})
		ptr[i] = i
	}
	if n > 1 && comps[0].Storage == comps[1].Storage {
		// seed4-type break: the multi-instance layer reports it; this layer needs distinct stores
		return
	}
	swapped := make([]bool, n)
	idToOp := map[string][2]int{} // id -> (phase, op index)
	logPos := 0
	gotPos := make([]int, n)
	cnt["sf_scenarios"]++
	cnt["sf_instances"] += int64(n)

	for pi, ph := range sc.Phases {
		// ---- reassign Comp.Storage (engine idle, nothing in flight) ----
		for _, a := range ph.Swaps {
			var ns int
			switch a.Kind {
			case "fresh":
				stores = append(stores, &sstore{st: mem.NewStorage(1 << 30), model: map[uint64]byte{}, pre: map[uint64]bool{}, label: "fresh"})
				ns = len(stores) - 1
			case "prepop":
				s := &sstore{st: mem.NewStorage(1 << 30), model: map[uint64]byte{}, pre: map[uint64]bool{}, label: "pre-populated"}
				for l := uint64(0); l < swapPoolLines; l++ {
					d := prepopBytes(a.Seed, l)
					_ = s.st.Write(l*64, d)
					for j, v := range d {
						s.model[l*64+uint64(j)] = v
						s.pre[l*64+uint64(j)] = true
					}
				}
				stores = append(stores, s)
				ns = len(stores) - 1
			case "sibling":
				ns = ptr[a.From]
			default:
				panic("swap kind " + a.Kind)
			}
			if ns != ptr[a.Inst] {
				hist[a.Inst] = append(hist[a.Inst], ptr[a.Inst])
			}
			ptr[a.Inst] = ns
			comps[a.Inst].Storage = stores[ns].st
			swapped[a.Inst] = true
			cnt["sf_swaps"]++
			cnt["sf_swaps_"+a.Kind]++
			if pi == 0 {
				cnt["sf_swaps_before_first_request"]++
			} else {
				cnt["sf_swaps_between_requests"]++
			}
		}
		// ---- run the phase to quiescence ----
		now := simkit.Cycle(engine.CurrentTime(), freq)
		cycle := now + 2
		sent := 0
		for oi, o := range ph.Ops {
			cycle += int64(o.Gap)
			rq := reqs[o.Inst]
			top := comps[o.Inst].GetPortByName("Top")
			var m sim.Msg
			if o.Write {
				wb := mem.WriteReqBuilder{}.WithSrc(rq.Out.AsRemote()).WithDst(top.AsRemote()).
					WithAddress(o.Addr).WithData(append([]byte(nil), o.Data...))
				if o.Mask != nil {
					wb = wb.WithDirtyMask(append([]bool(nil), o.Mask...))
				}
				m = wb.Build()
			} else {
				m = mem.ReadReqBuilder{}.WithSrc(rq.Out.AsRemote()).WithDst(top.AsRemote()).
					WithAddress(o.Addr).WithByteSize(uint64(o.Size)).Build()
			}
			idToOp[m.Meta().ID] = [2]int{pi, oi}
			rq.Plan = append(rq.Plan, simkit.Planned{NotBefore: cycle, Msg: m})
			sent++
		}
		for _, rq := range reqs {
			rq.TickLater()
		}
		nEv, livelock, pv := simkit.RunBounded(engine, int64(len(ph.Ops))*8000+200000)
		cnt["engine_events"] += nEv
		if pv != nil {
			rec.Violation("C17|crash|storage-field", fmt.Sprintf("%s phase %d: memory model panicked on a valid request stream: %v", sc.Name, pi, pv), wit(map[string]any{"phase": pi}))
			return
		}
		if livelock {
			rec.Violation("C17|no-termination|storage-field", fmt.Sprintf("%s phase %d: engine exceeded the event bound", sc.Name, pi), wit(map[string]any{"phase": pi}))
			return
		}
		evs := log.Snapshot()
		arr := make([][]mem.AccessReq, n)
		rsps := map[string][]sim.Msg{}
		nArr := 0
		for _, e := range evs[logPos:] {
			i, _ := strconv.Atoi(e.Port)
			switch e.Kind {
			case simkit.KRecv:
				if ar, ok := e.Msg.(mem.AccessReq); ok {
					arr[i] = append(arr[i], ar)
					nArr++
				}
			case simkit.KSend:
				if r, ok := e.Msg.(sim.Rsp); ok {
					rsps[r.GetRspTo()] = append(rsps[r.GetRspTo()], e.Msg)
				}
			}
		}
		logPos = len(evs)
		got := map[string]int{}
		for i, rq := range reqs {
			for _, g := range rq.Got[gotPos[i]:] {
				if r, ok := g.Msg.(sim.Rsp); ok {
					got[r.GetRspTo()]++
				}
			}
			gotPos[i] = len(rq.Got)
		}
		if nArr != sent {
			rec.Violation("C17|request-not-accepted|storage-field", fmt.Sprintf("%s phase %d: engine went idle with %d of %d requests delivered", sc.Name, pi, nArr, sent), wit(map[string]any{"phase": pi}))
			return
		}
		cnt["requests_arrived"] += int64(nArr)
		// ---- replay, instance by instance (instances sharing a storage touch disjoint lines in a phase) ----
		for i := 0; i < n; i++ {
			c := cfg(i)
			s := stores[ptr[i]]
			for _, a := range arr[i] {
				id := a.Meta().ID
				oi := idToOp[id][1]
				if len(rsps[id]) != 1 || got[id] != 1 {
					rec.Violation(fmt.Sprintf("C17|responses-sent=%d-delivered=%d|storage-field", len(rsps[id]), got[id]),
						fmt.Sprintf("%s phase %d op %d: %d responses at the Top port, %d delivered", sc.Name, pi, oi, len(rsps[id]), got[id]), wit(map[string]any{"phase": pi, "op": oi}))
					return
				}
				sa := c.storageAddr(a.GetAddress())
				switch r := a.(type) {
				case *mem.WriteReq:
					cnt["writes"]++
					if r.DirtyMask != nil {
						cnt["masked_writes"]++
					}
					if swapped[i] {
						cnt["sf_writes_after_reassignment"]++
					}
					for j := range r.Data {
						if r.DirtyMask == nil || r.DirtyMask[j] {
							s.model[sa+uint64(j)] = r.Data[j]
							delete(s.pre, sa+uint64(j))
						}
					}
				case *mem.ReadReq:
					cnt["reads"]++
					rsp, ok := rsps[id][0].(*mem.DataReadyRsp)
					if !ok || uint64(len(rsp.Data)) != r.AccessByteSize {
						rec.Violation("C17|wrong-response|storage-field", fmt.Sprintf("%s phase %d op %d: read answered by %T", sc.Name, pi, oi, rsps[id][0]), wit(map[string]any{"phase": pi, "op": oi}))
						return
					}
					for j := uint64(0); j < r.AccessByteSize; j++ {
						ad := sa + j
						want := s.model[ad]
						if swapped[i] {
							cnt["sf_read_bytes_after_reassignment"]++
							if s.pre[ad] {
								cnt["sf_prepopulated_read_bytes"]++
							}
							for _, h := range hist[i] {
								if stores[h].model[ad] != want {
									cnt["sf_discriminating_read_bytes"]++
									break
								}
							}
						}
						if rsp.Data[j] == want {
							continue
						}
						key := "C17|stale-or-wrong-read|storage-field"
						what := fmt.Sprintf("%s phase %d op %d on instance %d: read of 0x%x byte %d returned 0x%02x; the storage Comp.Storage points to (%s) holds 0x%02x by the flat model",
							sc.Name, pi, oi, i, a.GetAddress(), j, rsp.Data[j], s.label, want)
						if d, err := s.st.Read(ad, 1); err == nil && d[0] == rsp.Data[j] && swapped[i] {
							// the read faithfully returned what the attached storage holds: an earlier write did not land there
							key = "C17|storage-field|write-ignores-reassigned-storage"
							what += " (that is what the attached storage really contains: an earlier write through the Top port did not land in the storage the field points to)"
							rec.Violation(key, what, wit(map[string]any{"phase": pi, "op": oi, "byte": j, "instance": i}))
							return
						}
						for _, h := range hist[i] {
							if stores[h].model[ad] == rsp.Data[j] {
								key = "C17|storage-field|read-ignores-reassigned-storage"
								what += fmt.Sprintf(" (0x%02x is what the storage the field pointed to earlier (%s) holds there)", rsp.Data[j], stores[h].label)
								break
							}
						}
						rec.Violation(key, what, wit(map[string]any{"phase": pi, "op": oi, "byte": j, "instance": i}))
						return
					}
				}
			}
		}
		// ---- every storage object, attached or detached, equals its model ----
		addrs := map[uint64]bool{}
		for _, s := range stores {
			for ad := range s.model {
				addrs[ad] = true
			}
		}
		for si, s := range stores {
			for ad := range addrs {
				d, err := s.st.Read(ad, 1)
				if err == nil && d[0] == s.model[ad] {
					cnt["final_bytes_compared"]++
					continue
				}
				key := "C17|final-storage|storage-field"
				gotb := byte(0)
				if err == nil {
					gotb = d[0]
				}
				what := fmt.Sprintf("%s after phase %d: storage %d (%s) byte 0x%x = 0x%02x (err %v), flat model 0x%02x", sc.Name, pi, si, s.label, ad, gotb, err, s.model[ad])
				for i := 0; i < n; i++ {
					if !swapped[i] {
						continue
					}
					rel := ptr[i] == si
					for _, h := range hist[i] {
						rel = rel || h == si
					}
					if rel {
						key = "C17|storage-field|write-ignores-reassigned-storage"
						what += fmt.Sprintf(" (instance %d's Comp.Storage was reassigned; a write did not land in the storage the field pointed to when it arrived)", i)
						break
					}
				}
				rec.Violation(key, what, wit(map[string]any{"phase": pi, "storage": si, "storage_addr": ad}))
				return
			}
		}
	}
	rec.Distinct("sf_config", fmt.Sprintf("%+v", sc.Cfgs))
	if cnt["sf_discriminating_read_bytes"] > 0 {
		rec.Nontrivial("sf:" + sc.Name)
		cnt["sf_nontrivial_scenarios"]++
	}
	rec.Sample(map[string]any{"name": sc.Name, "instances": n, "phases": len(sc.Phases)})
}

// ---------------------------------------------------------------------------

func genSwap(r *vlib.PRNG, idx int) swapScenario {
	n := 1 + r.Intn(3)
	sc := swapScenario{Name: fmt.Sprintf("f%d", idx), OneBuilder: n > 1 && r.Bool()}
	for i := 0; i < n; i++ {
		c := genConfig(r, r.Chance(1, 5))
		if c.BankConv { // storage address = component-local address for every instance
			c.BankConv, c.AddrConv = false, true
		}
		sc.Cfgs = append(sc.Cfgs, c)
	}
	cfg := func(i int) config {
		if sc.OneBuilder {
			return sc.Cfgs[0]
		}
		return sc.Cfgs[i]
	}
	ptr := make([]int, n) // storage identity as the generator sees it
	for i := range ptr {
		ptr[i] = i
	}
	next := n
	nPh := 2 + r.Intn(4)
	for pi := 0; pi < nPh; pi++ {
		var ph swapPhase
		for i := 0; i < n; i++ {
			p := 55
			if pi == 0 {
				p = 35
			}
			if r.Intn(100) >= p {
				continue
			}
			a := swapAct{Inst: i}
			switch k := r.Intn(10); {
			case k < 3:
				a.Kind = "fresh"
				ptr[i], next = next, next+1
			case k < 7 || n == 1:
				a.Kind, a.Seed = "prepop", r.Uint64()
				ptr[i], next = next, next+1
			default:
				a.Kind, a.From = "sibling", (i+1+r.Intn(n-1))%n
				ptr[i] = ptr[a.From]
			}
			ph.Swaps = append(ph.Swaps, a)
		}
		sharing := func(i int) bool {
			for j := range ptr {
				if j != i && ptr[j] == ptr[i] {
					return true
				}
			}
			return false
		}
		nOps := 10 + r.Intn(25*n)
		for k := 0; k < nOps; k++ {
			i := r.Intn(n)
			c := cfg(i)
			var line uint64
			if r.Chance(4, 5) {
				line = uint64(r.Intn(swapPoolLines))
			} else {
				line = uint64(r.Intn(4096))
			}
			if sharing(i) { // disjoint lines for the sharers of one storage in this phase, rotating over the phases
				line = line/uint64(n)*uint64(n) + uint64((i+pi)%n)
			}
			var o mop
			o.Inst = i
			o.Gap = []int{0, 1, r.Intn(4), r.Intn(c.RowMissDelay + 6)}[r.Intn(4)]
			internal, size := lineAlignedAccess(r, line)
			o.Addr, o.Size = c.external(internal), size
			o.Write = r.Chance(9, 20)
			if o.Write {
				fillData(r, &o.op, k)
				if r.Chance(2, 5) {
					o.Mask = make([]bool, o.Size)
					for j := range o.Mask {
						o.Mask[j] = r.Bool()
					}
				}
			}
			ph.Ops = append(ph.Ops, o)
		}
		sc.Phases = append(sc.Phases, ph)
	}
	return sc
}

func canonicalSwap() []swapScenario {
	mi300a := config{Banks: 16, Log2Inter: 6, Width: 1, Depth: 5, StageLat: 1, TopBuf: 1024, PostBuf: 128, RowLog2: 11, RowMissDelay: 52, ReqInBuf: 8}
	w := func(inst, gap int, addr uint64, b byte, n int) mop {
		d := make([]byte, n)
		for i := range d {
			d[i] = b + byte(i)*3 | 1
		}
		return mop{Inst: inst, op: op{Gap: gap, Write: true, Addr: addr, Size: n, Data: d}}
	}
	wm := func(inst, gap int, addr uint64, b byte, n int) mop {
		o := w(inst, gap, addr, b, n)
		o.Mask = make([]bool, n)
		for i := range o.Mask {
			o.Mask[i] = i%2 == 0
		}
		return o
	}
	rd := func(inst, gap int, addr uint64, n int) mop {
		return mop{Inst: inst, op: op{Gap: gap, Addr: addr, Size: n}}
	}
	return []swapScenario{
		{Name: "canon-sf-prepopulated-storage-attached-before-first-request", Cfgs: []config{mi300a}, Phases: []swapPhase{
			{Swaps: []swapAct{{Inst: 0, Kind: "prepop", Seed: 17}},
				Ops: []mop{rd(0, 0, 0x40, 64), wm(0, 1, 0x40, 0x21, 32), rd(0, 0, 0x40, 64), w(0, 0, 0x1000, 0x55, 64), rd(0, 1, 0x1000, 64), rd(0, 0, 0x5c0, 64)}},
			{Ops: []mop{rd(0, 0, 0x40, 64), rd(0, 0, 0x80, 16), w(0, 0, 0x80, 0x33, 16), rd(0, 0, 0x80, 64)}}}},
		{Name: "canon-sf-reassigned-between-requests-fresh-then-sibling", Cfgs: []config{mi300a, mi300a}, OneBuilder: true, Phases: []swapPhase{
			{Ops: []mop{w(0, 0, 0x100, 0x11, 64), rd(0, 1, 0x100, 64), w(1, 0, 0x100, 0x91, 64), rd(1, 1, 0x100, 64)}},
			{Swaps: []swapAct{{Inst: 0, Kind: "fresh"}},
				Ops: []mop{rd(0, 0, 0x100, 64), w(0, 1, 0x140, 0x41, 64), rd(0, 1, 0x140, 64), wm(0, 0, 0x100, 0x61, 64), rd(0, 1, 0x100, 64), rd(1, 0, 0x100, 64)}},
			{Swaps: []swapAct{{Inst: 1, Kind: "sibling", From: 0}},
				Ops: []mop{rd(1, 0, 0x100, 64), rd(1, 0, 0x140, 64), w(1, 1, 0x180, 0x71, 64), rd(1, 1, 0x180, 64), rd(0, 0, 0x140, 64)}},
			{Ops: []mop{rd(0, 0, 0x180, 64), w(0, 0, 0x180, 0x19, 32), rd(0, 1, 0x180, 64)}},
			{Ops: []mop{rd(1, 0, 0x180, 64)}}}},
	}
}
