// multigen.go: generator and canonical battery of the multi-instance layer.
package main

import (
	"fmt"

	"verifharness/vlib"
)

// pg builds a builder program.
type pg struct {
	r           *vlib.PRNG
	steps       []step
	nvars       int
	nbuilds     int
	multiEngine bool
	storages    []int // values WithStorage may take when an option is varied
}

func (g *pg) newVar() int { g.nvars++; return g.nvars - 1 }

func (g *pg) mk() int {
	v := g.newVar()
	g.steps = append(g.steps, step{K: "make", Dst: v})
	return v
}

func (g *pg) build(v int) {
	g.steps = append(g.steps, step{K: "build", Src: v, Name: fmt.Sprintf("DRAM.Ch[%d]", g.nbuilds)})
	g.nbuilds++
}

func cpConv(c *convSpec) *convSpec {
	if c == nil {
		return nil
	}
	d := *c
	return &d
}

func cpSel(s *selSpec) *selSpec {
	if s == nil {
		return nil
	}
	d := *s
	return &d
}

// stepFor: the With… step that gives option opt the value it has in t.
func stepFor(opt string, t *bstate) step {
	st := step{K: "with", Opt: opt}
	switch opt {
	case oEngine:
		st.N = int64(t.Engine)
	case oFreq:
		st.N = t.FreqMHz
	case oNumBanks:
		st.N = int64(t.Banks)
	case oWidth:
		st.N = int64(t.Width)
	case oDepth:
		st.N = int64(t.Depth)
	case oStageLat:
		st.N = int64(t.StageLat)
	case oTopBuf:
		st.N = int64(t.TopBuf)
	case oPostBuf:
		st.N = int64(t.PostBuf)
	case oSelType:
		st.S = t.SelType
	case oLog2Inter:
		st.N = int64(t.Log2Inter)
	case oSelector:
		st.Sel = cpSel(t.Sel)
	case oStorage:
		st.N = int64(t.Storage)
	case oNewStorage:
		st.N = int64(t.Capacity)
	case oAddrConv:
		st.Conv = cpConv(t.AddrConv)
	case oRowLog2:
		st.N = int64(t.RowLog2)
	case oRowMiss:
		st.N = int64(t.RowMiss)
	case oBankConv:
		st.Conv = cpConv(t.BankConv)
	default:
		panic(opt)
	}
	return st
}

func randConv(r *vlib.PRNG) *convSpec {
	total := []int{1, 2, 4, 16}[r.Intn(4)]
	return &convSpec{Inter: uint64(1) << (6 + r.Intn(7)), Total: total, Idx: r.Intn(total)}
}

func randSel(r *vlib.PRNG) *selSpec {
	return &selSpec{Kind: []string{"xor", "rev"}[r.Intn(2)], Shift: uint64(6 + r.Intn(4))}
}

// vary gives option opt another valid value in t. free: the value will be
// overwritten before a Build (anything goes).
func (g *pg) vary(t *bstate, opt string, free bool) {
	r := g.r
	switch opt {
	case oEngine:
		if g.multiEngine || free {
			t.Engine = r.Intn(2)
		}
	case oFreq:
		t.FreqMHz = []int64{1000, 1000, 500, 2000, 800}[r.Intn(5)]
	case oNumBanks:
		t.Banks = []int{1, 2, 3, 4, 8, 16, 32}[r.Intn(7)]
	case oWidth:
		t.Width = 1 + r.Intn(4)
	case oDepth:
		t.Depth = 1 + r.Intn(8)
	case oStageLat:
		t.StageLat = 1 + r.Intn(4)
	case oTopBuf:
		t.TopBuf = []int{1, 2, 4, 16, 1024}[r.Intn(5)]
	case oPostBuf:
		t.PostBuf = []int{1, 2, 4, 64, 128}[r.Intn(5)]
	case oSelType:
		t.SelType = []string{"interleaved", "", "Interleaved", "INTERLEAVED"}[r.Intn(4)]
	case oLog2Inter:
		t.Log2Inter = uint64(6 + r.Intn(7))
	case oSelector:
		if r.Bool() {
			t.Sel = nil
		} else {
			t.Sel = randSel(r)
		}
	case oStorage:
		if free {
			t.Storage = r.Intn(numExplicitStorages+1) - 1
		} else {
			t.Storage = g.storages[r.Intn(len(g.storages))]
		}
	case oNewStorage:
		t.Capacity = []uint64{64 << 20, 256 << 20, 1 << 30}[r.Intn(3)]
	case oAddrConv:
		switch {
		case free:
			t.AddrConv = randConv(r)
		case r.Chance(1, 3):
			t.AddrConv = nil
		case t.BankConv != nil:
			t.AddrConv = cpConv(t.BankConv)
		default:
			t.AddrConv = randConv(r)
		}
	case oRowLog2:
		t.RowLog2 = []uint64{0, 8, 9, 10, 11, 12, 13}[r.Intn(7)]
	case oRowMiss:
		t.RowMiss = []int{0, 1, 3, 10, 52, 100}[r.Intn(6)]
	case oBankConv:
		switch {
		case free:
			t.BankConv = randConv(r)
		case r.Chance(1, 3):
			t.BankConv = nil
		case t.AddrConv != nil:
			t.BankConv = cpConv(t.AddrConv)
		default:
			t.BankConv = randConv(r)
		}
	default:
		panic(opt)
	}
}

// emit appends With… steps that give the options opts (in that order) the
// values of t; the first step derives dst from src, the others continue on
// dst. With probability decoyPct% an option is first set to some other value
// at an earlier position (the last call wins).
func (g *pg) emit(dst, src int, opts []string, t *bstate, decoyPct int) {
	type ent struct {
		opt   string
		decoy bool
	}
	var seq []ent
	for _, o := range opts {
		seq = append(seq, ent{o, false})
	}
	for _, o := range opts {
		if g.r.Intn(100) >= decoyPct {
			continue
		}
		pos := 0
		for i, e := range seq {
			if e.opt == o && !e.decoy {
				pos = i
			}
		}
		ins := g.r.Intn(pos + 1)
		seq = append(seq, ent{})
		copy(seq[ins+1:], seq[ins:])
		seq[ins] = ent{o, true}
	}
	if len(seq) == 0 {
		if dst != src {
			g.steps = append(g.steps, step{K: "copy", Dst: dst, Src: src})
		}
		return
	}
	for i, e := range seq {
		var st step
		if e.decoy {
			d := t.clone()
			g.vary(d, e.opt, true)
			st = stepFor(e.opt, d)
			st.Decoy = true
		} else {
			st = stepFor(e.opt, t)
		}
		st.Dst, st.Src = dst, dst
		if i == 0 {
			st.Src = src
		}
		g.steps = append(g.steps, st)
	}
}

func genTarget(r *vlib.PRNG) *bstate {
	c := genConfig(r, r.Chance(1, 6))
	t := defaultState()
	t.Engine = 0
	t.FreqMHz = []int64{1000, 1000, 1000, 1000, 500, 2000, 800}[r.Intn(7)]
	t.Banks, t.Log2Inter, t.Width, t.Depth, t.StageLat = c.Banks, c.Log2Inter, c.Width, c.Depth, c.StageLat
	t.TopBuf, t.PostBuf, t.RowLog2, t.RowMiss = c.TopBuf, c.PostBuf, c.RowLog2, c.RowMissDelay
	t.SelType = []string{"interleaved", "interleaved", "", "Interleaved"}[r.Intn(4)]
	if r.Chance(1, 4) {
		t.Sel = randSel(r)
	}
	t.Capacity = []uint64{64 << 20, 256 << 20, 1 << 30}[r.Intn(3)]
	if c.BankConv || c.AddrConv {
		sp := &convSpec{Inter: c.ConvInter, Total: c.ConvTotal, Idx: c.ConvIdx}
		both := r.Chance(1, 8)
		if c.BankConv || both {
			t.BankConv = sp
		}
		if c.AddrConv || both {
			t.AddrConv = cpConv(sp)
		}
	}
	return t
}

// resetDefault gives an option that is never set its MakeBuilder default.
func resetDefault(t *bstate, opt string) {
	d := defaultState()
	switch opt {
	case oFreq:
		t.FreqMHz = d.FreqMHz
	case oNumBanks:
		t.Banks = d.Banks
	case oWidth:
		t.Width = d.Width
	case oDepth:
		t.Depth = d.Depth
	case oStageLat:
		t.StageLat = d.StageLat
	case oTopBuf:
		t.TopBuf = d.TopBuf
	case oPostBuf:
		t.PostBuf = d.PostBuf
	case oSelType:
		t.SelType = d.SelType
	case oLog2Inter:
		t.Log2Inter = d.Log2Inter
	case oSelector:
		t.Sel = nil
	case oStorage:
		t.Storage = -1
	case oNewStorage:
		t.Capacity = d.Capacity
	case oAddrConv:
		t.AddrConv = nil
	case oRowLog2:
		t.RowLog2 = 0
	case oRowMiss:
		t.RowMiss = 0
	case oBankConv:
		t.BankConv = nil
	}
}

// included picks the options a chain sets (Engine always, explicit storage
// always, WithStorage(nil) sometimes, the others with probability pct%); the
// target's values of the options left out become the defaults.
func (g *pg) included(t *bstate, pct, newStoragePct int) []string {
	var inc []string
	for _, o := range allOpts {
		in := g.r.Intn(100) < pct
		switch o {
		case oEngine:
			in = true
		case oStorage:
			in = t.Storage >= 0 || g.r.Chance(1, 5)
		case oNewStorage:
			in = g.r.Intn(100) < newStoragePct
		}
		if in {
			inc = append(inc, o)
		} else {
			resetDefault(t, o)
		}
	}
	return inc
}

func (g *pg) shuffled(opts []string) []string {
	out := make([]string, len(opts))
	for i, j := range g.r.Perm(len(opts)) {
		out[i] = opts[j]
	}
	return out
}

func (g *pg) someOpts(k int) []string {
	p := g.r.Perm(len(allOpts))
	var out []string
	for _, i := range p[:k] {
		out = append(out, allOpts[i])
	}
	return out
}

var multiShapes = []string{"loop", "prefix", "reuse", "shared", "mixed"}

func genMulti(r *vlib.PRNG, idx int) multiScenario {
	shape := multiShapes[idx%len(multiShapes)]
	g := &pg{r: r, multiEngine: r.Chance(1, 5), storages: []int{-1}}
	n := 2 + r.Intn(3)
	switch shape {
	case "loop": // cfg := MakeBuilder().With…; for i := range n { cfg.Build(name(i)) }
		t := genTarget(r)
		if g.multiEngine {
			t.Engine = r.Intn(2)
		}
		if r.Chance(1, 6) {
			t.Storage = r.Intn(numExplicitStorages) // deliberately one array for all
		}
		inc := g.included(t, 85, 85)
		v := g.mk()
		g.emit(v, v, g.shuffled(inc), t, 15)
		for i := 0; i < n; i++ {
			g.build(v)
		}
	case "prefix": // base := MakeBuilder().With…; a := base.WithX().Build(); b := base.WithY().Build()
		t0 := genTarget(r)
		inc := g.included(t0, 85, 85)
		var pre, rest []string
		for _, o := range inc {
			inPre := r.Bool()
			if o == oEngine {
				inPre = !g.multiEngine || r.Bool()
			}
			if inPre {
				pre = append(pre, o)
			} else {
				rest = append(rest, o)
			}
		}
		v0 := g.mk()
		g.emit(v0, v0, g.shuffled(pre), t0, 15)
		deferred := r.Bool()
		var pending []int
		for i := 0; i < n; i++ {
			ti := t0.clone()
			var oi []string
			for _, o := range rest {
				if o == oEngine || r.Bool() {
					g.vary(ti, o, false)
				}
				oi = append(oi, o)
			}
			for _, o := range pre {
				if r.Chance(3, 20) {
					g.vary(ti, o, false)
					oi = append(oi, o)
				}
			}
			v := v0
			if len(oi) > 0 || r.Bool() {
				v = g.newVar()
				g.emit(v, v0, g.shuffled(oi), ti, 10)
			}
			if deferred {
				pending = append(pending, v)
			} else {
				g.build(v)
			}
		}
		for _, j := range r.Perm(len(pending)) {
			g.build(pending[j])
		}
	case "reuse": // b := …; A := b.Build(); b = b.WithX(); B := b.Build(); …
		t := genTarget(r)
		inc := g.included(t, 95, 90)
		v0 := g.mk()
		g.emit(v0, v0, g.shuffled(inc), t, 15)
		g.build(v0)
		for k := 1; k < n; k++ {
			ch := g.someOpts(1 + r.Intn(4))
			switch variant := r.Intn(20); {
			case variant < 12: // b = b.WithX(): the value changes, earlier builds must not
				for _, o := range ch {
					g.vary(t, o, false)
				}
				g.emit(v0, v0, ch, t, 10)
				g.build(v0)
			case variant < 17: // tmp := b.WithX(); tmp.Build(): b itself is unchanged
				tb := t.clone()
				for _, o := range ch {
					g.vary(tb, o, false)
				}
				vb := g.newVar()
				g.emit(vb, v0, ch, tb, 10)
				g.build(vb)
			default: // b.WithX() with the result dropped; b.Build() again
				td := t.clone()
				for _, o := range ch {
					g.vary(td, o, true)
				}
				g.emit(g.newVar(), v0, ch, td, 0)
				g.build(v0)
			}
		}
	case "shared": // independent builders, all WithStorage(s): one array, converted per component
		sid := r.Intn(numExplicitStorages)
		kind := r.Intn(4)
		inter := uint64(1) << (6 + r.Intn(7))
		for i := 0; i < n; i++ {
			t := genTarget(r)
			if g.multiEngine {
				t.Engine = r.Intn(2)
			}
			t.Storage = sid
			if r.Chance(3, 20) {
				t.Storage = -1 // a bystander with its own storage
			}
			sp := &convSpec{Inter: inter, Total: n, Idx: i}
			k := kind
			if k == 3 {
				k = r.Intn(4)
			}
			t.BankConv, t.AddrConv = nil, nil
			switch k {
			case 0: // the shipped MI300A arrangement
				t.BankConv = sp
			case 1:
				t.AddrConv = sp
			case 3:
				t.BankConv, t.AddrConv = sp, cpConv(sp)
			}
			bc, ac := t.BankConv, t.AddrConv
			inc := g.included(t, 85, 30)
			// the converters decide which addresses belong to the component: always as planned
			t.BankConv, t.AddrConv = bc, ac
			has := map[string]bool{}
			for _, o := range inc {
				has[o] = true
			}
			if bc != nil && !has[oBankConv] {
				inc = append(inc, oBankConv)
			}
			if ac != nil && !has[oAddrConv] {
				inc = append(inc, oAddrConv)
			}
			v := g.mk()
			g.emit(v, v, g.shuffled(inc), t, 10)
			g.build(v)
		}
	case "mixed": // one builder value: shared storage -> private (twice) -> shared again
		g.storages = []int{-1, 0, 1}
		sid := r.Intn(numExplicitStorages)
		t := genTarget(r)
		t.Storage = sid
		inc := g.included(t, 90, 50)
		v0 := g.mk()
		g.emit(v0, v0, g.shuffled(inc), t, 10)
		g.build(v0)
		// private now
		t.Storage = -1
		ch := []string{oStorage}
		if r.Bool() {
			g.vary(t, oNewStorage, false)
			ch = append(ch, oNewStorage)
		}
		for _, o := range g.someOpts(r.Intn(3)) {
			if o != oStorage && o != oNewStorage && o != oEngine {
				g.vary(t, o, false)
				ch = append(ch, o)
			}
		}
		g.emit(v0, v0, g.shuffled(ch), t, 0)
		g.build(v0)
		if n >= 3 {
			g.build(v0)
		}
		if n >= 4 {
			t.Storage = []int{sid, 1 - sid}[r.Intn(2)]
			ch = []string{oStorage}
			if r.Bool() {
				g.vary(t, oNewStorage, false)
				ch = append(ch, oNewStorage)
			}
			g.emit(v0, v0, g.shuffled(ch), t, 0)
			g.build(v0)
		}
	}
	ms := multiScenario{Name: fmt.Sprintf("m%d", idx), Shape: shape, Steps: g.steps}
	insts, _ := interpret(ms.Steps)
	ms.Reqs, ms.Ops = genMultiOps(r, insts)
	return ms
}

func refGroup(i int, c *bstate) string {
	if c.Storage >= 0 {
		return fmt.Sprintf("S%d", c.Storage)
	}
	return fmt.Sprintf("I%d", i)
}

func fillData(r *vlib.PRNG, o *op, i int) {
	o.Data = make([]byte, o.Size)
	r.Bytes(o.Data)
	for j := range o.Data { // never write 0 so that "unwritten" is distinguishable
		if o.Data[j] == 0 {
			o.Data[j] = byte(1 + (i+j)%250)
		}
	}
}

// genMultiOps: one interleaved stream; the same few local (internal) lines
// are hit on all instances, some lines are written on some instances only and
// read on the others.
func genMultiOps(r *vlib.PRNG, insts []inst) ([]reqCfg, []mop) {
	n := len(insts)
	reqs := make([]reqCfg, n)
	for i := range reqs {
		reqs[i] = reqCfg{InBuf: []int{1, 2, 8, 64}[r.Intn(4)], StallPct: []int{0, 0, 20, 60}[r.Intn(4)]}
	}
	hot := make([]uint64, 2+r.Intn(3))
	for i := range hot {
		hot[i] = uint64(r.Intn(8))
	}
	type virgin struct {
		line    uint64
		writers uint
	}
	vs := make([]virgin, 2)
	for i := range vs {
		vs[i] = virgin{line: uint64(8 + r.Intn(8)), writers: uint(1 + r.Intn((1<<n)-2))} // non-empty, not everybody
	}
	nOps := 30 + r.Intn(45*n)
	lastTouch := map[string]int{}
	var ops []mop
	in := 0
	for i := 0; i < nOps; i++ {
		if !r.Chance(3, 10) { // else: a burst on the same instance
			in = r.Intn(n)
		}
		c := insts[in].Cfg
		interLines := (uint64(1) << c.Log2Inter) / 64
		bankStride := interLines * uint64(c.Banks)
		rowLines := uint64(1)
		if c.RowLog2 > 6 {
			rowLines = (uint64(1) << c.RowLog2) / 64
		}
		var line uint64
		forceRead := false
		switch k := r.Intn(20); {
		case k < 9:
			line = hot[r.Intn(len(hot))]
		case k < 12:
			v := vs[r.Intn(len(vs))]
			line = v.line
			forceRead = v.writers&(1<<uint(in)) == 0
		case k < 14: // same bank as hot[0], another row
			line = hot[0] + uint64(1+r.Intn(6))*bankStride*((rowLines+interLines-1)/interLines)
		case k == 14 && c.Storage < 0 && c.Set[oNewStorage] && (c.AddrConv != nil || c.BankConv == nil):
			line = c.Capacity/64 - 1 - uint64(r.Intn(2)) // the last lines of its own capacity
		default:
			line = uint64(r.Intn(4096))
		}
		var o mop
		o.Inst = in
		switch r.Intn(4) {
		case 0:
			o.Gap = 0
		case 1:
			o.Gap = 1
		case 2:
			o.Gap = r.Intn(c.RowMiss + 6)
		default:
			o.Gap = r.Intn(4)
		}
		internal, size := lineAlignedAccess(r, line)
		o.Addr, o.Size = c.external(internal), size
		sa, _ := c.storageAddr(o.Addr)
		key := fmt.Sprintf("%s/%d", refGroup(in, c), sa>>6)
		if j, ok := lastTouch[key]; ok && j != in && r.Chance(17, 20) {
			o.Gap += 4 + r.Intn(4) // usually give two instances of one shared array a defined order
		}
		lastTouch[key] = in
		o.Write = r.Chance(11, 20) && !forceRead
		if o.Write {
			fillData(r, &o.op, i)
			if r.Chance(2, 5) {
				o.Mask = make([]bool, o.Size)
				for j := range o.Mask {
					o.Mask[j] = r.Bool()
				}
			}
		}
		ops = append(ops, o)
	}
	return reqs, ops
}

// ---------------------------------------------------------------------------
// canonical multi-instance scenarios (do not depend on the seed)

func canonicalMulti() []multiScenario {
	with := func(v int, opt string, n int64) step { return step{K: "with", Dst: v, Src: v, Opt: opt, N: n} }
	from := func(dst, src int, st step) step { st.Dst, st.Src = dst, src; return st }
	conv := func(v int, opt string, c *convSpec) step { return step{K: "with", Dst: v, Src: v, Opt: opt, Conv: c} }
	mk := func(v int) step { return step{K: "make", Dst: v} }
	nb := 0
	bld := func(v int) step { nb++; return step{K: "build", Src: v, Name: fmt.Sprintf("DRAM.Ch[%d]", nb-1)} }
	w := func(inst, gap int, addr uint64, b byte, n int) mop {
		d := make([]byte, n)
		for i := range d {
			d[i] = b + byte(i)*3 | 1
		}
		return mop{Inst: inst, op: op{Gap: gap, Write: true, Addr: addr, Size: n, Data: d}}
	}
	wm := func(inst, gap int, addr uint64, b byte, n int) mop { // every other byte enabled
		o := w(inst, gap, addr, b, n)
		o.Mask = make([]bool, n)
		for i := range o.Mask {
			o.Mask[i] = i%2 == 0
		}
		return o
	}
	rd := func(inst, gap int, addr uint64, n int) mop {
		return mop{Inst: inst, op: op{Gap: gap, Addr: addr, Size: n}}
	}
	plain := func(n int) []reqCfg {
		out := make([]reqCfg, n)
		for i := range out {
			out[i] = reqCfg{InBuf: 8}
		}
		return out
	}
	mi300a := func(v int) []step { // amd/samples/runner/timingconfig/mi300a/builder.go
		return []step{with(v, oEngine, 0), with(v, oFreq, 1000), with(v, oNumBanks, 16), with(v, oWidth, 1), with(v, oDepth, 5),
			with(v, oStageLat, 1), with(v, oRowLog2, 11), with(v, oRowMiss, 52), with(v, oLog2Inter, 6), with(v, oTopBuf, 1024), with(v, oPostBuf, 128)}
	}
	var out []multiScenario

	// 1: one configured channel builder, Build in a loop
	nb = 0
	out = append(out, multiScenario{Name: "canon-mi-loop-one-builder-value-newstorage", Shape: "loop",
		Steps: []step{mk(0), with(0, oEngine, 0), with(0, oFreq, 1000), with(0, oNumBanks, 4), with(0, oDepth, 2), with(0, oStageLat, 2),
			with(0, oRowLog2, 10), with(0, oRowMiss, 7), with(0, oNewStorage, 1<<20), bld(0), bld(0)},
		Reqs: plain(2),
		Ops: []mop{w(0, 0, 0x1000, 0x10, 64), rd(0, 30, 0x1000, 64), rd(1, 30, 0x1000, 64), wm(1, 30, 0x1020, 0x80, 32),
			rd(1, 30, 0x1000, 64), rd(0, 30, 0x1000, 64), w(1, 30, 0x2040, 0x55, 16), rd(0, 30, 0x2040, 16), rd(1, 30, 0x2040, 16),
			w(0, 0, 0x3000, 0x21, 64), w(1, 0, 0x3000, 0x91, 64), rd(0, 1, 0x3000, 64), rd(1, 0, 0x3000, 64)}})

	// 2: builders derived from a common prefix
	nb = 0
	st := append([]step{mk(0)}, mi300a(0)...)
	st = append(st, with(0, oNewStorage, 64<<20),
		from(1, 0, with(1, oNumBanks, 8)), bld(1),
		from(2, 0, with(2, oRowMiss, 10)), conv(2, oAddrConv, &convSpec{Inter: 4096, Total: 2, Idx: 1}), bld(2),
		bld(0))
	x2 := convSpec{Inter: 4096, Total: 2, Idx: 1}.toExternal // instance 1's external address of a local address
	out = append(out, multiScenario{Name: "canon-mi-common-prefix-newstorage-in-prefix", Shape: "prefix", Steps: st, Reqs: plain(3),
		Ops: []mop{w(0, 0, 0x40, 0x11, 64), rd(1, 70, x2(0x40), 64), rd(2, 0, 0x40, 64), wm(1, 70, x2(0x40), 0x41, 64), rd(0, 70, 0x40, 64),
			rd(1, 0, x2(0x40), 64), w(2, 70, 0x60, 0x71, 32), rd(2, 70, 0x40, 64), rd(0, 0, 0x40, 64), rd(1, 0, x2(0x60), 32),
			w(1, 0, x2(0x100000), 0x33, 64), rd(1, 1, x2(0x100000), 64), rd(0, 0, 0x100000, 64)}})

	// 3: the builder value is changed and re-used after a Build
	nb = 0
	st = append([]step{mk(0)}, mi300a(0)...)
	st = append(st, with(0, oNewStorage, 256<<20), bld(0),
		with(0, oNumBanks, 2), with(0, oDepth, 7), conv(0, oBankConv, &convSpec{Inter: 256, Total: 4, Idx: 3}), with(0, oNewStorage, 64<<20), bld(0),
		from(9, 0, with(9, oStageLat, 9)), with(9, oNewStorage, 128<<20), conv(9, oBankConv, nil), // result dropped
		bld(0))
	x3 := convSpec{Inter: 256, Total: 4, Idx: 3}.toExternal
	out = append(out, multiScenario{Name: "canon-mi-reuse-after-build", Shape: "reuse", Steps: st, Reqs: plain(3),
		Ops: []mop{w(1, 0, x3(0x80), 0x21, 64), w(2, 3, x3(0xC0), 0x61, 64), rd(0, 70, x3(0x80), 64), rd(0, 0, x3(0xC0), 64), w(0, 70, x3(0x80), 0x51, 64),
			rd(1, 70, x3(0x80), 64), rd(2, 0, x3(0x80), 64), rd(1, 0, x3(0xC0), 64), wm(2, 70, x3(0x80), 0x31, 16), rd(0, 70, x3(0x80), 64),
			rd(1, 0, x3(0x80), 64), rd(2, 0, x3(0x80), 64),
			w(0, 0, 256<<20-64, 0x77, 64), rd(0, 0, 256<<20-64, 64)}}) // A still has the capacity it was built with

	// 4: four independent builders on one explicit storage, the shipped MI300A arrangement
	nb = 0
	st = nil
	var ops []mop
	for i := 0; i < 4; i++ {
		sp := convSpec{Inter: 4096, Total: 4, Idx: i}
		st = append(st, mk(i))
		st = append(st, mi300a(i)...)
		st = append(st, conv(i, oBankConv, &sp), with(i, oStorage, 0), bld(i))
		ops = append(ops, w(i, 0, sp.toExternal(0x40), byte(0x11*(i+1)), 64), w(i, 1, sp.toExternal(0x2000), byte(0x13*(i+1)), 64))
	}
	for i := 0; i < 4; i++ {
		sp := convSpec{Inter: 4096, Total: 4, Idx: i}
		ops = append(ops, rd(i, 20, sp.toExternal(0x40), 64), rd(i, 0, sp.toExternal(0x2000), 64), rd(i, 0, sp.toExternal(0x80), 64))
	}
	out = append(out, multiScenario{Name: "canon-mi-shared-storage-mi300a", Shape: "shared", Steps: st, Reqs: plain(4), Ops: ops})

	// 5: three independent builders on one explicit storage whose local addresses alias
	nb = 0
	a0, a1 := convSpec{Inter: 4096, Total: 2, Idx: 0}, convSpec{Inter: 4096, Total: 2, Idx: 1}
	st = []step{mk(0), with(0, oStorage, 1), with(0, oEngine, 0), conv(0, oAddrConv, &a0), with(0, oNumBanks, 8), bld(0),
		mk(1), conv(1, oAddrConv, &a1), with(1, oEngine, 0), with(1, oNewStorage, 64<<20), with(1, oStorage, 1), with(1, oRowLog2, 10), with(1, oRowMiss, 20), bld(1),
		mk(2), with(2, oEngine, 0), with(2, oStorage, 1), with(2, oStageLat, 1), bld(2)}
	out = append(out, multiScenario{Name: "canon-mi-shared-storage-aliasing-converters", Shape: "shared", Steps: st, Reqs: plain(3),
		Ops: []mop{w(0, 0, a0.toExternal(0x80), 0x15, 64), rd(1, 40, a1.toExternal(0x80), 64), wm(2, 40, 0x80, 0x91, 64), rd(0, 40, a0.toExternal(0x80), 64),
			rd(1, 0, a1.toExternal(0xC0), 64), w(1, 40, a1.toExternal(0xC0), 0x23, 32), rd(2, 40, 0xC0, 64), rd(0, 0, a0.toExternal(0xC0), 64),
			w(2, 40, 0x1040, 0x37, 64), rd(0, 40, a0.toExternal(0x1040), 64), rd(1, 0, a1.toExternal(0x1040), 64)}})

	// 6: shared -> private (two builds of one value) -> shared again, on one builder value
	nb = 0
	st = []step{mk(0), with(0, oEngine, 0), with(0, oNumBanks, 4), with(0, oStageLat, 2), with(0, oStorage, 0), bld(0),
		with(0, oStorage, -1), with(0, oNewStorage, 64<<20), bld(0), bld(0),
		with(0, oNewStorage, 256<<20), with(0, oStorage, 0), bld(0)}
	out = append(out, multiScenario{Name: "canon-mi-storage-transitions-on-one-builder", Shape: "mixed", Steps: st, Reqs: plain(4),
		Ops: []mop{w(0, 0, 0x100, 0x19, 64), rd(3, 40, 0x100, 64), rd(1, 0, 0x100, 64), rd(2, 0, 0x100, 64), w(1, 40, 0x100, 0x49, 64),
			rd(2, 40, 0x100, 64), rd(0, 0, 0x100, 64), wm(2, 40, 0x100, 0x83, 64), rd(1, 40, 0x100, 64), rd(3, 0, 0x100, 64), rd(2, 0, 0x100, 64),
			wm(3, 40, 0x120, 0x67, 32), rd(0, 40, 0x100, 64), rd(1, 0, 0x100, 64)}})
	return out
}
