// w_c17: the real simplebankedmemory component under random request streams
// and configurations, judged against a flat byte-array model replayed in the
// arrival order observed at its Top port (DESIGN.md, C17).
package main

import (
	"bytes"
	"encoding/json"
	"fmt"
	"os"

	"github.com/sarchlab/akita/v4/mem/mem"
	"github.com/sarchlab/akita/v4/sim"
	"github.com/sarchlab/mgpusim/v4/amd/timing/mem/simplebankedmemory"

	"verifharness/vlib"
	"verifharness/vlib/simkit"
)

type config struct {
	Banks        int    `json:"banks"`
	Log2Inter    uint64 `json:"log2_interleave"`
	Width        int    `json:"pipe_width"`
	Depth        int    `json:"pipe_depth"`
	StageLat     int    `json:"stage_latency"`
	TopBuf       int    `json:"top_buf"`
	PostBuf      int    `json:"post_buf"`
	RowLog2      uint64 `json:"row_log2"`
	RowMissDelay int    `json:"row_miss_delay"`
	ReqInBuf     int    `json:"requester_in_buf"`
	StallPct     int    `json:"requester_stall_pct"`
	// address converters (as the MI300A builder uses them): this DRAM is element
	// ConvIdx of ConvTotal memory controllers interleaved at ConvInter bytes
	BankConv  bool   `json:"bank_address_converter"`
	AddrConv  bool   `json:"address_converter"`
	ConvTotal int    `json:"conv_total"`
	ConvIdx   int    `json:"conv_idx"`
	ConvInter uint64 `json:"conv_interleave"`
}

func (c config) converter() *mem.InterleavingConverter {
	return &mem.InterleavingConverter{InterleavingSize: c.ConvInter, TotalNumOfElements: c.ConvTotal, CurrentElementIndex: c.ConvIdx}
}

// external maps an address of this controller's own (internal) address space
// to the external address that belongs to this controller.
func (c config) external(internal uint64) uint64 {
	if !c.BankConv && !c.AddrConv {
		return internal
	}
	round := c.ConvInter * uint64(c.ConvTotal)
	return internal/c.ConvInter*round + uint64(c.ConvIdx)*c.ConvInter + internal%c.ConvInter
}

// bankAddr is the address the component uses for bank / row selection.
func (c config) bankAddr(ext uint64) uint64 {
	if c.BankConv || c.AddrConv {
		return c.converter().ConvertExternalToInternal(ext)
	}
	return ext
}

// storageAddr is the address the component uses for its storage.
func (c config) storageAddr(ext uint64) uint64 {
	if c.AddrConv {
		return c.converter().ConvertExternalToInternal(ext)
	}
	return ext
}

type op struct {
	Gap   int    `json:"gap"`
	Write bool   `json:"write"`
	Addr  uint64 `json:"addr"`
	Size  int    `json:"size"`
	Data  []byte `json:"data,omitempty"`
	Mask  []bool `json:"mask,omitempty"`
}

type scenario struct {
	Name string `json:"name"`
	Cfg  config `json:"cfg"`
	Ops  []op   `json:"ops"`
}

func genConfig(r *vlib.PRNG, shipped bool) config {
	if shipped {
		// amd/samples/runner/timingconfig/mi300a/builder.go
		return config{Banks: 16, Log2Inter: 6, Width: 1, Depth: 5, StageLat: 1,
			TopBuf: 1024, PostBuf: 128, RowLog2: 11, RowMissDelay: 52, ReqInBuf: 4 + r.Intn(8), StallPct: r.Intn(30),
			BankConv: true, ConvTotal: 16, ConvIdx: r.Intn(16), ConvInter: 4096}
	}
	c := config{
		Banks:     []int{1, 2, 3, 4, 8, 16, 32}[r.Intn(7)],
		Log2Inter: uint64(6 + r.Intn(7)),
		Width:     1 + r.Intn(4),
		Depth:     1 + r.Intn(8),
		StageLat:  1 + r.Intn(4),
		TopBuf:    []int{1, 2, 4, 16, 1024}[r.Intn(5)],
		PostBuf:   []int{1, 2, 4, 64}[r.Intn(4)],
		ReqInBuf:  []int{1, 2, 8, 64}[r.Intn(4)],
		StallPct:  []int{0, 0, 20, 60}[r.Intn(4)],
	}
	if r.Chance(2, 3) {
		c.RowLog2 = uint64(8 + r.Intn(6))
		c.RowMissDelay = []int{0, 1, 3, 10, 52, 100}[r.Intn(6)]
	}
	switch r.Intn(4) {
	case 0:
		c.BankConv = true
	case 1:
		c.AddrConv = true
	}
	if c.BankConv || c.AddrConv {
		c.ConvTotal = []int{1, 2, 4, 16}[r.Intn(4)]
		c.ConvIdx = r.Intn(c.ConvTotal)
		c.ConvInter = uint64(1) << (6 + r.Intn(7))
	}
	return c
}

// lineAlignedAccess picks (addr,size) with 1<=size<=64 that stays inside one
// 64-byte line, as the caches in front of the DRAM model produce.
func lineAlignedAccess(r *vlib.PRNG, line uint64) (uint64, int) {
	size := []int{1, 2, 4, 8, 16, 32, 64, 1 + r.Intn(64)}[r.Intn(8)]
	off := 0
	if size < 64 {
		off = r.Intn(64 - size + 1)
		if r.Bool() { // natural alignment most of the time
			off = off / size * size
			if off+size > 64 {
				off = 64 - size
			}
		}
	}
	return line*64 + uint64(off), size
}

func genScenario(r *vlib.PRNG, idx int) scenario {
	shipped := idx%5 == 0
	s := scenario{Name: fmt.Sprintf("s%d", idx), Cfg: genConfig(r, shipped)}
	c := s.Cfg
	nOps := 20 + r.Intn(120)
	// hot lines: same bank, same row; cold lines: same bank different rows; others anywhere
	interLines := (uint64(1) << c.Log2Inter) / 64
	bankStride := interLines * uint64(c.Banks) // lines between consecutive blocks of one bank
	hot := make([]uint64, 1+r.Intn(3))
	for i := range hot {
		hot[i] = uint64(r.Intn(4))
	}
	rowLines := uint64(1)
	if c.RowLog2 > 6 {
		rowLines = (uint64(1) << c.RowLog2) / 64
	}
	pickLine := func() uint64 {
		switch r.Intn(10) {
		case 0, 1, 2, 3, 4:
			return hot[r.Intn(len(hot))]
		case 5, 6:
			// same bank as hot[0], another row
			k := uint64(1 + r.Intn(6))
			return hot[0] + k*bankStride*((rowLines+interLines-1)/interLines)
		case 7:
			// same bank, probably same row
			return hot[0] + bankStride*uint64(r.Intn(2))
		default:
			return uint64(r.Intn(4096))
		}
	}
	maxGap := c.RowMissDelay + 5
	for i := 0; i < nOps; i++ {
		var o op
		switch r.Intn(4) {
		case 0:
			o.Gap = 0
		case 1:
			o.Gap = 1
		case 2:
			o.Gap = r.Intn(maxGap + 1)
		default:
			o.Gap = r.Intn(4)
		}
		o.Addr, o.Size = lineAlignedAccess(r, pickLine())
		o.Addr = c.external(o.Addr)
		o.Write = r.Chance(11, 20)
		if o.Write {
			o.Data = make([]byte, o.Size)
			r.Bytes(o.Data)
			for j := range o.Data { // never write 0 so that "unwritten" is distinguishable
				if o.Data[j] == 0 {
					o.Data[j] = byte(1 + i%250)
				}
			}
			if r.Chance(2, 5) {
				o.Mask = make([]bool, o.Size)
				for j := range o.Mask {
					o.Mask[j] = r.Bool()
				}
			}
		}
		s.Ops = append(s.Ops, o)
	}
	return s
}

// canonical scenarios do not depend on the seed.
func canonical() []scenario {
	mk := func(name string, rowLog2 uint64, miss int, ops []op) scenario {
		return scenario{Name: name, Cfg: config{Banks: 16, Log2Inter: 6, Width: 1, Depth: 5, StageLat: 1,
			TopBuf: 16, PostBuf: 1, RowLog2: rowLog2, RowMissDelay: miss, ReqInBuf: 16}, Ops: ops}
	}
	w := func(gap int, addr uint64, b byte, n int) op {
		return op{Gap: gap, Write: true, Addr: addr, Size: n, Data: bytes.Repeat([]byte{b}, n)}
	}
	rd := func(gap int, addr uint64, n int) op { return op{Gap: gap, Addr: addr, Size: n} }
	return []scenario{
		mk("canon-write-then-read-first-touch-mi300a", 11, 52, []op{w(0, 0x1000, 0xAB, 64), rd(1, 0x1000, 64)}),
		mk("canon-write-then-read-norow", 0, 0, []op{w(0, 0x1000, 0xAB, 64), rd(0, 0x1000, 64)}),
		mk("canon-two-writes-then-read-after-row-switch", 11, 52, []op{
			w(0, 0x0000, 0x11, 64), rd(60, 0x0000, 64), // open row 0
			w(0, 0x100000, 0x22, 64), // other row of bank 0: miss
			w(1, 0x0000, 0x33, 64),   // back to row 0: miss again
			rd(1, 0x0000, 64), rd(100, 0x0000, 64), rd(0, 0x100000, 64)}),
		mk("canon-masked", 11, 52, []op{w(0, 0x40, 0x55, 64), rd(80, 0x40, 64),
			{Gap: 0, Write: true, Addr: 0x40, Size: 4, Data: []byte{1, 2, 3, 4}, Mask: []bool{true, false, false, true}},
			rd(0, 0x40, 8)}),
	}
}

type arrival struct {
	seq   int
	cycle int64
	req   mem.AccessReq
	opIdx int
}

func rowOf(c config, addr uint64) (bank int, row uint64) {
	addr = c.bankAddr(addr)
	inter := uint64(1) << c.Log2Inter
	blk := addr / inter
	bank = int(blk % uint64(c.Banks))
	local := (blk/uint64(c.Banks))*inter + addr&(inter-1)
	return bank, local >> c.RowLog2
}

func runScenario(rec vlib.Recorder, s scenario) {
	rec.Eval()
	c := s.Cfg
	engine := sim.NewSerialEngine()
	freq := 1 * sim.GHz
	b := simplebankedmemory.MakeBuilder().
		WithEngine(engine).WithFreq(freq).
		WithNumBanks(c.Banks).WithLog2InterleaveSize(c.Log2Inter).
		WithBankPipelineWidth(c.Width).WithBankPipelineDepth(c.Depth).WithStageLatency(c.StageLat).
		WithTopPortBufferSize(c.TopBuf).WithPostPipelineBufferSize(c.PostBuf).
		WithNewStorage(1 << 30)
	if c.RowLog2 > 0 {
		b = b.WithRowBufferSizeLog2(c.RowLog2).WithRowMissDelay(c.RowMissDelay)
	}
	if c.BankConv {
		b = b.WithBankAddressConverter(c.converter())
	}
	if c.AddrConv {
		b = b.WithAddressConverter(c.converter())
	}
	dram := b.Build("DRAM")
	top := dram.GetPortByName("Top")

	req := simkit.NewRequester("Req", engine, freq, c.ReqInBuf, 4)
	stall := vlib.NewPRNG(uint64(len(s.Ops))*7919 + uint64(c.StallPct))
	if c.StallPct > 0 {
		req.StallFn = func(int64) bool { return stall.Intn(100) < c.StallPct }
	}
	simkit.Connect(engine, freq, "Conn", req.Out, top)
	log := simkit.NewLog(engine, freq)
	log.Attach(top, "Top")

	idToOp := map[string]int{}
	cycle := int64(1)
	for i, o := range s.Ops {
		cycle += int64(o.Gap)
		var m sim.Msg
		if o.Write {
			wb := mem.WriteReqBuilder{}.WithSrc(req.Out.AsRemote()).WithDst(top.AsRemote()).
				WithAddress(o.Addr).WithData(append([]byte(nil), o.Data...))
			if o.Mask != nil {
				wb = wb.WithDirtyMask(append([]bool(nil), o.Mask...))
			}
			m = wb.Build()
		} else {
			m = mem.ReadReqBuilder{}.WithSrc(req.Out.AsRemote()).WithDst(top.AsRemote()).
				WithAddress(o.Addr).WithByteSize(uint64(o.Size)).Build()
		}
		idToOp[m.Meta().ID] = i
		req.Plan = append(req.Plan, simkit.Planned{NotBefore: cycle, Msg: m})
	}
	req.TickLater()

	limit := int64(len(s.Ops))*int64(2000+20*(c.RowMissDelay+c.Depth*c.StageLat)) + 100000
	nEv, livelock, pv := simkit.RunBounded(engine, limit)
	rec.Count("engine_events", nEv)
	wit := func(extra map[string]any) map[string]any {
		m := map[string]any{"scenario": s}
		for k, v := range extra {
			m[k] = v
		}
		return m
	}
	if pv != nil {
		rec.Violation("C17|crash|"+classOf(c), fmt.Sprintf("memory model panicked on a valid request stream: %v", pv), wit(nil))
		return
	}
	if livelock {
		rec.Violation("C17|no-termination|"+classOf(c), "engine exceeded the event bound (requests never all answered)", wit(nil))
		return
	}

	// ---- offline checker over the Top port log ----
	var arrivals []arrival
	rsps := map[string][]sim.Msg{}
	for _, e := range log.Snapshot() {
		switch e.Kind {
		case simkit.KRecv:
			if ar, ok := e.Msg.(mem.AccessReq); ok {
				arrivals = append(arrivals, arrival{seq: e.Seq, cycle: e.Cycle, req: ar, opIdx: idToOp[ar.Meta().ID]})
			}
		case simkit.KSend:
			if r, ok := e.Msg.(sim.Rsp); ok {
				rsps[r.GetRspTo()] = append(rsps[r.GetRspTo()], e.Msg)
			}
		}
	}
	rec.Count("requests_arrived", int64(len(arrivals)))
	if len(arrivals) != len(s.Ops) || !req.Done() {
		rec.Violation("C17|request-not-accepted|"+classOf(c),
			fmt.Sprintf("engine went idle with %d of %d requests delivered", len(arrivals), len(s.Ops)), wit(nil))
		return
	}
	// exactly one response each, delivered to the requester
	got := map[string]int{}
	for _, g := range req.Got {
		if r, ok := g.Msg.(sim.Rsp); ok {
			got[r.GetRspTo()]++
		}
	}
	for _, a := range arrivals {
		id := a.req.Meta().ID
		if n := len(rsps[id]); n != 1 {
			rec.Violation(fmt.Sprintf("C17|responses-sent=%d|%s", n, classOf(c)),
				fmt.Sprintf("request %d (op %d) got %d responses at the Top port", a.seq, a.opIdx, n), wit(map[string]any{"op": a.opIdx}))
			return
		}
		if got[id] != 1 {
			rec.Violation(fmt.Sprintf("C17|responses-delivered=%d|%s", got[id], classOf(c)),
				fmt.Sprintf("requester received %d responses for op %d", got[id], a.opIdx), wit(map[string]any{"op": a.opIdx}))
			return
		}
	}
	rec.Count("responses_checked", int64(len(arrivals)))

	// replay arrivals on the flat model
	model := map[uint64]byte{}
	lastWriter := map[uint64]int{} // byte -> arrival index of last write
	type rowState struct {
		valid bool
		row   uint64
	}
	rows := make([]rowState, c.Banks)
	rowEnabled := c.RowLog2 > 0 && c.RowMissDelay > 0
	missAt := map[int]bool{}
	raw := false
	for ai, a := range arrivals {
		addr := a.req.GetAddress()
		bank, row := 0, uint64(0)
		hit := false
		if rowEnabled {
			bank, row = rowOf(c, addr)
			hit = rows[bank].valid && rows[bank].row == row
			rows[bank] = rowState{true, row}
			missAt[ai] = !hit
		}
		switch r := a.req.(type) {
		case *mem.WriteReq:
			rec.Count("writes", 1)
			if r.DirtyMask != nil {
				rec.Count("masked_writes", 1)
			}
			for j := range r.Data {
				if r.DirtyMask == nil || r.DirtyMask[j] {
					model[addr+uint64(j)] = r.Data[j]
					lastWriter[addr+uint64(j)] = ai
				}
			}
		case *mem.ReadReq:
			rec.Count("reads", 1)
			rsp, ok := rsps[r.ID][0].(*mem.DataReadyRsp)
			if !ok {
				rec.Violation("C17|wrong-response-type|"+classOf(c), "read answered by a non-data response", wit(map[string]any{"op": a.opIdx}))
				return
			}
			if uint64(len(rsp.Data)) != r.AccessByteSize {
				rec.Violation("C17|read-size|"+classOf(c), fmt.Sprintf("read of %d bytes answered with %d bytes", r.AccessByteSize, len(rsp.Data)), wit(map[string]any{"op": a.opIdx}))
				return
			}
			for j := uint64(0); j < r.AccessByteSize; j++ {
				want := model[addr+j]
				if w, ok := lastWriter[addr+j]; ok {
					rec.Count("read_bytes_after_write", 1)
					if a.cycle-arrivals[w].cycle <= int64(c.RowMissDelay+c.Depth*c.StageLat) {
						raw = true
					}
				}
				if rsp.Data[j] != want {
					key := "C17|stale-or-wrong-read|" + classOf(c)
					what := fmt.Sprintf("op %d: read of 0x%x byte %d returned 0x%02x, most recent earlier-arrived write gave 0x%02x", a.opIdx, addr, j, rsp.Data[j], want)
					if w, ok := lastWriter[addr+j]; ok && rowEnabled && hit && anyMissPending(arrivals, missAt, w, ai, c) {
						key = "C17|row-hit-overtakes-pending-row-miss-same-bank"
						what += " (the read is a row hit issued while an earlier row-miss request of the same bank was still waiting out its row-miss delay)"
					}
					rec.Violation(key, what, wit(map[string]any{"op": a.opIdx, "byte": j, "arrival_cycle": a.cycle}))
					return
				}
			}
		}
		_ = bank
	}
	// final storage
	for ad, v := range model {
		d, err := dram.Storage.Read(c.storageAddr(ad), 1)
		if err != nil || d[0] != v {
			key := "C17|final-storage|" + classOf(c)
			if rowEnabled {
				key = "C17|final-storage|row-buffer-reordering"
			}
			rec.Violation(key, fmt.Sprintf("final storage byte 0x%x = 0x%02x, model 0x%02x", ad, d[0], v), wit(map[string]any{"addr": ad}))
			return
		}
	}
	rec.Count("final_bytes_compared", int64(len(model)))
	rec.Distinct("config", fmt.Sprintf("%+v", c))
	if raw {
		rec.Nontrivial(s.Name)
	}
	rec.Sample(map[string]any{"name": s.Name, "cfg": c, "ops": len(s.Ops), "first_ops": s.Ops[:min(3, len(s.Ops))]})
}

// anyMissPending: between the conflicting write's arrival (index w) and the
// read (index r) was there a request of the read's bank that the harness'
// own row model classifies as a row miss and that arrived less than
// rowMissDelay (+pipeline) cycles before the read?
func anyMissPending(arr []arrival, missAt map[int]bool, w, r int, c config) bool {
	rb, _ := rowOf(c, arr[r].req.GetAddress())
	for i := w; i < r; i++ {
		b, _ := rowOf(c, arr[i].req.GetAddress())
		if b == rb && missAt[i] && arr[r].cycle-arr[i].cycle <= int64(c.RowMissDelay+2) {
			return true
		}
	}
	return false
}

func classOf(c config) string {
	if c.RowLog2 > 0 && c.RowMissDelay > 0 {
		return "rowbuf"
	}
	return "norowbuf"
}

func replay(c *vlib.Check, b []byte) {
	var f struct {
		Witness struct {
			Scenario *scenario      `json:"scenario"`
			Multi    *multiScenario `json:"multi"`
			Swap     *swapScenario  `json:"swap"`
		} `json:"witness"`
	}
	if err := json.Unmarshal(b, &f); err != nil {
		fmt.Println("cannot parse replay:", err)
		os.Exit(2)
	}
	switch {
	case f.Witness.Multi != nil:
		fmt.Printf("[C17] replaying multi-instance scenario %s (%d steps, %d ops)\n", f.Witness.Multi.Name, len(f.Witness.Multi.Steps), len(f.Witness.Multi.Ops))
		runMulti(c, *f.Witness.Multi)
	case f.Witness.Swap != nil:
		fmt.Printf("[C17] replaying storage-field scenario %s (%d phases)\n", f.Witness.Swap.Name, len(f.Witness.Swap.Phases))
		runSwap(c, *f.Witness.Swap)
	case f.Witness.Scenario != nil:
		fmt.Printf("[C17] replaying scenario %s (%d ops)\n", f.Witness.Scenario.Name, len(f.Witness.Scenario.Ops))
		runScenario(c, *f.Witness.Scenario)
	default:
		fmt.Println("replay file carries no scenario")
		os.Exit(2)
	}
}

func main() {
	// read a replay file before vlib.Start, which removes stale replay files of the same (tier, seed)
	var replayData []byte
	for i, a := range os.Args {
		if a == "--replay" && i+1 < len(os.Args) {
			b, err := os.ReadFile(os.Args[i+1])
			if err != nil {
				fmt.Println("cannot read replay:", err)
				os.Exit(2)
			}
			replayData = b
		}
	}
	c := vlib.Start("C17")
	sim.GetIDGenerator() // akita initialises it lazily without synchronisation
	if replayData != nil {
		replay(c, replayData)
		c.Finish(vlib.FinishOpts{Rule: "replay of one recorded scenario", MinNontrivial: 0})
	}
	n := c.N(1500, 400000)
	nMulti := c.N(500, 40000)
	nSwap := c.N(200, 20000)
	if os.Getenv("C17_ONLY_CANONICAL") != "" { // debugging aid: the seed-independent battery alone
		n, nMulti, nSwap = 0, 0, 0
	}
	var jobs []func()
	for _, s := range canonical() {
		jobs = append(jobs, func() { runScenario(c, s) })
	}
	for _, m := range canonicalMulti() {
		jobs = append(jobs, func() { runMulti(c, m) })
	}
	base := c.Rand("scenarios")
	for i := 0; i < n; i++ {
		jobs = append(jobs, func() { runScenario(c, genScenario(base.ForkN("s", i), i)) })
	}
	mbase := c.Rand("multi")
	for i := 0; i < nMulti; i++ {
		jobs = append(jobs, func() { runMulti(c, genMulti(mbase.ForkN("m", i), i)) })
	}
	for _, sc := range canonicalSwap() {
		jobs = append(jobs, func() { runSwap(c, sc) })
	}
	sbase := c.Rand("storage-field")
	for i := 0; i < nSwap; i++ {
		jobs = append(jobs, func() { runSwap(c, genSwap(sbase.ForkN("f", i), i)) })
	}
	vlib.Parallel(len(jobs), 0, func(i int) { jobs[i]() })
	c.Count("mi_opt_order_pairs_covered", int64(c.DistinctCount("mi_opt_order")))
	c.Count("mi_opts_changed_after_build", int64(c.DistinctCount("mi_opt_changed_after_build")))
	min := map[string]int64{"reads": 100, "writes": 100, "masked_writes": 10, "read_bytes_after_write": 100,
		// multi-instance layer
		"mi_scenarios": 6, "mi_instances": 18, "mi_same_addr_other_instance_accesses": 30, "mi_never_written_read_bytes": 300,
		"mi_discriminating_read_bytes": 300, "mi_never_written_sibling_written_read_bytes": 100, "mi_shared_cross_instance_read_bytes": 200,
		"mi_masked_writes": 4, "mi_twin_ops_compared": 60}
	// storage-field layer (Comp.Storage reassigned after Build)
	for k, v := range map[string]int64{"sf_swaps": 3, "sf_swaps_before_first_request": 1, "sf_swaps_between_requests": 2,
		"sf_discriminating_read_bytes": 300, "sf_prepopulated_read_bytes": 100, "sf_writes_after_reassignment": 5} {
		min[k] = v
	}
	if nSwap > 0 {
		for k, v := range map[string]int64{"sf_swaps": 200, "sf_swaps_fresh": 30, "sf_swaps_prepop": 50, "sf_swaps_sibling": 20,
			"sf_swaps_before_first_request": 30, "sf_swaps_between_requests": 100,
			"sf_discriminating_read_bytes": 20000, "sf_prepopulated_read_bytes": 10000, "sf_writes_after_reassignment": 1000} {
			min[k] = v
		}
	}
	if nMulti > 0 {
		for k, v := range map[string]int64{"mi_scenarios": 400, "mi_instances": 1000, "mi_same_addr_other_instance_accesses": 5000,
			"mi_never_written_read_bytes": 20000, "mi_discriminating_read_bytes": 20000, "mi_never_written_sibling_written_read_bytes": 10000,
			"mi_shared_cross_instance_read_bytes": 5000, "mi_masked_writes": 3000, "mi_twin_ops_compared": 20000,
			"mi_opt_order_pairs_covered": int64(len(allOpts) * (len(allOpts) - 1)), "mi_opts_changed_after_build": int64(len(allOpts))} {
			min[k] = v
		}
	}
	c.Finish(vlib.FinishOpts{
		Rule: "scenario = (configuration, timed stream of reads / full writes / masked writes, each inside one 64-byte line); " +
			"generated from VERIF_SEED plus a fixed canonical battery; non-trivial = distinct scenario in which a read of a byte " +
			"arrived within (rowMissDelay + pipeline latency) cycles after the most recent write to that byte. " +
			"Multi-instance scenario = (builder program producing 2..4 components from one builder value / a common prefix / independent builders on one explicit storage, " +
			"interleaved stream hitting the same local addresses on several of them); non-trivial = a judged read of a byte for which another storage group holds a " +
			"different value at the same storage address, or (explicitly shared storage) whose most recent write came through another component",
		Assumptions: []string{
			"accesses stay within one 64-byte line and interleave >= 64 bytes (what the caches in front of the DRAM model issue)",
			"arrival order = order of 'recv' hook events at the component's Top port",
			"requester follows akita's port protocol; unique request ids",
			"a builder is a value: With… changes the returned copy only, the last With… of an option wins, Build does not change the builder; components get a private storage unless WithStorage passed one",
			"components that were explicitly given one storage: two requests of different components to the same storage line that arrive within two component cycles of each other have no defined order and are not judged",
			"WithStorage(s) followed by WithNewStorage(c) on one builder value: either outcome (s, or a private storage) is accepted",
			"Comp.Storage (exported) may be reassigned while the engine is idle and no request is in flight; from then on the component is a memory over the storage the field points to",
		},
		MinNontrivial: 20,
		MinCounters:   min,
	})
}
